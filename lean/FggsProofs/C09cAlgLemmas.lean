/-
Helper lemmas for Props/C09c.lean, part 1 (scalar algebra):
sums over lists in a commutative semiring record, the Floyd–Warshall–Kleene closure `fw`, the closed form
`solveLoop (tab A) c = c + (fw A n)·c` of the Gauss–Jordan/Lehmann loop, hence: the solution operator
`sig A c` is a solution (`sig_sol`), is below every pre-fixed point (`sig_least`), and is adjoint to the one of
the transposed matrix (`sig_adjoint`; this is what makes `a[x,z] ← (a[z,z]ᵀ.solve(a[x,z]ᵀ))ᵀ` equal to
`a[x,z]·a[z,z]*`).
-/
import FggsModel.Solve
import FggsProofs.Props.C01
import FggsProofs.Props.C09
import FggsProofs.Props.C09b
import FggsProofs.C09bLemmas
import Mathlib.Data.List.Basic
import Mathlib.Data.List.Perm.Basic

set_option linter.unusedSimpArgs false
set_option linter.unusedVariables false

namespace C09cL
open Fggs Fggs.Sem Fggs.Sv C09bL

variable {K : Type}

/-! ### more of the algebra toolkit -/
section toolkit
variable {S : SR K} (hS : C01.SRLaws S)
include hS

theorem mul_zero (a : K) : S.mul a S.zero = S.zero := by rw [hS.mul_comm, hS.zero_mul]

theorem sum_append (l₁ l₂ : List K) : S.sum (l₁ ++ l₂) = S.add (S.sum l₁) (S.sum l₂) := by
  induction l₁ with
  | nil => simp [sum_nil', hS.zero_add]
  | cons a l ih => rw [List.cons_append, sum_cons hS, sum_cons hS, ih, hS.add_assoc]

theorem sum_range_succ (f : Nat → K) (k : Nat) :
    S.sum ((List.range (k+1)).map f) = S.add (S.sum ((List.range k).map f)) (f k) := by
  rw [List.range_succ, List.map_append, sum_append hS, List.map_singleton, sum_cons hS, sum_nil',
    add_zero hS]

theorem sum_map_mul_right {α : Type} (l : List α) (f : α → K) (c : K) :
    S.sum (l.map (fun x => S.mul (f x) c)) = S.mul (S.sum (l.map f)) c := by
  induction l with
  | nil => simp [sum_nil', hS.zero_mul]
  | cons a l ih => simp only [List.map_cons, sum_cons hS, ih, right_distrib hS]

theorem sum_map_zero {α : Type} (l : List α) : S.sum (l.map (fun _ => S.zero)) = S.zero := by
  induction l with
  | nil => rfl
  | cons a l ih => rw [List.map_cons, sum_cons hS, ih, hS.zero_add]

theorem sum_map_zero' {α : Type} (l : List α) (f : α → K) (h : ∀ x ∈ l, f x = S.zero) :
    S.sum (l.map f) = S.zero := by
  rw [sum_map_congr l f (fun _ => S.zero) h, sum_map_zero hS]

theorem sum_comm {α β : Type} (l₁ : List α) (l₂ : List β) (f : α → β → K) :
    S.sum (l₁.map (fun x => S.sum (l₂.map (fun y => f x y)))) =
    S.sum (l₂.map (fun y => S.sum (l₁.map (fun x => f x y)))) := by
  induction l₁ with
  | nil => simp only [List.map_nil, sum_nil', sum_map_zero hS]
  | cons a l ih =>
    simp only [List.map_cons, sum_cons hS, ih]
    rw [sum_map_add hS]

theorem sum_perm (l l' : List K) (h : l.Perm l') : S.sum l = S.sum l' := by
  induction h with
  | nil => rfl
  | cons a _ ih => rw [sum_cons hS, sum_cons hS, ih]
  | swap a b l =>
    rw [sum_cons hS, sum_cons hS, sum_cons hS, sum_cons hS, ← hS.add_assoc, ← hS.add_assoc,
      hS.add_comm a b]
  | trans _ _ ih1 ih2 => rw [ih1, ih2]

theorem sum_map_perm {α : Type} (l l' : List α) (h : l.Perm l') (f : α → K) :
    S.sum (l.map f) = S.sum (l'.map f) := sum_perm hS _ _ (h.map f)

/-- a sum in which exactly one (duplicate-free) index carries a value -/
theorem sum_single {α : Type} [DecidableEq α] (l : List α) (hnd : l.Nodup) (x0 : α) (hx0 : x0 ∈ l) (v : K) :
    S.sum (l.map (fun x => if x = x0 then v else S.zero)) = v := by
  induction l with
  | nil => cases hx0
  | cons a l ih =>
    rw [List.map_cons, sum_cons hS]
    rw [List.nodup_cons] at hnd
    by_cases ha : a = x0
    · subst ha
      rw [if_pos rfl, sum_map_zero' hS, add_zero hS]
      intro x hx
      rw [if_neg]
      rintro rfl
      exact hnd.1 hx
    · rw [if_neg ha, hS.zero_add]
      exact ih hnd.2 (by rcases List.mem_cons.1 hx0 with h | h; exact absurd h.symm ha; exact h)

end toolkit

/-! ### dot products of functions -/

/-- `Σ_{l<n} f l · g l` -/
def dot (S : SR K) (n : Nat) (f g : Nat → K) : K :=
  S.sum ((List.range n).map (fun l => S.mul (f l) (g l)))

theorem dot_congr (S : SR K) (n : Nat) (f f' g g' : Nat → K)
    (hf : ∀ l, l < n → f l = f' l) (hg : ∀ l, l < n → g l = g' l) : dot S n f g = dot S n f' g' := by
  unfold dot
  apply sum_map_congr
  intro l hl
  rw [hf l (List.mem_range.1 hl), hg l (List.mem_range.1 hl)]

section dot
variable {S : SR K} (hS : C01.SRLaws S)
include hS

theorem dot_comm (n : Nat) (f g : Nat → K) : dot S n f g = dot S n g f := by
  unfold dot
  apply sum_map_congr
  intro l _
  exact hS.mul_comm _ _

theorem dot_zero_right (n : Nat) (f g : Nat → K) (hg : ∀ l, l < n → g l = S.zero) : dot S n f g = S.zero := by
  unfold dot
  apply sum_map_zero' hS
  intro l hl
  rw [hg l (List.mem_range.1 hl), mul_zero hS]

theorem dot_zero_left (n : Nat) (f g : Nat → K) (hf : ∀ l, l < n → f l = S.zero) : dot S n f g = S.zero := by
  rw [dot_comm hS]; exact dot_zero_right hS n g f hf

theorem dot_add_right (n : Nat) (f g h : Nat → K) :
    dot S n f (fun l => S.add (g l) (h l)) = S.add (dot S n f g) (dot S n f h) := by
  unfold dot
  rw [← sum_map_add hS]
  apply sum_map_congr
  intro l _
  exact hS.left_distrib _ _ _

theorem dot_add_left (n : Nat) (f g h : Nat → K) :
    dot S n (fun l => S.add (f l) (g l)) h = S.add (dot S n f h) (dot S n g h) := by
  rw [dot_comm hS, dot_add_right hS, dot_comm hS n h f, dot_comm hS n h g]

theorem dot_smul_right (n : Nat) (f g : Nat → K) (c : K) :
    dot S n f (fun l => S.mul c (g l)) = S.mul c (dot S n f g) := by
  unfold dot
  rw [← sum_map_mul_left hS]
  apply sum_map_congr
  intro l _
  rw [← hS.mul_assoc, hS.mul_comm (f l) c, hS.mul_assoc]

/-- `Σ_l f l · (Σ_j G l j · h j) = Σ_j (Σ_l f l · G l j) · h j` -/
theorem dot_assoc (n m : Nat) (f : Nat → K) (G : Nat → Nat → K) (h : Nat → K) :
    dot S n f (fun l => dot S m (G l) h) = dot S m (fun j => dot S n f (fun l => G l j)) h := by
  unfold dot
  have e1 : ∀ l, S.mul (f l) (S.sum ((List.range m).map (fun j => S.mul (G l j) (h j)))) =
      S.sum ((List.range m).map (fun j => S.mul (S.mul (f l) (G l j)) (h j))) := by
    intro l
    rw [← sum_map_mul_left hS]
    apply sum_map_congr
    intro j _
    rw [hS.mul_assoc]
  have e2 : ∀ j, S.mul (S.sum ((List.range n).map (fun l => S.mul (f l) (G l j)))) (h j) =
      S.sum ((List.range n).map (fun l => S.mul (S.mul (f l) (G l j)) (h j))) := by
    intro j
    rw [← sum_map_mul_right hS]
  simp only [e1, e2]
  exact sum_comm hS _ _ _

end dot

/-! ### the Floyd–Warshall–Kleene closure and the closed form of the loop -/

/-- `fw A k`: `A` closed under paths through the intermediate indices `< k` (at least one step) -/
def fw (S : SR K) (star : K → K) (A : Nat → Nat → K) : Nat → Nat → Nat → K
  | 0 => A
  | k+1 => fun i j => S.add (fw S star A k i j)
      (S.mul (S.mul (fw S star A k i k) (star (fw S star A k k k))) (fw S star A k k j))

theorem fw_transpose {S : SR K} (hS : C01.SRLaws S) (star : K → K) (A : Nat → Nat → K) (k i j : Nat) :
    fw S star (fun i j => A j i) k i j = fw S star A k j i := by
  induction k generalizing i j with
  | zero => rfl
  | succ k ih =>
    simp only [fw, ih]
    congr 1
    rw [hS.mul_assoc, hS.mul_comm, hS.mul_comm (star _), hS.mul_assoc, hS.mul_comm (star _)]

theorem fw_zero {S : SR K} (hS : C01.SRLaws S) (star : K → K) (k i j : Nat) :
    fw S star (fun _ _ => S.zero) k i j = S.zero := by
  induction k generalizing i j with
  | zero => rfl
  | succ k ih => simp only [fw, ih, hS.zero_mul, hS.zero_add]

theorem fw_congr (S : SR K) (star : K → K) (n : Nat) (A A' : Nat → Nat → K)
    (h : ∀ i j, i < n → j < n → A i j = A' i j) (k : Nat) (hk : k ≤ n) (i j : Nat) (hi : i < n) (hj : j < n) :
    fw S star A k i j = fw S star A' k i j := by
  induction k generalizing i j with
  | zero => exact h i j hi hj
  | succ k ih =>
    have hk' : k < n := by omega
    simp only [fw]
    rw [ih (by omega) i j hi hj, ih (by omega) i k hi hk', ih (by omega) k k hk' hk', ih (by omega) k j hk' hj]

/-- the square table of a function -/
def tab (n : Nat) (A : Nat → Nat → K) : List (List K) :=
  (List.range n).map (fun i => (List.range n).map (fun j => A i j))

def tabv (n : Nat) (c : Nat → K) : List K := (List.range n).map c

theorem tab_length (n : Nat) (A : Nat → Nat → K) : (tab n A).length = n := by simp [tab]
theorem tabv_length (n : Nat) (c : Nat → K) : (tabv n c).length = n := by simp [tabv]

theorem tab_square (n : Nat) (A : Nat → Nat → K) (c : Nat → K) : C09.Square (tab n A) (tabv n c) := by
  refine ⟨?_, by simp [tab, tabv]⟩
  intro r hr
  simp only [tab, List.mem_map, List.mem_range] at hr
  obtain ⟨i, _, rfl⟩ := hr
  simp [tab]

theorem getM_tab' (S : SR K) (n : Nat) (A : Nat → Nat → K) (i j : Nat) (hi : i < n) (hj : j < n) :
    getM S (tab n A) i j = A i j := getM_tab S n A i j hi hj

theorem getV_tabv (S : SR K) (n : Nat) (c : Nat → K) (i : Nat) (hi : i < n) :
    getV S (tabv n c) i = c i := getV_tab S n c i hi

/-- the solution operator in closed form: `c + (fw A n)·c` -/
def sig (S : SR K) (star : K → K) (n : Nat) (A : Nat → Nat → K) (c : Nat → K) (i : Nat) : K :=
  S.add (c i) (dot S n (fw S star A n i) c)

private theorem closed_step {S : SR K} (hS : C01.SRLaws S) (s a p ci cm F G : K)
    (hs : s = S.add S.one (S.mul a s)) :
    S.add (S.add ci F) (S.mul (S.mul p s) (S.add cm G)) =
      S.add ci (S.add (S.add F (S.mul (S.mul p s) G)) (S.mul (S.add p (S.mul (S.mul p s) a)) cm)) := by
  have : Std.Associative S.add := ⟨hS.add_assoc⟩
  have : Std.Commutative S.add := ⟨hS.add_comm⟩
  have e : S.add p (S.mul (S.mul p s) a) = S.mul p s := by
    conv_rhs => rw [hs]
    rw [hS.left_distrib, hS.mul_comm p S.one, hS.one_mul, hS.mul_assoc p s a, hS.mul_comm s a]
  rw [e, hS.left_distrib]
  ac_rfl

/-- the invariant of the loop: after `m` pivots the matrix agrees with `fw A m` on the columns `≥ m` and the
vector is `c + (fw A m restricted to columns < m)·c` -/
private theorem closed_fold {S : SR K} (hS : C01.SRLaws S) (star : K → K) (hstar : C09.StarLaw S star)
    (n : Nat) (A : Nat → Nat → K) (c : Nat → K) (m : Nat) (hm : m ≤ n) :
    let st := (List.range m).foldl (fun (st : List (List K) × List K) k => pivot S star n k st.1 st.2)
      (tab n A, tabv n c)
    (∀ i j, i < n → j < n → m ≤ j → getM S st.1 i j = fw S star A m i j) ∧
    (∀ i, i < n → getV S st.2 i = S.add (c i) (dot S m (fw S star A m i) c)) := by
  induction m with
  | zero =>
    refine ⟨fun i j hi hj _ => getM_tab' S n A i j hi hj, fun i hi => ?_⟩
    simp only [List.range_zero, List.foldl_nil, dot, List.map_nil, sum_nil', add_zero hS]
    exact getV_tabv S n c i hi
  | succ m ih =>
    have hmn : m < n := by omega
    obtain ⟨ihA, ihx⟩ := ih (by omega)
    rw [List.range_succ, List.foldl_append, List.foldl_cons, List.foldl_nil]
    generalize (List.range m).foldl (fun (st : List (List K) × List K) k => pivot S star n k st.1 st.2)
      (tab n A, tabv n c) = st at ihA ihx
    refine ⟨?_, ?_⟩
    · intro i j hi hj hmj
      rw [pivot_right S star n m st.1 st.2 i j hi hj (by omega), ihA i j hi hj (by omega),
        ihA i m hi hmn (Nat.le_refl _), ihA m m hmn hmn (Nat.le_refl _), ihA m j hmn hj (by omega)]
      rfl
    · intro i hi
      rw [pivot_vec S star n m st.1 st.2 i hi hmn, ihx i hi, ihx m hmn, ihA i m hi hmn (Nat.le_refl _),
        ihA m m hmn hmn (Nat.le_refl _)]
      have hsum : dot S (m+1) (fw S star A (m+1) i) c =
          S.add (S.add (dot S m (fw S star A m i) c)
            (S.mul (S.mul (fw S star A m i m) (star (fw S star A m m m))) (dot S m (fw S star A m m) c)))
            (S.mul (S.add (fw S star A m i m)
              (S.mul (S.mul (fw S star A m i m) (star (fw S star A m m m))) (fw S star A m m m))) (c m)) := by
        unfold dot
        rw [sum_range_succ hS]
        congr 1
        rw [← sum_map_mul_left hS, ← sum_map_add hS]
        apply sum_map_congr
        intro j _
        simp only [fw]
        rw [right_distrib hS, hS.mul_assoc _ (fw S star A m m j)]
      rw [hsum]
      exact closed_step hS _ _ _ _ _ _ _ (hstar _)

/-- **closed form of the Gauss–Jordan/Lehmann loop** -/
theorem solveLoop_closed {S : SR K} (hS : C01.SRLaws S) (star : K → K) (hstar : C09.StarLaw S star)
    (n : Nat) (A : Nat → Nat → K) (c : Nat → K) (i : Nat) (hi : i < n) :
    getV S (solveLoop S star (tab n A) (tabv n c)) i = sig S star n A c i := by
  have := (closed_fold hS star hstar n A c n (Nat.le_refl _)).2 i hi
  unfold solveLoop
  rw [tab_length]
  exact this

theorem sig_congr (S : SR K) (star : K → K) (n : Nat) (A A' : Nat → Nat → K) (c c' : Nat → K)
    (hA : ∀ i j, i < n → j < n → A i j = A' i j) (hc : ∀ i, i < n → c i = c' i) (i : Nat) (hi : i < n) :
    sig S star n A c i = sig S star n A' c' i := by
  unfold sig
  rw [hc i hi]
  congr 1
  apply dot_congr
  · intro l hl; exact fw_congr S star n A A' hA n (Nat.le_refl _) i l hi hl
  · exact hc

/-- `sig A c` solves `u = A u + c` -/
theorem sig_sol {S : SR K} (hS : C01.SRLaws S) (star : K → K) (hstar : C09.StarLaw S star)
    (n : Nat) (A : Nat → Nat → K) (c : Nat → K) (i : Nat) (hi : i < n) :
    sig S star n A c i = S.add (dot S n (A i) (sig S star n A c)) (c i) := by
  have hsol := C09.solveLoop_is_solution S hS star hstar (tab n A) (tabv n c) (tab_square n A c)
  have h1 : getV S (affine S (tab n A) (tabv n c) (solveLoop S star (tab n A) (tabv n c))) i =
      getV S (solveLoop S star (tab n A) (tabv n c)) i := by rw [hsol]
  rw [getV_affine S _ _ _ i (by rw [tab_length]; exact hi), tab_length, solveLoop_closed hS star hstar n A c i hi,
    getV_tabv S n c i hi] at h1
  rw [← h1]
  congr 1
  unfold dot
  apply sum_map_congr
  intro j hj
  have hj' := List.mem_range.1 hj
  rw [getM_tab' S n A i j hi hj', solveLoop_closed hS star hstar n A c j hj']

/-- `sig A c` is below every pre-fixed point of `u ↦ A u + c` -/
theorem sig_least {S : SR K} {le : K → K → Prop} {star : K → K} (h : C09b.OrdStarLaws S le star)
    (n : Nat) (A : Nat → Nat → K) (c y : Nat → K)
    (hy : ∀ i, i < n → le (S.add (dot S n (A i) y) (c i)) (y i)) (i : Nat) (hi : i < n) :
    le (sig S star n A c i) (y i) := by
  have hl := C09b.solveLoop_least' S le star h (tab n A) (tabv n c) (tabv n y) (by
    intro i hi
    rw [tab_length] at hi
    rw [getV_affine S _ _ _ i (by rw [tab_length]; exact hi), tab_length, getV_tabv S n c i hi,
      getV_tabv S n y i hi]
    have e : S.sum ((List.range n).map (fun j => S.mul (getM S (tab n A) i j) (getV S (tabv n y) j))) =
        dot S n (A i) y := by
      unfold dot
      apply sum_map_congr
      intro j hj
      have hj' := List.mem_range.1 hj
      rw [getM_tab' S n A i j hi hj', getV_tabv S n y j hj']
    rw [e]
    exact hy i hi) i (by rw [tab_length]; exact hi)
  rw [solveLoop_closed h.sr star h.star_law n A c i hi, getV_tabv S n y i hi] at hl
  exact hl

/-- the solution operator of the transposed matrix is the adjoint -/
theorem sig_adjoint {S : SR K} (hS : C01.SRLaws S) (star : K → K) (n : Nat) (A : Nat → Nat → K) (r c : Nat → K) :
    dot S n (sig S star n (fun i j => A j i) r) c = dot S n r (sig S star n A c) := by
  have e : ∀ l, dot S n (fw S star (fun i j => A j i) n l) r = dot S n (fun j => fw S star A n j l) r :=
    fun l => dot_congr S n _ _ _ _ (fun j _ => fw_transpose hS star A n l j) (fun _ _ => rfl)
  unfold sig
  simp only [e]
  rw [dot_add_left hS, dot_add_right hS]
  congr 1
  rw [dot_assoc hS n n r]
  apply dot_congr
  · intro l _; exact dot_comm hS _ _ _
  · intro _ _; rfl

theorem sig_zero {S : SR K} (hS : C01.SRLaws S) (star : K → K) (n : Nat) (A : Nat → Nat → K) (c : Nat → K)
    (hc : ∀ i, i < n → c i = S.zero) (i : Nat) (hi : i < n) : sig S star n A c i = S.zero := by
  unfold sig
  rw [hc i hi, dot_zero_right hS n _ _ hc, hS.zero_add]

theorem sig_zero_mat {S : SR K} (hS : C01.SRLaws S) (star : K → K) (n : Nat) (c : Nat → K) (i : Nat) :
    sig S star n (fun _ _ => S.zero) c i = c i := by
  unfold sig
  rw [dot_zero_left hS n _ _ (fun l _ => fw_zero hS star n i l), add_zero hS]

end C09cL
