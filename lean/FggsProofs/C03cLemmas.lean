/-
C03cLemmas — helper lemmas for C03c (`Jl.jlogLabel`, the model of `J_log`, is the logarithmic derivative of `F`):
the rule with an edge's nodes kept as extra external nodes (`fullEdge`), the factor of that edge pulled out of the
sum over the internal nodes, the block sums of its sum-product, `jlogLabel` as a flat sum of cells, `ruleTotals` as
the fold of `Impl.F`.
-/
import FggsModel.Pipeline
import FggsModel.JLog
import FggsProofs.PipeLemmas
import FggsProofs.Props.C01
import FggsProofs.Props.C01b
import FggsProofs.C03bLemmas
import FggsProofs.C02dLemmas
import Mathlib.Tactic.Linarith
import Mathlib.Tactic.Ring
import Mathlib.Tactic.FieldSimp
import Mathlib.Data.List.Basic

set_option linter.unusedSimpArgs false
set_option linter.unusedVariables false

namespace C03cL
open Fggs Fggs.Sem Fggs.Pipe Fggs.Jl PipeL C01 C03L

variable {K : Type}

/-! ### the rule with the nodes of its `i`-th edge kept as extra external nodes -/

/-- all edges kept (`tau_edge` of `J_log`) -/
def fullEdge (r : Rule) (i : Nat) : Rule := ⟨r.lhs, r.nodes, r.ext ++ (edgeAt r i).2, r.edges⟩

theorem fullEdge_wf (G : Grammar K) (r : Rule) (hr : RuleWF G r) (i : Nat) (hi : i < r.edges.length) :
    RuleWF G (fullEdge r i) := by
  have he := edgeAt_mem r i hi
  constructor
  · intro v hv
    show v < r.nodes.length
    have hv' : v ∈ r.ext ++ (edgeAt r i).2 := hv
    rcases List.mem_append.1 hv' with h | h
    · exact hr.ext v h
    · exact hr.att _ he v h
  · exact hr.att
  · exact hr.typed
  · exact hr.labels

theorem fullEdge_shape (G : Grammar K) (r : Rule) (hr : RuleWF G r) (i : Nat) (hi : i < r.edges.length) :
    G.shapeOf ((fullEdge r i).ext.map (fun v => (fullEdge r i).nodes[v]?.getD 0))
      = G.shapeOf (r.ext.map (fun v => r.nodes[v]?.getD 0)) ++ G.shapeOf (G.labelType (edgeAt r i).1) :=
  dropEdge_shape G r hr i hi

theorem prod_eraseIdx {S : SR K} (hS : SRLaws S) {ε : Type} (f : ε → K) (l : List ε) (i : Nat) (e : ε)
    (h : l[i]? = some e) :
    S.prod (l.map f) = S.mul (f e) (S.prod ((l.eraseIdx i).map f)) := by
  induction l generalizing i with
  | nil => simp at h
  | cons y l ih =>
    cases i with
    | zero =>
      simp only [List.getElem?_cons_zero, Option.some.injEq] at h
      subst h
      rw [List.eraseIdx_cons_zero, List.map_cons, prod_cons hS]
    | succ i =>
      simp only [List.getElem?_cons_succ] at h
      rw [List.eraseIdx_cons_succ, List.map_cons, List.map_cons, prod_cons hS, prod_cons hS, ih i h,
        sr_mul_left_comm hS]

/-- the factor of the `i`-th edge depends on the external assignment only -/
theorem ruleCell_fullEdge {S : SR K} (hS : SRLaws S) (G : Grammar K) (x : Val K) (r : Rule) (i : Nat)
    (hi : i < r.edges.length) (a b : List Nat) (hal : a.length = r.ext.length) :
    ruleCell S G x (fullEdge r i) (a ++ b)
      = S.mul (edgeWeight S G x (edgeAt r i).1 b) (ruleCell S G x (dropEdge r i) (a ++ b)) := by
  unfold ruleCell
  show bsum S (List.filter _ _) _ = S.mul _ (bsum S (List.filter _ _) _)
  rw [← bsum_mul_left hS]
  apply bsum_congr
  intro ρ hρ
  have hf := (List.mem_filter.1 hρ).2
  have hb : (edgeAt r i).2.map (fun v => ρ[v]?.getD 0) = b := by
    have h1 : r.ext.map (fun v => ρ[v]?.getD 0) ++ (edgeAt r i).2.map (fun v => ρ[v]?.getD 0) = a ++ b := by
      rw [← List.map_append]; exact beq_iff_eq.1 hf
    exact (List.append_inj h1 (by rw [List.length_map, hal])).2
  show S.prod (r.edges.map _) = S.mul _ (S.prod ((r.edges.eraseIdx i).map _))
  rw [prod_eraseIdx hS _ r.edges i (edgeAt r i) (edges_getElem? r i hi), hb]

/-- summing the edge's cells back in gives the rule's own cell -/
theorem blockSum_fullEdge {S : SR K} (hS : SRLaws S) (G : Grammar K) (x : Val K) (r : Rule) (hr : RuleWF G r)
    (i : Nat) (hi : i < r.edges.length) (a : List Nat) (hal : a.length = r.ext.length) :
    bsum S (assigns (G.shapeOf (G.labelType (edgeAt r i).1))) (fun b => ruleCell S G x (fullEdge r i) (a ++ b))
      = ruleCell S G x r a := by
  have he := edgeAt_mem r i hi
  refine Eq.trans ?_ (Eq.trans (term_regroup hS G x r hr (edgeWeight S G x) a hal i hi).symm ?_)
  · have h1 : ∀ l ∈ List.range (G.T + G.nts.length),
        bsum S (assigns (G.shapeOf (G.labelType l))) (fun b =>
          S.mul (if (edgeAt r i).1 == l then ruleCell S G x (dropEdge r i) (a ++ b) else S.zero)
            (edgeWeight S G x l b))
        = if (l == (edgeAt r i).1) = true then
            bsum S (assigns (G.shapeOf (G.labelType l))) (fun b =>
              S.mul (ruleCell S G x (dropEdge r i) (a ++ b)) (edgeWeight S G x l b))
          else S.zero := by
      intro l _
      by_cases h : l = (edgeAt r i).1
      · subst h; simp
      · have h' : ¬ (edgeAt r i).1 = l := fun h' => h h'.symm
        simp [h, h', hS.zero_mul, bsum_zero hS]
    rw [bsum_congr _ _ _ h1, bsum_range_single hS _ _ (hr.labels _ he)
      (fun l => bsum S (assigns (G.shapeOf (G.labelType l))) (fun b =>
        S.mul (ruleCell S G x (dropEdge r i) (a ++ b)) (edgeWeight S G x l b)))]
    apply bsum_congr
    intro b _
    rw [ruleCell_fullEdge hS G x r i hi a b hal, hS.mul_comm]
  · unfold ruleCell
    show bsum S _ _ = bsum S _ _
    apply bsum_congr
    intro ρ _
    rw [prod_eraseIdx hS _ r.edges i (edgeAt r i) (edges_getElem? r i hi)]

/-! ### block sums and the cells of `jlogTerm` -/

theorem sum_drop_take {S : SR K} (t : List K) (s m : Nat) (h : s + m ≤ t.length) :
    S.sum ((t.drop s).take m) = bsum S (List.range m) (fun j => t[s + j]?.getD S.zero) := by
  unfold bsum
  congr 1
  apply List.ext_getElem?
  intro j
  rw [List.getElem?_take, List.getElem?_map, List.getElem?_drop]
  by_cases hj : j < m
  · rw [if_pos hj, List.getElem?_range hj]
    simp [List.getElem?_eq_getElem (show s + j < t.length by omega)]
  · rw [if_neg hj, List.getElem?_eq_none (by simpa using hj)]
    rfl

theorem blockSums_getElem {S : SR K} (m n : Nat) (hm : 0 < m) (t : List K) (ht : t.length = n * m)
    (fa : Nat) (hfa : fa < n) :
    (blockSums S m t)[fa]?.getD S.zero = bsum S (List.range m) (fun j => t[fa * m + j]?.getD S.zero) := by
  unfold blockSums
  have hm0 : (m == 0) = false := by simp; omega
  simp only [hm0, Bool.false_eq_true, if_false]
  rw [ht, Nat.mul_div_cancel _ hm, List.getElem?_map, List.getElem?_range hfa]
  simp only [Option.map_some, Option.getD_some]
  apply sum_drop_take
  rw [ht]
  calc fa * m + m = (fa + 1) * m := by ring
    _ ≤ n * m := Nat.mul_le_mul_right _ hfa

theorem jlogMap_cell {S : SR K} (dv : K → K → K) (m n : Nat) (te tr tot : List K) (ht : te.length = n * m)
    (fa fb : Nat) (hfa : fa < n) (hfb : fb < m) :
    ((te.zipIdx.map (fun (p : K × Nat) =>
        let a := p.2 / (if m == 0 then 1 else m)
        S.mul (dv p.1 ((blockSums S m te)[a]?.getD S.zero))
          (dv (tr[a]?.getD S.zero) (tot[a]?.getD S.zero))))[fa * m + fb]?).getD S.zero
      = S.mul (dv (te[fa * m + fb]?.getD S.zero) (bsum S (List.range m) (fun j => te[fa * m + j]?.getD S.zero)))
          (dv (tr[fa]?.getD S.zero) (tot[fa]?.getD S.zero)) := by
  have hm : 0 < m := by omega
  have hm0 : (m == 0) = false := by simp; omega
  have hk : fa * m + fb < te.length := by
    rw [ht]
    calc fa * m + fb < fa * m + m := by omega
      _ = (fa + 1) * m := by ring
      _ ≤ n * m := Nat.mul_le_mul_right _ hfa
  have hdiv : (fa * m + fb) / m = fa := by
    rw [Nat.add_comm, Nat.add_mul_div_right _ _ hm, Nat.div_eq_of_lt hfb, Nat.zero_add]
  rw [List.getElem?_map, List.getElem?_zipIdx, List.getElem?_eq_getElem hk]
  simp only [Option.map_some, Option.getD_some, hm0, Bool.false_eq_true, if_false, Nat.zero_add, hdiv]
  rw [blockSums_getElem m n hm te ht fa hfa]

/-! ### `jlogLabel` as a flat sum -/

/-- the term contributed to `jlogLabel … l` by the `i`-th edge of `r` -/
def jlogOpt (S : SR K) (dv : K → K → K) (G : Grammar K) (x : Val K) (tot : List K) (l : Nat) (r : Rule)
    (tr : List K) (i : Nat) : Option (List K) :=
  if (edgeAt r i).1 == l then jlogTerm S dv G x tot r tr i else none

theorem jlogLabel_eq (S : SR K) (dv : K → K → K) (G : Grammar K) (x : Val K) (X l : Nat) :
    jlogLabel S dv G x X l = ((tauRules S G x X).flatMap (fun p =>
      (List.range p.1.edges.length).map (jlogOpt S dv G x (ruleTotals S G x X) l p.1 p.2))).foldl (addOpt S) none := by
  unfold jlogLabel
  rw [List.foldl_flatMap]
  show List.foldl _ none _ = _
  congr 1
  funext acc p
  rw [List.foldl_map]
  apply List.foldl_ext
  intro acc i hi
  have h := edges_getElem? p.1 i (List.mem_range.1 hi)
  unfold jlogOpt
  simp only [h]
  split <;> rfl

theorem jlogOpt_cell {S : SR K} (hS : SRLaws S) (dv : K → K → K) (G : Grammar K) (x : Val K) (tot : List K)
    (r : Rule) (hr : RuleWF G r) (tr : List K) (htr : Impl.sumProductEdges S G x r.nodes r.edges r.ext = some tr)
    (sa : List Nat) (hsa : G.shapeOf (r.ext.map (fun v => r.nodes[v]?.getD 0)) = sa)
    (l i : Nat) (hi : i < r.edges.length) (a b : List Nat) (ha : a ∈ assigns sa)
    (hb : b ∈ assigns (G.shapeOf (G.labelType l))) :
    (∀ t, jlogOpt S dv G x tot l r tr i = some t → t.length = numel (sa ++ G.shapeOf (G.labelType l))) ∧
    optCell S (jlogOpt S dv G x tot l r tr i) (flat (sa ++ G.shapeOf (G.labelType l)) (a ++ b))
      = if (edgeAt r i).1 == l then
          S.mul (dv (ruleCell S G x (fullEdge r i) (a ++ b))
              (bsum S (assigns (G.shapeOf (G.labelType l))) (fun b' => ruleCell S G x (fullEdge r i) (a ++ b'))))
            (dv (ruleCell S G x r a) (tot[flat sa a]?.getD S.zero))
        else S.zero := by
  unfold jlogOpt
  by_cases hl : (edgeAt r i).1 = l
  · subst hl
    simp only [beq_self_eq_true, if_true]
    have hwf := fullEdge_wf G r hr i hi
    have hshape := fullEdge_shape G r hr i hi
    rw [hsa] at hshape
    have hv : allValued G x (fullEdge r i) :=
      (sumProductEdges_isSome_iff S G x r).1 (by rw [htr]; rfl)
    obtain ⟨te, hte⟩ := Option.isSome_iff_exists.1 ((sumProductEdges_isSome_iff S G x (fullEdge r i)).2 hv)
    have hte' := sumProductEdges_eq_ruleValue S hS G x _ hwf te hte
    have htr' := sumProductEdges_eq_ruleValue S hS G x r hr tr htr
    have hte2 : Impl.sumProductEdges S G x r.nodes r.edges (r.ext ++ (edgeAt r i).2) = some te := hte
    have hte3 : te = (assigns (sa ++ G.shapeOf (G.labelType (edgeAt r i).1))).map (ruleCell S G x (fullEdge r i)) := by
      rw [hte']; unfold ruleValue; rw [hshape]
    have htr3 : tr = (assigns sa).map (ruleCell S G x r) := by
      rw [htr']; unfold ruleValue; rw [hsa]
    have hlen : te.length = numel sa * numel (G.shapeOf (G.labelType (edgeAt r i).1)) := by
      rw [hte3, List.length_map, C03L.length_assigns, C02dL.numel_append]
    have hfa := flat_lt (mem_assigns.1 ha)
    have hfb := flat_lt (mem_assigns.1 hb)
    have hal := mem_assigns_length ha
    unfold jlogTerm
    simp only [edges_getElem? r i hi, hte2]
    constructor
    · intro t ht
      have : t = _ := (Option.some.inj ht).symm
      rw [this, List.length_map, List.length_zipIdx, hlen, C02dL.numel_append]
    · show ((List.map _ te.zipIdx)[flat (sa ++ G.shapeOf (G.labelType (edgeAt r i).1)) (a ++ b)]?).getD S.zero = _
      rw [C02dL.flat_append sa _ a b hal]
      rw [jlogMap_cell dv _ (numel sa) te tr tot hlen _ _ hfa hfb]
      have hcell : ∀ b' ∈ assigns (G.shapeOf (G.labelType (edgeAt r i).1)),
          te[flat sa a * numel (G.shapeOf (G.labelType (edgeAt r i).1)) + flat (G.shapeOf (G.labelType (edgeAt r i).1)) b']?.getD S.zero
            = ruleCell S G x (fullEdge r i) (a ++ b') := by
        intro b' hb'
        rw [← C02dL.flat_append sa _ a b' hal, hte3]
        exact getT_assigns_map S _ _ _ (mem_assigns_append ha hb')
      rw [hcell b hb, ← C02dL.bsum_assigns_flat (S := S) (G.shapeOf (G.labelType (edgeAt r i).1))
        (fun j => te[flat sa a * numel (G.shapeOf (G.labelType (edgeAt r i).1)) + j]?.getD S.zero),
        bsum_congr _ _ _ hcell]
      congr 2
      rw [htr3]
      exact getT_assigns_map S _ _ _ ha
  · have hbeq : ((edgeAt r i).1 == l) = false := by simpa using hl
    simp only [hbeq, Bool.false_eq_true, if_false]
    exact ⟨fun t ht => (by cases ht), rfl⟩

theorem mem_tauRules {S : SR K} {G : Grammar K} {x : Val K} {X : Nat} {p : Rule × List K}
    (hp : p ∈ tauRules S G x X) :
    p.1 ∈ G.rulesOf X ∧ Impl.sumProductEdges S G x p.1.nodes p.1.edges p.1.ext = some p.2 := by
  unfold tauRules at hp
  obtain ⟨r, hr, h⟩ := List.mem_filterMap.1 hp
  cases hsp : Impl.sumProductEdges S G x r.nodes r.edges r.ext with
  | none => rw [hsp] at h; cases h
  | some t =>
    rw [hsp] at h
    have : p = (r, t) := (Option.some.inj h).symm
    subst this
    exact ⟨hr, hsp⟩

/-- the cell `[a ++ b]` of the block `(X, l)` of `J_log`: the sum over the rules of `X` that have a sum-product and
their edges labelled `l` of (softmax over the edge's cells) · (softmax over the rules) -/
theorem jlogLabel_cell {S : SR K} (hS : SRLaws S) (dv : K → K → K) (G : Grammar K) (hG : GrammarWF G) (x : Val K)
    (X l : Nat) (a b : List Nat) (ha : a ∈ assigns (G.shapeOf (G.nts[X]?.getD [])))
    (hb : b ∈ assigns (G.shapeOf (G.labelType l))) :
    optCell S (jlogLabel S dv G x X l)
        (flat (G.shapeOf (G.nts[X]?.getD []) ++ G.shapeOf (G.labelType l)) (a ++ b))
      = bsum S (tauRules S G x X) (fun p => bsum S (List.range p.1.edges.length) (fun i =>
          if (edgeAt p.1 i).1 == l then
            S.mul (dv (ruleCell S G x (fullEdge p.1 i) (a ++ b))
                (bsum S (assigns (G.shapeOf (G.labelType l))) (fun b' => ruleCell S G x (fullEdge p.1 i) (a ++ b'))))
              (dv (ruleCell S G x p.1 a)
                ((ruleTotals S G x X)[flat (G.shapeOf (G.nts[X]?.getD [])) a]?.getD S.zero))
          else S.zero)) := by
  have hrule : ∀ p ∈ tauRules S G x X, RuleWF G p.1 ∧
      Impl.sumProductEdges S G x p.1.nodes p.1.edges p.1.ext = some p.2 ∧
      G.shapeOf (p.1.ext.map (fun v => p.1.nodes[v]?.getD 0)) = G.shapeOf (G.nts[X]?.getD []) := by
    intro p hp
    obtain ⟨hr, hsp⟩ := mem_tauRules hp
    have := List.mem_filter.1 hr
    have hl : p.1.lhs = X := by simpa using this.2
    exact ⟨hG.rule p.1 this.1, hsp, by rw [hG.ext p.1 this.1, hl]⟩
  have hk := flat_lt (mem_assigns.1 (mem_assigns_append ha hb))
  rw [jlogLabel_eq, foldl_addOpt_cell hS _ _ hk _ _ none (by intro t ht; cases ht)]
  · show S.add S.zero _ = _
    rw [hS.zero_add, bsum_flatMap hS]
    apply bsum_congr
    intro p hp
    rw [bsum_map]
    apply bsum_congr
    intro i hi
    obtain ⟨hwf, hsp, hsa⟩ := hrule p hp
    exact (jlogOpt_cell hS dv G x _ p.1 hwf p.2 hsp _ hsa l i (List.mem_range.1 hi) a b ha hb).2
  · intro o ho
    rw [List.mem_flatMap] at ho
    obtain ⟨p, hp, ho⟩ := ho
    rw [List.mem_map] at ho
    obtain ⟨i, hi, rfl⟩ := ho
    obtain ⟨hwf, hsp, hsa⟩ := hrule p hp
    exact (jlogOpt_cell hS dv G x _ p.1 hwf p.2 hsp _ hsa l i (List.mem_range.1 hi) a b ha hb).1

/-- a sum over the rules with a sum-product, as a sum over all rules -/
theorem bsum_tauRules {S : SR K} (hS : SRLaws S) (G : Grammar K) (x : Val K) (X : Nat) (f : Rule → K) :
    bsum S (tauRules S G x X) (fun p => f p.1)
      = bsum S (G.rulesOf X) (fun r =>
          if (Impl.sumProductEdges S G x r.nodes r.edges r.ext).isSome then f r else S.zero) := by
  unfold tauRules
  induction G.rulesOf X with
  | nil => rfl
  | cons r rs ih =>
    rw [bsum_cons hS, ← ih]
    cases hsp : Impl.sumProductEdges S G x r.nodes r.edges r.ext with
    | none =>
      rw [List.filterMap_cons_none (by rw [hsp]; rfl)]
      simp only [Option.isSome_none, Bool.false_eq_true, if_false]
      rw [hS.zero_add]
    | some t =>
      rw [List.filterMap_cons_some (b := (r, t)) (by rw [hsp]; rfl), bsum_cons hS]
      simp only [Option.isSome_some, if_true]

/-! ### `ruleTotals` is the fold of `Impl.F` -/

theorem foldl_first (S : SR K) (ps : List (Rule × List K)) (t : List K) :
    ps.foldl (fun (acc : Option (List K)) p => match acc with
        | none => some p.2
        | some a => some (addT S a p.2)) (some t)
      = some (ps.foldl (fun acc p => List.zipWith S.add acc p.2) t) := by
  induction ps generalizing t with
  | nil => rfl
  | cons p ps ih =>
    rw [List.foldl_cons, List.foldl_cons]
    exact ih _

theorem implFold_filterMap (S : SR K) (G : Grammar K) (x : Val K) (rs : List Rule) (acc : Option (List K)) :
    rs.foldl (fun (acc : Option (List K)) r =>
      match Impl.sumProductEdges S G x r.nodes r.edges r.ext with
      | none => acc
      | some t => match acc with
        | none => some t
        | some a => some (addT S a t)) acc
    = (rs.filterMap (fun r => (Impl.sumProductEdges S G x r.nodes r.edges r.ext).map (fun t => (r, t)))).foldl
        (fun (acc : Option (List K)) p => match acc with
          | none => some p.2
          | some a => some (addT S a p.2)) acc := by
  induction rs generalizing acc with
  | nil => rfl
  | cons r rs ih =>
    rw [List.foldl_cons, ih]
    cases hsp : Impl.sumProductEdges S G x r.nodes r.edges r.ext with
    | none =>
      rw [List.filterMap_cons_none (by rw [hsp]; rfl)]
    | some t =>
      rw [List.filterMap_cons_some (b := (r, t)) (by rw [hsp]; rfl), List.foldl_cons]

theorem implF_entry_tau (S : SR K) (G : Grammar K) (x : Val K) (X : Nat) (hX : X < G.nts.length) :
    (Impl.F S G x)[X]?.join = match tauRules S G x X with
      | [] => none
      | _ :: _ => some (ruleTotals S G x X) := by
  rw [implF_entry S G x X hX]
  refine Eq.trans (implFold_filterMap S G x (G.rulesOf X) none) ?_
  unfold ruleTotals
  show List.foldl _ none (tauRules S G x X) = _
  cases tauRules S G x X with
  | nil => rfl
  | cons p ps =>
    rw [List.foldl_cons]
    exact foldl_first S ps p.2

/-- the denominator of the softmax over the rules, cell by cell: `F[X][a]` -/
theorem totals_eq_implF (S : SR K) (G : Grammar K) (x : Val K) (X : Nat) (hX : X < G.nts.length) (a : List Nat) :
    getT S (ruleTotals S G x X) (G.shapeOf (G.nts[X]?.getD [])) a = valCell S G (Impl.F S G x) X a := by
  unfold valCell
  rw [implF_entry_tau S G x X hX]
  cases h : tauRules S G x X with
  | nil =>
    have : ruleTotals S G x X = [] := by unfold ruleTotals; rw [h]
    rw [this]
    show getT S [] _ _ = S.zero
    unfold getT
    simp
  | cons p ps => rfl

theorem totals_eq_sum {S : SR K} (hS : SRLaws S) (G : Grammar K) (hG : GrammarWF G) (x : Val K) (X : Nat)
    (hX : X < G.nts.length) (a : List Nat) (ha : a ∈ assigns (G.shapeOf (G.nts[X]?.getD []))) :
    (ruleTotals S G x X)[flat (G.shapeOf (G.nts[X]?.getD [])) a]?.getD S.zero
      = bsum S (G.rulesOf X) (fun r => ruleCell S G x r a) := by
  have hshape : ∀ r ∈ G.rulesOf X,
      G.shapeOf (r.ext.map (fun v => r.nodes[v]?.getD 0)) = G.shapeOf (G.nts[X]?.getD []) := by
    intro r hr
    have := List.mem_filter.1 hr
    have hl : r.lhs = X := by simpa using this.2
    rw [hG.ext r this.1, hl]
  show getT S (ruleTotals S G x X) (G.shapeOf (G.nts[X]?.getD [])) a = _
  rw [totals_eq_implF S G x X hX a, valCell_eq_getT, cellsOf_implF S hS G hG x X hX, ← valCell_eq_getT,
    F_cell S hS G x X hX a ha hshape]
  rfl

/-! ### rational arithmetic -/

theorem ratSR_laws : SRLaws ratSR := by
  constructor <;> intros <;> simp only [ratSR] <;> ring

theorem rat_bsum_nonneg {α : Type} (l : List α) (f : α → Rat) (h : ∀ y ∈ l, 0 ≤ f y) : 0 ≤ bsum ratSR l f := by
  induction l with
  | nil => exact le_refl _
  | cons y l ih =>
    rw [bsum_cons ratSR_laws]
    exact add_nonneg (h y (List.mem_cons_self ..)) (ih (fun z hz => h z (List.mem_cons_of_mem _ hz)))

theorem rat_bsum_eq_zero {α : Type} (l : List α) (f : α → Rat) (h : ∀ y ∈ l, 0 ≤ f y)
    (h0 : bsum ratSR l f = 0) : ∀ y ∈ l, f y = 0 := by
  induction l with
  | nil => intro y hy; cases hy
  | cons y l ih =>
    rw [bsum_cons ratSR_laws] at h0
    have h1 := h y (List.mem_cons_self ..)
    have h2 := rat_bsum_nonneg l f (fun z hz => h z (List.mem_cons_of_mem _ hz))
    have h3 : f y + bsum ratSR l f = 0 := h0
    intro z hz
    rcases List.mem_cons.1 hz with rfl | hz
    · linarith
    · exact ih (fun z hz => h z (List.mem_cons_of_mem _ hz)) (by linarith) z hz

theorem rat_prod_nonneg (l : List Rat) (h : ∀ c ∈ l, 0 ≤ c) : 0 ≤ ratSR.prod l := by
  induction l with
  | nil => show (0 : Rat) ≤ 1; norm_num
  | cons y l ih =>
    rw [prod_cons ratSR_laws]
    exact mul_nonneg (h y (List.mem_cons_self ..)) (ih (fun z hz => h z (List.mem_cons_of_mem _ hz)))

theorem getT_nonneg (t : List Rat) (h : ∀ c ∈ t, 0 ≤ c) (shape idx : List Nat) : 0 ≤ getT ratSR t shape idx := by
  unfold getT
  cases hk : t[flat shape idx]? with
  | none => exact le_refl _
  | some c => exact h c (List.mem_of_getElem? hk)

theorem edgeWeight_nonneg (G : Grammar Rat) (x : Val Rat)
    (hwn : ∀ w ∈ G.weights, ∀ c ∈ w, 0 ≤ c)
    (hxn : ∀ (X : Nat) (t : List Rat), x[X]?.join = some t → ∀ c ∈ t, 0 ≤ c) (l : Nat) (idx : List Nat) :
    0 ≤ edgeWeight ratSR G x l idx := by
  unfold edgeWeight
  by_cases h : l < G.T
  · simp only [h, if_true]
    apply getT_nonneg
    intro c hc
    cases hw : G.weights[l]? with
    | none => rw [hw] at hc; cases hc
    | some w => rw [hw] at hc; exact hwn w (List.mem_of_getElem? hw) c hc
  · simp only [h, if_false]
    cases hx : x[l - G.T]?.join with
    | none => exact le_refl _
    | some t => exact getT_nonneg t (hxn _ t hx) _ _

theorem ruleCell_nonneg (G : Grammar Rat) (x : Val Rat)
    (hwn : ∀ w ∈ G.weights, ∀ c ∈ w, 0 ≤ c)
    (hxn : ∀ (X : Nat) (t : List Rat), x[X]?.join = some t → ∀ c ∈ t, 0 ≤ c) (r : Rule) (a : List Nat) :
    0 ≤ ruleCell ratSR G x r a := by
  unfold ruleCell
  show 0 ≤ bsum ratSR _ _
  apply rat_bsum_nonneg
  intro ρ _
  apply rat_prod_nonneg
  intro c hc
  obtain ⟨e, _, rfl⟩ := List.mem_map.1 hc
  exact edgeWeight_nonneg G x hwn hxn _ _

theorem ratDiv_zero (a : Rat) : ratDiv a 0 = 0 := by
  unfold ratDiv; simp

theorem ratDiv_identity (C R T : Rat) (hR0 : R = 0 → C = 0) (hT0 : T = 0 → R = 0) :
    ratSR.mul (ratSR.mul (ratDiv C R) (ratDiv R T)) T = C := by
  show ratDiv C R * ratDiv R T * T = C
  unfold ratDiv
  by_cases hT : T = 0
  · have hR := hT0 hT
    have hC := hR0 hR
    simp [hT, hR, hC]
  · by_cases hR : R = 0
    · have hC := hR0 hR
      simp [hR, hC]
    · simp [hT, hR]
      field_simp

/-! ### the two softmaxes combine to the logarithmic derivative -/

section main
variable (G : Grammar Rat) (hG : GrammarWF G) (x : Val Rat)
  (hwn : ∀ w ∈ G.weights, ∀ c ∈ w, 0 ≤ c)
  (hxn : ∀ (X : Nat) (t : List Rat), x[X]?.join = some t → ∀ c ∈ t, 0 ≤ c)
  (X l : Nat) (hX : X < G.nts.length) (a b : List Nat)
  (ha : a ∈ assigns (G.shapeOf (G.nts[X]?.getD []))) (hb : b ∈ assigns (G.shapeOf (G.labelType l)))
include hG hwn hxn hX ha hb

/-- `J_log[X, l][a, b] · F[X][a] = Σ_{rules, edges labelled l} (sum-product with the edge's nodes external)[a, b]` -/
theorem jlog_times_total :
    ratSR.mul (optCell ratSR (jlogLabel ratSR ratDiv G x X l)
        (flat (G.shapeOf (G.nts[X]?.getD []) ++ G.shapeOf (G.labelType l)) (a ++ b)))
      ((ruleTotals ratSR G x X)[flat (G.shapeOf (G.nts[X]?.getD [])) a]?.getD ratSR.zero)
    = bsum ratSR (G.rulesOf X) (fun r => bsum ratSR (List.range r.edges.length) (fun i =>
        if (edgeAt r i).1 == l then ruleCell ratSR G x (fullEdge r i) (a ++ b) else ratSR.zero)) := by
  have hS := ratSR_laws
  have hmem : ∀ r ∈ G.rulesOf X, r ∈ G.rules ∧ r.lhs = X := by
    intro r hr
    have := List.mem_filter.1 hr
    exact ⟨this.1, by simpa using this.2⟩
  have hal : ∀ r ∈ G.rulesOf X, a.length = r.ext.length := by
    intro r hr
    have h1 := mem_assigns_length ha
    have h2 := congrArg List.length (hG.ext r (hmem r hr).1)
    rw [(hmem r hr).2] at h2
    simp only [Grammar.shapeOf, List.length_map] at h1 h2
    omega
  have hTeq := totals_eq_sum hS G hG x X hX a ha
  rw [jlogLabel_cell hS ratDiv G hG x X l a b ha hb]
  generalize (ruleTotals ratSR G x X)[flat (G.shapeOf (G.nts[X]?.getD [])) a]?.getD ratSR.zero = T at hTeq ⊢
  rw [← bsum_mul_right hS]
  have hL : ∀ p ∈ tauRules ratSR G x X,
      ratSR.mul (bsum ratSR (List.range p.1.edges.length) (fun i =>
          if (edgeAt p.1 i).1 == l then
            ratSR.mul (ratDiv (ruleCell ratSR G x (fullEdge p.1 i) (a ++ b))
                (bsum ratSR (assigns (G.shapeOf (G.labelType l)))
                  (fun b' => ruleCell ratSR G x (fullEdge p.1 i) (a ++ b'))))
              (ratDiv (ruleCell ratSR G x p.1 a) T)
          else ratSR.zero)) T
      = (fun r => bsum ratSR (List.range r.edges.length) (fun i =>
          if (edgeAt r i).1 == l then ruleCell ratSR G x (fullEdge r i) (a ++ b) else ratSR.zero)) p.1 := by
    intro p hp
    obtain ⟨hr, hsp⟩ := mem_tauRules hp
    rw [← bsum_mul_right hS]
    apply bsum_congr
    intro i hi
    by_cases hl : (edgeAt p.1 i).1 = l
    · subst hl
      simp only [beq_self_eq_true, if_true]
      have hBs := blockSum_fullEdge hS G x p.1 (hG.rule p.1 (hmem p.1 hr).1) i (List.mem_range.1 hi) a (hal p.1 hr)
      rw [hBs]
      apply ratDiv_identity
      · intro hR0
        rw [hR0] at hBs
        exact rat_bsum_eq_zero _ _ (fun b' _ => ruleCell_nonneg G x hwn hxn _ _) hBs b hb
      · intro hT0
        rw [hT0] at hTeq
        exact rat_bsum_eq_zero _ _ (fun r _ => ruleCell_nonneg G x hwn hxn _ _) hTeq.symm p.1 hr
    · have hbeq : ((edgeAt p.1 i).1 == l) = false := by simpa using hl
      simp only [hbeq, Bool.false_eq_true, if_false]
      exact hS.zero_mul _
  rw [bsum_congr _ _ _ hL, bsum_tauRules hS G x X (fun r => bsum ratSR (List.range r.edges.length) (fun i =>
          if (edgeAt r i).1 == l then ruleCell ratSR G x (fullEdge r i) (a ++ b) else ratSR.zero))]
  apply bsum_congr
  intro r hr
  cases hsp : Impl.sumProductEdges ratSR G x r.nodes r.edges r.ext with
  | some t => rfl
  | none =>
    simp only [Option.isSome_none, Bool.false_eq_true, if_false]
    symm
    refine (bsum_congr _ _ _ ?_).trans (bsum_zero hS _)
    intro i _
    have hnv : ¬ allValued G x (fullEdge r i) := by
      intro hv
      have := (sumProductEdges_isSome_iff ratSR G x r).2 hv
      rw [hsp] at this
      simp at this
    rw [ruleCell_zero_of_missing ratSR hS G x (fullEdge r i) hnv]
    split <;> rfl

/-- … `= x_l[b] · J[X, l][a, b]` (the cell of the real Jacobian as the sum of `jacLabel_cell`) -/
theorem jlog_times_total_jac :
    ratSR.mul (optCell ratSR (jlogLabel ratSR ratDiv G x X l)
        (flat (G.shapeOf (G.nts[X]?.getD []) ++ G.shapeOf (G.labelType l)) (a ++ b)))
      ((ruleTotals ratSR G x X)[flat (G.shapeOf (G.nts[X]?.getD [])) a]?.getD ratSR.zero)
    = ratSR.mul (edgeWeight ratSR G x l b)
        (optCell ratSR (jacLabel ratSR G x X l)
          (flat (G.shapeOf (G.nts[X]?.getD []) ++ G.shapeOf (G.labelType l)) (a ++ b))) := by
  have hS := ratSR_laws
  have hmem : ∀ r ∈ G.rulesOf X, r ∈ G.rules ∧ r.lhs = X := by
    intro r hr
    have := List.mem_filter.1 hr
    exact ⟨this.1, by simpa using this.2⟩
  have hal : ∀ r ∈ G.rulesOf X, a.length = r.ext.length := by
    intro r hr
    have h1 := mem_assigns_length ha
    have h2 := congrArg List.length (hG.ext r (hmem r hr).1)
    rw [(hmem r hr).2] at h2
    simp only [Grammar.shapeOf, List.length_map] at h1 h2
    omega
  rw [jlog_times_total G hG x hwn hxn X l hX a b ha hb, jacLabel_cell hS G hG x X l a b ha hb,
    ← bsum_mul_left hS]
  apply bsum_congr
  intro r hr
  rw [← bsum_mul_left hS]
  apply bsum_congr
  intro i hi
  by_cases hl : (edgeAt r i).1 = l
  · subst hl
    simp only [beq_self_eq_true, if_true]
    exact ruleCell_fullEdge hS G x r i (List.mem_range.1 hi) a b (hal r hr)
  · have hbeq : ((edgeAt r i).1 == l) = false := by simpa using hl
    simp only [hbeq, Bool.false_eq_true, if_false]
    exact (sr_mul_zero hS _).symm

omit hwn hxn hX in
/-- where the denominator `F[X][a]` is zero, the cell of `J_log` is zero -/
theorem jlog_zero_of_total_zero
    (h0 : (ruleTotals ratSR G x X)[flat (G.shapeOf (G.nts[X]?.getD [])) a]?.getD ratSR.zero = 0) :
    optCell ratSR (jlogLabel ratSR ratDiv G x X l)
        (flat (G.shapeOf (G.nts[X]?.getD []) ++ G.shapeOf (G.labelType l)) (a ++ b)) = 0 := by
  have hS := ratSR_laws
  rw [jlogLabel_cell hS ratDiv G hG x X l a b ha hb, h0]
  refine (bsum_congr _ _ _ ?_).trans (bsum_zero hS _)
  intro p _
  refine (bsum_congr _ _ _ ?_).trans (bsum_zero hS _)
  intro i _
  rw [ratDiv_zero]
  split
  · exact sr_mul_zero hS _
  · rfl

end main

end C03cL
