/-
Lemmas for C17 stage 2 (Props/C17b.lean): the rule-level facts about `Fggs.Cj.conjoin` that the
derivation correspondence needs, bundled as `C17b.Setup`.

* `idLt` is a strict total order, so two id-sorted lists with the same elements are equal (`sorted_ids_eq`).
* `RuleCorr m r1 r2 r` — what `conjoinRules m r1 r2 = .ok r` says about nonterminal edges when `r1`, `r2`
  are conjoinable and have pairwise distinct nonterminal edge ids (`ruleCorr_of_conjoinRules`).
* `idxPairs` — the positions `(i, j)` of the rule pairs that `conjoin` conjoins, in order (`pairs_eq_map_idx`).
* `ntGet (ntPairs h1 h2)` is injective (`ntGet_inj`) and only yields nonterminals (`ntGet_nonterminal`).
* `setup_of_conjoin` — everything together.
-/
import FggsModel.Conj
import FggsProofs.Props.C17
import Mathlib.Tactic.Linarith
import Mathlib.Data.List.Basic
import Mathlib.Data.List.Nodup
import Mathlib.Data.List.Perm.Basic
import Mathlib.Data.String.Basic

set_option linter.unusedSimpArgs false
set_option linter.unusedVariables false
set_option linter.unnecessarySeqFocus false

namespace C17b
open Fggs Fggs.Cj

/-! ### ids -/

/-- the id `conjoinRules` gives the paired edge -/
def tr : Id → Id
  | .str s => .str s
  | .int n => .int (1000000000 + n)

theorem tr_injective : Function.Injective tr := by
  intro a b h
  cases a <;> cases b <;> simp [tr] at h ⊢ <;> omega

theorem nodupIds_iff (l : List Id) : nodupIds l = true ↔ l.Nodup := by
  induction l with
  | nil => simp [nodupIds]
  | cons a l ih => simp [nodupIds, ih]

/-- the comparison used by `sortEdges` -/
def idLe (a b : Id) : Bool := !(idLt b a)

theorem idLe_str (a b : String) : idLe (.str a) (.str b) = true ↔ a ≤ b := by
  simp only [idLe, idLt, Bool.not_eq_true', decide_eq_false_iff_not, not_lt]

theorem idLe_int (a b : Nat) : idLe (.int a) (.int b) = true ↔ a ≤ b := by
  simp only [idLe, idLt, Bool.not_eq_true', decide_eq_false_iff_not, not_lt]

theorem idLe_int_str (a : Nat) (b : String) : idLe (.int a) (.str b) = true := rfl
theorem idLe_str_int (a : String) (b : Nat) : idLe (.str a) (.int b) = false := rfl

theorem idLe_trans (a b c : Id) (h1 : idLe a b = true) (h2 : idLe b c = true) : idLe a c = true := by
  cases a <;> cases b <;> cases c <;>
    simp only [idLe_str, idLe_int, idLe_int_str, idLe_str_int, Bool.false_eq_true] at h1 h2 ⊢
  · exact le_trans h1 h2
  · exact le_trans h1 h2

theorem idLe_total (a b : Id) : (idLe a b || idLe b a) = true := by
  cases a <;> cases b <;>
    simp only [Bool.or_eq_true, idLe_str, idLe_int, idLe_int_str, idLe_str_int, Bool.false_eq_true, or_true, true_or]
  · exact le_total _ _
  · exact le_total _ _

theorem idLe_antisymm (a b : Id) (h1 : idLe a b = true) (h2 : idLe b a = true) : a = b := by
  cases a <;> cases b <;>
    simp only [idLe_str, idLe_int, idLe_int_str, idLe_str_int, Bool.false_eq_true] at h1 h2 ⊢
  · rw [le_antisymm h1 h2]
  · rw [le_antisymm h1 h2]

/-- `sortEdges` without the (trivial) monad -/
def sortE (es : List Edge) : List Edge := es.mergeSort (fun a b => !(idLt b.id a.id))

theorem sortEdges_eq (es : List Edge) : sortEdges es = .ok (sortE es) := rfl

theorem sortE_perm (es : List Edge) : (sortE es).Perm es := List.mergeSort_perm _ _

theorem sortE_sorted (es : List Edge) : ((sortE es).map (·.id)).Pairwise (fun a b => idLe a b = true) := by
  rw [List.pairwise_map]
  exact List.pairwise_mergeSort (le := fun a b : Edge => !(idLt b.id a.id))
    (fun a b c h1 h2 => idLe_trans a.id b.id c.id h1 h2) (fun a b => idLe_total a.id b.id) es

/-- **a permutation sorted by a total order is unique** -/
theorem sorted_ids_eq (es1 es2 : List Edge) (hp : (es1.map (·.id)).Perm (es2.map (·.id))) :
    (sortE es1).map (·.id) = (sortE es2).map (·.id) := by
  apply List.Perm.eq_of_pairwise (le := fun a b => idLe a b = true)
  · intro a b _ _ h1 h2; exact idLe_antisymm a b h1 h2
  · exact sortE_sorted es1
  · exact sortE_sorted es2
  · exact (((sortE_perm es1).map _).trans hp).trans ((sortE_perm es2).map _).symm

/-! ### `ntGet` -/

theorem ntGet_mem {m : List ((Label × Label) × Label)} {a b l : Label} (h : ntGet m a b = some l) :
    ∃ q ∈ m, q.1 = (a, b) ∧ q.2 = l := by
  unfold ntGet at h
  cases hf : m.find? (fun p => p.1 = (a, b)) with
  | none => rw [hf] at h; cases h
  | some x =>
    rw [hf] at h
    cases h
    exact ⟨x, List.mem_of_find?_eq_some hf, by simpa using List.find?_some hf, rfl⟩

/-! ### `conjoinRules` -/

theorem sameSet_iff {α} [DecidableEq α] (a b : List α) : sameSet a b = true ↔ ∀ x, x ∈ a ↔ x ∈ b := by
  simp only [sameSet, Bool.and_eq_true, List.all_eq_true, List.contains_iff_mem]
  constructor
  · rintro ⟨h1, h2⟩ x; exact ⟨h1 x, h2 x⟩
  · intro h; exact ⟨fun x hx => (h x).1 hx, fun x hx => (h x).2 hx⟩

theorem addEdgeChecked_ok {es : List Edge} {e : Edge} {es' : List Edge}
    (h : addEdgeChecked es e = .ok es') : es' = es ++ [e] := by
  unfold addEdgeChecked at h
  split at h
  · cases h
  · split at h
    · cases h
    · cases h; rfl

theorem foldlM_addEdge_ok (l : List Edge) :
    ∀ (acc es : List Edge), l.foldlM addEdgeChecked acc = .ok es → es = acc ++ l := by
  induction l with
  | nil => intro acc es h; simp [List.foldlM_nil] at h; cases h; simp
  | cons e l ih =>
    intro acc es h
    rw [List.foldlM_cons] at h
    cases h1 : addEdgeChecked acc e with
    | error x => rw [h1] at h; cases h
    | ok acc' =>
      rw [h1] at h
      have := addEdgeChecked_ok h1
      subst this
      have := ih _ _ h
      simpa using this

theorem mapM_ok {α β} (f : α → Except Err β) (l : List α) :
    ∀ out, l.mapM f = .ok out → List.Forall₂ (fun x y => f x = .ok y) l out := by
  induction l with
  | nil => intro out h; simp at h; cases h; exact .nil
  | cons a l ih =>
    intro out h
    rw [List.mapM_cons] at h
    cases h1 : f a with
    | error x => rw [h1] at h; cases h
    | ok y =>
      rw [h1] at h
      cases h2 : l.mapM f with
      | error x => rw [h2] at h; cases h
      | ok ys =>
        rw [h2] at h
        cases h
        exact .cons h1 (ih _ h2)

/-- the function `conjoinRules` maps over the zipped sorted nonterminal edges -/
def pairEdge (m : List ((Label × Label) × Label)) : Edge × Edge → Except Err Edge :=
  fun (e1, e2) =>
    match ntGet m e1.label e2.label with
    | some l =>
      let i := match e1.id with | .str s => Id.str s | .int n => Id.int (1000000000 + n)
      (pure (⟨l, e1.nodes, i⟩ : Edge) : Except Err Edge)
    | none => throw Err.valueError

theorem pairEdge_ok {m} {p : Edge × Edge} {e : Edge} (h : pairEdge m p = .ok e) :
    ntGet m p.1.label p.2.label = some e.label ∧ e.id = tr p.1.id := by
  obtain ⟨e1, e2⟩ := p
  simp only [pairEdge] at h
  cases hg : ntGet m e1.label e2.label with
  | none => rw [hg] at h; cases h
  | some l =>
    rw [hg] at h
    cases h
    refine ⟨rfl, ?_⟩
    show _ = tr e1.id
    cases e1.id <;> rfl

theorem forall2_pair {m} {l : List (Edge × Edge)} {out : List Edge}
    (h : List.Forall₂ (fun x y => pairEdge m x = .ok y) l out) :
    out.map (·.id) = l.map (fun p => tr p.1.id) ∧
    ∀ e ∈ out, ∃ p ∈ l, ntGet m p.1.label p.2.label = some e.label ∧ e.id = tr p.1.id := by
  induction h with
  | nil => simp
  | cons hxy _ ih =>
    obtain ⟨i1, i2⟩ := ih
    obtain ⟨p1, p2⟩ := pairEdge_ok hxy
    refine ⟨by simp [i1, p2], ?_⟩
    intro e he
    rcases List.mem_cons.1 he with rfl | he
    · exact ⟨_, List.mem_cons_self, p1, p2⟩
    · obtain ⟨p, hp, hh⟩ := i2 e he
      exact ⟨p, List.mem_cons_of_mem _ hp, hh⟩

theorem conjoinRules_unpack (m : List ((Label × Label) × Label)) (r1 r2 r : Rule)
    (h : conjoinRules m r1 r2 = .ok r) :
    ntGet m r1.lhs r2.lhs = some r.lhs ∧
    ∃ paired : List Edge,
      List.Forall₂ (fun x y => pairEdge m x = .ok y) ((sortE (ntEdges r1)).zip (sortE (ntEdges r2))) paired ∧
      r.edges = paired ++ (r1.edges.filter (·.label.terminal) ++ r2.edges.filter (·.label.terminal)) := by
  unfold conjoinRules at h
  cases hl : ntGet m r1.lhs r2.lhs with
  | none => rw [hl] at h; cases h
  | some lhs =>
    rw [hl] at h
    simp only [sortEdges] at h
    change (do
      let paired ← List.mapM (pairEdge m) _
      let edges ← List.foldlM addEdgeChecked [] (paired ++ _)
      pure (⟨lhs, r1.nodes, edges, r1.ext⟩ : Rule)) = Except.ok r at h
    cases hp : List.mapM (pairEdge m)
        (((r1.edges.filter (!·.label.terminal)).mergeSort (fun a b => !(idLt b.id a.id))).zip
          ((r2.edges.filter (!·.label.terminal)).mergeSort (fun a b => !(idLt b.id a.id)))) with
    | error x => rw [hp] at h; cases h
    | ok paired =>
      rw [hp] at h
      change (do
        let edges ← List.foldlM addEdgeChecked [] (paired ++ _)
        pure (⟨lhs, r1.nodes, edges, r1.ext⟩ : Rule)) = Except.ok r at h
      cases he : List.foldlM addEdgeChecked []
          (paired ++ (r1.edges.filter (·.label.terminal) ++ r2.edges.filter (·.label.terminal))) with
      | error x => rw [he] at h; cases h
      | ok edges =>
        rw [he] at h
        cases h
        have hedges := foldlM_addEdge_ok _ _ _ he
        refine ⟨rfl, paired, mapM_ok _ _ _ hp, ?_⟩
        simpa using hedges

theorem zip_ids {l1 l2 : List Edge} (h : l1.map (·.id) = l2.map (·.id)) :
    ∀ p ∈ l1.zip l2, p.1.id = p.2.id := by
  induction l1 generalizing l2 with
  | nil => simp
  | cons a l1 ih =>
    cases l2 with
    | nil => simp
    | cons b l2 =>
      simp only [List.map_cons, List.cons.injEq] at h
      intro p hp
      simp only [List.zip_cons_cons, List.mem_cons] at hp
      rcases hp with rfl | hp
      · exact h.1
      · exact ih h.2 p hp

/-- what a successful `conjoinRules m r1 r2 = .ok r` on conjoinable rules with distinct nonterminal edge ids
says about the nonterminal edges of `r1`, `r2`, `r` (edge order plays no role) -/
structure RuleCorr (m : List ((Label × Label) × Label)) (r1 r2 r : Rule) : Prop where
  ok : conjoinRules m r1 r2 = .ok r
  lhs : ntGet m r1.lhs r2.lhs = some r.lhs
  nd1 : ((ntEdges r1).map (·.id)).Nodup
  nd2 : ((ntEdges r2).map (·.id)).Nodup
  nd : ((ntEdges r).map (·.id)).Nodup
  ids12 : ∀ x, x ∈ (ntEdges r1).map (·.id) ↔ x ∈ (ntEdges r2).map (·.id)
  ids : ∀ y, y ∈ (ntEdges r).map (·.id) ↔ ∃ x ∈ (ntEdges r1).map (·.id), y = tr x
  lab : ∀ e1 ∈ ntEdges r1, ∀ e2 ∈ ntEdges r2, ∀ e ∈ ntEdges r, e1.id = e2.id → e.id = tr e1.id →
    ntGet m e1.label e2.label = some e.label

theorem conjoinable_ids {r1 r2 : Rule} (h : conjoinable r1 r2 = true) :
    ∀ x, x ∈ (ntEdges r1).map (·.id) ↔ x ∈ (ntEdges r2).map (·.id) := by
  simp only [conjoinable, Bool.and_eq_true] at h
  have hs := (sameSet_iff _ _).1 h.1.2
  have key : ∀ (ra rb : Rule), (∀ x, x ∈ (ntEdges ra).map (fun e => (e.id, e.nodes.map (·.id))) →
      x ∈ (ntEdges rb).map (fun e => (e.id, e.nodes.map (·.id)))) →
      ∀ x, x ∈ (ntEdges ra).map (·.id) → x ∈ (ntEdges rb).map (·.id) := by
    intro ra rb hab x hx
    rw [List.mem_map] at hx
    obtain ⟨e, he, rfl⟩ := hx
    have := hab (e.id, e.nodes.map (·.id)) (List.mem_map.2 ⟨e, he, rfl⟩)
    rw [List.mem_map] at this
    obtain ⟨e', he', hee⟩ := this
    exact List.mem_map.2 ⟨e', he', (Prod.mk.inj hee).1⟩
  intro x
  exact ⟨key r1 r2 (fun y => (hs y).1) x, key r2 r1 (fun y => (hs y).2) x⟩

theorem ruleCorr_of_conjoinRules (m : List ((Label × Label) × Label)) (r1 r2 r : Rule)
    (hm : ∀ q ∈ m, q.2.terminal = false)
    (nd1 : ((ntEdges r1).map (·.id)).Nodup) (nd2 : ((ntEdges r2).map (·.id)).Nodup)
    (hcj : conjoinable r1 r2 = true) (h : conjoinRules m r1 r2 = .ok r) : RuleCorr m r1 r2 r := by
  obtain ⟨hlhs, paired, hf, hedges⟩ := conjoinRules_unpack m r1 r2 r h
  have ids12 := conjoinable_ids hcj
  have hperm : ((ntEdges r1).map (·.id)).Perm ((ntEdges r2).map (·.id)) :=
    (List.perm_ext_iff_of_nodup nd1 nd2).2 ids12
  have hs := sorted_ids_eq _ _ hperm
  have hlen : (sortE (ntEdges r1)).length = (sortE (ntEdges r2)).length := by
    simpa using congrArg List.length hs
  obtain ⟨f1, f2⟩ := forall2_pair hf
  have hzip := zip_ids hs
  have hfst : ((sortE (ntEdges r1)).zip (sortE (ntEdges r2))).map Prod.fst = sortE (ntEdges r1) :=
    List.map_fst_zip (le_of_eq hlen)
  have hsnd : ((sortE (ntEdges r1)).zip (sortE (ntEdges r2))).map Prod.snd = sortE (ntEdges r2) :=
    List.map_snd_zip (le_of_eq hlen.symm)
  -- the nonterminal edges of `r` are exactly the paired ones
  have hnt : ntEdges r = paired := by
    simp only [ntEdges, hedges, List.filter_append, List.filter_filter]
    have h1 : paired.filter (fun e => !e.label.terminal) = paired := by
      rw [List.filter_eq_self]
      intro e he
      obtain ⟨p, _, hg, _⟩ := f2 e he
      obtain ⟨q, hq, _, hql⟩ := ntGet_mem hg
      have := hm q hq
      rw [hql] at this
      simp [this]
    rw [h1]
    simp
  have hidl : (ntEdges r).map (·.id) = ((sortE (ntEdges r1)).map (·.id)).map tr := by
    rw [hnt, f1]
    have := congrArg (List.map (fun e : Edge => tr e.id)) hfst
    simp only [List.map_map] at this ⊢
    exact this
  have hp1 : ((sortE (ntEdges r1)).map (·.id)).Perm ((ntEdges r1).map (·.id)) := (sortE_perm _).map _
  refine ⟨h, hlhs, nd1, nd2, ?_, ids12, ?_, ?_⟩
  · rw [hidl]
    exact (hp1.nodup_iff.2 nd1).map tr_injective
  · intro y
    rw [hidl, List.mem_map]
    constructor
    · rintro ⟨x, hx, rfl⟩; exact ⟨x, hp1.mem_iff.1 hx, rfl⟩
    · rintro ⟨x, hx, rfl⟩; exact ⟨x, hp1.mem_iff.2 hx, rfl⟩
  · intro e1 he1 e2 he2 e he hid12 hide
    rw [hnt] at he
    obtain ⟨p, hp, hg, hpid⟩ := f2 e he
    have hp1m : p.1 ∈ ntEdges r1 := by
      have : p.1 ∈ sortE (ntEdges r1) := by
        rw [← hfst]; exact List.mem_map.2 ⟨p, hp, rfl⟩
      exact (sortE_perm _).mem_iff.1 this
    have hp2m : p.2 ∈ ntEdges r2 := by
      have : p.2 ∈ sortE (ntEdges r2) := by
        rw [← hsnd]; exact List.mem_map.2 ⟨p, hp, rfl⟩
      exact (sortE_perm _).mem_iff.1 this
    have e1eq : p.1 = e1 :=
      List.inj_on_of_nodup_map nd1 hp1m he1 (tr_injective (hpid.symm.trans hide))
    have e2eq : p.2 = e2 :=
      List.inj_on_of_nodup_map nd2 hp2m he2 (by rw [← hzip p hp, e1eq, hid12])
    rw [← e1eq, ← e2eq]
    exact hg

/-! ### the index pairs `conjoin` runs over -/

/-- `rs[i]`, or a default rule when out of range -/
def getR (rs : List Rule) (i : Nat) : Rule := (rs[i]?).getD default

theorem getR_of_get? {rs : List Rule} {i : Nat} {r : Rule} (h : rs[i]? = some r) : getR rs i = r := by
  simp [getR, h]

/-- positions `(i, j)` of the pairs of conjoinable rules, in the order in which `conjoin` lists them:
the `k`-th rule of the conjunction is built from `rs1[i]` and `rs2[j]` where `(i, j) = (idxPairs rs1 rs2)[k]` -/
def idxPairs (rs1 rs2 : List Rule) : List (Nat × Nat) :=
  (List.range rs1.length).flatMap fun i =>
    ((List.range rs2.length).filter fun j => conjoinable (getR rs1 i) (getR rs2 j)).map fun j => (i, j)

theorem eq_map_range (l : List Rule) : l = (List.range l.length).map (getR l) := by
  apply List.ext_getElem
  · simp
  · intro i h1 h2
    simp [getR, h1]

theorem pairs_eq_map_idx (rs1 rs2 : List Rule) :
    rs1.flatMap (fun r1 => (rs2.filter (conjoinable r1 ·)).map (fun r2 => (r1, r2)))
      = (idxPairs rs1 rs2).map (fun ij => (getR rs1 ij.1, getR rs2 ij.2)) := by
  have e1 : rs1.flatMap (fun r1 => (rs2.filter (conjoinable r1 ·)).map (fun r2 => (r1, r2)))
      = ((List.range rs1.length).map (getR rs1)).flatMap
          (fun r1 => (rs2.filter (conjoinable r1 ·)).map (fun r2 => (r1, r2))) :=
    congrArg (List.flatMap (fun r1 => (rs2.filter (conjoinable r1 ·)).map (fun r2 => (r1, r2)))) (eq_map_range rs1)
  have e2 : ∀ r1 : Rule, (rs2.filter (conjoinable r1 ·)).map (fun r2 => (r1, r2))
      = (((List.range rs2.length).map (getR rs2)).filter (conjoinable r1 ·)).map (fun r2 => (r1, r2)) := by
    intro r1
    exact congrArg (fun l => (List.filter (conjoinable r1 ·) l).map (fun r2 => (r1, r2))) (eq_map_range rs2)
  rw [e1, List.flatMap_map, idxPairs, List.map_flatMap]
  congr 1
  funext i
  rw [e2, List.filter_map, List.map_map, List.map_map]
  rfl

theorem mem_idxPairs {rs1 rs2 : List Rule} {i j : Nat} :
    (i, j) ∈ idxPairs rs1 rs2 ↔ i < rs1.length ∧ j < rs2.length ∧ conjoinable (getR rs1 i) (getR rs2 j) = true := by
  simp only [idxPairs, List.mem_flatMap, List.mem_range, List.mem_map, List.mem_filter, Prod.mk.injEq]
  constructor
  · rintro ⟨i', hi, j', ⟨hj, hc⟩, rfl, rfl⟩; exact ⟨hi, hj, hc⟩
  · rintro ⟨hi, hj, hc⟩; exact ⟨i, hi, j, ⟨hj, hc⟩, rfl, rfl⟩

theorem idxPairs_nodup (rs1 rs2 : List Rule) : (idxPairs rs1 rs2).Nodup := by
  rw [idxPairs, List.nodup_flatMap]
  constructor
  · intro i _
    apply List.Nodup.map
    · intro a b h; exact (Prod.mk.inj h).2
    · exact List.nodup_range.filter _
  · refine List.Pairwise.imp ?_ (List.nodup_range (n := rs1.length))
    intro a b hab
    simp only [Function.onFun]
    rw [List.disjoint_left]
    intro p hp hp'
    simp only [List.mem_map] at hp hp'
    obtain ⟨j, _, rfl⟩ := hp
    obtain ⟨j', _, h⟩ := hp'
    exact hab (Prod.mk.inj h).1.symm

/-! ### `ntPairs`: injective, nonterminal values -/

/-- the fold step of `ntPairs` -/
def step (acc : List ((Label × Label) × Label) × List String) (p : Label × Label) :
    List ((Label × Label) × Label) × List String :=
  let nm := uniqueName s!"<{p.1.name},{p.2.name}>" acc.2
  (acc.1 ++ [(p, ⟨nm, p.1.type, false⟩)], acc.2 ++ [nm])

def ntPairsList (h1 h2 : HRG) : List (Label × Label) :=
  (h1.labels.filter (!·.terminal)).flatMap (fun a => (h2.labels.filter (!·.terminal)).map (fun b => (a, b)))

theorem ntPairs_eq (h1 h2 : HRG) :
    ntPairs h1 h2 = ((ntPairsList h1 h2).foldl step ([], (h1.labels ++ h2.labels).map (·.name))).1 := rfl

theorem foldl_nonterminal (ps : List (Label × Label)) :
    ∀ acc : List ((Label × Label) × Label) × List String, (∀ q ∈ acc.1, q.2.terminal = false) →
      ∀ q ∈ (ps.foldl step acc).1, q.2.terminal = false := by
  induction ps with
  | nil => intro acc h; exact h
  | cons p ps ih =>
    intro acc h
    apply ih
    intro q hq
    simp only [step, List.mem_append, List.mem_singleton] at hq
    rcases hq with hq | rfl
    · exact h q hq
    · rfl

theorem ntPairs_nonterminal (h1 h2 : HRG) : ∀ q ∈ ntPairs h1 h2, q.2.terminal = false := by
  rw [ntPairs_eq]
  exact foldl_nonterminal _ _ (by simp)

/-- **the new-name map is injective**: a label of the conjunction determines the pair it stands for -/
theorem ntGet_inj (h1 h2 : HRG) {a b a' b' X : Label}
    (h : ntGet (ntPairs h1 h2) a b = some X) (h' : ntGet (ntPairs h1 h2) a' b' = some X) :
    a = a' ∧ b = b' := by
  obtain ⟨q, hq, hk, hv⟩ := ntGet_mem h
  obtain ⟨q', hq', hk', hv'⟩ := ntGet_mem h'
  have hnd := (C17.ntPairs_names_fresh h1 h2).1
  have : q = q' := List.inj_on_of_nodup_map hnd hq hq' (by rw [hv, hv'])
  subst this
  have := hk.symm.trans hk'
  exact ⟨(Prod.mk.inj this).1, (Prod.mk.inj this).2⟩

/-! ### `conjoin` -/

theorem conjoin_unpack (h1 h2 : HRG) (start : Label) (rules : List Rule)
    (h : conjoin h1 h2 = .ok (start, rules)) :
    ntGet (ntPairs h1 h2) h1.start h2.start = some start ∧
    List.Forall₂ (fun (p : Rule × Rule) r => conjoinRules (ntPairs h1 h2) p.1 p.2 = .ok r)
      (h1.rules.flatMap (fun r1 => (h2.rules.filter (conjoinable r1 ·)).map (fun r2 => (r1, r2)))) rules := by
  unfold conjoin at h
  split at h
  · cases h
  · cases hs : ntGet (ntPairs h1 h2) h1.start h2.start with
    | none => simp only [hs] at h; cases h
    | some st =>
      simp only [hs] at h
      change (do
        let rules ← List.mapM (fun (p : Rule × Rule) => conjoinRules (ntPairs h1 h2) p.1 p.2) _
        pure (st, rules)) = Except.ok (start, rules) at h
      cases hm : List.mapM (fun (p : Rule × Rule) => conjoinRules (ntPairs h1 h2) p.1 p.2)
          (h1.rules.flatMap (fun r1 => (h2.rules.filter (conjoinable r1 ·)).map (fun r2 => (r1, r2)))) with
      | error x => rw [hm] at h; cases h
      | ok rs =>
        rw [hm] at h
        cases h
        exact ⟨rfl, mapM_ok _ _ _ hm⟩

/-- everything the derivation correspondence needs to know about `conjoin h1 h2 = .ok (start, rules)` -/
structure Setup (h1 h2 : HRG) (start : Label) (rules : List Rule) : Prop where
  start_eq : ntGet (ntPairs h1 h2) h1.start h2.start = some start
  len : rules.length = (idxPairs h1.rules h2.rules).length
  nodup : (idxPairs h1.rules h2.rules).Nodup
  mem_idx : ∀ (i j : Nat) (r1 r2 : Rule), h1.rules[i]? = some r1 → h2.rules[j]? = some r2 → conjoinable r1 r2 = true →
    (i, j) ∈ idxPairs h1.rules h2.rules
  at_idx : ∀ (k i j : Nat), (idxPairs h1.rules h2.rules)[k]? = some (i, j) →
    ∃ r1 r2 r : Rule, h1.rules[i]? = some r1 ∧ h2.rules[j]? = some r2 ∧ rules[k]? = some r ∧
      conjoinable r1 r2 = true ∧ RuleCorr (ntPairs h1 h2) r1 r2 r
  inj : ∀ {a b a' b' X : Label}, ntGet (ntPairs h1 h2) a b = some X → ntGet (ntPairs h1 h2) a' b' = some X →
    a = a' ∧ b = b'

theorem wfHRG_nodup {h : HRG} (hw : wfHRG h = true) {r : Rule} (hr : r ∈ h.rules) :
    ((ntEdges r).map (·.id)).Nodup := by
  simp only [wfHRG, List.all_eq_true] at hw
  exact (nodupIds_iff _).1 (hw r hr)

theorem setup_of_conjoin (h1 h2 : HRG) (start : Label) (rules : List Rule)
    (hw1 : wfHRG h1 = true) (hw2 : wfHRG h2 = true)
    (h : conjoin h1 h2 = .ok (start, rules)) : Setup h1 h2 start rules := by
  obtain ⟨hstart, hf⟩ := conjoin_unpack h1 h2 start rules h
  rw [pairs_eq_map_idx] at hf
  have hlen := hf.length_eq
  rw [List.length_map] at hlen
  refine ⟨hstart, hlen.symm, idxPairs_nodup _ _, ?_, ?_, fun h h' => ntGet_inj h1 h2 h h'⟩
  · intro i j r1 r2 hi hj hc
    rw [mem_idxPairs, getR_of_get? hi, getR_of_get? hj]
    exact ⟨(List.getElem?_eq_some_iff.1 hi).1, (List.getElem?_eq_some_iff.1 hj).1, hc⟩
  · intro k i j hk
    obtain ⟨hk1, hk2⟩ := List.getElem?_eq_some_iff.1 hk
    have hmem : (i, j) ∈ idxPairs h1.rules h2.rules := hk2 ▸ List.getElem_mem hk1
    obtain ⟨hi, hj, hc⟩ := mem_idxPairs.1 hmem
    have hk3 : k < rules.length := by omega
    have hR := (List.forall₂_iff_get.1 hf).2 k (by simpa using hk1) hk3
    simp only [List.get_eq_getElem, List.getElem_map, hk2] at hR
    have g1 : h1.rules[i]? = some (getR h1.rules i) := by simp [getR, hi]
    have g2 : h2.rules[j]? = some (getR h2.rules j) := by simp [getR, hj]
    refine ⟨getR h1.rules i, getR h2.rules j, rules[k], g1, g2, by simp [hk3], hc, ?_⟩
    exact ruleCorr_of_conjoinRules _ _ _ _ (ntPairs_nonterminal h1 h2)
      (wfHRG_nodup hw1 (List.mem_of_getElem? g1)) (wfHRG_nodup hw2 (List.mem_of_getElem? g2)) hc hR

end C17b
