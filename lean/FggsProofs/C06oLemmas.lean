/-
Helper lemmas for Props/C06o.lean: the dense tensor over fresh axes with an arbitrary default (`denseRaw`, the
generalisation of `C14bL.nestedRaw` to a default other than 0): it satisfies `NormOK` and its dense tensor is the list —
the default is irrelevant since every cell is backed.
-/
import FggsModel.JsonWeights
import FggsProofs.C14bLemmas
import FggsProofs.C09dRenameLemmas
import Mathlib.Tactic.Linarith
import Mathlib.Data.List.Basic

set_option linter.unusedSimpArgs false
set_option linter.unusedVariables false

namespace C06oL
open Fggs Fggs.Ax Fggs.Un Fggs.Bn Fggs.Jw C06dL C14bL

/-- the tensor `default_to` passes to the constructor: `nestedRaw` with default `d` -/
def denseRaw (shape : List Nat) (flat : List Ext) (next : Nat) (d : Ext) : PT :=
  { nestedRaw shape flat next with default := d }

theorem normalize_default (T : PT) : (normalize T).default = T.default := by
  rw [normalize_eq]
  split <;> rfl

theorem denseRaw_normOK (shape : List Nat) (fl : List Ext) (next : Nat) (d : Ext) (hl : fl.length = numel shape) :
    NormOK (denseRaw shape fl next d) :=
  let h := nestedRaw_normOK shape fl next hl
  ⟨h.len, h.nodup, h.fvsub, h.occ, h.top⟩

theorem denseRaw_vshape (shape : List Nat) (fl : List Ext) (next : Nat) (d : Ext) :
    (denseRaw shape fl next d).vshape = shape := nestedRaw_vshape shape fl next

theorem denseRaw_backs (shape : List Nat) (fl : List Ext) (next : Nat) (d : Ext) (c : List Nat) (hc : c ∈ assigns shape) :
    Backs (denseRaw shape fl next d) c (readEnv next c) := nestedRaw_backs shape fl next c hc

/-- **the dense tensor of the raw tensor is the list**, whatever the default -/
theorem denseRaw_dense (shape : List Nat) (fl : List Ext) (next : Nat) (d : Ext) (hl : fl.length = numel shape) :
    (denseRaw shape fl next d).dense = fl := by
  have hN := denseRaw_normOK shape fl next d hl
  have hs : Sem (denseRaw shape fl next d) := sem_of_occ hN.nodup hN.fvsub hN.occ
  have hv := denseRaw_vshape shape fl next d
  apply list_ext_flat shape
  · rw [length_dense, hv]
  · exact hl
  intro c hc
  have hb := denseRaw_backs shape fl next d c hc
  have h1 := dense_backed hs hb
  rw [hv] at h1
  rw [h1]
  show some (fl[flat ((nestedRaw shape fl next).paxes.map (·.2)) (pidx (nestedRaw shape fl next).paxes (readEnv next c))]?.getD d)
    = fl[flat shape c]?
  rw [nestedRaw_pidx shape fl next c (mem_assigns_length hc), nestedRaw_sizes]
  have hlt : flat shape c < fl.length := by rw [hl]; exact flat_lt hc
  rw [List.getElem?_eq_getElem hlt]
  rfl

theorem denseRaw_spec (shape : List Nat) (fl : List Ext) (next : Nat) (d : Ext) (hl : fl.length = numel shape) :
    (normalize (denseRaw shape fl next d)).wf = true ∧ (normalize (denseRaw shape fl next d)).vshape = shape ∧
    (normalize (denseRaw shape fl next d)).dense = fl ∧ (normalize (denseRaw shape fl next d)).default = d := by
  obtain ⟨h1, h2, h3⟩ := normalize_spec (denseRaw_normOK shape fl next d hl)
  rw [denseRaw_vshape] at h2
  rw [denseRaw_dense shape fl next d hl] at h3
  exact ⟨h1, h2, h3, normalize_default _⟩

theorem defaultTo_eq (t : PT) (d : Ext) (next : Nat) :
    defaultTo t d next = if Sh.sameDefault t.default d then t else normalize (denseRaw t.vshape t.dense next d) := rfl

/-! ### clone -/

open C09dL

theorem cloneT_eq (t : PT) (next : Nat) : cloneT t next = renamePT (renOf t.paxes next) t := rfl

theorem renOf_inj (t : PT) (next : Nat) :
    ∀ k ∈ t.paxes, ∀ l ∈ t.paxes, rf (renOf t.paxes next) k.1 = rf (renOf t.paxes next) l.1 → k.1 = l.1 :=
  fun k hk l hl e => rf_renOf_inj next (List.mem_map_of_mem hk) (List.mem_map_of_mem hl) e

end C06oL
