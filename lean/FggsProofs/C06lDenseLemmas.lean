/-
Helper lemmas for Props/C06l.lean, part 2: the tensor `dim_to_dense` builds (`rawT`): the other virtual axes `A ++ B`
renamed to fresh physical axes, the physical tensor re-patterned over (the physical axes of the others, the virtual
index of the dense axis), and the dense axis replaced by `ins` (the unit axis or a fresh physical axis).
-/
import FggsProofs.C06lBaseLemmas

set_option linter.unusedSimpArgs false
set_option linter.unusedVariables false

namespace C06lL
open Fggs Fggs.Ax Fggs.Un Fggs.Sh Fggs.It C06b C06dL

theorem mem_firstOcc {es : List Axis} {q : Nat × Nat} : q ∈ Ps.firstOcc es ↔ ∃ e ∈ es, q ∈ e.fv := by
  unfold Ps.firstOcc
  rw [List.mem_eraseDups, List.mem_flatMap]

/-- what the replacement `ins` (with its physical axes `extra`) of the dense axis `ed` has to satisfy;
`k` is the fresh identity -/
structure InsOK (k : Nat) (ed ins : Axis) (extra : List (Nat × Nat)) : Prop where
  numel : ins.numel = ed.numel
  fv : ins.fv = extra
  id : ∀ p ∈ extra, p.1 = k ∧ p.2 ≠ 1
  nodup : (extra.map (·.1)).Nodup
  size : Ax.numel (extra.map (·.2)) = ed.numel
  flat : ∀ γ, ins.eval γ = Ax.flat (extra.map (·.2)) (pidx extra γ)
  ev : ∀ (ρ γ : Nat → Nat), ed.eval ρ < ed.numel → γ k = ed.eval ρ → ins.eval γ = ed.eval ρ
  rng : ∀ (ρ γ : Nat → Nat), ed.eval ρ < ed.numel → γ k = ed.eval ρ → ∀ p ∈ extra, γ p.1 < p.2

theorem insOK_unit (k : Nat) (ed : Axis) (h : ed.numel = 1) : InsOK k ed unitAxis [] where
  numel := by rw [unitAxis_numel, h]
  fv := unitAxis_fv
  id := by simp
  nodup := by simp
  size := by rw [h]; rfl
  flat := by intro γ; rw [unitAxis_eval]; simp [pidx, Ax.flat]
  ev := by intro ρ γ h1 _; rw [unitAxis_eval]; omega
  rng := by simp

theorem insOK_phys (k : Nat) (ed : Axis) (h : ed.numel ≠ 1) : InsOK k ed (.phys k ed.numel) [(k, ed.numel)] where
  numel := by simp [Axis.numel]
  fv := by simp [Axis.fv]
  id := by simp [h]
  nodup := by simp
  size := by simp [numel_cons, numel_nil]
  flat := by intro γ; simp [pidx, Ax.flat, Axis.eval, numel_nil]
  ev := by intro ρ γ _ h2; simp [Axis.eval, h2]
  rng := by intro ρ γ h1 h2 p hp; simp only [List.mem_singleton] at hp; subst hp; simpa [h2] using h1

/-- the re-patterning of `t` over (physical axes of the other dimensions, virtual index of the dense dimension) -/
def reT (t : PT) (fv : List (Nat × Nat)) (ed : Axis) : PT :=
  PT.mk t.physical t.paxes (fv.map (fun k => Axis.phys k.1 k.2) ++ [ed]) t.default

/-- the tensor `dim_to_dense` builds -/
def rawT (t : PT) (A B : List Axis) (ed ins : Axis) (extra : List (Nat × Nat)) (next : Nat) : PT :=
  let fv := Ps.firstOcc (A ++ B)
  { physical := (reT t fv ed).dense, paxes := fresh fv next ++ extra,
    vaxes := A.map (Ps.renameAxis (renOf fv next)) ++ [ins] ++ B.map (Ps.renameAxis (renOf fv next)),
    default := t.default }

section
variable {t : PT} {A B : List Axis} {ed ins : Axis} {extra : List (Nat × Nat)} {next : Nat}

theorem fv_sub (hs : Struct t) (hv : t.vaxes = A ++ [ed] ++ B) : ∀ q ∈ Ps.firstOcc (A ++ B), q ∈ t.paxes := by
  intro q hq
  obtain ⟨e, he, hqe⟩ := mem_firstOcc.1 hq
  refine hs.fvsub e ?_ q hqe
  rw [hv]
  simp only [List.mem_append, List.mem_singleton] at he ⊢
  tauto

theorem fv_nodup (hs : Struct t) (hv : t.vaxes = A ++ [ed] ++ B) : ((Ps.firstOcc (A ++ B)).map (·.1)).Nodup := by
  refine List.Nodup.map_on ?_ (C07bL.nodup_eraseDups _)
  intro x hx y hy e
  exact eq_of_mem_nodup_fst hs.nodup (fv_sub hs hv x hx) (fv_sub hs hv y hy) e

theorem fv_length_le (hs : Struct t) (hv : t.vaxes = A ++ [ed] ++ B) :
    (Ps.firstOcc (A ++ B)).length ≤ t.paxes.length :=
  (List.subperm_of_subset (C07bL.nodup_eraseDups _) (fun q hq => fv_sub hs hv q hq)).length_le

theorem ed_mem (hv : t.vaxes = A ++ [ed] ++ B) : ed ∈ t.vaxes := by rw [hv]; simp

theorem reT_sem (hs : Struct t) (hv : t.vaxes = A ++ [ed] ++ B) : Sem (reT t (Ps.firstOcc (A ++ B)) ed) := by
  apply sem_of_occ
  · exact hs.nodup
  · intro e he q hq
    simp only [reT, List.mem_append, List.mem_map, List.mem_singleton] at he
    rcases he with ⟨k, hk, rfl⟩ | rfl
    · simp only [Axis.fv, List.mem_singleton] at hq
      subst hq
      exact fv_sub hs hv _ hk
    · exact hs.fvsub e (ed_mem hv) q hq
  · intro p hp
    obtain ⟨e, he, hpe⟩ := hs.occ p hp
    rw [hv] at he
    simp only [List.mem_append, List.mem_singleton] at he
    have hin : e ∈ A ++ B → ∃ e' ∈ (reT t (Ps.firstOcc (A ++ B)) ed).vaxes, p ∈ e'.fv := by
      intro h
      refine ⟨.phys p.1 p.2, ?_, by simp [Axis.fv]⟩
      simp only [reT, List.mem_append, List.mem_map, List.mem_singleton]
      exact Or.inl ⟨p, mem_firstOcc.2 ⟨e, h, hpe⟩, rfl⟩
    rcases he with (he | he) | he
    · exact hin (List.mem_append_left _ he)
    · subst he
      exact ⟨e, by simp [reT], hpe⟩
    · exact hin (List.mem_append_right _ he)

theorem rawT_struct (hs : Struct t) (hv : t.vaxes = A ++ [ed] ++ B)
    (hi : InsOK (next + (Ps.firstOcc (A ++ B)).length) ed ins extra) : Struct (rawT t A B ed ins extra next) := by
  have hfn := fv_nodup hs hv
  set fv := Ps.firstOcc (A ++ B) with hfv
  refine ⟨?_, ?_, ?_, ?_, ?_⟩
  · -- len
    show (reT t fv ed).dense.length = Ax.numel ((fresh fv next ++ extra).map (·.2))
    rw [length_dense, List.map_append, numel_append, fresh_sizes, hi.size]
    show Ax.numel ((fv.map (fun k => Axis.phys k.1 k.2) ++ [ed]).map Axis.numel) = _
    rw [List.map_append, numel_append, List.map_map]
    congr 1
    simp [numel_cons, numel_nil]
  · -- nodup
    show ((fresh fv next ++ extra).map (·.1)).Nodup
    rw [List.map_append, List.nodup_append]
    refine ⟨fresh_nodup hfn next, hi.nodup, ?_⟩
    intro a ha b hb
    obtain ⟨p, hp, rfl⟩ := List.mem_map.1 ha
    obtain ⟨q, hq, rfl⟩ := List.mem_map.1 hb
    have := (fresh_lt hfn next p hp).2
    have := (hi.id q hq).1
    omega
  · -- no1
    intro p hp
    simp only [rawT, List.mem_append] at hp
    rcases hp with hp | hp
    · obtain ⟨q, hq, rfl⟩ := List.mem_map.1 hp
      exact hs.no1 q (fv_sub hs hv q hq)
    · exact (hi.id p hp).2
  · -- fvsub
    intro e he q hq
    simp only [rawT, List.mem_append, List.mem_singleton, List.mem_map] at he ⊢
    have hin : ∀ e0 ∈ A ++ B, q ∈ (Ps.renameAxis (renOf fv next) e0).fv → q ∈ fresh fv next := by
      intro e0 he0 hq
      rw [fv_rename] at hq
      obtain ⟨q0, hq0, rfl⟩ := List.mem_map.1 hq
      exact List.mem_map.2 ⟨q0, mem_firstOcc.2 ⟨e0, he0, hq0⟩, rfl⟩
    rcases he with (⟨e0, he0, rfl⟩ | rfl) | ⟨e0, he0, rfl⟩
    · exact Or.inl (hin e0 (List.mem_append_left _ he0) hq)
    · right; rw [hi.fv] at hq; exact hq
    · exact Or.inl (hin e0 (List.mem_append_right _ he0) hq)
  · -- occ
    intro p hp
    simp only [rawT, List.mem_append] at hp
    rcases hp with hp | hp
    · obtain ⟨q, hq, rfl⟩ := List.mem_map.1 hp
      obtain ⟨e0, he0, hqe⟩ := mem_firstOcc.1 hq
      refine ⟨Ps.renameAxis (renOf fv next) e0, ?_, ?_⟩
      · simp only [rawT, List.mem_append, List.mem_singleton, List.mem_map]
        rcases List.mem_append.1 he0 with h | h
        · exact Or.inl (Or.inl ⟨e0, h, rfl⟩)
        · exact Or.inr ⟨e0, h, rfl⟩
      · rw [fv_rename]
        exact List.mem_map.2 ⟨q, hqe, rfl⟩
    · exact ⟨ins, by simp [rawT], by rw [hi.fv]; exact hp⟩

theorem rawT_vshape (hv : t.vaxes = A ++ [ed] ++ B)
    (hi : InsOK (next + (Ps.firstOcc (A ++ B)).length) ed ins extra) :
    (rawT t A B ed ins extra next).vshape = t.vshape := by
  have key : ∀ L : List Axis, (L.map (Ps.renameAxis (renOf (Ps.firstOcc (A ++ B)) next))).map Axis.numel =
      L.map Axis.numel := by
    intro L; rw [List.map_map]; apply List.map_congr_left; intro e _; exact numel_rename _ e
  unfold PT.vshape
  rw [hv]
  simp only [rawT, List.map_append, List.map_cons, List.map_nil, hi.numel, key]

/-- the virtual indices agree when the assignments correspond -/
theorem rawT_eval (hv : t.vaxes = A ++ [ed] ++ B) (ρ γ : Nat → Nat)
    (h1 : ∀ q ∈ Ps.firstOcc (A ++ B), γ (rn (renOf (Ps.firstOcc (A ++ B)) next) q.1) = ρ q.1)
    (h2 : ins.eval γ = ed.eval ρ) :
    (rawT t A B ed ins extra next).vaxes.map (Axis.eval γ) = t.vaxes.map (Axis.eval ρ) := by
  have hin : ∀ e0 ∈ A ++ B, (Ps.renameAxis (renOf (Ps.firstOcc (A ++ B)) next) e0).eval γ = e0.eval ρ := by
    intro e0 he0
    rw [eval_rename]
    apply eval_congr
    intro q hq
    exact h1 q (mem_firstOcc.2 ⟨e0, he0, hq⟩)
  have key : ∀ L : List Axis, (∀ e ∈ L, e ∈ A ++ B) →
      (L.map (Ps.renameAxis (renOf (Ps.firstOcc (A ++ B)) next))).map (Axis.eval γ) = L.map (Axis.eval ρ) := by
    intro L hL; rw [List.map_map]; apply List.map_congr_left; intro e he; exact hin e (hL e he)
  rw [hv]
  simp only [rawT, List.map_append, List.map_cons, List.map_nil, h2]
  rw [key A (fun e he => List.mem_append_left _ he), key B (fun e he => List.mem_append_right _ he)]

theorem rawT_dense (hs : Struct t) (hv : t.vaxes = A ++ [ed] ++ B)
    (hi : InsOK (next + (Ps.firstOcc (A ++ B)).length) ed ins extra) :
    (rawT t A B ed ins extra next).dense = t.dense := by
  have hfn := fv_nodup hs hv
  have hR := (rawT_struct hs hv hi).sem
  have hfs := fv_sub hs hv
  set fv := Ps.firstOcc (A ++ B) with hfv
  have hedr : ∀ ρ, (∀ p ∈ t.paxes, ρ p.1 < p.2) → ed.eval ρ < ed.numel := fun ρ hρ =>
    C06.eval_lt_numel ed ρ (fun q hq => hρ q (hs.fvsub ed (ed_mem hv) q hq))
  have hes : (fv.map (fun k => Axis.phys k.1 k.2) ++ [ed]).map Axis.numel = fv.map (·.2) ++ [ed.numel] := by
    simp [Axis.numel]
  have hesv : ∀ ρ : Nat → Nat, (fv.map (fun k => Axis.phys k.1 k.2) ++ [ed]).map (Axis.eval ρ) =
      fv.map (fun q => ρ q.1) ++ [ed.eval ρ] := by
    intro ρ; simp [Axis.eval]
  refine repattern_dense t (rawT t A B ed ins extra next) (fv.map (fun k => Axis.phys k.1 k.2) ++ [ed])
    (fun γ => pidx (fresh fv next) γ ++ [ins.eval γ]) hs.sem hR (reT_sem hs hv) rfl rfl (rawT_vshape hv hi) ?_ ?_ ?_
  · -- dix
    intro γ hγ
    have hγ1 : ∀ p ∈ fresh fv next, γ p.1 < p.2 := fun p hp => hγ p (List.mem_append.2 (Or.inl hp))
    have hγ2 : ∀ p ∈ extra, γ p.1 < p.2 := fun p hp => hγ p (List.mem_append.2 (Or.inr hp))
    have hins : ins.eval γ < ed.numel := by
      rw [← hi.numel]
      exact C06.eval_lt_numel ins γ (fun q hq => hγ2 q (by rw [hi.fv] at hq; exact hq))
    constructor
    · rw [hes, mem_assigns_iff]
      apply List.rel_append (by
        have := pidx_forall₂ γ (fresh fv next) hγ1
        rwa [fresh_sizes] at this)
      exact List.Forall₂.cons hins List.Forall₂.nil
    · rw [hes]
      show _ = Ax.flat ((fresh fv next ++ extra).map (·.2)) (pidx (fresh fv next ++ extra) γ)
      rw [List.map_append, pidx_append, fresh_sizes,
        flat_append _ _ _ _ (by simp [pidx, fresh]), flat_append _ _ _ _ (by simp [pidx, fresh]),
        hi.size, ← hi.flat]
      simp [Ax.flat, numel_cons, numel_nil]
  · -- fwd
    intro ρ hρ
    let γ : Nat → Nat := fun w => if w = next + fv.length then ed.eval ρ else ρ (fv[w - next]?.getD (0, 0)).1
    have hγfv : ∀ q ∈ fv, γ (rn (renOf fv next) q.1) = ρ q.1 := by
      intro q hq
      obtain ⟨i, hi', h1, h2⟩ := rn_renOf_mem hfn next hq
      rw [h2]
      show (if next + i = next + fv.length then _ else _) = _
      rw [if_neg (by omega), show next + i - next = i by omega, h1]
      rfl
    have hγk : γ (next + fv.length) = ed.eval ρ := by simp [γ]
    have hins := hi.ev ρ γ (hedr ρ hρ) hγk
    refine ⟨γ, ?_, rawT_eval hv ρ γ hγfv hins, ?_⟩
    · intro p hp
      simp only [rawT, List.mem_append] at hp
      rcases hp with hp | hp
      · obtain ⟨q, hq, rfl⟩ := List.mem_map.1 hp
        simp only
        rw [hγfv q hq]
        exact hρ q (hfs q hq)
      · exact hi.rng ρ γ (hedr ρ hρ) hγk p hp
    · rw [hesv, pidx_fresh, hins]
      congr 1
      apply List.map_congr_left
      intro q hq
      exact (hγfv q hq).symm
  · -- bwd
    intro γ ρ hγ hρ he
    rw [hesv, pidx_fresh] at he
    obtain ⟨e1, e2⟩ := List.append_inj he (by simp)
    symm
    apply rawT_eval hv ρ γ
    · intro q hq
      exact (List.map_inj_left.1 e1 q hq).symm
    · simpa using e2.symm

theorem rawT_paxes_lt (hs : Struct t) (hv : t.vaxes = A ++ [ed] ++ B)
    (hi : InsOK (next + (Ps.firstOcc (A ++ B)).length) ed ins extra) :
    ∀ p ∈ (rawT t A B ed ins extra next).paxes, p.1 < next + t.paxes.length + 1 := by
  intro p hp
  have := fv_length_le hs hv
  simp only [rawT, List.mem_append] at hp
  rcases hp with hp | hp
  · have := (fresh_lt (fv_nodup hs hv) next p hp).2
    omega
  · have := (hi.id p hp).1
    omega

/-- the other axes of `rawT` only mention the renamed axes -/
theorem rawT_others_lt (hs : Struct t) (hv : t.vaxes = A ++ [ed] ++ B) :
    ∀ e' ∈ A.map (Ps.renameAxis (renOf (Ps.firstOcc (A ++ B)) next)) ++
        B.map (Ps.renameAxis (renOf (Ps.firstOcc (A ++ B)) next)),
      ∀ q ∈ e'.fv, q.1 < next + (Ps.firstOcc (A ++ B)).length := by
  intro e' he' q hq
  rw [← List.map_append] at he'
  obtain ⟨e0, he0, rfl⟩ := List.mem_map.1 he'
  rw [fv_rename] at hq
  obtain ⟨q0, hq0, rfl⟩ := List.mem_map.1 hq
  obtain ⟨i, hi', -, h2⟩ := rn_renOf_mem (fv_nodup hs hv) next (mem_firstOcc.2 ⟨e0, he0, hq0⟩)
  simp only [h2]
  omega

end

end C06lL
