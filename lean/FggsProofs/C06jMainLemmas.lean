/-
Helper lemmas for Props/C06j.lean, part 3: the tensor that `stack` hands to the constructor (`rawStack`) is a
well-formed description (up to the squeezing of size-1 axes) of torch.stack of the dense operands.

* `SliceResolved`: the hypothesis on the run of the unification of one operand's slice (no fuel exhausted);
* `slice_ok`: the slice of an operand, indexed by the fresh axes, holds the operand's cells (`SliceOK`);
* `raw_normOK`, `raw_vshape`, `raw_cell`: the facts about `rawStack` that Props/C06j.lean needs.
-/
import FggsModel.ShapeOps
import FggsProofs.Props.C06
import FggsProofs.C06bLemmas
import FggsProofs.C06dBaseLemmas
import FggsProofs.C06dSideLemmas
import FggsProofs.C06jAntiLemmas
import FggsProofs.C06jSliceLemmas
import Mathlib.Tactic.Linarith
import Mathlib.Data.List.Basic
import Mathlib.Data.List.Forall2

set_option linter.unusedSimpArgs false
set_option linter.unusedVariables false

namespace C06jL
open Fggs Fggs.Ax Fggs.Un Fggs.Sh C06b C06dL C06eL

/-! ### small facts -/

theorem sameDefault_eq {a b : Ext} (h : sameDefault a b = true) : a = b := by
  cases a <;> cases b <;> simp_all [sameDefault, Ext.eqIEEE]

theorem length_flatten_const {α : Type} (m : Nat) : ∀ (L : List (List α)), (∀ l ∈ L, l.length = m) →
    L.flatten.length = L.length * m
  | [], _ => by simp
  | l :: L, h => by
    rw [List.flatten_cons, List.length_append, h l (by simp),
      length_flatten_const m L (fun x hx => h x (by simp [hx])), List.length_cons]
    ring

theorem flatten_getElem? {α : Type} (m : Nat) : ∀ (L : List (List α)), (∀ l ∈ L, l.length = m) →
    ∀ (i j : Nat) (l : List α), L[i]? = some l → j < m → L.flatten[i * m + j]? = l[j]?
  | [], _, i, j, l, hl, _ => by simp at hl
  | x :: L, h, 0, j, l, hl, hj => by
    simp only [List.getElem?_cons_zero, Option.some.injEq] at hl
    subst hl
    rw [List.flatten_cons, Nat.zero_mul, Nat.zero_add, List.getElem?_append_left (by rw [h x (by simp)]; exact hj)]
  | x :: L, h, i + 1, j, l, hl, hj => by
    simp only [List.getElem?_cons_succ] at hl
    have hx := h x (by simp)
    rw [List.flatten_cons, List.getElem?_append_right (by rw [hx]; nlinarith)]
    have : (i + 1) * m + j - x.length = i * m + j := by rw [hx]; rw [Nat.add_mul]; omega
    rw [this]
    exact flatten_getElem? m L (fun y hy => h y (by simp [hy])) i j l hl hj

theorem map_ins {α β : Type} (f : α → β) (d : Nat) (x : α) (l : List α) :
    (l.take d ++ [x] ++ l.drop d).map f = (l.map f).take d ++ [f x] ++ (l.map f).drop d := by
  simp [List.map_take, List.map_drop]

theorem ins_inj {α : Type} {d : Nat} {x y : α} {l1 l2 : List α} (hl : l1.length = l2.length)
    (h : l1.take d ++ [x] ++ l1.drop d = l2.take d ++ [y] ++ l2.drop d) : x = y ∧ l1 = l2 := by
  rw [List.append_assoc, List.append_assoc] at h
  obtain ⟨h1, h2⟩ := List.append_inj h (by simp [hl])
  simp only [List.singleton_append, List.cons.injEq] at h2
  refine ⟨h2.1, ?_⟩
  rw [← List.take_append_drop d l1, ← List.take_append_drop d l2, h1, h2.2]

theorem mem_ins {α : Type} {d : Nat} {x a : α} {l : List α} :
    a ∈ l.take d ++ [x] ++ l.drop d ↔ a = x ∨ a ∈ l := by
  constructor
  · intro h
    simp only [List.mem_append, List.mem_singleton] at h
    rcases h with (h | h) | h
    · exact .inr (List.mem_of_mem_take h)
    · exact .inl h
    · exact .inr (List.mem_of_mem_drop h)
  · rintro (h | h)
    · simp [h]
    · rw [← List.take_append_drop d l] at h
      simp only [List.mem_append, List.mem_singleton]
      rcases List.mem_append.1 h with h | h
      · exact .inl (.inl h)
      · exact .inr h

theorem mem_assigns_ins {d i n : Nat} {idx s : List Nat} (h : idx ∈ assigns s) (hi : i < n) :
    idx.take d ++ [i] ++ idx.drop d ∈ assigns (s.take d ++ [n] ++ s.drop d) := by
  rw [mem_assigns_iff] at h ⊢
  exact List.rel_append (List.rel_append (List.forall₂_take d h) (List.Forall₂.cons hi List.Forall₂.nil))
    (List.forall₂_drop d h)

/-- inserting a dimension of size 1 (index 0) does not change the flat position -/
theorem flat_ins_one {d : Nat} {idx s : List Nat} (h : idx.length = s.length) :
    flat (s.take d ++ [1] ++ s.drop d) (idx.take d ++ [0] ++ idx.drop d) = flat s idx := by
  have hl : (s.take d).length = (idx.take d).length := by simp [h]
  rw [flat_append _ _ _ _ (by simp [h]), flat_append _ _ _ _ hl]
  conv_rhs => rw [← List.take_append_drop d s, ← List.take_append_drop d idx, flat_append _ _ _ _ hl]
  simp [flat, numel_cons, numel_nil]

theorem normalize_default (T : PT) : (Bn.normalize T).default = T.default := by
  unfold Bn.normalize
  simp only []
  split <;> rfl

theorem LInv.congr_done {shape : List Nat} {done done' : List PT} {lggs : List Axis} {ks : List (Nat × Nat)}
    {lo hi : Nat} (h : LInv shape done lggs ks lo hi) (hd : ∀ t ∈ done', t ∈ done) : LInv shape done' lggs ks lo hi :=
  { h with cov := fun t ht => h.cov t (hd t ht) }

/-! ### the slice of one operand -/

/-- ADDED HYPOTHESIS (fuel): if the unification of the generalised axes with the operand's axes succeeds, then in its
final substitution no identity is bound twice, no bound physical axis remains in the clones of the fresh axes, and the
looked-up physical axes of the operand are unbound (`lookup` / `clone` with the constant `FUEL` followed every forwarding
chain to its end).  All three are decidable properties of the run. -/
def SliceResolved (fuel : Nat) (lggs : List Axis) (ks : List (Nat × Nat)) (t : PT) (nx : Nat) : Prop :=
  ∀ st, unifyAll fuel (lggs.zip t.vaxes) ⟨[], nx⟩ = (true, st) →
    (st.subst.map (·.1)).Nodup ∧
    (∀ g ∈ ks, ∀ q ∈ (clone st.subst FUEL (.phys g.1 g.2)).fv, bound st.subst q.1 = none) ∧
    (∀ p ∈ t.paxes, ∀ q ∈ (lookup st.subst FUEL (.phys p.1 p.2)).fv, bound st.subst q.1 = none)

/-- the slice `sl`, indexed by the fresh axes, holds the cells of the operand -/
def SliceOK (lggs : List Axis) (ks : List (Nat × Nat)) (t : PT) (sl : List Ext) : Prop :=
  sl.length = numel (ks.map (·.2)) ∧
  ∀ γ : Nat → Nat, (∀ k ∈ ks, γ k.1 < k.2) →
    sl[flat (ks.map (·.2)) (pidx ks γ)]? = t.dense[flat t.vshape (lggs.map (Axis.eval γ))]?

theorem slice_ok {fuel : Nat} {shape : List Nat} {done : List PT} {lggs : List Axis} {ks : List (Nat × Nat)}
    {lo hi next nx : Nat} (inv : LInv shape done lggs ks lo hi) {t : PT} (ht : t ∈ done) (hop : OpOK shape next t)
    (hlo : next ≤ lo) (hhi : hi ≤ nx) (hnn : next ≤ nx) (hres : SliceResolved fuel lggs ks t nx) {sl : List Ext}
    (hs : stackSlice fuel lggs ks t nx = some sl) : SliceOK lggs ks t sl := by
  obtain ⟨st, hu, hlkp, rfl⟩ := stackSlice_some hs
  obtain ⟨r1, r2, r3⟩ := hres st hu
  have hctx : SCtx lggs ks t nx st :=
    { ksnd := inv.ksnd
      kslt := fun k hk => Nat.lt_of_lt_of_le (inv.kslt k hk) hhi
      kspos := inv.kspos
      fvl := inv.fvl
      occ := inv.occ
      numl := inv.numl.trans hop.shape.symm
      cov := inv.cov t ht
      wf := hop.wf
      fresh := fun p hp => Nat.lt_of_lt_of_le (hop.fresh p hp) hnn
      pos := hop.pos
      disj := fun k hk p hp e => by
        have := inv.kslo k hk
        have := hop.fresh p hp
        omega
      run := runAll_of_unifyAll hu
      kn := r1
      cl := r2
      lk := r3
      lkp := hlkp }
  obtain ⟨sz', hag, hsz⟩ := hctx.sized
  have h2 : SCtx2 lggs ks t nx st sz' := ⟨hctx, hag, hsz⟩
  exact ⟨h2.slice_length, fun γ hγ => h2.slice_cell hγ⟩

/-! ### the tensor handed to the constructor -/

/-- the setting: the invariant of the fold for all operands, and every operand's slice is present and correct -/
structure RCtx (fuel : Nat) (ts : List PT) (A : List Axis × ASt) (shape : List Nat) (next : Nat) : Prop where
  inv : LInv shape ts A.1 (A.2.pairs.map (·.2)) next A.2.next
  two : 2 ≤ ts.length
  sl : ∀ t ∈ ts, ∃ sl, stackSlice fuel A.1 (A.2.pairs.map (·.2)) t (A.2.next + 1) = some sl ∧
    SliceOK A.1 (A.2.pairs.map (·.2)) t sl
  shp : ∀ t ∈ ts, t.vshape = shape
  sem : ∀ t ∈ ts, Sem t

section raw
variable {fuel : Nat} {ts : List PT} {A : List Axis × ASt} {shape : List Nat} {next : Nat}

theorem RCtx.slices_len (h : RCtx fuel ts A shape next) :
    ∀ l ∈ (slicesOf fuel ts A).map (fun s => s.getD []), l.length = numel (A.2.pairs.map (·.2) |>.map (·.2)) := by
  intro l hl
  unfold slicesOf at hl
  rw [List.map_map] at hl
  obtain ⟨t, ht, rfl⟩ := List.mem_map.1 hl
  obtain ⟨sl, hs, hok⟩ := h.sl t ht
  show ((stackSlice fuel A.1 (A.2.pairs.map (·.2)) t (A.2.next + 1)).getD []).length = _
  rw [hs]
  exact hok.1

theorem RCtx.slices_get (h : RCtx fuel ts A shape next) {i : Nat} {t : PT} (hi : ts[i]? = some t) :
    ∃ sl, ((slicesOf fuel ts A).map (fun s => s.getD []))[i]? = some sl ∧
      SliceOK A.1 (A.2.pairs.map (·.2)) t sl := by
  have ht : t ∈ ts := List.mem_of_getElem? hi
  obtain ⟨sl, hs, hok⟩ := h.sl t ht
  refine ⟨sl, ?_, hok⟩
  unfold slicesOf
  rw [List.map_map, List.getElem?_map, hi]
  show some ((stackSlice fuel A.1 (A.2.pairs.map (·.2)) t (A.2.next + 1)).getD []) = some sl
  rw [hs]
  rfl

theorem RCtx.raw_normOK (h : RCtx fuel ts A shape next) (dim : Nat) (d : Ext) :
    NormOK (rawStack fuel ts A dim d) where
  len := by
    show (((slicesOf fuel ts A).map (fun s => s.getD [])).flatten).length =
      numel (((A.2.next, ts.length) :: A.2.pairs.map (·.2)).map (·.2))
    rw [length_flatten_const _ _ h.slices_len, List.map_cons, numel_cons]
    simp [slicesOf]
  nodup := by
    show (((A.2.next, ts.length) :: A.2.pairs.map (·.2)).map (·.1)).Nodup
    rw [List.map_cons, List.nodup_cons]
    refine ⟨?_, h.inv.ksnd⟩
    intro hin
    obtain ⟨k, hk, e⟩ := List.mem_map.1 hin
    have := h.inv.kslt k hk
    simp only at e
    omega
  fvsub := by
    intro e he q hq
    show q ∈ (A.2.next, ts.length) :: A.2.pairs.map (·.2)
    have he' : e ∈ A.1.take dim ++ [Axis.phys A.2.next ts.length] ++ A.1.drop dim := he
    rcases mem_ins.1 he' with rfl | he'
    · simp only [Axis.fv, List.mem_singleton] at hq
      rw [hq]; exact List.mem_cons_self
    · exact List.mem_cons_of_mem _ (h.inv.fvl e he' q hq)
  occ := by
    intro p hp
    show ∃ e ∈ A.1.take dim ++ [Axis.phys A.2.next ts.length] ++ A.1.drop dim, p ∈ e.fv
    have hp' : p ∈ (A.2.next, ts.length) :: A.2.pairs.map (·.2) := hp
    rcases List.mem_cons.1 hp' with rfl | hp'
    · exact ⟨_, mem_ins.2 (.inl rfl), by simp [Axis.fv]⟩
    · obtain ⟨g, hg, hpg⟩ := h.inv.occ p hp'
      exact ⟨g, mem_ins.2 (.inr hg), hpg⟩
  top := by
    intro g hg
    have hg' : g ∈ A.1.take dim ++ [Axis.phys A.2.next ts.length] ++ A.1.drop dim := hg
    right
    rcases mem_ins.1 hg' with rfl | hg'
    · intro q hq
      simp only [Axis.fv, List.mem_singleton] at hq
      rw [hq]
      have := h.two
      show ts.length ≠ 1
      omega
    · intro q hq
      exact h.inv.ksno1 q (h.inv.fvl g hg' q hq)

theorem RCtx.raw_vshape (h : RCtx fuel ts A shape next) (dim : Nat) (d : Ext) :
    (rawStack fuel ts A dim d).vshape = shape.take dim ++ [ts.length] ++ shape.drop dim := by
  show (A.1.take dim ++ [Axis.phys A.2.next ts.length] ++ A.1.drop dim).map Axis.numel = _
  rw [map_ins, h.inv.numl]
  rfl

/-- **cell `(…, i, …)` of the stacked tensor is the cell of operand `i`** (as optional elements of the dense tensors;
`d'` is what an unbacked cell of the operand holds) -/
theorem RCtx.raw_cell (h : RCtx fuel ts A shape next) (dim : Nat) (d : Ext) {i : Nat} {t : PT}
    (hi : ts[i]? = some t) (hd : t.default = d) {idx : List Nat} (hidx : idx ∈ assigns shape) :
    (rawStack fuel ts A dim d).dense[flat (rawStack fuel ts A dim d).vshape (idx.take dim ++ [i] ++ idx.drop dim)]? =
      t.dense[flat t.vshape idx]? := by
  have hN := h.raw_normOK dim d
  have hs : Sem (rawStack fuel ts A dim d) := sem_of_occ hN.nodup hN.fvsub hN.occ
  have ht : t ∈ ts := List.mem_of_getElem? hi
  have hilt : i < ts.length := by
    rcases Nat.lt_or_ge i ts.length with hlt | hge
    · exact hlt
    · rw [List.getElem?_eq_none hge] at hi; cases hi
  have hst := h.sem t ht
  have hshape := h.shp t ht
  have hvax : ∀ γ : Nat → Nat, (rawStack fuel ts A dim d).vaxes.map (Axis.eval γ) =
      (A.1.map (Axis.eval γ)).take dim ++ [γ A.2.next] ++ (A.1.map (Axis.eval γ)).drop dim := by
    intro γ
    show (A.1.take dim ++ [Axis.phys A.2.next ts.length] ++ A.1.drop dim).map (Axis.eval γ) = _
    rw [map_ins]
    rfl
  by_cases hb : ∃ γ : Nat → Nat, (∀ k ∈ A.2.pairs.map (·.2), γ k.1 < k.2) ∧ A.1.map (Axis.eval γ) = idx
  · obtain ⟨γ, hγ, hc⟩ := hb
    let γ' : Nat → Nat := ext γ A.2.next i
    have hagree : ∀ k ∈ A.2.pairs.map (·.2), γ' k.1 = γ k.1 := by
      intro k hk
      have := h.inv.kslt k hk
      simp only [γ', ext]
      rw [if_neg (by omega)]
    have hself : γ' A.2.next = i := ext_self γ A.2.next i
    have hc' : A.1.map (Axis.eval γ') = idx := by
      rw [← hc]
      apply List.map_congr_left
      intro g hg
      exact eval_congr γ' γ g (fun q hq => hagree q (h.inv.fvl g hg q hq))
    have hbk : Backs (rawStack fuel ts A dim d) (idx.take dim ++ [i] ++ idx.drop dim) γ' := by
      refine ⟨?_, ?_⟩
      · intro p hp
        have hp' : p ∈ (A.2.next, ts.length) :: A.2.pairs.map (·.2) := hp
        rcases List.mem_cons.1 hp' with rfl | hp'
        · show γ' A.2.next < ts.length
          rw [hself]; exact hilt
        · rw [hagree p hp']; exact hγ p hp'
      · rw [hvax, hc', hself]
    have e1 := dense_backed hs hbk
    rw [e1]
    obtain ⟨sl, hsl, hlen, hcell⟩ := h.slices_get hi
    have hpidx : pidx (rawStack fuel ts A dim d).paxes γ' = i :: pidx (A.2.pairs.map (·.2)) γ := by
      show pidx ((A.2.next, ts.length) :: A.2.pairs.map (·.2)) γ' = _
      unfold pidx
      rw [List.map_cons]
      show γ' A.2.next :: _ = _
      rw [hself]
      congr 1
      exact List.map_congr_left hagree
    have hflat : flat ((rawStack fuel ts A dim d).paxes.map (·.2)) (pidx (rawStack fuel ts A dim d).paxes γ') =
        i * numel ((A.2.pairs.map (·.2)).map (·.2)) + flat ((A.2.pairs.map (·.2)).map (·.2)) (pidx (A.2.pairs.map (·.2)) γ) := by
      rw [hpidx]
      rfl
    have hj : flat ((A.2.pairs.map (·.2)).map (·.2)) (pidx (A.2.pairs.map (·.2)) γ) <
        numel ((A.2.pairs.map (·.2)).map (·.2)) := flat_lt (pidx_mem_assigns γ _ hγ)
    have hphys : (rawStack fuel ts A dim d).physical[flat ((rawStack fuel ts A dim d).paxes.map (·.2))
        (pidx (rawStack fuel ts A dim d).paxes γ')]? = t.dense[flat t.vshape idx]? := by
      rw [hflat]
      show (((slicesOf fuel ts A).map (fun s => s.getD [])).flatten)[_]? = _
      rw [flatten_getElem? _ _ h.slices_len i _ sl hsl hj, hcell γ hγ, hc]
    rw [hphys]
    have hlt : flat t.vshape idx < t.dense.length := by
      rw [length_dense]; exact flat_lt (hshape ▸ hidx)
    rw [List.getElem?_eq_getElem hlt]
    rfl
  · have hb' : ∀ γ : Nat → Nat, (∀ k ∈ A.2.pairs.map (·.2), γ k.1 < k.2) → A.1.map (Axis.eval γ) ≠ idx :=
      fun γ hγ e => hb ⟨γ, hγ, e⟩
    have hlenA : (A.1.map (Axis.eval (fun _ => 0))).length = idx.length := by
      rw [List.length_map, mem_assigns_length hidx, ← h.inv.numl, List.length_map]
    have hm : idx.take dim ++ [i] ++ idx.drop dim ∈ assigns (rawStack fuel ts A dim d).vshape := by
      rw [h.raw_vshape]
      exact mem_assigns_ins hidx hilt
    have e1 := dense_unbacked hs hm (by
      intro γ hγ
      have e := hγ.2
      rw [hvax] at e
      have hl : (A.1.map (Axis.eval γ)).length = idx.length := by
        rw [List.length_map, mem_assigns_length hidx, ← h.inv.numl, List.length_map]
      exact hb' γ (fun k hk => hγ.1 k (List.mem_cons_of_mem _ hk)) (ins_inj hl e).2)
    have e2 := dense_unbacked hst (hshape ▸ hidx) (by
      intro ρ hρ
      obtain ⟨γ, hγ, he⟩ := h.inv.cov t ht ρ hρ.1
      exact hb' γ hγ (he.trans hρ.2))
    rw [e1, e2, hd]
    rfl

end raw

end C06jL
