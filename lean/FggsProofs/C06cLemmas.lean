/-
Helper definitions and lemmas for Props/C06c.lean (anti-unification of axes computes a generalisation of both
arguments).

`lift sel` is the common form of `C06c.liftL` (`sel = Prod.fst`) and `C06c.liftR` (`sel = Prod.snd`); `OK` is a copy
of `C06c.AStOK` (the definitions of Props/C06c.lean cannot be imported here); `Gen` bundles the conclusion of the
main theorem, including the preservation of the size-consistency invariant `SizedP`.
-/
import FggsModel.Unify
import FggsProofs.Props.C06
import FggsProofs.C06bLemmas
import Mathlib.Tactic.Linarith
import Mathlib.Data.List.Basic

set_option linter.unusedSimpArgs false
set_option linter.unusedVariables false

namespace C06cL
open Fggs Fggs.Ax Fggs.Un C06b

abbrev Pair := (Axis × Axis) × (Nat × Nat)

/-- read every fresh axis as the selected component of the pair it stands for -/
def lift (sel : Axis × Axis → Axis) (pairs : List Pair) (ρ : Nat → Nat) : Nat → Nat :=
  fun v => match pairs.find? (fun p => p.2.1 == v) with
    | some p => (sel p.1).eval ρ
    | none => ρ v

def Below (base : Nat) (a : Axis) : Prop := ∀ q ∈ a.fv, q.1 < base

/-- the physical axes of `a` carry the sizes given by `sz` (one size per identity) -/
def Sized (sz : Nat → Nat) (a : Axis) : Prop := ∀ q ∈ a.fv, q.2 = sz q.1

def SizedP (sz : Nat → Nat) (pairs : List Pair) : Prop := ∀ p ∈ pairs, Sized sz p.1.1 ∧ Sized sz p.1.2

structure OK (base : Nat) (st : ASt) : Prop where
  le : base ≤ st.next
  ids : ∀ p ∈ st.pairs, base ≤ p.2.1 ∧ p.2.1 < st.next
  nodup : (st.pairs.map (fun p => p.2.1)).Nodup
  size : ∀ p ∈ st.pairs, p.2.2 = p.1.1.numel ∧ p.1.1.numel = p.1.2.numel
  orig : ∀ p ∈ st.pairs, Below base p.1.1 ∧ Below base p.1.2

/-! ### structural equality of consistently sized axes -/

mutual
theorem axisEq_spec (sz : Nat → Nat) : ∀ (a b : Axis), axisEq a b = true → Sized sz a → Sized sz b →
    a.numel = b.numel ∧ ∀ ρ, a.eval ρ = b.eval ρ
  | .phys v n, .phys w m, h, ha, hb => by
    simp only [axisEq, beq_iff_eq] at h
    subst h
    have h1 := ha (v, n) (by simp [Axis.fv])
    have h2 := hb (v, m) (by simp [Axis.fv])
    simp only at h1 h2
    exact ⟨by simp [Axis.numel, h1, h2], fun ρ => by simp [Axis.eval]⟩
  | .prod es, .prod fs, h, ha, hb => by
    rw [axisEq] at h
    have := axisEqList_spec sz es fs h (by simpa [Sized, Axis.fv] using ha) (by simpa [Sized, Axis.fv] using hb)
    exact ⟨by rw [Axis.numel, Axis.numel]; exact this.1, fun ρ => by rw [Axis.eval, Axis.eval]; exact this.2 ρ 0⟩
  | .sum b1 t1 a1, .sum b2 t2 a2, h, ha, hb => by
    simp only [axisEq, Bool.and_eq_true, beq_iff_eq] at h
    obtain ⟨⟨h1, h2⟩, h3⟩ := h
    have := axisEq_spec sz t1 t2 h3 (by simpa [Sized, Axis.fv] using ha) (by simpa [Sized, Axis.fv] using hb)
    subst h1; subst h2
    exact ⟨by rw [Axis.numel, Axis.numel, this.1], fun ρ => by rw [Axis.eval, Axis.eval, this.2 ρ]⟩
  | .phys _ _, .prod _, h, _, _ => by simp [axisEq] at h
  | .phys _ _, .sum _ _ _, h, _, _ => by simp [axisEq] at h
  | .prod _, .phys _ _, h, _, _ => by simp [axisEq] at h
  | .prod _, .sum _ _ _, h, _, _ => by simp [axisEq] at h
  | .sum _ _ _, .phys _ _, h, _, _ => by simp [axisEq] at h
  | .sum _ _ _, .prod _, h, _, _ => by simp [axisEq] at h
theorem axisEqList_spec (sz : Nat → Nat) : ∀ (as bs : List Axis), axisEqList as bs = true →
    (∀ q ∈ fvList as, q.2 = sz q.1) → (∀ q ∈ fvList bs, q.2 = sz q.1) →
    numelList as = numelList bs ∧ ∀ ρ acc, evalList ρ as acc = evalList ρ bs acc
  | [], [], _, _, _ => ⟨rfl, fun _ _ => rfl⟩
  | a :: as, b :: bs, h, ha, hb => by
    simp only [axisEqList, Bool.and_eq_true] at h
    have h1 := axisEq_spec sz a b h.1 (fun q hq => ha q (by simp [fvList, hq])) (fun q hq => hb q (by simp [fvList, hq]))
    have h2 := axisEqList_spec sz as bs h.2 (fun q hq => ha q (by simp [fvList, hq]))
      (fun q hq => hb q (by simp [fvList, hq]))
    refine ⟨by rw [numelList, numelList, h1.1, h2.1], fun ρ acc => ?_⟩
    rw [evalList, evalList, h1.1, h1.2 ρ, h2.2 ρ]
  | [], _ :: _, h, _, _ => by simp [axisEqList] at h
  | _ :: _, [], h, _, _ => by simp [axisEqList] at h
end

/-! ### no zero-size factor ⇒ positive number of elements -/

mutual
theorem numel_pos_of_not_zero : ∀ (e : Axis), zero e = false → 0 < e.numel
  | .phys v n, h => by
    simp only [zero, beq_eq_false_iff_ne, ne_eq] at h
    rw [Axis.numel]; omega
  | .prod fs, h => by
    rw [zero] at h
    rw [Axis.numel]; exact numelList_pos_of_not_zero fs h
  | .sum b t a, h => by
    rw [Axis.numel]
    by_cases hb : b = 0
    · by_cases ha : a = 0
      · subst hb; subst ha
        simp only [zero, beq_self_eq_true, Bool.true_and] at h
        have := numel_pos_of_not_zero t h
        omega
      · omega
    · omega
theorem numelList_pos_of_not_zero : ∀ (fs : List Axis), zeroList fs = false → 0 < numelList fs
  | [], _ => by simp [numelList]
  | f :: fs, h => by
    simp only [zeroList, Bool.or_eq_false_iff] at h
    rw [numelList]
    exact Nat.mul_pos (numel_pos_of_not_zero f h.1) (numelList_pos_of_not_zero fs h.2)
end

theorem factors_pos_of_not_zeroList : ∀ (fs : List Axis), zeroList fs = false → ∀ x ∈ fs, 0 < x.numel
  | [], _ => by simp
  | f :: fs, h => by
    simp only [zeroList, Bool.or_eq_false_iff] at h
    intro x hx
    simp only [List.mem_cons] at hx
    rcases hx with rfl | hx
    · exact numel_pos_of_not_zero _ h.1
    · exact factors_pos_of_not_zeroList fs h.2 x hx

/-! ### stability of the reading of fresh axes -/

theorem find_key_of_nodup : ∀ (pairs : List Pair), (pairs.map (fun p => p.2.1)).Nodup → ∀ p ∈ pairs,
    pairs.find? (fun p' => p'.2.1 == p.2.1) = some p
  | [], _, p, hp => by simp at hp
  | x :: xs, hnd, p, hp => by
    rw [List.map_cons, List.nodup_cons] at hnd
    simp only [List.mem_cons] at hp
    rcases hp with rfl | hp
    · simp [List.find?]
    · have hne : (x.2.1 == p.2.1) = false := by
        rw [beq_eq_false_iff_ne]
        intro heq
        exact hnd.1 (by rw [heq]; exact List.mem_map.2 ⟨p, hp, rfl⟩)
      rw [List.find?, hne]
      exact find_key_of_nodup xs hnd.2 p hp

theorem lift_at_mem (sel : Axis × Axis → Axis) (pairs : List Pair) (ρ : Nat → Nat)
    (hnd : (pairs.map (fun p => p.2.1)).Nodup) {p : Pair} (hp : p ∈ pairs) :
    lift sel pairs ρ p.2.1 = (sel p.1).eval ρ := by
  unfold lift
  rw [find_key_of_nodup pairs hnd p hp]

theorem lift_append_of_mem (sel : Axis × Axis → Axis) (pairs new : List Pair) (ρ : Nat → Nat) (v : Nat)
    (h : ∃ p ∈ pairs, p.2.1 = v) : lift sel (pairs ++ new) ρ v = lift sel pairs ρ v := by
  unfold lift
  rw [List.find?_append]
  obtain ⟨p, hp, hv⟩ := h
  have : (pairs.find? (fun p => p.2.1 == v)).isSome = true :=
    List.find?_isSome.2 ⟨p, hp, by simp [hv]⟩
  obtain ⟨p', hp'⟩ := Option.isSome_iff_exists.1 this
  rw [hp']; rfl

theorem eval_lift_append (sel : Axis × Axis → Axis) (pairs new : List Pair) (ρ : Nat → Nat) (g : Axis)
    (h : ∀ q ∈ g.fv, ∃ p ∈ pairs, p.2 = q) :
    g.eval (lift sel (pairs ++ new) ρ) = g.eval (lift sel pairs ρ) :=
  eval_congr _ _ g (fun q hq => by
    obtain ⟨p, hp, hpq⟩ := h q hq
    exact lift_append_of_mem sel pairs new ρ q.1 ⟨p, hp, by rw [hpq]⟩)

theorem evalList_lift_append (sel : Axis × Axis → Axis) (pairs new : List Pair) (ρ : Nat → Nat) (gs : List Axis)
    (h : ∀ q ∈ fvList gs, ∃ p ∈ pairs, p.2 = q) (acc : Nat) :
    evalList (lift sel (pairs ++ new) ρ) gs acc = evalList (lift sel pairs ρ) gs acc :=
  evalList_congr _ _ gs (fun q hq => by
    obtain ⟨p, hp, hpq⟩ := h q hq
    exact lift_append_of_mem sel pairs new ρ q.1 ⟨p, hp, by rw [hpq]⟩) acc

/-! ### the conclusion of the main theorem -/

/-- `r` is the result of generalising `e` and `f` from the anti-substitution `st` -/
def Gen (sz : Nat → Nat) (base : Nat) (e f : Axis) (st : ASt) (r : Axis × ASt) : Prop :=
  OK base r.2 ∧ SizedP sz r.2.pairs ∧ (∃ new, r.2.pairs = st.pairs ++ new ∧ ∀ p ∈ new, p.2.2 ≠ 1) ∧
  r.1.numel = e.numel ∧ (∀ q ∈ r.1.fv, ∃ p ∈ r.2.pairs, p.2 = q) ∧
  (∀ ρ, InRange ρ e → r.1.eval (lift Prod.fst r.2.pairs ρ) = e.eval ρ) ∧
  (∀ ρ, InRange ρ f → r.1.eval (lift Prod.snd r.2.pairs ρ) = f.eval ρ)

/-! ### `extend_antisubst` -/

theorem extendAnti_gen (sz : Nat → Nat) (base : Nat) (e f : Axis) (st : ASt)
    (hst : OK base st) (hsz : SizedP sz st.pairs) (he : Below base e) (hf : Below base f)
    (hse : Sized sz e) (hsf : Sized sz f) (hn : e.numel = f.numel) :
    Gen sz base e f st (extendAnti e f st) := by
  unfold extendAnti
  split
  · next hunit =>
    simp only [Bool.and_eq_true, beq_iff_eq] at hunit
    refine ⟨hst, hsz, ⟨[], by simp, by simp⟩, ?_, ?_, ?_, ?_⟩
    · show unitAxis.numel = e.numel
      rw [unitAxis_numel, hunit.1]
    · intro q hq
      rw [unitAxis_fv] at hq; cases hq
    · intro ρ hρ
      show unitAxis.eval _ = _
      have := C06.eval_lt_numel e ρ hρ
      rw [unitAxis_eval]; omega
    · intro ρ hρ
      show unitAxis.eval _ = _
      have := C06.eval_lt_numel f ρ hρ
      rw [unitAxis_eval]; omega
  next hunit =>
  simp only [Bool.and_eq_true, beq_iff_eq] at hunit
  split
  · next p hfind =>
    have hp : p ∈ st.pairs := List.mem_of_find?_eq_some hfind
    have hpp := List.find?_some hfind
    simp only [Bool.and_eq_true] at hpp
    have h1 := axisEq_spec sz _ _ hpp.1 (hsz p hp).1 hse
    have h2 := axisEq_spec sz _ _ hpp.2 (hsz p hp).2 hsf
    refine ⟨hst, hsz, ⟨[], by simp, by simp⟩, ?_, ?_, ?_, ?_⟩
    · show (Axis.phys p.2.1 p.2.2).numel = e.numel
      rw [Axis.numel, (hst.size p hp).1, h1.1]
    · intro q hq
      simp only [Axis.fv, List.mem_singleton] at hq
      exact ⟨p, hp, by rw [hq]⟩
    · intro ρ _
      show (Axis.phys p.2.1 p.2.2).eval _ = _
      rw [Axis.eval, lift_at_mem _ _ _ hst.nodup hp]
      exact h1.2 ρ
    · intro ρ _
      show (Axis.phys p.2.1 p.2.2).eval _ = _
      rw [Axis.eval, lift_at_mem _ _ _ hst.nodup hp]
      exact h2.2 ρ
  · next hfind =>
    have hfresh : st.pairs.find? (fun p => p.2.1 == st.next) = none := by
      rw [List.find?_eq_none]
      intro x hx
      have := (hst.ids x hx).2
      simp only [beq_iff_eq]; omega
    have hlift : ∀ (sel : Axis × Axis → Axis) (ρ : Nat → Nat),
        lift sel (st.pairs ++ [((e, f), (st.next, e.numel))]) ρ st.next = (sel (e, f)).eval ρ := by
      intro sel ρ
      unfold lift
      rw [List.find?_append, hfresh]
      simp [List.find?]
    refine ⟨⟨?_, ?_, ?_, ?_, ?_⟩, ?_, ⟨_, rfl, ?_⟩, ?_, ?_, ?_, ?_⟩
    · show base ≤ st.next + 1
      have := hst.le; omega
    · intro p hp
      show base ≤ p.2.1 ∧ p.2.1 < st.next + 1
      simp only [List.mem_append, List.mem_singleton] at hp
      rcases hp with hp | rfl
      · have := hst.ids p hp; omega
      · have := hst.le; simp
        exact this
    · show (List.map (fun p => p.2.1) (st.pairs ++ [((e, f), (st.next, e.numel))])).Nodup
      rw [List.map_append, List.nodup_append]
      refine ⟨hst.nodup, by simp, ?_⟩
      intro a ha b hb
      simp only [List.map_cons, List.map_nil, List.mem_singleton] at hb
      obtain ⟨p, hp, rfl⟩ := List.mem_map.1 ha
      have := (hst.ids p hp).2
      omega
    · intro p hp
      simp only [List.mem_append, List.mem_singleton] at hp
      rcases hp with hp | rfl
      · exact hst.size p hp
      · exact ⟨rfl, hn⟩
    · intro p hp
      simp only [List.mem_append, List.mem_singleton] at hp
      rcases hp with hp | rfl
      · exact hst.orig p hp
      · exact ⟨he, hf⟩
    · intro p hp
      simp only [List.mem_append, List.mem_singleton] at hp
      rcases hp with hp | rfl
      · exact hsz p hp
      · exact ⟨hse, hsf⟩
    · intro p hp
      simp only [List.mem_singleton] at hp
      subst hp
      show e.numel ≠ 1
      intro h1; exact hunit ⟨h1, by rw [← hn]; exact h1⟩
    · rfl
    · intro q hq
      simp only [Axis.fv, List.mem_singleton] at hq
      exact ⟨((e, f), (st.next, e.numel)), by simp, by rw [hq]⟩
    · intro ρ _
      show (Axis.phys st.next e.numel).eval _ = _
      rw [Axis.eval, hlift]
    · intro ρ _
      show (Axis.phys st.next e.numel).eval _ = _
      rw [Axis.eval, hlift]

/-! ### the loop over the factors of two products -/

/-- the outer induction hypothesis: `antiunify fuel` generalises -/
def AntiIH (sz : Nat → Nat) (base fuel : Nat) : Prop :=
  ∀ (e f : Axis) (st : ASt), OK base st → SizedP sz st.pairs → Below base e → Below base f →
    Sized sz e → Sized sz f → e.numel = f.numel → Gen sz base e f st (antiunify fuel e f st)

/-- the loop invariant of `antiLoop` (the comments of the Python code, with cumulative `en`, `fn`) -/
structure LoopInv (sz : Nat → Nat) (base : Nat) (es fs : List Axis) (el er fl fr en fn : Nat) (ret : List Axis)
    (st : ASt) : Prop where
  hel : el ≤ er
  her : er ≤ es.length
  hfl : fl ≤ fr
  hfr : fr ≤ fs.length
  hen : en = numelList (es.take er)
  hfn : fn = numelList (fs.take fr)
  hpre : numelList (es.take el) = numelList (fs.take fl)
  hst : OK base st
  hsz : SizedP sz st.pairs
  hnum : numelList ret = numelList (es.take el)
  hfv : ∀ q ∈ fvList ret, ∃ p ∈ st.pairs, p.2 = q
  hevL : ∀ ρ, InRange ρ (.prod es) → evalList (lift Prod.fst st.pairs ρ) ret 0 = evalList ρ (es.take el) 0
  hevR : ∀ ρ, InRange ρ (.prod fs) → evalList (lift Prod.snd st.pairs ρ) ret 0 = evalList ρ (fs.take fl) 0

def LoopPost (sz : Nat → Nat) (base : Nat) (es fs : List Axis) (st : ASt) (r : List Axis × ASt) : Prop :=
  OK base r.2 ∧ SizedP sz r.2.pairs ∧ (∃ new, r.2.pairs = st.pairs ++ new ∧ ∀ p ∈ new, p.2.2 ≠ 1) ∧
  numelList r.1 = numelList es ∧ (∀ q ∈ fvList r.1, ∃ p ∈ r.2.pairs, p.2 = q) ∧
  (∀ ρ, InRange ρ (.prod es) → evalList (lift Prod.fst r.2.pairs ρ) r.1 0 = evalList ρ es 0) ∧
  (∀ ρ, InRange ρ (.prod fs) → evalList (lift Prod.snd r.2.pairs ρ) r.1 0 = evalList ρ fs 0)

theorem evalList_append_zero (ρ : Nat → Nat) (xs ys : List Axis) :
    evalList ρ (xs ++ ys) 0 = evalList ρ xs 0 * numelList ys + evalList ρ ys 0 := by
  rw [evalList_append, evalList_acc]

theorem numelList_take_drop (xs : List Axis) (k : Nat) :
    numelList xs = numelList (xs.take k) * numelList (xs.drop k) := by
  rw [← numelList_append, List.take_append_drop]

theorem numelList_take_pos {xs : List Axis} (h : ∀ x ∈ xs, 0 < x.numel) (k : Nat) : 0 < numelList (xs.take k) :=
  numelList_pos _ (fun x hx => h x (List.mem_of_mem_take hx))

theorem numelList_drop_pos {xs : List Axis} (h : ∀ x ∈ xs, 0 < x.numel) (k : Nat) : 0 < numelList (xs.drop k) :=
  numelList_pos _ (fun x hx => h x (List.mem_of_mem_drop hx))

theorem take_group (xs : List Axis) {i j : Nat} (h : i ≤ j) :
    xs.take j = xs.take i ++ (xs.drop i).take (j - i) := by
  have : j = i + (j - i) := by omega
  conv_lhs => rw [this]
  exact List.take_add

theorem mem_fv_group {q : Nat × Nat} {xs : List Axis} {i n : Nat}
    (h : q ∈ (productAxis ((xs.drop i).take n)).fv) : q ∈ (Axis.prod xs).fv := by
  obtain ⟨f, hf, hq⟩ := (mem_fv_productAxis _).1 h
  exact mem_fv_prod.2 ⟨f, List.mem_of_mem_drop (List.mem_of_mem_take hf), hq⟩

theorem inRange_drop {ρ : Nat → Nat} {xs : List Axis} (h : InRange ρ (.prod xs)) (k : Nat) :
    InRange ρ (.prod (xs.drop k)) := fun q hq => by
  obtain ⟨f, hf, hq⟩ := mem_fv_prod.1 hq
  exact h q (mem_fv_prod.2 ⟨f, List.mem_of_mem_drop hf, hq⟩)

section loop
variable {sz : Nat → Nat} {base : Nat} {es fs : List Axis}
  (hpe : ∀ x ∈ es, 0 < x.numel) (hpf : ∀ x ∈ fs, 0 < x.numel) (hn : numelList es = numelList fs)

include hpe hn in
/-- leaving the loop when the right factors are used up: the remaining left factors have one element each -/
theorem exit_right {el er fl fr en fn : Nat} {ret : List Axis} {st : ASt}
    (inv : LoopInv sz base es fs el er fl fr en fn ret st) (hfl : fl = fs.length) :
    LoopPost sz base es fs st (ret, st) := by
  have htf : fs.take fl = fs := by rw [hfl]; exact List.take_length
  have hpre := inv.hpre
  rw [htf] at hpre
  have hsplit := numelList_take_drop es el
  have hpos := numelList_take_pos hpe el
  have hdrop : numelList (es.drop el) = 1 := by
    have h1 : numelList (es.take el) * numelList (es.drop el) = numelList (es.take el) * 1 := by
      rw [← hsplit, hn, hpre, Nat.mul_one]
    exact Nat.eq_of_mul_eq_mul_left hpos h1
  refine ⟨inv.hst, inv.hsz, ⟨[], by simp, by simp⟩, ?_, inv.hfv, ?_, ?_⟩
  · show numelList ret = numelList es
    rw [inv.hnum, hsplit, hdrop, Nat.mul_one]
  · intro ρ hρ
    show evalList _ ret 0 = evalList ρ es 0
    rw [inv.hevL ρ hρ]
    have h1 : evalList ρ es 0 = evalList ρ (es.take el) 0 * numelList (es.drop el) + evalList ρ (es.drop el) 0 := by
      rw [← evalList_append_zero, List.take_append_drop]
    have h2 : (Axis.prod (es.drop el)).eval ρ < (Axis.prod (es.drop el)).numel :=
      C06.eval_lt_numel _ ρ (inRange_drop hρ el)
    rw [Axis.eval, Axis.numel, hdrop] at h2
    rw [h1, hdrop]; omega
  · intro ρ hρ
    show evalList _ ret 0 = evalList ρ fs 0
    rw [inv.hevR ρ hρ, htf]

include hpf hn in
theorem no_overrun_left {el er fl fr en fn : Nat} {ret : List Axis} {st : ASt}
    (inv : LoopInv sz base es fs el er fl fr en fn ret st) (her : er = es.length) (hlt : en < fn) : False := by
  have h1 : en = numelList es := by rw [inv.hen, her, List.take_length]
  have h2 := numelList_take_drop fs fr
  have h3 := numelList_drop_pos hpf fr
  rw [← inv.hfn] at h2
  have : fn ≤ fn * numelList (fs.drop fr) := Nat.le_mul_of_pos_right _ h3
  omega

include hpe hn in
theorem no_overrun_right {el er fl fr en fn : Nat} {ret : List Axis} {st : ASt}
    (inv : LoopInv sz base es fs el er fl fr en fn ret st) (hfr : fr = fs.length) (hlt : fn < en) : False := by
  have h1 : fn = numelList fs := by rw [inv.hfn, hfr, List.take_length]
  have h2 := numelList_take_drop es er
  have h3 := numelList_drop_pos hpe er
  rw [← inv.hen] at h2
  have : en ≤ en * numelList (es.drop er) := Nat.le_mul_of_pos_right _ h3
  omega

theorem inv_advance_left {el er fl fr en fn : Nat} {ret : List Axis} {st : ASt}
    (inv : LoopInv sz base es fs el er fl fr en fn ret st) {x : Axis} (hx : es[er]? = some x) :
    LoopInv sz base es fs el (er + 1) fl fr (en * x.numel) fn ret st := by
  have hlt : er < es.length := by
    rcases Nat.lt_or_ge er es.length with h | h
    · exact h
    · rw [List.getElem?_eq_none h] at hx; cases hx
  refine { inv with hel := by have := inv.hel; omega, her := hlt, hen := ?_ }
  rw [List.take_add_one, hx, inv.hen]
  exact (numelList_snoc _ _).symm

theorem inv_advance_right {el er fl fr en fn : Nat} {ret : List Axis} {st : ASt}
    (inv : LoopInv sz base es fs el er fl fr en fn ret st) {x : Axis} (hx : fs[fr]? = some x) :
    LoopInv sz base es fs el er fl (fr + 1) en (fn * x.numel) ret st := by
  have hlt : fr < fs.length := by
    rcases Nat.lt_or_ge fr fs.length with h | h
    · exact h
    · rw [List.getElem?_eq_none h] at hx; cases hx
  refine { inv with hfl := by have := inv.hfl; omega, hfr := hlt, hfn := ?_ }
  rw [List.take_add_one, hx, inv.hfn]
  exact (numelList_snoc _ _).symm

include hpe in
theorem group_numel_eq {el er fl fr en fn : Nat} {ret : List Axis} {st : ASt}
    (inv : LoopInv sz base es fs el er fl fr en fn ret st) (heq : en = fn) :
    (productAxis ((es.drop el).take (er - el))).numel = (productAxis ((fs.drop fl).take (fr - fl))).numel := by
  rw [C06.productAxis_numel, C06.productAxis_numel, Axis.numel, Axis.numel]
  have h1 : en = numelList (es.take el) * numelList ((es.drop el).take (er - el)) := by
    rw [inv.hen, take_group es inv.hel, numelList_append]
  have h2 : fn = numelList (fs.take fl) * numelList ((fs.drop fl).take (fr - fl)) := by
    rw [inv.hfn, take_group fs inv.hfl, numelList_append]
  have hpos := numelList_take_pos hpe el
  have h3 : numelList (es.take el) * numelList ((es.drop el).take (er - el))
      = numelList (es.take el) * numelList ((fs.drop fl).take (fr - fl)) := by
    rw [← h1, heq, h2, inv.hpre]
  exact Nat.eq_of_mul_eq_mul_left hpos h3

theorem inv_cut {el er fl fr en fn : Nat} {ret : List Axis} {st : ASt}
    (inv : LoopInv sz base es fs el er fl fr en fn ret st) (heq : en = fn)
    (hg : (productAxis ((es.drop el).take (er - el))).numel = (productAxis ((fs.drop fl).take (fr - fl))).numel)
    {r : Axis × ASt}
    (hr : Gen sz base (productAxis ((es.drop el).take (er - el))) (productAxis ((fs.drop fl).take (fr - fl))) st r) :
    LoopInv sz base es fs er er fr fr en fn (ret ++ [r.1]) r.2 := by
  obtain ⟨hok, hsz, ⟨new, hnew, _⟩, hnum, hfv, hL, hR⟩ := hr
  have hte := take_group es inv.hel
  have htf := take_group fs inv.hfl
  have hnumL : r.1.numel = numelList ((es.drop el).take (er - el)) := by
    rw [hnum, C06.productAxis_numel, Axis.numel]
  have hnumR : r.1.numel = numelList ((fs.drop fl).take (fr - fl)) := by
    rw [hnum, hg, C06.productAxis_numel, Axis.numel]
  refine { hel := Nat.le_refl _, her := inv.her, hfl := Nat.le_refl _, hfr := inv.hfr, hen := inv.hen, hfn := inv.hfn,
           hpre := by rw [← inv.hen, ← inv.hfn]; exact heq, hst := hok, hsz := hsz, hnum := ?_, hfv := ?_,
           hevL := ?_, hevR := ?_ }
  · rw [numelList_snoc, inv.hnum, hnumL, hte, numelList_append]
  · intro q hq
    obtain ⟨f, hf, hqf⟩ := mem_fvList.1 hq
    simp only [List.mem_append, List.mem_singleton] at hf
    rcases hf with hf | rfl
    · obtain ⟨p, hp, hpq⟩ := inv.hfv q (mem_fvList.2 ⟨f, hf, hqf⟩)
      exact ⟨p, by rw [hnew]; exact List.mem_append_left _ hp, hpq⟩
    · exact hfv q hqf
  · intro ρ hρ
    have hρ1 : InRange ρ (productAxis ((es.drop el).take (er - el))) := fun q hq => hρ q (mem_fv_group hq)
    rw [evalList_snoc, hL ρ hρ1, hnew, evalList_lift_append _ _ _ _ _ inv.hfv, inv.hevL ρ hρ, hnumL,
      C06.productAxis_eval, Axis.eval, hte, evalList_append_zero]
  · intro ρ hρ
    have hρ1 : InRange ρ (productAxis ((fs.drop fl).take (fr - fl))) := fun q hq => hρ q (mem_fv_group hq)
    rw [evalList_snoc, hR ρ hρ1, hnew, evalList_lift_append _ _ _ _ _ inv.hfv, inv.hevR ρ hρ, hnumR,
      C06.productAxis_eval, Axis.eval, htf, evalList_append_zero]

include hpe hpf hn in
/-- **the loop**: from the invariant, with enough budget, the loop ends with a list of generalisations of
consecutive groups of factors whose product reads as all of `es` and all of `fs` -/
theorem antiLoop_post {fuel : Nat} (hIH : AntiIH sz base fuel)
    (hbe : Below base (.prod es)) (hbf : Below base (.prod fs)) (hse : Sized sz (.prod es)) (hsf : Sized sz (.prod fs)) :
    ∀ (steps el er fl fr en fn : Nat) (ret : List Axis) (st : ASt),
      LoopInv sz base es fs el er fl fr en fn ret st →
      2 * ((es.length - er) + (fs.length - fr)) < steps →
      ((el < er ∨ fl < fr) → 2 * ((es.length - er) + (fs.length - fr)) + 1 < steps) →
      LoopPost sz base es fs st (antiLoop fuel steps es fs el er fl fr en fn ret st) := by
  intro steps
  induction steps with
  | zero => intro el er fl fr en fn ret st _ h; omega
  | succ steps ih =>
    intro el er fl fr en fn ret st inv hb1 hb2
    rw [antiLoop.eq_2]
    by_cases hc1 : (decide (el < es.length) || decide (fl < fs.length)) = true
    · rw [if_pos hc1]
      by_cases hc2 : (en == fn && (decide (el < er) || decide (fl < fr))) = true
      · rw [if_pos hc2]
        simp only [Bool.and_eq_true, beq_iff_eq, Bool.or_eq_true, decide_eq_true_eq] at hc2
        obtain ⟨heq, hflag⟩ := hc2
        have hg := group_numel_eq hpe inv heq
        have hgen : Gen sz base (productAxis ((es.drop el).take (er - el)))
            (productAxis ((fs.drop fl).take (fr - fl))) st
            (if (isProd (productAxis ((es.drop el).take (er - el))) &&
                  isProd (productAxis ((fs.drop fl).take (fr - fl)))) = true
              then extendAnti (productAxis ((es.drop el).take (er - el))) (productAxis ((fs.drop fl).take (fr - fl))) st
              else antiunify fuel (productAxis ((es.drop el).take (er - el)))
                (productAxis ((fs.drop fl).take (fr - fl))) st) := by
          have b1 : Below base (productAxis ((es.drop el).take (er - el))) := fun q hq => hbe q (mem_fv_group hq)
          have b2 : Below base (productAxis ((fs.drop fl).take (fr - fl))) := fun q hq => hbf q (mem_fv_group hq)
          have s1 : Sized sz (productAxis ((es.drop el).take (er - el))) := fun q hq => hse q (mem_fv_group hq)
          have s2 : Sized sz (productAxis ((fs.drop fl).take (fr - fl))) := fun q hq => hsf q (mem_fv_group hq)
          split
          · exact extendAnti_gen sz base _ _ st inv.hst inv.hsz b1 b2 s1 s2 hg
          · exact hIH _ _ st inv.hst inv.hsz b1 b2 s1 s2 hg
        simp only []
        generalize (if (isProd (productAxis ((es.drop el).take (er - el))) &&
                  isProd (productAxis ((fs.drop fl).take (fr - fl)))) = true
              then extendAnti (productAxis ((es.drop el).take (er - el))) (productAxis ((fs.drop fl).take (fr - fl))) st
              else antiunify fuel (productAxis ((es.drop el).take (er - el)))
                (productAxis ((fs.drop fl).take (fr - fl))) st) = r at hgen ⊢
        have inv' := inv_cut inv heq hg hgen
        obtain ⟨new, hnew, hne⟩ := hgen.2.2.1
        obtain ⟨g, st1⟩ := r
        have hpost := ih er er fr fr en fn (ret ++ [g]) st1 inv' (by omega) (by omega)
        obtain ⟨h1, h2, ⟨new', hnew', hne'⟩, h4⟩ := hpost
        refine ⟨h1, h2, ⟨new ++ new', by rw [hnew', hnew, List.append_assoc], ?_⟩, h4⟩
        intro p hp
        rcases List.mem_append.1 hp with hp | hp
        · exact hne p hp
        · exact hne' p hp
      · rw [if_neg hc2]
        simp only [Bool.and_eq_true, beq_iff_eq, Bool.or_eq_true, decide_eq_true_eq] at hc2
        by_cases hc3 : (decide (en < fn) || fr == fs.length) = true
        · rw [if_pos hc3]
          simp only [Bool.or_eq_true, decide_eq_true_eq, beq_iff_eq] at hc3
          cases hx : es[er]? with
          | none =>
            simp only []
            have her : er = es.length := by
              have : es.length ≤ er := List.getElem?_eq_none_iff.1 hx
              have := inv.her; omega
            by_cases hlt : en < fn
            · exact absurd (no_overrun_left hpf hn inv her hlt) id
            · have hfr : fr = fs.length := by
                rcases hc3 with h | h
                · exact absurd h hlt
                · exact h
              have heq : en = fn := by
                rw [inv.hen, inv.hfn, her, hfr, List.take_length, List.take_length]; exact hn
              have hfl : fl = fs.length := by
                have := inv.hfl
                by_cases h : fl < fr
                · exact absurd ⟨heq, Or.inr h⟩ hc2
                · omega
              exact exit_right hpe hn inv hfl
          | some x =>
            simp only []
            have hlt : er < es.length := by
              rcases Nat.lt_or_ge er es.length with h | h
              · exact h
              · rw [List.getElem?_eq_none h] at hx; cases hx
            exact ih el (er + 1) fl fr (en * x.numel) fn ret st (inv_advance_left inv hx) (by omega) (by omega)
        · rw [if_neg hc3]
          simp only [Bool.or_eq_true, decide_eq_true_eq, beq_iff_eq, not_or] at hc3
          cases hx : fs[fr]? with
          | none =>
            exfalso
            have : fs.length ≤ fr := List.getElem?_eq_none_iff.1 hx
            have := inv.hfr
            omega
          | some x =>
            simp only []
            have hlt : fr < fs.length := by
              rcases Nat.lt_or_ge fr fs.length with h | h
              · exact h
              · rw [List.getElem?_eq_none h] at hx; cases hx
            exact ih el er fl (fr + 1) en (fn * x.numel) ret st (inv_advance_right inv hx) (by omega) (by omega)
    · rw [if_neg hc1]
      simp only [Bool.or_eq_true, decide_eq_true_eq, not_or, Nat.not_lt] at hc1
      have := inv.hfl
      have := inv.hfr
      exact exit_right hpe hn inv (by omega)

end loop

/-! ### the main induction -/

theorem sum_gen {sz : Nat → Nat} {base : Nat} {b a : Nat} {t1 t2 : Axis} {st : ASt} {r : Axis × ASt}
    (h : Gen sz base t1 t2 st r) : Gen sz base (.sum b t1 a) (.sum b t2 a) st (.sum b r.1 a, r.2) := by
  obtain ⟨hok, hsz, hnew, hnum, hfv, hL, hR⟩ := h
  refine ⟨hok, hsz, hnew, ?_, ?_, ?_, ?_⟩
  · show (Axis.sum b r.1 a).numel = _
    rw [Axis.numel, Axis.numel, hnum]
  · intro q hq
    exact hfv q (by simpa [Axis.fv] using hq)
  · intro ρ hρ
    show (Axis.sum b r.1 a).eval _ = _
    rw [Axis.eval, Axis.eval, hL ρ (InRange.sum hρ)]
  · intro ρ hρ
    show (Axis.sum b r.1 a).eval _ = _
    rw [Axis.eval, Axis.eval, hR ρ (InRange.sum hρ)]

theorem prod_gen {sz : Nat → Nat} {base : Nat} {es fs : List Axis} {st : ASt} {r : List Axis × ASt}
    (h : LoopPost sz base es fs st r) : Gen sz base (.prod es) (.prod fs) st (productAxis r.1, r.2) := by
  obtain ⟨hok, hsz, hnew, hnum, hfv, hL, hR⟩ := h
  refine ⟨hok, hsz, hnew, ?_, ?_, ?_, ?_⟩
  · show (productAxis r.1).numel = _
    rw [C06.productAxis_numel, Axis.numel, Axis.numel, hnum]
  · intro q hq
    obtain ⟨f, hf, hqf⟩ := (mem_fv_productAxis _).1 hq
    exact hfv q (mem_fvList.2 ⟨f, hf, hqf⟩)
  · intro ρ hρ
    show (productAxis r.1).eval _ = _
    rw [C06.productAxis_eval, Axis.eval, Axis.eval, hL ρ hρ]
  · intro ρ hρ
    show (productAxis r.1).eval _ = _
    rw [C06.productAxis_eval, Axis.eval, Axis.eval, hR ρ hρ]

theorem antiunify_gen (sz : Nat → Nat) (base : Nat) : ∀ fuel, AntiIH sz base fuel := by
  intro fuel
  induction fuel with
  | zero =>
    intro e f st hst hsz he hf hse hsf hn
    rw [antiunify.eq_1]
    exact extendAnti_gen sz base e f st hst hsz he hf hse hsf hn
  | succ fuel ih =>
    intro e f st hst hsz he hf hse hsf hn
    have hext := extendAnti_gen sz base e f st hst hsz he hf hse hsf hn
    cases e with
    | phys v n => cases f <;> (rw [antiunify.eq_def]; exact hext)
    | prod es =>
      cases f with
      | phys _ _ => rw [antiunify.eq_def]; exact hext
      | sum _ _ _ => rw [antiunify.eq_def]; exact hext
      | prod fs =>
        rw [antiunify.eq_2]
        split
        · next hz =>
          simp only [Bool.and_eq_true, Bool.not_eq_true'] at hz
          have hpe := factors_pos_of_not_zeroList es hz.1
          have hpf := factors_pos_of_not_zeroList fs hz.2
          have hn' : numelList es = numelList fs := by simpa [Axis.numel] using hn
          have inv0 : LoopInv sz base es fs 0 0 0 0 1 1 [] st :=
            { hel := Nat.le_refl _, her := Nat.zero_le _, hfl := Nat.le_refl _, hfr := Nat.zero_le _,
              hen := by simp [numelList], hfn := by simp [numelList], hpre := by simp [numelList],
              hst := hst, hsz := hsz, hnum := by simp [numelList],
              hfv := by intro q hq; simp [fvList] at hq,
              hevL := by intro ρ _; simp [evalList], hevR := by intro ρ _; simp [evalList] }
          have hpost := antiLoop_post hpe hpf hn' ih he hf hse hsf
            (es.length + fs.length + 2 * (es.length + fs.length) + 2) 0 0 0 0 1 1 [] st inv0 (by omega) (by omega)
          exact prod_gen hpost
        · exact hext
    | sum b1 t1 a1 =>
      cases f with
      | phys _ _ => rw [antiunify.eq_def]; exact hext
      | prod _ => rw [antiunify.eq_def]; exact hext
      | sum b2 t2 a2 =>
        rw [antiunify.eq_def]
        simp only []
        split
        · next hc =>
          simp only [Bool.and_eq_true, beq_iff_eq] at hc
          obtain ⟨rfl, rfl⟩ := hc
          have hn' : t1.numel = t2.numel := by
            simp only [Axis.numel] at hn; omega
          have h := ih t1 t2 st hst hsz (by simpa [Below, Axis.fv] using he) (by simpa [Below, Axis.fv] using hf)
            (by simpa [Sized, Axis.fv] using hse) (by simpa [Sized, Axis.fv] using hsf) hn'
          exact sum_gen h
        · exact hext

/-! ### lists of pairs with one shared anti-substitution -/

def AllGen (sz : Nat → Nat) (base : Nat) (ps : List (Axis × Axis)) (st : ASt) (r : List Axis × ASt) : Prop :=
  OK base r.2 ∧ SizedP sz r.2.pairs ∧ (∃ new, r.2.pairs = st.pairs ++ new ∧ ∀ p ∈ new, p.2.2 ≠ 1) ∧ r.1.length = ps.length ∧
  (∀ g ∈ r.1, ∀ q ∈ g.fv, ∃ p ∈ r.2.pairs, p.2 = q) ∧
  ∀ i (hi : i < ps.length) (hi' : i < r.1.length),
    (r.1[i]).numel = (ps[i]).1.numel ∧
    (∀ ρ, InRange ρ (ps[i]).1 → (r.1[i]).eval (lift Prod.fst r.2.pairs ρ) = (ps[i]).1.eval ρ) ∧
    (∀ ρ, InRange ρ (ps[i]).2 → (r.1[i]).eval (lift Prod.snd r.2.pairs ρ) = (ps[i]).2.eval ρ)

theorem antiunifyAll_cons (fuel : Nat) (e f : Axis) (rest : List (Axis × Axis)) (st : ASt) :
    antiunifyAll fuel ((e, f) :: rest) st =
      ((antiunify fuel e f st).1 :: (antiunifyAll fuel rest (antiunify fuel e f st).2).1,
        (antiunifyAll fuel rest (antiunify fuel e f st).2).2) := by
  rw [antiunifyAll]

theorem antiunifyAll_gen (sz : Nat → Nat) (base fuel : Nat) : ∀ (ps : List (Axis × Axis)) (st : ASt),
    OK base st → SizedP sz st.pairs →
    (∀ p ∈ ps, Below base p.1 ∧ Below base p.2 ∧ Sized sz p.1 ∧ Sized sz p.2 ∧ p.1.numel = p.2.numel) →
    AllGen sz base ps st (antiunifyAll fuel ps st)
  | [], st, hst, hsz, _ => by
    rw [antiunifyAll]
    exact ⟨hst, hsz, ⟨[], by simp, by simp⟩, rfl, by simp, fun i hi => by simp at hi⟩
  | (e, f) :: rest, st, hst, hsz, hps => by
    rw [antiunifyAll_cons]
    obtain ⟨he, hf, hse, hsf, hn⟩ := hps (e, f) (by simp)
    have h1 := antiunify_gen sz base fuel e f st hst hsz he hf hse hsf hn
    generalize antiunify fuel e f st = r1 at h1 ⊢
    obtain ⟨hok1, hsz1, ⟨new1, hnew1, hne1⟩, hnum1, hfv1, hL1, hR1⟩ := h1
    have h2 := antiunifyAll_gen sz base fuel rest r1.2 hok1 hsz1 (fun p hp => hps p (by simp [hp]))
    generalize antiunifyAll fuel rest r1.2 = r2 at h2 ⊢
    obtain ⟨hok2, hsz2, ⟨new2, hnew2, hne2⟩, hlen2, hfv2, hidx2⟩ := h2
    refine ⟨hok2, hsz2, ⟨new1 ++ new2, ?_, fun p hp => (List.mem_append.1 hp).elim (hne1 p) (hne2 p)⟩, ?_, ?_, ?_⟩
    · show r2.2.pairs = _
      rw [hnew2, hnew1, List.append_assoc]
    · show (r1.1 :: r2.1).length = _
      simp [hlen2]
    · intro g' hg' q hq
      show ∃ p ∈ r2.2.pairs, p.2 = q
      have hg'' : g' ∈ r1.1 :: r2.1 := hg'
      simp only [List.mem_cons] at hg''
      rcases hg'' with rfl | hg''
      · obtain ⟨p, hp, hpq⟩ := hfv1 q hq
        exact ⟨p, by rw [hnew2]; exact List.mem_append_left _ hp, hpq⟩
      · exact hfv2 g' hg'' q hq
    · intro i hi hi'
      show ((r1.1 :: r2.1)[i]'hi').numel = _ ∧
        (∀ ρ, _ → ((r1.1 :: r2.1)[i]'hi').eval (lift Prod.fst r2.2.pairs ρ) = _) ∧
        (∀ ρ, _ → ((r1.1 :: r2.1)[i]'hi').eval (lift Prod.snd r2.2.pairs ρ) = _)
      cases i with
      | zero =>
        simp only [List.getElem_cons_zero]
        refine ⟨hnum1, fun ρ hρ => ?_, fun ρ hρ => ?_⟩
        · rw [hnew2, eval_lift_append _ _ _ _ _ hfv1]; exact hL1 ρ hρ
        · rw [hnew2, eval_lift_append _ _ _ _ _ hfv1]; exact hR1 ρ hρ
      | succ i =>
        simp only [List.getElem_cons_succ]
        have hi2 : i < rest.length := by simpa using hi
        have hi2' : i < r2.1.length := by
          have : i + 1 < (r1.1 :: r2.1).length := hi'
          simpa using this
        exact hidx2 i hi2 hi2'

/-! ### no fresh physical axis of size 1 -/

def NoUnit (pairs : List Pair) : Prop := ∀ p ∈ pairs, p.2.2 ≠ 1

theorem Gen.noUnit {sz : Nat → Nat} {base : Nat} {e f : Axis} {st : ASt} {r : Axis × ASt}
    (h : Gen sz base e f st r) (hno : NoUnit st.pairs) : NoUnit r.2.pairs ∧ ∀ q ∈ r.1.fv, q.2 ≠ 1 := by
  obtain ⟨_, _, ⟨new, hnew, hne⟩, _, hfv, _, _⟩ := h
  have h1 : NoUnit r.2.pairs := by
    intro p hp
    rw [hnew] at hp
    rcases List.mem_append.1 hp with hp | hp
    · exact hno p hp
    · exact hne p hp
  refine ⟨h1, fun q hq => ?_⟩
  obtain ⟨p, hp, hpq⟩ := hfv q hq
  rw [← hpq]; exact h1 p hp

theorem AllGen.noUnit {sz : Nat → Nat} {base : Nat} {ps : List (Axis × Axis)} {st : ASt} {r : List Axis × ASt}
    (h : AllGen sz base ps st r) (hno : NoUnit st.pairs) :
    NoUnit r.2.pairs ∧ ∀ g ∈ r.1, ∀ q ∈ g.fv, q.2 ≠ 1 := by
  obtain ⟨_, _, ⟨new, hnew, hne⟩, _, hfv, _⟩ := h
  have h1 : NoUnit r.2.pairs := by
    intro p hp
    rw [hnew] at hp
    rcases List.mem_append.1 hp with hp | hp
    · exact hno p hp
    · exact hne p hp
  refine ⟨h1, fun g hg q hq => ?_⟩
  obtain ⟨p, hp, hpq⟩ := hfv g hg q hq
  rw [← hpq]; exact h1 p hp

end C06cL
