/-
C06pFoldLemmas — helpers for Props/C06p.lean that do not mention unification:

* a fold of `Array.setIfInBounds` over a list: the size is kept; a position that no element of the list addresses keeps
  its value; a position at which every element that addresses it writes the same value holds that value;
* the address, at the index tuple of an assignment, of the views built by `project` and `projectOnto` over a contiguous
  tensor: the row-major position of the index tuple the pattern denotes under the substitution (`Eq.ppos`).
-/
import FggsModel.ProjectPT
import FggsProofs.Props.C07e
import FggsProofs.C07eStrideLemmas
import FggsProofs.C06dBaseLemmas
import FggsProofs.C06iLemmas
import Mathlib.Tactic.Linarith
import Mathlib.Data.List.Basic

set_option linter.unusedSimpArgs false
set_option linter.unusedVariables false

namespace C06pL
open Fggs Fggs.Ax Fggs.Un Fggs.Sd Fggs.Eq

/-! ### folds of `setIfInBounds` -/

section fold
variable {α β : Type} (pos : α → Nat) (val : α → β)

theorem fold_size : ∀ (L : List α) (arr : Array β),
    (L.foldl (fun a x => a.setIfInBounds (pos x) (val x)) arr).size = arr.size
  | [], arr => rfl
  | x :: L, arr => by rw [List.foldl_cons, fold_size L]; simp

theorem fold_other (k : Nat) : ∀ (L : List α) (arr : Array β), (∀ x ∈ L, pos x ≠ k) →
    (L.foldl (fun a x => a.setIfInBounds (pos x) (val x)) arr)[k]? = arr[k]?
  | [], arr, _ => rfl
  | x :: L, arr, h => by
    rw [List.foldl_cons, fold_other k L _ (fun y hy => h y (List.mem_cons_of_mem _ hy)),
      Array.getElem?_setIfInBounds, if_neg (h x List.mem_cons_self)]

/-- every element that addresses `k` writes `b`, and `k` is addressed (or holds `b` already) -/
theorem fold_same (k : Nat) (b : β) : ∀ (L : List α) (arr : Array β), (∀ x ∈ L, pos x = k → val x = b) →
    k < arr.size → (arr[k]? = some b ∨ ∃ x ∈ L, pos x = k) →
    (L.foldl (fun a x => a.setIfInBounds (pos x) (val x)) arr)[k]? = some b
  | [], arr, _, _, h => by
    rcases h with h | ⟨x, hx, _⟩
    · exact h
    · simp at hx
  | x :: L, arr, hall, hk, h => by
    rw [List.foldl_cons]
    apply fold_same k b L _ (fun y hy => hall y (List.mem_cons_of_mem _ hy)) (by simpa using hk)
    by_cases e : pos x = k
    · left
      rw [Array.getElem?_setIfInBounds, if_pos e, if_pos (e ▸ hk), hall x List.mem_cons_self e]
    · rcases h with h | ⟨y, hy, hyk⟩
      · left
        rw [Array.getElem?_setIfInBounds, if_neg e]
        exact h
      · right
        rcases List.mem_cons.1 hy with rfl | hy'
        · exact absurd hyk e
        · exact ⟨y, hy', hyk⟩

theorem fold_congr (pos' : α → Nat) (val' : α → β) : ∀ (L : List α) (arr : Array β),
    (∀ x ∈ L, pos x = pos' x ∧ val x = val' x) →
    L.foldl (fun a x => a.setIfInBounds (pos x) (val x)) arr =
      L.foldl (fun a x => a.setIfInBounds (pos' x) (val' x)) arr
  | [], arr, _ => rfl
  | x :: L, arr, h => by
    rw [List.foldl_cons, List.foldl_cons, (h x List.mem_cons_self).1, (h x List.mem_cons_self).2]
    exact fold_congr pos' val' L _ (fun y hy => h y (List.mem_cons_of_mem _ hy))

end fold

/-! ### the addresses of the two views -/

/-- the contiguous view addresses the row-major position -/
theorem contiguous_addr (vs is : List Nat) : (contiguous vs).addr is = flat vs is := by
  unfold View.addr contiguous
  simp only
  rw [C06iL.addr_contiguous, Nat.zero_add]

/-- the row-major position selected by an assignment of the free axes, as an address of the contiguous tensor -/
theorem ppos_eq_addr (σ : Subst) (T : PT) (ρ : Nat → Nat) :
    ppos σ T ρ = (contiguous (T.paxes.map (·.2))).addr
      ((T.paxes.map (fun k => Axis.phys k.1 k.2)).map (evalS σ ρ FUEL)) := by
  rw [contiguous_addr]
  unfold ppos
  rw [List.map_map]
  rfl

/-- `project` on a contiguous tensor over the physical axes of `T`: the view addresses `ppos` -/
theorem project_addr_ppos (σ : Subst) (T : PT) (idx : List Nat)
    (hl : idx.length = (project (contiguous (T.paxes.map (·.2))) (T.paxes.map (fun k => Axis.phys k.1 k.2)) σ).2.length) :
    (project (contiguous (T.paxes.map (·.2))) (T.paxes.map (fun k => Axis.phys k.1 k.2)) σ).1.addr idx =
      ppos σ T (envOf (project (contiguous (T.paxes.map (·.2))) (T.paxes.map (fun k => Axis.phys k.1 k.2)) σ).2 idx) := by
  have hn := (C07e.project_axes (contiguous (T.paxes.map (·.2))) (T.paxes.map (fun k => Axis.phys k.1 k.2)) σ).1
  have h := C07e.project_addr (contiguous (T.paxes.map (·.2))) (T.paxes.map (fun k => Axis.phys k.1 k.2)) σ
    (envOf (project (contiguous (T.paxes.map (·.2))) (T.paxes.map (fun k => Axis.phys k.1 k.2)) σ).2 idx)
  have hp := C06dL.pidx_envOf _ idx hn hl
  unfold C06dL.pidx at hp
  rw [hp] at h
  rw [h, ppos_eq_addr]

/-- `projectOnto` on a contiguous tensor over the physical axes of `T`, along a duplicate-free list of axes: the view
addresses `ppos` -/
theorem projectOnto_addr_ppos (σ : Subst) (T : PT) (F : List (Nat × Nat)) (hF : (F.map (·.1)).Nodup) {w : View}
    (hw : projectOnto (contiguous (T.paxes.map (·.2))) F (T.paxes.map (fun k => Axis.phys k.1 k.2)) σ = some w)
    (idx : List Nat) (hl : idx.length = F.length) :
    w.addr idx = ppos σ T (envOf F idx) := by
  have hform := C07eL.projectForm_spec (contiguous (T.paxes.map (·.2))) (T.paxes.map (fun k => Axis.phys k.1 k.2)) σ
    (envOf F idx)
  unfold projectOnto at hw
  simp only at hw
  split at hw
  · rename_i hc
    rw [Bool.and_eq_true, List.all_eq_true, List.all_eq_true] at hc
    have hsub : ∀ k ∈ C07eL.keys (projectForm (contiguous (T.paxes.map (·.2)))
        (T.paxes.map (fun k => Axis.phys k.1 k.2)) σ).2, k ∈ F.map (·.1) := by
      intro k hk
      have := hc.1 k hk
      rw [List.any_eq_true] at this
      obtain ⟨p, hp, e⟩ := this
      have e' : p.1 = k := by simpa using e
      rw [← e']
      exact List.mem_map_of_mem hp
    have hw' := (Option.some.inj hw).symm
    rw [hw']
    have hidx := C06dL.pidx_envOf F idx hF hl
    unfold View.addr
    simp only
    conv_lhs => rw [← hidx]
    unfold C06dL.pidx
    rw [C06iL.addr_projected (envOf F idx) _ _ F hform.2 hF hsub, ← C07eL.applyS_eq, hform.1, ppos_eq_addr]
    unfold View.addr
    rw [C07eL.addr_zip_map]
  · exact absurd hw (by simp)

end C06pL
