/-
Helper lemmas for Props/C06e.lean, part 2: `primeFactors` and `clone` (meaning, sizes, free variables, and their
relation to the reachability relation `RL`).
-/
import FggsModel.Reshape
import FggsProofs.C06bLemmas
import FggsProofs.C06eReachLemmas
import Mathlib.Data.List.Basic
import Mathlib.Data.List.Nodup
import Mathlib.Tactic.Linarith

set_option linter.unusedSimpArgs false
set_option linter.unusedVariables false

namespace C06eL
open Fggs Fggs.Ax Fggs.Un Fggs.Rs C06b

/-! ### lookup -/

theorem lookup_zero (σ : Subst) (e : Axis) : lookup σ 0 e = e := by rw [lookup]

theorem lookup_prod (σ : Subst) (k : Nat) (fs : List Axis) : lookup σ k (.prod fs) = .prod fs := by
  cases k with
  | zero => rw [lookup]
  | succ k => rw [lookup.eq_3 _ _ _ (by intros; simp_all)]

theorem lookup_sum (σ : Subst) (k : Nat) (b a : Nat) (t : Axis) : lookup σ k (.sum b t a) = .sum b t a := by
  cases k with
  | zero => rw [lookup]
  | succ k => rw [lookup.eq_3 _ _ _ (by intros; simp_all)]

theorem lookup_rl (σ : Subst) (u : Nat) : ∀ (k : Nat) (e : Axis), RL σ (lookup σ k e) u ↔ RL σ e u
  | 0, e => by rw [lookup]
  | k+1, .phys v n => by
    rw [lookup]
    split
    · next a hb => rw [lookup_rl σ u k a, RL.phys_bound hb]
    · exact Iff.rfl
  | k+1, .prod fs => by rw [lookup_prod]
  | k+1, .sum b t a => by rw [lookup_sum]

theorem lookup_numelOk {σ : Subst} (hσ : NumelOkS σ) : ∀ (k : Nat) (e : Axis), NumelOk σ e →
    NumelOk σ (lookup σ k e) ∧ (lookup σ k e).numel = e.numel
  | 0, e, he => by rw [lookup]; exact ⟨he, rfl⟩
  | k+1, .phys v n, he => by
    rw [lookup]
    split
    · next a hb =>
      obtain ⟨i1, i2⟩ := lookup_numelOk hσ k a (hσ _ (bound_mem hb))
      exact ⟨i1, by rw [i2, Axis.numel]; exact he (v, n) (by simp [Axis.fv]) a hb⟩
    · exact ⟨he, rfl⟩
  | k+1, .prod fs, he => by rw [lookup_prod]; exact ⟨he, rfl⟩
  | k+1, .sum b t a, he => by rw [lookup_sum]; exact ⟨he, rfl⟩

/-! ### primeFactors -/

theorem pf_zero (σ : Subst) (e : Axis) : primeFactors σ 0 e = [e] := by rw [primeFactors]

theorem pf_sum (σ : Subst) (k : Nat) (b a : Nat) (t : Axis) : primeFactors σ k (.sum b t a) = [.sum b t a] := by
  cases k with
  | zero => rw [primeFactors]
  | succ k => rw [primeFactors.eq_4 _ _ _ (by intros; simp_all) (by intros; simp_all)]

theorem numelList_flatMap (F : Axis → List Axis) : ∀ (fs : List Axis), (∀ x ∈ fs, numelList (F x) = x.numel) →
    numelList (fs.flatMap F) = numelList fs
  | [], _ => by simp
  | x :: xs, h => by
    rw [List.flatMap_cons, numelList_append, h x (by simp), numelList,
      numelList_flatMap F xs (fun y hy => h y (by simp [hy]))]

theorem evalList_flatMap (ρ : Nat → Nat) (F : Axis → List Axis) : ∀ (fs : List Axis),
    (∀ x ∈ fs, evalList ρ (F x) 0 = x.eval ρ ∧ numelList (F x) = x.numel) →
    evalList ρ (fs.flatMap F) 0 = evalList ρ fs 0
  | [], _ => by simp
  | x :: xs, h => by
    rw [List.flatMap_cons, evalList_append, evalList_acc, (h x (by simp)).1, evalList_cons_zero,
      evalList_flatMap ρ F xs (fun y hy => h y (by simp [hy])),
      numelList_flatMap F xs (fun y hy => (h y (by simp [hy])).2)]

theorem pf_numel {σ : Subst} (hσ : NumelOkS σ) : ∀ (fuel : Nat) (e : Axis), NumelOk σ e →
    numelList (primeFactors σ fuel e) = e.numel
  | 0, e, _ => by rw [primeFactors]; simp [numelList]
  | fuel+1, .phys v n, he => by
    rw [primeFactors]
    split
    · next a hb =>
      obtain ⟨i1, i2⟩ := lookup_numelOk hσ FUEL a (hσ _ (bound_mem hb))
      rw [pf_numel hσ fuel _ i1, i2, Axis.numel]
      exact he (v, n) (by simp [Axis.fv]) a hb
    · simp [numelList]
  | fuel+1, .prod fs, he => by
    rw [primeFactors, Axis.numel]
    exact numelList_flatMap _ fs (fun x hx => pf_numel hσ fuel x (he.prod x hx))
  | fuel+1, .sum b t a, _ => by rw [pf_sum]; simp [numelList]

theorem pf_eval {ρ : Nat → Nat} {σ : Subst} (hs : Sat ρ σ) (hσ : NumelOkS σ) : ∀ (fuel : Nat) (e : Axis), NumelOk σ e →
    evalList ρ (primeFactors σ fuel e) 0 = e.eval ρ
  | 0, e, _ => by rw [primeFactors]; simp [evalList]
  | fuel+1, .phys v n, he => by
    rw [primeFactors]
    split
    · next a hb =>
      obtain ⟨i1, i2⟩ := lookup_numelOk hσ FUEL a (hσ _ (bound_mem hb))
      rw [pf_eval hs hσ fuel _ i1, (lookup_lk σ FUEL a).eval hs, Axis.eval]
      exact (hs _ (bound_mem hb)).symm
    · simp [evalList]
  | fuel+1, .prod fs, he => by
    rw [primeFactors, Axis.eval]
    exact evalList_flatMap ρ _ fs (fun x hx => ⟨pf_eval hs hσ fuel x (he.prod x hx), pf_numel hσ fuel x (he.prod x hx)⟩)
  | fuel+1, .sum b t a, _ => by rw [pf_sum]; simp [evalList]

/-- the physical axes of the prime factors come from the axis or from a binding -/
theorem pf_fv (σ : Subst) : ∀ (fuel : Nat) (e : Axis), ∀ x ∈ primeFactors σ fuel e, ∀ q ∈ x.fv,
    q ∈ e.fv ∨ ∃ p ∈ σ, q ∈ p.2.fv
  | 0, e, x, hx, q, hq => by
    rw [primeFactors, List.mem_singleton] at hx
    subst hx; exact .inl hq
  | fuel+1, .phys v n, x, hx, q, hq => by
    rw [primeFactors] at hx
    split at hx
    · next a hb =>
      rcases pf_fv σ fuel _ x hx q hq with h | h
      · rcases (lookup_lk σ FUEL a).fv h with h1 | h1
        · exact .inr ⟨_, bound_mem hb, h1⟩
        · exact .inr h1
      · exact .inr h
    · rw [List.mem_singleton] at hx
      subst hx; exact .inl hq
  | fuel+1, .prod fs, x, hx, q, hq => by
    rw [primeFactors, List.mem_flatMap] at hx
    obtain ⟨f, hf, hxf⟩ := hx
    rcases pf_fv σ fuel f x hxf q hq with h | h
    · exact .inl (mem_fv_prod.2 ⟨f, hf, h⟩)
    · exact .inr h
  | fuel+1, .sum b t a, x, hx, q, hq => by
    rw [pf_sum, List.mem_singleton] at hx
    subst hx; exact .inl hq

/-- every prime factor is an unbound physical axis -/
def PfOK (σ : Subst) (l : List Axis) : Prop := ∀ x ∈ l, ∃ v n, x = .phys v n ∧ bound σ v = none

/-- if the prime factors are unbound physical axes, every reachable unbound identity is among them -/
theorem pf_of_rl (σ : Subst) (u : Nat) : ∀ (fuel : Nat) (e : Axis), PfOK σ (primeFactors σ fuel e) → RL σ e u →
    ∃ n, Axis.phys u n ∈ primeFactors σ fuel e
  | 0, e, h, r => by
    rw [primeFactors] at h ⊢
    obtain ⟨v, n, rfl, hb⟩ := h e (by simp)
    rw [RL.phys_free hb] at r
    subst r
    exact ⟨n, by simp⟩
  | fuel+1, .phys v n, h, r => by
    rw [primeFactors] at h ⊢
    split at h
    · next a hb =>
      rw [RL.phys_bound hb] at r
      exact pf_of_rl σ u fuel _ h ((lookup_rl σ u FUEL a).2 r)
    · next hb =>
      rw [RL.phys_free hb] at r
      subst r
      exact ⟨n, by simp⟩
  | fuel+1, .prod fs, h, r => by
    rw [primeFactors] at h ⊢
    obtain ⟨f, hf, r'⟩ := RL.prod_iff.1 r
    obtain ⟨n, hn⟩ := pf_of_rl σ u fuel f (fun x hx => h x (List.mem_flatMap.2 ⟨f, hf, hx⟩)) r'
    exact ⟨n, List.mem_flatMap.2 ⟨f, hf, hn⟩⟩
  | fuel+1, .sum b t a, h, r => by
    rw [pf_sum] at h
    obtain ⟨v, n, e, _⟩ := h (.sum b t a) (by simp)
    cases e

theorem rl_of_pf (σ : Subst) (v n : Nat) (hb : bound σ v = none) : ∀ (fuel : Nat) (e : Axis),
    Axis.phys v n ∈ primeFactors σ fuel e → RL σ e v
  | 0, e, h => by
    rw [primeFactors, List.mem_singleton] at h
    subst h; exact .free hb
  | fuel+1, .phys w m, h => by
    rw [primeFactors] at h
    split at h
    · next a hb' =>
      rw [RL.phys_bound hb']
      exact (lookup_rl σ v FUEL a).1 (rl_of_pf σ v n hb fuel _ h)
    · rw [List.mem_singleton] at h
      cases h; exact .free hb
  | fuel+1, .prod fs, h => by
    rw [primeFactors, List.mem_flatMap] at h
    obtain ⟨f, hf, hx⟩ := h
    exact .prod hf (rl_of_pf σ v n hb fuel f hx)
  | fuel+1, .sum b t a, h => by
    rw [pf_sum, List.mem_singleton] at h
    cases h

/-! ### clone -/

mutual
theorem rl_of_fv (σ : Subst) : ∀ (e : Axis) (q : Nat × Nat), q ∈ e.fv → bound σ q.1 = none → RL σ e q.1
  | .phys v n, q, hq, hb => by
    simp only [Axis.fv, List.mem_singleton] at hq
    subst hq; exact .free hb
  | .prod fs, q, hq, hb => by
    rw [Axis.fv] at hq
    obtain ⟨f, hf, r⟩ := rl_of_fvList σ fs q hq hb
    exact .prod hf r
  | .sum b t a, q, hq, hb => .sum (rl_of_fv σ t q (by simpa [Axis.fv] using hq) hb)
theorem rl_of_fvList (σ : Subst) : ∀ (fs : List Axis) (q : Nat × Nat), q ∈ fvList fs → bound σ q.1 = none →
    ∃ f ∈ fs, RL σ f q.1
  | [], q, hq, _ => by simp [fvList] at hq
  | f :: fs, q, hq, hb => by
    rw [fvList, List.mem_append] at hq
    rcases hq with hq | hq
    · exact ⟨f, by simp, rl_of_fv σ f q hq hb⟩
    · obtain ⟨g, hg, r⟩ := rl_of_fvList σ fs q hq hb
      exact ⟨g, by simp [hg], r⟩
end

theorem clone_zero (σ : Subst) (e : Axis) : clone σ 0 e = e := by rw [clone]

/-- an unbound physical axis of a clone is reachable -/
theorem rl_of_clone_fv (σ : Subst) (q : Nat × Nat) (hb : bound σ q.1 = none) : ∀ (fuel : Nat) (e : Axis),
    q ∈ (clone σ fuel e).fv → RL σ e q.1
  | 0, e, h => by rw [clone] at h; exact rl_of_fv σ e q h hb
  | fuel+1, .phys v n, h => by
    rw [clone] at h
    split at h
    · next a hb' => rw [RL.phys_bound hb']; exact rl_of_clone_fv σ q hb fuel a h
    · exact rl_of_fv σ _ q h hb
  | fuel+1, .prod fs, h => by
    rw [clone, mem_fv_productAxis] at h
    obtain ⟨g, hg, hq⟩ := h
    obtain ⟨f, hf, rfl⟩ := List.mem_map.1 hg
    exact .prod hf (rl_of_clone_fv σ q hb fuel f hq)
  | fuel+1, .sum b t a, h => by
    rw [clone] at h
    exact .sum (rl_of_clone_fv σ q hb fuel t (by simpa [Axis.fv] using h))

theorem fv_of_rl {σ : Subst} {e : Axis} {u : Nat} (r : RL σ e u) : (∀ q ∈ e.fv, bound σ q.1 = none) →
    ∃ n, (u, n) ∈ e.fv := by
  induction r with
  | @free v n h => exact fun _ => ⟨n, by simp [Axis.fv]⟩
  | @step v n a u h r ih =>
    intro hq
    have := hq (v, n) (by simp [Axis.fv])
    rw [h] at this; cases this
  | @prod fs f u hf r ih =>
    intro hq
    obtain ⟨n, hn⟩ := ih (fun q hq' => hq q (mem_fv_prod.2 ⟨f, hf, hq'⟩))
    exact ⟨n, mem_fv_prod.2 ⟨f, hf, hn⟩⟩
  | @sum b a t u r ih =>
    intro hq
    obtain ⟨n, hn⟩ := ih (fun q hq' => hq q (by simpa [Axis.fv] using hq'))
    exact ⟨n, by simpa [Axis.fv] using hn⟩

/-- if no bound axis remains in the clone, every reachable unbound identity occurs in it -/
theorem clone_fv_of_rl (σ : Subst) (u : Nat) : ∀ (fuel : Nat) (e : Axis),
    (∀ q ∈ (clone σ fuel e).fv, bound σ q.1 = none) → RL σ e u → ∃ n, (u, n) ∈ (clone σ fuel e).fv
  | 0, e, h, r => by rw [clone] at h ⊢; exact fv_of_rl r h
  | fuel+1, .phys v n, h, r => by
    rw [clone] at h ⊢
    split at h
    · next a hb =>
      exact clone_fv_of_rl σ u fuel a h ((RL.phys_bound hb).1 r)
    · next hb =>
      exact fv_of_rl r h
  | fuel+1, .prod fs, h, r => by
    rw [clone] at h ⊢
    obtain ⟨f, hf, r'⟩ := RL.prod_iff.1 r
    obtain ⟨n, hn⟩ := clone_fv_of_rl σ u fuel f
      (fun q hq => h q ((mem_fv_productAxis _).2 ⟨_, List.mem_map_of_mem hf, hq⟩)) r'
    exact ⟨n, (mem_fv_productAxis _).2 ⟨_, List.mem_map_of_mem hf, hn⟩⟩
  | fuel+1, .sum b t a, h, r => by
    rw [clone] at h ⊢
    obtain ⟨n, hn⟩ := clone_fv_of_rl σ u fuel t (fun q hq => h q (by simpa [Axis.fv] using hq)) (RL.sum_iff.1 r)
    exact ⟨n, by simpa [Axis.fv] using hn⟩

/-- the physical axes of a clone come from the axis or from a binding -/
theorem clone_fv (σ : Subst) : ∀ (fuel : Nat) (e : Axis), ∀ q ∈ (clone σ fuel e).fv,
    q ∈ e.fv ∨ ∃ p ∈ σ, q ∈ p.2.fv
  | 0, e, q, hq => by rw [clone] at hq; exact .inl hq
  | fuel+1, .phys v n, q, hq => by
    rw [clone] at hq
    split at hq
    · next a hb =>
      rcases clone_fv σ fuel a q hq with h | h
      · exact .inr ⟨_, bound_mem hb, h⟩
      · exact .inr h
    · exact .inl hq
  | fuel+1, .prod fs, q, hq => by
    rw [clone, mem_fv_productAxis] at hq
    obtain ⟨g, hg, hq⟩ := hq
    obtain ⟨f, hf, rfl⟩ := List.mem_map.1 hg
    rcases clone_fv σ fuel f q hq with h | h
    · exact .inl (mem_fv_prod.2 ⟨f, hf, h⟩)
    · exact .inr h
  | fuel+1, .sum b t a, q, hq => by
    rw [clone] at hq
    rcases clone_fv σ fuel t q (by simpa [Axis.fv] using hq) with h | h
    · exact .inl (by simpa [Axis.fv] using h)
    · exact .inr h

mutual
theorem rl_mono (σ : Subst) (u : Nat) : ∀ (e : Axis) (q : Nat × Nat), q ∈ e.fv → RL σ (.phys q.1 q.2) u → RL σ e u
  | .phys v n, q, hq, r => by
    simp only [Axis.fv, List.mem_singleton] at hq
    subst hq; exact r
  | .prod fs, q, hq, r => by
    rw [Axis.fv] at hq
    obtain ⟨f, hf, r'⟩ := rl_monoList σ u fs q hq r
    exact .prod hf r'
  | .sum b t a, q, hq, r => .sum (rl_mono σ u t q (by simpa [Axis.fv] using hq) r)
theorem rl_monoList (σ : Subst) (u : Nat) : ∀ (fs : List Axis) (q : Nat × Nat), q ∈ fvList fs →
    RL σ (.phys q.1 q.2) u → ∃ f ∈ fs, RL σ f u
  | [], q, hq, _ => by simp [fvList] at hq
  | f :: fs, q, hq, r => by
    rw [fvList, List.mem_append] at hq
    rcases hq with hq | hq
    · exact ⟨f, by simp, rl_mono σ u f q hq r⟩
    · obtain ⟨g, hg, r'⟩ := rl_monoList σ u fs q hq r
      exact ⟨g, by simp [hg], r'⟩
end

/-- what is reachable from an axis is reachable from one of its physical axes -/
theorem rl_via_fv {σ : Subst} {e : Axis} {u : Nat} (r : RL σ e u) : ∃ p ∈ e.fv, RL σ (.phys p.1 p.2) u := by
  induction r with
  | @free v n h => exact ⟨(v, n), by simp [Axis.fv], .free h⟩
  | @step v n a u h r ih => exact ⟨(v, n), by simp [Axis.fv], .step h r⟩
  | @prod fs f u hf r ih =>
    obtain ⟨p, hp, r'⟩ := ih
    exact ⟨p, mem_fv_prod.2 ⟨f, hf, hp⟩, r'⟩
  | @sum b a t u r ih =>
    obtain ⟨p, hp, r'⟩ := ih
    exact ⟨p, by simpa [Axis.fv] using hp, r'⟩

end C06eL
