/-
Helper lemmas for Props/C09c.lean, part 3: what one step of the LU phase (`luStep`), one elimination round,
the rest of the LU phase and one step of the back-substitution phase (`backStep`) do to the dense view.
-/
import FggsModel.Multi
import FggsProofs.C09cAlgLemmas
import FggsProofs.C09cDictLemmas

set_option linter.unusedSimpArgs false
set_option linter.unusedVariables false

namespace C09cL
open Fggs Fggs.Sem Fggs.Sv Fggs.Ms C09bL

variable {K : Type}

/-- the multiplier block `A_xz · A_zz*`, computed row by row through the transposed system -/
def Mx (S : SR K) (star : K → K) (n : Nat) (Azz Axz : Nat → Nat → K) (i l : Nat) : K :=
  sig S star n (fun p q => Azz q p) (Axz i) l

/-- `(A_xz·A_zz*)·c = A_xz·(A_zz*·c)` -/
theorem Mx_dot {S : SR K} (hS : C01.SRLaws S) (star : K → K) (n : Nat) (Azz Axz : Nat → Nat → K) (i : Nat)
    (c : Nat → K) : dot S n (Mx S star n Azz Axz i) c = dot S n (Axz i) (sig S star n Azz c) :=
  sig_adjoint hS star n Azz (Axz i) c

/-! ### the inner loop `for y in rest: a[x,y] += a[x,z]·a[z,y]` -/

def luInnerF (S : SR K) (sz : Nat → Nat) (z x : Nat) (axz : Mat K) : MBlocks K → Nat → MBlocks K :=
  fun acc y =>
    match getA acc z y with
    | some azy => addA S acc x y (sz x) (sz y) (matMul S (sz x) (sz z) (sz y) axz azy)
    | none => acc

theorem luInnerF_ne (S : SR K) (sz : Nat → Nat) (z x : Nat) (axz : Mat K) (acc : MBlocks K) (y x' y' : Nat)
    (h : (x', y') ≠ (x, y)) : getA (luInnerF S sz z x axz acc y) x' y' = getA acc x' y' := by
  unfold luInnerF
  split
  · exact getA_addA_ne S acc x y _ _ _ x' y' h
  · rfl

theorem luInnerF_eq {S : SR K} (hS : C01.SRLaws S) (sz : Nat → Nat) (z x : Nat) (axz : Mat K) (acc : MBlocks K)
    (y i j : Nat) (hi : i < sz x) (hj : j < sz y) :
    dA S (luInnerF S sz z x axz acc y) x y i j =
      S.add (dA S acc x y i j) (dot S (sz z) (matGet S axz i) (fun l => dA S acc z y l j)) := by
  unfold luInnerF
  split
  · rename_i azy hazy
    rw [dA_addA hS acc x y _ _ _ i j hi hj, matGet_matMul S _ _ _ _ _ i j hi hj, dA_some S acc z y azy hazy]
  · rename_i hnone
    rw [dA_none S acc z y hnone, dot_zero_right hS _ _ _ (fun _ _ => rfl), add_zero hS]

theorem luInner {S : SR K} (hS : C01.SRLaws S) (sz : Nat → Nat) (z x : Nat) (hxz : x ≠ z) (axz : Mat K) :
    ∀ (rest : List Nat) (acc : MBlocks K), rest.Nodup →
      (∀ x' y', (x' ≠ x ∨ y' ∉ rest) → getA (rest.foldl (luInnerF S sz z x axz) acc) x' y' = getA acc x' y') ∧
      (∀ y ∈ rest, ∀ i j, i < sz x → j < sz y →
        dA S (rest.foldl (luInnerF S sz z x axz) acc) x y i j =
          S.add (dA S acc x y i j) (dot S (sz z) (matGet S axz i) (fun l => dA S acc z y l j))) := by
  intro rest
  induction rest with
  | nil =>
    intro acc _
    exact ⟨fun _ _ _ => rfl, fun y hy => absurd hy (List.not_mem_nil)⟩
  | cons y0 rest ih =>
    intro acc hnd
    rw [List.nodup_cons] at hnd
    obtain ⟨ih1, ih2⟩ := ih (luInnerF S sz z x axz acc y0) hnd.2
    rw [List.foldl_cons]
    refine ⟨?_, ?_⟩
    · intro x' y' h
      rw [ih1 x' y' (by
        rcases h with h | h
        · exact Or.inl h
        · exact Or.inr (fun hm => h (List.mem_cons_of_mem _ hm)))]
      apply luInnerF_ne
      intro e
      injection e with e1 e2
      rcases h with h | h
      · exact h e1
      · exact h (by rw [e2]; exact List.mem_cons_self ..)
    · intro y hy i j hi hj
      by_cases hy0 : y = y0
      · subst hy0
        rw [dA_congr S _ _ x y (ih1 x y (Or.inr hnd.1))]
        exact luInnerF_eq hS sz z x axz acc y i j hi hj
      · have hy' : y ∈ rest := by
          rcases List.mem_cons.1 hy with h | h
          · exact absurd h hy0
          · exact h
        rw [ih2 y hy' i j hi hj]
        rw [dA_congr S _ acc x y (luInnerF_ne S sz z x axz acc y0 x y (by
          intro e; injection e with _ e2; exact hy0 e2))]
        rw [dA_congr S _ acc z y (luInnerF_ne S sz z x axz acc y0 z y (by
          intro e; injection e with e1 _; exact hxz e1.symm))]

/-! ### one step `(z, x)` of the LU phase -/

theorem luStep_eq (S : SR K) (star : K → K) (sz : Nat → Nat) (rest : List Nat) (z x : Nat) (a : MBlocks K)
    (b : VBlocks K) (axz0 : Mat K) (h : getA a x z = some axz0) :
    luStep S star sz rest z x (a, b) =
      (rest.foldl (luInnerF S sz z x ((getA (match getA a z z with
          | some azz => setA a x z (transpose S (sz z) (sz x) (blockSolve S star (sz z) (sz x)
              (transpose S (sz z) (sz z) azz) (transpose S (sz x) (sz z) axz0)))
          | none => a) x z).getD []))
        (match getA a z z with
          | some azz => setA a x z (transpose S (sz z) (sz x) (blockSolve S star (sz z) (sz x)
              (transpose S (sz z) (sz z) azz) (transpose S (sz x) (sz z) axz0)))
          | none => a),
       match getB b z with
        | some bz => addB S b x (sz x) (matVec S (sz x) (sz z) ((getA (match getA a z z with
          | some azz => setA a x z (transpose S (sz z) (sz x) (blockSolve S star (sz z) (sz x)
              (transpose S (sz z) (sz z) azz) (transpose S (sz x) (sz z) axz0)))
          | none => a) x z).getD []) bz)
        | none => b) := by
  unfold luStep
  simp only [h]
  rfl

/-- the first sub-step: `a[x,z] ← a[x,z]·a[z,z]*` -/
theorem luStep_mult {S : SR K} (hS : C01.SRLaws S) (star : K → K) (hstar : C09.StarLaw S star)
    (sz : Nat → Nat) (z x : Nat) (hxz : x ≠ z) (a : MBlocks K) (axz0 : Mat K) (h : getA a x z = some axz0) :
    let a1 := (match getA a z z with
          | some azz => setA a x z (transpose S (sz z) (sz x) (blockSolve S star (sz z) (sz x)
              (transpose S (sz z) (sz z) azz) (transpose S (sz x) (sz z) axz0)))
          | none => a)
    (∀ x' y', (x', y') ≠ (x, z) → getA a1 x' y' = getA a x' y') ∧
    (∃ m, getA a1 x z = some m ∧
      ∀ i l, i < sz x → l < sz z → matGet S m i l = Mx S star (sz z) (dA S a z z) (dA S a x z) i l) := by
  intro a1
  cases hzz : getA a z z with
  | none =>
    have e : a1 = a := by simp only [a1, hzz]
    rw [e]
    refine ⟨fun _ _ _ => rfl, axz0, h, ?_⟩
    intro i l hi hl
    unfold Mx
    rw [dA_none S a z z hzz, sig_zero_mat hS, dA_some S a x z axz0 h]
  | some azz =>
    have e : a1 = setA a x z (transpose S (sz z) (sz x) (blockSolve S star (sz z) (sz x)
              (transpose S (sz z) (sz z) azz) (transpose S (sz x) (sz z) axz0))) := by
      simp only [a1, hzz]
    rw [e]
    refine ⟨fun x' y' hne => by rw [getA_setA, if_neg hne], _, by rw [getA_setA, if_pos rfl], ?_⟩
    intro i l hi hl
    rw [matGet_transpose S _ _ _ i l hi hl, matGet_blockSolve hS star hstar _ _ _ _ l i hl hi]
    unfold Mx
    rw [dA_some S a z z azz hzz, dA_some S a x z axz0 h]
    apply sig_congr
    · intro p q hp hq
      exact matGet_transpose S _ _ _ p q hp hq
    · intro j hj
      exact matGet_transpose S _ _ _ j i hj hi
    · exact hl

/-- what `luStep` does (dense view): rows other than `x` are untouched; in row `x` the block `a[x,z]` becomes the
multiplier `M = a[x,z]·a[z,z]*`, `a[x,y] += M·a[z,y]` for `y ∈ rest`, `b[x] += M·b[z]` -/
theorem luStep_spec {S : SR K} (hS : C01.SRLaws S) (star : K → K) (hstar : C09.StarLaw S star)
    (sz : Nat → Nat) (rest : List Nat) (hnd : rest.Nodup) (z x : Nat) (hxz : x ≠ z) (hz : z ∉ rest)
    (a : MBlocks K) (b : VBlocks K) :
    let st' := luStep S star sz rest z x (a, b)
    (∀ x' y', x' ≠ x → getA st'.1 x' y' = getA a x' y') ∧
    (∀ y', y' ≠ z → y' ∉ rest → getA st'.1 x y' = getA a x y') ∧
    (∀ x', x' ≠ x → getB st'.2 x' = getB b x') ∧
    (∀ i l, i < sz x → l < sz z → dA S st'.1 x z i l = Mx S star (sz z) (dA S a z z) (dA S a x z) i l) ∧
    (∀ y ∈ rest, ∀ i j, i < sz x → j < sz y → dA S st'.1 x y i j =
      S.add (dA S a x y i j)
        (dot S (sz z) (Mx S star (sz z) (dA S a z z) (dA S a x z) i) (fun l => dA S a z y l j))) ∧
    (∀ i, i < sz x → dB S st'.2 x i =
      S.add (dB S b x i) (dot S (sz z) (Mx S star (sz z) (dA S a z z) (dA S a x z) i) (dB S b z))) := by
  intro st'
  cases hxz0 : getA a x z with
  | none =>
    have e : st' = (a, b) := by
      simp only [st', luStep, hxz0]
    rw [e]
    have hM : ∀ i l, l < sz z → Mx S star (sz z) (dA S a z z) (dA S a x z) i l = S.zero := by
      intro i l hl
      unfold Mx
      rw [dA_none S a x z hxz0]
      exact sig_zero hS star _ _ _ (fun _ _ => rfl) l hl
    refine ⟨fun _ _ _ => rfl, fun _ _ _ => rfl, fun _ _ => rfl, ?_, ?_, ?_⟩
    · intro i l hi hl
      rw [hM i l hl, dA_none S a x z hxz0]
    · intro y hy i j hi hj
      rw [dot_zero_left hS _ _ _ (fun l hl => hM i l hl), add_zero hS]
    · intro i hi
      rw [dot_zero_left hS _ _ _ (fun l hl => hM i l hl), add_zero hS]
  | some axz0 =>
    have e := luStep_eq S star sz rest z x a b axz0 hxz0
    obtain ⟨hfr, m, hm, hmM⟩ := luStep_mult hS star hstar sz z x hxz a axz0 hxz0
    generalize (match getA a z z with
          | some azz => setA a x z (transpose S (sz z) (sz x) (blockSolve S star (sz z) (sz x)
              (transpose S (sz z) (sz z) azz) (transpose S (sz x) (sz z) axz0)))
          | none => a) = a1 at e hfr hm
    rw [hm, Option.getD_some] at e
    obtain ⟨hin1, hin2⟩ := luInner hS sz z x hxz m rest a1 hnd
    have e1 : st'.1 = rest.foldl (luInnerF S sz z x m) a1 := by rw [show st' = _ from e]
    have e2 : st'.2 = (match getB b z with
        | some bz => addB S b x (sz x) (matVec S (sz x) (sz z) m bz)
        | none => b) := by rw [show st' = _ from e]
    have hzz : dA S a1 z z = dA S a z z := dA_congr S _ _ z z (hfr z z (by
      intro e; injection e with e1 _; exact hxz e1.symm))
    refine ⟨?_, ?_, ?_, ?_, ?_, ?_⟩
    · intro x' y' hx'
      rw [e1, hin1 x' y' (Or.inl hx')]
      exact hfr x' y' (by intro e; injection e with e1 _; exact hx' e1)
    · intro y' hy'z hy'
      rw [e1, hin1 x y' (Or.inr hy')]
      exact hfr x y' (by intro e; injection e with _ e2; exact hy'z e2)
    · intro x' hx'
      rw [e2]
      split
      · exact getB_addB_ne S b x _ _ x' hx'
      · rfl
    · intro i l hi hl
      rw [e1, dA_congr S _ _ x z (hin1 x z (Or.inr hz)), dA_some S a1 x z m hm]
      exact hmM i l hi hl
    · intro y hy i j hi hj
      rw [e1, hin2 y hy i j hi hj]
      have hyz : y ≠ z := fun e => hz (e ▸ hy)
      rw [dA_congr S a1 a x y (hfr x y (by intro e; injection e with _ e2; exact hyz e2)),
        dA_congr S a1 a z y (hfr z y (by intro e; injection e with e1 _; exact hxz e1.symm))]
      congr 1
      apply dot_congr
      · intro l hl; exact hmM i l hi hl
      · intro _ _; rfl
    · intro i hi
      rw [e2]
      cases hbz : getB b z with
      | none =>
        simp only
        rw [dB_none S b z hbz, dot_zero_right hS _ _ _ (fun _ _ => rfl), add_zero hS]
      | some bz =>
        simp only
        rw [dB_addB hS b x _ _ i hi, getV_matVec S _ _ _ _ i hi, dB_some S b z bz hbz]
        congr 1
        apply dot_congr
        · intro l hl; exact hmM i l hi hl
        · intro _ _; rfl

/-! ### one elimination round: `for x in rest: luStep z x` -/

/-- row `x` of the state after the round for `z`, in terms of the state before -/
def RowSpec (S : SR K) (star : K → K) (sz : Nat → Nat) (rest : List Nat) (z x : Nat)
    (a : MBlocks K) (b : VBlocks K) (a' : MBlocks K) (b' : VBlocks K) : Prop :=
  (∀ y', y' ≠ z → y' ∉ rest → getA a' x y' = getA a x y') ∧
  (∀ i l, i < sz x → l < sz z → dA S a' x z i l = Mx S star (sz z) (dA S a z z) (dA S a x z) i l) ∧
  (∀ y ∈ rest, ∀ i j, i < sz x → j < sz y → dA S a' x y i j =
    S.add (dA S a x y i j)
      (dot S (sz z) (Mx S star (sz z) (dA S a z z) (dA S a x z) i) (fun l => dA S a z y l j))) ∧
  (∀ i, i < sz x → dB S b' x i =
    S.add (dB S b x i) (dot S (sz z) (Mx S star (sz z) (dA S a z z) (dA S a x z) i) (dB S b z)))

theorem RowSpec.transfer {S : SR K} {star : K → K} {sz : Nat → Nat} {rest : List Nat} {z x : Nat}
    {a : MBlocks K} {b : VBlocks K} {a' : MBlocks K} {b' : VBlocks K}
    (h : RowSpec S star sz rest z x a b a' b') (a0 : MBlocks K) (b0 : VBlocks K) (a'' : MBlocks K) (b'' : VBlocks K)
    (hx : ∀ y', getA a0 x y' = getA a x y') (hzr : ∀ y', getA a0 z y' = getA a z y')
    (hbx : getB b0 x = getB b x) (hbz : getB b0 z = getB b z)
    (hx' : ∀ y', getA a'' x y' = getA a' x y') (hbx' : getB b'' x = getB b' x) :
    RowSpec S star sz rest z x a0 b0 a'' b'' := by
  obtain ⟨h1, h2, h3, h4⟩ := h
  refine ⟨?_, ?_, ?_, ?_⟩
  · intro y' hy1 hy2
    rw [hx', hx, h1 y' hy1 hy2]
  · intro i l hi hl
    rw [dA_congr S a'' a' x z (hx' z), dA_congr S a0 a z z (hzr z), dA_congr S a0 a x z (hx z)]
    exact h2 i l hi hl
  · intro y hy i j hi hj
    rw [dA_congr S a'' a' x y (hx' y), dA_congr S a0 a z z (hzr z), dA_congr S a0 a x z (hx z),
      dA_congr S a0 a x y (hx y), dA_congr S a0 a z y (hzr y)]
    exact h3 y hy i j hi hj
  · intro i hi
    rw [dB_congr S b'' b' x hbx', dA_congr S a0 a z z (hzr z), dA_congr S a0 a x z (hx z),
      dB_congr S b0 b x hbx, dB_congr S b0 b z hbz]
    exact h4 i hi

theorem luRound_aux {S : SR K} (hS : C01.SRLaws S) (star : K → K) (hstar : C09.StarLaw S star)
    (sz : Nat → Nat) (rest : List Nat) (hnd : rest.Nodup) (z : Nat) (hz : z ∉ rest) :
    ∀ (xs : List Nat) (st : MBlocks K × VBlocks K), xs.Nodup → z ∉ xs →
      (∀ x' y', x' ∉ xs →
        getA (xs.foldl (fun st x => luStep S star sz rest z x st) st).1 x' y' = getA st.1 x' y') ∧
      (∀ x', x' ∉ xs → getB (xs.foldl (fun st x => luStep S star sz rest z x st) st).2 x' = getB st.2 x') ∧
      (∀ x ∈ xs, RowSpec S star sz rest z x st.1 st.2
        (xs.foldl (fun st x => luStep S star sz rest z x st) st).1
        (xs.foldl (fun st x => luStep S star sz rest z x st) st).2) := by
  intro xs
  induction xs with
  | nil =>
    intro st _ _
    exact ⟨fun _ _ _ => rfl, fun _ _ => rfl, fun x hx => absurd hx List.not_mem_nil⟩
  | cons x0 xs ih =>
    intro st hxs hzxs
    obtain ⟨a, b⟩ := st
    rw [List.nodup_cons] at hxs
    have hx0z : x0 ≠ z := fun e => hzxs (e ▸ List.mem_cons_self ..)
    have hzxs' : z ∉ xs := fun hm => hzxs (List.mem_cons_of_mem _ hm)
    obtain ⟨s1, s2, s3, s4, s5, s6⟩ := luStep_spec hS star hstar sz rest hnd z x0 hx0z hz a b
    obtain ⟨i1, i2, i3⟩ := ih (luStep S star sz rest z x0 (a, b)) hxs.2 hzxs'
    rw [List.foldl_cons]
    generalize luStep S star sz rest z x0 (a, b) = st1 at s1 s2 s3 s4 s5 s6 i1 i2 i3
    generalize xs.foldl (fun st x => luStep S star sz rest z x st) st1 = st' at i1 i2 i3
    refine ⟨?_, ?_, ?_⟩
    · intro x' y' hx'
      have h1 : x' ≠ x0 := fun e => hx' (e ▸ List.mem_cons_self ..)
      have h2 : x' ∉ xs := fun hm => hx' (List.mem_cons_of_mem _ hm)
      rw [i1 x' y' h2, s1 x' y' h1]
    · intro x' hx'
      have h1 : x' ≠ x0 := fun e => hx' (e ▸ List.mem_cons_self ..)
      have h2 : x' ∉ xs := fun hm => hx' (List.mem_cons_of_mem _ hm)
      rw [i2 x' h2, s3 x' h1]
    · intro x hx
      by_cases hxx0 : x = x0
      · subst hxx0
        have base : RowSpec S star sz rest z x a b st1.1 st1.2 := ⟨s2, s4, s5, s6⟩
        exact base.transfer a b st'.1 st'.2 (fun _ => rfl) (fun _ => rfl) rfl rfl
          (fun y' => i1 x y' hxs.1) (i2 x hxs.1)
      · have hx' : x ∈ xs := by
          rcases List.mem_cons.1 hx with h | h
          · exact absurd h hxx0
          · exact h
        exact (i3 x hx').transfer a b st'.1 st'.2 (fun y' => (s1 x y' hxx0).symm)
          (fun y' => (s1 z y' (fun e => hx0z e.symm)).symm) (s3 x hxx0).symm
          (s3 z (fun e => hx0z e.symm)).symm (fun _ => rfl) rfl

/-- the elimination round for `z` -/
theorem luRound {S : SR K} (hS : C01.SRLaws S) (star : K → K) (hstar : C09.StarLaw S star)
    (sz : Nat → Nat) (rest : List Nat) (hnd : rest.Nodup) (z : Nat) (hz : z ∉ rest)
    (st : MBlocks K × VBlocks K) :
    (∀ x' y', x' ∉ rest →
      getA (rest.foldl (fun st x => luStep S star sz rest z x st) st).1 x' y' = getA st.1 x' y') ∧
    (∀ x', x' ∉ rest → getB (rest.foldl (fun st x => luStep S star sz rest z x st) st).2 x' = getB st.2 x') ∧
    (∀ x ∈ rest, RowSpec S star sz rest z x st.1 st.2
      (rest.foldl (fun st x => luStep S star sz rest z x st) st).1
      (rest.foldl (fun st x => luStep S star sz rest z x st) st).2) :=
  luRound_aux hS star hstar sz rest hnd z hz rest st hnd hz

/-- the LU phase on `rest` only touches blocks `a[x,y]` with `x, y ∈ rest` and `b[x]` with `x ∈ rest` -/
theorem luPhase_frame {S : SR K} (hS : C01.SRLaws S) (star : K → K) (hstar : C09.StarLaw S star)
    (sz : Nat → Nat) : ∀ (rest : List Nat) (st : MBlocks K × VBlocks K), rest.Nodup →
      (∀ x' y', (x' ∉ rest ∨ y' ∉ rest) → getA (luPhase S star sz rest st).1 x' y' = getA st.1 x' y') ∧
      (∀ x', x' ∉ rest → getB (luPhase S star sz rest st).2 x' = getB st.2 x') := by
  intro rest
  induction rest with
  | nil => intro st _; exact ⟨fun _ _ _ => rfl, fun _ _ => rfl⟩
  | cons z rest ih =>
    intro st hnd
    rw [List.nodup_cons] at hnd
    obtain ⟨r1, r2, r3⟩ := luRound hS star hstar sz rest hnd.2 z hnd.1 st
    obtain ⟨i1, i2⟩ := ih (rest.foldl (fun st x => luStep S star sz rest z x st) st) hnd.2
    simp only [luPhase]
    refine ⟨?_, ?_⟩
    · intro x' y' h
      have h' : x' ∉ rest ∨ y' ∉ rest := by
        rcases h with h | h
        · exact Or.inl (fun hm => h (List.mem_cons_of_mem _ hm))
        · exact Or.inr (fun hm => h (List.mem_cons_of_mem _ hm))
      rw [i1 x' y' h']
      by_cases hx' : x' ∈ rest
      · have hy' : y' ∉ z :: rest := by
          rcases h with h | h
          · exact absurd (List.mem_cons_of_mem _ hx') h
          · exact h
        exact (r3 x' hx').1 y' (fun e => hy' (e ▸ List.mem_cons_self ..))
          (fun hm => hy' (List.mem_cons_of_mem _ hm))
      · exact r1 x' y' hx'
    · intro x' hx'
      have h' : x' ∉ rest := fun hm => hx' (List.mem_cons_of_mem _ hm)
      rw [i2 x' h', r2 x' h']

/-! ### the back-substitution phase -/

def backInnerF (S : SR K) (sz : Nat → Nat) (a : MBlocks K) (z : Nat) (bz : List K) : VBlocks K → Nat → VBlocks K :=
  fun acc x =>
    match getA a x z with
    | some axz => addB S acc x (sz x) (matVec S (sz x) (sz z) axz bz)
    | none => acc

theorem backInnerF_ne (S : SR K) (sz : Nat → Nat) (a : MBlocks K) (z : Nat) (bz : List K) (acc : VBlocks K)
    (x x' : Nat) (h : x' ≠ x) : getB (backInnerF S sz a z bz acc x) x' = getB acc x' := by
  unfold backInnerF
  split
  · exact getB_addB_ne S acc x _ _ x' h
  · rfl

theorem backInnerF_eq {S : SR K} (hS : C01.SRLaws S) (sz : Nat → Nat) (a : MBlocks K) (z : Nat) (bz : List K)
    (acc : VBlocks K) (x i : Nat) (hi : i < sz x) :
    dB S (backInnerF S sz a z bz acc x) x i =
      S.add (dB S acc x i) (dot S (sz z) (dA S a x z i) (getV S bz)) := by
  unfold backInnerF
  split
  · rename_i axz haxz
    rw [dB_addB hS acc x _ _ i hi, getV_matVec S _ _ _ _ i hi, dA_some S a x z axz haxz]
  · rename_i hnone
    rw [dA_none S a x z hnone, dot_zero_left hS _ _ _ (fun _ _ => rfl), add_zero hS]

theorem backInner {S : SR K} (hS : C01.SRLaws S) (sz : Nat → Nat) (a : MBlocks K) (z : Nat) (bz : List K) :
    ∀ (xs : List Nat) (acc : VBlocks K), xs.Nodup →
      (∀ x', x' ∉ xs → getB (xs.foldl (backInnerF S sz a z bz) acc) x' = getB acc x') ∧
      (∀ x ∈ xs, ∀ i, i < sz x → dB S (xs.foldl (backInnerF S sz a z bz) acc) x i =
        S.add (dB S acc x i) (dot S (sz z) (dA S a x z i) (getV S bz))) := by
  intro xs
  induction xs with
  | nil => intro acc _; exact ⟨fun _ _ => rfl, fun x hx => absurd hx List.not_mem_nil⟩
  | cons x0 xs ih =>
    intro acc hnd
    rw [List.nodup_cons] at hnd
    obtain ⟨i1, i2⟩ := ih (backInnerF S sz a z bz acc x0) hnd.2
    rw [List.foldl_cons]
    refine ⟨?_, ?_⟩
    · intro x' hx'
      rw [i1 x' (fun hm => hx' (List.mem_cons_of_mem _ hm))]
      exact backInnerF_ne S sz a z bz acc x0 x' (fun e => hx' (e ▸ List.mem_cons_self ..))
    · intro x hx i hi
      by_cases hxx0 : x = x0
      · subst hxx0
        rw [dB_congr S _ _ x (i1 x hnd.1)]
        exact backInnerF_eq hS sz a z bz acc x i hi
      · have hx' : x ∈ xs := by
          rcases List.mem_cons.1 hx with h | h
          · exact absurd h hxx0
          · exact h
        rw [i2 x hx' i hi, dB_congr S _ acc x (backInnerF_ne S sz a z bz acc x0 x hxx0)]

/-- what `backStep` does (dense view) -/
theorem backStep_spec {S : SR K} (hS : C01.SRLaws S) (star : K → K) (hstar : C09.StarLaw S star)
    (sz : Nat → Nat) (a : MBlocks K) (before : List Nat) (hnd : before.Nodup) (z : Nat) (hz : z ∉ before)
    (b : VBlocks K) :
    (∀ i, i < sz z → dB S (backStep S star sz a before z b) z i = sig S star (sz z) (dA S a z z) (dB S b z) i) ∧
    (∀ x ∈ before, ∀ i, i < sz x → dB S (backStep S star sz a before z b) x i =
      S.add (dB S b x i) (dot S (sz z) (dA S a x z i) (dB S (backStep S star sz a before z b) z))) ∧
    (∀ x', x' ∉ before → x' ≠ z → getB (backStep S star sz a before z b) x' = getB b x') := by
  cases hbz : getB b z with
  | none =>
    have e : backStep S star sz a before z b = b := by simp only [backStep, hbz]
    rw [e]
    have hzero : ∀ i, i < sz z → sig S star (sz z) (dA S a z z) (dB S b z) i = S.zero := by
      intro i hi
      rw [dB_none S b z hbz]
      exact sig_zero hS star _ _ _ (fun _ _ => rfl) i hi
    refine ⟨?_, ?_, fun _ _ _ => rfl⟩
    · intro i hi
      rw [hzero i hi, dB_none S b z hbz]
    · intro x hx i hi
      rw [dB_none S b z hbz, dot_zero_right hS _ _ _ (fun _ _ => rfl), add_zero hS]
  | some bz0 =>
    -- the first sub-step
    have hb1 : ∃ b1 v, (∀ x', x' ≠ z → getB b1 x' = getB b x') ∧ getB b1 z = some v ∧
        (∀ i, i < sz z → getV S v i = sig S star (sz z) (dA S a z z) (dB S b z) i) ∧
        backStep S star sz a before z b = before.reverse.foldl (backInnerF S sz a z v) b1 := by
      cases hzz : getA a z z with
      | none =>
        refine ⟨b, bz0, fun _ _ => rfl, hbz, ?_, ?_⟩
        · intro i hi
          rw [dA_none S a z z hzz, sig_zero_mat hS, dB_some S b z bz0 hbz]
        · simp only [backStep, hbz, hzz, Option.getD_some]
          rfl
      | some azz =>
        refine ⟨setB b z (blockSolveVec S star (sz z) azz bz0), blockSolveVec S star (sz z) azz bz0,
          fun x' hx' => by rw [getB_setB, if_neg hx'], by rw [getB_setB, if_pos rfl], ?_, ?_⟩
        · intro i hi
          rw [getV_blockSolveVec hS star hstar _ _ _ i hi, dA_some S a z z azz hzz, dB_some S b z bz0 hbz]
        · simp only [backStep, hbz, hzz, getB_setB, if_pos, Option.getD_some]
          rfl
    obtain ⟨b1, v, hf, hv, hsig, e⟩ := hb1
    rw [e]
    obtain ⟨i1, i2⟩ := backInner hS sz a z v before.reverse b1 (List.nodup_reverse.2 hnd)
    have hz' : z ∉ before.reverse := fun hm => hz (List.mem_reverse.1 hm)
    have hzres : dB S (before.reverse.foldl (backInnerF S sz a z v) b1) z = getV S v := by
      rw [dB_congr S _ b1 z (i1 z hz'), dB_some S b1 z v hv]
    refine ⟨?_, ?_, ?_⟩
    · intro i hi
      rw [hzres]
      exact hsig i hi
    · intro x hx i hi
      have hxz : x ≠ z := fun e => hz (e ▸ hx)
      rw [i2 x (List.mem_reverse.2 hx) i hi, hzres, dB_congr S b1 b x (hf x hxz)]
    · intro x' hx' hx'z
      rw [i1 x' (fun hm => hx' (List.mem_reverse.1 hm)), hf x' hx'z]

/-- the back phase as a recursion over the suffix still to be processed (`pre` = the nonterminals before it) -/
def backAux (S : SR K) (star : K → K) (sz : Nat → Nat) (a : MBlocks K) : List Nat → List Nat → VBlocks K → VBlocks K
  | _, [], b => b
  | pre, z :: rest, b => backStep S star sz a pre z (backAux S star sz a (pre ++ [z]) rest b)

theorem backPhase_aux (S : SR K) (star : K → K) (sz : Nat → Nat) (a : MBlocks K) (order : List Nat) :
    ∀ (rest pre : List Nat) (b : VBlocks K), order = pre ++ rest →
      (List.range' pre.length rest.length).reverse.foldl (fun b k =>
        match order[k]? with
        | some z => backStep S star sz a (order.take k) z b
        | none => b) b = backAux S star sz a pre rest b := by
  intro rest
  induction rest with
  | nil => intro pre b _; rfl
  | cons z rest ih =>
    intro pre b ho
    rw [List.length_cons, List.range'_succ, List.reverse_cons, List.foldl_append, List.foldl_cons,
      List.foldl_nil]
    have h1 : order[pre.length]? = some z := by rw [ho]; simp
    have h2 : order.take pre.length = pre := by rw [ho]; simp
    have h3 := ih (pre ++ [z]) b (by rw [ho]; simp)
    rw [List.length_append, List.length_singleton] at h3
    rw [h3]
    simp only [h1, h2]
    rfl

theorem backPhase_eq (S : SR K) (star : K → K) (sz : Nat → Nat) (a : MBlocks K) (order : List Nat) (b : VBlocks K) :
    backPhase S star sz a order b = backAux S star sz a [] order b := by
  have := backPhase_aux S star sz a order order [] b rfl
  rw [List.length_nil, ← List.range_eq_range'] at this
  exact this

end C09cL
