/-
Lemmas for C03d: finite sums `rsum` over `Rat` (congruence, additivity, scalar multiplication, exchange), the adjoint
identity on functions, the cells of `Sv.affine` / `Bw.transposeM` over `ratSR`, and the entries of the flattened Jacobians.
-/
import FggsProofs.Props.C03c
import FggsModel.Backward
import Mathlib.Tactic.Linarith
import Mathlib.Tactic.Ring

set_option linter.unusedSimpArgs false
set_option linter.unusedVariables false

namespace C03dL
open Fggs Fggs.Sem Fggs.Pipe Fggs.Jl Fggs.Bw Fggs.Sv

/-- finite sum over `0 … n-1` (the same term as `C03.rsum`) -/
def rsum (n : Nat) (f : Nat → Rat) : Rat := ((List.range n).map f).sum

theorem rsum_zero (f : Nat → Rat) : rsum 0 f = 0 := by simp [rsum]

theorem rsum_succ (n : Nat) (f : Nat → Rat) : rsum (n+1) f = rsum n f + f n := by
  simp [rsum, List.range_succ, List.map_append, List.sum_append]

theorem rsum_congr (n : Nat) (f g : Nat → Rat) (h : ∀ i, i < n → f i = g i) : rsum n f = rsum n g := by
  induction n with
  | zero => simp [rsum_zero]
  | succ n ih =>
    rw [rsum_succ, rsum_succ, ih (fun i hi => h i (by omega)), h n (by omega)]

theorem rsum_add (n : Nat) (f g : Nat → Rat) : rsum n (fun i => f i + g i) = rsum n f + rsum n g := by
  induction n with
  | zero => simp [rsum_zero]
  | succ n ih => rw [rsum_succ, rsum_succ, rsum_succ, ih]; ring

theorem rsum_mul_left (n : Nat) (a : Rat) (f : Nat → Rat) : rsum n (fun i => a * f i) = a * rsum n f := by
  induction n with
  | zero => simp [rsum_zero]
  | succ n ih => rw [rsum_succ, rsum_succ, ih]; ring

theorem rsum_mul_right (n : Nat) (a : Rat) (f : Nat → Rat) : rsum n (fun i => f i * a) = rsum n f * a := by
  induction n with
  | zero => simp [rsum_zero]
  | succ n ih => rw [rsum_succ, rsum_succ, ih]; ring

theorem rsum_const_zero (n : Nat) : rsum n (fun _ => 0) = 0 := by
  induction n with
  | zero => simp [rsum_zero]
  | succ n ih => rw [rsum_succ, ih]; ring

theorem rsum_comm (n m : Nat) (g : Nat → Nat → Rat) :
    rsum n (fun i => rsum m (fun c => g i c)) = rsum m (fun c => rsum n (fun i => g i c)) := by
  induction n with
  | zero => simp only [rsum_zero, rsum_const_zero]
  | succ n ih =>
    rw [rsum_succ, ih, ← rsum_add]
    exact rsum_congr _ _ _ (fun c _ => (rsum_succ n (fun i => g i c)).symm)

theorem adjoint_core (n m : Nat) (A B : Nat → Nat → Rat) (f y dx dw : Nat → Rat)
    (hy : ∀ i, i < n → y i = rsum n (fun j => A j i * y j) + f i)
    (hdx : ∀ i, i < n → dx i = rsum n (fun j => A i j * dx j) + rsum m (fun c => B i c * dw c)) :
    rsum n (fun i => f i * dx i) = rsum m (fun c => rsum n (fun i => B i c * y i) * dw c) := by
  have h1 : rsum n (fun i => y i * dx i)
      = rsum n (fun i => rsum n (fun j => A j i * y j * dx i)) + rsum n (fun i => f i * dx i) := by
    rw [← rsum_add]
    apply rsum_congr
    intro i hi
    rw [rsum_mul_right, ← add_mul, ← hy i hi]
  have h2 : rsum n (fun i => y i * dx i)
      = rsum n (fun i => rsum n (fun j => A i j * y i * dx j)) + rsum n (fun i => rsum m (fun c => B i c * y i * dw c)) := by
    rw [← rsum_add]
    apply rsum_congr
    intro i hi
    have e1 : rsum n (fun j => A i j * y i * dx j) = y i * rsum n (fun j => A i j * dx j) := by
      rw [← rsum_mul_left]; apply rsum_congr; intro j _; ring
    have e2 : rsum m (fun c => B i c * y i * dw c) = y i * rsum m (fun c => B i c * dw c) := by
      rw [← rsum_mul_left]; apply rsum_congr; intro j _; ring
    rw [e1, e2, ← mul_add, ← hdx i hi]
  have h3 : rsum n (fun i => rsum n (fun j => A j i * y j * dx i)) = rsum n (fun i => rsum n (fun j => A i j * y i * dx j)) :=
    rsum_comm n n (fun i j => A j i * y j * dx i)
  have h4 : rsum n (fun i => rsum m (fun c => B i c * y i * dw c)) = rsum m (fun c => rsum n (fun i => B i c * y i) * dw c) := by
    rw [rsum_comm]
    apply rsum_congr
    intro c _
    rw [rsum_mul_right]
  rw [← h4]
  linarith

theorem foldl_add (l : List Rat) (a : Rat) : l.foldl ratSR.add a = a + l.sum := by
  induction l generalizing a with
  | nil => simp
  | cons b l ih =>
    simp only [List.foldl_cons, List.sum_cons, ih]
    show a + b + l.sum = a + (b + l.sum)
    ring

theorem ratSR_sum (l : List Rat) : ratSR.sum l = l.sum := by
  unfold SR.sum
  rw [foldl_add]
  show (0 : Rat) + l.sum = l.sum
  ring

theorem getV_map_range (n : Nat) (g : Nat → Rat) (i : Nat) (hi : i < n) :
    getV ratSR ((List.range n).map g) i = g i := by
  simp [getV, List.getElem?_map, List.getElem?_range, hi]

theorem transposeM_length (r c : Nat) (a : List (List Rat)) : (transposeM r c a).length = c := by
  simp [transposeM]

theorem getM_transposeM (r c : Nat) (a : List (List Rat)) (i j : Nat) (hi : i < c) (hj : j < r) :
    getM ratSR (transposeM r c a) i j = getM ratSR a j i := by
  simp [getM, transposeM, List.getElem?_map, List.getElem?_range, hi, hj]

theorem affine_getV (a : List (List Rat)) (b x : List Rat) (i : Nat) (hi : i < a.length) :
    getV ratSR (affine ratSR a b x) i
      = rsum a.length (fun j => getM ratSR a i j * getV ratSR x j) + getV ratSR b i := by
  unfold affine
  rw [getV_map_range _ _ _ hi, ratSR_sum]
  rfl

theorem mem_cells_lt (G : Grammar Rat) (p : Nat × Nat) (h : p ∈ cells G) : p.1 < G.nts.length := by
  unfold cells compCells at h
  rw [List.mem_flatMap] at h
  obtain ⟨X, hX, hp⟩ := h
  rw [List.mem_map] at hp
  obtain ⟨i, _, rfl⟩ := hp
  exact List.mem_range.mp hX

theorem mem_inCells_lt (G : Grammar Rat) (p : Nat × Nat) (h : p ∈ inCells G) : p.1 < G.T := by
  unfold inCells at h
  rw [List.mem_flatMap] at h
  obtain ⟨X, hX, hp⟩ := h
  rw [List.mem_map] at hp
  obtain ⟨i, _, rfl⟩ := hp
  exact List.mem_range.mp hX

theorem getM_map_map {α β : Type} (L1 : List α) (L2 : List β) (g : α → β → Rat) (r c : Nat)
    (hr : r < L1.length) (hc : c < L2.length) :
    getM ratSR (L1.map (fun p => L2.map (fun q => g p q))) r c = g L1[r] L2[c] := by
  simp [getM, List.getElem?_map, hr, hc]

theorem block_lookup {α : Type} (N M : Nat) (g : Nat → Nat → Option α) (X Y : Nat) (hX : X < N) (hY : Y < M) :
    ((((List.range N).map (fun X => (List.range M).map (fun Y => g X Y)))[X]?.getD [])[Y]?.getD none) = g X Y := by
  simp [List.getElem?_map, List.getElem?_range, hX, hY]

theorem jacMat_entry' (G : Grammar Rat) (x : Val Rat) (r c : Nat) (hr : r < (cells G).length) (hc : c < (cells G).length) :
    getM ratSR (jacMat G x) r c =
      blockCell (jac ratSR G x ((cells G)[r]).1 ((cells G)[c]).1)
        (((cells G)[r]).2 * numel (G.shapeOf (G.nts[((cells G)[c]).1]?.getD []))
          + ((cells G)[c]).2) := by
  have h1 := mem_cells_lt G _ (List.getElem_mem hr)
  have h2 := mem_cells_lt G _ (List.getElem_mem hc)
  have e : jacMat G x = (cells G).map (fun p => (cells G).map (fun q =>
      blockCell ((((List.range G.nts.length).map (fun X => (List.range G.nts.length).map (fun Y => jac ratSR G x X Y)))[p.1]?.getD [])[q.1]?.getD none)
        (p.2 * numel (G.shapeOf (G.nts[q.1]?.getD [])) + q.2))) := rfl
  rw [e, getM_map_map _ _ _ r c hr hc, block_lookup _ _ (fun X Y => jac ratSR G x X Y) _ _ h1 h2]

theorem jinMat_entry' (G : Grammar Rat) (x : Val Rat) (r c : Nat) (hr : r < (cells G).length) (hc : c < (inCells G).length) :
    getM ratSR (jinMat G x) r c =
      blockCell (jacLabel ratSR G x ((cells G)[r]).1 ((inCells G)[c]).1)
        (((cells G)[r]).2 * numel (G.shapeOf (G.labelType ((inCells G)[c]).1))
          + ((inCells G)[c]).2) := by
  have h1 := mem_cells_lt G _ (List.getElem_mem hr)
  have h2 := mem_inCells_lt G _ (List.getElem_mem hc)
  have e : jinMat G x = (cells G).map (fun p => (inCells G).map (fun q =>
      blockCell ((((List.range G.nts.length).map (fun X => (List.range G.T).map (fun l => jacLabel ratSR G x X l)))[p.1]?.getD [])[q.1]?.getD none)
        (p.2 * numel (G.shapeOf (G.labelType q.1)) + q.2))) := rfl
  rw [e, getM_map_map _ _ _ r c hr hc, block_lookup _ _ (fun X Y => jacLabel ratSR G x X Y) _ _ h1 h2]

end C03dL
