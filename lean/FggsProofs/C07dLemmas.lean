/-
C07dLemmas — the algebraic steps of C07bMainLemmas (`iota_surj`, `raw_cell`, `raw_dense`) redone for a semiring that is
lawful on a CARRIER containing all physical elements of the operands (`C07.CarrierLaws`); the index bookkeeping of
C07bMainLemmas (which does not use the semiring laws) is reused unchanged.
-/
import FggsProofs.C07bMainLemmas
import FggsProofs.C07dAlgLemmas

set_option linter.unusedSimpArgs false
set_option linter.unusedVariables false
set_option linter.unusedSectionVars false

namespace C07dL
open Fggs Fggs.Ax Fggs.Un Fggs.Ei Fggs.Sem C06b C06dL C07 C07bL

section ctx
variable {S : SR Ext} {C : Ext → Prop} (hC : CarrierLaws S C) {j : EJob} {next : Nat} {tbl : List (Nat × Axis)}
  {st : St} {sz : Nat → Nat} (hvals : ∀ p ∈ j.ops, ∀ c ∈ p.1.physical, C c)
  (J : JobHyp S j next) (F : Facts j next tbl st sz) (R : ResolvedAt st.subst tbl j.out)

include hC hvals J in
/-- the dense entries of the operands are in the carrier -/
theorem denseAt_mem {p : PT × List Nat} (hp : p ∈ j.ops) (ι : List Nat) : C (denseAt p ι) := by
  have hd : C p.1.default := by rw [J.zeroDefault p hp]; exact hC.zero
  unfold denseAt
  cases h : p.1.dense[Ax.flat p.1.vshape (p.2.map (fun v => ι[v]?.getD 0))]? with
  | none => exact hd
  | some x =>
    rcases dense_mem p.1 x (List.mem_of_getElem? h) with e | e
    · rw [Option.getD_some, e]; exact hd
    · exact hvals p hp x e

include hC hvals J in
theorem specProd_mem (ι : List Nat) : C (specProd S j ι) := by
  unfold specProd
  apply prod_mem hC
  intro x hx
  obtain ⟨p, hp, rfl⟩ := List.mem_map.1 hx
  exact denseAt_mem hC hvals J hp ι

include hC hvals J F R in
/-- **every joint assignment at which all operands are backed comes from an assignment of the free axes**
(most-generality of the unifications) -/
theorem iota_surj_on {ι : List Nat} (hι : ι ∈ Sem.assigns (maskOf j)) (hne : specProd S j ι ≠ S.zero) :
    ∃ ρ, InV j st.subst ρ ∧ iota j tbl st.subst ρ = ι := by
  classical
  obtain ⟨hl, hbd⟩ := (mem_mask J).1 hι
  -- every operand is backed
  have hb : ∀ p ∈ j.ops, ∃ ρ, Backs p.1 (p.2.map (fun v => ι[v]?.getD 0)) ρ := by
    intro p hp
    by_contra hno
    have hno' : ∀ ρ, ¬ Backs p.1 (p.2.map (fun v => ι[v]?.getD 0)) ρ := fun ρ h => hno ⟨ρ, h⟩
    apply hne
    unfold specProd
    apply prod_zero_of_mem_on hC _ (fun x hx => by
      obtain ⟨q, hq, rfl⟩ := List.mem_map.1 hx
      exact denseAt_mem hC hvals J hq ι)
    rw [List.mem_map]
    refine ⟨p, hp, ?_⟩
    unfold denseAt
    rw [dense_unbacked (sem_of J hp) (idx_mem J hι hp) hno']
    exact J.zeroDefault p hp
  have hex : ∀ p : PT × List Nat, ∃ ρ : Nat → Nat, p ∈ j.ops → Backs p.1 (p.2.map (fun v => ι[v]?.getD 0)) ρ := by
    intro p
    by_cases hp : p ∈ j.ops
    · obtain ⟨ρ, h⟩ := hb p hp
      exact ⟨ρ, fun _ => h⟩
    · exact ⟨fun _ => 0, fun h => absurd h hp⟩
  let Rf : PT × List Nat → Nat → Nat := fun p => Classical.choose (hex p)
  have hRf : ∀ p ∈ j.ops, Backs p.1 (p.2.map (fun v => ι[v]?.getD 0)) (Rf p) :=
    fun p hp => Classical.choose_spec (hex p) hp
  -- one assignment of all the operands' physical axes
  let ρ0 : Nat → Nat := fun v =>
    match j.ops.find? (fun p => p.1.paxes.any (fun k => k.1 == v)) with
    | some p => Rf p v
    | none => 0
  have hρ0 : ∀ p ∈ j.ops, ∀ k ∈ p.1.paxes, ρ0 k.1 = Rf p k.1 := by
    intro p hp k hk
    show (match j.ops.find? (fun p => p.1.paxes.any (fun l => l.1 == k.1)) with
      | some p => Rf p k.1 | none => 0) = _
    cases hf : j.ops.find? (fun p => p.1.paxes.any (fun l => l.1 == k.1)) with
    | none =>
      exfalso
      rw [List.find?_eq_none] at hf
      apply hf p hp
      rw [List.any_eq_true]
      exact ⟨k, hk, by simp⟩
    | some p' =>
      have hp' := List.mem_of_find?_eq_some hf
      have hany := List.find?_some hf
      rw [List.any_eq_true] at hany
      obtain ⟨l, hl, hlk⟩ := hany
      have : l.1 = k.1 := by simpa using hlk
      rw [(pax_unique J hp' hp hl hk this).1]
  have hback : ∀ p ∈ j.ops, Backs p.1 (p.2.map (fun v => ι[v]?.getD 0)) ρ0 := by
    intro p hp
    refine ⟨fun k hk => by rw [hρ0 p hp k hk]; exact (hRf p hp).1 k hk, ?_⟩
    rw [← (hRf p hp).2]
    apply List.map_congr_left
    intro e he
    apply eval_congr
    intro q hq
    exact hρ0 p hp q ((struct_of J hp).fvsub e he q hq)
  have hocc_eval : ∀ q ∈ occs j, q.1.eval ρ0 = ι[q.2]?.getD 0 := by
    rintro ⟨e, v⟩ hq
    obtain ⟨p, hp, i, h1, h2⟩ := mem_occs.1 hq
    have := congrArg (fun l => l[i]?) (hback p hp).2
    simp only [List.getElem?_map, h1, h2, Option.map_some, Option.some.injEq] at this
    exact this
  obtain ⟨ρ', hag, hs', hr'⟩ := F.mgu ρ0 (fun p hp => (hback p hp).1) (by
    intro q hq q' hq' e
    rw [hocc_eval q hq, hocc_eval q' hq', e])
  refine ⟨ρ', ?_, ?_⟩
  · intro q hq
    obtain ⟨p, hp, k, hk, hqk⟩ := mem_allAxes.1 hq
    rcases clone_fv_sub st.subst FUEL _ q hqk with h | ⟨b, hb', h⟩
    · simp only [Axis.fv, List.mem_singleton] at h
      rw [h, hag k.1 (J.fresh p hp k hk)]
      exact (hback p hp).1 k hk
    · exact hr' b hb' q h
  · have hlift : lift st.subst 3999 ρ' = ρ' := funext (lift_of_sat F.sized.numelOkS hs' 3999)
    apply ext_getD (iota_length _ _) hl
    intro v hv
    rw [iota_get _ _ hv, hlift]
    by_cases hused : ∃ p ∈ j.ops, v ∈ p.2
    · obtain ⟨p, hp, hvp⟩ := hused
      obtain ⟨i, hi, hiv⟩ := List.getElem_of_mem hvp
      have hi' : i < p.1.vaxes.length := by rw [← J.arity p hp]; exact hi
      have hocc : (p.1.vaxes[i], v) ∈ occs j :=
        mem_occs.2 ⟨p, hp, i, List.getElem?_eq_getElem hi', by rw [List.getElem?_eq_getElem hi, hiv]⟩
      obtain ⟨e0, he0⟩ := F.tblocc _ hocc
      have hocc0 := F.tblmem _ _ he0
      rw [tblAx_of he0, hag.eval (fun q hq => (occ_typed J hocc0 q hq).1)]
      exact hocc_eval _ hocc0
    · have hnone : tbl.lookup v = none := by
        cases hl' : tbl.lookup v with
        | none => rfl
        | some e0 =>
          exfalso
          obtain ⟨p, hp, i, _, h2⟩ := mem_occs.1 (F.tblmem _ _ hl')
          exact hused ⟨p, hp, List.mem_of_getElem? h2⟩
      have h1 : sizeOf j.ops v = 1 := sizeOf_unused (fun p hp hv' => hused ⟨p, hp, hv'⟩)
      have h2 := hbd v hv
      unfold tblAx
      rw [hnone, h1] at *
      simp only [Option.getD_none, unitAxis_eval]
      omega

include hC hvals J F R in
/-- **the cells of the un-normalised result are the cells of the specification** -/
theorem raw_cell_on {c : List Nat} (hc : c ∈ Ax.assigns (rawOf S j tbl st.subst).vshape) :
    (rawOf S j tbl st.subst).dense[Ax.flat (rawOf S j tbl st.subst).vshape c]? = some (specCell S j c) := by
  have hN := raw_normOK (S := S) J F R
  have hs : C06dL.Sem (rawOf S j tbl st.subst) := sem_of_occ hN.nodup hN.fvsub hN.occ
  have hAnd : ((Sem.assigns (maskOf j)).filter (fun ρ => j.out.map (fun v => ρ[v]?.getD 0) == c)).Nodup := by
    rw [← assigns_eq]; exact (nodup_assigns _).filter _
  have hOV : ∀ q ∈ outAxesOf j tbl st.subst, q ∈ allAxesOf j st.subst := fun q hq => outAxes_sub J F R hq
  by_cases hb : ∃ α, Backs (rawOf S j tbl st.subst) c α
  · obtain ⟨α, hα⟩ := hb
    have hα1 : ∀ q ∈ outAxesOf j tbl st.subst, α q.1 < q.2 := hα.1
    have hα2 : (outVaxesOf j tbl st.subst).map (Axis.eval α) = c := hα.2
    have ha0 := pidx_mem_assigns α (outAxesOf j tbl st.subst) hα1
    rw [dense_backed hs hα]
    congr 1
    show ((physOf S j tbl st.subst)[Ax.flat ((outAxesOf j tbl st.subst).map (·.2)) (pidx (outAxesOf j tbl st.subst) α)]?).getD S.zero = _
    unfold physOf
    rw [List.getElem?_map, getElem_flat ha0]
    simp only [Option.map_some, Option.getD_some]
    unfold specCell
    symm
    -- facts about the assignment `envOf W (a0 ++ b)`
    have key : ∀ b ∈ Ax.assigns ((innerOf j tbl st.subst).map (·.2)),
        ∀ q ∈ outAxesOf j tbl st.subst,
          envOf (wAxes j tbl st.subst) (pidx (outAxesOf j tbl st.subst) α ++ b) q.1 = α q.1 := by
      intro b hb
      have h2 := (envW_props J F R ha0 hb).2
      unfold wAxes at h2
      rw [pidx_append] at h2
      have := (List.append_inj h2 (by simp [pidx])).1
      exact List.map_inj_left.1 this
    apply sum_reindex_on hC _ (Ax.assigns ((innerOf j tbl st.subst).map (·.2)))
      (fun b => iota j tbl st.subst (envOf (wAxes j tbl st.subst) (pidx (outAxesOf j tbl st.subst) α ++ b)))
      (specProd S j) _ hAnd (nodup_assigns _) (fun ι _ => specProd_mem hC hvals J ι)
    · intro b hb
      have h1 := (envW_props J F R ha0 hb).1
      rw [List.mem_filter]
      refine ⟨iota_mem J F R h1, ?_⟩
      rw [beq_iff_eq, out_idx J F R, ← hα2]
      apply List.map_congr_left
      intro e he
      apply eval_congr
      intro q hq
      exact key b hb q (hN.fvsub e he q hq)
    · intro b hb b' hb' e
      have h1 := envW_props J F R ha0 hb
      have h1' := envW_props J F R ha0 hb'
      have hag := iota_inj J F R h1.1 h1'.1 e
      have : pidx (wAxes j tbl st.subst) (envOf (wAxes j tbl st.subst) (pidx (outAxesOf j tbl st.subst) α ++ b)) =
          pidx (wAxes j tbl st.subst) (envOf (wAxes j tbl st.subst) (pidx (outAxesOf j tbl st.subst) α ++ b')) :=
        pidx_congr (fun q hq => hag q ((mem_wAxes J F R).1 hq))
      rw [h1.2, h1'.2] at this
      exact List.append_cancel_left this
    · intro b hb
      exact specProd_iota J F R (envW_props J F R ha0 hb).1
    · intro ι hι hne
      rw [List.mem_filter, beq_iff_eq] at hι
      obtain ⟨ρ', hρ', rfl⟩ := iota_surj_on hC hvals J F R hι.1 hne
      have hW : ∀ q ∈ wAxes j tbl st.subst, ρ' q.1 < q.2 := fun q hq => hρ' q ((mem_wAxes J F R).1 hq)
      have hI : ∀ q ∈ innerOf j tbl st.subst, ρ' q.1 < q.2 :=
        fun q hq => hW q (by unfold wAxes; exact List.mem_append_right _ hq)
      refine ⟨pidx (innerOf j tbl st.subst) ρ', pidx_mem_assigns ρ' _ hI, ?_⟩
      have hout : (outVaxesOf j tbl st.subst).map (Axis.eval α) = (outVaxesOf j tbl st.subst).map (Axis.eval ρ') := by
        rw [hα2, ← out_idx J F R]; exact hι.2.symm
      have hagO := hs.inj α ρ' hα1 (fun q hq => hρ' q (hOV q hq)) hout
      have hpO : pidx (outAxesOf j tbl st.subst) α = pidx (outAxesOf j tbl st.subst) ρ' := pidx_congr hagO
      apply iota_congr J F
      intro q hq
      rw [hpO, ← pidx_append]
      exact envOf_pidx ρ' (wAxes j tbl st.subst) q.1
        (List.mem_map_of_mem (f := (·.1)) ((mem_wAxes J F R).2 hq))
  · have hno : ∀ α, ¬ Backs (rawOf S j tbl st.subst) c α := fun α h => hb ⟨α, h⟩
    rw [dense_unbacked hs hc hno]
    congr 1
    symm
    unfold specCell
    apply sum_all_zero_on hC
    intro x hx
    obtain ⟨ι, hι, rfl⟩ := List.mem_map.1 hx
    by_contra hne
    rw [List.mem_filter, beq_iff_eq] at hι
    obtain ⟨ρ', hρ', rfl⟩ := iota_surj_on hC hvals J F R hι.1 hne
    apply hno ρ'
    refine ⟨fun q hq => hρ' q (hOV q hq), ?_⟩
    show (outVaxesOf j tbl st.subst).map (Axis.eval ρ') = c
    rw [← out_idx J F R]
    exact hι.2

include hC hvals J F R in
/-- **the un-normalised result denotes the specification** -/
theorem raw_dense_on : (rawOf S j tbl st.subst).dense = (Es.Job.mk j.ops j.out).spec S id := by
  rw [spec_unfold]
  have hv := raw_vshape (S := S) J F 0
  apply list_ext_flat (rawOf S j tbl st.subst).vshape
  · exact length_dense _
  · rw [List.length_map, ← assigns_eq, length_assigns, hv]
  · intro c hc
    rw [raw_cell_on hC hvals J F R hc, List.getElem?_map, ← hv, ← assigns_eq (rawOf S j tbl st.subst).vshape, getElem_flat hc]
    simp only [Option.map_some]
    congr 1
    unfold specCell
    congr 1
    apply List.map_congr_left
    intro ι _
    exact (specProd_eq S j ι).symm


end ctx

end C07dL
