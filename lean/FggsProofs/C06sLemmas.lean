/-
Helper lemmas for Props/C06s.lean (`PatternedTensor.commutative`, model `Bn.commutative` of FggsModel/Binary.lean).

* `eqIEEE_eq`: IEEE equality of the model implies equality;
* `shortcut_list`: on flat lists — combining only at the positions `bs`, where every position outside `bs` holds the
  right identity in the second list, is the cell-by-cell operation;
* `dense_off_cells`: a position of the dense tensor that is not the flat position of a cell holds the default;
* `layout_off_backs`: the same for the laid-out operand of `expansion` and the model's `backs` list.
-/
import FggsModel.Binary
import FggsProofs.C06dBaseLemmas
import FggsProofs.C06dSideLemmas
import Mathlib.Data.List.Basic

set_option linter.unusedSimpArgs false
set_option linter.unusedVariables false

namespace C06sL
open Fggs Fggs.Ax Fggs.Un Fggs.Bn C06b C06cL C06dL

theorem eqIEEE_eq {a b : Ext} (h : Ext.eqIEEE a b = true) : a = b := by
  cases a <;> cases b <;> simp [Ext.eqIEEE] at h ⊢
  exact h

/-- the sparsity shortcut on flat lists -/
theorem shortcut_list (op : Ext → Ext → Ext) (identity : Ext) (hr : ∀ x, op x identity = x) (a b : List Ext)
    (d : Ext) (bs : List Nat) (hlen : a.length = b.length)
    (hun : ∀ k, k < b.length → bs.contains k = false → b[k]? = some identity) :
    a.zipIdx.map (fun (p : Ext × Nat) => if bs.contains p.2 then op p.1 (b[p.2]?.getD d) else p.1) =
      List.zipWith op a b := by
  apply List.ext_getElem?
  intro k
  rw [List.getElem?_map, List.getElem?_zipIdx, List.getElem?_zipWith]
  by_cases hk : k < a.length
  · have hkb : k < b.length := by omega
    rw [List.getElem?_eq_getElem hk, List.getElem?_eq_getElem hkb]
    simp only [Option.map_some, Nat.zero_add, Option.getD_some]
    cases hc : bs.contains k with
    | true => simp [List.getElem?_eq_getElem hkb]
    | false =>
      have := hun k hkb hc
      rw [List.getElem?_eq_getElem hkb] at this
      simp only [Option.some.injEq] at this
      simp [this, hr]
  · have hkb : ¬ k < b.length := by omega
    rw [List.getElem?_eq_none (by omega), List.getElem?_eq_none (by omega)]
    simp

/-- the keys of the cells depend on the pattern only -/
theorem keys_congr (T T0 : PT) (hp : T0.paxes = T.paxes) (hv : T0.vaxes = T.vaxes) : keys T0 = keys T := by
  rw [keys_eq, keys_eq, hp, hv]

/-- a position that is not the flat position of a cell holds the default -/
theorem dense_off_cells {T : PT} (hs : Sem T) (T0 : PT) (hp : T0.paxes = T.paxes) (hv : T0.vaxes = T.vaxes)
    (shape : List Nat) (hsh : T.vshape = shape) {k : Nat} (hk : k < numel shape)
    (hn : (T0.cells.map (fun c => flat shape c.1)).contains k = false) : T.dense[k]? = some T.default := by
  subst hsh
  have hk' : k < (assigns T.vshape).length := by rw [length_assigns]; exact hk
  have hc : (assigns T.vshape)[k] ∈ assigns T.vshape := List.getElem_mem hk'
  have hf : flat T.vshape (assigns T.vshape)[k] = k := flat_getElem hk'
  have h0 := dense_cell_keys T hs.keys_nodup hs.keys_range _ hc
  rw [hf] at h0
  rw [h0]
  congr 1
  apply valueAt_of_not_mem
  intro hmem
  rw [← keys_congr T T0 hp hv] at hmem
  unfold keys at hmem
  obtain ⟨c, hc1, hc2⟩ := List.mem_map.1 hmem
  have : k ∈ T0.cells.map (fun c => flat T.vshape c.1) := by
    rw [← hf, ← hc2]
    exact List.mem_map.2 ⟨c, hc1, rfl⟩
  have hcon : (T0.cells.map (fun c => flat T.vshape c.1)).contains k = true := by
    rw [List.contains_iff_mem]; exact this
  rw [hn] at hcon
  cases hcon

section side
variable {t : PT} {P : List Pair} {sel : Axis × Axis → Axis} {lggs : List Axis} {nw : List (Nat × Nat)}

theorem length_layout (h : SideOK t P sel lggs nw) :
    (layout t (nw ++ t.paxes) (P.map (fun x => sel x.1))).length = numel ((gsOf P).map (·.2)) := by
  rw [layout_eq h, length_dense, auxT_vshape h]

/-- **a position the laid-out operand does not back holds the operand's default** -/
theorem layout_off_backs (h : SideOK t P sel lggs nw) (d0 : Ext) {k : Nat}
    (hk : k < (layout t (nw ++ t.paxes) (P.map (fun x => sel x.1))).length)
    (hn : ((PT.mk (expandFront t.physical ((nw ++ t.paxes).take ((nw ++ t.paxes).length - t.paxes.length)))
        (nw ++ t.paxes) (P.map (fun x => sel x.1)) d0).cells.map
          (fun c => flat ((gsOf P).map (·.2)) c.1)).contains k = false) :
    (layout t (nw ++ t.paxes) (P.map (fun x => sel x.1)))[k]? = some t.default := by
  rw [length_layout h] at hk
  rw [layout_eq h]
  exact dense_off_cells (aux_sem h) (PT.mk _ (nw ++ t.paxes) (P.map (fun x => sel x.1)) d0) rfl rfl _ (auxT_vshape h) hk hn

end side

end C06sL
