/-
Helper lemmas for Props/C06l.lean, part 1:
* renaming of physical axes (`Ps.renameAxis`): size, value, free axes;
* the fresh names `next + i` given to the axes of a duplicate-free list (`renOf`);
* `Bn.normalize` is the identity on a tensor without physical axes of size 1;
* the re-patterning lemma `repattern_dense`: a tensor whose physical tensor is the dense tensor of a re-patterning of `T`
  denotes the same tensor as `T` if the two patterns correspond.
-/
import FggsModel.Iter
import FggsProofs.C06dBaseLemmas
import FggsProofs.C06dSideLemmas
import FggsProofs.C07bAlgLemmas
import Mathlib.Tactic.Linarith
import Mathlib.Data.List.Basic
import Mathlib.Data.List.Nodup

set_option linter.unusedSimpArgs false
set_option linter.unusedVariables false

namespace C06lL
open Fggs Fggs.Ax Fggs.Un Fggs.Sh Fggs.It C06b C06dL

/-! ### renaming -/

/-- the renaming function of an association list -/
def rn (ren : List (Nat × Nat)) (v : Nat) : Nat := (ren.lookup v).getD v

mutual
theorem numel_rename (ren : List (Nat × Nat)) : ∀ (e : Axis), (Ps.renameAxis ren e).numel = e.numel
  | .phys v n => by simp [Ps.renameAxis, Axis.numel]
  | .prod fs => by simp only [Ps.renameAxis, Axis.numel]; exact numelList_rename ren fs
  | .sum b t a => by simp only [Ps.renameAxis, Axis.numel]; rw [numel_rename ren t]
theorem numelList_rename (ren : List (Nat × Nat)) : ∀ (fs : List Axis), numelList (Ps.renameList ren fs) = numelList fs
  | [] => by simp [Ps.renameList, numelList]
  | f :: fs => by simp only [Ps.renameList, numelList]; rw [numel_rename ren f, numelList_rename ren fs]
end

mutual
theorem eval_rename (ren : List (Nat × Nat)) (γ : Nat → Nat) : ∀ (e : Axis),
    (Ps.renameAxis ren e).eval γ = e.eval (fun v => γ (rn ren v))
  | .phys v n => by simp [Ps.renameAxis, Axis.eval, rn]
  | .prod fs => by simp only [Ps.renameAxis, Axis.eval]; exact evalList_rename ren γ fs 0
  | .sum b t a => by simp only [Ps.renameAxis, Axis.eval]; rw [eval_rename ren γ t]
theorem evalList_rename (ren : List (Nat × Nat)) (γ : Nat → Nat) : ∀ (fs : List Axis) (acc : Nat),
    evalList γ (Ps.renameList ren fs) acc = evalList (fun v => γ (rn ren v)) fs acc
  | [], acc => by simp [Ps.renameList, evalList]
  | f :: fs, acc => by
    simp only [Ps.renameList, evalList]
    rw [numel_rename ren f, eval_rename ren γ f, evalList_rename ren γ fs]
end

mutual
theorem fv_rename (ren : List (Nat × Nat)) : ∀ (e : Axis),
    (Ps.renameAxis ren e).fv = e.fv.map (fun q => (rn ren q.1, q.2))
  | .phys v n => by simp [Ps.renameAxis, Axis.fv, rn]
  | .prod fs => by simp only [Ps.renameAxis, Axis.fv]; exact fvList_rename ren fs
  | .sum b t a => by simp only [Ps.renameAxis, Axis.fv]; rw [fv_rename ren t]
theorem fvList_rename (ren : List (Nat × Nat)) : ∀ (fs : List Axis),
    fvList (Ps.renameList ren fs) = (fvList fs).map (fun q => (rn ren q.1, q.2))
  | [] => by simp [Ps.renameList, fvList]
  | f :: fs => by
    simp only [Ps.renameList, fvList, List.map_append]
    rw [fv_rename ren f, fvList_rename ren fs]
end

theorem renameList_eq_map (ren : List (Nat × Nat)) : ∀ (fs : List Axis),
    Ps.renameList ren fs = fs.map (Ps.renameAxis ren)
  | [] => rfl
  | f :: fs => by rw [Ps.renameList, renameList_eq_map ren fs, List.map_cons]

/-! ### fresh names for a list of physical axes -/

/-- the association list `identity ↦ next + position` -/
def renOf (fv : List (Nat × Nat)) (next : Nat) : List (Nat × Nat) :=
  fv.zipIdx.map (fun (p : (Nat × Nat) × Nat) => (p.1.1, next + p.2))

theorem lookup_zipIdx (next : Nat) : ∀ (l : List (Nat × Nat)) (k : Nat), (l.map (·.1)).Nodup → ∀ (i : Nat) (q : Nat × Nat),
    l[i]? = some q →
    ((l.zipIdx k).map (fun (p : (Nat × Nat) × Nat) => (p.1.1, next + p.2))).lookup q.1 = some (next + (k + i))
  | [], _, _, i, q, h => by simp at h
  | x :: l, k, hn, i, q, h => by
    rw [List.map_cons, List.nodup_cons] at hn
    rw [List.zipIdx_cons, List.map_cons, List.lookup_cons]
    cases i with
    | zero =>
      simp only [List.getElem?_cons_zero, Option.some.injEq] at h
      subst h
      simp
    | succ i =>
      simp only [List.getElem?_cons_succ] at h
      have hq : q ∈ l := List.mem_of_getElem? h
      have hne : (q.1 == x.1) = false := by
        simp only [beq_eq_false_iff_ne, ne_eq]
        intro e
        exact hn.1 (e ▸ List.mem_map_of_mem (f := (·.1)) hq)
      rw [hne]
      simp only
      rw [lookup_zipIdx next l (k + 1) hn.2 i q h]
      congr 1; omega

theorem rn_renOf {fv : List (Nat × Nat)} (hn : (fv.map (·.1)).Nodup) (next : Nat) {i : Nat} {q : Nat × Nat}
    (h : fv[i]? = some q) : rn (renOf fv next) q.1 = next + i := by
  unfold rn renOf
  rw [lookup_zipIdx next fv 0 hn i q h]
  simp

theorem rn_renOf_mem {fv : List (Nat × Nat)} (hn : (fv.map (·.1)).Nodup) (next : Nat) {q : Nat × Nat} (hq : q ∈ fv) :
    ∃ i, i < fv.length ∧ fv[i]? = some q ∧ rn (renOf fv next) q.1 = next + i := by
  obtain ⟨i, hi, rfl⟩ := List.mem_iff_getElem.1 hq
  exact ⟨i, hi, List.getElem?_eq_getElem hi, rn_renOf hn next (List.getElem?_eq_getElem hi)⟩

theorem rn_renOf_inj {fv : List (Nat × Nat)} (hn : (fv.map (·.1)).Nodup) (next : Nat) {q q' : Nat × Nat} (hq : q ∈ fv)
    (hq' : q' ∈ fv) (e : rn (renOf fv next) q.1 = rn (renOf fv next) q'.1) : q = q' := by
  obtain ⟨i, hi, h1, h2⟩ := rn_renOf_mem hn next hq
  obtain ⟨j, hj, h3, h4⟩ := rn_renOf_mem hn next hq'
  have : i = j := by omega
  subst this
  rw [h1] at h3
  exact Option.some.inj h3

/-- the renamed axes -/
def fresh (fv : List (Nat × Nat)) (next : Nat) : List (Nat × Nat) :=
  fv.map (fun k => (rn (renOf fv next) k.1, k.2))

theorem fresh_nodup {fv : List (Nat × Nat)} (hn : (fv.map (·.1)).Nodup) (next : Nat) :
    ((fresh fv next).map (·.1)).Nodup := by
  unfold fresh
  rw [List.map_map]
  refine List.Nodup.map_on ?_ (List.Nodup.of_map _ hn)
  intro x hx y hy e
  exact rn_renOf_inj hn next hx hy e

theorem fresh_lt {fv : List (Nat × Nat)} (hn : (fv.map (·.1)).Nodup) (next : Nat) :
    ∀ p ∈ fresh fv next, next ≤ p.1 ∧ p.1 < next + fv.length := by
  intro p hp
  obtain ⟨q, hq, rfl⟩ := List.mem_map.1 hp
  obtain ⟨i, hi, -, h2⟩ := rn_renOf_mem hn next hq
  simp only [h2]
  omega

theorem fresh_sizes (fv : List (Nat × Nat)) (next : Nat) : (fresh fv next).map (·.2) = fv.map (·.2) := by
  unfold fresh; rw [List.map_map]; rfl

theorem pidx_fresh (fv : List (Nat × Nat)) (next : Nat) (γ : Nat → Nat) :
    pidx (fresh fv next) γ = fv.map (fun q => γ (rn (renOf fv next) q.1)) := by
  unfold pidx fresh; rw [List.map_map]; rfl

/-! ### `normalize` -/

theorem normalize_id (T : PT) (h : ∀ p ∈ T.paxes, p.2 ≠ 1) : Bn.normalize T = T := by
  unfold Bn.normalize
  have : T.paxes.filter (fun p => p.2 == 1) = [] := by
    rw [List.filter_eq_nil_iff]
    intro p hp
    simpa using h p hp
  simp [this]

/-! ### re-patterning -/

/-- `R` holds, as its physical tensor, the dense tensor of `T.physical` patterned by `es` over `T.paxes`
(`D`); `dix γ` is the index tuple of `D.dense` that the assignment `γ` of `R`'s physical axes selects.
If the patterns correspond (`fwd`, `bwd`), `R` denotes the same tensor as `T`. -/
theorem repattern_dense (T R : PT) (es : List Axis) (dix : (Nat → Nat) → List Nat)
    (hT : Sem T) (hR : Sem R)
    (hD : Sem (PT.mk T.physical T.paxes es T.default))
    (hphys : R.physical = (PT.mk T.physical T.paxes es T.default).dense)
    (hdef : R.default = T.default) (hshape : R.vshape = T.vshape)
    (hdix : ∀ γ, (∀ p ∈ R.paxes, γ p.1 < p.2) →
      dix γ ∈ assigns (es.map Axis.numel) ∧
      flat (es.map Axis.numel) (dix γ) = flat (R.paxes.map (·.2)) (pidx R.paxes γ))
    (fwd : ∀ ρ, (∀ p ∈ T.paxes, ρ p.1 < p.2) → ∃ γ, (∀ p ∈ R.paxes, γ p.1 < p.2) ∧
      R.vaxes.map (Axis.eval γ) = T.vaxes.map (Axis.eval ρ) ∧ es.map (Axis.eval ρ) = dix γ)
    (bwd : ∀ γ ρ, (∀ p ∈ R.paxes, γ p.1 < p.2) → (∀ p ∈ T.paxes, ρ p.1 < p.2) → es.map (Axis.eval ρ) = dix γ →
      T.vaxes.map (Axis.eval ρ) = R.vaxes.map (Axis.eval γ)) :
    R.dense = T.dense := by
  set D : PT := PT.mk T.physical T.paxes es T.default with hDdef
  have hDv : D.vshape = es.map Axis.numel := rfl
  apply list_ext_flat T.vshape
  · rw [length_dense, hshape]
  · rw [length_dense]
  intro c hc
  -- the value of `R` at a cell backed by `γ`
  have hRb : ∀ γ, Backs R c γ → R.dense[flat T.vshape c]? = some (D.dense[flat D.vshape (dix γ)]?.getD T.default) := by
    intro γ hb
    have := dense_backed hR hb
    rw [hshape] at this
    rw [this, hphys, hdef, hDv, (hdix γ hb.1).2]
  by_cases hex : ∃ ρ, Backs T c ρ
  · obtain ⟨ρ, hb⟩ := hex
    obtain ⟨γ, hγ, h1, h2⟩ := fwd ρ hb.1
    have hbR : Backs R c γ := ⟨hγ, h1.trans hb.2⟩
    have hbD : Backs D (dix γ) ρ := ⟨hb.1, h2⟩
    rw [hRb γ hbR, dense_backed hD hbD, dense_backed hT hb]
    rfl
  · have hnT : ∀ ρ, ¬ Backs T c ρ := fun ρ hb => hex ⟨ρ, hb⟩
    rw [dense_unbacked hT hc hnT]
    by_cases hexR : ∃ γ, Backs R c γ
    · obtain ⟨γ, hb⟩ := hexR
      rw [hRb γ hb]
      have hnD : ∀ ρ, ¬ Backs D (dix γ) ρ := by
        intro ρ hbD
        exact hnT ρ ⟨hbD.1, (bwd γ ρ hb.1 hbD.1 hbD.2).trans hb.2⟩
      rw [dense_unbacked hD (by rw [hDv]; exact (hdix γ hb.1).1) hnD]
      rfl
    · have := dense_unbacked hR (by rw [hshape]; exact hc) (fun γ hb => hexR ⟨γ, hb⟩)
      rw [hshape] at this
      rw [this, hdef]

end C06lL
