/-
Helper lemmas for Props/C06l.lean, part 3: `dimToDense` in terms of `rawT`; the slices `iter` yields.
-/
import FggsProofs.C06lDenseLemmas

set_option linter.unusedSimpArgs false
set_option linter.unusedVariables false

namespace C06lL
open Fggs Fggs.Ax Fggs.Un Fggs.Sh Fggs.It C06b C06dL

/-- axis `dim` is dense and independent of the other axes -/
def DenseAt (r : PT) (dim : Nat) : Prop :=
  ∃ e, r.vaxes[dim]? = some e ∧ (isUnit e = true ∨
    ∃ v n, e = Axis.phys v n ∧ ∀ j e', j ≠ dim → r.vaxes[j]? = some e' → ∀ q ∈ e'.fv, q.1 ≠ v)

theorem split_at {α : Type} (l : List α) (dim : Nat) (hd : dim < l.length) :
    l = l.take dim ++ [l[dim]] ++ l.drop (dim + 1) := by
  simp

theorem mem_of_getElem?_ne {α : Type} (A B : List α) (x : α) (j : Nat) (e : α) (hj : j ≠ A.length)
    (h : (A ++ [x] ++ B)[j]? = some e) : e ∈ A ++ B := by
  rw [List.append_assoc] at h
  by_cases hlt : j < A.length
  · rw [List.getElem?_append_left hlt] at h
    exact List.mem_append_left _ (List.mem_of_getElem? h)
  · rw [List.getElem?_append_right (by omega)] at h
    obtain ⟨k, hk⟩ : ∃ k, j - A.length = k + 1 := ⟨j - A.length - 1, by omega⟩
    rw [hk, List.singleton_append, List.getElem?_cons_succ] at h
    exact List.mem_append_right _ (List.mem_of_getElem? h)

theorem ite_some_spec {c : Prop} [Decidable c] {a : PT} {X : Option PT} {P : PT → Prop} (h1 : c → P a)
    (h2 : ¬ c → ∃ r, X = some r ∧ P r) : ∃ r, (if c then some a else X) = some r ∧ P r := by
  by_cases hc : c
  · rw [if_pos hc]; exact ⟨a, rfl, h1 hc⟩
  · rw [if_neg hc]; exact h2 hc

theorem norm_raw_eq {t : PT} {A B : List Axis} {ed ins : Axis} {extra : List (Nat × Nat)} {next dim : Nat}
    (hs : Struct t) (hv : t.vaxes = A ++ [ed] ++ B)
    (hi : InsOK (next + (Ps.firstOcc (A ++ B)).length) ed ins extra) (hAl : A.length = dim)
    (paxes : List (Nat × Nat)) (hp : paxes = fresh (Ps.firstOcc (A ++ B)) next ++ extra) :
    Bn.normalize { physical := (reT t (Ps.firstOcc (A ++ B)) ed).dense, paxes := paxes,
                   vaxes := (Ps.renameList (renOf (Ps.firstOcc (A ++ B)) next) (A ++ B)).take dim ++ [ins] ++
                     (Ps.renameList (renOf (Ps.firstOcc (A ++ B)) next) (A ++ B)).drop dim,
                   default := t.default } = rawT t A B ed ins extra next := by
  subst hp
  have hAl' : (A.map (Ps.renameAxis (renOf (Ps.firstOcc (A ++ B)) next))).length = dim := by simpa using hAl
  rw [renameList_eq_map, List.map_append, List.take_left' hAl', List.drop_left' hAl']
  exact normalize_id (rawT t A B ed ins extra next) (rawT_struct hs hv hi).no1

theorem rawT_denseAt {t : PT} {A B : List Axis} {ed ins : Axis} {extra : List (Nat × Nat)} {next dim : Nat}
    (hs : Struct t) (hv : t.vaxes = A ++ [ed] ++ B) (hAl : A.length = dim)
    (hins : isUnit ins = true ∨ ins = .phys (next + (Ps.firstOcc (A ++ B)).length) ed.numel) :
    DenseAt (rawT t A B ed ins extra next) dim := by
  have hAl' : (A.map (Ps.renameAxis (renOf (Ps.firstOcc (A ++ B)) next))).length = dim := by simpa using hAl
  refine ⟨ins, ?_, ?_⟩
  · show (_ ++ [ins] ++ _)[dim]? = some ins
    rw [List.append_assoc, List.getElem?_append_right (by omega), hAl']
    simp
  · rcases hins with h | h
    · exact Or.inl h
    · refine Or.inr ⟨_, _, h, ?_⟩
      intro j e' hj he' q hq
      have hlt := rawT_others_lt (next := next) hs hv e' ?_ q hq
      · omega
      · exact mem_of_getElem?_ne _ _ ins j e' (by omega) he'

theorem dimToDense_spec (t : PT) (hs : Struct t) (dim : Nat) (hd : dim < t.vaxes.length) (next : Nat)
    (hn : ∀ p ∈ t.paxes, p.1 < next) :
    ∃ r, dimToDense t dim next = some r ∧ Struct r ∧ r.vshape = t.vshape ∧ r.dense = t.dense ∧
      r.default = t.default ∧ DenseAt r dim ∧ (∀ p ∈ r.paxes, p.1 < next + t.paxes.length + 1) := by
  have hed : t.vaxes[dim]? = some t.vaxes[dim] := List.getElem?_eq_getElem hd
  have hv := split_at t.vaxes dim hd
  have hoth : t.vaxes.eraseIdx dim = t.vaxes.take dim ++ t.vaxes.drop (dim + 1) :=
    List.eraseIdx_eq_take_drop_succ _ _
  have hAl : (t.vaxes.take dim).length = dim := by rw [List.length_take]; omega
  generalize t.vaxes[dim] = ed at hed hv
  generalize t.vaxes.take dim = A at hv hoth hAl
  generalize t.vaxes.drop (dim + 1) = B at hv hoth
  unfold dimToDense
  rw [hed]
  simp only [hoth]
  have hraw : ∀ (ins : Axis) (extra : List (Nat × Nat)),
      InsOK (next + (Ps.firstOcc (A ++ B)).length) ed ins extra →
      (isUnit ins = true ∨ ins = .phys (next + (Ps.firstOcc (A ++ B)).length) ed.numel) →
      (fun r : PT => Struct r ∧ r.vshape = t.vshape ∧ r.dense = t.dense ∧
        r.default = t.default ∧ DenseAt r dim ∧ (∀ p ∈ r.paxes, p.1 < next + t.paxes.length + 1))
        (rawT t A B ed ins extra next) := fun ins extra hi hins =>
    ⟨rawT_struct hs hv hi, rawT_vshape hv hi, rawT_dense hs hv hi, rfl, rawT_denseAt hs hv hAl hins,
      rawT_paxes_lt hs hv hi⟩
  refine ite_some_spec ?_ ?_
  · intro hc
    refine ⟨hs, rfl, rfl, rfl, ⟨ed, hed, ?_⟩, fun p hp => by have := hn p hp; omega⟩
    rw [Bool.or_eq_true] at hc
    rcases hc with hc | hc
    · exact Or.inl hc
    · right
      cases ed with
      | phys v n =>
        refine ⟨v, n, rfl, ?_⟩
        intro j e' hj he' q hq hqv
        rw [hv] at he'
        have hmem := mem_of_getElem?_ne A B _ j e' (by omega) he'
        have hq' : q ∈ Ps.firstOcc (A ++ B) := mem_firstOcc.2 ⟨e', hmem, hq⟩
        simp only [Bool.not_eq_true', List.any_eq_false, beq_iff_eq] at hc
        exact hc q hq' hqv
      | prod fs => simp at hc
      | sum b x a => simp at hc
  · intro _
    by_cases h1 : ed.numel = 1
    · rw [if_pos (by simpa using h1)]
      have hi := insOK_unit (next + (Ps.firstOcc (A ++ B)).length) ed h1
      exact ⟨_, congrArg some (norm_raw_eq hs hv hi hAl _ (List.append_nil _).symm), hraw _ _ hi (Or.inl rfl)⟩
    · rw [if_neg (by simpa using h1)]
      have hi := insOK_phys (next + (Ps.firstOcc (A ++ B)).length) ed h1
      exact ⟨_, congrArg some (norm_raw_eq hs hv hi hAl _ rfl), hraw _ _ hi (Or.inr rfl)⟩

/-! ### slices along a dense physical axis -/

/-- the `j`-th slice of `d` along the physical axis at position `i`, with virtual axes `rest` -/
def sliceT (d : PT) (rest : List Axis) (i j : Nat) : PT :=
  { physical := (Ax.assigns ((d.paxes.eraseIdx i).map (·.2))).map (fun idx =>
      d.physical[Ax.flat (d.paxes.map (·.2)) (idx.take i ++ [j] ++ idx.drop i)]?.getD d.default),
    paxes := d.paxes.eraseIdx i, vaxes := rest, default := d.default }

section
variable {d : PT} {v n : Nat} {rest : List Axis} {P Q : List (Nat × Nat)}

theorem eraseIdx_mid (hp : d.paxes = P ++ [(v, n)] ++ Q) : d.paxes.eraseIdx P.length = P ++ Q := by
  rw [hp, List.append_assoc, List.eraseIdx_append_of_length_le (Nat.le_refl _)]
  simp

theorem v_not_mem (hs : Struct d) (hp : d.paxes = P ++ [(v, n)] ++ Q) : ∀ p ∈ P ++ Q, p.1 ≠ v := by
  have hn := hs.nodup
  rw [hp] at hn
  simp only [List.map_append, List.map_cons, List.map_nil] at hn
  intro p hpq e
  have hm : v ∈ P.map (·.1) ++ Q.map (·.1) := by
    rw [← List.map_append, ← e]; exact List.mem_map_of_mem (f := (·.1)) hpq
  rw [List.append_assoc, List.nodup_append] at hn
  obtain ⟨_, h2, h3⟩ := hn
  rcases List.mem_append.1 hm with h | h
  · exact h3 v h v (by simp) rfl
  · simp only [List.singleton_append, List.nodup_cons] at h2
    exact h2.1 h

theorem mem_paxes_iff (hp : d.paxes = P ++ [(v, n)] ++ Q) (p : Nat × Nat) :
    p ∈ d.paxes ↔ p = (v, n) ∨ p ∈ P ++ Q := by
  rw [hp]; simp only [List.mem_append, List.mem_singleton]; tauto

theorem sliceT_struct (hs : Struct d) (hv : d.vaxes = .phys v n :: rest)
    (hind : ∀ e' ∈ rest, ∀ q ∈ e'.fv, q.1 ≠ v) (hp : d.paxes = P ++ [(v, n)] ++ Q) (j : Nat) :
    Struct (sliceT d rest P.length j) := by
  have hvn := v_not_mem hs hp
  refine ⟨?_, ?_, ?_, ?_, ?_⟩
  · simp [sliceT, length_assigns]
  · show ((d.paxes.eraseIdx P.length).map (·.1)).Nodup
    exact hs.nodup.sublist ((List.eraseIdx_sublist _ _).map _)
  · intro p hp'
    exact hs.no1 p (List.mem_of_mem_eraseIdx hp')
  · intro e he q hq
    show q ∈ d.paxes.eraseIdx P.length
    rw [eraseIdx_mid hp]
    have hq' := hs.fvsub e (by rw [hv]; exact List.mem_cons_of_mem _ he) q hq
    rcases (mem_paxes_iff hp q).1 hq' with h | h
    · exact absurd (by rw [h]) (hind e he q hq)
    · exact h
  · intro p hp'
    have hp'' : p ∈ P ++ Q := by rw [← eraseIdx_mid hp]; exact hp'
    obtain ⟨e, he, hpe⟩ := hs.occ p ((mem_paxes_iff hp p).2 (Or.inr hp''))
    rw [hv] at he
    rcases List.mem_cons.1 he with rfl | he
    · simp only [Axis.fv, List.mem_singleton] at hpe
      exact absurd (by rw [hpe]) (hvn p hp'')
    · exact ⟨e, he, hpe⟩

theorem take_append_length {α : Type} (a b : List α) : (a ++ b).take a.length = a := by simp
theorem drop_append_length {α : Type} (a b : List α) : (a ++ b).drop a.length = b := by simp

theorem sliceT_cell (hs : Struct d) (hv : d.vaxes = .phys v n :: rest)
    (hind : ∀ e' ∈ rest, ∀ q ∈ e'.fv, q.1 ≠ v) (hp : d.paxes = P ++ [(v, n)] ++ Q) (j : Nat) (hj : j < n)
    (c : List Nat) (hc : c ∈ assigns (rest.map Axis.numel)) :
    (sliceT d rest P.length j).dense[flat (sliceT d rest P.length j).vshape c]? =
      d.dense[flat d.vshape (j :: c)]? := by
  have hS := (sliceT_struct hs hv hind hp j).sem
  have hvn := v_not_mem hs hp
  have hpx : (sliceT d rest P.length j).paxes = P ++ Q := eraseIdx_mid hp
  have hdv : d.vshape = n :: rest.map Axis.numel := by unfold PT.vshape; rw [hv]; rfl
  have hcong : ∀ (ρ : Nat → Nat) (r : Nat), rest.map (Axis.eval (ext ρ v r)) = rest.map (Axis.eval ρ) := by
    intro ρ r
    apply List.map_congr_left
    intro e he
    apply eval_congr
    intro q hq
    simp [ext, hind e he q hq]
  by_cases hex : ∃ ρ, Backs (sliceT d rest P.length j) c ρ
  · obtain ⟨ρ, hb⟩ := hex
    have hb1 : ∀ p ∈ P ++ Q, ρ p.1 < p.2 := fun p hp' => hb.1 p (by rw [hpx]; exact hp')
    have hb' : Backs d (j :: c) (ext ρ v j) := by
      constructor
      · intro p hp'
        rcases (mem_paxes_iff hp p).1 hp' with rfl | h
        · simpa [ext] using hj
        · have := hvn p h
          simp only [ext, this, if_false]
          exact hb1 p h
      · rw [hv, List.map_cons, hcong]
        congr 1
        · simp [Axis.eval, ext]
        · exact hb.2
    rw [dense_backed hS hb, dense_backed hs.sem hb']
    congr 1
    have hidx : pidx (P ++ Q) ρ ∈ assigns ((P ++ Q).map (·.2)) := pidx_mem_assigns ρ _ hb1
    have hph : (sliceT d rest P.length j).physical[flat ((P ++ Q).map (·.2)) (pidx (P ++ Q) ρ)]? =
        some (d.physical[flat (d.paxes.map (·.2))
          ((pidx (P ++ Q) ρ).take P.length ++ [j] ++ (pidx (P ++ Q) ρ).drop P.length)]?.getD d.default) := by
      show (List.map _ (assigns ((d.paxes.eraseIdx P.length).map (·.2))))[_]? = _
      rw [eraseIdx_mid hp, List.getElem?_map, getElem_flat hidx]
      rfl
    rw [hpx, hph]
    simp only [Option.getD_some]
    have e1 : (pidx (P ++ Q) ρ).take P.length = pidx P ρ := by
      rw [pidx_append]
      have : P.length = (pidx P ρ).length := by simp [pidx]
      rw [this, take_append_length]
    have e2 : (pidx (P ++ Q) ρ).drop P.length = pidx Q ρ := by
      rw [pidx_append]
      have : P.length = (pidx P ρ).length := by simp [pidx]
      rw [this, drop_append_length]
    have e3 : pidx d.paxes (ext ρ v j) = pidx P ρ ++ [j] ++ pidx Q ρ := by
      rw [hp, pidx_append, pidx_append]
      congr 1
      · congr 1
        · apply pidx_congr
          intro p hp'
          simp [ext, hvn p (List.mem_append_left _ hp')]
        · simp [pidx, ext]
      · apply pidx_congr
        intro p hp'
        simp [ext, hvn p (List.mem_append_right _ hp')]
    rw [e1, e2, e3]
  · have hnS : ∀ ρ, ¬ Backs (sliceT d rest P.length j) c ρ := fun ρ hb => hex ⟨ρ, hb⟩
    have hnD : ∀ ρ, ¬ Backs d (j :: c) ρ := by
      intro ρ hb
      apply hnS ρ
      constructor
      · intro p hp'
        rw [hpx] at hp'
        exact hb.1 p ((mem_paxes_iff hp p).2 (Or.inr hp'))
      · have := hb.2
        rw [hv, List.map_cons] at this
        exact (List.cons.inj this).2
    rw [dense_unbacked hS hc hnS, dense_unbacked hs.sem ?_ hnD]
    · rfl
    · rw [hdv, mem_assigns_iff]
      exact List.Forall₂.cons hj ((mem_assigns_iff _ _).1 hc)

end

theorem iter_spec (t : PT) (hs : Struct t) (hnd : 0 < t.vaxes.length) (next : Nat) (hn : ∀ p ∈ t.paxes, p.1 < next) :
    ∃ ts, iter t next = some ts ∧ ts.length = t.vshape.headD 0 ∧
      ∀ j s, ts[j]? = some s → Struct s ∧ s.vshape = t.vshape.tail ∧
        (∀ p ∈ s.paxes, p.1 < next + t.paxes.length + 1) ∧
        ∀ rest ∈ assigns s.vshape, s.dense[flat s.vshape rest]? = t.dense[flat t.vshape (j :: rest)]? := by
  obtain ⟨d, hdd, hds, hdsh, hdde, hddf, ⟨e, he, hda⟩, hdp⟩ := dimToDense_spec t hs 0 hnd next hn
  unfold iter
  rw [hdd]
  simp only
  obtain ⟨rest, hdv⟩ : ∃ rest, d.vaxes = e :: rest := by
    cases hv : d.vaxes with
    | nil => rw [hv] at he; simp at he
    | cons a l => rw [hv] at he; simp at he; exact ⟨l, by rw [he]⟩
  rw [← hdsh, ← hdde]
  have hdvs : d.vshape = e.numel :: rest.map Axis.numel := by unfold PT.vshape; rw [hdv]; rfl
  rw [hdv]
  rcases hda with hu | ⟨v, n, rfl, hind⟩
  · have heu : e = unitAxis := by
      cases e with
      | prod fs => cases fs with
        | nil => rfl
        | cons _ _ => simp [isUnit] at hu
      | phys _ _ => simp [isUnit] at hu
      | sum _ _ _ => simp [isUnit] at hu
    subst heu
    refine ⟨[{ d with vaxes := rest }], rfl, ?_, ?_⟩
    · rw [hdvs]; rfl
    · intro j s hjs
      cases j with
      | succ j => simp at hjs
      | zero =>
        simp only [List.getElem?_cons_zero, Option.some.injEq] at hjs
        subst hjs
        have hun : PT.unsqueeze { d with vaxes := rest } 0 = d := by
          cases d; simp only [PT.unsqueeze] at *; simp [hdv]
        refine ⟨⟨hds.len, hds.nodup, hds.no1, ?_, ?_⟩, ?_, hdp, ?_⟩
        · intro e' he' q hq
          exact hds.fvsub e' (by rw [hdv]; exact List.mem_cons_of_mem _ he') q hq
        · intro p hp
          obtain ⟨e', he', hpe⟩ := hds.occ p hp
          rw [hdv] at he'
          rcases List.mem_cons.1 he' with rfl | he'
          · simp [unitAxis_fv] at hpe
          · exact ⟨e', he', hpe⟩
        · rw [hdvs]; rfl
        · intro c hc
          rw [← hun, C06.dense_unsqueeze', hun, hdvs]
          show _ = _[Ax.flat (_ :: PT.vshape { d with vaxes := rest }) (0 :: c)]?
          simp [Ax.flat]
  · dsimp only
    have hind' : ∀ e' ∈ rest, ∀ q ∈ e'.fv, q.1 ≠ v := by
      intro e' he' q hq
      obtain ⟨k, hk, rfl⟩ := List.mem_iff_getElem.1 he'
      exact hind (k + 1) _ (by omega) (by rw [hdv]; simp [hk]) q hq
    have hvn : (v, n) ∈ d.paxes := hds.fvsub (.phys v n) (by rw [hdv]; simp) (v, n) (by simp [Axis.fv])
    have hex : ∃ x ∈ d.paxes, (fun x : Nat × Nat => x.1 == v) x = true := ⟨(v, n), hvn, by simp⟩
    have hlt := List.findIdx_lt_length_of_exists hex
    have hget := List.findIdx_getElem (w := hlt)
    set i := List.findIdx (fun x : Nat × Nat => x.1 == v) d.paxes with hi
    have hpi : d.paxes[i] = (v, n) :=
      eq_of_mem_nodup_fst hds.nodup (List.getElem_mem hlt) hvn (by simpa using hget)
    have hp := split_at d.paxes i hlt
    rw [hpi] at hp
    have hPl : (d.paxes.take i).length = i := by rw [List.length_take]; omega
    generalize d.paxes.take i = P at hp hPl
    generalize d.paxes.drop (i + 1) = Q at hp
    clear_value i
    subst hPl
    refine ⟨(List.range n).map (fun j => Bn.normalize (sliceT d rest P.length j)), rfl, ?_, ?_⟩
    · rw [hdvs]; simp [Axis.numel]
    · intro j s hjs
      rw [List.getElem?_map] at hjs
      have hj : j < n := by
        by_contra h
        rw [List.getElem?_eq_none (by simpa using h)] at hjs
        simp at hjs
      rw [List.getElem?_range hj] at hjs
      simp only [Option.map_some, Option.some.injEq] at hjs
      have hst := sliceT_struct hds hdv hind' hp j
      rw [normalize_id _ hst.no1] at hjs
      subst hjs
      refine ⟨hst, ?_, ?_, ?_⟩
      · rw [hdvs]; rfl
      · intro p hp'
        exact hdp p (List.mem_of_mem_eraseIdx hp')
      · intro c hc
        exact sliceT_cell hds hdv hind' hp j hj c hc

/-! ### `tolist` -/

theorem mapM_some {α β : Type} (f : α → Option β) (g : α → β) : ∀ (l : List α), (∀ a ∈ l, f a = some (g a)) →
    l.mapM f = some (l.map g)
  | [], _ => rfl
  | a :: l, h => by
    rw [List.mapM_cons, h a (by simp), mapM_some f g l (fun b hb => h b (by simp [hb]))]
    rfl

theorem flatten_length_const {α : Type} (m : Nat) : ∀ (L : List (List α)), (∀ x ∈ L, x.length = m) →
    L.flatten.length = L.length * m
  | [], _ => by simp
  | x :: L, h => by
    rw [List.flatten_cons, List.length_append, h x (by simp),
      flatten_length_const m L (fun y hy => h y (by simp [hy])), List.length_cons]
    ring

theorem flatten_getElem? {α : Type} (m : Nat) : ∀ (L : List (List α)), (∀ x ∈ L, x.length = m) →
    ∀ (j r : Nat), r < m → L.flatten[j * m + r]? = (L[j]?).bind (·[r]?)
  | [], _, j, r, _ => by simp
  | x :: L, h, 0, r, hr => by
    have hx := h x (by simp)
    rw [List.flatten_cons, List.getElem?_append_left (by omega)]
    simp
  | x :: L, h, j + 1, r, hr => by
    have hx := h x (by simp)
    rw [List.flatten_cons, List.getElem?_append_right (by rw [hx, Nat.succ_mul]; omega), hx,
      show (j + 1) * m + r - m = j * m + r by rw [Nat.succ_mul]; omega,
      flatten_getElem? m L (fun y hy => h y (by simp [hy])) j r hr]
    simp

theorem dense_scalar (t : PT) (hs : Struct t) (hv : t.vaxes = []) : t.dense = [t.physical[0]?.getD t.default] := by
  have hp : t.paxes = [] := by
    cases hpx : t.paxes with
    | nil => rfl
    | cons p ps =>
      obtain ⟨e, he, _⟩ := hs.occ p (by rw [hpx]; simp)
      rw [hv] at he
      simp at he
  simp [PT.dense, PT.vshape, hv, hp, Ax.assigns, Ax.numel, Ax.flat]

theorem tolist_spec : ∀ (fuel : Nat) (t : PT), Struct t → t.vaxes.length < fuel → ∀ next : Nat,
    (∀ p ∈ t.paxes, p.1 < next) → tolist fuel t next = some t.dense
  | 0, t, _, hf, _, _ => by omega
  | fuel + 1, t, hs, hf, next, hn => by
    unfold tolist
    split
    · rename_i hv
      rw [dense_scalar t hs hv]
    · rfl
    · rename_i h1 h2
      have hnd : 0 < t.vaxes.length := by
        cases hv : t.vaxes with
        | nil => exact absurd hv h1
        | cons _ _ => simp
      obtain ⟨ts, hit, hlen, hall⟩ := iter_spec t hs hnd next hn
      rw [hit]
      simp only
      obtain ⟨n, vs, hsh⟩ : ∃ n vs, t.vshape = n :: vs := by
        unfold PT.vshape
        cases hv : t.vaxes with
        | nil => exact absurd hv h1
        | cons a l => exact ⟨_, _, rfl⟩
      rw [hsh] at hlen hall
      simp only [List.headD_cons, List.tail_cons] at hlen hall
      have hmem : ∀ s ∈ ts, ∃ j, j < n ∧ ts[j]? = some s := by
        intro s hs'
        obtain ⟨j, hj, rfl⟩ := List.mem_iff_getElem.1 hs'
        exact ⟨j, by omega, List.getElem?_eq_getElem hj⟩
      have hrec : ∀ s ∈ ts, tolist fuel s (next + t.paxes.length + 1) = some s.dense := by
        intro s hs'
        obtain ⟨j, _, hj⟩ := hmem s hs'
        obtain ⟨h1', h2', h3', _⟩ := hall j s hj
        refine tolist_spec fuel s h1' ?_ _ h3'
        have e1 : s.vaxes.length = vs.length := by rw [← h2']; simp [PT.vshape]
        have e2 : t.vaxes.length = vs.length + 1 := by
          have := congrArg List.length hsh
          simpa [PT.vshape] using this
        omega
      rw [mapM_some _ _ ts hrec]
      simp only [Option.map_some, Option.some.injEq]
      have hlens : ∀ x ∈ ts.map PT.dense, x.length = Ax.numel vs := by
        intro x hx
        obtain ⟨s, hs', rfl⟩ := List.mem_map.1 hx
        obtain ⟨j, _, hj⟩ := hmem s hs'
        rw [length_dense, (hall j s hj).2.1]
      apply list_ext_flat t.vshape
      · rw [flatten_length_const _ _ hlens, hsh, numel_cons, List.length_map, hlen]
      · exact length_dense t
      · intro c hc
        rw [hsh] at hc ⊢
        obtain ⟨j, hj, r, hr, rfl⟩ : ∃ j, j < n ∧ ∃ r, r ∈ assigns vs ∧ c = j :: r := by
          simp only [Ax.assigns, List.mem_flatMap, List.mem_range, List.mem_map] at hc
          obtain ⟨j, hj, r, hr, rfl⟩ := hc
          exact ⟨j, hj, r, hr, rfl⟩
        have hjs : j < ts.length := by omega
        obtain ⟨_, h2', _, h4'⟩ := hall j ts[j] (List.getElem?_eq_getElem hjs)
        show _[j * Ax.numel vs + Ax.flat vs r]? = _
        rw [flatten_getElem? _ _ hlens j _ (flat_lt hr), List.getElem?_map, List.getElem?_eq_getElem hjs]
        simp only [Option.map_some, Option.bind_some]
        have := h4' r (by rw [h2']; exact hr)
        rw [h2'] at this
        exact this

end C06lL
