/-
Helper lemmas for Props/C06j.lean, part 2: the slice that one operand `t` fills (`Sh.stackSlice`).

The generalised axes `lggs` (an injective pattern over the fresh axes `ks` that COVERS `t`, see `C06jL.Covers`) are
unified with `t.vaxes`; the slice is the dense tensor of `sliceT`: `t.physical` viewed through the looked-up physical
axes of `t`, with the clones of the fresh axes as virtual axes.  Provided the run was fully resolved (`SCtx.kn`, `cl`,
`lk`: no identity bound twice, no bound axis left in the clones of `ks` or in the looked-up axes), the cell of the slice
at the index tuple of an in-range assignment `γ` of `ks` is the cell of `t.dense` at the virtual index tuple `lggs(γ)`
(`slice_cell`).  The argument is the one of FggsProofs/C06eMainLemmas.lean (reshape): assignments of ALL physical
axes satisfying the final substitution (`Br`) connect the two tensors; most-generality of the unifier provides them.
-/
import FggsModel.ShapeOps
import FggsProofs.Props.C06
import FggsProofs.C06bLemmas
import FggsProofs.C06dBaseLemmas
import FggsProofs.C06dSideLemmas
import FggsProofs.C06eReachLemmas
import FggsProofs.C06eSemLemmas
import FggsProofs.C06jAntiLemmas
import Mathlib.Tactic.Linarith
import Mathlib.Data.List.Basic
import Mathlib.Data.List.Nodup

set_option linter.unusedSimpArgs false
set_option linter.unusedVariables false

namespace C06jL
open Fggs Fggs.Ax Fggs.Un Fggs.Sh C06b C06dL C06eL

/-! ### `unifyAll` makes both sides of every pair reach the same unbound identities -/

theorem runAll_reachEq {ps : List (Axis × Axis)} {st st' : St} (h : RunAll ps st st') :
    KN st'.subst → StQ NZ st → PairsQ NZ st.next ps → ∀ p ∈ ps, ∀ u, RL st'.subst p.1 u ↔ RL st'.subst p.2 u := by
  induction h with
  | nil => intro _ _ _ p hp; simp at hp
  | @cons e f rest st st1 st' h1 h2 ih =>
    intro hk hst hp p hp' u
    have hst1 := h1.preserves NZ_ok hst (hp (e, f) (by simp))
    rcases List.mem_cons.1 hp' with rfl | hp'
    · obtain ⟨⟨l, el⟩, _⟩ := h2.grows
      have hk' : KN (l ++ st1.subst) := by rw [← el]; exact hk
      have h0 := Run.reachEq h1 hk'.suffix hst (hp (e, f) (by simp))
      rw [el]
      exact RL.transport_iff hk' h0 u
    · exact ih hk hst1 (fun q hq => ⟨(hp q (by simp [hq])).1.mono NZ_ok h1.grows.2,
        (hp q (by simp [hq])).2.mono NZ_ok h1.grows.2⟩) p hp' u

/-! ### small list facts -/

theorem zip_of_map_eq {α β γ : Type} (f : α → γ) (g : β → γ) : ∀ (l1 : List α) (l2 : List β), l1.map f = l2.map g →
    ∀ p ∈ l1.zip l2, f p.1 = g p.2
  | [], _, _, p, hp => by simp at hp
  | _ :: _, [], _, p, hp => by simp at hp
  | a :: l1, b :: l2, h, p, hp => by
    simp only [List.map_cons, List.cons.injEq] at h
    rw [List.zip_cons_cons] at hp
    rcases List.mem_cons.1 hp with rfl | hp
    · exact h.1
    · exact zip_of_map_eq f g l1 l2 h.2 p hp

theorem map_eq_of_zip {α β γ : Type} (f : α → γ) (g : β → γ) : ∀ (l1 : List α) (l2 : List β), l1.length = l2.length →
    (∀ p ∈ l1.zip l2, f p.1 = g p.2) → l1.map f = l2.map g
  | [], [], _, _ => rfl
  | [], _ :: _, h, _ => by simp at h
  | _ :: _, [], h, _ => by simp at h
  | a :: l1, b :: l2, h, hp => by
    rw [List.map_cons, List.map_cons, hp (a, b) (by simp),
      map_eq_of_zip f g l1 l2 (by simpa using h) (fun p hp' => hp p (by rw [List.zip_cons_cons]; simp [hp']))]

theorem find_fst_of_nodup : ∀ {l : List (Nat × Nat)}, (l.map (·.1)).Nodup → ∀ {p : Nat × Nat}, p ∈ l →
    l.find? (fun x => x.1 == p.1) = some p
  | [], _, p, hp => by simp at hp
  | x :: xs, hnd, p, hp => by
    rw [List.map_cons, List.nodup_cons] at hnd
    rcases List.mem_cons.1 hp with rfl | hp
    · simp [List.find?]
    · have hne : (x.1 == p.1) = false := by
        rw [beq_eq_false_iff_ne]
        intro heq
        exact hnd.1 (by rw [heq]; exact List.mem_map.2 ⟨p, hp, rfl⟩)
      rw [List.find?, hne]
      exact find_fst_of_nodup hnd.2 hp

/-! ### the slice tensor -/

/-- `match e with | .phys v n => (v, n) | _ => (0, 0)` -/
def toPairS (e : Axis) : Nat × Nat := match e with | .phys v n => (v, n) | _ => (0, 0)

/-- the looked-up physical axes of the operand -/
def paxS (σ : Subst) (t : PT) : List (Nat × Nat) :=
  (t.paxes.map (fun k => lookup σ FUEL (Axis.phys k.1 k.2))).map toPairS

/-- the tensor whose dense form is the slice -/
def sliceT (σ : Subst) (t : PT) (ks : List (Nat × Nat)) : PT :=
  PT.mk t.physical (paxS σ t) (ks.map (fun g => clone σ FUEL (Axis.phys g.1 g.2))) t.default

theorem stackSlice_some {fuel : Nat} {lggs : List Axis} {ks : List (Nat × Nat)} {t : PT} {nx : Nat} {sl : List Ext}
    (h : stackSlice fuel lggs ks t nx = some sl) :
    ∃ st, unifyAll fuel (lggs.zip t.vaxes) ⟨[], nx⟩ = (true, st) ∧
      (∀ p ∈ t.paxes, ∃ v n, lookup st.subst FUEL (.phys p.1 p.2) = .phys v n) ∧
      sl = (sliceT st.subst t ks).dense := by
  unfold stackSlice at h
  split at h
  · cases h
  · next st hu =>
    refine ⟨st, hu, ?_⟩
    simp only [] at h
    split at h
    · cases h
    · next hall =>
      simp only [Bool.not_eq_true, Bool.not_eq_false', List.all_eq_true, List.mem_map, forall_exists_index,
        and_imp, forall_apply_eq_imp_iff₂] at hall
      refine ⟨?_, ?_⟩
      · intro p hp
        have := hall p hp
        split at this
        · next v n he => exact ⟨v, n, he⟩
        · cases this
      · have : some (sliceT st.subst t ks).dense = some sl := h
        cases this
        rfl

/-- the setting: the generalised axes cover a well-formed operand, the unification succeeded and was fully resolved -/
structure SCtx (lggs : List Axis) (ks : List (Nat × Nat)) (t : PT) (nx : Nat) (st : St) : Prop where
  ksnd : (ks.map (·.1)).Nodup
  kslt : ∀ k ∈ ks, k.1 < nx
  kspos : ∀ k ∈ ks, 0 < k.2
  fvl : ∀ g ∈ lggs, ∀ q ∈ g.fv, q ∈ ks
  occ : ∀ k ∈ ks, ∃ g ∈ lggs, k ∈ g.fv
  numl : lggs.map Axis.numel = t.vshape
  cov : Covers lggs ks t
  wf : t.wf = true
  fresh : ∀ p ∈ t.paxes, p.1 < nx
  pos : ∀ p ∈ t.paxes, 0 < p.2
  disj : ∀ k ∈ ks, ∀ p ∈ t.paxes, k.1 ≠ p.1
  run : RunAll (lggs.zip t.vaxes) ⟨[], nx⟩ st
  kn : KN st.subst
  cl : ∀ g ∈ ks, ∀ q ∈ (clone st.subst FUEL (.phys g.1 g.2)).fv, bound st.subst q.1 = none
  lk : ∀ p ∈ t.paxes, ∀ q ∈ (lookup st.subst FUEL (.phys p.1 p.2)).fv, bound st.subst q.1 = none
  lkp : ∀ p ∈ t.paxes, ∃ v n, lookup st.subst FUEL (.phys p.1 p.2) = .phys v n

section ctx
variable {lggs : List Axis} {ks : List (Nat × Nat)} {t : PT} {nx : Nat} {st : St}

theorem SCtx.struct (h : SCtx lggs ks t nx st) : Struct t := (wf_iff_struct t).1 h.wf

theorem SCtx.len (h : SCtx lggs ks t nx st) : lggs.length = t.vaxes.length := by
  have := congrArg List.length h.numl
  simpa [PT.vshape] using this

theorem SCtx.sz (h : SCtx lggs ks t nx st) : ∀ q ∈ ks ++ t.paxes, q.2 = szOf ks t q.1 :=
  szOf_spec h.ksnd h.struct.nodup (fun k hk p hp e => absurd e (h.disj k hk p hp))

theorem SCtx.tpK0 (h : SCtx lggs ks t nx st) {k : Nat × Nat} (hk : k ∈ ks) : Tp (szOf ks t) nx k :=
  ⟨h.kslt k hk, (h.sz k (List.mem_append_left _ hk)).symm, h.kspos k hk⟩

theorem SCtx.tpO0 (h : SCtx lggs ks t nx st) {p : Nat × Nat} (hp : p ∈ t.paxes) : Tp (szOf ks t) nx p :=
  ⟨h.fresh p hp, (h.sz p (List.mem_append_right _ hp)).symm, h.pos p hp⟩

theorem SCtx.pairsTp (h : SCtx lggs ks t nx st) : PairsQ (Tp (szOf ks t)) nx (lggs.zip t.vaxes) := by
  intro p hp
  have h1 := (List.of_mem_zip hp).1
  have h2 := (List.of_mem_zip hp).2
  exact ⟨fun q hq => h.tpK0 (h.fvl p.1 h1 q hq), fun q hq => h.tpO0 (h.struct.fvsub p.2 h2 q hq)⟩

theorem SCtx.sized (h : SCtx lggs ks t nx st) : ∃ sz', Agree nx (szOf ks t) sz' ∧ SizedSt sz' st :=
  h.run.sized (szOf ks t) ⟨fun p hp => by simp at hp, fun p hp => by simp at hp⟩ h.pairsTp
    (C06dE.zip_numel_eq lggs t.vaxes h.numl)

theorem SCtx.next_le (h : SCtx lggs ks t nx st) : nx ≤ st.next := h.run.grows.2

theorem SCtx.pairsNZ (h : SCtx lggs ks t nx st) : PairsQ NZ nx (lggs.zip t.vaxes) :=
  fun p hp => ⟨Tp.nz (h.pairsTp p hp).1, Tp.nz (h.pairsTp p hp).2⟩

theorem SCtx.pairsBd (h : SCtx lggs ks t nx st) : PairsQ Bd nx (lggs.zip t.vaxes) :=
  fun p hp => ⟨fun q hq => ((h.pairsTp p hp).1 q hq).1, fun q hq => ((h.pairsTp p hp).2 q hq).1⟩

/-- both sides of every dimension reach the same unbound identities -/
theorem SCtx.reach (h : SCtx lggs ks t nx st) : ∀ p ∈ lggs.zip t.vaxes, ∀ u, RL st.subst p.1 u ↔ RL st.subst p.2 u :=
  runAll_reachEq h.run h.kn (fun p hp => by simp at hp) h.pairsNZ

theorem SCtx.sound (h : SCtx lggs ks t nx st) {θ : Nat → Nat} (hs : Sat θ st.subst) :
    lggs.map (Axis.eval θ) = t.vaxes.map (Axis.eval θ) :=
  map_eq_of_zip _ _ lggs t.vaxes h.len (h.run.sound (fun p hp => by simp at hp) h.pairsNZ θ hs)

/-- the partner of a dimension -/
theorem SCtx.partnerL (h : SCtx lggs ks t nx st) {g : Axis} (hg : g ∈ lggs) : ∃ e, (g, e) ∈ lggs.zip t.vaxes := by
  obtain ⟨i, hi, rfl⟩ := List.getElem_of_mem hg
  have hi' : i < t.vaxes.length := by rw [← h.len]; exact hi
  exact ⟨t.vaxes[i], by
    have : (lggs.zip t.vaxes)[i]'(by simp; omega) = (lggs[i], t.vaxes[i]) := by simp
    rw [← this]; exact List.getElem_mem _⟩

theorem SCtx.partnerR (h : SCtx lggs ks t nx st) {e : Axis} (he : e ∈ t.vaxes) : ∃ g, (g, e) ∈ lggs.zip t.vaxes := by
  obtain ⟨i, hi, rfl⟩ := List.getElem_of_mem he
  have hi' : i < lggs.length := by rw [h.len]; exact hi
  exact ⟨lggs[i], by
    have : (lggs.zip t.vaxes)[i]'(by simp; omega) = (lggs[i], t.vaxes[i]) := by simp
    rw [← this]; exact List.getElem_mem _⟩

end ctx

structure SCtx2 (lggs : List Axis) (ks : List (Nat × Nat)) (t : PT) (nx : Nat) (st : St) (sz' : Nat → Nat) : Prop
    extends SCtx lggs ks t nx st where
  ag : Agree nx (szOf ks t) sz'
  szd : SizedSt sz' st

section ctx2
variable {lggs : List Axis} {ks : List (Nat × Nat)} {t : PT} {nx : Nat} {st : St} {sz' : Nat → Nat}

theorem SCtx2.tpK (h : SCtx2 lggs ks t nx st sz') {k : Nat × Nat} (hk : k ∈ ks) :
    AxQ (Tp sz') st.next (.phys k.1 k.2) := by
  intro q hq
  simp only [Axis.fv, List.mem_singleton] at hq
  subst hq
  have := h.tpK0 hk
  exact ⟨Nat.lt_of_lt_of_le this.1 h.next_le, by rw [h.ag k.1 this.1]; exact this.2.1, this.2.2⟩

theorem SCtx2.tpO (h : SCtx2 lggs ks t nx st sz') {p : Nat × Nat} (hp : p ∈ t.paxes) :
    AxQ (Tp sz') st.next (.phys p.1 p.2) := by
  intro q hq
  simp only [Axis.fv, List.mem_singleton] at hq
  subst hq
  have := h.tpO0 hp
  exact ⟨Nat.lt_of_lt_of_le this.1 h.next_le, by rw [h.ag p.1 this.1]; exact this.2.1, this.2.2⟩

theorem SCtx2.nok (h : SCtx2 lggs ks t nx st sz') : NumelOkS st.subst := h.szd.numelOkS

/-- sizes are functional: two pairs with the same identity that are both typed are equal -/
theorem tp_inj' {sz : Nat → Nat} {nx : Nat} {p q : Nat × Nat} (hp : Tp sz nx p) (hq : Tp sz nx q) (e : p.1 = q.1) :
    p = q := by
  have h1 := hp.2.1
  have h2 := hq.2.1
  rw [e] at h1
  exact Prod.ext e (by rw [← h1, ← h2])

/-- the looked-up axis of a physical axis of the operand: an unbound physical axis of the same size -/
theorem SCtx2.lk_spec (h : SCtx2 lggs ks t nx st sz') {p : Nat × Nat} (hp : p ∈ t.paxes) :
    ∃ v, lookup st.subst FUEL (.phys p.1 p.2) = .phys v p.2 ∧ bound st.subst v = none ∧ Tp sz' st.next (v, p.2) := by
  obtain ⟨v, n, he⟩ := h.lkp p hp
  have hl : Lk st.subst (.phys p.1 p.2) (.phys v n) := he ▸ lookup_lk st.subst FUEL _
  have hn : n = p.2 := by
    have := Lk.numel h.szd hl (h.tpO hp)
    simpa [Axis.numel] using this
  subst hn
  refine ⟨v, he, ?_, ?_⟩
  · have := h.lk p hp (v, p.2) (by rw [he]; simp [Axis.fv])
    exact this
  · exact Lk.axQ h.szd.1 hl (h.tpO hp) (v, p.2) (by simp [Axis.fv])

theorem SCtx2.mem_paxS (h : SCtx2 lggs ks t nx st sz') {q : Nat × Nat} :
    q ∈ paxS st.subst t ↔ ∃ p ∈ t.paxes, lookup st.subst FUEL (.phys p.1 p.2) = .phys q.1 q.2 := by
  unfold paxS
  simp only [List.mem_map, exists_exists_and_eq_and]
  constructor
  · rintro ⟨p, hp, rfl⟩
    obtain ⟨v, he, _⟩ := h.lk_spec hp
    exact ⟨p, hp, by rw [he]; rfl⟩
  · rintro ⟨p, hp, he⟩
    exact ⟨p, hp, by rw [he]; rfl⟩

/-- a satisfying assignment gives a looked-up axis the index of the original axis -/
theorem lk_eval {σ : Subst} {θ : Nat → Nat} (hs : Sat θ σ) {p q : Nat × Nat}
    (he : lookup σ FUEL (.phys p.1 p.2) = .phys q.1 q.2) : θ q.1 = θ p.1 := by
  have := (lookup_lk σ FUEL (.phys p.1 p.2)).eval hs
  rw [he] at this
  simpa [Axis.eval] using this

theorem SCtx2.paxS_sizes (h : SCtx2 lggs ks t nx st sz') : (paxS st.subst t).map (·.2) = t.paxes.map (·.2) := by
  unfold paxS
  rw [List.map_map, List.map_map]
  apply List.map_congr_left
  intro p hp
  obtain ⟨v, he, _⟩ := h.lk_spec hp
  show (toPairS (lookup st.subst FUEL (.phys p.1 p.2))).2 = p.2
  rw [he]; rfl

theorem SCtx2.paxS_pidx (h : SCtx2 lggs ks t nx st sz') {θ : Nat → Nat} (hs : Sat θ st.subst) :
    pidx (paxS st.subst t) θ = pidx t.paxes θ := by
  unfold paxS pidx
  rw [List.map_map, List.map_map]
  apply List.map_congr_left
  intro p hp
  obtain ⟨v, he, _⟩ := h.lk_spec hp
  show θ (toPairS (lookup st.subst FUEL (.phys p.1 p.2))).1 = θ p.1
  rw [he]
  exact lk_eval (q := (v, p.2)) hs he

/-! ### bridges -/

/-- an assignment of all physical axes that satisfies the final substitution, is in range on the operand's physical
axes and gives the fresh axes the indices of `γ` -/
structure Br (ks : List (Nat × Nat)) (t : PT) (st : St) (γ θ : Nat → Nat) : Prop where
  sat : Sat θ st.subst
  iro : ∀ p ∈ t.paxes, θ p.1 < p.2
  dig : ∀ k ∈ ks, θ k.1 = γ k.1

/-- most-generality of the unifier: matching in-range assignments of the fresh axes and of the operand's physical
axes extend to a bridge -/
theorem SCtx2.mgu_br (h : SCtx2 lggs ks t nx st sz') {γ ρ : Nat → Nat} (hγ : ∀ k ∈ ks, γ k.1 < k.2)
    (hρ : ∀ p ∈ t.paxes, ρ p.1 < p.2) (he : lggs.map (Axis.eval γ) = t.vaxes.map (Axis.eval ρ)) :
    ∃ θ, Br ks t st γ θ ∧ ∀ p ∈ t.paxes, θ p.1 = ρ p.1 := by
  let θ0 : Nat → Nat := fun v => if v ∈ ks.map (·.1) then γ v else ρ v
  have hK : ∀ k ∈ ks, θ0 k.1 = γ k.1 := fun k hk => by
    have : k.1 ∈ ks.map (·.1) := List.mem_map_of_mem (f := (·.1)) hk
    simp only [θ0, this, if_true]
  have hO : ∀ p ∈ t.paxes, θ0 p.1 = ρ p.1 := fun p hp => by
    have : p.1 ∉ ks.map (·.1) := by
      intro hin
      obtain ⟨k, hk, e⟩ := List.mem_map.1 hin
      exact h.disj k hk p hp e
    simp only [θ0, this, if_false]
  have hir : ∀ p ∈ lggs.zip t.vaxes, InRange θ0 p.1 ∧ InRange θ0 p.2 := by
    intro p hp
    have h1 := (List.of_mem_zip hp).1
    have h2 := (List.of_mem_zip hp).2
    refine ⟨fun q hq => ?_, fun q hq => ?_⟩
    · rw [hK q (h.fvl p.1 h1 q hq)]; exact hγ q (h.fvl p.1 h1 q hq)
    · rw [hO q (h.struct.fvsub p.2 h2 q hq)]; exact hρ q (h.struct.fvsub p.2 h2 q hq)
  have heq : ∀ p ∈ lggs.zip t.vaxes, p.1.eval θ0 = p.2.eval θ0 := by
    intro p hp
    have h1 := (List.of_mem_zip hp).1
    have h2 := (List.of_mem_zip hp).2
    rw [eval_congr θ0 γ p.1 (fun q hq => hK q (h.fvl p.1 h1 q hq)),
      eval_congr θ0 ρ p.2 (fun q hq => hO q (h.struct.fvsub p.2 h2 q hq))]
    exact zip_of_map_eq (Axis.eval γ) (Axis.eval ρ) lggs t.vaxes he p hp
  obtain ⟨θ, hag, hsat, _⟩ := h.run.mgu (fun p hp => by simp at hp) h.pairsBd θ0 (fun p hp => by simp at hp)
    (fun p hp => by simp at hp) hir heq
  have hO' : ∀ p ∈ t.paxes, θ p.1 = ρ p.1 := fun p hp => by rw [hag p.1 (h.fresh p hp), hO p hp]
  refine ⟨θ, ⟨hsat, fun p hp => by rw [hO' p hp]; exact hρ p hp, fun k hk => ?_⟩, hO'⟩
  rw [hag k.1 (h.kslt k hk), hK k hk]

/-- some assignment satisfies the final substitution -/
theorem SCtx2.exists_sat (h : SCtx2 lggs ks t nx st sz') : ∃ θ, Sat θ st.subst := by
  obtain ⟨γ, hγ, he⟩ := h.cov (fun _ => 0) (fun p hp => h.pos p hp)
  obtain ⟨θ, b, _⟩ := h.mgu_br hγ (fun p hp => h.pos p hp) he
  exact ⟨θ, b.sat⟩

theorem SCtx2.clone_eval (h : SCtx2 lggs ks t nx st sz') {θ : Nat → Nat} (hs : Sat θ st.subst) {k : Nat × Nat}
    (hk : k ∈ ks) : (clone st.subst FUEL (.phys k.1 k.2)).eval θ = θ k.1 :=
  (clone_spec hs h.nok FUEL _ (h.szd.numelOk (h.tpK hk))).1

theorem SCtx2.clone_numel (h : SCtx2 lggs ks t nx st sz') {k : Nat × Nat} (hk : k ∈ ks) :
    (clone st.subst FUEL (.phys k.1 k.2)).numel = k.2 := by
  obtain ⟨θ, hs⟩ := h.exists_sat
  exact (clone_spec hs h.nok FUEL _ (h.szd.numelOk (h.tpK hk))).2

theorem SCtx2.slice_vshape (h : SCtx2 lggs ks t nx st sz') : (sliceT st.subst t ks).vshape = ks.map (·.2) := by
  show (ks.map (fun g => clone st.subst FUEL (Axis.phys g.1 g.2))).map Axis.numel = _
  rw [List.map_map]
  apply List.map_congr_left
  intro k hk
  exact h.clone_numel hk

theorem SCtx2.clone_tp (h : SCtx2 lggs ks t nx st sz') {k : Nat × Nat} (hk : k ∈ ks) :
    AxQ (Tp sz') st.next (clone st.subst FUEL (.phys k.1 k.2)) := by
  intro q hq
  rcases clone_fv st.subst FUEL _ q hq with h1 | ⟨b, hb, h1⟩
  · exact h.tpK hk q h1
  · exact (h.szd.1 b hb).2 q h1

/-- what an identity reachable from a physical axis of the operand is: its looked-up axis -/
theorem SCtx2.rl_pax (h : SCtx2 lggs ks t nx st sz') {p : Nat × Nat} (hp : p ∈ t.paxes) {v : Nat}
    (he : lookup st.subst FUEL (.phys p.1 p.2) = .phys v p.2) (hb : bound st.subst v = none) (u : Nat) :
    RL st.subst (.phys p.1 p.2) u ↔ u = v := by
  have hl : Lk st.subst (.phys p.1 p.2) (.phys v p.2) := he ▸ lookup_lk st.subst FUEL _
  rw [Lk.rl0 h.kn hl, RL.phys_free hb]

/-- every physical axis of the clones of the fresh axes is a looked-up axis of the operand -/
theorem SCtx2.fvsub (h : SCtx2 lggs ks t nx st sz') {k : Nat × Nat} (hk : k ∈ ks) {q : Nat × Nat}
    (hq : q ∈ (clone st.subst FUEL (.phys k.1 k.2)).fv) : q ∈ paxS st.subst t := by
  have hb := h.cl k hk q hq
  have r0 : RL st.subst (.phys k.1 k.2) q.1 := rl_of_clone_fv st.subst q hb FUEL _ hq
  obtain ⟨g, hg, hkg⟩ := h.occ k hk
  have r1 : RL st.subst g q.1 := rl_mono st.subst q.1 g k hkg r0
  obtain ⟨e, hge⟩ := h.partnerL hg
  have r2 : RL st.subst e q.1 := (h.reach (g, e) hge q.1).1 r1
  obtain ⟨p, hp, r3⟩ := rl_via_fv r2
  have hpp := h.struct.fvsub e (List.of_mem_zip hge).2 p hp
  obtain ⟨v, he, hbv, htp⟩ := h.lk_spec hpp
  have hv : q.1 = v := (h.rl_pax hpp he hbv q.1).1 r3
  have : (v, p.2) = q := tp_inj' htp (h.clone_tp hk q hq) hv.symm
  rw [← this]
  exact h.mem_paxS.2 ⟨p, hpp, he⟩

/-- every looked-up axis occurs in the clone of a fresh axis -/
theorem SCtx2.occS (h : SCtx2 lggs ks t nx st sz') {q : Nat × Nat} (hq : q ∈ paxS st.subst t) :
    ∃ k ∈ ks, q ∈ (clone st.subst FUEL (.phys k.1 k.2)).fv := by
  obtain ⟨p, hp, he⟩ := h.mem_paxS.1 hq
  obtain ⟨v, he', hbv, htp⟩ := h.lk_spec hp
  have hq' : q = (v, p.2) := by
    rw [he] at he'
    injection he' with a b
    exact Prod.ext a b
  subst hq'
  have r0 : RL st.subst (.phys p.1 p.2) v := (h.rl_pax hp he' hbv v).2 rfl
  obtain ⟨e, hev, hpe⟩ := h.struct.occ p hp
  have r1 : RL st.subst e v := rl_mono st.subst v e p hpe r0
  obtain ⟨g, hge⟩ := h.partnerR hev
  have r2 : RL st.subst g v := (h.reach (g, e) hge v).2 r1
  obtain ⟨k, hkg, r3⟩ := rl_via_fv r2
  have hk := h.fvl g (List.of_mem_zip hge).1 k hkg
  obtain ⟨n, hn⟩ := clone_fv_of_rl st.subst v FUEL _ (h.cl k hk) r3
  have := tp_inj' htp (h.clone_tp hk _ hn) rfl
  exact ⟨k, hk, by rw [this]; exact hn⟩

/-- the looked-up axes are distinct -/
theorem SCtx2.nodupS (h : SCtx2 lggs ks t nx st sz') : ((paxS st.subst t).map (·.1)).Nodup := by
  unfold paxS
  rw [List.map_map, List.map_map]
  have hnd : t.paxes.Nodup := List.Nodup.of_map _ h.struct.nodup
  refine List.Nodup.map_on ?_ hnd
  intro p1 hp1 p2 hp2 e
  by_contra hne
  have hne1 : p1.1 ≠ p2.1 := fun e1 => hne (eq_of_mem_nodup_fst h.struct.nodup hp1 hp2 e1)
  obtain ⟨v1, he1, _⟩ := h.lk_spec hp1
  obtain ⟨v2, he2, _⟩ := h.lk_spec hp2
  have e' : v1 = v2 := by
    have : (toPairS (lookup st.subst FUEL (.phys p1.1 p1.2))).1 = (toPairS (lookup st.subst FUEL (.phys p2.1 p2.2))).1 := e
    rw [he1, he2] at this
    exact this
  let ρ : Nat → Nat := fun v => if v = p2.1 then 1 else 0
  have hρ : ∀ p ∈ t.paxes, ρ p.1 < p.2 := by
    intro p hp
    have h1 := h.pos p hp
    have h2 := h.struct.no1 p hp
    simp only [ρ]
    split <;> omega
  obtain ⟨γ, hγ, he⟩ := h.cov ρ hρ
  obtain ⟨θ, b, hO⟩ := h.mgu_br hγ hρ he
  have a1 := lk_eval (q := (v1, p1.2)) b.sat he1
  have a2 := lk_eval (q := (v2, p2.2)) b.sat he2
  simp only at a1 a2
  rw [hO p1 hp1] at a1
  rw [hO p2 hp2] at a2
  rw [e'] at a1
  rw [a1] at a2
  simp only [ρ, if_neg hne1, if_true] at a2
  omega

theorem SCtx2.slice_sem (h : SCtx2 lggs ks t nx st sz') : Sem (sliceT st.subst t ks) := by
  refine sem_of_occ h.nodupS ?_ ?_
  · intro e he q hq
    obtain ⟨k, hk, rfl⟩ := List.mem_map.1 he
    exact h.fvsub hk hq
  · intro p hp
    obtain ⟨k, hk, hpk⟩ := h.occS hp
    exact ⟨_, List.mem_map_of_mem hk, hpk⟩

theorem Br.backs_t (h : SCtx2 lggs ks t nx st sz') {γ θ : Nat → Nat} (b : Br ks t st γ θ) :
    Backs t (lggs.map (Axis.eval γ)) θ := by
  refine ⟨b.iro, ?_⟩
  rw [← h.sound b.sat]
  apply List.map_congr_left
  intro g hg
  exact eval_congr θ γ g (fun q hq => b.dig q (h.fvl g hg q hq))

theorem Br.backs_s (h : SCtx2 lggs ks t nx st sz') {γ θ : Nat → Nat} (b : Br ks t st γ θ) :
    Backs (sliceT st.subst t ks) (pidx ks γ) θ := by
  refine ⟨?_, ?_⟩
  · intro q hq
    obtain ⟨p, hp, he⟩ := h.mem_paxS.1 hq
    obtain ⟨v, he', _⟩ := h.lk_spec hp
    have hq2 : q.2 = p.2 := by
      rw [he] at he'
      injection he' with a b
    rw [lk_eval b.sat he, hq2]
    exact b.iro p hp
  · show (ks.map (fun g => clone st.subst FUEL (Axis.phys g.1 g.2))).map (Axis.eval θ) = pidx ks γ
    unfold pidx
    rw [List.map_map]
    apply List.map_congr_left
    intro k hk
    show (clone st.subst FUEL (Axis.phys k.1 k.2)).eval θ = γ k.1
    rw [h.clone_eval b.sat hk, b.dig k hk]

/-- an assignment backing a cell of the slice comes from a bridge -/
theorem SCtx2.br_of_backs (h : SCtx2 lggs ks t nx st sz') {γ ρ' : Nat → Nat}
    (hb : Backs (sliceT st.subst t ks) (pidx ks γ) ρ') : ∃ θ, Br ks t st γ θ := by
  -- the assignment of the operand's physical axes: the value of the looked-up axis
  let ρ : Nat → Nat := fun v => match t.paxes.find? (fun x => x.1 == v) with
    | some p => ρ' (toPairS (lookup st.subst FUEL (.phys p.1 p.2))).1
    | none => 0
  have hρv : ∀ p ∈ t.paxes, ∀ v, lookup st.subst FUEL (.phys p.1 p.2) = .phys v p.2 → ρ p.1 = ρ' v := by
    intro p hp v he
    simp only [ρ, find_fst_of_nodup h.struct.nodup hp, he]
    rfl
  have hρ : ∀ p ∈ t.paxes, ρ p.1 < p.2 := by
    intro p hp
    obtain ⟨v, he, _⟩ := h.lk_spec hp
    rw [hρv p hp v he]
    exact hb.1 (v, p.2) (h.mem_paxS.2 ⟨p, hp, he⟩)
  obtain ⟨γ0, hγ0, he0⟩ := h.cov ρ hρ
  obtain ⟨θ, b, hO⟩ := h.mgu_br hγ0 hρ he0
  have hag : ∀ q ∈ paxS st.subst t, θ q.1 = ρ' q.1 := by
    intro q hq
    obtain ⟨p, hp, he⟩ := h.mem_paxS.1 hq
    obtain ⟨v, he', _⟩ := h.lk_spec hp
    have hqv : q.1 = v := by
      rw [he] at he'
      injection he' with a b
    rw [lk_eval b.sat he, hO p hp, hqv]
    exact hρv p hp v he'
  have e1 : (sliceT st.subst t ks).vaxes.map (Axis.eval θ) = (sliceT st.subst t ks).vaxes.map (Axis.eval ρ') := by
    apply List.map_congr_left
    intro e he
    apply eval_congr
    intro q hq
    exact hag q (h.slice_sem.fvsub e he q hq)
  have e2 : pidx ks γ0 = pidx ks γ := by rw [← (b.backs_s h).2, e1, hb.2]
  have hγ : ∀ k ∈ ks, γ0 k.1 = γ k.1 := by
    unfold pidx at e2
    exact List.map_inj_left.1 e2
  exact ⟨θ, ⟨b.sat, b.iro, fun k hk => by rw [b.dig k hk, hγ k hk]⟩⟩

theorem SCtx2.lggs_range (h : SCtx2 lggs ks t nx st sz') {γ : Nat → Nat} (hγ : ∀ k ∈ ks, γ k.1 < k.2) :
    lggs.map (Axis.eval γ) ∈ assigns t.vshape := by
  rw [← h.numl, mem_assigns_iff, List.forall₂_map_left_iff, List.forall₂_map_right_iff, List.forall₂_same]
  intro g hg
  exact InRange.lt (fun q hq => hγ q (h.fvl g hg q hq))

/-- **the cell of the slice at the index tuple of `γ` is the cell of the operand at `lggs(γ)`** -/
theorem SCtx2.slice_cell (h : SCtx2 lggs ks t nx st sz') {γ : Nat → Nat} (hγ : ∀ k ∈ ks, γ k.1 < k.2) :
    (sliceT st.subst t ks).dense[flat (ks.map (·.2)) (pidx ks γ)]? =
      t.dense[flat t.vshape (lggs.map (Axis.eval γ))]? := by
  have hv := h.slice_vshape
  by_cases hb : ∃ θ, Br ks t st γ θ
  · obtain ⟨θ, b⟩ := hb
    have e1 := dense_backed h.slice_sem (b.backs_s h)
    have e2 := dense_backed h.struct.sem (b.backs_t h)
    rw [hv] at e1
    rw [e1, e2]
    show some (t.physical[flat ((paxS st.subst t).map (·.2)) (pidx (paxS st.subst t) θ)]?.getD t.default) = _
    rw [h.paxS_sizes, h.paxS_pidx b.sat]
  · have hm : pidx ks γ ∈ assigns (sliceT st.subst t ks).vshape := by
      rw [hv]; exact pidx_mem_assigns γ ks hγ
    have e1 := dense_unbacked h.slice_sem hm (fun ρ' hρ' => hb (h.br_of_backs hρ'))
    rw [hv] at e1
    have e2 := dense_unbacked h.struct.sem (h.lggs_range hγ) (fun ρ hρ => hb (by
      obtain ⟨θ, b, _⟩ := h.mgu_br hγ hρ.1 hρ.2.symm
      exact ⟨θ, b⟩))
    rw [e1, e2]
    rfl

theorem SCtx2.slice_length (h : SCtx2 lggs ks t nx st sz') :
    (sliceT st.subst t ks).dense.length = numel (ks.map (·.2)) := by
  rw [length_dense, h.slice_vshape]

end ctx2

end C06jL
