/-
Helper definitions and lemmas for Props/C06b.lean (unification of axes computes the intersection of two
sparsity patterns).

The three mutually recursive functions `unify`/`unifyProd`/`unifyUnits` of FggsModel/Unify.lean are
abstracted ONCE into a fuel-free big-step relation `Run goal st st'` (a successful run is a derivation of
`Run`; `run_of_unify`).  `Run` is an over-approximation: the negative side conditions of the branches (the
order of the tests) are dropped, which only makes the theorems proved by induction on `Run` stronger.  All
semantic theorems (soundness, preservation of invariants, most-generality) are proved by induction on `Run`.

The rules `prodSum`/`sumProd` (a sum against a product is walked as a product of one factor) and `pUnitR`/`pUnitL`
(a factor of one element is unified with the unit axis and skipped) follow the repaired `Axis.unify`.
-/
import FggsModel.Unify
import FggsProofs.Props.C06
import Mathlib.Tactic.Linarith
import Mathlib.Tactic.Ring
import Mathlib.Data.List.Basic

set_option linter.unusedSimpArgs false
set_option linter.unusedVariables false

namespace C06b
open Fggs Fggs.Ax Fggs.Un

/-! ### semantic setting -/

/-- an assignment of the physical axes satisfies a substitution when every binding holds -/
def Sat (ρ : Nat → Nat) (σ : Subst) : Prop := ∀ p ∈ σ, ρ p.1 = p.2.eval ρ

/-- an assignment respects the sizes of the physical axes occurring in `e` -/
def InRange (ρ : Nat → Nat) (e : Axis) : Prop := ∀ p ∈ e.fv, ρ p.1 < p.2

/-- … and of those occurring in the right-hand sides of the bindings -/
def InRangeS (ρ : Nat → Nat) (σ : Subst) : Prop := ∀ p ∈ σ, InRange ρ p.2

/-! ### accumulators (copies of private lemmas of Props/C06.lean) -/

theorem evalList_acc (ρ : Nat → Nat) : ∀ (fs : List Axis) (acc : Nat),
    evalList ρ fs acc = acc * numelList fs + evalList ρ fs 0
  | [], acc => by simp [evalList, numelList]
  | f :: fs, acc => by
    rw [evalList, evalList, evalList_acc ρ fs (acc * f.numel + f.eval ρ),
      evalList_acc ρ fs (0 * f.numel + f.eval ρ), numelList]
    ring

theorem evalList_cons_zero (ρ : Nat → Nat) (f : Axis) (fs : List Axis) :
    evalList ρ (f :: fs) 0 = f.eval ρ * numelList fs + evalList ρ fs 0 := by
  rw [evalList, evalList_acc]; simp

theorem numelList_append : ∀ (as bs : List Axis),
    numelList (as ++ bs) = numelList as * numelList bs
  | [], bs => by simp [numelList]
  | a :: as, bs => by
    rw [List.cons_append, numelList, numelList, numelList_append as bs]; ring

theorem evalList_append (ρ : Nat → Nat) : ∀ (as bs : List Axis) (acc : Nat),
    evalList ρ (as ++ bs) acc = evalList ρ bs (evalList ρ as acc)
  | [], bs, acc => by simp [evalList]
  | a :: as, bs, acc => by
    rw [List.cons_append, evalList, evalList, evalList_append ρ as bs]

/-- the value of a stack whose top (= last factor) is `x` -/
theorem evalList_snoc (ρ : Nat → Nat) (as : List Axis) (x : Axis) :
    evalList ρ (as ++ [x]) 0 = evalList ρ as 0 * x.numel + x.eval ρ := by
  rw [evalList_append]; simp [evalList]

theorem numelList_snoc (as : List Axis) (x : Axis) : numelList (as ++ [x]) = numelList as * x.numel := by
  rw [numelList_append]; simp [numelList]

theorem unitAxis_numel : unitAxis.numel = 1 := by simp [unitAxis, Axis.numel, numelList]
theorem unitAxis_eval (ρ : Nat → Nat) : unitAxis.eval ρ = 0 := by simp [unitAxis, Axis.eval, evalList]
theorem unitAxis_fv : unitAxis.fv = [] := by simp [unitAxis, Axis.fv, fvList]

/-! ### free variables -/

theorem mem_fvList {q : Nat × Nat} : ∀ {fs : List Axis}, q ∈ fvList fs ↔ ∃ f ∈ fs, q ∈ f.fv
  | [] => by simp [fvList]
  | f :: fs => by
    rw [fvList, List.mem_append, mem_fvList (fs := fs)]
    simp

theorem mem_fv_prod {q : Nat × Nat} {fs : List Axis} : q ∈ (Axis.prod fs).fv ↔ ∃ f ∈ fs, q ∈ f.fv := by
  rw [Axis.fv, mem_fvList]

def flat1 (fs : List Axis) : List Axis :=
  fs.flatMap (fun f => match f with | .prod gs => gs | e => [e])

theorem productAxis_eq (fs : List Axis) :
    productAxis fs = (match flat1 fs with | [e] => e | _ => .prod (flat1 fs)) := by
  rfl

theorem mem_fvList_flat1 {q : Nat × Nat} (fs : List Axis) : q ∈ fvList (flat1 fs) ↔ ∃ f ∈ fs, q ∈ f.fv := by
  rw [mem_fvList]
  unfold flat1
  constructor
  · rintro ⟨g, hg, hq⟩
    rw [List.mem_flatMap] at hg
    obtain ⟨f, hf, hgf⟩ := hg
    refine ⟨f, hf, ?_⟩
    cases f with
    | prod gs => exact mem_fv_prod.2 ⟨g, hgf, hq⟩
    | phys v n => simp at hgf; rw [← hgf]; exact hq
    | sum b t a => simp at hgf; rw [← hgf]; exact hq
  · rintro ⟨f, hf, hq⟩
    cases f with
    | prod gs =>
      obtain ⟨g, hg, hq⟩ := mem_fv_prod.1 hq
      exact ⟨g, List.mem_flatMap.2 ⟨_, hf, hg⟩, hq⟩
    | phys v n => exact ⟨_, List.mem_flatMap.2 ⟨_, hf, by simp⟩, hq⟩
    | sum b t a => exact ⟨_, List.mem_flatMap.2 ⟨_, hf, by simp⟩, hq⟩

theorem mem_fv_productAxis {q : Nat × Nat} (fs : List Axis) :
    q ∈ (productAxis fs).fv ↔ ∃ f ∈ fs, q ∈ f.fv := by
  rw [productAxis_eq, ← mem_fvList_flat1]
  split
  · next e h => rw [h]; simp [fvList]
  · rw [Axis.fv]

mutual
/-- `eval` depends only on the values of the free physical axes -/
theorem eval_congr (ρ ρ' : Nat → Nat) : ∀ (e : Axis), (∀ q ∈ e.fv, ρ q.1 = ρ' q.1) → e.eval ρ = e.eval ρ'
  | .phys v n, h => by
    have := h (v, n) (by simp [Axis.fv])
    simpa [Axis.eval] using this
  | .prod fs, h => by
    rw [Axis.eval, Axis.eval]
    exact evalList_congr ρ ρ' fs (by simpa [Axis.fv] using h) 0
  | .sum b t a, h => by
    rw [Axis.eval, Axis.eval, eval_congr ρ ρ' t (by simpa [Axis.fv] using h)]
theorem evalList_congr (ρ ρ' : Nat → Nat) : ∀ (fs : List Axis), (∀ q ∈ fvList fs, ρ q.1 = ρ' q.1) →
    ∀ acc, evalList ρ fs acc = evalList ρ' fs acc
  | [], _, acc => by simp [evalList]
  | f :: fs, h, acc => by
    rw [evalList, evalList, eval_congr ρ ρ' f (fun q hq => h q (by simp [fvList, hq])),
      evalList_congr ρ ρ' fs (fun q hq => h q (by simp [fvList, hq]))]
end

theorem evalList_congr' (ρ ρ' : Nat → Nat) (fs : List Axis) (h : ∀ f ∈ fs, ∀ q ∈ f.fv, ρ q.1 = ρ' q.1) :
    evalList ρ fs 0 = evalList ρ' fs 0 :=
  evalList_congr ρ ρ' fs (fun q hq => by obtain ⟨f, hf, hq⟩ := mem_fvList.1 hq; exact h f hf q hq) 0

theorem inRange_congr {ρ ρ' : Nat → Nat} {e : Axis} (h : ∀ q ∈ e.fv, ρ q.1 = ρ' q.1) (hr : InRange ρ e) :
    InRange ρ' e := fun q hq => by rw [← h q hq]; exact hr q hq

/-! ### lookup -/

theorem bound_mem {σ : Subst} {v : Nat} {a : Axis} (h : bound σ v = some a) : (v, a) ∈ σ := by
  unfold bound at h
  rw [Option.map_eq_some_iff] at h
  obtain ⟨p, hp, rfl⟩ := h
  have h1 := List.mem_of_find?_eq_some hp
  have h2 := List.find?_some hp
  simp only [beq_iff_eq] at h2
  rw [← h2]; exact h1

/-- `Lk σ e0 e`: `e` is reached from `e0` along the forwarding chain (an over-approximation of `lookup`) -/
inductive Lk (σ : Subst) : Axis → Axis → Prop
  | refl (e : Axis) : Lk σ e e
  | step {v n : Nat} {a e : Axis} (hb : (v, a) ∈ σ) (h : Lk σ a e) : Lk σ (.phys v n) e

theorem lookup_lk (σ : Subst) : ∀ (fuel : Nat) (e : Axis), Lk σ e (lookup σ fuel e)
  | 0, e => by rw [lookup]; exact .refl e
  | fuel+1, .phys v n => by
    rw [lookup]
    split
    · next a hb => exact .step (bound_mem hb) (lookup_lk σ fuel a)
    · exact .refl _
  | fuel+1, .prod fs => by rw [lookup.eq_3 _ _ _ (by intros; simp_all)]; exact .refl _
  | fuel+1, .sum b t a => by rw [lookup.eq_3 _ _ _ (by intros; simp_all)]; exact .refl _

theorem Lk.eval {σ : Subst} {ρ : Nat → Nat} (hs : Sat ρ σ) {e0 e : Axis} (h : Lk σ e0 e) :
    e.eval ρ = e0.eval ρ := by
  induction h with
  | refl e => rfl
  | step hb h ih => rw [ih]; exact (hs _ hb).symm

theorem Lk.fv {σ : Subst} {e0 e : Axis} (h : Lk σ e0 e) {q : Nat × Nat} (hq : q ∈ e.fv) :
    q ∈ e0.fv ∨ ∃ p ∈ σ, q ∈ p.2.fv := by
  induction h with
  | refl e => exact .inl hq
  | step hb h ih =>
    rcases ih hq with h1 | h1
    · exact .inr ⟨_, hb, h1⟩
    · exact .inr h1

/-! ### the big-step relation -/

inductive Goal where
  | u (e f : Axis)
  | p (es fs : List Axis)
  | n (xs : List Axis)

/-- the fresh state handed to the split branches -/
def _root_.Fggs.Un.St.fresh (st : St) : St := { st with next := st.next + 1 }

inductive Run : Goal → St → St → Prop
  | same {e0 f0 e f : Axis} {st : St} (he : Lk st.subst e0 e) (hf : Lk st.subst f0 f)
      (h : samePhys e f = true) : Run (.u e0 f0) st st
  | zero {e0 f0 f : Axis} {es : List Axis} {st : St} (he : Lk st.subst e0 (.prod es))
      (hf : Lk st.subst f0 f) (hz : zeroList es = true) : Run (.u e0 f0) st st
  | prod {e0 f0 : Axis} {es fs : List Axis} {st st' : St} (he : Lk st.subst e0 (.prod es))
      (hf : Lk st.subst f0 (.prod fs)) (h : Run (.p es.reverse fs.reverse) st st') : Run (.u e0 f0) st st'
  -- a sum against a product: the sum is walked as a product of one factor
  | prodSum {e0 f0 t : Axis} {b a : Nat} {es : List Axis} {st st' : St} (he : Lk st.subst e0 (.prod es))
      (hf : Lk st.subst f0 (.sum b t a)) (h : Run (.p es.reverse [.sum b t a]) st st') : Run (.u e0 f0) st st'
  | sumProd {e0 f0 t : Axis} {b a : Nat} {fs : List Axis} {st st' : St} (he : Lk st.subst e0 (.sum b t a))
      (hf : Lk st.subst f0 (.prod fs)) (h : Run (.p [.sum b t a] fs.reverse) st st') : Run (.u e0 f0) st st'
  | sum {e0 f0 t1 t2 : Axis} {b a : Nat} {st st' : St} (he : Lk st.subst e0 (.sum b t1 a))
      (hf : Lk st.subst f0 (.sum b t2 a)) (h : Run (.u t1 t2) st st') : Run (.u e0 f0) st st'
  | bindL {e0 f0 f : Axis} {v n : Nat} {st : St} (he : Lk st.subst e0 (.phys v n)) (hf : Lk st.subst f0 f) :
      Run (.u e0 f0) st (bind st v f)
  | bindR {e0 f0 e : Axis} {w n : Nat} {st : St} (he : Lk st.subst e0 e) (hf : Lk st.subst f0 (.phys w n)) :
      Run (.u e0 f0) st (bind st w e)
  | unitL {e0 f0 t : Axis} {st st' : St} (he : Lk st.subst e0 (.prod [])) (hf : Lk st.subst f0 (.sum 0 t 0))
      (h : Run (.u unitAxis t) st st') : Run (.u e0 f0) st st'
  | unitR {e0 f0 t : Axis} {st st' : St} (he : Lk st.subst e0 (.sum 0 t 0)) (hf : Lk st.subst f0 (.prod []))
      (h : Run (.u unitAxis t) st st') : Run (.u e0 f0) st st'
  | pEq {e9 f9 : Axis} {es fs : List Axis} {st st1 st' : St} (hmn : e9.numel = f9.numel)
      (h1 : Run (.u e9 f9) st st1) (h2 : Run (.p es fs) st1 st') : Run (.p (e9 :: es) (f9 :: fs)) st st'
  -- a factor with one element is unified with the unit axis and skipped
  | pUnitR {f9 : Axis} {es fs : List Axis} {st st1 st' : St} (hn : f9.numel = 1)
      (h1 : Run (.u f9 unitAxis) st st1) (h2 : Run (.p es fs) st1 st') : Run (.p es (f9 :: fs)) st st'
  | pUnitL {e9 : Axis} {es fs : List Axis} {st st1 st' : St} (hm : e9.numel = 1)
      (h1 : Run (.u e9 unitAxis) st st1) (h2 : Run (.p es fs) st1 st') : Run (.p (e9 :: es) fs) st st'
  | pLt {e9 f9 : Axis} {es fs : List Axis} {st st1 st' : St} (hlt : e9.numel < f9.numel)
      (hd : f9.numel % e9.numel = 0)
      (h1 : Run (.u f9 (productAxis [.phys st.next (f9.numel / e9.numel), e9])) st.fresh st1)
      (h2 : Run (.p es (.phys st.next (f9.numel / e9.numel) :: fs)) st1 st') :
      Run (.p (e9 :: es) (f9 :: fs)) st st'
  | pGt {e9 f9 : Axis} {es fs : List Axis} {st st1 st' : St} (hlt : f9.numel < e9.numel)
      (hd : e9.numel % f9.numel = 0)
      (h1 : Run (.u e9 (productAxis [.phys st.next (e9.numel / f9.numel), f9])) st.fresh st1)
      (h2 : Run (.p (.phys st.next (e9.numel / f9.numel) :: es) fs) st1 st') :
      Run (.p (e9 :: es) (f9 :: fs)) st st'
  | pEnd {es fs : List Axis} {st st' : St} (he : es = [] ∨ fs = [])
      (h : Run (.n (es.reverse ++ fs.reverse)) st st') : Run (.p es fs) st st'
  | nNil {st : St} : Run (.n []) st st
  | nCons {x : Axis} {xs : List Axis} {st st1 st' : St} (h1 : Run (.u x unitAxis) st st1)
      (h2 : Run (.n xs) st1 st') : Run (.n (x :: xs)) st st'

/-! ### a successful run is a derivation -/

theorem run_step_unify (fuel : Nat)
    (ihu : ∀ e f st st', unify fuel e f st = (true, st') → Run (.u e f) st st')
    (ihp : ∀ es fs st st', unifyProd fuel es fs st = (true, st') → Run (.p es fs) st st')
    (e0 f0 : Axis) (st st' : St) (h : unify (fuel+1) e0 f0 st = (true, st')) : Run (.u e0 f0) st st' := by
  rw [unify.eq_2] at h
  have he := lookup_lk st.subst (fuel+1) e0
  have hf := lookup_lk st.subst (fuel+1) f0
  generalize lookup st.subst (fuel+1) e0 = e at h he
  generalize lookup st.subst (fuel+1) f0 = f at h hf
  split at h
  · next hs =>
    cases h
    exact .same he hf hs
  · split at h
    · split at h
      · next hz => cases h; exact .zero he hf hz
      · exact .prod he hf (ihp _ _ _ _ h)
    · split at h
      · next hz => cases h; exact .zero he hf hz
      · exact .prodSum he hf (ihp _ _ _ _ h)
    · exact .sumProd he hf (ihp _ _ _ _ h)
    · split at h
      · next hc =>
        simp only [Bool.and_eq_true, beq_iff_eq] at hc
        obtain ⟨rfl, rfl⟩ := hc
        exact .sum he hf (ihu _ _ _ _ h)
      · cases h
    · cases h; exact .bindL he hf
    · cases h; exact .bindR he hf
    · split at h
      · next hc =>
        simp only [Bool.and_eq_true, beq_iff_eq] at hc
        obtain ⟨rfl, rfl⟩ := hc
        exact .unitL he hf (ihu _ _ _ _ h)
      · cases h
    · split at h
      · next hc =>
        simp only [Bool.and_eq_true, beq_iff_eq] at hc
        obtain ⟨rfl, rfl⟩ := hc
        exact .unitR he hf (ihu _ _ _ _ h)
      · cases h

theorem run_step_prod (fuel : Nat)
    (ihu : ∀ e f st st', unify fuel e f st = (true, st') → Run (.u e f) st st')
    (ihp : ∀ es fs st st', unifyProd fuel es fs st = (true, st') → Run (.p es fs) st st')
    (ihn : ∀ xs st st', unifyUnits fuel xs st = (true, st') → Run (.n xs) st st')
    (es fs : List Axis) (st st' : St) (h : unifyProd (fuel+1) es fs st = (true, st')) : Run (.p es fs) st st' := by
  match es, fs with
  | e9 :: es, f9 :: fs =>
    rw [unifyProd.eq_2] at h
    split at h
    · next hmn =>
      simp only [beq_iff_eq] at hmn
      split at h
      · next st1 h1 => exact .pEq hmn (ihu _ _ _ _ h1) (ihp _ _ _ _ h)
      · next r hr =>
        rcases hu : unify fuel e9 f9 st with ⟨b, s⟩
        rw [hu] at h hr
        cases h
        exact absurd rfl (hr st')
    · split at h
      · next hne hn1 =>
        simp only [beq_iff_eq] at hn1
        split at h
        · next st1 h1 => exact .pUnitR hn1 (ihu _ _ _ _ h1) (ihp _ _ _ _ h)
        · next r hr =>
          rw [h] at hr
          exact absurd rfl (hr st')
      · split at h
        · next hne hn1 hm1 =>
          simp only [beq_iff_eq] at hm1
          split at h
          · next st1 h1 => exact .pUnitL hm1 (ihu _ _ _ _ h1) (ihp _ _ _ _ h)
          · next r hr =>
            rw [h] at hr
            exact absurd rfl (hr st')
        · split at h
          · next hne hn1 hm1 hlt =>
            split at h
            · cases h
            · next hd =>
              simp only [bne_iff_ne, ne_eq, Decidable.not_not] at hd
              simp only at h
              split at h
              · next st1 h1 => exact .pLt hlt hd (ihu _ _ _ _ h1) (ihp _ _ _ _ h)
              · next r hr =>
                rw [h] at hr
                exact absurd rfl (hr st')
          · next hne hn1 hm1 hlt =>
            have hgt : f9.numel < e9.numel := by
              simp only [beq_iff_eq] at hne
              omega
            split at h
            · cases h
            · next hd =>
              simp only [bne_iff_ne, ne_eq, Decidable.not_not] at hd
              simp only at h
              split at h
              · next st1 h1 => exact .pGt hgt hd (ihu _ _ _ _ h1) (ihp _ _ _ _ h)
              · next r hr =>
                rw [h] at hr
                exact absurd rfl (hr st')
  | [], fs =>
    rw [unifyProd.eq_3 _ _ _ _ (by intros; simp_all)] at h
    exact .pEnd (.inl rfl) (ihn _ _ _ h)
  | e9 :: es, [] =>
    rw [unifyProd.eq_3 _ _ _ _ (by intros; simp_all)] at h
    exact .pEnd (.inr rfl) (ihn _ _ _ h)

theorem run_step_units (fuel : Nat)
    (ihu : ∀ e f st st', unify fuel e f st = (true, st') → Run (.u e f) st st')
    (ihn : ∀ xs st st', unifyUnits fuel xs st = (true, st') → Run (.n xs) st st')
    (xs : List Axis) (st st' : St) (h : unifyUnits (fuel+1) xs st = (true, st')) : Run (.n xs) st st' := by
  match xs with
  | [] =>
    rw [unifyUnits] at h
    cases h
    exact .nNil
  | x :: xs =>
    rw [unifyUnits.eq_3] at h
    split at h
    · next st1 h1 => exact .nCons (ihu _ _ _ _ h1) (ihn _ _ _ h)
    · next r hr =>
      rw [h] at hr
      exact absurd rfl (hr st')

/-- every successful run of the model is a derivation of `Run` -/
theorem run_of_fuel : ∀ fuel : Nat,
    (∀ e f st st', unify fuel e f st = (true, st') → Run (.u e f) st st') ∧
    (∀ es fs st st', unifyProd fuel es fs st = (true, st') → Run (.p es fs) st st') ∧
    (∀ xs st st', unifyUnits fuel xs st = (true, st') → Run (.n xs) st st')
  | 0 => by
    refine ⟨?_, ?_, ?_⟩
    · intro e f st st' h; rw [unify] at h; cases h
    · intro es fs st st' h; rw [unifyProd] at h; cases h
    · intro xs st st' h; rw [unifyUnits] at h; cases h
  | fuel+1 => by
    obtain ⟨ihu, ihp, ihn⟩ := run_of_fuel fuel
    exact ⟨run_step_unify fuel ihu ihp, run_step_prod fuel ihu ihp ihn, run_step_units fuel ihu ihn⟩

theorem run_of_unify {fuel : Nat} {e f : Axis} {st st' : St} (h : unify fuel e f st = (true, st')) :
    Run (.u e f) st st' := (run_of_fuel fuel).1 e f st st' h

/-! ### the state only grows -/

theorem Run.grows {g : Goal} {st st' : St} (h : Run g st st') :
    (∃ l, st'.subst = l ++ st.subst) ∧ st.next ≤ st'.next := by
  induction h with
  | same _ _ _ => exact ⟨⟨[], rfl⟩, Nat.le_refl _⟩
  | zero _ _ _ => exact ⟨⟨[], rfl⟩, Nat.le_refl _⟩
  | prod _ _ _ ih => exact ih
  | prodSum _ _ _ ih => exact ih
  | sumProd _ _ _ ih => exact ih
  | sum _ _ _ ih => exact ih
  | bindL _ _ => exact ⟨⟨[_], rfl⟩, Nat.le_refl _⟩
  | bindR _ _ => exact ⟨⟨[_], rfl⟩, Nat.le_refl _⟩
  | unitL _ _ _ ih => exact ih
  | unitR _ _ _ ih => exact ih
  | pEq _ _ _ ih1 ih2 =>
    obtain ⟨⟨l1, e1⟩, n1⟩ := ih1
    obtain ⟨⟨l2, e2⟩, n2⟩ := ih2
    exact ⟨⟨l2 ++ l1, by rw [e2, e1, List.append_assoc]⟩, Nat.le_trans n1 n2⟩
  | pUnitR _ _ _ ih1 ih2 =>
    obtain ⟨⟨l1, e1⟩, n1⟩ := ih1
    obtain ⟨⟨l2, e2⟩, n2⟩ := ih2
    exact ⟨⟨l2 ++ l1, by rw [e2, e1, List.append_assoc]⟩, Nat.le_trans n1 n2⟩
  | pUnitL _ _ _ ih1 ih2 =>
    obtain ⟨⟨l1, e1⟩, n1⟩ := ih1
    obtain ⟨⟨l2, e2⟩, n2⟩ := ih2
    exact ⟨⟨l2 ++ l1, by rw [e2, e1, List.append_assoc]⟩, Nat.le_trans n1 n2⟩
  | @pLt e9 f9 es fs st st1 st' _ _ _ _ ih1 ih2 =>
    obtain ⟨⟨l1, e1⟩, n1⟩ := ih1
    obtain ⟨⟨l2, e2⟩, n2⟩ := ih2
    refine ⟨⟨l2 ++ l1, by rw [e2, e1, List.append_assoc]; rfl⟩, ?_⟩
    have : st.next ≤ st.fresh.next := Nat.le_succ _
    omega
  | @pGt e9 f9 es fs st st1 st' _ _ _ _ ih1 ih2 =>
    obtain ⟨⟨l1, e1⟩, n1⟩ := ih1
    obtain ⟨⟨l2, e2⟩, n2⟩ := ih2
    refine ⟨⟨l2 ++ l1, by rw [e2, e1, List.append_assoc]; rfl⟩, ?_⟩
    have : st.next ≤ st.fresh.next := Nat.le_succ _
    omega
  | pEnd _ _ ih => exact ih
  | nNil => exact ⟨⟨[], rfl⟩, Nat.le_refl _⟩
  | nCons _ _ ih1 ih2 =>
    obtain ⟨⟨l1, e1⟩, n1⟩ := ih1
    obtain ⟨⟨l2, e2⟩, n2⟩ := ih2
    exact ⟨⟨l2 ++ l1, by rw [e2, e1, List.append_assoc]⟩, Nat.le_trans n1 n2⟩

theorem Sat.of_append {ρ : Nat → Nat} {l σ : Subst} (h : Sat ρ (l ++ σ)) : Sat ρ σ :=
  fun p hp => h p (List.mem_append_right _ hp)

theorem Run.sat {g : Goal} {st st' : St} (h : Run g st st') {ρ : Nat → Nat} (hs : Sat ρ st'.subst) :
    Sat ρ st.subst := by
  obtain ⟨⟨l, e⟩, _⟩ := h.grows
  rw [e] at hs
  exact hs.of_append

theorem div_ne_zero_of {m n : Nat} (hlt : m < n) (hd : n % m = 0) : n / m ≠ 0 := by
  have hm : 0 < m := by
    rcases Nat.eq_zero_or_pos m with h | h
    · subst h; simp at hd; omega
    · exact h
  have := Nat.div_pos (Nat.le_of_lt hlt) hm
  omega

/-! ### generic preservation of a predicate on the (identity, size) pairs -/

structure QOk (Q : Nat → Nat × Nat → Prop) : Prop where
  mono : ∀ a b p, a ≤ b → Q a p → Q b p
  fresh : ∀ nx q, q ≠ 0 → Q (nx+1) (nx, q)

def AxQ (Q : Nat → Nat × Nat → Prop) (nx : Nat) (a : Axis) : Prop := ∀ q ∈ a.fv, Q nx q

def StQ (Q : Nat → Nat × Nat → Prop) (st : St) : Prop :=
  ∀ p ∈ st.subst, (∃ n, Q st.next (p.1, n)) ∧ AxQ Q st.next p.2

def GoalQ (Q : Nat → Nat × Nat → Prop) (nx : Nat) : Goal → Prop
  | .u e f => AxQ Q nx e ∧ AxQ Q nx f
  | .p es fs => (∀ x ∈ es, AxQ Q nx x) ∧ (∀ x ∈ fs, AxQ Q nx x)
  | .n xs => ∀ x ∈ xs, AxQ Q nx x

variable {Q : Nat → Nat × Nat → Prop}

theorem AxQ.mono (hQ : QOk Q) {a b : Nat} (hab : a ≤ b) {x : Axis} (h : AxQ Q a x) : AxQ Q b x :=
  fun q hq => hQ.mono a b q hab (h q hq)

theorem GoalQ.mono (hQ : QOk Q) {a b : Nat} (hab : a ≤ b) {g : Goal} (h : GoalQ Q a g) : GoalQ Q b g := by
  cases g with
  | u e f => exact ⟨h.1.mono hQ hab, h.2.mono hQ hab⟩
  | p es fs => exact ⟨fun x hx => (h.1 x hx).mono hQ hab, fun x hx => (h.2 x hx).mono hQ hab⟩
  | n xs => exact fun x hx => (h x hx).mono hQ hab

theorem StQ.fresh (hQ : QOk Q) {st : St} (h : StQ Q st) : StQ Q st.fresh := by
  intro p hp
  obtain ⟨⟨n, h1⟩, h2⟩ := h p hp
  exact ⟨⟨n, hQ.mono _ _ _ (Nat.le_succ _) h1⟩, h2.mono hQ (Nat.le_succ _)⟩

theorem Lk.axQ {st : St} (hst : StQ Q st) {e0 e : Axis} (h : Lk st.subst e0 e) (h0 : AxQ Q st.next e0) :
    AxQ Q st.next e := by
  intro q hq
  rcases h.fv hq with h1 | ⟨p, hp, h1⟩
  · exact h0 q h1
  · exact (hst p hp).2 q h1

theorem AxQ.prod {nx : Nat} {es : List Axis} (h : AxQ Q nx (.prod es)) : ∀ x ∈ es, AxQ Q nx x :=
  fun x hx q hq => h q (mem_fv_prod.2 ⟨x, hx, hq⟩)

theorem AxQ.sum {nx b a : Nat} {t : Axis} (h : AxQ Q nx (.sum b t a)) : AxQ Q nx t :=
  fun q hq => h q (by simpa [Axis.fv] using hq)

theorem AxQ.unit {nx : Nat} : AxQ Q nx unitAxis := fun q hq => by simp [unitAxis_fv] at hq

theorem StQ.bind {st : St} (hst : StQ Q st) {v n : Nat} {f : Axis} (hv : AxQ Q st.next (.phys v n))
    (hf : AxQ Q st.next f) : StQ Q (bind st v f) := by
  intro p hp
  change p ∈ (v, f) :: st.subst at hp
  rw [List.mem_cons] at hp
  rcases hp with rfl | hp
  · exact ⟨⟨n, hv (v, n) (by simp [Axis.fv])⟩, hf⟩
  · exact hst p hp

theorem AxQ.split (hQ : QOk Q) {nx q : Nat} {x : Axis} (hq : q ≠ 0) (hx : AxQ Q nx x) :
    AxQ Q (nx+1) (productAxis [.phys nx q, x]) := by
  intro p hp
  obtain ⟨f, hf, hpf⟩ := (mem_fv_productAxis _).1 hp
  simp only [List.mem_cons, List.not_mem_nil, or_false] at hf
  rcases hf with hf | hf
  · rw [hf] at hpf
    simp only [Axis.fv, List.mem_singleton] at hpf
    rw [hpf]; exact hQ.fresh nx q hq
  · rw [hf] at hpf
    exact hQ.mono _ _ _ (Nat.le_succ _) (hx p hpf)

theorem AxQ.freshAx (hQ : QOk Q) {nx q : Nat} (hq : q ≠ 0) : AxQ Q (nx+1) (.phys nx q) := by
  intro p hp
  simp only [Axis.fv, List.mem_singleton] at hp
  rw [hp]; exact hQ.fresh nx q hq

/-- **preservation**: a property of the (identity, size) pairs that is monotone in the counter and holds of
fresh axes of non-zero size holds of the whole state after a run -/
theorem Run.preserves (hQ : QOk Q) {g : Goal} {st st' : St} (h : Run g st st') :
    StQ Q st → GoalQ Q st.next g → StQ Q st' := by
  induction h with
  | same _ _ _ => exact fun hst _ => hst
  | zero _ _ _ => exact fun hst _ => hst
  | prod he hf _ ih =>
    intro hst hg
    refine ih hst ⟨fun x hx => (he.axQ hst hg.1).prod x (by simpa using hx),
      fun x hx => (hf.axQ hst hg.2).prod x (by simpa using hx)⟩
  | prodSum he hf _ ih =>
    intro hst hg
    refine ih hst ⟨fun x hx => (he.axQ hst hg.1).prod x (by simpa using hx), fun x hx => ?_⟩
    simp only [List.mem_singleton] at hx
    rw [hx]; exact hf.axQ hst hg.2
  | sumProd he hf _ ih =>
    intro hst hg
    refine ih hst ⟨fun x hx => ?_, fun x hx => (hf.axQ hst hg.2).prod x (by simpa using hx)⟩
    simp only [List.mem_singleton] at hx
    rw [hx]; exact he.axQ hst hg.1
  | sum he hf _ ih =>
    intro hst hg
    exact ih hst ⟨(he.axQ hst hg.1).sum, (hf.axQ hst hg.2).sum⟩
  | bindL he hf =>
    intro hst hg
    exact hst.bind (he.axQ hst hg.1) (hf.axQ hst hg.2)
  | bindR he hf =>
    intro hst hg
    exact hst.bind (hf.axQ hst hg.2) (he.axQ hst hg.1)
  | unitL he hf _ ih =>
    intro hst hg
    exact ih hst ⟨AxQ.unit, (hf.axQ hst hg.2).sum⟩
  | unitR he hf _ ih =>
    intro hst hg
    exact ih hst ⟨AxQ.unit, (he.axQ hst hg.1).sum⟩
  | pEq hmn h1 h2 ih1 ih2 =>
    intro hst hg
    have hst1 := ih1 hst ⟨hg.1 _ (by simp), hg.2 _ (by simp)⟩
    refine ih2 hst1 (GoalQ.mono hQ h1.grows.2 (g := .p _ _) ⟨fun x hx => hg.1 x (by simp [hx]), fun x hx => hg.2 x (by simp [hx])⟩)
  | pUnitR hn h1 h2 ih1 ih2 =>
    intro hst hg
    have hst1 := ih1 hst ⟨hg.2 _ (by simp), AxQ.unit⟩
    refine ih2 hst1 (GoalQ.mono hQ h1.grows.2 (g := .p _ _) ⟨hg.1, fun x hx => hg.2 x (by simp [hx])⟩)
  | pUnitL hm h1 h2 ih1 ih2 =>
    intro hst hg
    have hst1 := ih1 hst ⟨hg.1 _ (by simp), AxQ.unit⟩
    refine ih2 hst1 (GoalQ.mono hQ h1.grows.2 (g := .p _ _) ⟨fun x hx => hg.1 x (by simp [hx]), hg.2⟩)
  | @pLt e9 f9 es fs st st1 st' hlt hd h1 h2 ih1 ih2 =>
    intro hst hg
    have hq := div_ne_zero_of hlt hd
    have hst1 := ih1 (hst.fresh hQ) ⟨(hg.2 _ (by simp)).mono hQ (Nat.le_succ _), AxQ.split hQ hq (hg.1 _ (by simp))⟩
    have hle : st.next + 1 ≤ st1.next := h1.grows.2
    refine ih2 hst1 ⟨fun x hx => (hg.1 x (by simp [hx])).mono hQ (by omega), fun x hx => ?_⟩
    simp only [List.mem_cons] at hx
    rcases hx with rfl | hx
    · exact (AxQ.freshAx hQ hq).mono hQ hle
    · exact (hg.2 x (by simp [hx])).mono hQ (by omega)
  | @pGt e9 f9 es fs st st1 st' hlt hd h1 h2 ih1 ih2 =>
    intro hst hg
    have hq := div_ne_zero_of hlt hd
    have hst1 := ih1 (hst.fresh hQ) ⟨(hg.1 _ (by simp)).mono hQ (Nat.le_succ _), AxQ.split hQ hq (hg.2 _ (by simp))⟩
    have hle : st.next + 1 ≤ st1.next := h1.grows.2
    refine ih2 hst1 ⟨fun x hx => ?_, fun x hx => (hg.2 x (by simp [hx])).mono hQ (by omega)⟩
    simp only [List.mem_cons] at hx
    rcases hx with rfl | hx
    · exact (AxQ.freshAx hQ hq).mono hQ hle
    · exact (hg.1 x (by simp [hx])).mono hQ (by omega)
  | pEnd _ _ ih =>
    intro hst hg
    refine ih hst (fun x hx => ?_)
    simp only [List.mem_append, List.mem_reverse] at hx
    rcases hx with hx | hx
    · exact hg.1 x hx
    · exact hg.2 x hx
  | nNil => exact fun hst _ => hst
  | nCons h1 h2 ih1 ih2 =>
    intro hst hg
    have hst1 := ih1 hst ⟨hg _ (by simp), AxQ.unit⟩
    exact ih2 hst1 (fun x hx => (hg x (by simp [hx])).mono hQ h1.grows.2)


/-! ### soundness -/

/-- what a goal means under an assignment -/
def SoundG (ρ : Nat → Nat) : Goal → Prop
  | .u e f => e.eval ρ = f.eval ρ
  | .p es fs => evalList ρ es.reverse 0 = evalList ρ fs.reverse 0
  | .n xs => ∀ x ∈ xs, x.eval ρ = 0

/-- no physical axis of size zero -/
def NZ : Nat → Nat × Nat → Prop := fun _ p => p.2 ≠ 0

theorem NZ_ok : QOk NZ := ⟨fun _ _ _ _ h => h, fun _ _ h => h⟩

mutual
theorem zero_fv : ∀ (e : Axis), zero e = true → ∃ q ∈ e.fv, q.2 = 0
  | .phys v n, h => by
    simp only [zero, beq_iff_eq] at h
    exact ⟨(v, n), by simp [Axis.fv], h⟩
  | .prod fs, h => by
    rw [zero] at h
    obtain ⟨q, hq, h0⟩ := zeroList_fv fs h
    exact ⟨q, by rw [Axis.fv]; exact hq, h0⟩
  | .sum b t a, h => by
    simp only [zero, Bool.and_eq_true] at h
    obtain ⟨q, hq, h0⟩ := zero_fv t h.2
    exact ⟨q, by rw [Axis.fv]; exact hq, h0⟩
theorem zeroList_fv : ∀ (fs : List Axis), zeroList fs = true → ∃ q ∈ fvList fs, q.2 = 0
  | [], h => by simp [zeroList] at h
  | f :: fs, h => by
    simp only [zeroList, Bool.or_eq_true] at h
    rcases h with h | h
    · obtain ⟨q, hq, h0⟩ := zero_fv f h
      exact ⟨q, by simp [fvList, hq], h0⟩
    · obtain ⟨q, hq, h0⟩ := zeroList_fv fs h
      exact ⟨q, by simp [fvList, hq], h0⟩
end

theorem samePhys_eval {e f : Axis} (h : samePhys e f = true) (ρ : Nat → Nat) : e.eval ρ = f.eval ρ := by
  cases e <;> cases f <;> simp [samePhys] at h
  subst h
  simp [Axis.eval]

theorem evalList_zero (ρ : Nat → Nat) : ∀ (xs : List Axis), (∀ x ∈ xs, x.eval ρ = 0) → evalList ρ xs 0 = 0
  | [], _ => by simp [evalList]
  | x :: xs, h => by
    rw [evalList_cons_zero, h x (by simp), evalList_zero ρ xs (fun y hy => h y (by simp [hy]))]
    simp

theorem eval_split (ρ : Nat → Nat) (v q : Nat) (x : Axis) :
    (productAxis [.phys v q, x]).eval ρ = ρ v * x.numel + x.eval ρ := by
  rw [C06.productAxis_eval, Axis.eval]
  simp [evalList, Axis.eval]

theorem numel_split (v q : Nat) (x : Axis) : (productAxis [.phys v q, x]).numel = q * x.numel := by
  rw [C06.productAxis_numel, Axis.numel]
  simp [numelList, Axis.numel]

theorem evalList_rev_cons (ρ : Nat → Nat) (x : Axis) (xs : List Axis) :
    evalList ρ (x :: xs).reverse 0 = evalList ρ xs.reverse 0 * x.numel + x.eval ρ := by
  rw [List.reverse_cons, evalList_snoc]

theorem Run.sound {g : Goal} {st st' : St} (h : Run g st st') :
    StQ NZ st → GoalQ NZ st.next g → ∀ ρ, Sat ρ st'.subst → SoundG ρ g := by
  induction h with
  | same he hf hs =>
    intro hst hg ρ hsat
    show _ = _
    rw [← he.eval hsat, ← hf.eval hsat]
    exact samePhys_eval hs ρ
  | zero he hf hz =>
    intro hst hg ρ hsat
    obtain ⟨q, hq, h0⟩ := zeroList_fv _ hz
    exact absurd h0 ((he.axQ hst hg.1) q (by rw [Axis.fv]; exact hq))
  | prod he hf h ih =>
    intro hst hg ρ hsat
    have hs0 := h.sat hsat
    have := ih hst ⟨fun x hx => (he.axQ hst hg.1).prod x (by simpa using hx),
      fun x hx => (hf.axQ hst hg.2).prod x (by simpa using hx)⟩ ρ hsat
    simp only [SoundG, List.reverse_reverse] at this
    show _ = _
    rw [← he.eval hs0, ← hf.eval hs0, Axis.eval, Axis.eval]
    exact this
  | @prodSum e0 f0 t b a es st st' he hf h ih =>
    intro hst hg ρ hsat
    have hs0 := h.sat hsat
    have := ih hst ⟨fun x hx => (he.axQ hst hg.1).prod x (by simpa using hx), fun x hx => by
      simp only [List.mem_singleton] at hx
      rw [hx]; exact hf.axQ hst hg.2⟩ ρ hsat
    simp only [SoundG, List.reverse_reverse] at this
    show _ = _
    rw [← he.eval hs0, ← hf.eval hs0, Axis.eval, this]
    simp [evalList]
  | @sumProd e0 f0 t b a fs st st' he hf h ih =>
    intro hst hg ρ hsat
    have hs0 := h.sat hsat
    have := ih hst ⟨fun x hx => by
      simp only [List.mem_singleton] at hx
      rw [hx]; exact he.axQ hst hg.1, fun x hx => (hf.axQ hst hg.2).prod x (by simpa using hx)⟩ ρ hsat
    simp only [SoundG, List.reverse_reverse] at this
    show _ = _
    rw [← he.eval hs0, ← hf.eval hs0, Axis.eval.eq_2, ← this]
    simp [evalList]
  | sum he hf h ih =>
    intro hst hg ρ hsat
    have hs0 := h.sat hsat
    have := ih hst ⟨(he.axQ hst hg.1).sum, (hf.axQ hst hg.2).sum⟩ ρ hsat
    simp only [SoundG] at this
    show _ = _
    rw [← he.eval hs0, ← hf.eval hs0, Axis.eval, Axis.eval, this]
  | @bindL e0 f0 f v n st he hf =>
    intro hst hg ρ hsat
    have hs0 : Sat ρ st.subst := fun p hp => hsat p (List.mem_cons_of_mem _ hp)
    have hb : ρ v = f.eval ρ := hsat (v, f) (List.mem_cons_self)
    show _ = _
    rw [← he.eval hs0, ← hf.eval hs0, Axis.eval, hb]
  | @bindR e0 f0 e w n st he hf =>
    intro hst hg ρ hsat
    have hs0 : Sat ρ st.subst := fun p hp => hsat p (List.mem_cons_of_mem _ hp)
    have hb : ρ w = e.eval ρ := hsat (w, e) (List.mem_cons_self)
    show _ = _
    rw [← he.eval hs0, ← hf.eval hs0, Axis.eval, hb]
  | unitL he hf h ih =>
    intro hst hg ρ hsat
    have hs0 := h.sat hsat
    have := ih hst ⟨AxQ.unit, (hf.axQ hst hg.2).sum⟩ ρ hsat
    simp only [SoundG, unitAxis_eval] at this
    show _ = _
    rw [← he.eval hs0, ← hf.eval hs0, Axis.eval, Axis.eval, ← this]
    simp [evalList]
  | unitR he hf h ih =>
    intro hst hg ρ hsat
    have hs0 := h.sat hsat
    have := ih hst ⟨AxQ.unit, (he.axQ hst hg.1).sum⟩ ρ hsat
    simp only [SoundG, unitAxis_eval] at this
    show _ = _
    rw [← he.eval hs0, ← hf.eval hs0, Axis.eval, Axis.eval, ← this]
    simp [evalList]
  | @pEq e9 f9 es fs st st1 st' hmn h1 h2 ih1 ih2 =>
    intro hst hg ρ hsat
    have hg1 : GoalQ NZ st.next (.u e9 f9) := ⟨hg.1 _ (by simp), hg.2 _ (by simp)⟩
    have hst1 := h1.preserves NZ_ok hst hg1
    have e1 := ih1 hst hg1 ρ (h2.sat hsat)
    have e2 := ih2 hst1 (GoalQ.mono NZ_ok h1.grows.2 (g := .p _ _)
      ⟨fun x hx => hg.1 x (by simp [hx]), fun x hx => hg.2 x (by simp [hx])⟩) ρ hsat
    simp only [SoundG] at e1 e2 ⊢
    rw [evalList_rev_cons, evalList_rev_cons, e1, e2, hmn]
  | @pUnitR f9 es fs st st1 st' hn h1 h2 ih1 ih2 =>
    intro hst hg ρ hsat
    have hg1 : GoalQ NZ st.next (.u f9 unitAxis) := ⟨hg.2 _ (by simp), AxQ.unit⟩
    have hst1 := h1.preserves NZ_ok hst hg1
    have e1 := ih1 hst hg1 ρ (h2.sat hsat)
    have e2 := ih2 hst1 (GoalQ.mono NZ_ok h1.grows.2 (g := .p _ _)
      ⟨hg.1, fun x hx => hg.2 x (by simp [hx])⟩) ρ hsat
    simp only [SoundG, unitAxis_eval] at e1 e2 ⊢
    rw [evalList_rev_cons, e1, hn, e2]; simp
  | @pUnitL e9 es fs st st1 st' hm h1 h2 ih1 ih2 =>
    intro hst hg ρ hsat
    have hg1 : GoalQ NZ st.next (.u e9 unitAxis) := ⟨hg.1 _ (by simp), AxQ.unit⟩
    have hst1 := h1.preserves NZ_ok hst hg1
    have e1 := ih1 hst hg1 ρ (h2.sat hsat)
    have e2 := ih2 hst1 (GoalQ.mono NZ_ok h1.grows.2 (g := .p _ _)
      ⟨fun x hx => hg.1 x (by simp [hx]), hg.2⟩) ρ hsat
    simp only [SoundG, unitAxis_eval] at e1 e2 ⊢
    rw [evalList_rev_cons, e1, hm, e2]; simp
  | @pLt e9 f9 es fs st st1 st' hlt hd h1 h2 ih1 ih2 =>
    intro hst hg ρ hsat
    have hq := div_ne_zero_of hlt hd
    have hg1 : GoalQ NZ st.fresh.next (.u f9 (productAxis [.phys st.next (f9.numel / e9.numel), e9])) :=
      ⟨(hg.2 _ (by simp)).mono NZ_ok (Nat.le_succ _), AxQ.split NZ_ok hq (hg.1 _ (by simp))⟩
    have hst1 := h1.preserves NZ_ok (hst.fresh NZ_ok) hg1
    have e1 := ih1 (hst.fresh NZ_ok) hg1 ρ (h2.sat hsat)
    have e2 := ih2 hst1 ⟨fun x hx q hq' => hg.1 x (by simp [hx]) q hq', fun x hx => by
      simp only [List.mem_cons] at hx
      rcases hx with rfl | hx
      · intro p hp
        simp only [Axis.fv, List.mem_singleton] at hp
        rw [hp]; exact hq
      · exact fun q hq' => hg.2 x (by simp [hx]) q hq'⟩ ρ hsat
    simp only [SoundG] at e1 e2 ⊢
    rw [eval_split] at e1
    rw [evalList_rev_cons] at e2
    simp only [Axis.numel, Axis.eval] at e2
    rw [evalList_rev_cons, evalList_rev_cons, e1, e2]
    have hn : f9.numel = f9.numel / e9.numel * e9.numel := (Nat.div_mul_cancel (Nat.dvd_of_mod_eq_zero hd)).symm
    generalize f9.numel / e9.numel = q at hn ⊢
    rw [hn]; ring
  | @pGt e9 f9 es fs st st1 st' hlt hd h1 h2 ih1 ih2 =>
    intro hst hg ρ hsat
    have hq := div_ne_zero_of hlt hd
    have hg1 : GoalQ NZ st.fresh.next (.u e9 (productAxis [.phys st.next (e9.numel / f9.numel), f9])) :=
      ⟨(hg.1 _ (by simp)).mono NZ_ok (Nat.le_succ _), AxQ.split NZ_ok hq (hg.2 _ (by simp))⟩
    have hst1 := h1.preserves NZ_ok (hst.fresh NZ_ok) hg1
    have e1 := ih1 (hst.fresh NZ_ok) hg1 ρ (h2.sat hsat)
    have e2 := ih2 hst1 ⟨fun x hx => by
      simp only [List.mem_cons] at hx
      rcases hx with rfl | hx
      · intro p hp
        simp only [Axis.fv, List.mem_singleton] at hp
        rw [hp]; exact hq
      · exact fun q hq' => hg.1 x (by simp [hx]) q hq', fun x hx q hq' => hg.2 x (by simp [hx]) q hq'⟩ ρ hsat
    simp only [SoundG] at e1 e2 ⊢
    rw [eval_split] at e1
    rw [evalList_rev_cons] at e2
    simp only [Axis.numel, Axis.eval] at e2
    rw [evalList_rev_cons, evalList_rev_cons, e1, ← e2]
    have hn : e9.numel = e9.numel / f9.numel * f9.numel := (Nat.div_mul_cancel (Nat.dvd_of_mod_eq_zero hd)).symm
    generalize e9.numel / f9.numel = q at hn ⊢
    rw [hn]; ring
  | @pEnd es fs st st' he h ih =>
    intro hst hg ρ hsat
    have := ih hst (fun x hx => by
      simp only [List.mem_append, List.mem_reverse] at hx
      rcases hx with hx | hx
      · exact hg.1 x hx
      · exact hg.2 x hx) ρ hsat
    simp only [SoundG] at this ⊢
    rw [evalList_zero ρ es.reverse (fun x hx => this x (by simp at hx; simp [hx])),
      evalList_zero ρ fs.reverse (fun x hx => this x (by simp at hx; simp [hx]))]
  | nNil => intro _ _ ρ _ x hx; simp at hx
  | @nCons x xs st st1 st' h1 h2 ih1 ih2 =>
    intro hst hg ρ hsat
    have hg1 : GoalQ NZ st.next (.u x unitAxis) := ⟨hg _ (by simp), AxQ.unit⟩
    have hst1 := h1.preserves NZ_ok hst hg1
    have e1 := ih1 hst hg1 ρ (h2.sat hsat)
    have e2 := ih2 hst1 (fun y hy => hg y (by simp [hy])) ρ hsat
    simp only [SoundG, unitAxis_eval] at e1 e2 ⊢
    intro y hy
    simp only [List.mem_cons] at hy
    rcases hy with rfl | hy
    · exact e1
    · exact e2 y hy


/-! ### most general: arithmetic of mixed-radix digits -/

theorem digit_eq {A B m x y : Nat} (h : A * m + x = B * m + y) (hx : x < m) (hy : y < m) : x = y ∧ A = B := by
  rcases Nat.lt_trichotomy A B with hlt | heq | hgt
  · have : (A + 1) * m ≤ B * m := Nat.mul_le_mul_right m hlt
    rw [Nat.add_mul] at this
    omega
  · subst heq; omega
  · have : (B + 1) * m ≤ A * m := Nat.mul_le_mul_right m hgt
    rw [Nat.add_mul] at this
    omega

theorem digit_split {A B m n x y : Nat} (h : A * m + x = B * n + y) (hd : n % m = 0) (hx : x < m) (hy : y < n) :
    y = y / m * m + x ∧ A = B * (n / m) + y / m ∧ y / m < n / m := by
  have hn : n = n / m * m := (Nat.div_mul_cancel (Nat.dvd_of_mod_eq_zero hd)).symm
  have hm : 0 < m := by omega
  have hy' : y = y / m * m + y % m := by rw [Nat.mul_comm]; exact (Nat.div_add_mod y m).symm
  have hs : y % m < m := Nat.mod_lt _ hm
  have hlt : y / m < n / m := by
    rw [Nat.div_lt_iff_lt_mul hm, ← hn]; exact hy
  generalize n / m = q at hn hlt ⊢
  generalize y / m = r at hy' hlt ⊢
  generalize y % m = s at hy' hs
  have h2 : A * m + x = (B * q + r) * m + s := by
    rw [h, hn, hy']; ring
  obtain ⟨h3, h4⟩ := digit_eq h2 hx hs
  exact ⟨by rw [h3]; exact hy', h4, hlt⟩

theorem numelList_pos : ∀ (xs : List Axis), (∀ x ∈ xs, 0 < x.numel) → 0 < numelList xs
  | [], _ => by simp [numelList]
  | x :: xs, h => by
    rw [numelList]
    exact Nat.mul_pos (h x (by simp)) (numelList_pos xs (fun y hy => h y (by simp [hy])))

theorem evalList_eq_zero (ρ : Nat → Nat) : ∀ (xs : List Axis), evalList ρ xs 0 = 0 →
    (∀ x ∈ xs, x.eval ρ < x.numel) → ∀ x ∈ xs, x.eval ρ = 0
  | [], _, _ => by simp
  | x :: xs, h, hr => by
    rw [evalList_cons_zero] at h
    have hpos := numelList_pos xs (fun y hy => by have := hr y (by simp [hy]); omega)
    have h1 : evalList ρ xs 0 = 0 := by omega
    have h2 : x.eval ρ * numelList xs = 0 := by omega
    have h3 : x.eval ρ = 0 := by
      rcases Nat.mul_eq_zero.1 h2 with h | h
      · exact h
      · omega
    intro y hy
    simp only [List.mem_cons] at hy
    rcases hy with rfl | hy
    · exact h3
    · exact evalList_eq_zero ρ xs h1 (fun z hz => hr z (by simp [hz])) y hy

/-! ### most general: agreement of assignments below the counter -/

/-- all identities are below the counter -/
def Bd : Nat → Nat × Nat → Prop := fun nx p => p.1 < nx

theorem Bd_ok : QOk Bd := ⟨fun a b p hab h => Nat.lt_of_lt_of_le h hab, fun nx q _ => Nat.lt_succ_self nx⟩

def Agree (nx : Nat) (ρ ρ' : Nat → Nat) : Prop := ∀ v < nx, ρ' v = ρ v

theorem Agree.trans {a b : Nat} {ρ ρ' ρ'' : Nat → Nat} (hab : a ≤ b) (h1 : Agree a ρ ρ') (h2 : Agree b ρ' ρ'') :
    Agree a ρ ρ'' := fun v hv => by rw [h2 v (by omega), h1 v hv]

theorem Agree.mono {a b : Nat} {ρ ρ' : Nat → Nat} (hab : a ≤ b) (h : Agree b ρ ρ') : Agree a ρ ρ' :=
  fun v hv => h v (by omega)

theorem Agree.eval {nx : Nat} {ρ ρ' : Nat → Nat} (h : Agree nx ρ ρ') {x : Axis} (hx : AxQ Bd nx x) :
    x.eval ρ' = x.eval ρ := eval_congr ρ' ρ x (fun q hq => h q.1 (hx q hq))

theorem Agree.inRange {nx : Nat} {ρ ρ' : Nat → Nat} (h : Agree nx ρ ρ') {x : Axis} (hx : AxQ Bd nx x)
    (hr : InRange ρ x) : InRange ρ' x := fun q hq => by rw [h q.1 (hx q hq)]; exact hr q hq

theorem Agree.evalList {nx : Nat} {ρ ρ' : Nat → Nat} (h : Agree nx ρ ρ') {xs : List Axis}
    (hx : ∀ x ∈ xs, AxQ Bd nx x) : evalList ρ' xs 0 = evalList ρ xs 0 :=
  evalList_congr' ρ' ρ xs (fun f hf q hq => h q.1 (hx f hf q hq))

theorem Agree.sat {st : St} {ρ ρ' : Nat → Nat} (h : Agree st.next ρ ρ') (hst : StQ Bd st) (hs : Sat ρ st.subst) :
    Sat ρ' st.subst := fun p hp => by
  obtain ⟨⟨n, hk⟩, ha⟩ := hst p hp
  rw [h p.1 hk, h.eval ha]; exact hs p hp

theorem Agree.inRangeS {st : St} {ρ ρ' : Nat → Nat} (h : Agree st.next ρ ρ') (hst : StQ Bd st)
    (hs : InRangeS ρ st.subst) : InRangeS ρ' st.subst := fun p hp => h.inRange (hst p hp).2 (hs p hp)

theorem Lk.inRange {σ : Subst} {ρ : Nat → Nat} (hs : InRangeS ρ σ) {e0 e : Axis} (h : Lk σ e0 e)
    (h0 : InRange ρ e0) : InRange ρ e := by
  intro q hq
  rcases h.fv hq with h1 | ⟨p, hp, h1⟩
  · exact h0 q h1
  · exact hs p hp q h1

def InRangeG (ρ : Nat → Nat) : Goal → Prop
  | .u e f => InRange ρ e ∧ InRange ρ f
  | .p es fs => (∀ x ∈ es, InRange ρ x) ∧ (∀ x ∈ fs, InRange ρ x)
  | .n xs => ∀ x ∈ xs, InRange ρ x

theorem InRange.lt {ρ : Nat → Nat} {x : Axis} (h : InRange ρ x) : x.eval ρ < x.numel := C06.eval_lt_numel x ρ h

theorem InRange.prod {ρ : Nat → Nat} {es : List Axis} (h : InRange ρ (.prod es)) : ∀ x ∈ es, InRange ρ x :=
  fun x hx q hq => h q (mem_fv_prod.2 ⟨x, hx, hq⟩)

theorem InRange.sum {ρ : Nat → Nat} {b a : Nat} {t : Axis} (h : InRange ρ (.sum b t a)) : InRange ρ t :=
  fun q hq => h q (by simpa [Axis.fv] using hq)

theorem InRange.unit {ρ : Nat → Nat} : InRange ρ unitAxis := fun q hq => by simp [unitAxis_fv] at hq

theorem InRange.split {ρ : Nat → Nat} {v q : Nat} {x : Axis} (hv : ρ v < q) (hx : InRange ρ x) :
    InRange ρ (productAxis [.phys v q, x]) := by
  intro p hp
  obtain ⟨f, hf, hpf⟩ := (mem_fv_productAxis _).1 hp
  simp only [List.mem_cons, List.not_mem_nil, or_false] at hf
  rcases hf with hf | hf
  · rw [hf] at hpf
    simp only [Axis.fv, List.mem_singleton] at hpf
    rw [hpf]; exact hv
  · rw [hf] at hpf
    exact hx p hpf

theorem InRange.phys {ρ : Nat → Nat} {v q : Nat} (hv : ρ v < q) : InRange ρ (.phys v q) := by
  intro p hp
  simp only [Axis.fv, List.mem_singleton] at hp
  rw [hp]; exact hv

theorem InRangeS.bind {ρ : Nat → Nat} {st : St} (hs : InRangeS ρ st.subst) {v : Nat} {f : Axis}
    (hf : InRange ρ f) : InRangeS ρ (bind st v f).subst := by
  intro p hp
  change p ∈ (v, f) :: st.subst at hp
  rw [List.mem_cons] at hp
  rcases hp with rfl | hp
  · exact hf
  · exact hs p hp

theorem Sat.bind {ρ : Nat → Nat} {st : St} (hs : Sat ρ st.subst) {v : Nat} {f : Axis}
    (hf : ρ v = f.eval ρ) : Sat ρ (bind st v f).subst := by
  intro p hp
  change p ∈ (v, f) :: st.subst at hp
  rw [List.mem_cons] at hp
  rcases hp with rfl | hp
  · exact hf
  · exact hs p hp

/-- the assignment that additionally chooses the fresh axis -/
def ext (ρ : Nat → Nat) (v r : Nat) : Nat → Nat := fun w => if w = v then r else ρ w

theorem ext_agree (ρ : Nat → Nat) (v r : Nat) : Agree v ρ (ext ρ v r) := fun w hw => by
  have : w ≠ v := by omega
  simp [ext, this]

theorem ext_self (ρ : Nat → Nat) (v r : Nat) : ext ρ v r v = r := by simp [ext]


/-- **most general**: every in-range solution of the goal that satisfies the old substitution extends (by
choosing only the fresh axes) to a solution of the new substitution -/
theorem Run.mgu {g : Goal} {st st' : St} (h : Run g st st') :
    StQ Bd st → GoalQ Bd st.next g → ∀ ρ, Sat ρ st.subst → InRangeS ρ st.subst → InRangeG ρ g → SoundG ρ g →
    ∃ ρ', Agree st.next ρ ρ' ∧ Sat ρ' st'.subst ∧ InRangeS ρ' st'.subst := by
  induction h with
  | same he hf hs => exact fun _ _ ρ hsat hrs _ _ => ⟨ρ, fun _ _ => rfl, hsat, hrs⟩
  | zero he hf hz => exact fun _ _ ρ hsat hrs _ _ => ⟨ρ, fun _ _ => rfl, hsat, hrs⟩
  | prod he hf h ih =>
    intro hst hg ρ hsat hrs hrg hsd
    refine ih hst ⟨fun x hx => (he.axQ hst hg.1).prod x (by simpa using hx),
      fun x hx => (hf.axQ hst hg.2).prod x (by simpa using hx)⟩ ρ hsat hrs
      ⟨fun x hx => (he.inRange hrs hrg.1).prod x (by simpa using hx),
       fun x hx => (hf.inRange hrs hrg.2).prod x (by simpa using hx)⟩ ?_
    have e1 := he.eval hsat
    have e2 := hf.eval hsat
    simp only [SoundG, List.reverse_reverse] at hsd ⊢
    rw [Axis.eval] at e1 e2
    rw [e1, e2]; exact hsd
  | @prodSum e0 f0 t b a es st st' he hf h ih =>
    intro hst hg ρ hsat hrs hrg hsd
    refine ih hst ⟨fun x hx => (he.axQ hst hg.1).prod x (by simpa using hx), fun x hx => by
        simp only [List.mem_singleton] at hx
        rw [hx]; exact hf.axQ hst hg.2⟩ ρ hsat hrs
      ⟨fun x hx => (he.inRange hrs hrg.1).prod x (by simpa using hx), fun x hx => by
        simp only [List.mem_singleton] at hx
        rw [hx]; exact hf.inRange hrs hrg.2⟩ ?_
    have e1 := he.eval hsat
    have e2 := hf.eval hsat
    simp only [SoundG, List.reverse_reverse] at hsd ⊢
    rw [Axis.eval.eq_2] at e1
    rw [e1, hsd, ← e2]
    simp [evalList]
  | @sumProd e0 f0 t b a fs st st' he hf h ih =>
    intro hst hg ρ hsat hrs hrg hsd
    refine ih hst ⟨fun x hx => by
        simp only [List.mem_singleton] at hx
        rw [hx]; exact he.axQ hst hg.1, fun x hx => (hf.axQ hst hg.2).prod x (by simpa using hx)⟩ ρ hsat hrs
      ⟨fun x hx => by
        simp only [List.mem_singleton] at hx
        rw [hx]; exact he.inRange hrs hrg.1, fun x hx => (hf.inRange hrs hrg.2).prod x (by simpa using hx)⟩ ?_
    have e1 := he.eval hsat
    have e2 := hf.eval hsat
    simp only [SoundG, List.reverse_reverse] at hsd ⊢
    rw [Axis.eval.eq_2] at e2
    rw [e2, ← hsd, ← e1]
    simp [evalList]
  | sum he hf h ih =>
    intro hst hg ρ hsat hrs hrg hsd
    refine ih hst ⟨(he.axQ hst hg.1).sum, (hf.axQ hst hg.2).sum⟩ ρ hsat hrs
      ⟨(he.inRange hrs hrg.1).sum, (hf.inRange hrs hrg.2).sum⟩ ?_
    have e1 := he.eval hsat
    have e2 := hf.eval hsat
    simp only [SoundG] at hsd ⊢
    rw [Axis.eval] at e1 e2
    omega
  | @bindL e0 f0 f v n st he hf =>
    intro hst hg ρ hsat hrs hrg hsd
    refine ⟨ρ, fun _ _ => rfl, hsat.bind ?_, hrs.bind (hf.inRange hrs hrg.2)⟩
    have e1 := he.eval hsat
    have e2 := hf.eval hsat
    simp only [SoundG] at hsd
    rw [Axis.eval] at e1
    rw [e1, e2]; exact hsd
  | @bindR e0 f0 e w n st he hf =>
    intro hst hg ρ hsat hrs hrg hsd
    refine ⟨ρ, fun _ _ => rfl, hsat.bind ?_, hrs.bind (he.inRange hrs hrg.1)⟩
    have e1 := he.eval hsat
    have e2 := hf.eval hsat
    simp only [SoundG] at hsd
    rw [Axis.eval] at e2
    rw [e1, e2]; exact hsd.symm
  | unitL he hf h ih =>
    intro hst hg ρ hsat hrs hrg hsd
    refine ih hst ⟨AxQ.unit, (hf.axQ hst hg.2).sum⟩ ρ hsat hrs ⟨InRange.unit, (hf.inRange hrs hrg.2).sum⟩ ?_
    have e1 := he.eval hsat
    have e2 := hf.eval hsat
    simp only [SoundG, unitAxis_eval] at hsd ⊢
    simp only [Axis.eval, evalList] at e1 e2
    omega
  | unitR he hf h ih =>
    intro hst hg ρ hsat hrs hrg hsd
    refine ih hst ⟨AxQ.unit, (he.axQ hst hg.1).sum⟩ ρ hsat hrs ⟨InRange.unit, (he.inRange hrs hrg.1).sum⟩ ?_
    have e1 := he.eval hsat
    have e2 := hf.eval hsat
    simp only [SoundG, unitAxis_eval] at hsd ⊢
    simp only [Axis.eval, evalList] at e1 e2
    omega
  | @pEq e9 f9 es fs st st1 st' hmn h1 h2 ih1 ih2 =>
    intro hst hg ρ hsat hrs hrg hsd
    have hg1 : GoalQ Bd st.next (.u e9 f9) := ⟨hg.1 _ (by simp), hg.2 _ (by simp)⟩
    have hges : ∀ x ∈ es, AxQ Bd st.next x := fun x hx => hg.1 x (by simp [hx])
    have hgfs : ∀ x ∈ fs, AxQ Bd st.next x := fun x hx => hg.2 x (by simp [hx])
    have hst1 := h1.preserves Bd_ok hst hg1
    simp only [SoundG] at hsd
    rw [evalList_rev_cons, evalList_rev_cons, ← hmn] at hsd
    have hx := (hrg.1 e9 (by simp)).lt
    have hy := (hrg.2 f9 (by simp)).lt
    rw [← hmn] at hy
    obtain ⟨hxy, hAB⟩ := digit_eq hsd hx hy
    obtain ⟨ρ1, ha1, hs1, hr1⟩ := ih1 hst hg1 ρ hsat hrs ⟨hrg.1 _ (by simp), hrg.2 _ (by simp)⟩ hxy
    obtain ⟨ρ2, ha2, hs2, hr2⟩ := ih2 hst1 (GoalQ.mono Bd_ok h1.grows.2 (g := .p _ _) ⟨hges, hgfs⟩) ρ1 hs1 hr1
      ⟨fun x hx => ha1.inRange (hges x hx) (hrg.1 x (by simp [hx])),
       fun x hx => ha1.inRange (hgfs x hx) (hrg.2 x (by simp [hx]))⟩ (by
        simp only [SoundG]
        rw [ha1.evalList (xs := es.reverse) (fun x hx => hges x (by simpa using hx)),
          ha1.evalList (xs := fs.reverse) (fun x hx => hgfs x (by simpa using hx))]
        exact hAB)
    exact ⟨ρ2, ha1.trans h1.grows.2 ha2, hs2, hr2⟩
  | @pUnitR f9 es fs st st1 st' hn h1 h2 ih1 ih2 =>
    intro hst hg ρ hsat hrs hrg hsd
    have hg1 : GoalQ Bd st.next (.u f9 unitAxis) := ⟨hg.2 _ (by simp), AxQ.unit⟩
    have hges : ∀ x ∈ es, AxQ Bd st.next x := hg.1
    have hgfs : ∀ x ∈ fs, AxQ Bd st.next x := fun x hx => hg.2 x (by simp [hx])
    have hst1 := h1.preserves Bd_ok hst hg1
    simp only [SoundG] at hsd
    rw [evalList_rev_cons] at hsd
    have hy := (hrg.2 f9 (by simp)).lt
    rw [hn] at hy hsd
    have hy0 : f9.eval ρ = 0 := by omega
    obtain ⟨ρ1, ha1, hs1, hr1⟩ := ih1 hst hg1 ρ hsat hrs ⟨hrg.2 _ (by simp), InRange.unit⟩ (by
      simp only [SoundG, unitAxis_eval]; exact hy0)
    obtain ⟨ρ2, ha2, hs2, hr2⟩ := ih2 hst1 (GoalQ.mono Bd_ok h1.grows.2 (g := .p _ _) ⟨hges, hgfs⟩) ρ1 hs1 hr1
      ⟨fun x hx => ha1.inRange (hges x hx) (hrg.1 x hx),
       fun x hx => ha1.inRange (hgfs x hx) (hrg.2 x (by simp [hx]))⟩ (by
        simp only [SoundG]
        rw [ha1.evalList (xs := es.reverse) (fun x hx => hges x (by simpa using hx)),
          ha1.evalList (xs := fs.reverse) (fun x hx => hgfs x (by simpa using hx))]
        omega)
    exact ⟨ρ2, ha1.trans h1.grows.2 ha2, hs2, hr2⟩
  | @pUnitL e9 es fs st st1 st' hm h1 h2 ih1 ih2 =>
    intro hst hg ρ hsat hrs hrg hsd
    have hg1 : GoalQ Bd st.next (.u e9 unitAxis) := ⟨hg.1 _ (by simp), AxQ.unit⟩
    have hges : ∀ x ∈ es, AxQ Bd st.next x := fun x hx => hg.1 x (by simp [hx])
    have hgfs : ∀ x ∈ fs, AxQ Bd st.next x := hg.2
    have hst1 := h1.preserves Bd_ok hst hg1
    simp only [SoundG] at hsd
    rw [evalList_rev_cons] at hsd
    have hy := (hrg.1 e9 (by simp)).lt
    rw [hm] at hy hsd
    have hy0 : e9.eval ρ = 0 := by omega
    obtain ⟨ρ1, ha1, hs1, hr1⟩ := ih1 hst hg1 ρ hsat hrs ⟨hrg.1 _ (by simp), InRange.unit⟩ (by
      simp only [SoundG, unitAxis_eval]; exact hy0)
    obtain ⟨ρ2, ha2, hs2, hr2⟩ := ih2 hst1 (GoalQ.mono Bd_ok h1.grows.2 (g := .p _ _) ⟨hges, hgfs⟩) ρ1 hs1 hr1
      ⟨fun x hx => ha1.inRange (hges x hx) (hrg.1 x (by simp [hx])),
       fun x hx => ha1.inRange (hgfs x hx) (hrg.2 x hx)⟩ (by
        simp only [SoundG]
        rw [ha1.evalList (xs := es.reverse) (fun x hx => hges x (by simpa using hx)),
          ha1.evalList (xs := fs.reverse) (fun x hx => hgfs x (by simpa using hx))]
        omega)
    exact ⟨ρ2, ha1.trans h1.grows.2 ha2, hs2, hr2⟩
  | @pLt e9 f9 es fs st st1 st' hlt hd h1 h2 ih1 ih2 =>
    intro hst hg ρ hsat hrs hrg hsd
    have hq := div_ne_zero_of hlt hd
    have hge9 : AxQ Bd st.next e9 := hg.1 _ (by simp)
    have hgf9 : AxQ Bd st.next f9 := hg.2 _ (by simp)
    have hges : ∀ x ∈ es, AxQ Bd st.next x := fun x hx => hg.1 x (by simp [hx])
    have hgfs : ∀ x ∈ fs, AxQ Bd st.next x := fun x hx => hg.2 x (by simp [hx])
    have hg1 : GoalQ Bd st.fresh.next (.u f9 (productAxis [.phys st.next (f9.numel / e9.numel), e9])) :=
      ⟨hgf9.mono Bd_ok (Nat.le_succ _), AxQ.split Bd_ok hq hge9⟩
    have hst0 := hst.fresh Bd_ok
    have hst1 := h1.preserves Bd_ok hst0 hg1
    have hle : st.next + 1 ≤ st1.next := h1.grows.2
    simp only [SoundG] at hsd
    rw [evalList_rev_cons, evalList_rev_cons] at hsd
    have hx := (hrg.1 e9 (by simp)).lt
    have hy := (hrg.2 f9 (by simp)).lt
    obtain ⟨hy', hA, hr⟩ := digit_split hsd hd hx hy
    -- the fresh axis is the high digit of the value of `f9`
    have ha0 := ext_agree ρ st.next (f9.eval ρ / e9.numel)
    have hself := ext_self ρ st.next (f9.eval ρ / e9.numel)
    generalize ext ρ st.next (f9.eval ρ / e9.numel) = ρ0 at ha0 hself
    obtain ⟨ρ1, ha1, hs1, hr1⟩ := ih1 hst0 hg1 ρ0 (ha0.sat hst hsat) (ha0.inRangeS hst hrs)
      ⟨ha0.inRange hgf9 (hrg.2 _ (by simp)), InRange.split (by rw [hself]; exact hr) (ha0.inRange hge9 (hrg.1 _ (by simp)))⟩ (by
        simp only [SoundG]
        rw [eval_split, hself, ha0.eval hgf9, ha0.eval hge9]
        exact hy')
    have ha01 : Agree st.next ρ ρ1 := ha0.trans (Nat.le_succ _) ha1
    have hk1 : ρ1 st.next = f9.eval ρ / e9.numel := by rw [ha1 st.next (Nat.lt_succ_self _), hself]
    obtain ⟨ρ2, ha2, hs2, hr2⟩ := ih2 hst1 ⟨fun x hx => (hges x hx).mono Bd_ok (by omega), fun x hx => by
        simp only [List.mem_cons] at hx
        rcases hx with rfl | hx
        · exact (AxQ.freshAx Bd_ok hq).mono Bd_ok hle
        · exact (hgfs x hx).mono Bd_ok (by omega)⟩ ρ1 hs1 hr1
      ⟨fun x hx => ha01.inRange (hges x hx) (hrg.1 x (by simp [hx])), fun x hx => by
        simp only [List.mem_cons] at hx
        rcases hx with rfl | hx
        · exact InRange.phys (by rw [hk1]; exact hr)
        · exact ha01.inRange (hgfs x hx) (hrg.2 x (by simp [hx]))⟩ (by
        simp only [SoundG]
        rw [evalList_rev_cons, ha01.evalList (xs := es.reverse) (fun x hx => hges x (by simpa using hx)),
          ha01.evalList (xs := fs.reverse) (fun x hx => hgfs x (by simpa using hx))]
        simp only [Axis.numel, Axis.eval]
        rw [hk1]; exact hA)
    exact ⟨ρ2, ha01.trans (by omega) ha2, hs2, hr2⟩
  | @pGt e9 f9 es fs st st1 st' hlt hd h1 h2 ih1 ih2 =>
    intro hst hg ρ hsat hrs hrg hsd
    have hq := div_ne_zero_of hlt hd
    have hge9 : AxQ Bd st.next e9 := hg.1 _ (by simp)
    have hgf9 : AxQ Bd st.next f9 := hg.2 _ (by simp)
    have hges : ∀ x ∈ es, AxQ Bd st.next x := fun x hx => hg.1 x (by simp [hx])
    have hgfs : ∀ x ∈ fs, AxQ Bd st.next x := fun x hx => hg.2 x (by simp [hx])
    have hg1 : GoalQ Bd st.fresh.next (.u e9 (productAxis [.phys st.next (e9.numel / f9.numel), f9])) :=
      ⟨hge9.mono Bd_ok (Nat.le_succ _), AxQ.split Bd_ok hq hgf9⟩
    have hst0 := hst.fresh Bd_ok
    have hst1 := h1.preserves Bd_ok hst0 hg1
    have hle : st.next + 1 ≤ st1.next := h1.grows.2
    simp only [SoundG] at hsd
    rw [evalList_rev_cons, evalList_rev_cons] at hsd
    have hx := (hrg.1 e9 (by simp)).lt
    have hy := (hrg.2 f9 (by simp)).lt
    obtain ⟨hy', hA, hr⟩ := digit_split hsd.symm hd hy hx
    have ha0 := ext_agree ρ st.next (e9.eval ρ / f9.numel)
    have hself := ext_self ρ st.next (e9.eval ρ / f9.numel)
    generalize ext ρ st.next (e9.eval ρ / f9.numel) = ρ0 at ha0 hself
    obtain ⟨ρ1, ha1, hs1, hr1⟩ := ih1 hst0 hg1 ρ0 (ha0.sat hst hsat) (ha0.inRangeS hst hrs)
      ⟨ha0.inRange hge9 (hrg.1 _ (by simp)), InRange.split (by rw [hself]; exact hr) (ha0.inRange hgf9 (hrg.2 _ (by simp)))⟩ (by
        simp only [SoundG]
        rw [eval_split, hself, ha0.eval hgf9, ha0.eval hge9]
        exact hy')
    have ha01 : Agree st.next ρ ρ1 := ha0.trans (Nat.le_succ _) ha1
    have hk1 : ρ1 st.next = e9.eval ρ / f9.numel := by rw [ha1 st.next (Nat.lt_succ_self _), hself]
    obtain ⟨ρ2, ha2, hs2, hr2⟩ := ih2 hst1 ⟨fun x hx => by
        simp only [List.mem_cons] at hx
        rcases hx with rfl | hx
        · exact (AxQ.freshAx Bd_ok hq).mono Bd_ok hle
        · exact (hges x hx).mono Bd_ok (by omega), fun x hx => (hgfs x hx).mono Bd_ok (by omega)⟩ ρ1 hs1 hr1
      ⟨fun x hx => by
        simp only [List.mem_cons] at hx
        rcases hx with rfl | hx
        · exact InRange.phys (by rw [hk1]; exact hr)
        · exact ha01.inRange (hges x hx) (hrg.1 x (by simp [hx])),
       fun x hx => ha01.inRange (hgfs x hx) (hrg.2 x (by simp [hx]))⟩ (by
        simp only [SoundG]
        rw [evalList_rev_cons, ha01.evalList (xs := es.reverse) (fun x hx => hges x (by simpa using hx)),
          ha01.evalList (xs := fs.reverse) (fun x hx => hgfs x (by simpa using hx))]
        simp only [Axis.numel, Axis.eval]
        rw [hk1]; exact hA.symm)
    exact ⟨ρ2, ha01.trans (by omega) ha2, hs2, hr2⟩
  | @pEnd es fs st st' he h ih =>
    intro hst hg ρ hsat hrs hrg hsd
    refine ih hst (fun x hx => ?_) ρ hsat hrs (fun x hx => ?_) ?_
    · simp only [List.mem_append, List.mem_reverse] at hx
      rcases hx with hx | hx
      · exact hg.1 x hx
      · exact hg.2 x hx
    · simp only [List.mem_append, List.mem_reverse] at hx
      rcases hx with hx | hx
      · exact hrg.1 x hx
      · exact hrg.2 x hx
    · simp only [SoundG] at hsd ⊢
      intro x hx
      simp only [List.mem_append, List.mem_reverse] at hx
      rcases he with rfl | rfl
      · simp only [List.reverse_nil, evalList, List.not_mem_nil, false_or] at hsd hx
        exact evalList_eq_zero ρ fs.reverse hsd.symm (fun y hy => (hrg.2 y (by simpa using hy)).lt) x (by simpa using hx)
      · simp only [List.reverse_nil, evalList, List.not_mem_nil, or_false] at hsd hx
        exact evalList_eq_zero ρ es.reverse hsd (fun y hy => (hrg.1 y (by simpa using hy)).lt) x (by simpa using hx)
  | nNil => exact fun _ _ ρ hsat hrs _ _ => ⟨ρ, fun _ _ => rfl, hsat, hrs⟩
  | @nCons x xs st st1 st' h1 h2 ih1 ih2 =>
    intro hst hg ρ hsat hrs hrg hsd
    have hg1 : GoalQ Bd st.next (.u x unitAxis) := ⟨hg _ (by simp), AxQ.unit⟩
    have hgxs : ∀ y ∈ xs, AxQ Bd st.next y := fun y hy => hg y (by simp [hy])
    have hst1 := h1.preserves Bd_ok hst hg1
    simp only [SoundG] at hsd
    obtain ⟨ρ1, ha1, hs1, hr1⟩ := ih1 hst hg1 ρ hsat hrs ⟨hrg _ (by simp), InRange.unit⟩ (by
      simp only [SoundG, unitAxis_eval]; exact hsd x (by simp))
    obtain ⟨ρ2, ha2, hs2, hr2⟩ := ih2 hst1 (fun y hy => (hgxs y hy).mono Bd_ok h1.grows.2) ρ1 hs1 hr1
      (fun y hy => ha1.inRange (hgxs y hy) (hrg y (by simp [hy]))) (by
        simp only [SoundG]
        intro y hy
        rw [ha1.eval (hgxs y hy)]; exact hsd y (by simp [hy]))
    exact ⟨ρ2, ha1.trans h1.grows.2 ha2, hs2, hr2⟩


/-! ### sizes: bindings preserve `numel` -/

/-- typed by a size function: identities below the counter, sizes as given by `sz` and positive -/
def Tp (sz : Nat → Nat) : Nat → Nat × Nat → Prop := fun nx p => p.1 < nx ∧ sz p.1 = p.2 ∧ 0 < p.2

/-- every identity is below the counter and has the size `sz` says, and every binding preserves `numel` -/
def SizedSt (sz : Nat → Nat) (st : St) : Prop := StQ (Tp sz) st ∧ ∀ p ∈ st.subst, p.2.numel = sz p.1

def SizedG : Goal → Prop
  | .u e f => e.numel = f.numel
  | .p es fs => numelList es = numelList fs
  | .n xs => ∀ x ∈ xs, x.numel = 1

theorem Tp.mono {sz : Nat → Nat} {a b : Nat} (hab : a ≤ b) {x : Axis} (h : AxQ (Tp sz) a x) : AxQ (Tp sz) b x :=
  fun q hq => ⟨Nat.lt_of_lt_of_le (h q hq).1 hab, (h q hq).2⟩

theorem Tp.transfer {sz sz' : Nat → Nat} {nx : Nat} (ha : Agree nx sz sz') {x : Axis} (h : AxQ (Tp sz) nx x) :
    AxQ (Tp sz') nx x := fun q hq => ⟨(h q hq).1, by rw [ha q.1 (h q hq).1]; exact (h q hq).2.1, (h q hq).2.2⟩

theorem SizedSt.transfer {sz sz' : Nat → Nat} {st : St} (ha : Agree st.next sz sz') (h : SizedSt sz st) :
    SizedSt sz' st := by
  refine ⟨fun p hp => ?_, fun p hp => ?_⟩
  · obtain ⟨⟨n, hk⟩, hx⟩ := h.1 p hp
    exact ⟨⟨n, hk.1, by rw [ha p.1 hk.1]; exact hk.2.1, hk.2.2⟩, Tp.transfer ha hx⟩
  · obtain ⟨⟨n, hk⟩, hx⟩ := h.1 p hp
    rw [ha p.1 hk.1]; exact h.2 p hp

theorem SizedSt.fresh {sz : Nat → Nat} {st : St} (h : SizedSt sz st) : SizedSt sz st.fresh := by
  refine ⟨fun p hp => ?_, h.2⟩
  obtain ⟨⟨n, hk⟩, hx⟩ := h.1 p hp
  exact ⟨⟨n, Nat.lt_succ_of_lt hk.1, hk.2⟩, Tp.mono (Nat.le_succ _) hx⟩

theorem SizedSt.mono_goal {sz : Nat → Nat} {a b : Nat} (hab : a ≤ b) {g : Goal} (h : GoalQ (Tp sz) a g) :
    GoalQ (Tp sz) b g := by
  cases g with
  | u e f => exact ⟨Tp.mono hab h.1, Tp.mono hab h.2⟩
  | p es fs => exact ⟨fun x hx => Tp.mono hab (h.1 x hx), fun x hx => Tp.mono hab (h.2 x hx)⟩
  | n xs => exact fun x hx => Tp.mono hab (h x hx)

mutual
theorem numel_pos_aux : ∀ (x : Axis), (∀ q ∈ x.fv, 0 < q.2) → 0 < x.numel
  | .phys v n, h => by simpa [Axis.numel] using h (v, n) (by simp [Axis.fv])
  | .prod fs, h => by
    rw [Axis.numel]; exact numelList_pos_aux fs (by simpa [Axis.fv] using h)
  | .sum b t a, h => by
    have := numel_pos_aux t (by simpa [Axis.fv] using h)
    rw [Axis.numel]; omega
theorem numelList_pos_aux : ∀ (fs : List Axis), (∀ q ∈ fvList fs, 0 < q.2) → 0 < numelList fs
  | [], _ => by simp [numelList]
  | f :: fs, h => by
    rw [numelList]
    exact Nat.mul_pos (numel_pos_aux f (fun q hq => h q (by simp [fvList, hq])))
      (numelList_pos_aux fs (fun q hq => h q (by simp [fvList, hq])))
end

theorem Tp.numel_pos {sz : Nat → Nat} {nx : Nat} {x : Axis} (h : AxQ (Tp sz) nx x) : 0 < x.numel :=
  numel_pos_aux x (fun q hq => (h q hq).2.2)

theorem numelList_reverse (xs : List Axis) : numelList xs.reverse = numelList xs := by
  induction xs with
  | nil => rfl
  | cons x xs ih => rw [List.reverse_cons, numelList_snoc, ih, numelList, Nat.mul_comm]

theorem numelList_eq_one : ∀ (xs : List Axis), numelList xs = 1 → ∀ x ∈ xs, x.numel = 1
  | [], _ => by simp
  | x :: xs, h => by
    rw [numelList] at h
    have h' : x.numel = 1 ∧ numelList xs = 1 := by
      have h1 : x.numel ∣ 1 := ⟨_, h.symm⟩
      have h2 := Nat.eq_one_of_dvd_one h1
      rw [h2] at h
      exact ⟨h2, by omega⟩
    intro y hy
    simp only [List.mem_cons] at hy
    rcases hy with rfl | hy
    · exact h'.1
    · exact numelList_eq_one xs h'.2 y hy

theorem Lk.numel {sz : Nat → Nat} {st : St} (hst : SizedSt sz st) {e0 e : Axis} (h : Lk st.subst e0 e)
    (h0 : AxQ (Tp sz) st.next e0) : e.numel = e0.numel := by
  induction h with
  | refl e => rfl
  | @step v n a e hb h ih =>
    rw [ih (hst.1 _ hb).2, hst.2 _ hb]
    exact (h0 (v, n) (by simp [Axis.fv])).2.1

theorem SizedSt.bind {sz : Nat → Nat} {st : St} (hst : SizedSt sz st) {v n : Nat} {f : Axis}
    (hv : AxQ (Tp sz) st.next (.phys v n)) (hf : AxQ (Tp sz) st.next f) (hn : f.numel = n) :
    SizedSt sz (bind st v f) := by
  refine ⟨hst.1.bind hv hf, fun p hp => ?_⟩
  change p ∈ (v, f) :: st.subst at hp
  rw [List.mem_cons] at hp
  rcases hp with rfl | hp
  · rw [hn]; exact ((hv (v, n) (by simp [Axis.fv])).2.1).symm
  · exact hst.2 p hp

theorem Tp.split {sz : Nat → Nat} {nx q : Nat} {x : Axis} (hq : 0 < q) (hsz : sz nx = q)
    (hx : AxQ (Tp sz) nx x) : AxQ (Tp sz) (nx+1) (productAxis [.phys nx q, x]) := by
  intro p hp
  obtain ⟨f, hf, hpf⟩ := (mem_fv_productAxis _).1 hp
  simp only [List.mem_cons, List.not_mem_nil, or_false] at hf
  rcases hf with hf | hf
  · rw [hf] at hpf
    simp only [Axis.fv, List.mem_singleton] at hpf
    rw [hpf]; exact ⟨Nat.lt_succ_self _, hsz, hq⟩
  · rw [hf] at hpf
    exact Tp.mono (Nat.le_succ _) hx p hpf

theorem Tp.freshAx {sz : Nat → Nat} {nx q : Nat} (hq : 0 < q) (hsz : sz nx = q) :
    AxQ (Tp sz) (nx+1) (.phys nx q) := by
  intro p hp
  simp only [Axis.fv, List.mem_singleton] at hp
  rw [hp]; exact ⟨Nat.lt_succ_self _, hsz, hq⟩

theorem split_numel_arith {m n N M : Nat} (hm : 0 < m) (hd : n % m = 0) (h : m * N = n * M) : N = n / m * M := by
  have hn : n = n / m * m := (Nat.div_mul_cancel (Nat.dvd_of_mod_eq_zero hd)).symm
  generalize n / m = q at hn ⊢
  rw [hn] at h
  have : m * N = m * (q * M) := by rw [h]; ring
  exact Nat.eq_of_mul_eq_mul_left hm this

/-- **sizes are preserved**: with consistently sized, `numel`-preserving bindings and a goal whose two sides
have the same `numel`, every new binding preserves `numel` (the fresh axes extend the size function) -/
theorem Run.sized {g : Goal} {st st' : St} (h : Run g st st') :
    ∀ sz, SizedSt sz st → GoalQ (Tp sz) st.next g → SizedG g →
    ∃ sz', Agree st.next sz sz' ∧ SizedSt sz' st' := by
  induction h with
  | same he hf hs => exact fun sz hst _ _ => ⟨sz, fun _ _ => rfl, hst⟩
  | zero he hf hz => exact fun sz hst _ _ => ⟨sz, fun _ _ => rfl, hst⟩
  | prod he hf h ih =>
    intro sz hst hg hn
    refine ih sz hst ⟨fun x hx => (he.axQ hst.1 hg.1).prod x (by simpa using hx),
      fun x hx => (hf.axQ hst.1 hg.2).prod x (by simpa using hx)⟩ ?_
    have e1 := he.numel hst hg.1
    have e2 := hf.numel hst hg.2
    simp only [SizedG, Axis.numel, numelList_reverse] at hn e1 e2 ⊢
    rw [e1, e2]; exact hn
  | @prodSum e0 f0 t b a es st st' he hf h ih =>
    intro sz hst hg hn
    refine ih sz hst ⟨fun x hx => (he.axQ hst.1 hg.1).prod x (by simpa using hx), fun x hx => by
      simp only [List.mem_singleton] at hx
      rw [hx]; exact hf.axQ hst.1 hg.2⟩ ?_
    have e1 := he.numel hst hg.1
    have e2 := hf.numel hst hg.2
    simp only [SizedG, Axis.numel, numelList, numelList_reverse, Nat.mul_one] at hn e1 e2 ⊢
    omega
  | @sumProd e0 f0 t b a fs st st' he hf h ih =>
    intro sz hst hg hn
    refine ih sz hst ⟨fun x hx => by
      simp only [List.mem_singleton] at hx
      rw [hx]; exact he.axQ hst.1 hg.1, fun x hx => (hf.axQ hst.1 hg.2).prod x (by simpa using hx)⟩ ?_
    have e1 := he.numel hst hg.1
    have e2 := hf.numel hst hg.2
    simp only [SizedG, Axis.numel, numelList, numelList_reverse, Nat.mul_one] at hn e1 e2 ⊢
    omega
  | sum he hf h ih =>
    intro sz hst hg hn
    refine ih sz hst ⟨(he.axQ hst.1 hg.1).sum, (hf.axQ hst.1 hg.2).sum⟩ ?_
    have e1 := he.numel hst hg.1
    have e2 := hf.numel hst hg.2
    simp only [SizedG, Axis.numel] at hn e1 e2 ⊢
    omega
  | @bindL e0 f0 f v n st he hf =>
    intro sz hst hg hn
    refine ⟨sz, fun _ _ => rfl, hst.bind (he.axQ hst.1 hg.1) (hf.axQ hst.1 hg.2) ?_⟩
    have e1 := he.numel hst hg.1
    have e2 := hf.numel hst hg.2
    simp only [SizedG, Axis.numel] at hn e1 e2
    omega
  | @bindR e0 f0 e w n st he hf =>
    intro sz hst hg hn
    refine ⟨sz, fun _ _ => rfl, hst.bind (hf.axQ hst.1 hg.2) (he.axQ hst.1 hg.1) ?_⟩
    have e1 := he.numel hst hg.1
    have e2 := hf.numel hst hg.2
    simp only [SizedG, Axis.numel] at hn e1 e2
    omega
  | unitL he hf h ih =>
    intro sz hst hg hn
    refine ih sz hst ⟨AxQ.unit, (hf.axQ hst.1 hg.2).sum⟩ ?_
    have e1 := he.numel hst hg.1
    have e2 := hf.numel hst hg.2
    simp only [SizedG, Axis.numel, numelList, unitAxis_numel] at hn e1 e2 ⊢
    omega
  | unitR he hf h ih =>
    intro sz hst hg hn
    refine ih sz hst ⟨AxQ.unit, (he.axQ hst.1 hg.1).sum⟩ ?_
    have e1 := he.numel hst hg.1
    have e2 := hf.numel hst hg.2
    simp only [SizedG, Axis.numel, numelList, unitAxis_numel] at hn e1 e2 ⊢
    omega
  | @pEq e9 f9 es fs st st1 st' hmn h1 h2 ih1 ih2 =>
    intro sz hst hg hn
    have hg1 : GoalQ (Tp sz) st.next (.u e9 f9) := ⟨hg.1 _ (by simp), hg.2 _ (by simp)⟩
    have hges : ∀ x ∈ es, AxQ (Tp sz) st.next x := fun x hx => hg.1 x (by simp [hx])
    have hgfs : ∀ x ∈ fs, AxQ (Tp sz) st.next x := fun x hx => hg.2 x (by simp [hx])
    obtain ⟨sz1, ha1, hst1⟩ := ih1 sz hst hg1 hmn
    have hle := h1.grows.2
    obtain ⟨sz2, ha2, hst2⟩ := ih2 sz1 hst1
      ⟨fun x hx => Tp.mono hle (Tp.transfer ha1 (hges x hx)), fun x hx => Tp.mono hle (Tp.transfer ha1 (hgfs x hx))⟩ (by
        simp only [SizedG, numelList] at hn ⊢
        rw [hmn] at hn
        exact Nat.eq_of_mul_eq_mul_left (Tp.numel_pos hg1.2) hn)
    exact ⟨sz2, ha1.trans hle ha2, hst2⟩
  | @pUnitR f9 es fs st st1 st' hn1 h1 h2 ih1 ih2 =>
    intro sz hst hg hn
    have hg1 : GoalQ (Tp sz) st.next (.u f9 unitAxis) := ⟨hg.2 _ (by simp), AxQ.unit⟩
    have hges : ∀ x ∈ es, AxQ (Tp sz) st.next x := hg.1
    have hgfs : ∀ x ∈ fs, AxQ (Tp sz) st.next x := fun x hx => hg.2 x (by simp [hx])
    obtain ⟨sz1, ha1, hst1⟩ := ih1 sz hst hg1 (by simp only [SizedG, unitAxis_numel]; exact hn1)
    have hle := h1.grows.2
    obtain ⟨sz2, ha2, hst2⟩ := ih2 sz1 hst1
      ⟨fun x hx => Tp.mono hle (Tp.transfer ha1 (hges x hx)), fun x hx => Tp.mono hle (Tp.transfer ha1 (hgfs x hx))⟩ (by
        simp only [SizedG, numelList] at hn ⊢
        rw [hn1] at hn; omega)
    exact ⟨sz2, ha1.trans hle ha2, hst2⟩
  | @pUnitL e9 es fs st st1 st' hm1 h1 h2 ih1 ih2 =>
    intro sz hst hg hn
    have hg1 : GoalQ (Tp sz) st.next (.u e9 unitAxis) := ⟨hg.1 _ (by simp), AxQ.unit⟩
    have hges : ∀ x ∈ es, AxQ (Tp sz) st.next x := fun x hx => hg.1 x (by simp [hx])
    have hgfs : ∀ x ∈ fs, AxQ (Tp sz) st.next x := hg.2
    obtain ⟨sz1, ha1, hst1⟩ := ih1 sz hst hg1 (by simp only [SizedG, unitAxis_numel]; exact hm1)
    have hle := h1.grows.2
    obtain ⟨sz2, ha2, hst2⟩ := ih2 sz1 hst1
      ⟨fun x hx => Tp.mono hle (Tp.transfer ha1 (hges x hx)), fun x hx => Tp.mono hle (Tp.transfer ha1 (hgfs x hx))⟩ (by
        simp only [SizedG, numelList] at hn ⊢
        rw [hm1] at hn; omega)
    exact ⟨sz2, ha1.trans hle ha2, hst2⟩
  | @pLt e9 f9 es fs st st1 st' hlt hd h1 h2 ih1 ih2 =>
    intro sz hst hg hn
    have hq : 0 < f9.numel / e9.numel := Nat.pos_of_ne_zero (div_ne_zero_of hlt hd)
    have hge9 : AxQ (Tp sz) st.next e9 := hg.1 _ (by simp)
    have hgf9 : AxQ (Tp sz) st.next f9 := hg.2 _ (by simp)
    have hges : ∀ x ∈ es, AxQ (Tp sz) st.next x := fun x hx => hg.1 x (by simp [hx])
    have hgfs : ∀ x ∈ fs, AxQ (Tp sz) st.next x := fun x hx => hg.2 x (by simp [hx])
    have ha0 := ext_agree sz st.next (f9.numel / e9.numel)
    have hself := ext_self sz st.next (f9.numel / e9.numel)
    generalize ext sz st.next (f9.numel / e9.numel) = sz0 at ha0 hself
    have hst0 : SizedSt sz0 st.fresh := (hst.transfer ha0).fresh
    obtain ⟨sz1, ha1, hst1⟩ := ih1 sz0 hst0
      ⟨Tp.mono (Nat.le_succ _) (Tp.transfer ha0 hgf9), Tp.split hq hself (Tp.transfer ha0 hge9)⟩ (by
        simp only [SizedG]
        rw [numel_split]; exact (Nat.div_mul_cancel (Nat.dvd_of_mod_eq_zero hd)).symm)
    have hle : st.next + 1 ≤ st1.next := h1.grows.2
    have ha01 : Agree st.next sz sz1 := ha0.trans (Nat.le_succ _) ha1
    have hk1 : sz1 st.next = f9.numel / e9.numel := by rw [ha1 st.next (Nat.lt_succ_self _), hself]
    obtain ⟨sz2, ha2, hst2⟩ := ih2 sz1 hst1
      ⟨fun x hx => Tp.mono (by omega) (Tp.transfer ha01 (hges x hx)), fun x hx => by
        simp only [List.mem_cons] at hx
        rcases hx with rfl | hx
        · exact Tp.mono hle (Tp.freshAx hq hk1)
        · exact Tp.mono (by omega) (Tp.transfer ha01 (hgfs x hx))⟩ (by
        simp only [SizedG, numelList, Axis.numel] at hn ⊢
        have := split_numel_arith (Tp.numel_pos hge9) hd (N := numelList es) (M := numelList fs) hn
        rw [this])
    exact ⟨sz2, ha01.trans (by omega) ha2, hst2⟩
  | @pGt e9 f9 es fs st st1 st' hlt hd h1 h2 ih1 ih2 =>
    intro sz hst hg hn
    have hq : 0 < e9.numel / f9.numel := Nat.pos_of_ne_zero (div_ne_zero_of hlt hd)
    have hge9 : AxQ (Tp sz) st.next e9 := hg.1 _ (by simp)
    have hgf9 : AxQ (Tp sz) st.next f9 := hg.2 _ (by simp)
    have hges : ∀ x ∈ es, AxQ (Tp sz) st.next x := fun x hx => hg.1 x (by simp [hx])
    have hgfs : ∀ x ∈ fs, AxQ (Tp sz) st.next x := fun x hx => hg.2 x (by simp [hx])
    have ha0 := ext_agree sz st.next (e9.numel / f9.numel)
    have hself := ext_self sz st.next (e9.numel / f9.numel)
    generalize ext sz st.next (e9.numel / f9.numel) = sz0 at ha0 hself
    have hst0 : SizedSt sz0 st.fresh := (hst.transfer ha0).fresh
    obtain ⟨sz1, ha1, hst1⟩ := ih1 sz0 hst0
      ⟨Tp.mono (Nat.le_succ _) (Tp.transfer ha0 hge9), Tp.split hq hself (Tp.transfer ha0 hgf9)⟩ (by
        simp only [SizedG]
        rw [numel_split]; exact (Nat.div_mul_cancel (Nat.dvd_of_mod_eq_zero hd)).symm)
    have hle : st.next + 1 ≤ st1.next := h1.grows.2
    have ha01 : Agree st.next sz sz1 := ha0.trans (Nat.le_succ _) ha1
    have hk1 : sz1 st.next = e9.numel / f9.numel := by rw [ha1 st.next (Nat.lt_succ_self _), hself]
    obtain ⟨sz2, ha2, hst2⟩ := ih2 sz1 hst1
      ⟨fun x hx => by
        simp only [List.mem_cons] at hx
        rcases hx with rfl | hx
        · exact Tp.mono hle (Tp.freshAx hq hk1)
        · exact Tp.mono (by omega) (Tp.transfer ha01 (hges x hx)),
       fun x hx => Tp.mono (by omega) (Tp.transfer ha01 (hgfs x hx))⟩ (by
        simp only [SizedG, numelList, Axis.numel] at hn ⊢
        have := split_numel_arith (Tp.numel_pos hgf9) hd (N := numelList fs) (M := numelList es) hn.symm
        rw [this])
    exact ⟨sz2, ha01.trans (by omega) ha2, hst2⟩
  | @pEnd es fs st st' he h ih =>
    intro sz hst hg hn
    refine ih sz hst (fun x hx => ?_) ?_
    · simp only [List.mem_append, List.mem_reverse] at hx
      rcases hx with hx | hx
      · exact hg.1 x hx
      · exact hg.2 x hx
    · simp only [SizedG] at hn ⊢
      intro x hx
      simp only [List.mem_append, List.mem_reverse] at hx
      rcases he with rfl | rfl
      · simp only [numelList, List.not_mem_nil, false_or] at hn hx
        exact numelList_eq_one fs hn.symm x hx
      · simp only [numelList, List.not_mem_nil, or_false] at hn hx
        exact numelList_eq_one es hn x hx
  | nNil => exact fun sz hst _ _ => ⟨sz, fun _ _ => rfl, hst⟩
  | @nCons x xs st st1 st' h1 h2 ih1 ih2 =>
    intro sz hst hg hn
    have hgxs : ∀ y ∈ xs, AxQ (Tp sz) st.next y := fun y hy => hg y (by simp [hy])
    simp only [SizedG] at hn
    obtain ⟨sz1, ha1, hst1⟩ := ih1 sz hst ⟨hg _ (by simp), AxQ.unit⟩ (by
      simp only [SizedG, unitAxis_numel]; exact hn x (by simp))
    have hle := h1.grows.2
    obtain ⟨sz2, ha2, hst2⟩ := ih2 sz1 hst1 (fun y hy => Tp.mono hle (Tp.transfer ha1 (hgxs y hy)))
      (fun y hy => hn y (by simp [hy]))
    exact ⟨sz2, ha1.trans hle ha2, hst2⟩


/-! ### clone -/

/-- the binding that `clone`/`lookup` use for a physical axis occurring in `a` has the size of that axis -/
def NumelOk (σ : Subst) (a : Axis) : Prop := ∀ q ∈ a.fv, ∀ b, bound σ q.1 = some b → b.numel = q.2

def NumelOkS (σ : Subst) : Prop := ∀ p ∈ σ, NumelOk σ p.2

theorem map_congr_eval (ρ : Nat → Nat) (c : Axis → Axis) : ∀ (fs : List Axis),
    (∀ x ∈ fs, (c x).eval ρ = x.eval ρ ∧ (c x).numel = x.numel) →
    (∀ acc, evalList ρ (fs.map c) acc = evalList ρ fs acc) ∧ numelList (fs.map c) = numelList fs
  | [], _ => by simp
  | x :: xs, h => by
    obtain ⟨h1, h2⟩ := h x (by simp)
    obtain ⟨i1, i2⟩ := map_congr_eval ρ c xs (fun y hy => h y (by simp [hy]))
    refine ⟨fun acc => ?_, ?_⟩
    · rw [List.map_cons, evalList, evalList, h1, h2, i1]
    · rw [List.map_cons, numelList, numelList, h2, i2]

theorem NumelOk.prod {σ : Subst} {fs : List Axis} (h : NumelOk σ (.prod fs)) : ∀ x ∈ fs, NumelOk σ x :=
  fun x hx q hq => h q (mem_fv_prod.2 ⟨x, hx, hq⟩)

theorem clone_spec {ρ : Nat → Nat} {σ : Subst} (hs : Sat ρ σ) (hσ : NumelOkS σ) : ∀ (fuel : Nat) (e : Axis),
    NumelOk σ e → (clone σ fuel e).eval ρ = e.eval ρ ∧ (clone σ fuel e).numel = e.numel
  | 0, e, _ => by rw [clone]; exact ⟨rfl, rfl⟩
  | fuel+1, .phys v n, he => by
    rw [clone]
    split
    · next a hb =>
      have hm := bound_mem hb
      obtain ⟨i1, i2⟩ := clone_spec hs hσ fuel a (hσ _ hm)
      refine ⟨?_, ?_⟩
      · rw [i1, Axis.eval]; exact (hs _ hm).symm
      · rw [i2, Axis.numel]; exact he (v, n) (by simp [Axis.fv]) a hb
    · exact ⟨rfl, rfl⟩
  | fuel+1, .prod fs, he => by
    rw [clone]
    obtain ⟨i1, i2⟩ := map_congr_eval ρ (clone σ fuel) fs (fun x hx => clone_spec hs hσ fuel x (he.prod x hx))
    refine ⟨?_, ?_⟩
    · rw [C06.productAxis_eval, Axis.eval, Axis.eval, i1]
    · rw [C06.productAxis_numel, Axis.numel, Axis.numel, i2]
  | fuel+1, .sum b t a, he => by
    rw [clone]
    obtain ⟨i1, i2⟩ := clone_spec hs hσ fuel t (fun q hq => he q (by simpa [Axis.fv] using hq))
    exact ⟨by rw [Axis.eval, Axis.eval, i1], by rw [Axis.numel, Axis.numel, i2]⟩

theorem SizedSt.numelOk {sz : Nat → Nat} {st : St} (hst : SizedSt sz st) {a : Axis} (ha : AxQ (Tp sz) st.next a) :
    NumelOk st.subst a := fun q hq b hb => by
  rw [hst.2 _ (bound_mem hb)]; exact (ha q hq).2.1

theorem SizedSt.numelOkS {sz : Nat → Nat} {st : St} (hst : SizedSt sz st) : NumelOkS st.subst :=
  fun p hp => hst.numelOk (hst.1 p hp).2

/-- a consistently sized state has no axis of size zero -/
theorem SizedSt.nz {sz : Nat → Nat} {st : St} (hst : SizedSt sz st) : StQ NZ st := fun p hp => by
  obtain ⟨⟨n, hk⟩, hx⟩ := hst.1 p hp
  exact ⟨⟨n, Nat.pos_iff_ne_zero.1 hk.2.2⟩, fun q hq => Nat.pos_iff_ne_zero.1 (hx q hq).2.2⟩

theorem Tp.nz {sz : Nat → Nat} {nx : Nat} {a : Axis} (h : AxQ (Tp sz) nx a) : AxQ NZ nx a :=
  fun q hq => Nat.pos_iff_ne_zero.1 (h q hq).2.2

theorem SizedSt.bd {sz : Nat → Nat} {st : St} (hst : SizedSt sz st) : StQ Bd st := fun p hp => by
  obtain ⟨⟨n, hk⟩, hx⟩ := hst.1 p hp
  exact ⟨⟨n, hk.1⟩, fun q hq => (hx q hq).1⟩


/-! ### unifyAll -/

inductive RunAll : List (Axis × Axis) → St → St → Prop
  | nil {st : St} : RunAll [] st st
  | cons {e f : Axis} {rest : List (Axis × Axis)} {st st1 st' : St} (h1 : Run (.u e f) st st1)
      (h2 : RunAll rest st1 st') : RunAll ((e, f) :: rest) st st'

theorem runAll_of_unifyAll {fuel : Nat} : ∀ {ps : List (Axis × Axis)} {st st' : St},
    unifyAll fuel ps st = (true, st') → RunAll ps st st'
  | [], st, st', h => by
    rw [unifyAll] at h
    cases h
    exact .nil
  | (e, f) :: rest, st, st', h => by
    rw [unifyAll] at h
    split at h
    · next st1 h1 => exact .cons (run_of_unify h1) (runAll_of_unifyAll h)
    · next r hr =>
      rw [h] at hr
      exact absurd rfl (hr st')

theorem RunAll.grows {ps : List (Axis × Axis)} {st st' : St} (h : RunAll ps st st') :
    (∃ l, st'.subst = l ++ st.subst) ∧ st.next ≤ st'.next := by
  induction h with
  | nil => exact ⟨⟨[], rfl⟩, Nat.le_refl _⟩
  | cons h1 h2 ih =>
    obtain ⟨⟨l1, e1⟩, n1⟩ := h1.grows
    obtain ⟨⟨l2, e2⟩, n2⟩ := ih
    exact ⟨⟨l2 ++ l1, by rw [e2, e1, List.append_assoc]⟩, Nat.le_trans n1 n2⟩

theorem RunAll.sat {ps : List (Axis × Axis)} {st st' : St} (h : RunAll ps st st') {ρ : Nat → Nat}
    (hs : Sat ρ st'.subst) : Sat ρ st.subst := by
  obtain ⟨⟨l, e⟩, _⟩ := h.grows
  rw [e] at hs
  exact hs.of_append

def PairsQ (Q : Nat → Nat × Nat → Prop) (nx : Nat) (ps : List (Axis × Axis)) : Prop :=
  ∀ p ∈ ps, AxQ Q nx p.1 ∧ AxQ Q nx p.2

theorem RunAll.preserves {Q : Nat → Nat × Nat → Prop} (hQ : QOk Q) {ps : List (Axis × Axis)} {st st' : St}
    (h : RunAll ps st st') : StQ Q st → PairsQ Q st.next ps → StQ Q st' := by
  induction h with
  | nil => exact fun hst _ => hst
  | @cons e f rest st st1 st' h1 h2 ih =>
    intro hst hp
    have hst1 := h1.preserves hQ hst (hp (e, f) (by simp))
    exact ih hst1 (fun p hp' => ⟨(hp p (by simp [hp'])).1.mono hQ h1.grows.2, (hp p (by simp [hp'])).2.mono hQ h1.grows.2⟩)

theorem RunAll.sound {ps : List (Axis × Axis)} {st st' : St} (h : RunAll ps st st') :
    StQ NZ st → PairsQ NZ st.next ps → ∀ ρ, Sat ρ st'.subst → ∀ p ∈ ps, p.1.eval ρ = p.2.eval ρ := by
  induction h with
  | nil => intro _ _ ρ _ p hp; simp at hp
  | @cons e f rest st st1 st' h1 h2 ih =>
    intro hst hp ρ hsat p hp'
    have hst1 := h1.preserves NZ_ok hst (hp (e, f) (by simp))
    simp only [List.mem_cons] at hp'
    rcases hp' with rfl | hp'
    · exact h1.sound hst (hp (e, f) (by simp)) ρ (h2.sat hsat)
    · exact ih hst1 (fun q hq => hp q (by simp [hq])) ρ hsat p hp'

theorem RunAll.mgu {ps : List (Axis × Axis)} {st st' : St} (h : RunAll ps st st') :
    StQ Bd st → PairsQ Bd st.next ps → ∀ ρ, Sat ρ st.subst → InRangeS ρ st.subst →
    (∀ p ∈ ps, InRange ρ p.1 ∧ InRange ρ p.2) → (∀ p ∈ ps, p.1.eval ρ = p.2.eval ρ) →
    ∃ ρ', Agree st.next ρ ρ' ∧ Sat ρ' st'.subst ∧ InRangeS ρ' st'.subst := by
  induction h with
  | nil => exact fun _ _ ρ hsat hrs _ _ => ⟨ρ, fun _ _ => rfl, hsat, hrs⟩
  | @cons e f rest st st1 st' h1 h2 ih =>
    intro hst hp ρ hsat hrs hr heq
    have hst1 := h1.preserves Bd_ok hst (hp (e, f) (by simp))
    obtain ⟨ρ1, ha1, hs1, hr1⟩ := h1.mgu hst (hp (e, f) (by simp)) ρ hsat hrs (hr (e, f) (by simp)) (heq (e, f) (by simp))
    have hle := h1.grows.2
    obtain ⟨ρ2, ha2, hs2, hr2⟩ := ih hst1
      (fun p hp' => ⟨(hp p (by simp [hp'])).1.mono Bd_ok hle, (hp p (by simp [hp'])).2.mono Bd_ok hle⟩) ρ1 hs1 hr1
      (fun p hp' => ⟨ha1.inRange (hp p (by simp [hp'])).1 (hr p (by simp [hp'])).1,
        ha1.inRange (hp p (by simp [hp'])).2 (hr p (by simp [hp'])).2⟩)
      (fun p hp' => by
        rw [ha1.eval (hp p (by simp [hp'])).1, ha1.eval (hp p (by simp [hp'])).2]
        exact heq p (by simp [hp']))
    exact ⟨ρ2, ha1.trans hle ha2, hs2, hr2⟩

theorem RunAll.sized {ps : List (Axis × Axis)} {st st' : St} (h : RunAll ps st st') :
    ∀ sz, SizedSt sz st → PairsQ (Tp sz) st.next ps → (∀ p ∈ ps, p.1.numel = p.2.numel) →
    ∃ sz', Agree st.next sz sz' ∧ SizedSt sz' st' := by
  induction h with
  | nil => exact fun sz hst _ _ => ⟨sz, fun _ _ => rfl, hst⟩
  | @cons e f rest st st1 st' h1 h2 ih =>
    intro sz hst hp hn
    obtain ⟨sz1, ha1, hst1⟩ := h1.sized sz hst (hp (e, f) (by simp)) (hn (e, f) (by simp))
    have hle := h1.grows.2
    obtain ⟨sz2, ha2, hst2⟩ := ih sz1 hst1
      (fun p hp' => ⟨Tp.mono hle (Tp.transfer ha1 (hp p (by simp [hp'])).1),
        Tp.mono hle (Tp.transfer ha1 (hp p (by simp [hp'])).2)⟩)
      (fun p hp' => hn p (by simp [hp']))
    exact ⟨sz2, ha1.trans hle ha2, hst2⟩


end C06b
