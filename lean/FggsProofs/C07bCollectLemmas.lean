/-
C07bCollectLemmas — the first pass of the patterned einsum (`Ei.collect`) as a run of `unifyAll` on the list of
(first occurrence, later occurrence) pairs of the index variables, and the table of first occurrences.
-/
import FggsModel.EinsumImpl
import FggsProofs.C06bLemmas
import FggsProofs.C07bAlgLemmas

set_option linter.unusedSimpArgs false
set_option linter.unusedVariables false

namespace C07bL
open Fggs Fggs.Ax Fggs.Un Fggs.Ei C06b

/-- one step of `collect` -/
def cstep (fuel : Nat) (acc : List (Nat × Axis) × Bool × St) (q : Axis × Nat) : List (Nat × Axis) × Bool × St :=
  match acc with
  | (tbl, ok, st) =>
    match tbl.lookup q.2 with
    | some e =>
      match unify fuel e q.1 st with
      | (b, st1) => (tbl, ok && b, st1)
    | none => (tbl ++ [(q.2, q.1)], ok, st)

/-- the occurrences (virtual axis, index variable) of a job, in the order `collect` visits them -/
def occs (j : EJob) : List (Axis × Nat) := j.ops.flatMap (fun (p : PT × List Nat) => p.1.vaxes.zip p.2)

theorem collect_eq (fuel : Nat) (j : EJob) (next : Nat) :
    collect fuel j next = (occs j).foldl (cstep fuel) ([], true, ⟨[], next⟩) := rfl

/-- the table after the occurrences `qs` -/
def tblOf : List (Nat × Axis) → List (Axis × Nat) → List (Nat × Axis)
  | tbl, [] => tbl
  | tbl, q :: qs =>
    match tbl.lookup q.2 with
    | some _ => tblOf tbl qs
    | none => tblOf (tbl ++ [(q.2, q.1)]) qs

/-- the unification problems posed by the occurrences `qs` -/
def pairsOf : List (Nat × Axis) → List (Axis × Nat) → List (Axis × Axis)
  | _, [] => []
  | tbl, q :: qs =>
    match tbl.lookup q.2 with
    | some e => (e, q.1) :: pairsOf tbl qs
    | none => pairsOf (tbl ++ [(q.2, q.1)]) qs

theorem fold_spec (fuel : Nat) : ∀ (qs : List (Axis × Nat)) (tbl : List (Nat × Axis)) (ok : Bool) (st : St)
    (tbl' : List (Nat × Axis)) (st' : St), qs.foldl (cstep fuel) (tbl, ok, st) = (tbl', true, st') →
    ok = true ∧ tbl' = tblOf tbl qs ∧ RunAll (pairsOf tbl qs) st st'
  | [], tbl, ok, st, tbl', st', h => by
    simp only [List.foldl_nil, Prod.mk.injEq] at h
    obtain ⟨rfl, rfl, rfl⟩ := h
    exact ⟨rfl, rfl, .nil⟩
  | q :: qs, tbl, ok, st, tbl', st', h => by
    rw [List.foldl_cons] at h
    rw [tblOf, pairsOf]
    unfold cstep at h
    cases hl : tbl.lookup q.2 with
    | some e =>
      simp only [hl] at h ⊢
      rcases hu : unify fuel e q.1 st with ⟨b, st1⟩
      rw [hu] at h
      obtain ⟨h1, h2, h3⟩ := fold_spec fuel qs tbl (ok && b) st1 tbl' st' h
      rw [Bool.and_eq_true] at h1
      rw [h1.2] at hu
      exact ⟨h1.1, h2, .cons (run_of_unify hu) h3⟩
    | none =>
      simp only [hl] at h ⊢
      exact fold_spec fuel qs _ ok st tbl' st' h

theorem lookup_snoc (tbl : List (Nat × Axis)) (k : Nat) (e : Axis) (v : Nat) :
    (tbl ++ [(k, e)]).lookup v = (tbl.lookup v).or (if v = k then some e else none) := by
  rw [List.lookup_append]
  congr 1
  by_cases h : v = k
  · simp [List.lookup, h]
  · have : (v == k) = false := by simpa using h
    simp [List.lookup, this, h]

/-- the table of first occurrences and the pairs, relative to a universe `Q` of occurrences -/
theorem tbl_props (Q : List (Axis × Nat)) : ∀ (qs : List (Axis × Nat)) (tbl : List (Nat × Axis)),
    (∀ q ∈ qs, q ∈ Q) → (∀ v e0, tbl.lookup v = some e0 → (e0, v) ∈ Q) →
    (∀ v e0, (tblOf tbl qs).lookup v = some e0 → (e0, v) ∈ Q) ∧
    (∀ v e0, tbl.lookup v = some e0 → (tblOf tbl qs).lookup v = some e0) ∧
    (∀ q ∈ qs, ∃ e0, (tblOf tbl qs).lookup q.2 = some e0 ∧ (e0 = q.1 ∨ (e0, q.1) ∈ pairsOf tbl qs)) ∧
    (∀ p ∈ pairsOf tbl qs, ∃ v, (p.1, v) ∈ Q ∧ (p.2, v) ∈ Q)
  | [], tbl, _, ht => by
    refine ⟨ht, fun _ _ h => h, fun q hq => by simp at hq, fun p hp => by simp [pairsOf] at hp⟩
  | q :: qs, tbl, hq, ht => by
    rw [tblOf, pairsOf]
    have hqQ : (q.1, q.2) ∈ Q := hq q (by simp)
    cases hl : tbl.lookup q.2 with
    | some e =>
      obtain ⟨i1, i2, i3, i4⟩ := tbl_props Q qs tbl (fun x hx => hq x (by simp [hx])) ht
      refine ⟨i1, i2, ?_, ?_⟩
      · intro x hx
        rcases List.mem_cons.1 hx with rfl | hx
        · exact ⟨e, i2 _ _ hl, .inr (by simp)⟩
        · obtain ⟨e0, h1, h2⟩ := i3 x hx
          exact ⟨e0, h1, h2.imp id (fun h => List.mem_cons_of_mem _ h)⟩
      · intro p hp
        rcases List.mem_cons.1 hp with rfl | hp
        · exact ⟨q.2, ht _ _ hl, hqQ⟩
        · exact i4 p hp
    | none =>
      have ht' : ∀ v e0, (tbl ++ [(q.2, q.1)]).lookup v = some e0 → (e0, v) ∈ Q := by
        intro v e0 h
        rw [lookup_snoc] at h
        cases hv : tbl.lookup v with
        | some e1 =>
          rw [hv] at h
          simp only [Option.some_or, Option.some.injEq] at h
          rw [← h]; exact ht _ _ hv
        | none =>
          rw [hv] at h
          simp only [Option.none_or] at h
          split at h
          · next hvk =>
            simp only [Option.some.injEq] at h
            rw [← h, hvk]; exact hqQ
          · cases h
      obtain ⟨i1, i2, i3, i4⟩ := tbl_props Q qs (tbl ++ [(q.2, q.1)]) (fun x hx => hq x (by simp [hx])) ht'
      refine ⟨i1, ?_, ?_, i4⟩
      · intro v e0 h
        apply i2
        rw [lookup_snoc, h]; simp
      · intro x hx
        rcases List.mem_cons.1 hx with rfl | hx
        · refine ⟨x.1, i2 _ _ ?_, .inl rfl⟩
          rw [lookup_snoc, hl]; simp
        · exact i3 x hx

/-! ### no physical axis of size 1 is introduced -/

/-- the size is not 1 -/
def N1 : Nat → Nat × Nat → Prop := fun _ p => p.2 ≠ 1

theorem two_le_div {m n : Nat} (hlt : m < n) (hd : n % m = 0) : n / m ≠ 1 := by
  intro h
  have hm : 0 < m := by
    rcases Nat.eq_zero_or_pos m with h0 | h0
    · subst h0; simp at hd; omega
    · exact h0
  have := Nat.div_add_mod n m
  rw [h, hd] at this
  omega

theorem axQ_split_n1 {nx nx' q : Nat} {x : Axis} (hq : q ≠ 1) (hx : AxQ N1 nx x) :
    AxQ N1 nx' (productAxis [.phys nx q, x]) := by
  intro p hp
  obtain ⟨f, hf, hpf⟩ := (mem_fv_productAxis _).1 hp
  simp only [List.mem_cons, List.not_mem_nil, or_false] at hf
  rcases hf with hf | hf
  · rw [hf] at hpf
    simp only [Axis.fv, List.mem_singleton] at hpf
    rw [hpf]; exact hq
  · rw [hf] at hpf
    exact hx p hpf

theorem Run.no1 {g : Goal} {st st' : St} (h : Run g st st') :
    StQ N1 st → GoalQ N1 st.next g → StQ N1 st' := by
  induction h with
  | same _ _ _ => exact fun hst _ => hst
  | zero _ _ _ => exact fun hst _ => hst
  | prod he hf _ ih =>
    intro hst hg
    refine ih hst ⟨fun x hx => (he.axQ hst hg.1).prod x (by simpa using hx),
      fun x hx => (hf.axQ hst hg.2).prod x (by simpa using hx)⟩
  | prodSum he hf _ ih =>
    intro hst hg
    refine ih hst ⟨fun x hx => (he.axQ hst hg.1).prod x (by simpa using hx), fun x hx => ?_⟩
    simp only [List.mem_singleton] at hx
    rw [hx]; exact hf.axQ hst hg.2
  | sumProd he hf _ ih =>
    intro hst hg
    refine ih hst ⟨fun x hx => ?_, fun x hx => (hf.axQ hst hg.2).prod x (by simpa using hx)⟩
    simp only [List.mem_singleton] at hx
    rw [hx]; exact he.axQ hst hg.1
  | sum he hf _ ih =>
    intro hst hg
    exact ih hst ⟨(he.axQ hst hg.1).sum, (hf.axQ hst hg.2).sum⟩
  | bindL he hf =>
    intro hst hg
    exact hst.bind (he.axQ hst hg.1) (hf.axQ hst hg.2)
  | bindR he hf =>
    intro hst hg
    exact hst.bind (hf.axQ hst hg.2) (he.axQ hst hg.1)
  | unitL he hf _ ih =>
    intro hst hg
    exact ih hst ⟨AxQ.unit, (hf.axQ hst hg.2).sum⟩
  | unitR he hf _ ih =>
    intro hst hg
    exact ih hst ⟨AxQ.unit, (he.axQ hst hg.1).sum⟩
  | pEq hmn h1 h2 ih1 ih2 =>
    intro hst hg
    have hst1 := ih1 hst ⟨hg.1 _ (by simp), hg.2 _ (by simp)⟩
    exact ih2 hst1 ⟨fun x hx => hg.1 x (by simp [hx]), fun x hx => hg.2 x (by simp [hx])⟩
  | pUnitR hn h1 h2 ih1 ih2 =>
    intro hst hg
    have hst1 := ih1 hst ⟨hg.2 _ (by simp), AxQ.unit⟩
    exact ih2 hst1 ⟨hg.1, fun x hx => hg.2 x (by simp [hx])⟩
  | pUnitL hm h1 h2 ih1 ih2 =>
    intro hst hg
    have hst1 := ih1 hst ⟨hg.1 _ (by simp), AxQ.unit⟩
    exact ih2 hst1 ⟨fun x hx => hg.1 x (by simp [hx]), hg.2⟩
  | @pLt e9 f9 es fs st st1 st' hlt hd h1 h2 ih1 ih2 =>
    intro hst hg
    have hq := two_le_div hlt hd
    have hst1 := ih1 (fun p hp => hst p hp) ⟨hg.2 _ (by simp), axQ_split_n1 hq (hg.1 _ (by simp))⟩
    refine ih2 hst1 ⟨fun x hx => hg.1 x (by simp [hx]), fun x hx => ?_⟩
    simp only [List.mem_cons] at hx
    rcases hx with rfl | hx
    · intro p hp
      simp only [Axis.fv, List.mem_singleton] at hp
      rw [hp]; exact hq
    · exact hg.2 x (by simp [hx])
  | @pGt e9 f9 es fs st st1 st' hlt hd h1 h2 ih1 ih2 =>
    intro hst hg
    have hq := two_le_div hlt hd
    have hst1 := ih1 (fun p hp => hst p hp) ⟨hg.1 _ (by simp), axQ_split_n1 hq (hg.2 _ (by simp))⟩
    refine ih2 hst1 ⟨fun x hx => ?_, fun x hx => hg.2 x (by simp [hx])⟩
    simp only [List.mem_cons] at hx
    rcases hx with rfl | hx
    · intro p hp
      simp only [Axis.fv, List.mem_singleton] at hp
      rw [hp]; exact hq
    · exact hg.1 x (by simp [hx])
  | pEnd _ _ ih =>
    intro hst hg
    refine ih hst (fun x hx => ?_)
    simp only [List.mem_append, List.mem_reverse] at hx
    rcases hx with hx | hx
    · exact hg.1 x hx
    · exact hg.2 x hx
  | nNil => exact fun hst _ => hst
  | nCons h1 h2 ih1 ih2 =>
    intro hst hg
    have hst1 := ih1 hst ⟨hg _ (by simp), AxQ.unit⟩
    exact ih2 hst1 (fun x hx => hg x (by simp [hx]))

theorem RunAll.no1 {ps : List (Axis × Axis)} {st st' : St} (h : RunAll ps st st') :
    StQ N1 st → PairsQ N1 st.next ps → StQ N1 st' := by
  induction h with
  | nil => exact fun hst _ => hst
  | @cons e f rest st st1 st' h1 h2 ih =>
    intro hst hp
    have hst1 := Run.no1 h1 hst (hp (e, f) (by simp))
    exact ih hst1 (fun p hp' => hp p (by simp [hp']))

end C07bL
