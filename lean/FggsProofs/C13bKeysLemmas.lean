/-
C13bKeysLemmas — the physical axes of the affine forms of FggsModel/Strided.lean (`strideC`, `strideS`, `projectForm`,
`project`, `projectOnto`): the keys of `e.stride(subst)` are the free physical axes of `e.clone(subst)`.
-/
import FggsModel.Strided
import FggsProofs.C06bLemmas
import FggsProofs.C07bCloneLemmas
import FggsProofs.C07eStrideLemmas
import Mathlib.Tactic.Linarith
import Mathlib.Data.List.Basic

set_option linter.unusedSimpArgs false
set_option linter.unusedVariables false

namespace C13bL
open Fggs Fggs.Ax Fggs.Un Fggs.Sd

/-! ### the (identity, size) pairs of a form -/

/-- the (identity, size) pairs of a form -/
def prs (s : Coeffs) : List (Nat × Nat) := s.map (·.1)

theorem keys_eq_prs (s : Coeffs) : C07eL.keys s = (prs s).map (·.1) := by
  simp only [C07eL.keys, prs, List.map_map]
  rfl

theorem mem_keys_iff (s : Coeffs) (v : Nat) : v ∈ C07eL.keys s ↔ ∃ y ∈ prs s, y.1 = v := by
  rw [keys_eq_prs, List.mem_map]

theorem prs_upd (v c : Nat) (s : Coeffs) :
    prs (s.map (fun p => if p.1.1 == v then (p.1, p.2 + c) else p)) = prs s := by
  simp only [prs, List.map_map]
  apply List.map_congr_left
  intro p _
  by_cases hp : p.1.1 = v <;> simp [hp]

theorem prs_scale (n : Nat) (s : Coeffs) : prs (s.map (fun p => (p.1, p.2 * n))) = prs s := by
  simp only [prs, List.map_map]
  apply List.map_congr_left
  intro p _
  rfl

theorem prs_addCoeff (s : Coeffs) (k : Nat × Nat) (c : Nat) :
    prs (Sd.addCoeff s k c) = if k.1 ∈ C07eL.keys s then prs s else prs s ++ [k] := by
  unfold Sd.addCoeff
  by_cases h : s.any (·.1.1 == k.1) = true
  · rw [if_pos h, if_pos ((C07eL.any_iff_mem_keys s k.1).1 h), prs_upd]
  · have hv : k.1 ∉ C07eL.keys s := fun hv => h ((C07eL.any_iff_mem_keys s k.1).2 hv)
    rw [if_neg h, if_neg hv]
    simp [prs]

theorem mem_prs_addCoeff {s : Coeffs} {k : Nat × Nat} {c : Nat} {x : Nat × Nat}
    (hx : x ∈ prs (Sd.addCoeff s k c)) : x ∈ prs s ∨ x = k := by
  rw [prs_addCoeff] at hx
  split at hx
  · exact Or.inl hx
  · rw [List.mem_append, List.mem_singleton] at hx
    exact hx

theorem prs_sub_addCoeff {s : Coeffs} (k : Nat × Nat) (c : Nat) {x : Nat × Nat}
    (hx : x ∈ prs s) : x ∈ prs (Sd.addCoeff s k c) := by
  rw [prs_addCoeff]
  split
  · exact hx
  · exact List.mem_append_left _ hx

theorem key_mem_addCoeff (s : Coeffs) (k : Nat × Nat) (c : Nat) : k.1 ∈ C07eL.keys (Sd.addCoeff s k c) := by
  rw [mem_keys_iff, prs_addCoeff]
  split
  · next h => exact (mem_keys_iff s k.1).1 h
  · exact ⟨k, by simp, rfl⟩

/-- adding the entries of a form `s'` (with any coefficients) to a form `s` -/
theorem foldl_addCoeff_prs (g : ((Nat × Nat) × Nat) → Nat) : ∀ (s' s : Coeffs),
    (∀ x ∈ prs (s'.foldl (fun acc p => Sd.addCoeff acc p.1 (g p)) s), x ∈ prs s ∨ x ∈ prs s') ∧
    (∀ x ∈ prs s, x ∈ prs (s'.foldl (fun acc p => Sd.addCoeff acc p.1 (g p)) s)) ∧
    (∀ x ∈ prs s', x.1 ∈ C07eL.keys (s'.foldl (fun acc p => Sd.addCoeff acc p.1 (g p)) s))
  | [], s => by
    refine ⟨fun x hx => Or.inl hx, fun x hx => hx, ?_⟩
    intro x hx
    simp [prs] at hx
  | p :: s', s => by
    obtain ⟨ih1, ih2, ih3⟩ := foldl_addCoeff_prs g s' (Sd.addCoeff s p.1 (g p))
    rw [List.foldl_cons]
    have hcons : prs (p :: s') = p.1 :: prs s' := rfl
    refine ⟨?_, ?_, ?_⟩
    · intro x hx
      rcases ih1 x hx with h | h
      · rcases mem_prs_addCoeff h with h | h
        · exact Or.inl h
        · right; rw [hcons, h]; exact List.mem_cons_self
      · right; rw [hcons]; exact List.mem_cons_of_mem _ h
    · intro x hx
      exact ih2 x (prs_sub_addCoeff _ _ hx)
    · intro x hx
      rw [hcons, List.mem_cons] at hx
      rcases hx with rfl | hx
      · obtain ⟨y, hy, hy1⟩ := (mem_keys_iff _ _).1 (key_mem_addCoeff s p.1 (g p))
        exact (mem_keys_iff _ _).2 ⟨y, ih2 y hy, hy1⟩
      · exact ih3 x hx

/-! ### forms whose pairs satisfy `P` and whose identities cover `P` -/

/-- every pair of the form satisfies `P`; the identity of every `q` with `P q` is a key of the form -/
def Good (s : Coeffs) (P : Nat × Nat → Prop) : Prop :=
  (∀ x ∈ prs s, P x) ∧ (∀ q, P q → q.1 ∈ C07eL.keys s)

theorem Good.congr {s : Coeffs} {P Q : Nat × Nat → Prop} (h : Good s P) (hpq : ∀ q, P q ↔ Q q) : Good s Q :=
  ⟨fun x hx => (hpq x).1 (h.1 x hx), fun q hq => h.2 q ((hpq q).2 hq)⟩

theorem good_nil : Good [] (fun _ => False) :=
  ⟨fun x hx => by simp [prs] at hx, fun q hq => hq.elim⟩

theorem good_single (v n c : Nat) : Good [((v, n), c)] (fun q => q ∈ (Axis.phys v n).fv) := by
  constructor
  · intro x hx
    simpa [prs, Axis.fv] using hx
  · intro q hq
    have : q = (v, n) := by simpa [Axis.fv] using hq
    subst this
    simp [C07eL.keys]

theorem good_foldl (g : ((Nat × Nat) × Nat) → Nat) {s s' : Coeffs} {P Q : Nat × Nat → Prop}
    (hs : Good s P) (hs' : Good s' Q) :
    Good (s'.foldl (fun acc p => Sd.addCoeff acc p.1 (g p)) s) (fun q => P q ∨ Q q) := by
  obtain ⟨h1, h2, h3⟩ := foldl_addCoeff_prs g s' s
  constructor
  · intro x hx
    rcases h1 x hx with h | h
    · exact Or.inl (hs.1 x h)
    · exact Or.inr (hs'.1 x h)
  · intro q hq
    rcases hq with hq | hq
    · obtain ⟨y, hy, hy1⟩ := (mem_keys_iff _ _).1 (hs.2 q hq)
      exact (mem_keys_iff _ _).2 ⟨y, h2 y hy, hy1⟩
    · obtain ⟨y, hy, hy1⟩ := (mem_keys_iff _ _).1 (hs'.2 q hq)
      rw [← hy1]
      exact h3 y hy

theorem good_scale (n : Nat) {s : Coeffs} {P : Nat × Nat → Prop} (hs : Good s P) :
    Good (s.map (fun p => (p.1, p.2 * n))) P := by
  constructor
  · intro x hx
    rw [prs_scale] at hx
    exact hs.1 x hx
  · intro q hq
    rw [C07eL.keys_scale]
    exact hs.2 q hq

theorem good_combine (acc : Nat × Coeffs) (n : Nat) (f : Nat × Coeffs) {P Q : Nat × Nat → Prop}
    (ha : Good acc.2 P) (hf : Good f.2 Q) : Good (combine acc n f).2 (fun q => P q ∨ Q q) := by
  unfold combine
  exact good_foldl (fun p => p.2) (good_scale n ha) hf

/-! ### `strideC` -/

mutual
theorem strideC_good : ∀ (e : Axis), Good (strideC e).2 (fun q => q ∈ e.fv)
  | .phys v n => by
    rw [strideC]
    exact good_single v n 1
  | .prod fs => by
    have h := strideCList_good fs (0, []) good_nil
    rw [strideC]
    refine h.congr ?_
    intro q
    rw [Axis.fv]
    simp
  | .sum b t a => by
    have ih := strideC_good t
    rw [strideC, Axis.fv]
    exact ih
theorem strideCList_good : ∀ (fs : List Axis) (acc : Nat × Coeffs) {P : Nat × Nat → Prop}, Good acc.2 P →
    Good (strideCList fs acc).2 (fun q => P q ∨ q ∈ fvList fs)
  | [], acc, P, h => by
    rw [strideCList]
    refine h.congr ?_
    intro q
    simp [fvList]
  | f :: fs, acc, P, h => by
    have hc := good_combine acc f.numel (strideC f) h (strideC_good f)
    have ih := strideCList_good fs _ hc
    rw [strideCList]
    refine ih.congr ?_
    intro q
    rw [fvList, List.mem_append, or_assoc]
end

/-! ### `strideS` -/

/-- folding `combine` over factors with good forms -/
theorem foldl_combine_good (g : Axis → Nat × Coeffs) (h : Axis → Axis) :
    ∀ (fs : List Axis) (acc : Nat × Coeffs) {P : Nat × Nat → Prop}, Good acc.2 P →
    (∀ f ∈ fs, Good (g f).2 (fun q => q ∈ (h f).fv)) →
    Good (fs.foldl (fun acc f => combine acc f.numel (g f)) acc).2 (fun q => P q ∨ ∃ f ∈ fs, q ∈ (h f).fv)
  | [], acc, P, ha, _ => by
    rw [List.foldl_nil]
    refine ha.congr ?_
    intro q
    simp
  | f :: fs, acc, P, ha, hg => by
    have hc := good_combine acc f.numel (g f) ha (hg f (by simp))
    have ih := foldl_combine_good g h fs _ hc (fun x hx => hg x (by simp [hx]))
    rw [List.foldl_cons]
    refine ih.congr ?_
    intro q
    constructor
    · rintro ((hq | hq) | ⟨x, hx, hq⟩)
      · exact Or.inl hq
      · exact Or.inr ⟨f, by simp, hq⟩
      · exact Or.inr ⟨x, by simp [hx], hq⟩
    · rintro (hq | ⟨x, hx, hq⟩)
      · exact Or.inl (Or.inl hq)
      · rw [List.mem_cons] at hx
        rcases hx with rfl | hx
        · exact Or.inl (Or.inr hq)
        · exact Or.inr ⟨x, hx, hq⟩

theorem strideS_good (σ : Subst) : ∀ (fuel : Nat) (e : Axis),
    Good (strideS σ fuel e).2 (fun q => q ∈ (clone σ fuel e).fv)
  | 0, e => by
    rw [strideS, clone]
    exact strideC_good e
  | fuel+1, .phys v n => by
    cases hb : bound σ v with
    | some a =>
      rw [strideS, clone, hb]
      exact strideS_good σ fuel a
    | none =>
      rw [strideS, clone, hb]
      exact good_single v n 1
  | fuel+1, .prod fs => by
    rw [strideS, clone]
    have h := foldl_combine_good (strideS σ fuel) (clone σ fuel) fs (0, []) good_nil
      (fun f _ => strideS_good σ fuel f)
    refine h.congr ?_
    intro q
    rw [C06b.mem_fv_productAxis]
    simp
  | fuel+1, .sum b t a => by
    have ih := strideS_good σ fuel t
    rw [strideS, clone, Axis.fv]
    exact ih

/-- the keys (identity, size) of `e.stride(subst)` are free axes of the clone; every free axis of the clone has its
identity among the keys (a key keeps the size of the FIRST occurrence of the identity) -/
theorem strideS_keys (σ : Subst) (fuel : Nat) (e : Axis) :
    (∀ p ∈ (strideS σ fuel e).2, p.1 ∈ (clone σ fuel e).fv) ∧
    (∀ q ∈ (clone σ fuel e).fv, q.1 ∈ (strideS σ fuel e).2.map (·.1.1)) := by
  have h := strideS_good σ fuel e
  constructor
  · intro p hp
    exact h.1 p.1 (List.mem_map_of_mem hp)
  · intro q hq
    exact h.2 q hq

/-! ### `projectForm` -/

theorem projectForm_fold_good (σ : Subst) : ∀ (l : List (Axis × Nat)) (acc : Nat × Coeffs) {P : Nat × Nat → Prop},
    Good acc.2 P →
    Good (l.foldl (fun (acc : Nat × Coeffs) (p : Axis × Nat) =>
        let r := strideS σ FUEL p.1
        (acc.1 + r.1 * p.2, r.2.foldl (fun s q => Sd.addCoeff s q.1 (q.2 * p.2)) acc.2)) acc).2
      (fun q => P q ∨ ∃ p ∈ l, q ∈ (clone σ FUEL p.1).fv)
  | [], acc, P, ha => by
    rw [List.foldl_nil]
    refine ha.congr ?_
    intro q
    simp
  | p :: l, acc, P, ha => by
    have hc : Good ((strideS σ FUEL p.1).2.foldl (fun s q => Sd.addCoeff s q.1 (q.2 * p.2)) acc.2)
        (fun q => P q ∨ q ∈ (clone σ FUEL p.1).fv) :=
      good_foldl (fun q => q.2 * p.2) ha (strideS_good σ FUEL p.1)
    have ih := projectForm_fold_good σ l
      (acc.1 + (strideS σ FUEL p.1).1 * p.2,
        (strideS σ FUEL p.1).2.foldl (fun s q => Sd.addCoeff s q.1 (q.2 * p.2)) acc.2) hc
    rw [List.foldl_cons]
    refine ih.congr ?_
    intro q
    constructor
    · rintro ((hq | hq) | ⟨x, hx, hq⟩)
      · exact Or.inl hq
      · exact Or.inr ⟨p, by simp, hq⟩
      · exact Or.inr ⟨x, by simp [hx], hq⟩
    · rintro (hq | ⟨x, hx, hq⟩)
      · exact Or.inl (Or.inl hq)
      · rw [List.mem_cons] at hx
        rcases hx with rfl | hx
        · exact Or.inl (Or.inr hq)
        · exact Or.inr ⟨x, hx, hq⟩

/-- every element of the shorter list occurs as a first component in the zip -/
theorem exists_mem_zip {α β : Type} : ∀ (as : List α) (bs : List β), as.length ≤ bs.length →
    ∀ a ∈ as, ∃ b, (a, b) ∈ as.zip bs
  | [], _, _, a, ha => by simp at ha
  | x :: as, [], h, a, _ => by simp at h
  | x :: as, b :: bs, h, a, ha => by
    rw [List.mem_cons] at ha
    rcases ha with rfl | ha
    · exact ⟨b, by simp⟩
    · have hl : as.length ≤ bs.length := by simpa using h
      obtain ⟨b', hb'⟩ := exists_mem_zip as bs hl a ha
      exact ⟨b', by rw [List.zip_cons_cons]; exact List.mem_cons_of_mem _ hb'⟩

theorem projectForm_good (virt : View) (vaxes : List Axis) (σ : Subst) (hlen : vaxes.length ≤ virt.strides.length) :
    Good (projectForm virt vaxes σ).2 (fun q => ∃ e ∈ vaxes, q ∈ (clone σ FUEL e).fv) := by
  have h := projectForm_fold_good σ (vaxes.zip virt.strides) (virt.offset, []) good_nil
  unfold projectForm
  refine h.congr ?_
  intro q
  constructor
  · rintro (hq | ⟨p, hp, hq⟩)
    · exact hq.elim
    · exact ⟨p.1, (List.of_mem_zip (a := p.1) (b := p.2) hp).1, hq⟩
  · rintro ⟨e, he, hq⟩
    obtain ⟨b, hb⟩ := exists_mem_zip vaxes virt.strides hlen e he
    exact Or.inr ⟨(e, b), hb, hq⟩

/-- the keys of the form of a whole index tuple (every axis has a stride: `vaxes.length ≤ virt.strides.length`) -/
theorem projectForm_keys (virt : View) (vaxes : List Axis) (σ : Subst) (hlen : vaxes.length ≤ virt.strides.length) :
    (∀ p ∈ (projectForm virt vaxes σ).2, ∃ e ∈ vaxes, p.1 ∈ (clone σ FUEL e).fv) ∧
    (∀ e ∈ vaxes, ∀ q ∈ (clone σ FUEL e).fv, q.1 ∈ (projectForm virt vaxes σ).2.map (·.1.1)) := by
  have h := projectForm_good virt vaxes σ hlen
  constructor
  · intro p hp
    exact h.1 p.1 (List.mem_map_of_mem hp)
  · intro e he q hq
    exact h.2 q ⟨e, he, hq⟩

theorem contiguousStrides_length (shape : List Nat) : (contiguousStrides shape).length = shape.length := by
  induction shape with
  | nil => rfl
  | cons n ss ih => rw [contiguousStrides, List.length_cons, List.length_cons, ih]

/-- the physical axes `project` returns -/
theorem project_keys (virt : View) (vaxes : List Axis) (σ : Subst) (hlen : vaxes.length ≤ virt.strides.length) :
    ((project virt vaxes σ).2.map (·.1)).Nodup ∧
    (∀ q ∈ (project virt vaxes σ).2, ∃ e ∈ vaxes, q ∈ (clone σ FUEL e).fv) ∧
    (∀ e ∈ vaxes, ∀ q ∈ (clone σ FUEL e).fv, q.1 ∈ (project virt vaxes σ).2.map (·.1)) := by
  have h := projectForm_good virt vaxes σ hlen
  have hn := (C07eL.projectForm_spec virt vaxes σ (fun _ => 0)).2
  have h2 : (project virt vaxes σ).2 = prs (projectForm virt vaxes σ).2 := rfl
  rw [h2, ← keys_eq_prs]
  refine ⟨hn, ?_, ?_⟩
  · intro q hq
    exact h.1 q hq
  · intro e he q hq
    exact h.2 q ⟨e, he, hq⟩

/-- `projectOnto` succeeds iff the given axes and the free axes of the clones have the same identities -/
theorem projectOnto_isSome (virt : View) (paxes : List (Nat × Nat)) (vaxes : List Axis) (σ : Subst)
    (hlen : vaxes.length ≤ virt.strides.length)
    (h1 : ∀ e ∈ vaxes, ∀ q ∈ (clone σ FUEL e).fv, q.1 ∈ paxes.map (·.1))
    (h2 : ∀ p ∈ paxes, ∃ e ∈ vaxes, ∃ q ∈ (clone σ FUEL e).fv, q.1 = p.1) :
    ∃ w, projectOnto virt paxes vaxes σ = some w := by
  obtain ⟨hk1, hk2⟩ := projectForm_keys virt vaxes σ hlen
  have hc : (((projectForm virt vaxes σ).2.map (·.1.1)).all (fun k => paxes.any (·.1 == k)) &&
      paxes.all (fun p => ((projectForm virt vaxes σ).2.map (·.1.1)).contains p.1)) = true := by
    rw [Bool.and_eq_true, List.all_eq_true, List.all_eq_true]
    constructor
    · intro k hk
      rw [List.mem_map] at hk
      obtain ⟨p, hp, rfl⟩ := hk
      obtain ⟨e, he, hq⟩ := hk1 p hp
      have := h1 e he p.1 hq
      rw [List.mem_map] at this
      obtain ⟨a, ha, ha1⟩ := this
      rw [List.any_eq_true]
      exact ⟨a, ha, by simpa using ha1⟩
    · intro p hp
      obtain ⟨e, he, q, hq, hq1⟩ := h2 p hp
      have := hk2 e he q hq
      rw [hq1] at this
      rw [List.contains_iff_mem]
      exact this
  unfold projectOnto
  simp only
  rw [if_pos hc]
  exact ⟨_, rfl⟩

end C13bL
