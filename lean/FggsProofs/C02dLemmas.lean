/-
C02dLemmas — helper lemmas for C02d (the method `linear` of the driver loop `Pipe.sumProducts`): flattening of
tensors, the rows of the assembled system, the per-rule analysis of a linearly recursive component (a rule with at
most one edge inside the component is affine in the component's values), `linearSolve`, and the fold of the driver
loop for every method.
-/
import FggsModel.Pipeline
import FggsProofs.PipeLemmas
import FggsProofs.C02cLemmas
import FggsProofs.C03bLemmas
import FggsProofs.C09bLemmas
import FggsProofs.Props.C01
import FggsProofs.Props.C01b
import FggsProofs.Props.C02b
import FggsProofs.Props.C09
import FggsProofs.Props.C09b
import FggsProofs.Props.C19b
import Mathlib.Tactic.Linarith
import Mathlib.Tactic.Ring
import Mathlib.Data.List.Basic

set_option linter.unusedSimpArgs false
set_option linter.unusedVariables false

namespace C02dL
open Fggs Fggs.Sem Fggs.Pipe PipeL C02cL C03L

variable {K : Type}

/-! ### lists, sums, index tuples -/

theorem range_mul (n m : Nat) :
    (List.range n).flatMap (fun i => (List.range m).map (fun j => i * m + j)) = List.range (n * m) := by
  induction n with
  | zero => simp
  | succ n ih =>
    rw [List.range_succ, List.flatMap_append, ih, List.flatMap_cons, List.flatMap_nil, List.append_nil,
      Nat.succ_mul, List.range_add]

theorem map_flat_assigns (s : List Nat) : (assigns s).map (flat s) = List.range (numel s) := by
  induction s with
  | nil => rfl
  | cons n rest ih =>
    rw [C03L.numel_cons, ← range_mul, assigns, List.map_flatMap]
    congr 1
    funext i
    rw [List.map_map, ← ih, List.map_map]
    rfl

theorem bsum_assigns_flat {S : SR K} (s : List Nat) (h : Nat → K) :
    bsum S (assigns s) (fun b => h (flat s b)) = bsum S (List.range (numel s)) h := by
  rw [← map_flat_assigns, bsum_map]

theorem numel_append (A B : List Nat) : numel (A ++ B) = numel A * numel B := by
  induction A with
  | nil => simp [numel]
  | cons n A ih => rw [List.cons_append, C03L.numel_cons, C03L.numel_cons, ih, Nat.mul_assoc]

theorem flat_append (A B a b : List Nat) (h : a.length = A.length) :
    flat (A ++ B) (a ++ b) = flat A a * numel B + flat B b := by
  induction A generalizing a with
  | nil =>
    have : a = [] := by simpa using h
    subst this
    simp [flat]
  | cons n A ih =>
    cases a with
    | nil => simp at h
    | cons i a =>
      simp only [List.length_cons, Nat.add_right_cancel_iff] at h
      rw [List.cons_append, List.cons_append, flat, flat, ih a h, numel_append]
      ring

theorem sum_range_eq_bsum {S : SR K} {α : Type} (l : List α) (g : Nat → K) (f : α → K)
    (h : ∀ j (hj : j < l.length), g j = f l[j]) :
    S.sum ((List.range l.length).map g) = bsum S l f := by
  unfold bsum
  congr 1
  apply List.ext_getElem
  · simp
  · intro j h1 h2
    simp only [List.getElem_map, List.getElem_range]
    exact h j (by simpa using h2)

/-! ### a product with at most one distinguished factor is affine in that factor -/

theorem prod_linear {S : SR K} (hS : C01.SRLaws S) {ε : Type} (p : ε → Bool) (w w' : ε → K)
    (hw : ∀ e, p e = false → w e = w' e) (dflt : ε) (es : List ε) (h : (es.filter p).length ≤ 1) :
    S.prod (es.map w) =
      S.add (if (es.filter p).length = 0 then S.prod (es.map w') else S.zero)
        (bsum S (List.range es.length) (fun i =>
          S.mul (if p (es[i]?.getD dflt) then w (es[i]?.getD dflt) else S.zero)
            (S.prod ((es.eraseIdx i).map w')))) := by
  induction es with
  | nil =>
    simp only [List.filter_nil, List.length_nil, if_true, List.map_nil, List.range_zero, bsum_nil]
    rw [sr_add_zero hS]
  | cons e es ih =>
    rw [List.length_cons, List.range_succ_eq_map, bsum_cons hS, bsum_map, List.map_cons, prod_cons hS]
    simp only [List.getElem?_cons_zero, Option.getD_some, List.eraseIdx_cons_zero, List.getElem?_cons_succ,
      List.eraseIdx_cons_succ, List.map_cons]
    by_cases hp : p e = true
    · have hf : es.filter p = [] := by
        rw [List.filter_cons_of_pos hp, List.length_cons] at h
        exact List.length_eq_zero_iff.mp (by omega)
      have hall : ∀ e' ∈ es, p e' = false := by
        intro e' he'
        by_contra hc
        have : e' ∈ es.filter p := List.mem_filter.2 ⟨he', by simpa using hc⟩
        rw [hf] at this
        simp at this
      have h1 : es.map w = es.map w' := List.map_congr_left (fun e' he' => hw e' (hall e' he'))
      have h2 : bsum S (List.range es.length) (fun i =>
          S.mul (if p (es[i]?.getD dflt) then w (es[i]?.getD dflt) else S.zero)
            (S.prod (w' e :: (es.eraseIdx i).map w'))) = S.zero := by
        refine (bsum_congr _ _ _ ?_).trans (bsum_zero hS (List.range es.length))
        intro i hi
        have hi' := List.mem_range.1 hi
        have : p (es[i]?.getD dflt) = false := by
          rw [List.getElem?_eq_getElem hi']
          exact hall _ (List.getElem_mem hi')
        simp only [this, Bool.false_eq_true, if_false]
        exact hS.zero_mul _
      rw [List.filter_cons_of_pos hp, List.length_cons, if_neg (by omega), h2, h1, hS.zero_add, if_pos hp,
        sr_add_zero hS]
    · have hp' : p e = false := by simpa using hp
      have h2 : bsum S (List.range es.length) (fun i =>
          S.mul (if p (es[i]?.getD dflt) then w (es[i]?.getD dflt) else S.zero)
            (S.prod (w' e :: (es.eraseIdx i).map w')))
          = S.mul (w' e) (bsum S (List.range es.length) (fun i =>
          S.mul (if p (es[i]?.getD dflt) then w (es[i]?.getD dflt) else S.zero)
            (S.prod ((es.eraseIdx i).map w')))) := by
        rw [← bsum_mul_left hS]
        apply bsum_congr
        intro i _
        rw [prod_cons hS, sr_mul_left_comm hS]
      rw [List.filter_cons_of_neg hp] at h ⊢
      rw [ih h, h2, hw e hp', hS.left_distrib, if_neg hp, hS.zero_mul, hS.zero_add]
      congr 1
      split
      · rw [prod_cons hS]
      · exact sr_mul_zero hS _

/-! ### a rule with at most one edge inside the component -/

/-- the label is a nonterminal of the component -/
def inComp (G : Grammar K) (comp : List Nat) (l : Nat) : Bool := decide (l ≥ G.T) && comp.contains (l - G.T)

/-- the weight of the component's labels, zero for the other labels -/
def dOf (S : SR K) (G : Grammar K) (v : Val K) (comp : List Nat) (l : Nat) (idx : List Nat) : K :=
  if inComp G comp l then edgeWeight S G v l idx else S.zero

theorem compEdges_eq (G : Grammar K) (comp : List Nat) (r : Rule) :
    compEdges G comp r = r.edges.filter (fun e => inComp G comp e.1) := rfl

theorem rule_affine {S : SR K} (hS : C01.SRLaws S) (G : Grammar K) (comp : List Nat) (v v0 : Val K)
    (hv : ∀ l idx, inComp G comp l = false → edgeWeight S G v l idx = edgeWeight S G v0 l idx)
    (r : Rule) (hr : C01.RuleWF G r) (hlin : (compEdges G comp r).length ≤ 1)
    (a : List Nat) (hal : a.length = r.ext.length) :
    ruleCell S G v r a =
      S.add (if (compEdges G comp r).length = 0 then ruleCell S G v0 r a else S.zero)
        (bsum S (List.range (G.T + G.nts.length)) (fun l =>
          bsum S (assigns (G.shapeOf (G.labelType l))) (fun b =>
            S.mul (bsum S (List.range r.edges.length) (fun i =>
              if (edgeAt r i).1 == l then ruleCell S G v0 (dropEdge r i) (a ++ b) else S.zero))
              (dOf S G v comp l b)))) := by
  rw [← rule_regroup hS G v0 r hr (dOf S G v comp) a hal]
  have h1 : (if (compEdges G comp r).length = 0 then ruleCell S G v0 r a else S.zero)
      = bsum S ((assigns (G.shapeOf r.nodes)).filter (fun ρ => r.ext.map (fun v => ρ[v]?.getD 0) == a)) (fun ρ =>
          if (compEdges G comp r).length = 0 then
            S.prod (r.edges.map (fun e => edgeWeight S G v0 e.1 (e.2.map (fun v => ρ[v]?.getD 0))))
          else S.zero) := by
    split
    · rfl
    · exact (bsum_zero hS _).symm
  rw [h1, ← bsum_add hS]
  show bsum S _ _ = _
  apply bsum_congr
  intro ρ _
  rw [compEdges_eq] at hlin ⊢
  exact prod_linear hS (fun e => inComp G comp e.1)
    (fun e => edgeWeight S G v e.1 (e.2.map (fun v => ρ[v]?.getD 0)))
    (fun e => edgeWeight S G v0 e.1 (e.2.map (fun v => ρ[v]?.getD 0)))
    (fun e he => hv e.1 _ he) (0, []) r.edges hlin

/-! ### `A x + b` for a system tabulated over a list of cells -/

theorem affine_tab {S : SR K} {α : Type} (cells : List α) (M : α → α → K) (bv yv : α → K) :
    Sv.affine S (cells.map (fun p => cells.map (fun q => M p q))) (cells.map bv) (cells.map yv)
      = cells.map (fun p => S.add (bsum S cells (fun q => S.mul (M p q) (yv q))) (bv p)) := by
  unfold Sv.affine
  rw [List.length_map]
  apply List.ext_getElem
  · simp
  · intro i h1 h2
    have hi : i < cells.length := by simpa using h1
    simp only [List.getElem_map, List.getElem_range]
    congr 1
    · apply sum_range_eq_bsum
      intro j hj
      simp [Sv.getM, Sv.getV, hi, hj]
    · simp [Sv.getV, hi]

/-! ### restriction of a sum over labels to the component -/

theorem inComp_cons (G : Grammar K) (Y : Nat) (comp : List Nat) (l : Nat) :
    inComp G (Y :: comp) l = ((l == G.T + Y) || inComp G comp l) := by
  unfold inComp
  by_cases h : l ≥ G.T
  · simp only [h, decide_true, Bool.true_and, List.contains_cons]
    congr 1
    rw [Bool.eq_iff_iff]
    simp only [beq_iff_eq]
    omega
  · have : ¬ l = G.T + Y := by omega
    simp [h, this]

theorem bsum_labels {S : SR K} (hS : C01.SRLaws S) (G : Grammar K) (comp : List Nat) (hnd : comp.Nodup)
    (hr : ∀ Y ∈ comp, Y < G.nts.length) (g : Nat → K) :
    bsum S (List.range (G.T + G.nts.length)) (fun l => if inComp G comp l then g l else S.zero)
      = bsum S comp (fun Y => g (G.T + Y)) := by
  induction comp with
  | nil =>
    rw [bsum_nil]
    refine (bsum_congr _ _ _ ?_).trans (bsum_zero hS _)
    intro l _
    simp [inComp]
  | cons Y comp ih =>
    have hY : Y ∉ comp := (List.nodup_cons.1 hnd).1
    have h1 : ∀ l ∈ List.range (G.T + G.nts.length),
        (if inComp G (Y :: comp) l then g l else S.zero)
          = S.add (if (l == G.T + Y) = true then g l else S.zero) (if inComp G comp l then g l else S.zero) := by
      intro l _
      rw [inComp_cons]
      by_cases h : l = G.T + Y
      · subst h
        have hn : inComp G comp (G.T + Y) = false := by
          simp [inComp, hY]
        simp [hn, sr_add_zero hS]
      · have : (l == G.T + Y) = false := by simpa using h
        simp [this, hS.zero_add]
    rw [bsum_congr _ _ _ h1, bsum_add hS, ih (List.nodup_cons.1 hnd).2 (fun Z hZ => hr Z (List.mem_cons_of_mem _ hZ)),
      bsum_range_single hS _ _ (by have := hr Y (List.mem_cons_self ..); omega) g, bsum_cons hS]

/-! ### a cell of `F` on a linearly recursive component -/

theorem comp_F_cell {S : SR K} (hS : C01.SRLaws S) (G : Grammar K) (hG : GrammarWF G) (comp : List Nat)
    (v v0 : Val K)
    (hv : ∀ l idx, inComp G comp l = false → edgeWeight S G v l idx = edgeWeight S G v0 l idx)
    (X : Nat) (hX : X < G.nts.length) (hlin : ∀ r ∈ G.rulesOf X, (compEdges G comp r).length ≤ 1)
    (a : List Nat) (ha : a ∈ assigns (G.shapeOf (G.nts[X]?.getD []))) :
    C01.valCell S G (F S G v) X a =
      S.add (bsum S (G.rulesOf X) (fun r =>
          if (compEdges G comp r).length = 0 then ruleCell S G v0 r a else S.zero))
        (bsum S (List.range (G.T + G.nts.length)) (fun l =>
          bsum S (assigns (G.shapeOf (G.labelType l))) (fun b =>
            S.mul (optCell S (jacLabel S G v0 X l)
                (flat (G.shapeOf (G.nts[X]?.getD []) ++ G.shapeOf (G.labelType l)) (a ++ b)))
              (dOf S G v comp l b)))) := by
  have hmem : ∀ r ∈ G.rulesOf X, r ∈ G.rules ∧ r.lhs = X := by
    intro r hr
    have := List.mem_filter.1 hr
    exact ⟨this.1, by simpa using this.2⟩
  have hshape : ∀ r ∈ G.rulesOf X,
      G.shapeOf (r.ext.map (fun v => r.nodes[v]?.getD 0)) = G.shapeOf (G.nts[X]?.getD []) := by
    intro r hr
    rw [hG.ext r (hmem r hr).1, (hmem r hr).2]
  have hal : ∀ r ∈ G.rulesOf X, a.length = r.ext.length := by
    intro r hr
    have h1 := mem_assigns_length ha
    have h2 := congrArg List.length (hshape r hr)
    simp only [Grammar.shapeOf, List.length_map] at h1 h2
    omega
  rw [C01.F_cell S hS G v X hX a ha hshape]
  show bsum S (G.rulesOf X) (fun r => ruleCell S G v r a) = _
  rw [bsum_congr _ _ _ (fun r hr =>
    rule_affine hS G comp v v0 hv r (hG.rule r (hmem r hr).1) (hlin r hr) a (hal r hr)), bsum_add hS]
  congr 1
  rw [bsum_comm hS]
  apply bsum_congr
  intro l _
  rw [bsum_comm hS]
  apply bsum_congr
  intro b hb
  rw [bsum_mul_right hS, jacLabel_cell hS G hG v0 X l a b ha hb]

/-! ### the assembled parts -/

/-- the inputs of `linear`: the component itself has no value -/
def x0Of (G : Grammar K) (x : Val K) (comp : List Nat) : Val K :=
  (List.range G.nts.length).map (fun X => if comp.contains X then none else x[X]?.join)

def f0Of (S : SR K) (G : Grammar K) (x : Val K) (comp : List Nat) : List (Nat × Option (List K)) :=
  comp.map (fun X => (X, (G.rulesOf X).foldl (fun acc r =>
    if (compEdges G comp r).length == 0 then
      addOpt S acc (Impl.sumProductEdges S G (x0Of G x comp) r.nodes r.edges r.ext) else acc) none))

def j0Of (S : SR K) (G : Grammar K) (x : Val K) (comp : List Nat) : List ((Nat × Nat) × Option (List K)) :=
  comp.flatMap (fun X => comp.map (fun Y => ((X, Y), jacLabel S G (x0Of G x comp) X (G.T + Y))))

/-- some rule of the component has two or more edges inside the component -/
def nonLinear (G : Grammar K) (comp : List Nat) : Bool :=
  comp.any (fun X => (G.rulesOf X).any (fun r => decide ((compEdges G comp r).length ≥ 2)))

theorem linearParts_eq (S : SR K) (G : Grammar K) (x : Val K) (comp : List Nat) :
    linearParts S G x comp =
      if nonLinear G comp then .error "ValueError" else .ok (f0Of S G x comp, j0Of S G x comp) := rfl

theorem nonLinear_false (G : Grammar K) (comp : List Nat) (h : nonLinear G comp = false) :
    ∀ X ∈ comp, ∀ r ∈ G.rulesOf X, (compEdges G comp r).length ≤ 1 := by
  intro X hX r hr
  unfold nonLinear at h
  rw [List.any_eq_false] at h
  have h1 := h X hX
  simp only [Bool.not_eq_true] at h1
  rw [List.any_eq_false] at h1
  have h2 := h1 r hr
  simp only [decide_eq_true_eq] at h2
  omega

theorem lookup_eq_some_of_forall {α β : Type} [BEq α] [LawfulBEq α] (l : List (α × β)) (k : α) (val : β)
    (hex : ∃ p ∈ l, p.1 = k) (hall : ∀ p ∈ l, p.1 = k → p.2 = val) : l.lookup k = some val := by
  induction l with
  | nil => obtain ⟨p, hp, _⟩ := hex; simp at hp
  | cons q l ih =>
    obtain ⟨q1, q2⟩ := q
    by_cases hq : k = q1
    · subst hq
      rw [List.lookup_cons_self]
      exact congrArg some (hall (k, q2) (List.mem_cons_self ..) rfl)
    · have hne : (k == q1) = false := by simpa using hq
      rw [List.lookup_cons, hne]
      apply ih
      · obtain ⟨p, hp, hpk⟩ := hex
        rcases List.mem_cons.1 hp with rfl | hp
        · exact absurd hpk.symm hq
        · exact ⟨p, hp, hpk⟩
      · intro p hp
        exact hall p (List.mem_cons_of_mem _ hp)

theorem f0_lookup (S : SR K) (G : Grammar K) (x : Val K) (comp : List Nat) (X : Nat) (hX : X ∈ comp) :
    ((f0Of S G x comp).lookup X).join = (G.rulesOf X).foldl (fun acc r =>
      if (compEdges G comp r).length == 0 then
        addOpt S acc (Impl.sumProductEdges S G (x0Of G x comp) r.nodes r.edges r.ext) else acc) none := by
  rw [lookup_eq_some_of_forall (f0Of S G x comp) X _ ?_ ?_]
  · rfl
  · exact ⟨_, List.mem_map.2 ⟨X, hX, rfl⟩, rfl⟩
  · intro p hp hpk
    obtain ⟨Z, _, rfl⟩ := List.mem_map.1 hp
    simp only at hpk
    subst hpk
    rfl

theorem j0_lookup (S : SR K) (G : Grammar K) (x : Val K) (comp : List Nat) (X Y : Nat)
    (hX : X ∈ comp) (hY : Y ∈ comp) :
    ((j0Of S G x comp).lookup (X, Y)).join = jacLabel S G (x0Of G x comp) X (G.T + Y) := by
  rw [lookup_eq_some_of_forall (j0Of S G x comp) (X, Y) _ ?_ ?_]
  · rfl
  · exact ⟨_, List.mem_flatMap.2 ⟨X, hX, List.mem_map.2 ⟨Y, hY, rfl⟩⟩, rfl⟩
  · intro p hp hpk
    obtain ⟨X', _, hp⟩ := List.mem_flatMap.1 hp
    obtain ⟨Y', _, rfl⟩ := List.mem_map.1 hp
    simp only [Prod.mk.injEq] at hpk
    obtain ⟨rfl, rfl⟩ := hpk
    rfl

/-- the entry of the matrix at row `p`, column `q` -/
def Mcell (S : SR K) (G : Grammar K) (j0 : List ((Nat × Nat) × Option (List K))) (p q : Nat × Nat) : K :=
  optCell S ((j0.lookup (p.1, q.1)).join) (p.2 * numel (G.shapeOf (G.nts[q.1]?.getD [])) + q.2)

/-- the entry of the right-hand side at row `p` -/
def bcell (S : SR K) (f0 : List (Nat × Option (List K))) (p : Nat × Nat) : K :=
  optCell S ((f0.lookup p.1).join) p.2

theorem linearSystem_eq (S : SR K) (G : Grammar K) (comp : List Nat)
    (f0 : List (Nat × Option (List K))) (j0 : List ((Nat × Nat) × Option (List K))) :
    linearSystem S G comp f0 j0 =
      ((compCells G comp).map (fun p => (compCells G comp).map (fun q => Mcell S G j0 p q)),
       (compCells G comp).map (bcell S f0)) := by
  unfold linearSystem
  simp only [Prod.mk.injEq]
  constructor
  · apply List.map_congr_left
    rintro ⟨X, i⟩ _
    apply List.map_congr_left
    rintro ⟨Y, j⟩ _
    unfold Mcell optCell
    rfl
  · apply List.map_congr_left
    rintro ⟨X, i⟩ _
    unfold bcell optCell
    rfl

/-! ### cells of the assembled parts -/

/-- the cells of `sum_product_edges` (`None` = zero) are the cells of the rule's specification -/
theorem spe_cell {S : SR K} (hS : C01.SRLaws S) (G : Grammar K) (v : Val K) (r : Rule) (hr : C01.RuleWF G r)
    (sa : List Nat) (hsa : G.shapeOf (r.ext.map (fun v => r.nodes[v]?.getD 0)) = sa)
    (a : List Nat) (ha : a ∈ assigns sa) :
    (∀ t, Impl.sumProductEdges S G v r.nodes r.edges r.ext = some t → t.length = numel sa) ∧
    optCell S (Impl.sumProductEdges S G v r.nodes r.edges r.ext) (flat sa a) = ruleCell S G v r a := by
  cases h : Impl.sumProductEdges S G v r.nodes r.edges r.ext with
  | none =>
    refine ⟨fun t ht => (by cases ht), ?_⟩
    show S.zero = _
    symm
    apply C01.ruleCell_zero_of_missing S hS
    intro hall
    have := (C01.sumProductEdges_isSome_iff S G v r).2 hall
    rw [h] at this
    simp at this
  | some t =>
    have ht := C01.sumProductEdges_eq_ruleValue S hS G v r hr t h
    subst ht
    constructor
    · intro t' ht'
      have : t' = ruleValue S G v r := (Option.some.inj ht').symm
      rw [this]
      unfold ruleValue
      rw [List.length_map, C03L.length_assigns, hsa]
    · show getT S (ruleValue S G v r) sa a = _
      unfold ruleValue
      rw [hsa]
      exact C01.getT_assigns_map S _ _ _ ha

theorem rulesOf_mem (G : Grammar K) (X : Nat) (r : Rule) (hr : r ∈ G.rulesOf X) : r ∈ G.rules ∧ r.lhs = X := by
  have := List.mem_filter.1 hr
  exact ⟨this.1, by simpa using this.2⟩

theorem rulesOf_shape (G : Grammar K) (hG : GrammarWF G) (X : Nat) (r : Rule) (hr : r ∈ G.rulesOf X) :
    G.shapeOf (r.ext.map (fun v => r.nodes[v]?.getD 0)) = G.shapeOf (G.nts[X]?.getD []) := by
  rw [hG.ext r (rulesOf_mem G X r hr).1, (rulesOf_mem G X r hr).2]

theorem f0_cell {S : SR K} (hS : C01.SRLaws S) (G : Grammar K) (hG : GrammarWF G) (v0 : Val K) (comp : List Nat)
    (X : Nat) (a : List Nat) (ha : a ∈ assigns (G.shapeOf (G.nts[X]?.getD []))) :
    optCell S ((G.rulesOf X).foldl (fun acc r =>
        if (compEdges G comp r).length == 0 then
          addOpt S acc (Impl.sumProductEdges S G v0 r.nodes r.edges r.ext) else acc) none)
      (flat (G.shapeOf (G.nts[X]?.getD [])) a)
    = bsum S (G.rulesOf X) (fun r =>
        if (compEdges G comp r).length = 0 then ruleCell S G v0 r a else S.zero) := by
  have hfold : (G.rulesOf X).foldl (fun acc r =>
        if (compEdges G comp r).length == 0 then
          addOpt S acc (Impl.sumProductEdges S G v0 r.nodes r.edges r.ext) else acc) none
      = ((G.rulesOf X).map (fun r => if (compEdges G comp r).length = 0 then
          Impl.sumProductEdges S G v0 r.nodes r.edges r.ext else none)).foldl (addOpt S) none := by
    rw [List.foldl_map]
    apply List.foldl_ext
    intro acc r _
    by_cases h : (compEdges G comp r).length = 0
    · simp [h]
    · simp [h, addOpt]
  have hk := flat_lt (mem_assigns.1 ha)
  rw [hfold, foldl_addOpt_cell hS _ _ hk _ _ none (by intro t ht; cases ht)]
  · show S.add S.zero _ = _
    rw [hS.zero_add, bsum_map]
    apply bsum_congr
    intro r hr
    have hc := spe_cell hS G v0 r (hG.rule r (rulesOf_mem G X r hr).1) _ (rulesOf_shape G hG X r hr) a ha
    split
    · exact hc.2
    · rfl
  · intro o ho t hot
    obtain ⟨r, hr, rfl⟩ := List.mem_map.1 ho
    have hc := spe_cell hS G v0 r (hG.rule r (rulesOf_mem G X r hr).1) _ (rulesOf_shape G hG X r hr) a ha
    split at hot
    · exact hc.1 t hot
    · cases hot

/-- outside the component the overlay and the inputs of `linear` have the same weights -/
theorem edgeWeight_overlay_x0 (S : SR K) (G : Grammar K) (x y : Val K) (comp : List Nat) (l : Nat)
    (idx : List Nat) (h : inComp G comp l = false) :
    edgeWeight S G (overlay G.nts.length x y comp) l idx = edgeWeight S G (x0Of G x comp) l idx := by
  by_cases hl : l < G.T
  · simp [edgeWeight, hl]
  · have hc : comp.contains (l - G.T) = false := by
      unfold inComp at h
      have : decide (l ≥ G.T) = true := by simp; omega
      rw [this, Bool.true_and] at h
      exact h
    have he : (overlay G.nts.length x y comp)[l - G.T]?.join = (x0Of G x comp)[l - G.T]?.join := by
      rw [ent_overlay]
      unfold x0Of
      have hc' : l - G.T ∉ comp := by simpa using hc
      by_cases hn : l - G.T < G.nts.length
      · rw [List.getElem?_map, List.getElem?_range hn]
        simp [hn, hc']
      · simp only [hn, if_false]
        rw [List.getElem?_eq_none (by rw [List.length_map, List.length_range]; omega)]
        rfl
    unfold edgeWeight
    simp only [hl, if_false, he]

theorem labelType_nt (G : Grammar K) (Y : Nat) : G.labelType (G.T + Y) = G.nts[Y]?.getD [] := by
  unfold Grammar.labelType
  rw [if_neg (by omega), Nat.add_sub_cancel_left]

theorem bsum_compCells {S : SR K} (hS : C01.SRLaws S) (G : Grammar K) (comp : List Nat) (f : Nat × Nat → K) :
    bsum S (compCells G comp) f = bsum S comp (fun Y =>
      bsum S (List.range (numel (G.shapeOf (G.nts[Y]?.getD [])))) (fun j => f (Y, j))) := by
  unfold compCells
  rw [bsum_flatMap hS]
  apply bsum_congr
  intro Y _
  rw [bsum_map]

theorem mem_compCells (G : Grammar K) (comp : List Nat) (p : Nat × Nat) :
    p ∈ compCells G comp ↔ p.1 ∈ comp ∧ p.2 < numel (G.shapeOf (G.nts[p.1]?.getD [])) := by
  unfold compCells
  rw [List.mem_flatMap]
  constructor
  · rintro ⟨X, hX, hp⟩
    obtain ⟨i, hi, rfl⟩ := List.mem_map.1 hp
    exact ⟨hX, List.mem_range.1 hi⟩
  · rintro ⟨h1, h2⟩
    exact ⟨p.1, h1, List.mem_map.2 ⟨p.2, List.mem_range.2 h2, rfl⟩⟩

/-! ### a row of the assembled system is a cell of `compF` -/

/-- the flattened cells of the component's nonterminals -/
def flatV (S : SR K) (G : Grammar K) (comp : List Nat) (y : Val K) : List K :=
  (compCells G comp).map (fun p => (cellsOf S G y p.1)[p.2]?.getD S.zero)

theorem row_eq {S : SR K} (hS : C01.SRLaws S) (G : Grammar K) (hG : GrammarWF G) (comp : List Nat)
    (hnd : comp.Nodup) (hrange : ∀ X ∈ comp, X < G.nts.length) (x y : Val K)
    (hlin : ∀ X ∈ comp, ∀ r ∈ G.rulesOf X, (compEdges G comp r).length ≤ 1)
    (X i : Nat) (hX : X ∈ comp) (hi : i < numel (G.shapeOf (G.nts[X]?.getD []))) :
    S.add (bsum S (compCells G comp) (fun q =>
        S.mul (Mcell S G (j0Of S G x comp) (X, i) q) ((cellsOf S G y q.1)[q.2]?.getD S.zero)))
      (bcell S (f0Of S G x comp) (X, i))
    = (cellsOf S G (compF S G x comp y) X)[i]?.getD S.zero := by
  have hXn := hrange X hX
  -- the index tuple of the cell
  obtain ⟨a, ha, rfl⟩ : ∃ a ∈ assigns (G.shapeOf (G.nts[X]?.getD [])), flat (G.shapeOf (G.nts[X]?.getD [])) a = i := by
    have : i ∈ (assigns (G.shapeOf (G.nts[X]?.getD []))).map (flat (G.shapeOf (G.nts[X]?.getD []))) := by
      rw [map_flat_assigns]; exact List.mem_range.2 hi
    obtain ⟨a, ha, h⟩ := List.mem_map.1 this
    exact ⟨a, ha, h⟩
  have hal : a.length = (G.shapeOf (G.nts[X]?.getD [])).length := mem_assigns_length ha
  have hR : (cellsOf S G (compF S G x comp y) X)[flat (G.shapeOf (G.nts[X]?.getD [])) a]?.getD S.zero
      = C01.valCell S G (F S G (overlay G.nts.length x y comp)) X a := by
    rw [valCell_eq_getT, ← cellsOf_compF S hS G hG x y comp X hXn hX]
    rfl
  rw [hR, comp_F_cell hS G hG comp (overlay G.nts.length x y comp) (x0Of G x comp)
    (fun l idx h => edgeWeight_overlay_x0 S G x y comp l idx h) X hXn (hlin X hX) a ha, hS.add_comm]
  congr 1
  · -- the right-hand side `b`
    unfold bcell
    rw [f0_lookup S G x comp X hX]
    exact f0_cell hS G hG (x0Of G x comp) comp X a ha
  · -- the matrix row
    have h1 : ∀ l ∈ List.range (G.T + G.nts.length),
        bsum S (assigns (G.shapeOf (G.labelType l))) (fun b =>
            S.mul (optCell S (jacLabel S G (x0Of G x comp) X l)
                (flat (G.shapeOf (G.nts[X]?.getD []) ++ G.shapeOf (G.labelType l)) (a ++ b)))
              (dOf S G (overlay G.nts.length x y comp) comp l b))
        = if inComp G comp l then
            bsum S (assigns (G.shapeOf (G.labelType l))) (fun b =>
              S.mul (optCell S (jacLabel S G (x0Of G x comp) X l)
                  (flat (G.shapeOf (G.nts[X]?.getD []) ++ G.shapeOf (G.labelType l)) (a ++ b)))
                (edgeWeight S G (overlay G.nts.length x y comp) l b))
          else S.zero := by
      intro l _
      unfold dOf
      by_cases hc : inComp G comp l = true
      · simp only [hc, if_true]
      · simp only [hc, if_false, Bool.false_eq_true]
        refine (bsum_congr _ _ _ ?_).trans (bsum_zero hS _)
        intro b _
        exact sr_mul_zero hS _
    rw [bsum_congr _ _ _ h1, bsum_labels hS G comp hnd hrange
      (fun l => bsum S (assigns (G.shapeOf (G.labelType l))) (fun b =>
              S.mul (optCell S (jacLabel S G (x0Of G x comp) X l)
                  (flat (G.shapeOf (G.nts[X]?.getD []) ++ G.shapeOf (G.labelType l)) (a ++ b)))
                (edgeWeight S G (overlay G.nts.length x y comp) l b))),
      bsum_compCells hS]
    apply bsum_congr
    intro Y hY
    have hYn := hrange Y hY
    rw [labelType_nt]
    have h2 : ∀ b ∈ assigns (G.shapeOf (G.nts[Y]?.getD [])),
        S.mul (optCell S (jacLabel S G (x0Of G x comp) X (G.T + Y))
              (flat (G.shapeOf (G.nts[X]?.getD []) ++ G.shapeOf (G.nts[Y]?.getD [])) (a ++ b)))
            (edgeWeight S G (overlay G.nts.length x y comp) (G.T + Y) b)
        = (fun j => S.mul (Mcell S G (j0Of S G x comp) (X, flat (G.shapeOf (G.nts[X]?.getD [])) a) (Y, j))
            ((cellsOf S G y Y)[j]?.getD S.zero)) (flat (G.shapeOf (G.nts[Y]?.getD [])) b) := by
      intro b _
      show _ = S.mul _ _
      unfold Mcell
      rw [j0_lookup S G x comp X Y hX hY, flat_append _ _ _ _ hal,
        edgeWeight_nt_cells S G _ (G.T + Y) b (by omega), Nat.add_sub_cancel_left,
        cellsOf_overlay_in S G x y comp Y hYn hY]
      rfl
    rw [bsum_congr _ _ _ h2]
    exact (bsum_assigns_flat (G.shapeOf (G.nts[Y]?.getD []))
      (fun j => S.mul (Mcell S G (j0Of S G x comp) (X, flat (G.shapeOf (G.nts[X]?.getD [])) a) (Y, j))
            ((cellsOf S G y Y)[j]?.getD S.zero))).symm

/-- **the assembled linear system is the component's equation system** (no assumption on the shapes of the values) -/
theorem linear_affine' {S : SR K} (hS : C01.SRLaws S) (G : Grammar K) (hG : GrammarWF G) (comp : List Nat)
    (hnd : comp.Nodup) (hrange : ∀ X ∈ comp, X < G.nts.length) (x y : Val K)
    (hnl : nonLinear G comp = false) :
    Sv.affine S (linearSystem S G comp (f0Of S G x comp) (j0Of S G x comp)).1
        (linearSystem S G comp (f0Of S G x comp) (j0Of S G x comp)).2 (flatV S G comp y)
      = flatV S G comp (compF S G x comp y) := by
  rw [linearSystem_eq]
  unfold flatV
  rw [affine_tab]
  apply List.map_congr_left
  rintro ⟨X, i⟩ hp
  obtain ⟨hX, hi⟩ := (mem_compCells G comp (X, i)).1 hp
  exact row_eq hS G hG comp hnd hrange x y (nonLinear_false G comp hnl) X i hX hi

/-! ### unflattening the solution -/

/-- the cells `(X, i)`, `i < n X`, of the listed `X`, in order -/
def blocks (n : Nat → Nat) (comp : List Nat) : List (Nat × Nat) :=
  comp.flatMap (fun X => (List.range (n X)).map (fun i => (X, i)))

theorem compCells_eq_blocks (G : Grammar K) (comp : List Nat) :
    compCells G comp = blocks (fun X => numel (G.shapeOf (G.nts[X]?.getD []))) comp := rfl

/-- the part of the flat vector `sol` that belongs to `Z` -/
def seg (cells : List (Nat × Nat)) (sol : List K) (Z : Nat) : List K :=
  ((cells.zip sol).filter (fun q => q.1.1 == Z)).map (·.2)

theorem mem_blocks_fst (n : Nat → Nat) (comp : List Nat) (p : Nat × Nat) (hp : p ∈ blocks n comp) :
    p.1 ∈ comp := by
  unfold blocks at hp
  obtain ⟨X, hX, hp⟩ := List.mem_flatMap.1 hp
  obtain ⟨i, _, rfl⟩ := List.mem_map.1 hp
  exact hX

theorem seg_nil_of_not_mem (n : Nat → Nat) (comp : List Nat) (sol : List K) (Z : Nat) (hZ : Z ∉ comp) :
    seg (blocks n comp) sol Z = [] := by
  unfold seg
  rw [List.map_eq_nil_iff, List.filter_eq_nil_iff]
  intro q hq
  have h1 : q.1 ∈ blocks n comp := (List.of_mem_zip hq).1
  have h2 := mem_blocks_fst n comp q.1 h1
  simp only [beq_iff_eq]
  intro h
  exact hZ (h ▸ h2)

theorem seg_append (c1 c2 : List (Nat × Nat)) (s1 s2 : List K) (h : c1.length = s1.length) (Z : Nat) :
    seg (c1 ++ c2) (s1 ++ s2) Z = seg c1 s1 Z ++ seg c2 s2 Z := by
  unfold seg
  rw [List.zip_append h, List.filter_append, List.map_append]

theorem seg_block (X m : Nat) (s1 : List K) (h : s1.length = m) (Z : Nat) :
    seg ((List.range m).map (fun i => (X, i))) s1 Z = if Z = X then s1 else [] := by
  unfold seg
  split
  · rename_i hZ
    subst hZ
    rw [List.filter_eq_self.2]
    · show List.map Prod.snd _ = _
      rw [List.map_snd_zip]
      simp [h]
    · intro q hq
      have h1 := (List.of_mem_zip hq).1
      obtain ⟨i, _, hqi⟩ := List.mem_map.1 h1
      rw [← hqi]
      simp
  · rename_i hZ
    rw [List.map_eq_nil_iff, List.filter_eq_nil_iff]
    intro q hq
    have h1 := (List.of_mem_zip hq).1
    obtain ⟨i, _, hqi⟩ := List.mem_map.1 h1
    simp only [beq_iff_eq]
    intro hc
    apply hZ
    rw [← hc, ← hqi]

theorem unflat (n : Nat → Nat) (z : K) (comp : List Nat) (hnd : comp.Nodup) (sol : List K)
    (hlen : sol.length = (blocks n comp).length) :
    (blocks n comp).map (fun p => (seg (blocks n comp) sol p.1)[p.2]?.getD z) = sol ∧
    ∀ X ∈ comp, (seg (blocks n comp) sol X).length = n X := by
  induction comp generalizing sol with
  | nil =>
    simp only [blocks, List.flatMap_nil, List.length_nil, List.length_eq_zero_iff] at hlen
    subst hlen
    exact ⟨rfl, by intro X hX; simp at hX⟩
  | cons X comp ih =>
    have hXn : X ∉ comp := (List.nodup_cons.1 hnd).1
    have hb : blocks n (X :: comp) = (List.range (n X)).map (fun i => (X, i)) ++ blocks n comp := by
      unfold blocks; rw [List.flatMap_cons]
    rw [hb] at hlen ⊢
    simp only [List.length_append, List.length_map, List.length_range] at hlen
    have hs : sol = sol.take (n X) ++ sol.drop (n X) := (List.take_append_drop _ _).symm
    have h1 : (sol.take (n X)).length = n X := by rw [List.length_take]; omega
    have h2 : (sol.drop (n X)).length = (blocks n comp).length := by rw [List.length_drop]; omega
    obtain ⟨ihA, ihB⟩ := ih (List.nodup_cons.1 hnd).2 (sol.drop (n X)) h2
    generalize sol.take (n X) = s1 at hs h1
    generalize sol.drop (n X) = s2 at hs h2 ihA ihB
    subst hs
    have hseg : ∀ Z, seg ((List.range (n X)).map (fun i => (X, i)) ++ blocks n comp) (s1 ++ s2) Z
        = (if Z = X then s1 else []) ++ seg (blocks n comp) s2 Z := by
      intro Z
      rw [seg_append _ _ _ _ (by simp [h1]), seg_block X (n X) s1 h1]
    constructor
    · rw [List.map_append]
      congr 1
      · rw [List.map_map]
        apply List.ext_getElem
        · simp [h1]
        · intro i hi1 hi2
          simp only [List.getElem_map, List.getElem_range, Function.comp]
          rw [hseg, if_pos rfl, seg_nil_of_not_mem n comp s2 X hXn, List.append_nil,
            List.getElem?_eq_getElem hi2]
          rfl
      · refine (List.map_congr_left ?_).trans ihA
        intro p hp
        have hpc := mem_blocks_fst n comp p hp
        have hne : ¬ p.1 = X := fun h => hXn (h ▸ hpc)
        rw [hseg, if_neg hne, List.nil_append]
    · intro Z hZ
      rw [hseg]
      rcases List.mem_cons.1 hZ with rfl | hZ
      · rw [if_pos rfl, seg_nil_of_not_mem n comp s2 Z hXn, List.append_nil, h1]
      · have hne : ¬ Z = X := fun h => hXn (h ▸ hZ)
        rw [if_neg hne, List.nil_append, ihB Z hZ]

/-! ### `linearSolve` -/

def sysOf (S : SR K) (G : Grammar K) (x : Val K) (comp : List Nat) : List (List K) × List K :=
  linearSystem S G comp (f0Of S G x comp) (j0Of S G x comp)

def solOf (S : SR K) (star : K → K) (G : Grammar K) (x : Val K) (comp : List Nat) : List K :=
  Sv.solveLoop S star (sysOf S G x comp).1 (sysOf S G x comp).2

/-- the value returned by `linear` -/
def ysOf (S : SR K) (star : K → K) (G : Grammar K) (x : Val K) (comp : List Nat) : Val K :=
  (List.range G.nts.length).map (fun X =>
    if comp.contains X then some (seg (compCells G comp) (solOf S star G x comp) X) else none)

theorem linearSolve_eq (S : SR K) (star : K → K) (G : Grammar K) (x : Val K) (comp : List Nat) :
    linearSolve S star G x comp =
      if nonLinear G comp then .error "ValueError" else .ok (ysOf S star G x comp) := by
  unfold linearSolve
  rw [linearParts_eq]
  by_cases h : nonLinear G comp = true
  · simp only [h, if_true]; rfl
  · simp only [h, if_false, Bool.false_eq_true]; rfl

theorem sysOf_length (S : SR K) (G : Grammar K) (x : Val K) (comp : List Nat) :
    (sysOf S G x comp).1.length = (compCells G comp).length := by
  unfold sysOf; rw [linearSystem_eq]; simp

theorem sysOf_square (S : SR K) (G : Grammar K) (x : Val K) (comp : List Nat) :
    C09.Square (sysOf S G x comp).1 (sysOf S G x comp).2 := by
  unfold sysOf
  rw [linearSystem_eq]
  constructor
  · intro r hr
    simp only [List.mem_map] at hr
    obtain ⟨p, _, rfl⟩ := hr
    simp
  · simp

theorem solOf_length (S : SR K) (star : K → K) (G : Grammar K) (x : Val K) (comp : List Nat) :
    (solOf S star G x comp).length = (compCells G comp).length := by
  unfold solOf
  rw [C09bL.solveLoop_length S star _ _ (sysOf_square S G x comp).2, sysOf_length]

theorem ent_ysOf (S : SR K) (star : K → K) (G : Grammar K) (x : Val K) (comp : List Nat) (X : Nat) :
    (ysOf S star G x comp)[X]?.join =
      if X < G.nts.length ∧ X ∈ comp then some (seg (compCells G comp) (solOf S star G x comp) X) else none := by
  unfold ysOf
  by_cases hX : X < G.nts.length
  · rw [List.getElem?_map, List.getElem?_range hX]
    by_cases hc : X ∈ comp
    · simp [hX, hc]
    · simp [hX, hc]
  · rw [List.getElem?_eq_none (by rw [List.length_map, List.length_range]; omega)]
    simp [hX]

theorem cellsOf_ysOf (S : SR K) (star : K → K) (G : Grammar K) (x : Val K) (comp : List Nat) (X : Nat)
    (hX : X < G.nts.length) (hc : X ∈ comp) :
    cellsOf S G (ysOf S star G x comp) X = seg (compCells G comp) (solOf S star G x comp) X := by
  unfold cellsOf
  rw [ent_ysOf, if_pos ⟨hX, hc⟩]

theorem flatV_ysOf (S : SR K) (star : K → K) (G : Grammar K) (x : Val K) (comp : List Nat)
    (hnd : comp.Nodup) (hrange : ∀ X ∈ comp, X < G.nts.length) :
    flatV S G comp (ysOf S star G x comp) = solOf S star G x comp := by
  have h := (unflat (fun X => numel (G.shapeOf (G.nts[X]?.getD []))) S.zero comp hnd (solOf S star G x comp)
    (by rw [← compCells_eq_blocks]; exact solOf_length S star G x comp)).1
  rw [← compCells_eq_blocks] at h
  refine Eq.trans ?_ h
  unfold flatV
  apply List.map_congr_left
  intro p hp
  have hpc := ((mem_compCells G comp p).1 hp).1
  rw [cellsOf_ysOf S star G x comp p.1 (hrange _ hpc) hpc]

theorem length_cellsOf_ysOf (S : SR K) (star : K → K) (G : Grammar K) (x : Val K) (comp : List Nat)
    (hnd : comp.Nodup) (X : Nat) (hX : X < G.nts.length) (hc : X ∈ comp) :
    (cellsOf S G (ysOf S star G x comp) X).length = numel (G.shapeOf (G.nts[X]?.getD [])) := by
  have h := (unflat (fun X => numel (G.shapeOf (G.nts[X]?.getD []))) S.zero comp hnd (solOf S star G x comp)
    (by rw [← compCells_eq_blocks]; exact solOf_length S star G x comp)).2 X hc
  rw [← compCells_eq_blocks] at h
  rw [cellsOf_ysOf S star G x comp X hX hc, h]

/-- **`linear` returns the least solution of the component's equations** (no assumption on the shapes) -/
theorem linearSolve_isLeast' (S : SR K) (le : K → K → Prop) (star : K → K) (h : C09b.OrdStarLaws S le star)
    (G : Grammar K) (hG : GrammarWF G) (comp : List Nat) (hnd : comp.Nodup)
    (hrange : ∀ X ∈ comp, X < G.nts.length) (x : Val K) (hnl : nonLinear G comp = false) :
    flatV S G comp (compF S G x comp (ysOf S star G x comp)) = flatV S G comp (ysOf S star G x comp) ∧
    ∀ y, (∀ i, i < (compCells G comp).length →
        le ((flatV S G comp (compF S G x comp y))[i]?.getD S.zero) ((flatV S G comp y)[i]?.getD S.zero)) →
      ∀ i, i < (compCells G comp).length →
        le ((flatV S G comp (ysOf S star G x comp))[i]?.getD S.zero) ((flatV S G comp y)[i]?.getD S.zero) := by
  obtain ⟨hsol, _, hleast⟩ := C09b.solveLoop_isLeast S le star h _ _ (sysOf_square S G x comp)
  have haff := fun y => linear_affine' h.sr G hG comp hnd hrange x y hnl
  rw [flatV_ysOf S star G x comp hnd hrange]
  constructor
  · rw [← haff, flatV_ysOf S star G x comp hnd hrange]
    exact hsol
  · intro y hy i hi
    have := hleast (flatV S G comp y) (by
      intro j hj
      rw [sysOf_length] at hj
      have := hy j hj
      rw [← haff] at this
      exact this) i (by rw [sysOf_length]; exact hi)
    exact this

/-! ### the driver loop: the invariant (as in C02c, for every method) -/

open C02 in
/-- the invariant: the nonterminals of the processed components satisfy their equations -/
structure Inv (S : SR K) (G : Grammar K) (pre : List (List Nat)) (v : Val K) : Prop where
  len : v.length = G.nts.length
  fixed : ∀ c ∈ pre, ∀ X ∈ c, cellsOf S G (F S G v) X = cellsOf S G v X

theorem comp_lt (G : Grammar K) (hG : GrammarWF G) (c : List Nat) (hc : c ∈ sccOrder G) (X : Nat)
    (hX : X ∈ c) : X < G.nts.length := by
  have := (sccOrder_ok G hG).only c hc X hX
  rw [verts_ntGraph] at this
  simpa using this

/-- a rule of an earlier component mentions no nonterminal of the current component -/
theorem earlier_not_mem (G : Grammar K) (hG : GrammarWF G) (pre rest : List (List Nat)) (comp : List Nat)
    (hcs : sccOrder G = pre ++ comp :: rest) (c : List Nat) (hc : c ∈ pre) (X : Nat) (hX : X ∈ c)
    (r : Rule) (hr : r ∈ G.rulesOf X) (Y : Nat) (hY : Y ∈ ntEdgesOf G r) : Y ∉ comp := by
  have hok := sccOrder_ok G hG
  have hXn : X < G.nts.length := comp_lt G hG c (by rw [hcs]; simp [hc]) X hX
  have hs : Y ∈ Scc.succs (ntGraph G) X := (succs_ntGraph G X Y hXn).mpr ⟨r, hr, hY⟩
  rw [hcs] at hok
  obtain ⟨i, hi, rfl⟩ := List.getElem_of_mem hc
  have h1 : i < (pre ++ comp :: rest).length := by simp; omega
  have h2 : pre.length < (pre ++ comp :: rest).length := by simp
  have := hok.order i pre.length h1 h2 hi X (by rw [List.getElem_append_left hi]; exact hX) Y hs
  simpa using this

theorem earlier_disjoint (G : Grammar K) (hG : GrammarWF G) (pre rest : List (List Nat)) (comp : List Nat)
    (hcs : sccOrder G = pre ++ comp :: rest) (c : List Nat) (hc : c ∈ pre) (X : Nat) (hX : X ∈ c) : X ∉ comp := by
  intro hXc
  have hok := sccOrder_ok G hG
  rw [hcs] at hok
  obtain ⟨i, hi, rfl⟩ := List.getElem_of_mem hc
  have h1 : i < (pre ++ comp :: rest).length := by simp; omega
  have h2 : pre.length < (pre ++ comp :: rest).length := by simp
  have := hok.disjoint i pre.length h1 h2 X (by rw [List.getElem_append_left hi]; exact hX) (by simpa using hXc)
  omega

/-- the equations of the earlier components survive the update of the current component -/
theorem fixed_pre (S : SR K) (G : Grammar K) (hG : GrammarWF G) (pre rest : List (List Nat))
    (comp : List Nat) (hcs : sccOrder G = pre ++ comp :: rest) (v w : Val K) (hlen : v.length = G.nts.length)
    (c : List Nat) (hc : c ∈ pre) (X : Nat) (hX : X ∈ c)
    (hfix : cellsOf S G (F S G v) X = cellsOf S G v X) :
    cellsOf S G (F S G (overlay G.nts.length v w comp)) X = cellsOf S G (overlay G.nts.length v w comp) X := by
  rw [cellsOf_overlay_out S G v w hlen comp X (earlier_disjoint G hG pre rest comp hcs c hc X hX), ← hfix]
  apply cellsOf_F_congr
  intro r hr Y hY
  exact cellsOf_overlay_out S G v w hlen comp Y (earlier_not_mem G hG pre rest comp hcs c hc X hX r hr Y hY)

theorem length_overlay (n : Nat) (x y : Val K) (comp : List Nat) : (overlay n x y comp).length = n := by
  simp [overlay]

/-- a component value that solves the component's equations extends the invariant -/
theorem inv_overlay (S : SR K) (G : Grammar K) (hG : GrammarWF G) (pre rest : List (List Nat)) (comp : List Nat)
    (hcs : sccOrder G = pre ++ comp :: rest) (v w : Val K) (hI : Inv S G pre v)
    (hfix : ∀ X ∈ comp, cellsOf S G (F S G (overlay G.nts.length v w comp)) X
      = cellsOf S G (overlay G.nts.length v w comp) X) :
    Inv S G (pre ++ [comp]) (overlay G.nts.length v w comp) := by
  refine ⟨length_overlay _ _ _ _, ?_⟩
  intro c hc X hX
  rcases List.mem_append.mp hc with hc | hc
  · exact fixed_pre S G hG pre rest comp hcs _ _ hI.len c hc X hX (hI.fixed c hc X hX)
  · rw [List.mem_singleton] at hc
    subst hc
    exact hfix X hX

theorem fix_oneStep (S : SR K) (hS : C01.SRLaws S) (G : Grammar K) (hG : GrammarWF G) (comp : List Nat)
    (hcomp : ∀ X ∈ comp, X < G.nts.length) (v : Val K) (hlen : v.length = G.nts.length)
    (hm : maxRhs G comp = 0) (X : Nat) (hX : X ∈ comp) :
    cellsOf S G (F S G (overlay G.nts.length v (compF S G v comp (List.replicate G.nts.length none)) comp)) X
      = cellsOf S G (overlay G.nts.length v (compF S G v comp (List.replicate G.nts.length none)) comp) X := by
  rw [cellsOf_overlay_compF S hS G hG _ _ comp X (hcomp X hX) hX]
  apply cellsOf_F_congr
  intro r hr Y hY
  have hYc : Y ∉ comp := not_mem_ntEdges_of_compEdges_nil G comp r (maxRhs_zero G comp hm X hX r hr) Y hY
  rw [cellsOf_overlay_out S G _ _ hlen comp Y hYc, cellsOf_overlay_out S G _ _ hlen comp Y hYc]

theorem fix_fixedPoint [BEq K] (hbeq : ∀ a b : K, (a == b) = true → a = b)
    (S : SR K) (hS : C01.SRLaws S) (G : Grammar K) (hG : GrammarWF G) (comp : List Nat)
    (hcomp : ∀ X ∈ comp, X < G.nts.length) (v : Val K) (kmax : Nat)
    (hw : (fixedPoint S G v comp kmax).2 = false) (X : Nat) (hX : X ∈ comp) :
    cellsOf S G (F S G (overlay G.nts.length v (fixedPoint S G v comp kmax).1 comp)) X
      = cellsOf S G (overlay G.nts.length v (fixedPoint S G v comp kmax).1 comp) X := by
  unfold fixedPoint at hw ⊢
  have heq := valEqOn_eq hbeq S G comp _ _ (fpGo_no_warning S G v comp _ _ hw) X hX
  rw [cellsOf_overlay_in S G _ _ comp X (hcomp X hX) hX, heq,
    cellsOf_compF S hS G hG _ _ comp X (hcomp X hX) hX]

theorem length_foldl_addT (S : SR K) {α : Type} (rs : List α) (f : α → List K) (m : Nat)
    (hf : ∀ r ∈ rs, (f r).length = m) (z : List K) (hz : z.length = m) :
    (rs.foldl (fun acc r => addT S acc (f r)) z).length = m := by
  induction rs generalizing z with
  | nil => exact hz
  | cons r rs ih =>
    rw [List.foldl_cons]
    apply ih (fun r' hr' => hf r' (List.mem_cons_of_mem _ hr'))
    simp [addT, hz, hf r (List.mem_cons_self ..)]

theorem length_cellsOf_F (S : SR K) (G : Grammar K) (hG : GrammarWF G) (v : Val K) (X : Nat)
    (hX : X < G.nts.length) :
    (cellsOf S G (F S G v) X).length = numel (G.shapeOf (G.nts[X]?.getD [])) := by
  rw [cellsOf_eq_getD, F_entry S G v X hX, Option.getD_some]
  apply length_foldl_addT
  · intro r hr
    unfold ruleValue
    rw [List.length_map, C03L.length_assigns, rulesOf_shape G hG X r hr]
  · simp

theorem fix_linear (S : SR K) (le : K → K → Prop) (star : K → K) (h : C09b.OrdStarLaws S le star)
    (G : Grammar K) (hG : GrammarWF G) (comp : List Nat) (hnd : comp.Nodup)
    (hcomp : ∀ X ∈ comp, X < G.nts.length) (v : Val K) (hnl : nonLinear G comp = false)
    (X : Nat) (hX : X ∈ comp) :
    cellsOf S G (F S G (overlay G.nts.length v (ysOf S star G v comp) comp)) X
      = cellsOf S G (overlay G.nts.length v (ysOf S star G v comp) comp) X := by
  have hXn := hcomp X hX
  have hfl := (linearSolve_isLeast' S le star h G hG comp hnd hcomp v hnl).1
  unfold flatV at hfl
  rw [List.map_inj_left] at hfl
  rw [cellsOf_overlay_in S G _ _ comp X hXn hX, ← cellsOf_compF S h.sr G hG _ _ comp X hXn hX]
  have hl1 : (cellsOf S G (compF S G v comp (ysOf S star G v comp)) X).length
      = numel (G.shapeOf (G.nts[X]?.getD [])) := by
    rw [cellsOf_compF S h.sr G hG _ _ comp X hXn hX]
    exact length_cellsOf_F S G hG _ X hXn
  have hl2 := length_cellsOf_ysOf S star G v comp hnd X hXn hX
  apply List.ext_getElem (by rw [hl1, hl2])
  intro i h1 h2
  have := hfl (X, i) ((mem_compCells G comp (X, i)).2 ⟨hX, by rw [← hl1]; exact h1⟩)
  simpa [List.getElem?_eq_getElem h1, List.getElem?_eq_getElem h2] using this

/-! ### the driver loop: below every pre-fixed point -/

open C02

theorem ent_overlay_out (n : Nat) (v w w' : Val K) (comp : List Nat) (X : Nat)
    (h : ¬ (X < n ∧ X ∈ comp)) :
    (overlay n v w comp)[X]?.join = (overlay n v w' comp)[X]?.join := by
  rw [ent_overlay, ent_overlay]
  by_cases hX : X < n
  · have : X ∉ comp := fun hc => h ⟨hX, hc⟩
    simp [hX, this]
  · simp [hX]

theorem valCell_congr (S : SR K) (G : Grammar K) (v v' : Val K) (X : Nat) (a : List Nat)
    (h : v[X]?.join = v'[X]?.join) : C01.valCell S G v X a = C01.valCell S G v' X a := by
  unfold C01.valCell; rw [h]

theorem valLe_overlay_zero (S : SR K) (le : K → K → Prop) (hle : OrdLaws S le) (G : Grammar K)
    (v y : Val K) (comp : List Nat) (h : ValLe S le G v y) :
    ValLe S le G (overlay G.nts.length v (List.replicate G.nts.length none) comp) y := by
  intro X a
  have hv := h X a
  unfold C01.valCell at hv ⊢
  rw [ent_overlay, ent_replicate_none]
  by_cases hX : X < G.nts.length
  · by_cases hc : X ∈ comp
    · simp only [hX, if_true, List.contains_iff_mem, hc]
      exact hle.zero_le _
    · simp only [hX, if_true, List.contains_iff_mem, hc, if_false]
      exact hv
  · simp only [hX, if_false]
    exact hle.zero_le _

theorem valLe_overlay_step (S : SR K) (hS : C01.SRLaws S) (le : K → K → Prop) (hle : OrdLaws S le)
    (G : Grammar K) (hG : GrammarWF G) (y : Val K) (hy : ValLe S le G (F S G y) y)
    (v : Val K) (comp : List Nat) (w : Val K)
    (h : ValLe S le G (overlay G.nts.length v w comp) y) :
    ValLe S le G (overlay G.nts.length v (compF S G v comp w) comp) y := by
  intro X a
  by_cases hX : X < G.nts.length ∧ X ∈ comp
  · rw [valCell_eq_getT, cellsOf_overlay_compF S hS G hG v w comp X hX.1 hX.2, ← valCell_eq_getT]
    exact hle.trans _ _ _ (F_mono S le hle G _ _ h X a) (hy X a)
  · rw [valCell_congr S G _ _ X a (ent_overlay_out G.nts.length v _ w comp X hX)]
    exact h X a

theorem valLe_zeroVal (S : SR K) (le : K → K → Prop) (hle : OrdLaws S le) (G : Grammar K) (y : Val K) :
    ValLe S le G (zeroVal G) y := by
  intro X a
  have : C01.valCell S G (zeroVal G) X a = S.zero := by
    unfold C01.valCell zeroVal
    rw [ent_replicate_none]
  rw [this]; exact hle.zero_le _

theorem valLe_oneStep (S : SR K) (hS : C01.SRLaws S) (le : K → K → Prop) (hle : OrdLaws S le)
    (G : Grammar K) (hG : GrammarWF G) (y : Val K) (hy : ValLe S le G (F S G y) y)
    (v : Val K) (comp : List Nat) (h : ValLe S le G v y) :
    ValLe S le G (overlay G.nts.length v (compF S G v comp (List.replicate G.nts.length none)) comp) y :=
  valLe_overlay_step S hS le hle G hG y hy v comp _ (valLe_overlay_zero S le hle G v y comp h)

theorem valLe_fixedPoint [BEq K] (S : SR K) (hS : C01.SRLaws S) (le : K → K → Prop) (hle : OrdLaws S le)
    (G : Grammar K) (hG : GrammarWF G) (kmax : Nat) (y : Val K) (hy : ValLe S le G (F S G y) y)
    (v : Val K) (comp : List Nat) (h : ValLe S le G v y) :
    ValLe S le G (overlay G.nts.length v (fixedPoint S G v comp kmax).1 comp) y := by
  have h0 := valLe_overlay_zero S le hle G v y comp h
  have h1 := valLe_overlay_step S hS le hle G hG y hy v comp _ h0
  unfold fixedPoint
  exact fpGo_invariant S G v comp (fun w => ValLe S le G (overlay G.nts.length v w comp) y)
    (fun w hw => valLe_overlay_step S hS le hle G hG y hy v comp w hw) _ _ _ h0 h1

theorem exists_assign (s : List Nat) (i : Nat) (hi : i < numel s) : ∃ a ∈ assigns s, flat s a = i := by
  have : i ∈ (assigns s).map (flat s) := by
    rw [map_flat_assigns]; exact List.mem_range.2 hi
  obtain ⟨a, ha, h⟩ := List.mem_map.1 this
  exact ⟨a, ha, h⟩

theorem valCell_eq_cell (S : SR K) (G : Grammar K) (v : Val K) (X : Nat) (a : List Nat) :
    C01.valCell S G v X a = (cellsOf S G v X)[flat (G.shapeOf (G.nts[X]?.getD [])) a]?.getD S.zero := by
  rw [valCell_eq_getT]; rfl

/-- overlaying a component value that is cellwise below `y` keeps the value below `y` -/
theorem valLe_overlay_cells (S : SR K) (le : K → K → Prop) (hle : OrdLaws S le) (G : Grammar K)
    (v w y : Val K) (comp : List Nat) (hv : ValLe S le G v y)
    (hwlen : ∀ X ∈ comp, X < G.nts.length →
      (cellsOf S G w X).length = numel (G.shapeOf (G.nts[X]?.getD [])))
    (hw : ∀ X ∈ comp, X < G.nts.length → ∀ j, j < numel (G.shapeOf (G.nts[X]?.getD [])) →
      le ((cellsOf S G w X)[j]?.getD S.zero) ((cellsOf S G y X)[j]?.getD S.zero)) :
    ValLe S le G (overlay G.nts.length v w comp) y := by
  intro X a
  by_cases hX : X < G.nts.length ∧ X ∈ comp
  · rw [valCell_eq_cell, valCell_eq_cell, cellsOf_overlay_in S G v w comp X hX.1 hX.2]
    by_cases hj : flat (G.shapeOf (G.nts[X]?.getD [])) a < numel (G.shapeOf (G.nts[X]?.getD []))
    · exact hw X hX.2 hX.1 _ hj
    · rw [List.getElem?_eq_none (by rw [hwlen X hX.2 hX.1]; omega)]
      exact hle.zero_le _
  · rw [valCell_congr S G _ _ X a (ent_overlay_out G.nts.length v w v comp X hX)]
    have : C01.valCell S G (overlay G.nts.length v v comp) X a = C01.valCell S G v X a ∨
        C01.valCell S G (overlay G.nts.length v v comp) X a = S.zero := by
      unfold C01.valCell
      rw [ent_overlay]
      by_cases hXn : X < G.nts.length
      · left; simp [hXn]
      · right; simp [hXn]
    rcases this with h | h
    · rw [h]; exact hv X a
    · rw [h]; exact hle.zero_le _

theorem valLe_overlay_self (S : SR K) (le : K → K → Prop) (hle : OrdLaws S le) (G : Grammar K)
    (v y : Val K) (comp : List Nat) (hv : ValLe S le G v y) :
    ValLe S le G (overlay G.nts.length v y comp) y := by
  intro X a
  unfold C01.valCell
  rw [ent_overlay]
  by_cases hXn : X < G.nts.length
  · by_cases hc : X ∈ comp
    · simp only [hXn, if_true, List.contains_iff_mem, hc]
      exact hle.refl _
    · simp only [hXn, if_true, List.contains_iff_mem, hc, if_false]
      exact hv X a
  · simp only [hXn, if_false]
    exact hle.zero_le _

theorem flatV_getElem? (S : SR K) (G : Grammar K) (comp : List Nat) (f : Val K) (i : Nat)
    (hi : i < (compCells G comp).length) :
    (flatV S G comp f)[i]?.getD S.zero
      = (cellsOf S G f ((compCells G comp)[i]).1)[((compCells G comp)[i]).2]?.getD S.zero := by
  unfold flatV
  rw [List.getElem?_map, List.getElem?_eq_getElem hi]
  rfl

theorem valLe_linear (S : SR K) (le : K → K → Prop) (star : K → K) (h : C09b.OrdStarLaws S le star)
    (hle : OrdLaws S le) (G : Grammar K) (hG : GrammarWF G) (comp : List Nat) (hnd : comp.Nodup)
    (hcomp : ∀ X ∈ comp, X < G.nts.length) (v : Val K) (hnl : nonLinear G comp = false)
    (y : Val K) (hy : ValLe S le G (F S G y) y) (hv : ValLe S le G v y) :
    ValLe S le G (overlay G.nts.length v (ysOf S star G v comp) comp) y := by
  have hov := valLe_overlay_self S le hle G v y comp hv
  -- `y` is a pre-fixed point of the component's equations
  have hpre : ∀ i, i < (compCells G comp).length →
      le ((flatV S G comp (compF S G v comp y))[i]?.getD S.zero) ((flatV S G comp y)[i]?.getD S.zero) := by
    intro i hi
    rw [flatV_getElem? S G comp _ i hi, flatV_getElem? S G comp _ i hi]
    obtain ⟨hX, hj⟩ := (mem_compCells G comp _).1 (List.getElem_mem hi)
    generalize (compCells G comp)[i] = p at hX hj
    obtain ⟨a, ha, hfa⟩ := exists_assign _ _ hj
    rw [← hfa, ← valCell_eq_cell, ← valCell_eq_cell, valCell_eq_getT,
      cellsOf_compF S h.sr G hG v y comp p.1 (hcomp _ hX) hX, ← valCell_eq_getT]
    exact hle.trans _ _ _ (F_mono S le hle G _ _ hov p.1 a) (hy p.1 a)
  have hleast := (linearSolve_isLeast' S le star h G hG comp hnd hcomp v hnl).2 y hpre
  apply valLe_overlay_cells S le hle G v _ y comp hv
  · intro X hX hXn
    exact length_cellsOf_ysOf S star G v comp hnd X hXn hX
  · intro X hX hXn j hj
    have hmem : (X, j) ∈ compCells G comp := (mem_compCells G comp (X, j)).2 ⟨hX, hj⟩
    obtain ⟨i, hi, hi2⟩ := List.getElem_of_mem hmem
    have := hleast i hi
    rw [flatV_getElem? S G comp _ i hi, flatV_getElem? S G comp _ i hi, hi2] at this
    exact this

/-! ### one component, by method -/

theorem solveComp_oneStep [BEq K] (S : SR K) (star : K → K) (G : Grammar K) (m : Method) (kmax : Nat)
    (o : Outcome K) (comp : List Nat) (hcm : compMethod m comp (maxRhs G comp) = .oneStep) :
    solveComp S star G m kmax o comp = .ok { o with value := (overlay G.nts.length o.value
      (compF S G o.value comp (List.replicate G.nts.length none)) comp) } := by
  unfold solveComp
  rw [hcm]
  rfl

theorem solveComp_fixedPoint' [BEq K] (S : SR K) (star : K → K) (G : Grammar K) (m : Method) (kmax : Nat)
    (o : Outcome K) (comp : List Nat) (hcm : compMethod m comp (maxRhs G comp) = .fixedPoint) :
    solveComp S star G m kmax o comp = .ok { o with
      value := overlay G.nts.length o.value (fixedPoint S G o.value comp kmax).1 comp,
      warned := o.warned || (fixedPoint S G o.value comp kmax).2 } := by
  unfold solveComp
  rw [hcm]
  rfl

theorem solveComp_linear [BEq K] (S : SR K) (star : K → K) (G : Grammar K) (m : Method) (kmax : Nat)
    (o : Outcome K) (comp : List Nat) (hcm : compMethod m comp (maxRhs G comp) = .linear) :
    solveComp S star G m kmax o comp =
      if nonLinear G comp then .error "ValueError"
      else .ok { o with value := overlay G.nts.length o.value (ysOf S star G o.value comp) comp } := by
  unfold solveComp
  rw [hcm]
  simp only
  rw [linearSolve_eq]
  by_cases h : nonLinear G comp = true
  · simp only [h, if_true]; rfl
  · simp only [h, if_false, Bool.false_eq_true]; rfl

theorem solveComp_newton [BEq K] (S : SR K) (star : K → K) (G : Grammar K) (m : Method) (kmax : Nat)
    (o : Outcome K) (comp : List Nat) (hcm : compMethod m comp (maxRhs G comp) = .newton) :
    solveComp S star G m kmax o comp = .ok { o with unmodelled := true } := by
  unfold solveComp
  rw [hcm]
  rfl

theorem compMethod_oneStep (m : Method) (comp : List Nat) (mr : Nat) (hm : m ≠ .oneStep)
    (h : compMethod m comp mr = .oneStep) : comp.length = 1 ∧ mr = 0 := by
  unfold compMethod at h
  split at h
  · rename_i hc
    simpa using hc
  · split at h
    · cases h
    · exact absurd h hm

/-- warnings and the `unmodelled` flag are sticky -/
theorem solveComp_sticky [BEq K] (S : SR K) (star : K → K) (G : Grammar K) (m : Method) (kmax : Nat)
    (o o1 : Outcome K) (comp : List Nat) (h : solveComp S star G m kmax o comp = .ok o1) :
    (o1.warned = false → o.warned = false) ∧ (o1.unmodelled = false → o.unmodelled = false) := by
  cases hcm : compMethod m comp (maxRhs G comp) with
  | oneStep =>
    rw [solveComp_oneStep S star G m kmax o comp hcm] at h
    injection h with h; subst h
    exact ⟨id, id⟩
  | fixedPoint =>
    rw [solveComp_fixedPoint' S star G m kmax o comp hcm] at h
    injection h with h; subst h
    refine ⟨?_, id⟩
    intro hw
    simp only [Bool.or_eq_false_iff] at hw
    exact hw.1
  | linear =>
    rw [solveComp_linear S star G m kmax o comp hcm] at h
    split at h
    · cases h
    · injection h with h; subst h
      exact ⟨id, id⟩
  | newton =>
    rw [solveComp_newton S star G m kmax o comp hcm] at h
    injection h with h; subst h
    refine ⟨id, ?_⟩
    intro hu
    simp at hu

theorem foldlM_sticky [BEq K] (S : SR K) (star : K → K) (G : Grammar K) (m : Method) (kmax : Nat)
    (l : List (List Nat)) (o o' : Outcome K) (h : l.foldlM (solveComp S star G m kmax) o = .ok o') :
    (o'.warned = false → o.warned = false) ∧ (o'.unmodelled = false → o.unmodelled = false) := by
  induction l generalizing o with
  | nil =>
    rw [List.foldlM_nil] at h
    injection h with h; subst h
    exact ⟨id, id⟩
  | cons c l ih =>
    rw [List.foldlM_cons] at h
    cases hs : solveComp S star G m kmax o c with
    | error e => rw [hs] at h; cases h
    | ok o1 =>
      rw [hs] at h
      have h1 := ih o1 h
      have h2 := solveComp_sticky S star G m kmax o o1 c hs
      exact ⟨fun hw => h2.1 (h1.1 hw), fun hu => h2.2 (h1.2 hu)⟩

/-- what the loop maintains: the processed components satisfy their equations, and the value is below every
pre-fixed point of the whole system -/
structure Good (S : SR K) (le : K → K → Prop) (G : Grammar K) (pre : List (List Nat)) (v : Val K) : Prop where
  inv : Inv S G pre v
  least : ∀ y, ValLe S le G (F S G y) y → ValLe S le G v y

theorem comp_nodup (G : Grammar K) (hG : GrammarWF G) (c : List Nat) (hc : c ∈ sccOrder G) : c.Nodup := by
  have h := (C19.scc_partition (ntGraph G) (graphOK_ntGraph G hG)).2.2
  exact (List.nodup_flatten.mp h).1 c hc

theorem step_good [BEq K] (hbeq : ∀ a b : K, (a == b) = true → a = b)
    (S : SR K) (le : K → K → Prop) (star : K → K) (h : C09b.OrdStarLaws S le star) (hle : OrdLaws S le)
    (G : Grammar K) (hG : GrammarWF G) (m : Method) (hm : m ≠ .oneStep) (kmax : Nat)
    (pre rest : List (List Nat)) (comp : List Nat) (hcs : sccOrder G = pre ++ comp :: rest)
    (o o1 : Outcome K) (hstep : solveComp S star G m kmax o comp = .ok o1)
    (hw : o1.warned = false) (hu : o1.unmodelled = false) (hg : Good S le G pre o.value) :
    Good S le G (pre ++ [comp]) o1.value := by
  have hmem : comp ∈ sccOrder G := by rw [hcs]; simp
  have hcomp : ∀ X ∈ comp, X < G.nts.length := fun X hX => comp_lt G hG comp hmem X hX
  have hnd := comp_nodup G hG comp hmem
  have hS := h.sr
  cases hcm : compMethod m comp (maxRhs G comp) with
  | oneStep =>
    rw [solveComp_oneStep S star G m kmax o comp hcm] at hstep
    injection hstep with hstep; subst hstep
    obtain ⟨_, hmr⟩ := compMethod_oneStep m comp _ hm hcm
    exact ⟨inv_overlay S G hG pre rest comp hcs _ _ hg.inv
        (fix_oneStep S hS G hG comp hcomp o.value hg.inv.len hmr),
      fun y hy => valLe_oneStep S hS le hle G hG y hy o.value comp (hg.least y hy)⟩
  | fixedPoint =>
    rw [solveComp_fixedPoint' S star G m kmax o comp hcm] at hstep
    injection hstep with hstep; subst hstep
    simp only [Bool.or_eq_false_iff] at hw
    exact ⟨inv_overlay S G hG pre rest comp hcs _ _ hg.inv
        (fix_fixedPoint hbeq S hS G hG comp hcomp o.value kmax hw.2),
      fun y hy => valLe_fixedPoint S hS le hle G hG kmax y hy o.value comp (hg.least y hy)⟩
  | linear =>
    rw [solveComp_linear S star G m kmax o comp hcm] at hstep
    split at hstep
    · cases hstep
    · rename_i hnl
      have hnl' : nonLinear G comp = false := by simpa using hnl
      injection hstep with hstep; subst hstep
      exact ⟨inv_overlay S G hG pre rest comp hcs _ _ hg.inv
          (fix_linear S le star h G hG comp hnd hcomp o.value hnl'),
        fun y hy => valLe_linear S le star h hle G hG comp hnd hcomp o.value hnl' y hy (hg.least y hy)⟩
  | newton =>
    rw [solveComp_newton S star G m kmax o comp hcm] at hstep
    injection hstep with hstep; subst hstep
    simp at hu

theorem fold_good [BEq K] (hbeq : ∀ a b : K, (a == b) = true → a = b)
    (S : SR K) (le : K → K → Prop) (star : K → K) (h : C09b.OrdStarLaws S le star) (hle : OrdLaws S le)
    (G : Grammar K) (hG : GrammarWF G) (m : Method) (hm : m ≠ .oneStep) (kmax : Nat) (rest : List (List Nat)) :
    ∀ (pre : List (List Nat)) (o o' : Outcome K), sccOrder G = pre ++ rest → Good S le G pre o.value →
      rest.foldlM (solveComp S star G m kmax) o = .ok o' → o'.warned = false → o'.unmodelled = false →
      Good S le G (pre ++ rest) o'.value := by
  induction rest with
  | nil =>
    intro pre o o' _ hg hf _ _
    rw [List.foldlM_nil] at hf
    injection hf with hf; subst hf
    simpa using hg
  | cons comp rest ih =>
    intro pre o o' hcs hg hf hw hu
    rw [List.foldlM_cons] at hf
    cases hs : solveComp S star G m kmax o comp with
    | error e => rw [hs] at hf; cases hf
    | ok o1 =>
      rw [hs] at hf
      have hst := foldlM_sticky S star G m kmax rest o1 o' hf
      have hg1 := step_good hbeq S le star h hle G hG m hm kmax pre rest comp hcs o o1 hs (hst.1 hw) (hst.2 hu) hg
      have := ih (pre ++ [comp]) o1 o' (by rw [hcs]; simp) hg1 hf hw hu
      simpa using this

/-- the driver loop returns the least fixed point, for every requested method except the internal `oneStep` -/
theorem sumProducts_isLeast' [BEq K] (hbeq : ∀ a b : K, (a == b) = true → a = b)
    (S : SR K) (le : K → K → Prop) (star : K → K) (h : C09b.OrdStarLaws S le star) (hle : OrdLaws S le)
    (G : Grammar K) (hG : GrammarWF G) (m : Method) (hm : m ≠ .oneStep) (kmax : Nat) (o : Outcome K)
    (hok : sumProducts S star G m kmax = .ok o) (hw : o.warned = false) (hu : o.unmodelled = false) :
    (∀ X, X < G.nts.length → cellsOf S G (F S G o.value) X = cellsOf S G o.value X) ∧
    (∀ y, ValLe S le G (F S G y) y → ValLe S le G o.value y) := by
  unfold sumProducts at hok
  have hg0 : Good S le G [] ({ value := zeroVal G } : Outcome K).value :=
    ⟨⟨by simp [zeroVal], by intro c hc; simp at hc⟩, fun y _ => valLe_zeroVal S le hle G y⟩
  have hg := fold_good hbeq S le star h hle G hG m hm kmax (sccOrder G) [] _ o (by simp) hg0 hok hw hu
  refine ⟨?_, hg.least⟩
  intro X hX
  obtain ⟨c, hc, hXc⟩ := (sccOrder_ok G hG).cover X (by rw [verts_ntGraph]; simpa using hX)
  exact hg.inv.fixed c (by simpa using hc) X hXc

/-! ### `method='linear'`: when the loop raises -/

theorem foldlM_error_iff {α β : Type} (f : β → α → Except String β) (bad : α → Prop)
    (hbad : ∀ b a, (∃ e, f b a = .error e) ↔ bad a) (l : List α) (b : β) :
    (∃ e, l.foldlM f b = .error e) ↔ ∃ a ∈ l, bad a := by
  induction l generalizing b with
  | nil =>
    rw [List.foldlM_nil]
    constructor
    · rintro ⟨e, he⟩; cases he
    · rintro ⟨a, ha, _⟩; simp at ha
  | cons a l ih =>
    rw [List.foldlM_cons]
    cases hf : f b a with
    | error e =>
      constructor
      · intro _
        exact ⟨a, List.mem_cons_self .., (hbad b a).1 ⟨e, hf⟩⟩
      · intro _
        exact ⟨e, rfl⟩
    | ok b' =>
      have hna : ¬ bad a := by
        intro hb
        obtain ⟨e, he⟩ := (hbad b a).2 hb
        rw [hf] at he
        cases he
      show (∃ e, l.foldlM f b' = .error e) ↔ _
      rw [ih b']
      constructor
      · rintro ⟨a', ha', hb'⟩
        exact ⟨a', List.mem_cons_of_mem _ ha', hb'⟩
      · rintro ⟨a', ha', hb'⟩
        rcases List.mem_cons.1 ha' with rfl | ha'
        · exact absurd hb' hna
        · exact ⟨a', ha', hb'⟩

theorem nonLinear_iff (G : Grammar K) (comp : List Nat) :
    nonLinear G comp = true ↔ ∃ X ∈ comp, ∃ r ∈ G.rulesOf X, 2 ≤ (compEdges G comp r).length := by
  unfold nonLinear
  simp only [List.any_eq_true, decide_eq_true_eq, ge_iff_le]

theorem solveComp_linear_error [BEq K] (S : SR K) (star : K → K) (G : Grammar K) (kmax : Nat)
    (o : Outcome K) (comp : List Nat) :
    (∃ e, solveComp S star G .linear kmax o comp = .error e) ↔
      ¬ (comp.length = 1 ∧ maxRhs G comp = 0) ∧ nonLinear G comp = true := by
  by_cases hc : (comp.length == 1 && maxRhs G comp == 0) = true
  · have hcm : compMethod .linear comp (maxRhs G comp) = .oneStep := by
      unfold compMethod; rw [if_pos hc]
    rw [solveComp_oneStep S star G .linear kmax o comp hcm]
    constructor
    · rintro ⟨e, he⟩; cases he
    · rintro ⟨hn, _⟩
      exact absurd (by simpa using hc) hn
  · have hcm : compMethod .linear comp (maxRhs G comp) = .linear := by
      unfold compMethod
      rw [if_neg hc]
      have : (Method.linear == Method.newton) = false := by decide
      simp [this]
    have hc' : ¬ (comp.length = 1 ∧ maxRhs G comp = 0) := by simpa using hc
    rw [solveComp_linear S star G .linear kmax o comp hcm]
    by_cases hnl : nonLinear G comp = true
    · simp only [hnl, if_true]
      exact ⟨fun _ => ⟨hc', trivial⟩, fun _ => ⟨_, rfl⟩⟩
    · simp only [hnl, if_false, Bool.false_eq_true]
      constructor
      · rintro ⟨e, he⟩; cases he
      · rintro ⟨_, hf⟩; exact absurd hf (by simp)

end C02dL
