/-
Helper lemmas for Props/C09b.lean (leastness of the Gauss–Jordan/Lehmann loop): the algebra toolkit and the
explicit formulas for the outputs of one pivot step (copies of the private lemmas of Props/C09.lean), sums
over `List.range' k m`, and the compatibility of `pivot`/`solveLoop` with semiring homomorphisms.
-/
import FggsModel.Solve
import FggsProofs.Props.C01
import FggsProofs.Props.C09
import FggsProofs.Props.C11
import Mathlib.Data.List.Basic

set_option linter.unusedSimpArgs false
set_option linter.unusedVariables false

namespace C09bL
open Fggs Fggs.Sem Fggs.Sv

variable {K K' : Type}

/-! ### algebra toolkit -/
section toolkit
variable {S : SR K} (hS : C01.SRLaws S)
include hS

theorem add_zero (a : K) : S.add a S.zero = a := by rw [hS.add_comm, hS.zero_add]
theorem right_distrib (a b c : K) : S.mul (S.add a b) c = S.add (S.mul a c) (S.mul b c) := by
  rw [hS.mul_comm, hS.left_distrib, hS.mul_comm c a, hS.mul_comm c b]

theorem foldl_add (l : List K) (a : K) : l.foldl S.add a = S.add a (S.sum l) := by
  induction l generalizing a with
  | nil => simp [SR.sum, add_zero hS]
  | cons b l ih =>
    simp only [SR.sum, List.foldl_cons]
    rw [ih, ih (S.add S.zero b), hS.zero_add, hS.add_assoc]

omit hS in
theorem sum_nil' : S.sum ([] : List K) = S.zero := rfl

theorem sum_cons (a : K) (l : List K) : S.sum (a :: l) = S.add a (S.sum l) := by
  show (a :: l).foldl S.add S.zero = _
  rw [List.foldl_cons, foldl_add hS, hS.zero_add]

theorem sum_map_add {α : Type} (l : List α) (f g : α → K) :
    S.sum (l.map (fun x => S.add (f x) (g x))) = S.add (S.sum (l.map f)) (S.sum (l.map g)) := by
  induction l with
  | nil => simp [sum_nil', hS.zero_add]
  | cons a l ih =>
    simp only [List.map_cons, sum_cons hS, ih]
    rw [hS.add_assoc, hS.add_assoc, ← hS.add_assoc (g a), ← hS.add_assoc (S.sum (l.map f)),
      hS.add_comm (g a)]

theorem sum_map_mul_left {α : Type} (l : List α) (f : α → K) (c : K) :
    S.sum (l.map (fun x => S.mul c (f x))) = S.mul c (S.sum (l.map f)) := by
  induction l with
  | nil => simp [sum_nil']; rw [hS.mul_comm, hS.zero_mul]
  | cons a l ih => simp only [List.map_cons, sum_cons hS, ih, hS.left_distrib]

/-- split the first index off a sum over `k, k+1, …, k+m` -/
theorem sum_range'_succ (f : Nat → K) (k m : Nat) :
    S.sum ((List.range' k (m+1)).map f) = S.add (f k) (S.sum ((List.range' (k+1) m).map f)) := by
  rw [List.range'_succ, List.map_cons, sum_cons hS]

end toolkit

theorem sum_map_congr {S : SR K} {α : Type} (l : List α) (f g : α → K)
    (h : ∀ x ∈ l, f x = g x) : S.sum (l.map f) = S.sum (l.map g) := by
  rw [List.map_congr_left h]

/-! ### explicit formulas for the outputs of one pivot step -/

theorem getM_tab (S : SR K) (n : Nat) (f : Nat → Nat → K) (i j : Nat) (hi : i < n) (hj : j < n) :
    getM S ((List.range n).map (fun i => (List.range n).map (fun j => f i j))) i j = f i j := by
  simp [getM, hi, hj]

theorem getV_tab (S : SR K) (n : Nat) (f : Nat → K) (i : Nat) (hi : i < n) :
    getV S ((List.range n).map f) i = f i := by
  simp [getV, hi]

/-- column `k` of the new matrix: the old column scaled by `star a[k][k]` -/
theorem pivot_col (S : SR K) (star : K → K) (n k : Nat) (a : List (List K)) (x : List K)
    (i : Nat) (hi : i < n) (hk : k < n) :
    getM S (pivot S star n k a x).1 i k = S.mul (getM S a i k) (star (getM S a k k)) := by
  simp only [pivot]
  rw [getM_tab S n _ i k hi hk, if_neg (by omega), getM_tab S n _ i k hi hk]
  simp

/-- columns `j > k` of the new matrix -/
theorem pivot_right (S : SR K) (star : K → K) (n k : Nat) (a : List (List K)) (x : List K)
    (i j : Nat) (hi : i < n) (hj : j < n) (hkj : k < j) :
    getM S (pivot S star n k a x).1 i j =
      S.add (getM S a i j) (S.mul (S.mul (getM S a i k) (star (getM S a k k))) (getM S a k j)) := by
  have hk : k < n := by omega
  have hne : (j == k) = false := by simp; omega
  simp only [pivot]
  rw [getM_tab S n _ i j hi hj, if_pos hkj, getM_tab S n _ i j hi hj, getM_tab S n _ i k hi hk,
    getM_tab S n _ k j hk hj]
  simp [hne]

/-- the new right-hand side -/
theorem pivot_vec (S : SR K) (star : K → K) (n k : Nat) (a : List (List K)) (x : List K)
    (i : Nat) (hi : i < n) (hk : k < n) :
    getV S (pivot S star n k a x).2 i =
      S.add (getV S x i) (S.mul (S.mul (getM S a i k) (star (getM S a k k))) (getV S x k)) := by
  have h := pivot_col S star n k a x i hi hk
  simp only [pivot] at h ⊢
  rw [getV_tab S n _ i hi, h]

theorem pivot_vec_length (S : SR K) (star : K → K) (n k : Nat) (a : List (List K)) (x : List K) :
    (pivot S star n k a x).2.length = n := by
  simp [pivot]

theorem fold_vec_length (S : SR K) (star : K → K) (n : Nat) (a : List (List K)) (b : List K)
    (hb : b.length = n) (m : Nat) :
    ((List.range m).foldl (fun (st : List (List K) × List K) k => pivot S star n k st.1 st.2) (a, b)).2.length
      = n := by
  cases m with
  | zero => simpa using hb
  | succ m =>
    rw [List.range_succ, List.foldl_append, List.foldl_cons, List.foldl_nil]
    exact pivot_vec_length ..

theorem solveLoop_length (S : SR K) (star : K → K) (a : List (List K)) (b : List K)
    (hb : b.length = a.length) : (solveLoop S star a b).length = a.length :=
  fold_vec_length S star a.length a b hb a.length

/-- a component of `A y + b` -/
theorem getV_affine (S : SR K) (a : List (List K)) (b y : List K) (i : Nat) (hi : i < a.length) :
    getV S (affine S a b y) i =
      S.add (S.sum ((List.range a.length).map (fun j => S.mul (getM S a i j) (getV S y j)))) (getV S b i) := by
  simp [affine, getV, hi]

/-! ### semiring homomorphisms commute with the loop -/
section hom
variable {S : SR K} {S' : SR K'} {f : K → K'} (hf : C11.Hom S S' f)
include hf

theorem getM_map (a : List (List K)) (i j : Nat) :
    getM S' (a.map (List.map f)) i j = f (getM S a i j) := by
  unfold getM
  rw [List.getElem?_map]
  cases a[i]? with
  | none => simp [hf.zero]
  | some r =>
    simp only [Option.map_some, Option.getD_some, List.getElem?_map]
    cases r[j]? with
    | none => simp [hf.zero]
    | some v => rfl

theorem getV_map (x : List K) (i : Nat) : getV S' (x.map f) i = f (getV S x i) := by
  unfold getV
  rw [List.getElem?_map]
  cases x[i]? with
  | none => simp [hf.zero]
  | some v => rfl

theorem pivot_map (star : K → K) (star' : K' → K') (hs : ∀ a, star' (f a) = f (star a))
    (n k : Nat) (a : List (List K)) (x : List K) :
    pivot S' star' n k (a.map (List.map f)) (x.map f) =
      ((pivot S star n k a x).1.map (List.map f), (pivot S star n k a x).2.map f) := by
  have h1 : (List.range n).map (fun i => (List.range n).map (fun j =>
        if j == k then S'.mul (getM S' (a.map (List.map f)) i k) (star' (getM S' (a.map (List.map f)) k k))
        else getM S' (a.map (List.map f)) i j)) =
      ((List.range n).map (fun i => (List.range n).map (fun j =>
        if j == k then S.mul (getM S a i k) (star (getM S a k k)) else getM S a i j))).map (List.map f) := by
    rw [List.map_map]
    apply List.map_congr_left; intro i _
    simp only [Function.comp_def, List.map_map]
    apply List.map_congr_left; intro j _
    simp only [getM_map hf, hs, ← hf.mul]
    split <;> rfl
  simp only [pivot]
  rw [h1]
  generalize ((List.range n).map (fun i => (List.range n).map (fun j =>
        if j == k then S.mul (getM S a i k) (star (getM S a k k)) else getM S a i j))) = a1
  have h2 : (List.range n).map (fun i => (List.range n).map (fun j =>
        if j > k then S'.add (getM S' (a1.map (List.map f)) i j)
          (S'.mul (getM S' (a1.map (List.map f)) i k) (getM S' (a1.map (List.map f)) k j))
        else getM S' (a1.map (List.map f)) i j)) =
      ((List.range n).map (fun i => (List.range n).map (fun j =>
        if j > k then S.add (getM S a1 i j) (S.mul (getM S a1 i k) (getM S a1 k j))
        else getM S a1 i j))).map (List.map f) := by
    rw [List.map_map]
    apply List.map_congr_left; intro i _
    simp only [Function.comp_def, List.map_map]
    apply List.map_congr_left; intro j _
    simp only [getM_map hf, ← hf.mul, ← hf.add]
    split <;> rfl
  rw [h2]
  generalize ((List.range n).map (fun i => (List.range n).map (fun j =>
        if j > k then S.add (getM S a1 i j) (S.mul (getM S a1 i k) (getM S a1 k j))
        else getM S a1 i j))) = a2
  refine Prod.ext rfl ?_
  simp only [List.map_map]
  apply List.map_congr_left; intro i _
  simp only [Function.comp_def, getM_map hf, getV_map hf, ← hf.mul, ← hf.add]

theorem fold_map (star : K → K) (star' : K' → K') (hs : ∀ a, star' (f a) = f (star a))
    (n : Nat) (a : List (List K)) (b : List K) (m : Nat) :
    (List.range m).foldl (fun (st : List (List K') × List K') k => pivot S' star' n k st.1 st.2)
        (a.map (List.map f), b.map f) =
      (((List.range m).foldl (fun (st : List (List K) × List K) k => pivot S star n k st.1 st.2) (a, b)).1.map
          (List.map f),
       ((List.range m).foldl (fun (st : List (List K) × List K) k => pivot S star n k st.1 st.2) (a, b)).2.map f) := by
  induction m with
  | zero => rfl
  | succ m ih =>
    rw [List.range_succ, List.foldl_append, List.foldl_append, ih]
    simp only [List.foldl_cons, List.foldl_nil]
    exact pivot_map hf star star' hs n m _ _

theorem foldl_add_hom (l : List K) (a : K) :
    f (l.foldl S.add a) = (l.map f).foldl S'.add (f a) := by
  induction l generalizing a with
  | nil => rfl
  | cons b l ih => simp only [List.foldl_cons, List.map_cons]; rw [ih, hf.add]

theorem sum_hom (l : List K) : f (S.sum l) = S'.sum (l.map f) := by
  unfold SR.sum; rw [foldl_add_hom hf, hf.zero]

theorem affine_map (a : List (List K)) (b x : List K) :
    affine S' (a.map (List.map f)) (b.map f) (x.map f) = (affine S a b x).map f := by
  unfold affine
  simp only [List.length_map, List.map_map]
  apply List.map_congr_left; intro i _
  simp only [Function.comp_def, hf.add, sum_hom hf, List.map_map, hf.mul, getM_map hf, getV_map hf]

end hom

/-! ### lifting lists into a carrier (subtype) -/

theorem lift_list {α : Type} {P : α → Prop} (l : List α) (h : ∀ x ∈ l, P x) :
    ∃ l' : List {x // P x}, l'.map (fun x => x.1) = l := by
  induction l with
  | nil => exact ⟨[], rfl⟩
  | cons x l ih =>
    obtain ⟨l', hl'⟩ := ih (fun y hy => h y (List.mem_cons_of_mem _ hy))
    exact ⟨⟨x, h x (List.mem_cons_self ..)⟩ :: l', by simp [hl']⟩

theorem lift_mat {α : Type} {P : α → Prop} (a : List (List α)) (h : ∀ r ∈ a, ∀ x ∈ r, P x) :
    ∃ a' : List (List {x // P x}), a'.map (List.map (fun x => x.1)) = a := by
  induction a with
  | nil => exact ⟨[], rfl⟩
  | cons r a ih =>
    obtain ⟨a', ha'⟩ := ih (fun r' hr' => h r' (List.mem_cons_of_mem _ hr'))
    obtain ⟨r', hr'⟩ := lift_list r (h r (List.mem_cons_self ..))
    exact ⟨r' :: a', by simp [ha', hr']⟩

end C09bL
