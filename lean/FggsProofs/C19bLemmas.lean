/-
Lemmas for C19 stage 2 (Props/C19b.lean): correctness of the Tarjan model `Fggs.Scc.Impl.scc`.

* `Inv` — state invariant (indexed = on stack or emitted; no duplicates; emitted components are
  strongly connected and closed under successors into the same/earlier components).
* `VisitPost` / `VisitSpec` — specification of `visit` (after Chen, Cohen, Lévy, Merz, Théry 2019),
  proved by induction on the fuel under the hypothesis `unidx g s.indexof < fuel`
  (number of unindexed vertices), so the fuel `|V| + 1` is never exhausted.
* `LoopInv` — invariant of the successor loop inside `visit`; `finish_spec` — the pop step.
* `final_inv` — the outer fold ends with `Inv`, an empty stack and every vertex indexed.
-/
import FggsModel.Scc
import FggsProofs.Props.C19
import Mathlib.Tactic.Linarith
import Mathlib.Data.List.Basic
import Mathlib.Data.List.Nodup

set_option linter.unusedSimpArgs false
set_option linter.unusedVariables false
set_option linter.unnecessarySeqFocus false

namespace C19.Tarjan
open Fggs Fggs.Scc

def push (s : St) (v : Nat) : St :=
  { s with indexof := setKV s.indexof v s.index, lowlink := setKV s.lowlink v s.index,
           index := s.index + 1, stack := v :: s.stack }

def stepF (g : Graph) (fuel v : Nat) (s : St) (w : Nat) : St :=
  if (s.indexof.lookup w).isNone then
    let s := visit g fuel s w
    { s with lowlink := setKV s.lowlink v (min (getKV s.lowlink v) (getKV s.lowlink w)) }
  else if s.stack.contains w then
    { s with lowlink := setKV s.lowlink v (min (getKV s.lowlink v) (getKV s.indexof w)) }
  else s

def finish (v : Nat) (s : St) : St :=
  if getKV s.lowlink v == getKV s.indexof v then
    let (comp, rest) := popUntil v s.stack []
    { s with stack := rest, comps := s.comps ++ [comp] }
  else s

theorem visit_succ (g : Graph) (fuel : Nat) (s : St) (v : Nat) :
    visit g (fuel+1) s v = finish v ((succs g v).foldl (stepF g fuel v) (push s v)) := rfl


/-! ### association lists -/

theorem lookup_filter_ne (l : List (Nat × Nat)) (k k' : Nat) (h : k' ≠ k) :
    (l.filter (fun p => p.1 != k)).lookup k' = l.lookup k' := by
  induction l with
  | nil => rfl
  | cons p l ih =>
    obtain ⟨a, b⟩ := p
    by_cases ha : a = k
    · subst ha
      have h1 : (k' == a) = false := by simpa using h
      simp [List.filter, List.lookup, h1, ih]
    · have h1 : (a != k) = true := by simpa using ha
      simp only [List.filter, h1, List.lookup]
      rw [ih]

theorem lookup_setKV (l : List (Nat × Nat)) (k v k' : Nat) :
    (setKV l k v).lookup k' = if k' = k then some v else l.lookup k' := by
  unfold setKV
  by_cases h : k' = k
  · subst h; simp [List.lookup]
  · have h1 : (k' == k) = false := by simpa using h
    simp only [List.lookup, h1, if_neg h]
    exact lookup_filter_ne l k k' h

theorem getKV_setKV (l : List (Nat × Nat)) (k v k' : Nat) :
    getKV (setKV l k v) k' = if k' = k then v else getKV l k' := by
  unfold getKV
  rw [lookup_setKV]
  split <;> rfl

theorem popUntil_spec (v : Nat) (seg rest acc : List Nat) (hv : v ∉ seg) :
    popUntil v (seg ++ v :: rest) acc = (acc.reverse ++ seg ++ [v], rest) := by
  induction seg generalizing acc with
  | nil => simp [popUntil]
  | cons w seg ih =>
    have hw : w ≠ v := fun h => hv (by simp [h])
    have hw' : (w == v) = false := by simpa using hw
    simp only [List.cons_append, popUntil, hw']
    rw [ih]
    · simp
    · intro h; exact hv (List.mem_cons_of_mem _ h)

/-! ### fuel measure -/

theorem filter_length_le {α} (l : List α) (p q : α → Bool) (h : ∀ a ∈ l, p a = true → q a = true) :
    (l.filter p).length ≤ (l.filter q).length := by
  induction l with
  | nil => simp
  | cons a l ih =>
    have ih' := ih (fun b hb => h b (List.mem_cons_of_mem _ hb))
    have ha := h a List.mem_cons_self
    simp only [List.filter]
    cases hp : p a <;> cases hq : q a <;> simp_all <;> omega

theorem filter_length_lt {α} (l : List α) (p q : α → Bool) (h : ∀ a ∈ l, p a = true → q a = true)
    (x : α) (hx : x ∈ l) (hpx : p x = false) (hqx : q x = true) :
    (l.filter p).length < (l.filter q).length := by
  induction l with
  | nil => simp at hx
  | cons a l ih =>
    have hle := filter_length_le l p q (fun b hb => h b (List.mem_cons_of_mem _ hb))
    have ha := h a List.mem_cons_self
    rcases List.mem_cons.mp hx with rfl | hx'
    · simp only [List.filter, hpx, hqx, List.length_cons]; omega
    · have ih' := ih (fun b hb => h b (List.mem_cons_of_mem _ hb)) hx'
      simp only [List.filter]
      cases hp : p a <;> cases hq : q a <;> simp_all <;> omega

/-- number of vertices of `g` not yet indexed -/
def unidx (g : Graph) (io : List (Nat × Nat)) : Nat :=
  ((verts g).filter (fun w => (io.lookup w).isNone)).length

theorem unidx_le (g : Graph) (io io' : List (Nat × Nat))
    (h : ∀ u, io.lookup u ≠ none → io'.lookup u ≠ none) : unidx g io' ≤ unidx g io := by
  unfold unidx
  apply filter_length_le
  intro a _ ha
  simp only [Option.isNone_iff_eq_none] at ha ⊢
  by_contra hne
  exact h a hne ha

theorem unidx_lt (g : Graph) (io io' : List (Nat × Nat))
    (h : ∀ u, io.lookup u ≠ none → io'.lookup u ≠ none) (v : Nat) (hv : v ∈ verts g)
    (h1 : io.lookup v = none) (h2 : io'.lookup v ≠ none) : unidx g io' < unidx g io := by
  unfold unidx
  apply filter_length_lt _ _ _ _ v hv
  · cases h : io'.lookup v with
    | none => exact absurd h h2
    | some x => rfl
  · simp [h1]
  · intro a _ ha
    simp only [Option.isNone_iff_eq_none] at ha ⊢
    by_contra hne
    exact h a hne ha

theorem unidx_le_length (g : Graph) (io : List (Nat × Nat)) : unidx g io ≤ g.length := by
  unfold unidx
  have := List.length_filter_le (fun w => (io.lookup w).isNone) (verts g)
  simpa [verts] using this


/-! ### the state invariant -/

structure InvC (g : Graph) (index : Nat) (io : List (Nat × Nat)) (stack : List Nat)
    (comps : List (List Nat)) : Prop where
  idx_iff : ∀ w, io.lookup w ≠ none ↔ (w ∈ stack ∨ w ∈ comps.flatten)
  nd_stack : stack.Nodup
  nd_comps : comps.flatten.Nodup
  disj : ∀ w ∈ stack, w ∉ comps.flatten
  inverts : ∀ w, io.lookup w ≠ none → w ∈ verts g
  bound : ∀ w n, io.lookup w = some n → n < index
  strong : ∀ c ∈ comps, ∀ u ∈ c, ∀ v ∈ c, Reach g u v
  order : ∀ i (hi : i < comps.length), ∀ y ∈ comps[i], ∀ z ∈ succs g y,
      ∃ j, ∃ hj : j < comps.length, j ≤ i ∧ z ∈ comps[j]

def Inv (g : Graph) (s : St) : Prop := InvC g s.index s.indexof s.stack s.comps

theorem getKV_of_lookup {l : List (Nat × Nat)} {k n : Nat} (h : l.lookup k = some n) : getKV l k = n := by
  simp [getKV, h]

theorem getKV_congr {l l' : List (Nat × Nat)} {k : Nat} (h : l'.lookup k = l.lookup k) :
    getKV l' k = getKV l k := by
  simp [getKV, h]

theorem Inv.num_lt {g : Graph} {s : St} (h : Inv g s) {w : Nat} (hw : s.indexof.lookup w ≠ none) :
    getKV s.indexof w < s.index := by
  cases hl : s.indexof.lookup w with
  | none => exact absurd hl hw
  | some n => rw [getKV_of_lookup hl]; exact h.bound w n hl

theorem Inv.idx_of_stack {g : Graph} {s : St} (h : Inv g s) {w : Nat} (hw : w ∈ s.stack) :
    s.indexof.lookup w ≠ none := (h.idx_iff w).mpr (Or.inl hw)

theorem inv_empty (g : Graph) : Inv g {} := by
  refine ⟨?_, ?_, ?_, ?_, ?_, ?_, ?_, ?_⟩ <;> simp [List.lookup]

theorem inv_push (g : Graph) (s : St) (v : Nat) (h : Inv g s) (hv : s.indexof.lookup v = none)
    (hvg : v ∈ verts g) : Inv g (push s v) := by
  have hvs : v ∉ s.stack := fun hm => (h.idx_iff v).mpr (Or.inl hm) hv
  have hvc : v ∉ s.comps.flatten := fun hm => (h.idx_iff v).mpr (Or.inr hm) hv
  refine ⟨?_, ?_, h.nd_comps, ?_, ?_, ?_, h.strong, h.order⟩
  · intro w
    show (setKV s.indexof v s.index).lookup w ≠ none ↔ (w ∈ v :: s.stack ∨ w ∈ s.comps.flatten)
    rw [lookup_setKV]
    by_cases hwv : w = v
    · subst hwv; simp
    · simp only [if_neg hwv, List.mem_cons, hwv, false_or]; exact h.idx_iff w
  · exact List.nodup_cons.mpr ⟨hvs, h.nd_stack⟩
  · intro w hw
    rcases List.mem_cons.mp hw with rfl | hw
    · exact hvc
    · exact h.disj w hw
  · intro w
    show (setKV s.indexof v s.index).lookup w ≠ none → _
    rw [lookup_setKV]
    by_cases hwv : w = v
    · subst hwv; intro _; exact hvg
    · rw [if_neg hwv]; exact h.inverts w
  · intro w n
    show (setKV s.indexof v s.index).lookup w = some n → n < s.index + 1
    rw [lookup_setKV]
    by_cases hwv : w = v
    · rw [if_pos hwv]; intro hn; cases hn; exact Nat.lt_succ_self _
    · rw [if_neg hwv]; intro hn; exact Nat.lt_succ_of_lt (h.bound w n hn)


/-! ### specification of `visit` and the loop invariant of its successor loop -/

structure VisitPost (g : Graph) (s : St) (v : Nat) (s' : St) : Prop where
  inv : Inv g s'
  frame_idx : ∀ u, s.indexof.lookup u ≠ none → s'.indexof.lookup u = s.indexof.lookup u
  frame_low : ∀ u, s.indexof.lookup u ≠ none → s'.lowlink.lookup u = s.lowlink.lookup u
  index_le : s.index ≤ s'.index
  idx_v : s'.indexof.lookup v ≠ none
  seg : ∃ seg, s'.stack = seg ++ s.stack ∧
     (∀ y ∈ seg, Reach g v y) ∧ (∀ y ∈ seg, ∃ z ∈ s.stack, Reach g y z) ∧
     (∀ y ∈ seg, s.index ≤ getKV s'.indexof y) ∧
     (∀ y ∈ seg, ∀ z ∈ succs g y, s'.indexof.lookup z ≠ none) ∧
     (∀ y ∈ seg, ∀ z ∈ succs g y, z ∈ s.stack → getKV s'.lowlink v ≤ getKV s.indexof z)
  low : s.index ≤ getKV s'.lowlink v ∨
     ∃ z ∈ s.stack, getKV s.indexof z = getKV s'.lowlink v ∧ Reach g v z

structure LoopInv (g : Graph) (s0 : St) (v : Nat) (D : Nat → Prop) (t : St) : Prop where
  inv : Inv g t
  idx_v : t.indexof.lookup v = some s0.index
  frame_idx : ∀ u, s0.indexof.lookup u ≠ none → t.indexof.lookup u = s0.indexof.lookup u
  frame_low : ∀ u, s0.indexof.lookup u ≠ none → t.lowlink.lookup u = s0.lowlink.lookup u
  index_le : s0.index + 1 ≤ t.index
  seg : ∃ seg, t.stack = seg ++ v :: s0.stack ∧
     (∀ y ∈ seg, Reach g v y) ∧
     (∀ y ∈ seg, s0.index + 1 ≤ getKV t.indexof y) ∧
     (∀ y ∈ seg, ∀ z ∈ succs g y, t.indexof.lookup z ≠ none) ∧
     (∀ y ∈ seg, ∀ z ∈ succs g y, z ∈ v :: s0.stack → getKV t.lowlink v ≤ getKV t.indexof z)
  reachv : ∀ y ∈ t.stack, Reach g y v
  done_idx : ∀ z, D z → t.indexof.lookup z ≠ none
  done_low : ∀ z, D z → z ∈ v :: s0.stack → getKV t.lowlink v ≤ getKV t.indexof z
  low_le : getKV t.lowlink v ≤ s0.index
  low_wit : ∃ z ∈ t.stack, getKV t.indexof z = getKV t.lowlink v ∧ Reach g v z

theorem LoopInv.mono {g : Graph} {s0 : St} {v : Nat} {D D' : Nat → Prop} {t : St}
    (L : LoopInv g s0 v D t) (h : ∀ z, D' z → D z) : LoopInv g s0 v D' t :=
  { L with done_idx := fun z hz => L.done_idx z (h z hz), done_low := fun z hz => L.done_low z (h z hz) }

theorem loop_init (g : Graph) (s : St) (v : Nat) (h : Inv g s) (hv : s.indexof.lookup v = none)
    (hvg : v ∈ verts g) (hpre : ∀ y ∈ s.stack, Reach g y v) :
    LoopInv g s v (fun _ => False) (push s v) := by
  have hne : ∀ u, s.indexof.lookup u ≠ none → u ≠ v := by
    intro u hu huv; subst huv; exact hu hv
  refine ⟨inv_push g s v h hv hvg, ?_, ?_, ?_, le_refl _, ⟨[], rfl, ?_, ?_, ?_, ?_⟩, ?_, ?_, ?_, ?_, ?_⟩
  · show (setKV s.indexof v s.index).lookup v = _
    rw [lookup_setKV]; simp
  · intro u hu
    show (setKV s.indexof v s.index).lookup u = _
    rw [lookup_setKV, if_neg (hne u hu)]
  · intro u hu
    show (setKV s.lowlink v s.index).lookup u = _
    rw [lookup_setKV, if_neg (hne u hu)]
  · intro y hy; simp at hy
  · intro y hy; simp at hy
  · intro y hy; simp at hy
  · intro y hy; simp at hy
  · intro y hy
    rcases List.mem_cons.mp hy with rfl | hy
    · exact Reach.refl _
    · exact hpre y hy
  · intro z hz; exact hz.elim
  · intro z hz; exact hz.elim
  · show getKV (setKV s.lowlink v s.index) v ≤ s.index
    rw [getKV_setKV]; simp
  · refine ⟨v, List.mem_cons_self, ?_, Reach.refl _⟩
    show getKV (setKV s.indexof v s.index) v = getKV (setKV s.lowlink v s.index) v
    rw [getKV_setKV, getKV_setKV]; simp


theorem finish_spec (g : Graph) (s0 : St) (v : Nat) (t : St) (h0 : Inv g s0)
    (hv : s0.indexof.lookup v = none)
    (L : LoopInv g s0 v (fun z => z ∈ succs g v) t) : VisitPost g s0 v (finish v t) := by
  obtain ⟨seg, hst, hr, hnum, hcl, hedge⟩ := L.seg
  have hnv : getKV t.indexof v = s0.index := getKV_of_lookup L.idx_v
  have hidx0 : ∀ z ∈ s0.stack, s0.indexof.lookup z ≠ none := fun z hz => h0.idx_of_stack hz
  have hnum0 : ∀ z ∈ s0.stack, getKV t.indexof z = getKV s0.indexof z :=
    fun z hz => getKV_congr (L.frame_idx z (hidx0 z hz))
  have hlt0 : ∀ z ∈ s0.stack, getKV t.indexof z < s0.index := by
    intro z hz; rw [hnum0 z hz]; exact h0.num_lt (hidx0 z hz)
  have hidxv : t.indexof.lookup v ≠ none := by rw [L.idx_v]; simp
  have hI := L.inv
  have hnd : (seg ++ v :: s0.stack).Nodup := hst ▸ hI.nd_stack
  have hvseg : v ∉ seg := by
    intro hm
    have := (List.nodup_append.mp hnd).2.2 v hm v List.mem_cons_self
    exact this rfl
  by_cases hlow : getKV t.lowlink v = getKV t.indexof v
  · -- v is a root: pop its component
    have hfin : finish v t = { t with stack := s0.stack, comps := t.comps ++ [seg ++ [v]] } := by
      unfold finish
      rw [hst, popUntil_spec v seg s0.stack [] hvseg]
      simp [hlow]
    rw [hfin]
    have hsegst : ∀ y ∈ seg ++ [v], y ∈ t.stack := by
      intro y hy; rw [hst]
      rcases List.mem_append.mp hy with h | h
      · exact List.mem_append_left _ h
      · simp at h; subst h; simp
    have hclosed : ∀ y ∈ seg ++ [v], ∀ z ∈ succs g y, t.indexof.lookup z ≠ none := by
      intro y hy z hz
      rcases List.mem_append.mp hy with h | h
      · exact hcl y h z hz
      · simp at h; subst h; exact L.done_idx z hz
    have hedge' : ∀ y ∈ seg ++ [v], ∀ z ∈ succs g y, z ∉ s0.stack := by
      intro y hy z hz hzs
      have h1 : getKV t.lowlink v ≤ getKV t.indexof z := by
        rcases List.mem_append.mp hy with h | h
        · exact hedge y h z hz (List.mem_cons_of_mem _ hzs)
        · simp at h; subst h; exact L.done_low z hz (List.mem_cons_of_mem _ hzs)
      have := hlt0 z hzs
      omega
    refine ⟨?_, L.frame_idx, L.frame_low, ?_, hidxv, ⟨[], by simp, ?_, ?_, ?_, ?_, ?_⟩, ?_⟩
    · -- the invariant
      refine ⟨?_, ?_, ?_, ?_, hI.inverts, hI.bound, ?_, ?_⟩
      · intro w
        show t.indexof.lookup w ≠ none ↔ (w ∈ s0.stack ∨ w ∈ (t.comps ++ [seg ++ [v]]).flatten)
        rw [hI.idx_iff w, hst]
        simp only [List.flatten_append, List.flatten_cons, List.flatten_nil, List.append_nil,
          List.mem_append, List.mem_cons, List.mem_singleton, List.not_mem_nil, or_false]
        tauto
      · exact (List.nodup_cons.mp (List.nodup_append.mp hnd).2.1).2
      · show (t.comps ++ [seg ++ [v]]).flatten.Nodup
        simp only [List.flatten_append, List.flatten_cons, List.flatten_nil, List.append_nil]
        rw [List.nodup_append]
        refine ⟨hI.nd_comps, ?_, ?_⟩
        · have : (seg ++ [v] ++ s0.stack).Nodup := by simpa using hnd
          exact (List.nodup_append.mp this).1
        · intro a ha b hb hab
          subst hab
          exact hI.disj a (hsegst a hb) ha
      · intro w hw
        show w ∉ (t.comps ++ [seg ++ [v]]).flatten
        simp only [List.flatten_append, List.flatten_cons, List.flatten_nil, List.append_nil,
          List.mem_append, not_or]
        refine ⟨hI.disj w (by rw [hst]; simp [hw]), ?_⟩
        have hw' : w ∈ s0.stack := hw
        have : (seg ++ [v] ++ s0.stack).Nodup := by simpa using hnd
        have h3 := (List.nodup_append.mp this).2.2
        have : w ∉ seg ++ [v] := fun hws => h3 w hws w hw' rfl
        simpa using this
      · intro c hc
        rcases List.mem_append.mp hc with hc | hc
        · exact hI.strong c hc
        · simp at hc; subst hc
          intro a ha b hb
          have h1 : Reach g a v := L.reachv a (hsegst a ha)
          have h2 : Reach g v b := by
            rcases List.mem_append.mp hb with h | h
            · exact hr b h
            · simp at h; subst h; exact Reach.refl _
          exact h1.trans h2
      · intro i hi y hy z hz
        show ∃ j, ∃ hj : j < (t.comps ++ [seg ++ [v]]).length, j ≤ i ∧ z ∈ (t.comps ++ [seg ++ [v]])[j]
        have hi' : i < t.comps.length + 1 := by simpa using hi
        by_cases hlt : i < t.comps.length
        · have hy' : y ∈ t.comps[i] := by
            have : (t.comps ++ [seg ++ [v]])[i] = t.comps[i] := List.getElem_append_left hlt
            rw [← this]; exact hy
          obtain ⟨j, hj, hji, hzj⟩ := hI.order i hlt y hy' z hz
          refine ⟨j, by simp; omega, hji, ?_⟩
          rw [List.getElem_append_left hj]; exact hzj
        · have hieq : i = t.comps.length := by omega
          subst hieq
          have hy' : y ∈ seg ++ [v] := by
            have : (t.comps ++ [seg ++ [v]])[t.comps.length] = seg ++ [v] := by simp
            rw [← this]; exact hy
          have hzi := hclosed y hy' z hz
          rcases (hI.idx_iff z).mp hzi with hzs | hzc
          · rw [hst] at hzs
            have hzseg : z ∈ seg ++ [v] := by
              rcases List.mem_append.mp hzs with h | h
              · exact List.mem_append_left _ h
              · rcases List.mem_cons.mp h with h | h
                · simp [h]
                · exact absurd h (hedge' y hy' z hz)
            refine ⟨t.comps.length, by simp, le_refl _, ?_⟩
            simpa using hzseg
          · obtain ⟨c, hc, hzc⟩ := List.mem_flatten.mp hzc
            obtain ⟨j, hj, rfl⟩ := List.getElem_of_mem hc
            refine ⟨j, by simp; omega, by omega, ?_⟩
            rw [List.getElem_append_left hj]; exact hzc
    · exact le_trans (Nat.le_succ _) L.index_le
    · intro y hy; simp at hy
    · intro y hy; simp at hy
    · intro y hy; simp at hy
    · intro y hy; simp at hy
    · intro y hy; simp at hy
    · left
      show s0.index ≤ getKV t.lowlink v
      omega
  · -- v is not a root
    have hfin : finish v t = t := by
      unfold finish; simp [hlow]
    rw [hfin]
    have hlowlt : getKV t.lowlink v < s0.index := by
      have := L.low_le; omega
    obtain ⟨z0, hz0s, hz0n, hz0r⟩ := L.low_wit
    have hz0 : z0 ∈ s0.stack := by
      rw [hst] at hz0s
      rcases List.mem_append.mp hz0s with h | h
      · have := hnum z0 h; omega
      · rcases List.mem_cons.mp h with h | h
        · subst h; omega
        · exact h
    refine ⟨hI, L.frame_idx, L.frame_low, le_trans (Nat.le_succ _) L.index_le, hidxv,
      ⟨seg ++ [v], by rw [hst]; simp, ?_, ?_, ?_, ?_, ?_⟩, ?_⟩
    · intro y hy
      rcases List.mem_append.mp hy with h | h
      · exact hr y h
      · simp at h; subst h; exact Reach.refl _
    · intro y hy
      refine ⟨z0, hz0, Reach.trans (L.reachv y ?_) hz0r⟩
      rw [hst]
      rcases List.mem_append.mp hy with h | h
      · exact List.mem_append_left _ h
      · simp at h; subst h; simp
    · intro y hy
      rcases List.mem_append.mp hy with h | h
      · have := hnum y h; omega
      · simp at h; subst h; omega
    · intro y hy z hz
      rcases List.mem_append.mp hy with h | h
      · exact hcl y h z hz
      · simp at h; subst h; exact L.done_idx z hz
    · intro y hy z hz hzs
      rw [← hnum0 z hzs]
      rcases List.mem_append.mp hy with h | h
      · exact hedge y h z hz (List.mem_cons_of_mem _ hzs)
      · simp at h; subst h; exact L.done_low z hz (List.mem_cons_of_mem _ hzs)
    · right
      exact ⟨z0, hz0, by rw [← hnum0 z0 hz0]; exact hz0n, hz0r⟩


def setLow (s : St) (v x : Nat) : St := { s with lowlink := setKV s.lowlink v x }

/-- the specification of `visit` at a given fuel, used as induction hypothesis -/
def VisitSpec (g : Graph) (fuel : Nat) : Prop :=
  ∀ s v, Inv g s → s.indexof.lookup v = none → v ∈ verts g → (∀ y ∈ s.stack, Reach g y v) →
    unidx g s.indexof < fuel → VisitPost g s v (visit g fuel s v)

theorem step_spec (g : Graph) (hclosed : ∀ v w, w ∈ succs g v → w ∈ verts g) (fuel : Nat)
    (IH : VisitSpec g fuel) (s0 : St) (v : Nat) (D : Nat → Prop) (t : St) (w : Nat)
    (hv : s0.indexof.lookup v = none) (hfuel : unidx g (push s0 v).indexof < fuel)
    (hw : w ∈ succs g v) (L : LoopInv g s0 v D t) :
    LoopInv g s0 v (fun z => D z ∨ z = w) (stepF g fuel v t w) := by
  obtain ⟨seg, hst, hr, hnum, hcl, hedge⟩ := L.seg
  have hI := L.inv
  have hne : ∀ u, s0.indexof.lookup u ≠ none → u ≠ v := by
    intro u hu huv; subst huv; exact hu hv
  have hidxv : t.indexof.lookup v ≠ none := by rw [L.idx_v]; simp
  have hnv : getKV t.indexof v = s0.index := getKV_of_lookup L.idx_v
  have hvst : v ∈ t.stack := by rw [hst]; simp
  have hsub : ∀ z ∈ v :: s0.stack, z ∈ t.stack := by
    intro z hz; rw [hst]; exact List.mem_append_right _ hz
  by_cases hw0 : t.indexof.lookup w = none
  · -- recursive call
    have hfuel' : unidx g t.indexof < fuel := by
      refine lt_of_le_of_lt (unidx_le g _ _ ?_) hfuel
      intro u
      show (setKV s0.indexof v s0.index).lookup u ≠ none → _
      rw [lookup_setKV]
      by_cases huv : u = v
      · subst huv; intro _; exact hidxv
      · rw [if_neg huv]; intro hu; rw [L.frame_idx u hu]; exact hu
    have P := IH t w hI hw0 (hclosed v w hw) (fun y hy => Reach.step (L.reachv y hy) hw) hfuel'
    have hstep : stepF g fuel v t w = setLow (visit g fuel t w) v
          (min (getKV (visit g fuel t w).lowlink v) (getKV (visit g fuel t w).lowlink w)) := by
      unfold stepF setLow; simp [hw0]
    rw [hstep]
    generalize visit g fuel t w = t' at P
    obtain ⟨seg', hst', hr', hz', hnum', hcl', hedge'⟩ := P.seg
    have hlowv : getKV t'.lowlink v = getKV t.lowlink v := getKV_congr (P.frame_low v hidxv)
    have hnumeq : ∀ z, t.indexof.lookup z ≠ none → getKV t'.indexof z = getKV t.indexof z :=
      fun z hz => getKV_congr (P.frame_idx z hz)
    have hmono : ∀ z, t.indexof.lookup z ≠ none → t'.indexof.lookup z ≠ none := by
      intro z hz; rw [P.frame_idx z hz]; exact hz
    have hlt : getKV t.lowlink v < t.index := by
      have := L.low_le; have := L.index_le; omega
    refine ⟨P.inv, ?_, ?_, ?_, le_trans L.index_le P.index_le,
      ⟨seg' ++ seg, ?_, ?_, ?_, ?_, ?_⟩, ?_, ?_, ?_, ?_, ?_⟩
    · show t'.indexof.lookup v = _
      rw [P.frame_idx v hidxv]; exact L.idx_v
    · intro u hu
      show t'.indexof.lookup u = _
      have h1 := L.frame_idx u hu
      rw [P.frame_idx u (by rw [h1]; exact hu)]; exact h1
    · intro u hu
      show (setKV t'.lowlink v _).lookup u = _
      have h1 := L.frame_idx u hu
      rw [lookup_setKV, if_neg (hne u hu), P.frame_low u (by rw [h1]; exact hu)]
      exact L.frame_low u hu
    · show t'.stack = _
      rw [hst', hst]; simp
    · intro y hy
      rcases List.mem_append.mp hy with h | h
      · exact Reach.trans (Reach.step (Reach.refl v) hw) (hr' y h)
      · exact hr y h
    · intro y hy
      show _ ≤ getKV t'.indexof y
      rcases List.mem_append.mp hy with h | h
      · have := hnum' y h; have := L.index_le; omega
      · rw [hnumeq y (hI.idx_of_stack (by rw [hst]; exact List.mem_append_left _ h))]
        exact hnum y h
    · intro y hy z hz
      show t'.indexof.lookup z ≠ none
      rcases List.mem_append.mp hy with h | h
      · exact hcl' y h z hz
      · exact hmono z (hcl y h z hz)
    · intro y hy z hz hzs
      show getKV (setKV t'.lowlink v _) v ≤ getKV t'.indexof z
      rw [getKV_setKV, if_pos rfl, hnumeq z (hI.idx_of_stack (hsub z hzs))]
      rcases List.mem_append.mp hy with h | h
      · exact le_trans (Nat.min_le_right _ _) (hedge' y h z hz (hsub z hzs))
      · rw [hlowv]; exact le_trans (Nat.min_le_left _ _) (hedge y h z hz hzs)
    · intro y hy
      have hy' : y ∈ t'.stack := hy
      rw [hst'] at hy'
      rcases List.mem_append.mp hy' with h | h
      · obtain ⟨z, hz, hyz⟩ := hz' y h
        exact hyz.trans (L.reachv z hz)
      · exact L.reachv y h
    · intro z hz
      show t'.indexof.lookup z ≠ none
      rcases hz with hz | rfl
      · exact hmono z (L.done_idx z hz)
      · exact P.idx_v
    · intro z hz hzs
      show getKV (setKV t'.lowlink v _) v ≤ getKV t'.indexof z
      rcases hz with hz | rfl
      · rw [getKV_setKV, if_pos rfl, hnumeq z (hI.idx_of_stack (hsub z hzs)), hlowv]
        exact le_trans (Nat.min_le_left _ _) (L.done_low z hz hzs)
      · exact absurd hw0 (hI.idx_of_stack (hsub z hzs))
    · show getKV (setKV t'.lowlink v _) v ≤ _
      rw [getKV_setKV, if_pos rfl, hlowv]
      exact le_trans (Nat.min_le_left _ _) L.low_le
    · show ∃ z ∈ t'.stack, getKV t'.indexof z = getKV (setKV t'.lowlink v _) v ∧ Reach g v z
      rw [getKV_setKV, if_pos rfl, hlowv]
      obtain ⟨z1, hz1s, hz1n, hz1r⟩ := L.low_wit
      have old : getKV t.lowlink v ≤ getKV t'.lowlink w →
          ∃ z ∈ t'.stack, getKV t'.indexof z = min (getKV t.lowlink v) (getKV t'.lowlink w) ∧ Reach g v z := by
        intro hle
        refine ⟨z1, by rw [hst']; exact List.mem_append_right _ hz1s, ?_, hz1r⟩
        rw [hnumeq z1 (hI.idx_of_stack hz1s), hz1n, Nat.min_eq_left hle]
      rcases P.low with hl | ⟨z2, hz2s, hz2n, hz2r⟩
      · exact old (by omega)
      · by_cases hle : getKV t.lowlink v ≤ getKV t'.lowlink w
        · exact old hle
        · refine ⟨z2, by rw [hst']; exact List.mem_append_right _ hz2s, ?_,
            Reach.trans (Reach.step (Reach.refl v) hw) hz2r⟩
          rw [hnumeq z2 (hI.idx_of_stack hz2s), hz2n, Nat.min_eq_right (by omega)]
  · by_cases hws : w ∈ t.stack
    · -- successor on the stack
      have hstep : stepF g fuel v t w =
          setLow t v (min (getKV t.lowlink v) (getKV t.indexof w)) := by
        unfold stepF setLow; simp [hw0, hws]
      rw [hstep]
      refine ⟨hI, L.idx_v, L.frame_idx, ?_, L.index_le,
        ⟨seg, hst, hr, hnum, hcl, ?_⟩, L.reachv, ?_, ?_, ?_, ?_⟩
      · intro u hu
        show (setKV t.lowlink v _).lookup u = _
        rw [lookup_setKV, if_neg (hne u hu)]
        exact L.frame_low u hu
      · intro y hy z hz hzs
        show getKV (setKV t.lowlink v _) v ≤ getKV t.indexof z
        rw [getKV_setKV, if_pos rfl]
        exact le_trans (Nat.min_le_left _ _) (hedge y hy z hz hzs)
      · intro z hz
        show t.indexof.lookup z ≠ none
        rcases hz with hz | rfl
        · exact L.done_idx z hz
        · exact hw0
      · intro z hz hzs
        show getKV (setKV t.lowlink v _) v ≤ getKV t.indexof z
        rw [getKV_setKV, if_pos rfl]
        rcases hz with hz | rfl
        · exact le_trans (Nat.min_le_left _ _) (L.done_low z hz hzs)
        · exact Nat.min_le_right _ _
      · show getKV (setKV t.lowlink v _) v ≤ _
        rw [getKV_setKV, if_pos rfl]
        exact le_trans (Nat.min_le_left _ _) L.low_le
      · show ∃ z ∈ t.stack, getKV t.indexof z = getKV (setKV t.lowlink v _) v ∧ Reach g v z
        rw [getKV_setKV, if_pos rfl]
        by_cases hle : getKV t.lowlink v ≤ getKV t.indexof w
        · obtain ⟨z1, hz1s, hz1n, hz1r⟩ := L.low_wit
          exact ⟨z1, hz1s, by rw [hz1n, Nat.min_eq_left hle], hz1r⟩
        · exact ⟨w, hws, by rw [Nat.min_eq_right (by omega)], Reach.step (Reach.refl v) hw⟩
    · -- successor already in an emitted component
      have hstep : stepF g fuel v t w = t := by
        unfold stepF; simp [hw0, hws]
      rw [hstep]
      refine ⟨hI, L.idx_v, L.frame_idx, L.frame_low, L.index_le,
        ⟨seg, hst, hr, hnum, hcl, hedge⟩, L.reachv, ?_, ?_, L.low_le, L.low_wit⟩
      · intro z hz
        rcases hz with hz | rfl
        · exact L.done_idx z hz
        · exact hw0
      · intro z hz hzs
        rcases hz with hz | rfl
        · exact L.done_low z hz hzs
        · exact absurd (hsub z hzs) hws

theorem loop_spec (g : Graph) (hclosed : ∀ v w, w ∈ succs g v → w ∈ verts g) (fuel : Nat)
    (IH : VisitSpec g fuel) (s0 : St) (v : Nat)
    (hv : s0.indexof.lookup v = none) (hfuel : unidx g (push s0 v).indexof < fuel)
    (rest : List Nat) (hrest : ∀ w ∈ rest, w ∈ succs g v) :
    ∀ (D : Nat → Prop) (t : St), LoopInv g s0 v D t →
      LoopInv g s0 v (fun z => D z ∨ z ∈ rest) (rest.foldl (stepF g fuel v) t) := by
  induction rest with
  | nil => intro D t L; exact L.mono (by intro z hz; simpa using hz)
  | cons w rest ih =>
    intro D t L
    have L1 := step_spec g hclosed fuel IH s0 v D t w hv hfuel (hrest w List.mem_cons_self) L
    have L2 := ih (fun x hx => hrest x (List.mem_cons_of_mem _ hx)) _ _ L1
    simp only [List.foldl_cons]
    refine L2.mono ?_
    intro z hz
    rcases hz with hz | hz
    · exact Or.inl (Or.inl hz)
    · rcases List.mem_cons.mp hz with hz | hz
      · exact Or.inl (Or.inr hz)
      · exact Or.inr hz

theorem visit_spec (g : Graph) (hclosed : ∀ v w, w ∈ succs g v → w ∈ verts g) :
    ∀ fuel, VisitSpec g fuel := by
  intro fuel
  induction fuel with
  | zero => intro s v _ _ _ _ hf; exact absurd hf (Nat.not_lt_zero _)
  | succ fuel ih =>
    intro s v hI hv hvg hpre hf
    rw [visit_succ]
    have hf' : unidx g (push s v).indexof < fuel := by
      have : unidx g (push s v).indexof < unidx g s.indexof := by
        refine unidx_lt g _ _ ?_ v hvg hv ?_
        · intro u hu
          show (setKV s.indexof v s.index).lookup u ≠ none
          rw [lookup_setKV]; split
          · simp
          · exact hu
        · show (setKV s.indexof v s.index).lookup v ≠ none
          rw [lookup_setKV]; simp
      omega
    have L := loop_spec g hclosed fuel ih s v hv hf' (succs g v) (fun w hw => hw) _ _
      (loop_init g s v hI hv hvg hpre)
    exact finish_spec g s v _ hI hv (L.mono (fun z hz => Or.inr hz))


/-! ### the outer loop -/

def topF (g : Graph) (s : St) (p : Nat × List Nat) : St :=
  if (s.indexof.lookup p.1).isNone then visit g (g.length + 1) s p.1 else s

theorem scc_eq (g : Graph) : Impl.scc g = (g.foldl (topF g) {}).comps := rfl

theorem top_spec (g : Graph) (hclosed : ∀ v w, w ∈ succs g v → w ∈ verts g)
    (ps : List (Nat × List Nat)) (hps : ∀ p ∈ ps, p.1 ∈ verts g) :
    ∀ s, Inv g s → s.stack = [] →
      Inv g (ps.foldl (topF g) s) ∧ (ps.foldl (topF g) s).stack = [] ∧
      (∀ u, s.indexof.lookup u ≠ none → (ps.foldl (topF g) s).indexof.lookup u ≠ none) ∧
      ∀ p ∈ ps, (ps.foldl (topF g) s).indexof.lookup p.1 ≠ none := by
  induction ps with
  | nil => intro s hI hs; exact ⟨hI, hs, fun u hu => hu, by simp⟩
  | cons p ps ih =>
    intro s hI hs
    simp only [List.foldl_cons]
    have key : Inv g (topF g s p) ∧ (topF g s p).stack = [] ∧
        (∀ u, s.indexof.lookup u ≠ none → (topF g s p).indexof.lookup u ≠ none) ∧
        (topF g s p).indexof.lookup p.1 ≠ none := by
      by_cases h0 : s.indexof.lookup p.1 = none
      · have hstep : topF g s p = visit g (g.length + 1) s p.1 := by unfold topF; simp [h0]
        rw [hstep]
        have P := visit_spec g hclosed (g.length + 1) s p.1 hI h0 (hps p List.mem_cons_self)
          (by rw [hs]; intro y hy; simp at hy)
          (Nat.lt_succ_of_le (unidx_le_length g _))
        obtain ⟨seg, hst, _, hz, _⟩ := P.seg
        refine ⟨P.inv, ?_, ?_, P.idx_v⟩
        · cases seg with
          | nil => rw [hst, hs]; rfl
          | cons y seg =>
            obtain ⟨z, hz, _⟩ := hz y List.mem_cons_self
            rw [hs] at hz; simp at hz
        · intro u hu; rw [P.frame_idx u hu]; exact hu
      · have hstep : topF g s p = s := by unfold topF; simp [h0]
        rw [hstep]
        exact ⟨hI, hs, fun u hu => hu, h0⟩
    obtain ⟨k1, k2, k3, k4⟩ := key
    obtain ⟨i1, i2, i3, i4⟩ := ih (fun q hq => hps q (List.mem_cons_of_mem _ hq)) _ k1 k2
    refine ⟨i1, i2, fun u hu => i3 u (k3 u hu), ?_⟩
    intro q hq
    rcases List.mem_cons.mp hq with rfl | hq
    · exact i3 _ k4
    · exact i4 q hq

theorem final_inv (g : Graph) (hclosed : ∀ v w, w ∈ succs g v → w ∈ verts g) :
    ∃ s, Impl.scc g = s.comps ∧ Inv g s ∧ s.stack = [] ∧ ∀ v ∈ verts g, s.indexof.lookup v ≠ none := by
  refine ⟨g.foldl (topF g) {}, scc_eq g, ?_⟩
  obtain ⟨h1, h2, _, h4⟩ := top_spec g hclosed g
    (fun p hp => List.mem_map.mpr ⟨p, hp, rfl⟩) {} (inv_empty g) rfl
  refine ⟨h1, h2, ?_⟩
  intro v hv
  obtain ⟨p, hp, rfl⟩ := List.mem_map.mp hv
  exact h4 p hp

theorem flatten_nodup_disjoint (cs : List (List Nat)) (h : cs.flatten.Nodup)
    (i j : Nat) (hi : i < cs.length) (hj : j < cs.length) (v : Nat)
    (hvi : v ∈ cs[i]) (hvj : v ∈ cs[j]) : i = j := by
  by_contra hne
  have hp := (List.nodup_flatten.mp h).2
  rw [List.pairwise_iff_getElem] at hp
  rcases Nat.lt_or_gt_of_ne hne with hlt | hlt
  · exact hp i j hi hj hlt hvi hvj
  · exact hp j i hj hi hlt hvj hvi

end C19.Tarjan
