/-
C05 (global part) — factorization loses and duplicates nothing.

`C05.lean` proves the local consequences of `factorizationOf orig avoid out = true`.  Here the second
check the harness runs on every output of `factorize_rule` is used as well: the tree of bags read off
the output (`tdOf`) is a valid tree decomposition of the primal graph of `orig` (`TD.validTD`).
Together they give the global statements:

* `edges_partition` — every original edge lives in EXACTLY ONE rule of the output (and once there);
  `edges_perm` — the old edges of all output rules together are a permutation of `orig.edges`;
* `nodes_covered` — every node of `orig` occurs in some rule;
* `node_rules_connected` / `node_rules_subtree` — the rules containing a node form a connected subtree
  of the parent/child tree of the output, with a unique top-most rule.

Proof: `C05bLemmas.lean`.  With the parent links `parent` the output is a rooted tree decomposition
(`rootedTD`); in such a tree every pairwise covered set of vertices (a clique of the primal graph: the
nodes of an edge) lies inside one bag (Helly property, `RootedTD.clique_covered`), and the bags
containing it have a unique top-most element (`RootedTD.topmost_unique`); `factorizationOf` puts the
edge into exactly the top-most bags.

The only well-formedness needed of `orig` is that the attachment nodes of the edge in question are nodes
of the rule; that no original label is "new" is a consequence, not a hypothesis
(`orig_labels_not_new`).  Without it the statement is false: `edge_lost_counterexample`.
-/
import FggsModel.Factorize
import FggsProofs.Props.C10
import FggsProofs.C05bLemmas
import Mathlib.Tactic.Linarith
import Mathlib.Data.List.Basic
import Mathlib.Data.List.Nodup
import Mathlib.Data.List.Count
import Mathlib.Data.List.Perm.Basic

set_option linter.unusedSimpArgs false
set_option linter.unusedVariables false

namespace C05b
open Fggs Fggs.Cj Fggs.Fz Fggs.TD

/-- the parent of an output rule in the tree of rules: `parent = par` is the head of `parentsOf`, which
is what `factorizationOf` calls `parentBag` -/
abbrev parent (avoid : List String) (out : List Rule) (r : Rule) : Option Rule := par avoid out r

/-- what `parent` means: the root (the rule with the original lhs) has none; the parent of any other
rule `r` is the unique rule of the output that carries a new nonterminal edge labelled `r.lhs` -/
theorem parent_spec (orig : Rule) (avoid : List String) (out : List Rule)
    (h : factorizationOf orig avoid out = true) :
    ∀ r ∈ out,
      (r.lhs = orig.lhs → parent avoid out r = none) ∧
      (r.lhs ≠ orig.lhs → ∃ p ∈ out, parent avoid out r = some p ∧
          (∃ e ∈ newEdges avoid p, e.label = r.lhs) ∧
          ∀ q ∈ out, (∃ e ∈ newEdges avoid q, e.label = r.lhs) → q = p) := by
  obtain ⟨root, F⟩ := unpack orig avoid out h
  intro r hr
  refine ⟨?_, ?_⟩
  · intro hl
    rw [F.root_only r hr hl]; exact F.par_root
  · intro hl
    obtain ⟨p, hp⟩ := F.parent r hr hl
    have hpm : p ∈ parentsOf avoid out r.lhs := by rw [hp]; simp
    obtain ⟨hpout, hany⟩ := List.mem_filter.mp hpm
    refine ⟨p, hpout, F.par_of_mem_parentsOf hr hpm, ?_, ?_⟩
    · obtain ⟨e, he, hel⟩ := List.any_eq_true.mp hany
      exact ⟨e, he, by simpa using hel⟩
    · rintro q hq ⟨e, he, hel⟩
      have h1 := F.par_of_newEdge hq he hr hel.symm
      have h2 := F.par_of_mem_parentsOf hr hpm
      rw [h1] at h2
      exact Option.some.inj h2

/-- where an original edge goes: into the rule of bag `B` iff `B ⊇ e.nodes` and not `parent bag ⊇ e.nodes` -/
theorem old_edge_iff (orig : Rule) (avoid : List String) (out : List Rule)
    (h : factorizationOf orig avoid out = true) :
    ∀ r ∈ out, ∀ e ∈ orig.edges,
      (e ∈ oldEdges avoid r ↔
        (∀ v ∈ e.nodes, v ∈ r.nodes) ∧
        ∀ p, parent avoid out r = some p → ¬ ∀ v ∈ e.nodes, v ∈ p.nodes) := by
  obtain ⟨root, F⟩ := unpack orig avoid out h
  intro r hr e he
  rw [← keepsB_iff]
  exact ⟨fun hm => (F.old_sub r hr e hm).2, F.old_sup r hr e he⟩

/-- **every node of the original rule occurs in some rule of the factorization** -/
theorem nodes_covered (orig : Rule) (avoid : List String) (out : List Rule)
    (h : factorizationOf orig avoid out = true)
    (hv : validTD (primal orig) (tdOf orig avoid out) = true) :
    ∀ v ∈ orig.nodes, ∃ r ∈ out, v ∈ r.nodes := by
  obtain ⟨root, F⟩ := unpack orig avoid out h
  intro v hvn
  exact cover_node F (TDOK.of_validTD hv) hvn

/-- **running intersection on rules**: any two rules containing a node are joined by a path of
parent/child steps through rules that all contain the node -/
theorem node_rules_connected (orig : Rule) (avoid : List String) (out : List Rule)
    (h : factorizationOf orig avoid out = true)
    (hv : validTD (primal orig) (tdOf orig avoid out) = true) :
    ∀ (v : Node), ∀ a ∈ out, ∀ b ∈ out, v ∈ a.nodes → v ∈ b.nodes →
      Conn (parent avoid out) (fun r => r ∈ out ∧ v ∈ r.nodes) a b := by
  obtain ⟨root, F⟩ := unpack orig avoid out h
  intro v a ha b hb hav hbv
  exact (rootedTD F (TDOK.of_validTD hv)).running v a b ha hb hav hbv

/-- the same in rooted form: the rules containing a node of `orig` are a subtree — there is a top-most
one (its parent, if any, does not contain the node), it is unique, and every rule containing the node
lies below it with the whole chain of ancestors in between containing the node -/
theorem node_rules_subtree (orig : Rule) (avoid : List String) (out : List Rule)
    (h : factorizationOf orig avoid out = true)
    (hv : validTD (primal orig) (tdOf orig avoid out) = true) :
    ∀ v ∈ orig.nodes, ∃! t, t ∈ out ∧ v ∈ t.nodes ∧ (∀ p, parent avoid out t = some p → v ∉ p.nodes) ∧
      ∀ r ∈ out, v ∈ r.nodes → AncIn (parent avoid out) (fun r => r ∈ out ∧ v ∈ r.nodes) t r := by
  obtain ⟨root, F⟩ := unpack orig avoid out h
  have D := TDOK.of_validTD hv
  have T := rootedTD F D
  intro v hvn
  obtain ⟨r0, hr0, hr0v⟩ := cover_node F D hvn
  obtain ⟨t, ht, htop⟩ := T.top_of (v := v) hr0 hr0v
  refine ⟨t, ⟨ht.left.1, ht.left.2, htop, fun r hr hrv => T.below_top ht.left.1 ht.left.2 htop hr hrv⟩, ?_⟩
  rintro t' ⟨ht', ht'v, htop', hall'⟩
  have h1 : Anc (par avoid out) t t' := (T.below_top ht.left.1 ht.left.2 htop ht' ht'v).toAnc
  have h2 : Anc (par avoid out) t' t := (hall' t ht.left.1 ht.left.2).toAnc
  exact (Anc.antisymm T.root_par (T.reach t ht.left.1) h1 h2).symm

/-- **no edge is lost, none is duplicated**: every original edge (whose attachment nodes are nodes of
the rule) lies in exactly one rule of the factorization -/
theorem edges_partition (orig : Rule) (avoid : List String) (out : List Rule)
    (h : factorizationOf orig avoid out = true)
    (hv : validTD (primal orig) (tdOf orig avoid out) = true) :
    ∀ e ∈ orig.edges, (∀ v ∈ e.nodes, v ∈ orig.nodes) →
      ∃! r, r ∈ out ∧ e ∈ oldEdges avoid r := by
  obtain ⟨root, F⟩ := unpack orig avoid out h
  have D := TDOK.of_validTD hv
  have T := rootedTD F D
  intro e he hwf
  obtain ⟨r, hr, hall, htop⟩ := T.exists_topmost e.nodes (cover_pair F D he hwf)
  refine ⟨r, ⟨hr, F.old_sup r hr e he ((keepsB_iff avoid out r e).2 ⟨hall, htop⟩)⟩, ?_⟩
  rintro r' ⟨hr', hm⟩
  obtain ⟨hall', htop'⟩ := (keepsB_iff avoid out r' e).1 (F.old_sub r' hr' e hm).2
  exact T.topmost_unique e.nodes hr' hall' htop' hr hall htop

/-- … and it occurs exactly once in that rule and not at all in the others -/
theorem edges_partition_count (orig : Rule) (avoid : List String) (out : List Rule)
    (h : factorizationOf orig avoid out = true)
    (hv : validTD (primal orig) (tdOf orig avoid out) = true) :
    ∀ e ∈ orig.edges, (∀ v ∈ e.nodes, v ∈ orig.nodes) →
      ∃ r ∈ out, (oldEdges avoid r).count e = 1 ∧
        ∀ r' ∈ out, r' ≠ r → (oldEdges avoid r').count e = 0 := by
  obtain ⟨root, F⟩ := unpack orig avoid out h
  intro e he hwf
  obtain ⟨r, ⟨hr, hm⟩, huniq⟩ := edges_partition orig avoid out h hv e he hwf
  refine ⟨r, hr, List.count_eq_one_of_mem (F.old_nodup r hr) hm, ?_⟩
  intro r' hr' hne
  rw [List.count_eq_zero]
  intro hm'
  exact hne (huniq r' ⟨hr', hm'⟩)

/-- a consequence (not a hypothesis): no label of an original edge is taken for a new nonterminal -/
theorem orig_labels_not_new (orig : Rule) (avoid : List String) (out : List Rule)
    (h : factorizationOf orig avoid out = true)
    (hv : validTD (primal orig) (tdOf orig avoid out) = true) :
    ∀ e ∈ orig.edges, (∀ v ∈ e.nodes, v ∈ orig.nodes) → isNew avoid e.label = false := by
  intro e he hwf
  obtain ⟨r, ⟨hr, hm⟩, _⟩ := edges_partition orig avoid out h hv e he hwf
  have := (List.mem_filter.mp hm).2
  simpa using this

private theorem sum_map_single {α : Type} (g : α → Nat) (r0 : α) :
    ∀ (l : List α), l.Nodup → r0 ∈ l → (∀ r ∈ l, r ≠ r0 → g r = 0) → (l.map g).sum = g r0
  | [], _, hm, _ => by cases hm
  | x :: xs, hnd, hm, hz => by
    rw [List.nodup_cons] at hnd
    rw [List.map_cons, List.sum_cons]
    by_cases hx : x = r0
    · subst hx
      have : (xs.map g).sum = 0 := by
        rw [List.sum_eq_zero_iff_forall_eq_nat]
        intro n hn
        obtain ⟨y, hy, hyn⟩ := List.mem_map.1 hn
        rw [← hyn]
        exact hz y (List.mem_cons_of_mem _ hy) (fun h => hnd.1 (h ▸ hy))
      omega
    · have hm' : r0 ∈ xs := by
        rcases List.mem_cons.1 hm with h | h
        · exact absurd h.symm hx
        · exact h
      rw [hz x (by simp) hx, sum_map_single g r0 xs hnd.2 hm'
        (fun r hr => hz r (List.mem_cons_of_mem _ hr))]
      omega

/-- **the original edges are exactly redistributed**: if `orig` is well-formed (edges attached to its
nodes, no edge listed twice), the old edges of all rules of the factorization, taken together, are a
permutation of `orig.edges` -/
theorem edges_perm (orig : Rule) (avoid : List String) (out : List Rule)
    (h : factorizationOf orig avoid out = true)
    (hv : validTD (primal orig) (tdOf orig avoid out) = true)
    (hwf : ∀ e ∈ orig.edges, ∀ v ∈ e.nodes, v ∈ orig.nodes) (hnd : orig.edges.Nodup) :
    (out.flatMap (oldEdges avoid)).Perm orig.edges := by
  obtain ⟨root, F⟩ := unpack orig avoid out h
  have hout : out.Nodup := List.Nodup.of_map _ F.names_nodup
  rw [List.perm_iff_count]
  intro e
  by_cases he : e ∈ orig.edges
  · obtain ⟨r, hr, h1, h0⟩ := edges_partition_count orig avoid out h hv e he (hwf e he)
    rw [List.count_flatMap, List.count_eq_one_of_mem hnd he]
    have := sum_map_single (fun r => (oldEdges avoid r).count e) r out hout hr h0
    simpa [Function.comp_def, h1] using this
  · rw [List.count_eq_zero.2 he, List.count_eq_zero]
    intro hm
    obtain ⟨r, hr, hmr⟩ := List.mem_flatMap.1 hm
    exact he (F.old_sub r hr e hmr).1

/-! ### the well-formedness hypothesis is needed -/

private def nA : Node := ⟨"n", .int 0⟩
private def nB : Node := ⟨"n", .int 1⟩
private def nC : Node := ⟨"n", .int 2⟩
private def nD : Node := ⟨"n", .int 3⟩
private def lS : Label := ⟨"S", [], false⟩
private def lT : Label := ⟨"t", ["n", "n"], true⟩
private def lU : Label := ⟨"u", ["n"], true⟩
private def lX : Label := ⟨"X", ["n"], false⟩
private def lY : Label := ⟨"Y", ["n"], false⟩

private theorem sortBag_eq (l s : List Nat) (hp : s.Perm l) (hs : s.Pairwise (fun a b => decide (a ≤ b) = true)) :
    sortBag l = s := by
  unfold sortBag
  refine List.Perm.eq_of_pairwise (le := fun a b => decide (a ≤ b) = true) ?_ ?_ hs
    ((List.mergeSort_perm l _).trans hp.symm)
  · intro a b _ _ h1 h2
    simp only [decide_eq_true_eq] at h1 h2
    omega
  · exact List.pairwise_mergeSort (le := fun a b => decide (a ≤ b))
      (by intro a b c h1 h2; simp only [decide_eq_true_eq] at *; omega)
      (by intro a b; simp only [Bool.or_eq_true, decide_eq_true_eq]; omega) l

/-- an ill-formed rule: its only edge is attached to a node that is not a node of the rule -/
private def origBad : Rule := ⟨lS, [nA], [⟨lU, [nB], .int 0⟩], []⟩
private def outBad : List Rule := [⟨lS, [nA], [], []⟩]

/-- **finding (hypothesis `∀ v ∈ e.nodes, v ∈ orig.nodes` cannot be dropped)**: for a rule with an edge
attached to a node outside `orig.nodes`, both checks accept an output in which that edge is lost -/
theorem edge_lost_counterexample :
    factorizationOf origBad ["S", "u"] outBad = true ∧
    validTD (primal origBad) (tdOf origBad ["S", "u"] outBad) = true ∧
    ∃ e ∈ origBad.edges, ∀ r ∈ outBad, e ∉ oldEdges ["S", "u"] r := by
  have s1 : sortBag [0] = [0] := sortBag_eq _ _ (by decide) (by decide)
  have ht : tdOf origBad ["S", "u"] outBad = [([0], [])] := by
    simp [tdOf, outBad, origBad, newEdges, parentsOf, s1, nA]
  refine ⟨by decide, ?_, by decide⟩
  rw [ht]
  decide

/-- a rule that lists the same edge (same label, nodes and id) twice -/
private def origDup : Rule := ⟨lS, [nA], [⟨lU, [nA], .int 0⟩, ⟨lU, [nA], .int 0⟩], []⟩
private def outDup : List Rule := [⟨lS, [nA], [⟨lU, [nA], .int 0⟩], []⟩]

/-- **finding (hypothesis `orig.edges.Nodup` of `edges_perm` cannot be dropped)**: the relation compares
edges as values, so it accepts an output that keeps one copy of an edge listed twice (edges of the
library carry unique ids, so this input does not arise there) -/
theorem edges_perm_needs_nodup_counterexample :
    factorizationOf origDup ["S", "u"] outDup = true ∧
    validTD (primal origDup) (tdOf origDup ["S", "u"] outDup) = true ∧
    (∀ e ∈ origDup.edges, ∀ v ∈ e.nodes, v ∈ origDup.nodes) ∧
    ¬ (outDup.flatMap (oldEdges ["S", "u"])).Perm origDup.edges := by
  have s1 : sortBag [0] = [0] := sortBag_eq _ _ (by decide) (by decide)
  have ht : tdOf origDup ["S", "u"] outDup = [([0], [])] := by
    simp [tdOf, outDup, origDup, newEdges, parentsOf, s1, nA, isNew, lU]
  refine ⟨by decide, ?_, by decide, by decide⟩
  rw [ht]
  decide

/-! ### non-vacuity -/

/-- a path a - b - c - d with a unary edge at c; external node a -/
private def origOK : Rule :=
  ⟨lS, [nA, nB, nC, nD],
   [⟨lT, [nA, nB], .int 0⟩, ⟨lT, [nB, nC], .int 1⟩, ⟨lU, [nC], .int 2⟩, ⟨lT, [nC, nD], .int 3⟩], [nA]⟩

/-- its factorization along the bags {a,b} - {b,c} - {c,d} -/
private def rOK1 : Rule := ⟨lS, [nA, nB], [⟨lT, [nA, nB], .int 0⟩, ⟨lX, [nB], .int 4⟩], [nA]⟩
private def rOK2 : Rule :=
  ⟨lX, [nB, nC], [⟨lT, [nB, nC], .int 1⟩, ⟨lU, [nC], .int 2⟩, ⟨lY, [nC], .int 5⟩], [nB]⟩
private def rOK3 : Rule := ⟨lY, [nC, nD], [⟨lT, [nC, nD], .int 3⟩], [nC]⟩
private def outOK : List Rule := [rOK1, rOK2, rOK3]

private def avoidOK : List String := ["S", "t", "u"]

private theorem adjOf_eq_map (orig : Rule) (avoid : List String) (out : List Rule) (r : Rule) :
    adjOf orig avoid out r =
      ((newEdges avoid r).filterMap (fun e => ruleOf out e.label) ++ parentsOf avoid out r.lhs).map
        (bagOf orig) := by
  unfold adjOf
  rw [List.map_append, List.map_filterMap]

/-- all hypotheses of `edges_partition`, `edges_perm`, `nodes_covered`, `node_rules_connected` hold for a
rule with 4 nodes and 4 edges factorized into 3 rules -/
example :
    factorizationOf origOK avoidOK outOK = true ∧
    validTD (primal origOK) (tdOf origOK avoidOK outOK) = true ∧
    (∀ e ∈ origOK.edges, ∀ v ∈ e.nodes, v ∈ origOK.nodes) ∧
    origOK.edges.Nodup ∧ origOK.nodes.Nodup ∧ 3 ≤ origOK.nodes.length ∧ 3 ≤ origOK.edges.length ∧
    2 ≤ outOK.length := by
  have s1 : sortBag [0, 1] = [0, 1] := sortBag_eq _ _ (by decide) (by decide)
  have s2 : sortBag [1, 2] = [1, 2] := sortBag_eq _ _ (by decide) (by decide)
  have s3 : sortBag [2, 3] = [2, 3] := sortBag_eq _ _ (by decide) (by decide)
  have b1 : bagOf origOK rOK1 = [0, 1] := by
    unfold bagOf; rw [show rOK1.nodes.map (pos origOK) = [0, 1] by decide]; exact s1
  have b2 : bagOf origOK rOK2 = [1, 2] := by
    unfold bagOf; rw [show rOK2.nodes.map (pos origOK) = [1, 2] by decide]; exact s2
  have b3 : bagOf origOK rOK3 = [2, 3] := by
    unfold bagOf; rw [show rOK3.nodes.map (pos origOK) = [2, 3] by decide]; exact s3
  have a1 : (newEdges avoidOK rOK1).filterMap (fun e => ruleOf outOK e.label) ++
      parentsOf avoidOK outOK rOK1.lhs = [rOK2] := by decide
  have a2 : (newEdges avoidOK rOK2).filterMap (fun e => ruleOf outOK e.label) ++
      parentsOf avoidOK outOK rOK2.lhs = [rOK3, rOK1] := by decide
  have a3 : (newEdges avoidOK rOK3).filterMap (fun e => ruleOf outOK e.label) ++
      parentsOf avoidOK outOK rOK3.lhs = [rOK2] := by decide
  have ht : tdOf origOK avoidOK outOK =
      [([0, 1], [[1, 2]]), ([1, 2], [[2, 3], [0, 1]]), ([2, 3], [[1, 2]])] := by
    rw [tdOf_eq]
    simp only [outOK, List.map_cons, List.map_nil, adjOf_eq_map]
    rw [show [rOK1, rOK2, rOK3] = outOK from rfl, a1, a2, a3]
    simp only [List.map_cons, List.map_nil, b1, b2, b3]
  refine ⟨by decide, ?_, by decide, by decide, by decide, by decide, by decide, by decide⟩
  rw [ht]
  decide

end C05b
