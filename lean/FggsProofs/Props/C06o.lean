/-
C06o — `default_to` and `clone` (models `Jw.defaultTo`, `Jw.cloneT`): both keep the dense tensor; `default_to(d)` returns
a well-formed tensor with default `d` (or the tensor itself when it has that default already) — the step by which
`einsum` and `solve` bring every operand to the semiring zero as default, which the theorems C07b–d and C09d assume of
their operands; `clone` is well formed over fresh axes.
-/
import FggsModel.JsonWeights
import FggsProofs.Props.C14b
import FggsProofs.C14bLemmas
import FggsProofs.C09dRenameLemmas
import FggsProofs.C06oLemmas
import Mathlib.Tactic.Linarith
import Mathlib.Data.List.Basic

set_option linter.unusedSimpArgs false
set_option linter.unusedVariables false

namespace C06o
open Fggs Fggs.Ax Fggs.Un Fggs.Jw

/-- **default_to keeps the dense tensor and sets the default** -/
theorem defaultTo_dense (t : PT) (h : t.wf = true) (d : Ext) (next : Nat) :
    (defaultTo t d next).wf = true ∧ (defaultTo t d next).vshape = t.vshape ∧ (defaultTo t d next).dense = t.dense ∧
    ((defaultTo t d next).default = d ∨ Sh.sameDefault t.default d = true) := by
  rw [C06oL.defaultTo_eq]
  by_cases hd : Sh.sameDefault t.default d = true
  · rw [if_pos hd]
    exact ⟨h, rfl, rfl, Or.inr hd⟩
  · rw [if_neg hd]
    obtain ⟨h1, h2, h3, h4⟩ := C06oL.denseRaw_spec t.vshape t.dense next d (C06dL.length_dense t)
    exact ⟨h1, h2, h3, Or.inl h4⟩

/-- **clone keeps everything but the names of the physical axes** (`next` above every physical axis of the operand) -/
theorem cloneT_dense (t : PT) (h : t.wf = true) (next : Nat) (hn : ∀ p ∈ t.paxes, p.1 < next) :
    (cloneT t next).wf = true ∧ (cloneT t next).vshape = t.vshape ∧ (cloneT t next).dense = t.dense ∧
    (cloneT t next).default = t.default ∧ (cloneT t next).physical = t.physical ∧
    ∀ p ∈ (cloneT t next).paxes, next ≤ p.1 := by
  have hs := (C06dL.wf_iff_struct t).1 h
  have hinj := C06oL.renOf_inj t next
  rw [C06oL.cloneT_eq]
  refine ⟨(C06dL.wf_iff_struct _).2 (C09dL.renamePT_struct _ t hs hinj), C09dL.renamePT_vshape _ t,
    C09dL.renamePT_dense _ t hs hinj, rfl, rfl, ?_⟩
  intro p hp
  obtain ⟨k, hk, rfl⟩ := List.mem_map.1 hp
  exact (C09dL.rf_renOf_mem next (List.mem_map_of_mem hk)).1

/-! ### non-vacuity -/

def exT : PT := { physical := [.fin 5, .fin 7], paxes := [(0, 2)], vaxes := [.phys 0 2, .sum 1 (.phys 0 2) 0], default := .fin 1 }

example : (defaultTo exT (.fin 0) 5).dense = exT.dense ∧ (defaultTo exT (.fin 0) 5).default = .fin 0 := by decide
example : (cloneT exT 5).dense = exT.dense := by decide

end C06o
