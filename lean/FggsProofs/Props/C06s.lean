/-
C06s — the sparsity shortcut `PatternedTensor.commutative` (add, mul, maximum, logaddexp, logical_and / logical_or; model
`Bn.commutative`): for an operation with a two-sided identity that is commutative, combining only the positions that the
operand whose default is the identity BACKS gives exactly the representation of the generic cell-by-cell operation
(`Bn.binary`), hence (C06d.binary_dense) the operation applied cell by cell to the dense tensors.
-/
import FggsModel.Binary
import FggsProofs.Props.C06d
import FggsProofs.C06dBaseLemmas
import FggsProofs.C06dSideLemmas
import FggsProofs.C06dExpLemmas
import FggsProofs.C06sLemmas
import Mathlib.Tactic.Linarith
import Mathlib.Data.List.Basic

set_option linter.unusedSimpArgs false
set_option linter.unusedVariables false

namespace C06s
open Fggs Fggs.Ax Fggs.Un Fggs.Bn
open C06dL C06dE C06sL

/-- the laws of the operation that the shortcut relies on -/
structure IdentityLaws (op : Ext → Ext → Ext) (identity : Ext) : Prop where
  right : ∀ x, op x identity = x
  left : ∀ x, op identity x = x
  comm : ∀ a b, op a b = op b a

/-- **the shortcut computes what the generic operation computes** -/
theorem commutative_eq_binary (fuel : Nat) (op : Ext → Ext → Ext) (identity default : Ext) (hop : IdentityLaws op identity)
    (t u : PT) (next : Nat) (h : C06d.OperandsOK t u next) :
    commutative fuel op identity default t u next = binary fuel op default t u next := by
  have hl := C06d.sideL h fuel
  have hr := C06d.sideR h fuel
  have ll := length_layout hl
  have lr := length_layout hr
  unfold commutative binary
  rw [expansion_eq]
  simp only []
  congr 2
  split
  · split
    · rename_i hu
      have hud : u.default = identity := eqIEEE_eq hu
      apply shortcut_list op identity hop.right _ _ _ _ (ll.trans lr.symm)
      intro k hk hn
      rw [← hud]
      exact layout_off_backs hr (Ext.fin 0) hk hn
    · rfl
  · rename_i hc
    have ht : Ext.eqIEEE t.default identity = true := by
      cases he : Ext.eqIEEE t.default identity with
      | true => rfl
      | false => exact absurd (by simp [he]) hc
    have htd : t.default = identity := eqIEEE_eq ht
    rw [List.zipWith_comm]
    have hcomm : (fun (b a : Ext) => op a b) = op := by
      funext b a; exact hop.comm a b
    rw [hcomm]
    apply shortcut_list op identity hop.right _ _ _ _ (lr.trans ll.symm)
    intro k hk hn
    rw [← htd]
    exact layout_off_backs hl (Ext.fin 0) hk hn

/-- hence it denotes the operation on the dense tensors -/
theorem commutative_dense (fuel : Nat) (op : Ext → Ext → Ext) (identity : Ext) (hop : IdentityLaws op identity)
    (t u : PT) (next : Nat) (h : C06d.OperandsOK t u next) :
    let r := commutative fuel op identity (op t.default u.default) t u next
    r.wf = true ∧ r.vshape = t.vshape ∧ r.dense = List.zipWith op t.dense u.dense := by
  intro r
  show (commutative fuel op identity (op t.default u.default) t u next).wf = true ∧
    (commutative fuel op identity (op t.default u.default) t u next).vshape = t.vshape ∧
    (commutative fuel op identity (op t.default u.default) t u next).dense = List.zipWith op t.dense u.dense
  rw [commutative_eq_binary fuel op identity _ hop t u next h]
  exact C06d.binary_dense fuel op t u next h

/-- the laws hold for the operations the library uses it with (model arithmetic on the extended rationals) -/
theorem add_laws : IdentityLaws Ext.add (Ext.fin 0) := by
  refine ⟨?_, ?_, ?_⟩
  · intro x; cases x <;> simp [Ext.add]
  · intro x; cases x <;> simp [Ext.add]
  · intro a b; cases a <;> cases b <;> simp [Ext.add, add_comm]

theorem mul_laws : IdentityLaws Ext.mul (Ext.fin 1) := by
  refine ⟨?_, ?_, ?_⟩
  · intro x; cases x <;> simp [Ext.mul]
  · intro x; cases x <;> simp [Ext.mul]
  · intro a b; cases a <;> cases b <;> simp [Ext.mul, mul_comm]

theorem maximum_laws : IdentityLaws Ext.maximum Ext.ninf := by
  refine ⟨?_, ?_, ?_⟩
  · intro x; cases x <;> simp [Ext.maximum]
  · intro x; cases x <;> simp [Ext.maximum]
  · intro a b; cases a <;> cases b <;> simp [Ext.maximum, max_comm]

end C06s
