/-
C09b — Semiring linear solvers return the LEAST solution of x = A x + b.

`C09.solveLoop_is_solution` shows that the model `Sv.solveLoop` of `Semiring.solve_thunks` returns a solution.
Here: in an ordered commutative semiring whose `star` obeys the star induction law
`a·y + b ≤ y → star a · b ≤ y`, the result of the loop is below every pre-fixed point of `y ↦ A y + b`
(`solveLoop_least`), hence it is the least solution and the least pre-fixed point (`solveLoop_isLeast`,
`solveLoop_eq_of_least`).  The hypotheses hold for the Boolean semiring, for the Viterbi semiring on
`[-∞, ∞]` and for the Real semiring on `[0, ∞]` with the implemented `star`s (`boolOrdStar`, `vitOrdStar`,
`realOrdStar`); the loop over the carrier computes what the executable loop on `Ext` computes
(`solveLoop_map_hom`, `real_solveLoop_val`, `vit_solveLoop_val`).

The loop invariant.  After the pivots `0..k-1` the state `(a_k, x_k)` satisfies, for every pre-fixed point
`y` of the ORIGINAL system and every row `i`:   `x_k[i] + Σ_{j ≥ k} a_k[i][j] · y[j] ≤ y[i]`.
For `k = 0` this is `A y + b ≤ y`; for `k = n` it is `x_n ≤ y`.  A pivot step preserves it: row `k` reads
`a[k][k]·y[k] + (x[k] + Σ_{j>k} a[k][j]·y[j]) ≤ y[k]`, so star induction gives
`star a[k][k] · (x[k] + Σ_{j>k} a[k][j]·y[j]) ≤ y[k]`, and the new row `i` is
`(x[i] + Σ_{j>k} a[i][j]·y[j]) + a[i][k] · (that)`, which by monotonicity is below the old row `i`.
The star law `star a = 1 + a·star a` is not used for leastness (only for being a solution).
-/
import FggsModel.Solve
import FggsProofs.Props.C01
import FggsProofs.Props.C08
import FggsProofs.Props.C09
import FggsProofs.Props.C11
import FggsProofs.Props.C02b
import FggsProofs.C09bLemmas
import Mathlib.Tactic.Linarith
import Mathlib.Tactic.Ring
import Mathlib.Tactic.FieldSimp
import Mathlib.Tactic.Positivity
import Mathlib.Data.List.Basic
import Mathlib.Algebra.Order.Field.Rat

set_option linter.unusedSimpArgs false
set_option linter.unusedVariables false

namespace C09b
open Fggs Fggs.Sem Fggs.Sv C09bL

variable {K K' : Type}

/-- an ordered commutative semiring record with a `star`:
a preorder `le` for which `add` and `mul` are monotone, the star law (`star a = 1 + a·star a`) and the
**star induction law** (`star a · b` is below every pre-fixed point of `y ↦ a·y + b`) -/
structure OrdStarLaws (S : SR K) (le : K → K → Prop) (star : K → K) : Prop where
  sr : C01.SRLaws S
  star_law : C09.StarLaw S star
  refl : ∀ a, le a a
  trans : ∀ a b c, le a b → le b c → le a c
  add_mono : ∀ a b c d, le a b → le c d → le (S.add a c) (S.add b d)
  mul_mono : ∀ a b c d, le a b → le c d → le (S.mul a c) (S.mul b d)
  star_ind : ∀ a b y, le (S.add (S.mul a y) b) y → le (S.mul (star a) b) y

/-- `y` is a pre-fixed point of `y ↦ A y + b`: `(A y + b)[i] ≤ y[i]` for every row -/
def PreFixed (S : SR K) (le : K → K → Prop) (a : List (List K)) (b y : List K) : Prop :=
  ∀ i, i < a.length → le (getV S (affine S a b y) i) (getV S y i)

/-- pointwise order on the first `n` components -/
def VecLe (S : SR K) (le : K → K → Prop) (n : Nat) (x y : List K) : Prop :=
  ∀ i, i < n → le (getV S x i) (getV S y i)

/-! ### the loop invariant -/

/-- after the pivots `0..k-1`: `x[i] + Σ_{k ≤ j < n} a[i][j]·y[j] ≤ y[i]` for every row `i < n` -/
private def LInv (S : SR K) (le : K → K → Prop) (n : Nat) (y : List K) (k : Nat)
    (st : List (List K) × List K) : Prop :=
  ∀ i, i < n → le (S.add (getV S st.2 i)
    (S.sum ((List.range' k (n - k)).map (fun j => S.mul (getM S st.1 i j) (getV S y j))))) (getV S y i)

/-- the algebraic identity behind a pivot step -/
private theorem step_identity {S : SR K} (hS : C01.SRLaws S) (xi xk p s Ti Tk : K) :
    S.add (S.add xi (S.mul (S.mul p s) xk)) (S.add Ti (S.mul (S.mul p s) Tk)) =
      S.add (S.add xi Ti) (S.mul p (S.mul s (S.add xk Tk))) := by
  have : Std.Associative S.add := ⟨hS.add_assoc⟩
  have : Std.Commutative S.add := ⟨hS.add_comm⟩
  rw [hS.left_distrib s, hS.left_distrib p, ← hS.mul_assoc p s xk, ← hS.mul_assoc p s Tk]
  ac_rfl

/-- one pivot step, abstractly: `A'`/`x'` are the outputs of the step on `A`/`x` -/
private theorem linv_step_abs {S : SR K} {le : K → K → Prop} {star : K → K} (h : OrdStarLaws S le star)
    (n k m : Nat) (hkm : k + 1 + m = n) (A A' : Nat → Nat → K) (x x' y : Nat → K)
    (hA' : ∀ i j, i < n → j < n → k < j →
      A' i j = S.add (A i j) (S.mul (S.mul (A i k) (star (A k k))) (A k j)))
    (hx' : ∀ i, i < n → x' i = S.add (x i) (S.mul (S.mul (A i k) (star (A k k))) (x k)))
    (hinv : ∀ i, i < n →
      le (S.add (x i) (S.sum ((List.range' k (m+1)).map (fun j => S.mul (A i j) (y j))))) (y i)) :
    ∀ i, i < n →
      le (S.add (x' i) (S.sum ((List.range' (k+1) m).map (fun j => S.mul (A' i j) (y j))))) (y i) := by
  have hS := h.sr
  have : Std.Associative S.add := ⟨hS.add_assoc⟩
  have : Std.Commutative S.add := ⟨hS.add_comm⟩
  have hk : k < n := by omega
  -- the tails `T i = Σ_{j>k} A[i][j]·y[j]`
  let T : Nat → K := fun i => S.sum ((List.range' (k+1) m).map (fun j => S.mul (A i j) (y j)))
  have hinv' : ∀ i, i < n → le (S.add (x i) (S.add (S.mul (A i k) (y k)) (T i))) (y i) := by
    intro i hi
    have := hinv i hi
    rw [sum_range'_succ hS] at this
    exact this
  -- row k and star induction
  have hrow : le (S.mul (star (A k k)) (S.add (x k) (T k))) (y k) := by
    apply h.star_ind
    have e : S.add (S.mul (A k k) (y k)) (S.add (x k) (T k)) =
        S.add (x k) (S.add (S.mul (A k k) (y k)) (T k)) := by ac_rfl
    rw [e]
    exact hinv' k hk
  intro i hi
  -- the new tail
  have hsum : S.sum ((List.range' (k+1) m).map (fun j => S.mul (A' i j) (y j))) =
      S.add (T i) (S.mul (S.mul (A i k) (star (A k k))) (T k)) := by
    show _ = S.add (S.sum _) (S.mul _ (S.sum _))
    rw [← sum_map_mul_left hS, ← sum_map_add hS]
    apply sum_map_congr
    intro j hj
    have hj' := List.mem_range'_1.1 hj
    rw [hA' i j hi (by omega) (by omega), right_distrib hS, hS.mul_assoc _ (A k j)]
  rw [hsum, hx' i hi, step_identity hS]
  refine h.trans _ _ _ ?_ (hinv' i hi)
  have e : S.add (x i) (S.add (S.mul (A i k) (y k)) (T i)) =
      S.add (S.add (x i) (T i)) (S.mul (A i k) (y k)) := by ac_rfl
  rw [e]
  exact h.add_mono _ _ _ _ (h.refl _) (h.mul_mono _ _ _ _ (h.refl _) hrow)

private theorem linv_step {S : SR K} {le : K → K → Prop} {star : K → K} (h : OrdStarLaws S le star)
    (n k : Nat) (hk : k < n) (y : List K) (st : List (List K) × List K)
    (hinv : LInv S le n y k st) : LInv S le n y (k+1) (pivot S star n k st.1 st.2) := by
  have e : n - k = (n - (k+1)) + 1 := by omega
  unfold LInv at hinv ⊢
  rw [e] at hinv
  exact linv_step_abs h n k (n - (k+1)) (by omega) (getM S st.1) (getM S (pivot S star n k st.1 st.2).1)
    (getV S st.2) (getV S (pivot S star n k st.1 st.2).2) (getV S y)
    (fun i j hi hj hkj => pivot_right S star n k st.1 st.2 i j hi hj hkj)
    (fun i hi => pivot_vec S star n k st.1 st.2 i hi hk) hinv

private theorem linv_zero {S : SR K} {le : K → K → Prop} {star : K → K} (h : OrdStarLaws S le star)
    (a : List (List K)) (b y : List K) (hy : PreFixed S le a b y) : LInv S le a.length y 0 (a, b) := by
  intro i hi
  have := hy i hi
  rw [getV_affine S a b y i hi, h.sr.add_comm, List.range_eq_range'] at this
  exact this

private theorem linv_fold {S : SR K} {le : K → K → Prop} {star : K → K} (h : OrdStarLaws S le star)
    (a : List (List K)) (b y : List K) (hy : PreFixed S le a b y) (m : Nat) (hm : m ≤ a.length) :
    LInv S le a.length y m ((List.range m).foldl
      (fun (st : List (List K) × List K) k => pivot S star a.length k st.1 st.2) (a, b)) := by
  induction m with
  | zero => exact linv_zero h a b y hy
  | succ m ih =>
    rw [List.range_succ, List.foldl_append, List.foldl_cons, List.foldl_nil]
    exact linv_step h a.length m (by omega) y _ (ih (by omega))

/-! ### the theorems -/

/-- **the Gauss–Jordan/Lehmann loop returns a vector below every pre-fixed point of `y ↦ A y + b`**, for every
size `n`.  Neither squareness of `a`, nor the length of `y`, nor the star law is needed for this half
(`getM`/`getV` read absent entries as zero). -/
theorem solveLoop_least' (S : SR K) (le : K → K → Prop) (star : K → K) (h : OrdStarLaws S le star)
    (a : List (List K)) (b y : List K) (hy : PreFixed S le a b y) :
    VecLe S le a.length (solveLoop S star a b) y := by
  intro i hi
  have := linv_fold h a b y hy a.length (Nat.le_refl _) i hi
  rw [Nat.sub_self, List.range'_zero, List.map_nil, sum_nil', add_zero h.sr] at this
  exact this

/-- **main theorem, in the form of the claim**: for a square system and a vector `y` of length `n` with
`(A y + b)[i] ≤ y[i]` for all `i < n`, the result of the loop is pointwise below `y` -/
theorem solveLoop_least (S : SR K) (le : K → K → Prop) (star : K → K) (h : OrdStarLaws S le star)
    (a : List (List K)) (b : List K) (hsq : C09.Square a b) (y : List K) (hylen : y.length = a.length)
    (hy : ∀ i, i < a.length → le (getV S (affine S a b y) i) (getV S y i)) :
    ∀ i, i < a.length → le (getV S (solveLoop S star a b) i) (getV S y i) :=
  solveLoop_least' S le star h a b y hy

/-- **`solveLoop` returns the least solution and the least pre-fixed point of `x = A x + b`** -/
theorem solveLoop_isLeast (S : SR K) (le : K → K → Prop) (star : K → K) (h : OrdStarLaws S le star)
    (a : List (List K)) (b : List K) (hsq : C09.Square a b) :
    affine S a b (solveLoop S star a b) = solveLoop S star a b ∧
    PreFixed S le a b (solveLoop S star a b) ∧
    ∀ y, PreFixed S le a b y → VecLe S le a.length (solveLoop S star a b) y := by
  have hsol := C09.solveLoop_is_solution S h.sr star h.star_law a b hsq
  refine ⟨hsol, ?_, fun y hy => solveLoop_least' S le star h a b y hy⟩
  intro i _
  rw [hsol]
  exact h.refl _

/-- the least solution is unique: a solution `x'` that is below every pre-fixed point is what the loop returns,
when `le` is antisymmetric -/
theorem solveLoop_eq_of_least (S : SR K) (le : K → K → Prop) (star : K → K) (h : OrdStarLaws S le star)
    (hanti : ∀ a b, le a b → le b a → a = b)
    (a : List (List K)) (b : List K) (hsq : C09.Square a b) (x' : List K) (hlen : x'.length = a.length)
    (hsol : affine S a b x' = x')
    (hleast : ∀ y : List K, y.length = a.length →
      (∀ i, i < a.length → le (getV S (affine S a b y) i) (getV S y i)) →
      ∀ i, i < a.length → le (getV S x' i) (getV S y i)) :
    x' = solveLoop S star a b := by
  have hl := solveLoop_length S star a b hsq.2
  obtain ⟨hs, hpre, hle⟩ := solveLoop_isLeast S le star h a b hsq
  have h1 := hleast _ hl hpre
  have h2 : VecLe S le a.length (solveLoop S star a b) x' := by
    apply hle
    intro i _
    rw [hsol]
    exact h.refl _
  apply List.ext_getElem (by rw [hlen, hl])
  intro i hi1 hi2
  have hi : i < a.length := by rw [hlen] at hi1; exact hi1
  have e := hanti _ _ (h1 i hi) (h2 i hi)
  simpa [getV, hi1, hi2] using e

/-! ### Kleene iteration stays below the result of the loop -/

private theorem foldl_add_mono {S : SR K} {le : K → K → Prop} {star : K → K} (h : OrdStarLaws S le star)
    {α : Type} (l : List α) (f g : α → K) (hfg : ∀ x ∈ l, le (f x) (g x)) (c c' : K) (hc : le c c') :
    le ((l.map f).foldl S.add c) ((l.map g).foldl S.add c') := by
  induction l generalizing c c' with
  | nil => exact hc
  | cons x l ih =>
    simp only [List.map_cons, List.foldl_cons]
    exact ih (fun y hy => hfg y (List.mem_cons_of_mem _ hy)) _ _
      (h.add_mono _ _ _ _ hc (hfg x (List.mem_cons_self ..)))

/-- `x ↦ A x + b` is monotone -/
private theorem affine_mono {S : SR K} {le : K → K → Prop} {star : K → K} (h : OrdStarLaws S le star)
    (a : List (List K)) (b x x' : List K) (hx : VecLe S le a.length x x') :
    VecLe S le a.length (affine S a b x) (affine S a b x') := by
  intro i hi
  rw [getV_affine S a b x i hi, getV_affine S a b x' i hi]
  refine h.add_mono _ _ _ _ ?_ (h.refl _)
  exact foldl_add_mono h _ _ _
    (fun j hj => h.mul_mono _ _ _ _ (h.refl _) (hx j (List.mem_range.1 hj))) _ _ (h.refl _)

/-- when zero is the least element, every Kleene iterate `Σ_{m<n} A^m b` (the specification `kleeneLin`) is below
every pre-fixed point … -/
theorem kleeneLin_le_prefixed (S : SR K) (le : K → K → Prop) (star : K → K) (h : OrdStarLaws S le star)
    (hzero : ∀ a, le S.zero a) (a : List (List K)) (b y : List K) (hy : PreFixed S le a b y) (n : Nat) :
    VecLe S le a.length (kleeneLin S a b n) y := by
  induction n with
  | zero =>
    intro i hi
    have : getV S (kleeneLin S a b 0) i = S.zero := by simp [kleeneLin, getV, hi]
    rw [this]
    exact hzero _
  | succ n ih =>
    intro i hi
    exact h.trans _ _ _ (affine_mono h a b _ _ ih i hi) (hy i hi)

/-- … in particular below the result of the loop: `solveLoop` is an upper bound of the Kleene chain and below
every other pre-fixed point -/
theorem kleeneLin_le_solveLoop (S : SR K) (le : K → K → Prop) (star : K → K) (h : OrdStarLaws S le star)
    (hzero : ∀ a, le S.zero a) (a : List (List K)) (b : List K) (hsq : C09.Square a b) (n : Nat) :
    VecLe S le a.length (kleeneLin S a b n) (solveLoop S star a b) :=
  kleeneLin_le_prefixed S le star h hzero a b _ (solveLoop_isLeast S le star h a b hsq).2.1 n

/-- a semiring homomorphism that commutes with `star` commutes with the loop: the loop over a carrier
(a subtype) computes exactly what the executable loop computes on the underlying values -/
theorem solveLoop_map_hom (S : SR K) (S' : SR K') (f : K → K') (hf : C11.Hom S S' f)
    (star : K → K) (star' : K' → K') (hs : ∀ a, star' (f a) = f (star a))
    (a : List (List K)) (b : List K) :
    solveLoop S' star' (a.map (List.map f)) (b.map f) = (solveLoop S star a b).map f := by
  unfold solveLoop
  simp only [List.length_map]
  rw [fold_map hf star star' hs]

/-! ### instances: the semirings of the library satisfy the hypotheses -/

/-- the order of the Boolean semiring: `false ≤ true` -/
def boolLe (a b : Bool) : Prop := a = true → b = true

/-- **Boolean semiring**, `star = fun _ => true` (as `BoolSemiring.star`) -/
theorem boolOrdStar : OrdStarLaws boolSR boolLe (fun _ => true) where
  sr := C01.boolSR_laws
  star_law := by intro a; cases a <;> rfl
  refl := by intro a h; exact h
  trans := by intro a b c h1 h2 h; exact h2 (h1 h)
  add_mono := by intro a b c d; cases a <;> cases b <;> cases c <;> cases d <;> simp [boolLe, boolSR]
  mul_mono := by intro a b c d; cases a <;> cases b <;> cases c <;> cases d <;> simp [boolLe, boolSR]
  star_ind := by intro a b y; cases a <;> cases b <;> cases y <;> simp [boolLe, boolSR]

theorem boolLe_antisymm (a b : Bool) (h1 : boolLe a b) (h2 : boolLe b a) : a = b := by
  cases a <;> cases b <;> simp_all [boolLe]

/-! #### Viterbi -/

private theorem vit_le_refl (x : Ext) (hx : C08.VitC x) : x.le x = true := by
  cases x <;> simp_all [Ext.le, C08.VitC]

private theorem vit_le_trans (x y z : Ext) (h1 : x.le y = true) (h2 : y.le z = true) : x.le z = true := by
  cases x <;> cases y <;> cases z <;> simp_all [Ext.le]
  exact le_trans h1 h2

private theorem ext_le_antisymm (x y : Ext) (h1 : x.le y = true) (h2 : y.le x = true) : x = y := by
  cases x <;> cases y <;> simp_all [Ext.le]
  exact le_antisymm h1 h2

private theorem vit_add_mono (a b c d : Ext) (h1 : a.le b = true) (h2 : c.le d = true) :
    (Impl.vitAdd a c).le (Impl.vitAdd b d) = true := by
  cases a <;> cases b <;> cases c <;> cases d <;>
    simp_all [Ext.le, Impl.vitAdd, Ext.maximum]
  rename_i a b c d
  rcases le_total c b with h | h
  · exact Or.inl h
  · exact Or.inr (by linarith)

private theorem vit_mul_mono (a b c d : Ext) (h1 : a.le b = true) (h2 : c.le d = true) :
    (Impl.vitMul a c).le (Impl.vitMul b d) = true := by
  cases a <;> cases b <;> cases c <;> cases d <;>
    simp_all [Ext.le, Impl.vitMul, Ext.add, Ext.nanToNum]
  exact add_le_add h1 h2

private theorem vit_star_ind (a b y : Ext) (ha : C08.VitC a) (hb : C08.VitC b) (hy : C08.VitC y)
    (h : (Impl.vitAdd (Impl.vitMul a y) b).le y = true) :
    (Impl.vitMul (Impl.vitStar a) b).le y = true := by
  cases a with
  | nan => exact absurd ha id
  | ninf =>
    cases b <;> cases y <;>
      simp_all [C08.VitC, Impl.vitStar, Ext.gt, Ext.lt, Ext.le, Impl.vitMul, Ext.add, Ext.nanToNum,
        Impl.vitAdd, Ext.maximum]
  | pinf =>
    cases b <;> cases y <;>
      simp_all [C08.VitC, Impl.vitStar, Ext.gt, Ext.lt, Ext.le, Impl.vitMul, Ext.add, Ext.nanToNum,
        Impl.vitAdd, Ext.maximum]
  | fin q =>
    by_cases hq : 0 < q
    · cases b <;> cases y <;>
        simp_all [C08.VitC, Impl.vitStar, Ext.gt, Ext.lt, Ext.le, Impl.vitMul, Ext.add, Ext.nanToNum,
          Impl.vitAdd, Ext.maximum]
      linarith [h.1]
    · have hs : Impl.vitStar (Ext.fin q) = Ext.fin 0 := by simp [Impl.vitStar, Ext.gt, Ext.lt, hq]
      rw [hs]
      cases b <;> cases y <;>
        simp_all [C08.VitC, Ext.le, Impl.vitMul, Ext.add, Ext.nanToNum, Impl.vitAdd, Ext.maximum]

/-- `ViterbiSemiring.star` on the carrier: `0` (the semiring one) if `a ≤ 0`, else `+∞` -/
def vitKStar (a : C11.VitK) : C11.VitK :=
  ⟨Impl.vitStar a.1, by unfold Impl.vitStar; split <;> simp [C08.VitC]⟩

/-- the order of the Viterbi carrier `[-∞, ∞]` -/
def vitLe (a b : C11.VitK) : Prop := a.1.le b.1 = true

/-- **Viterbi semiring** (max, +) on `[-∞, ∞]` with the implemented `star` -/
theorem vitOrdStar : OrdStarLaws C11.vitK vitLe vitKStar where
  sr := C11.vitK_laws
  star_law := by
    intro a
    apply Subtype.ext
    have := C08.vit_star_solves a.1 a.2
    have e : Impl.viterbi.fromInt 1 = Ext.fin 0 := by simp [Impl.viterbi, Impl.vitFromInt]
    rw [e] at this
    exact this
  refl := fun a => vit_le_refl a.1 a.2
  trans := fun a b c => vit_le_trans a.1 b.1 c.1
  add_mono := fun a b c d => vit_add_mono a.1 b.1 c.1 d.1
  mul_mono := fun a b c d => vit_mul_mono a.1 b.1 c.1 d.1
  star_ind := fun a b y => vit_star_ind a.1 b.1 y.1 a.2 b.2 y.2

theorem vitLe_antisymm (a b : C11.VitK) (h1 : vitLe a b) (h2 : vitLe b a) : a = b :=
  Subtype.ext (ext_le_antisymm a.1 b.1 h1 h2)

/-! #### Real -/

private theorem real_star_ind (a b y : Ext) (ha : C08.RealC a) (hb : C08.RealC b) (hy : C08.RealC y)
    (h : (Impl.realAdd (Impl.realMul 0 a y) b).le y = true) :
    (Impl.realMul 0 (Impl.realStar a) b).le y = true := by
  rcases C08.realC_cases ha with rfl | rfl | ⟨q, hq, rfl⟩
  · have hs : Impl.realStar Ext.pinf = Ext.pinf := by simp [Impl.realStar, Ext.ge, Ext.le]
    rw [hs]
    rcases C08.realC_cases hb with rfl | rfl | ⟨r, hr, rfl⟩ <;>
    rcases C08.realC_cases hy with rfl | rfl | ⟨t, ht, rfl⟩ <;>
    simp_all [Ext.le, Impl.realMul, Impl.realAdd, Ext.mul, Ext.add, Ext.nanToNum, ne_of_gt, le_of_lt]
    linarith
  · rw [C08.realStar_zero]
    rcases C08.realC_cases hb with rfl | rfl | ⟨r, hr, rfl⟩ <;>
    rcases C08.realC_cases hy with rfl | rfl | ⟨t, ht, rfl⟩ <;>
    simp_all [Ext.le, Impl.realMul, Impl.realAdd, Ext.mul, Ext.add, Ext.nanToNum, ne_of_gt, le_of_lt]
  · by_cases h1 : 1 ≤ q
    · have hs : Impl.realStar (Ext.fin q) = Ext.pinf := by simp [Impl.realStar, Ext.ge, Ext.le, h1]
      rw [hs]
      rcases C08.realC_cases hb with rfl | rfl | ⟨r, hr, rfl⟩ <;>
      rcases C08.realC_cases hy with rfl | rfl | ⟨t, ht, rfl⟩ <;>
      simp_all [Ext.le, Impl.realMul, Impl.realAdd, Ext.mul, Ext.add, Ext.nanToNum, ne_of_gt, le_of_lt]
      all_goals nlinarith
    · have hne : (1:Rat) + -q ≠ 0 := by linarith
      have hs : Impl.realStar (Ext.fin q) = Ext.fin (1 / (1 + -q)) := by
        simp [Impl.realStar, Ext.ge, Ext.le, h1, Ext.sub, Ext.neg, Ext.add, Ext.div, hne]
      rw [hs]
      rcases C08.realC_cases hb with rfl | rfl | ⟨r, hr, rfl⟩ <;>
      rcases C08.realC_cases hy with rfl | rfl | ⟨t, ht, rfl⟩ <;>
      simp_all [Ext.le, Impl.realMul, Impl.realAdd, Ext.mul, Ext.add, Ext.nanToNum, ne_of_gt, le_of_lt]
      · exfalso; linarith
      · have hpos : (0:Rat) < 1 + -q := by linarith
        rw [inv_mul_le_iff₀ hpos]
        nlinarith

/-- `RealSemiring.star` on the carrier: `1/(1-a)` for `a < 1`, else `∞` -/
def realKStar (a : C11.RealK) : C11.RealK := ⟨Impl.realStar a.1, C08.real_star_closed a.1 a.2⟩

/-- the order of the Real carrier `[0, ∞]` -/
def realLe (a b : C11.RealK) : Prop := a.1.le b.1 = true

/-- **Real semiring** on `[0, ∞]` with the implemented `star` -/
theorem realOrdStar : OrdStarLaws C11.realK realLe realKStar where
  sr := C11.realK_laws
  star_law := by
    intro a
    apply Subtype.ext
    have := C08.real_star_solves 0 a.1 a.2
    have e : (Impl.real 0).fromInt 1 = Ext.fin 1 := by simp [Impl.real, Ext.ofNat]
    rw [e] at this
    exact this
  refl := C02.realK_ord.refl
  trans := C02.realK_ord.trans
  add_mono := C02.realK_ord.add_mono
  mul_mono := C02.realK_ord.mul_mono
  star_ind := fun a b y => real_star_ind a.1 b.1 y.1 a.2 b.2 y.2

theorem realLe_antisymm (a b : C11.RealK) (h1 : realLe a b) (h2 : realLe b a) : a = b :=
  Subtype.ext (ext_le_antisymm a.1 b.1 h1 h2)

/-- zero is the least element in the three instances (the extra hypothesis of `kleeneLin_le_solveLoop`) -/
theorem zero_least_instances :
    (∀ a, boolLe boolSR.zero a) ∧ (∀ a, vitLe C11.vitK.zero a) ∧ (∀ a, realLe C11.realK.zero a) := by
  refine ⟨?_, ?_, C02.realK_ord.zero_le⟩
  · intro a h; cases h
  · rintro ⟨a, ha⟩
    cases a with
    | nan => exact absurd ha id
    | _ => simp [vitLe, C11.vitK, Ext.le]

/-! ### back to the executable model on `Ext` -/

/-- the loop over the Real carrier computes what the executable loop (`solveLoop realSR Impl.realStar`, the
function compared with the Python implementation) computes -/
theorem real_solveLoop_val (a : List (List C11.RealK)) (b : List C11.RealK) :
    solveLoop realSR Impl.realStar (a.map (List.map (fun x => x.1))) (b.map (fun x => x.1)) =
      (solveLoop C11.realK realKStar a b).map (fun x => x.1) :=
  solveLoop_map_hom C11.realK realSR _ C11.real_val_hom realKStar Impl.realStar (fun _ => rfl) a b

theorem vit_solveLoop_val (a : List (List C11.VitK)) (b : List C11.VitK) :
    solveLoop vitSR Impl.vitStar (a.map (List.map (fun x => x.1))) (b.map (fun x => x.1)) =
      (solveLoop C11.vitK vitKStar a b).map (fun x => x.1) :=
  solveLoop_map_hom C11.vitK vitSR _ C11.vit_val_hom vitKStar Impl.vitStar (fun _ => rfl) a b

/-- transfer along the inclusion of a carrier -/
private theorem least_transfer {P : Ext → Prop} (SK : SR {x // P x}) (SE : SR Ext)
    (hf : C11.Hom SK SE (fun x => x.1)) (starK : {x // P x} → {x // P x}) (starE : Ext → Ext)
    (hs : ∀ a, starE a.1 = (starK a).1)
    (h : OrdStarLaws SK (fun a b => a.1.le b.1 = true) starK)
    (a : List (List Ext)) (b y : List Ext)
    (ha : ∀ r ∈ a, ∀ x ∈ r, P x) (hb : ∀ x ∈ b, P x) (hy : ∀ x ∈ y, P x)
    (hpre : ∀ i, i < a.length → (getV SE (affine SE a b y) i).le (getV SE y i) = true) :
    ∀ i, i < a.length → (getV SE (solveLoop SE starE a b) i).le (getV SE y i) = true := by
  obtain ⟨a', rfl⟩ := lift_mat a ha
  obtain ⟨b', rfl⟩ := lift_list b hb
  obtain ⟨y', rfl⟩ := lift_list y hy
  rw [solveLoop_map_hom SK SE _ hf starK starE hs]
  simp only [List.length_map] at hpre ⊢
  intro i hi
  rw [getV_map hf, getV_map hf]
  apply solveLoop_least' SK _ starK h a' b' y' _ i hi
  intro j hj
  have := hpre j hj
  rw [affine_map hf, getV_map hf, getV_map hf] at this
  exact this

private theorem solution_transfer {P : Ext → Prop} (SK : SR {x // P x}) (SE : SR Ext)
    (hf : C11.Hom SK SE (fun x => x.1)) (starK : {x // P x} → {x // P x}) (starE : Ext → Ext)
    (hs : ∀ a, starE a.1 = (starK a).1) (hS : C01.SRLaws SK) (hstar : C09.StarLaw SK starK)
    (a : List (List Ext)) (b : List Ext) (hsq : C09.Square a b)
    (ha : ∀ r ∈ a, ∀ x ∈ r, P x) (hb : ∀ x ∈ b, P x) :
    affine SE a b (solveLoop SE starE a b) = solveLoop SE starE a b := by
  obtain ⟨a', rfl⟩ := lift_mat a ha
  obtain ⟨b', rfl⟩ := lift_list b hb
  have hsq' : C09.Square a' b' := by
    obtain ⟨h1, h2⟩ := hsq
    simp only [List.length_map] at h1 h2
    refine ⟨?_, h2⟩
    intro r hr
    have := h1 (r.map (fun x => x.1)) (List.mem_map.2 ⟨r, hr, rfl⟩)
    simpa using this
  rw [solveLoop_map_hom SK SE _ hf starK starE hs, affine_map hf,
    C09.solveLoop_is_solution SK hS starK hstar a' b' hsq']

/-- **RealSemiring.solve, executable model**: on a square system with entries in `[0, ∞]` the loop
`solveLoop realSR Impl.realStar` returns a solution of `x = A x + b` that is below every pre-fixed point with
entries in `[0, ∞]` — the least solution -/
theorem real_solve_isLeast (a : List (List Ext)) (b : List Ext) (hsq : C09.Square a b)
    (ha : ∀ r ∈ a, ∀ x ∈ r, C08.RealC x) (hb : ∀ x ∈ b, C08.RealC x) :
    affine realSR a b (solveLoop realSR Impl.realStar a b) = solveLoop realSR Impl.realStar a b ∧
    ∀ y : List Ext, (∀ x ∈ y, C08.RealC x) →
      (∀ i, i < a.length → (getV realSR (affine realSR a b y) i).le (getV realSR y i) = true) →
      ∀ i, i < a.length → (getV realSR (solveLoop realSR Impl.realStar a b) i).le (getV realSR y i) = true :=
  ⟨solution_transfer C11.realK realSR C11.real_val_hom realKStar Impl.realStar (fun _ => rfl)
      C11.realK_laws realOrdStar.star_law a b hsq ha hb,
   fun y hy hpre => least_transfer C11.realK realSR C11.real_val_hom realKStar Impl.realStar (fun _ => rfl)
      realOrdStar a b y ha hb hy hpre⟩

/-- **ViterbiSemiring.solve, executable model**: the same on `[-∞, ∞]` with (max, +) -/
theorem vit_solve_isLeast (a : List (List Ext)) (b : List Ext) (hsq : C09.Square a b)
    (ha : ∀ r ∈ a, ∀ x ∈ r, C08.VitC x) (hb : ∀ x ∈ b, C08.VitC x) :
    affine vitSR a b (solveLoop vitSR Impl.vitStar a b) = solveLoop vitSR Impl.vitStar a b ∧
    ∀ y : List Ext, (∀ x ∈ y, C08.VitC x) →
      (∀ i, i < a.length → (getV vitSR (affine vitSR a b y) i).le (getV vitSR y i) = true) →
      ∀ i, i < a.length → (getV vitSR (solveLoop vitSR Impl.vitStar a b) i).le (getV vitSR y i) = true :=
  ⟨solution_transfer C11.vitK vitSR C11.vit_val_hom vitKStar Impl.vitStar (fun _ => rfl)
      C11.vitK_laws vitOrdStar.star_law a b hsq ha hb,
   fun y hy hpre => least_transfer C11.vitK vitSR C11.vit_val_hom vitKStar Impl.vitStar (fun _ => rfl)
      vitOrdStar a b y ha hb hy hpre⟩

/-- **BoolSemiring.solve, executable model** -/
theorem bool_solve_isLeast (a : List (List Bool)) (b : List Bool) (hsq : C09.Square a b) :
    affine boolSR a b (solveLoop boolSR (fun _ => true) a b) = solveLoop boolSR (fun _ => true) a b ∧
    ∀ y : List Bool,
      (∀ i, i < a.length → getV boolSR (affine boolSR a b y) i = true → getV boolSR y i = true) →
      ∀ i, i < a.length → getV boolSR (solveLoop boolSR (fun _ => true) a b) i = true → getV boolSR y i = true :=
  ⟨C09.solveLoop_is_solution boolSR C01.boolSR_laws _ boolOrdStar.star_law a b hsq,
   fun y hpre => solveLoop_least' boolSR boolLe _ boolOrdStar a b y hpre⟩

/-! ### non-vacuity: concrete 2×2 systems -/

open Fggs.Ext in
/-- Real: `x₀ = x₀/2 + 1`, `x₁ = x₀ + x₁/2`; the loop returns `(2, 4)`, and every pre-fixed point in `[0,∞]²`
is above `(2, 4)` -/
example :
    solveLoop realSR Impl.realStar [[fin (1/2), fin 0], [fin 1, fin (1/2)]] [fin 1, fin 0] = [fin 2, fin 4] ∧
    ∀ y0 y1 : Ext, C08.RealC y0 → C08.RealC y1 →
      (Impl.realAdd (Impl.realAdd (Impl.realMul 0 (fin (1/2)) y0) (Impl.realMul 0 (fin 0) y1)) (fin 1)).le y0 = true →
      (Impl.realAdd (Impl.realAdd (Impl.realMul 0 (fin 1) y0) (Impl.realMul 0 (fin (1/2)) y1)) (fin 0)).le y1 = true →
      (fin 2).le y0 = true ∧ (fin 4).le y1 = true := by
  have hv : solveLoop realSR Impl.realStar [[fin (1/2), fin 0], [fin 1, fin (1/2)]] [fin 1, fin 0]
      = [fin 2, fin 4] := by decide +kernel
  refine ⟨hv, ?_⟩
  intro y0 y1 h0 h1 p0 p1
  have hsq : C09.Square [[fin (1/2), fin 0], [fin 1, fin (1/2)]] [fin 1, fin 0] := by
    refine ⟨?_, rfl⟩
    intro r hr
    simp only [List.mem_cons, List.not_mem_nil, or_false] at hr
    rcases hr with rfl | rfl <;> rfl
  have hl := (real_solve_isLeast [[fin (1/2), fin 0], [fin 1, fin (1/2)]] [fin 1, fin 0] hsq
    (by intro r hr x hx
        simp only [List.mem_cons, List.not_mem_nil, or_false] at hr
        rcases hr with rfl | rfl <;>
          (simp only [List.mem_cons, List.not_mem_nil, or_false] at hx
           rcases hx with rfl | rfl <;> simp [C08.RealC]))
    (by intro x hx
        simp only [List.mem_cons, List.not_mem_nil, or_false] at hx
        rcases hx with rfl | rfl <;> simp [C08.RealC])).2 [y0, y1]
    (by intro x hx
        simp only [List.mem_cons, List.not_mem_nil, or_false] at hx
        rcases hx with rfl | rfl <;> assumption)
    (by intro i hi
        have hi' : i < 2 := hi
        have e0 : Impl.realAdd (fin 0) (Impl.realMul 0 (fin (1/2)) y0) = Impl.realMul 0 (fin (1/2)) y0 :=
          C08.real_zero_add 0 _ (C08.real_mul_closed 0 _ _ (by simp [C08.RealC]) h0)
        have e1 : Impl.realAdd (fin 0) (Impl.realMul 0 (fin 1) y0) = Impl.realMul 0 (fin 1) y0 :=
          C08.real_zero_add 0 _ (C08.real_mul_closed 0 _ _ (by simp [C08.RealC]) h0)
        obtain rfl | rfl : i = 0 ∨ i = 1 := by omega
        · show (Impl.realAdd (Impl.realAdd (Impl.realAdd (fin 0) (Impl.realMul 0 (fin (1/2)) y0))
              (Impl.realMul 0 (fin 0) y1)) (fin 1)).le y0 = true
          rw [e0]; exact p0
        · show (Impl.realAdd (Impl.realAdd (Impl.realAdd (fin 0) (Impl.realMul 0 (fin 1) y0))
              (Impl.realMul 0 (fin (1/2)) y1)) (fin 0)).le y1 = true
          rw [e1]; exact p1)
  rw [hv] at hl
  exact ⟨by simpa [getV] using hl 0 (by decide), by simpa [getV] using hl 1 (by decide)⟩

/-- Boolean: `x₀ = x₁`, `x₁ = x₀ ∨ true`: the loop returns `(true, true)`; the hypotheses of `solveLoop_isLeast`
are met -/
example :
    solveLoop boolSR (fun _ => true) [[false, true], [true, false]] [false, true] = [true, true] ∧
    ∀ y, PreFixed boolSR boolLe [[false, true], [true, false]] [false, true] y →
      VecLe boolSR boolLe 2 [true, true] y := by
  have hv : solveLoop boolSR (fun _ => true) [[false, true], [true, false]] [false, true] = [true, true] := by
    decide
  refine ⟨hv, fun y hy => ?_⟩
  have := (solveLoop_isLeast boolSR boolLe _ boolOrdStar [[false, true], [true, false]] [false, true]
    ⟨by decide, rfl⟩).2.2 y hy
  rw [hv] at this
  exact this

open Fggs.Ext in
/-- Viterbi: a system without positive cycles has a finite least solution; one with a positive cycle
(`3 + (-2) > 0`) has least solution `+∞` -/
example :
    solveLoop vitSR Impl.vitStar [[fin (-1), fin (-2)], [fin 1, fin (-4)]] [fin 0, ninf] = [fin 0, fin 1] ∧
    solveLoop vitSR Impl.vitStar [[fin (-1), fin (-2)], [fin 3, fin (-4)]] [fin 0, ninf] = [pinf, pinf] := by
  constructor <;> decide +kernel

end C09b
