/-
C12 — placeholder (theorems follow)
-/
import FggsModel.Sem
