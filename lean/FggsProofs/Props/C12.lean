/-
C12 — Results do not depend on how the grammar is written down.
The specification level: the equation system F and Kleene iteration (= sums over derivations, C01) are
invariant under reordering the rules, reordering the edges of a rule, and renumbering the nodes of a rule.
(Ids and label *names* do not exist at this level: `Sem.Grammar` is what remains of an FGG after erasing them.)
-/
import FggsModel.Sem
import FggsProofs.Props.C01
import Mathlib.Tactic.Linarith
import Mathlib.Data.List.Basic
import Mathlib.Data.List.Forall2
import Mathlib.Data.List.Nodup
import Mathlib.Data.List.Perm.Basic

set_option linter.unusedSimpArgs false
set_option linter.unusedVariables false

namespace C12
open Fggs Fggs.Sem

variable {K : Type}

private theorem foldl_add (S : SR K) (hS : C01.SRLaws S) (l : List K) (a : K) :
    l.foldl S.add a = S.add a (S.sum l) := by
  induction l generalizing a with
  | nil => simp [SR.sum]; rw [hS.add_comm, hS.zero_add]
  | cons b l ih =>
    simp only [SR.sum, List.foldl_cons]
    rw [ih, ih (S.add S.zero b), hS.zero_add, hS.add_assoc]

private theorem sum_cons (S : SR K) (hS : C01.SRLaws S) (a : K) (l : List K) :
    S.sum (a :: l) = S.add a (S.sum l) := by
  show (a :: l).foldl S.add S.zero = _
  rw [List.foldl_cons, foldl_add S hS, hS.zero_add]

private theorem foldl_mul (S : SR K) (hS : C01.SRLaws S) (l : List K) (c : K) :
    l.foldl S.mul c = S.mul c (S.prod l) := by
  induction l generalizing c with
  | nil => simp [SR.prod]; rw [hS.mul_comm, hS.one_mul]
  | cons b l ih =>
    simp only [SR.prod, List.foldl_cons]
    rw [ih, ih (S.mul S.one b), hS.one_mul, hS.mul_assoc]

private theorem prod_cons (S : SR K) (hS : C01.SRLaws S) (a : K) (l : List K) :
    S.prod (a :: l) = S.mul a (S.prod l) := by
  show (a :: l).foldl S.mul S.one = _
  rw [List.foldl_cons, foldl_mul S hS, hS.one_mul]

/-- sums and products over permuted lists agree (commutative semiring) -/
theorem sum_perm (S : SR K) (hS : C01.SRLaws S) (l l' : List K) (h : l.Perm l') : S.sum l = S.sum l' := by
  induction h with
  | nil => rfl
  | cons a _ ih => rw [sum_cons S hS, sum_cons S hS, ih]
  | swap a b l =>
    rw [sum_cons S hS, sum_cons S hS, sum_cons S hS, sum_cons S hS, ← hS.add_assoc, ← hS.add_assoc,
      hS.add_comm a b]
  | trans _ _ ih1 ih2 => rw [ih1, ih2]

theorem prod_perm (S : SR K) (hS : C01.SRLaws S) (l l' : List K) (h : l.Perm l') : S.prod l = S.prod l' := by
  induction h with
  | nil => rfl
  | cons a _ ih => rw [prod_cons S hS, prod_cons S hS, ih]
  | swap a b l =>
    rw [prod_cons S hS, prod_cons S hS, prod_cons S hS, prod_cons S hS, ← hS.mul_assoc, ← hS.mul_assoc,
      hS.mul_comm a b]
  | trans _ _ ih1 ih2 => rw [ih1, ih2]

/-- **reordering the edges of a rule does not change its value** -/
theorem ruleCell_perm_edges (S : SR K) (hS : C01.SRLaws S) (G : Grammar K) (x : Val K) (r r' : Rule)
    (hl : r'.lhs = r.lhs) (hn : r'.nodes = r.nodes) (he : r'.ext = r.ext) (hp : r'.edges.Perm r.edges) (a : List Nat) :
    ruleCell S G x r' a = ruleCell S G x r a := by
  unfold ruleCell
  rw [hn, he]
  congr 1
  apply List.map_congr_left
  intro ρ _
  exact prod_perm S hS _ _ (hp.map _)

/-- two grammars that differ only in the order of their rule lists -/
structure SameUpToRuleOrder (G G' : Grammar K) : Prop where
  nls : G'.nls = G.nls
  terms : G'.terms = G.terms
  nts : G'.nts = G.nts
  start : G'.start = G.start
  weights : G'.weights = G.weights
  rules : G'.rules.Perm G.rules

/-- **reordering the rules does not change the equation system** (cell by cell) … -/
theorem F_perm_rules (S : SR K) (hS : C01.SRLaws S) (G G' : Grammar K) (h : SameUpToRuleOrder G G') (x : Val K)
    (X : Nat) (hX : X < G.nts.length) (a : List Nat) (ha : a ∈ assigns (G.shapeOf (G.nts[X]?.getD [])))
    (hshape : ∀ r ∈ G.rules, G.shapeOf (r.ext.map (fun v => r.nodes[v]?.getD 0)) = G.shapeOf (G.nts[r.lhs]?.getD [])) :
    C01.valCell S G' (F S G' x) X a = C01.valCell S G (F S G x) X a := by
  obtain ⟨h1, h2, h3, h4, h5, h6⟩ := h
  obtain ⟨nls, terms, nts, start, rules, weights⟩ := G
  obtain ⟨nls', terms', nts', start', rules', weights'⟩ := G'
  simp only at h1 h2 h3 h4 h5 h6
  subst h1 h2 h3 h4 h5
  have hs : ∀ (G : Grammar K) (X : Nat), ∀ r ∈ G.rulesOf X, r ∈ G.rules ∧ r.lhs = X := by
    intro G X r hr
    have := List.mem_filter.1 hr
    exact ⟨this.1, by simpa using this.2⟩
  have e1 := C01.F_cell S hS ⟨nls', terms', nts', start', rules, weights'⟩ x X hX a ha (by
    intro r hr
    obtain ⟨hr1, hr2⟩ := hs _ _ r hr
    have := hshape r hr1
    rw [hr2] at this
    exact this)
  have e2 := C01.F_cell S hS ⟨nls', terms', nts', start', rules', weights'⟩ x X hX a ha (by
    intro r hr
    obtain ⟨hr1, hr2⟩ := hs _ _ r hr
    have := hshape r (h6.mem_iff.1 hr1)
    rw [hr2] at this
    exact this)
  rw [e1, e2]
  apply sum_perm S hS
  apply List.Perm.map
  exact h6.filter _

/-! ### renumbering nodes -/

private theorem mem_assigns {shape a : List Nat} :
    a ∈ assigns shape ↔ List.Forall₂ (· < ·) a shape := by
  induction shape generalizing a with
  | nil => simp [assigns]
  | cons n rest ih =>
    simp only [assigns, List.mem_flatMap, List.mem_range, List.mem_map]
    constructor
    · rintro ⟨i, hi, is, his, rfl⟩
      exact List.Forall₂.cons hi (ih.1 his)
    · intro h
      cases h with
      | cons hi his => exact ⟨_, hi, _, ih.2 his, rfl⟩

private theorem nodup_assigns (shape : List Nat) : (assigns shape).Nodup := by
  induction shape with
  | nil => simp [assigns]
  | cons n rest ih =>
    rw [assigns, List.nodup_flatMap]
    refine ⟨fun i _ => ih.map (fun _ _ h => (List.cons.inj h).2), ?_⟩
    refine List.Pairwise.imp ?_ List.nodup_range
    intro i j hij l h1 h2
    obtain ⟨_, _, rfl⟩ := List.mem_map.1 h1
    obtain ⟨_, _, h⟩ := List.mem_map.1 h2
    exact hij (List.cons.inj h).1.symm

private theorem getD_map_range (n : Nat) (f : Nat → Nat) (w : Nat) (hw : w < n) :
    ((List.range n).map f)[w]?.getD 0 = f w := by
  simp [List.getElem?_map, List.getElem?_range hw]

/-- membership in `assigns` of a shape given by a function on positions -/
private theorem mem_assigns_range (n : Nat) (D : Nat → Nat) (ρ : List Nat) :
    ρ ∈ assigns ((List.range n).map D) ↔ ρ.length = n ∧ ∀ i < n, ρ[i]?.getD 0 < D i := by
  rw [mem_assigns, List.forall₂_iff_get]
  simp only [List.length_map, List.length_range, List.get_eq_getElem, List.getElem_map, List.getElem_range]
  constructor
  · rintro ⟨h1, h2⟩
    refine ⟨h1, fun i hi => ?_⟩
    have := h2 i (by omega) hi
    simpa [List.getElem?_eq_getElem (show i < ρ.length by omega)] using this
  · rintro ⟨h1, h2⟩
    refine ⟨h1, fun i hi hi' => ?_⟩
    have := h2 i hi'
    simpa [List.getElem?_eq_getElem hi] using this

private theorem shapeOf_eq_range (G : Grammar K) (nodes : List Nat) :
    G.shapeOf nodes = (List.range nodes.length).map (fun v => G.dom (nodes[v]?.getD 0)) := by
  unfold Grammar.shapeOf
  apply List.ext_getElem
  · simp
  · intro i h1 h2
    have : i < nodes.length := by simpa using h1
    simp [List.getElem?_eq_getElem this]

/-- reindexing of assignment lists along a bijection `s`/`t` of positions `0..n-1` -/
private theorem assigns_reindex (n : Nat) (D s t : Nat → Nat)
    (hs : ∀ v < n, s v < n ∧ t (s v) = v) (ht : ∀ w < n, t w < n ∧ s (t w) = w) :
    (assigns ((List.range n).map (fun w => D (t w)))).Perm
      ((assigns ((List.range n).map D)).map (fun ρ => (List.range n).map (fun w => ρ[t w]?.getD 0))) := by
  have hinj : ∀ ρ₁ ∈ assigns ((List.range n).map D), ∀ ρ₂ ∈ assigns ((List.range n).map D),
      (List.range n).map (fun w => ρ₁[t w]?.getD 0) = (List.range n).map (fun w => ρ₂[t w]?.getD 0) → ρ₁ = ρ₂ := by
    intro ρ₁ h1 ρ₂ h2 heq
    rw [mem_assigns_range] at h1 h2
    apply List.ext_getElem (by omega)
    intro i hi1 hi2
    have hi : i < n := by omega
    have := congrArg (fun l => l[s i]?.getD 0) heq
    simp only [getD_map_range n _ _ (hs i hi).1, (hs i hi).2] at this
    simpa [List.getElem?_eq_getElem hi1, List.getElem?_eq_getElem hi2] using this
  rw [List.perm_ext_iff_of_nodup (nodup_assigns _) ((nodup_assigns _).map_on hinj)]
  intro ρ'
  rw [mem_assigns_range, List.mem_map]
  constructor
  · rintro ⟨h1, h2⟩
    refine ⟨(List.range n).map (fun v => ρ'[s v]?.getD 0), ?_, ?_⟩
    · rw [mem_assigns_range]
      refine ⟨by simp, fun i hi => ?_⟩
      rw [getD_map_range n _ _ hi]
      have := h2 (s i) (hs i hi).1
      rwa [(hs i hi).2] at this
    · apply List.ext_getElem (by simp [h1])
      intro i hi1 hi2
      have hi : i < n := by omega
      simp only [List.getElem_map, List.getElem_range]
      rw [getD_map_range n _ _ (ht i hi).1, (ht i hi).2]
      simp [List.getElem?_eq_getElem hi2]
  · rintro ⟨ρ, hρ, rfl⟩
    rw [mem_assigns_range] at hρ
    refine ⟨by simp, fun i hi => ?_⟩
    rw [getD_map_range n _ _ hi]
    exact hρ.2 _ (ht i hi).1

/-- renumbering the nodes of a rule by a permutation `σ` of positions (given as the list `σ 0, σ 1, …`,
with inverse `τ`): node `v` of the old rule is node `σ v` of the new one -/
def renumber (σ : List Nat) (r : Rule) : Rule :=
  { lhs := r.lhs,
    nodes := (List.range r.nodes.length).map (fun w => r.nodes[(σ.idxOf w)]?.getD 0),
    ext := r.ext.map (fun v => σ[v]?.getD 0),
    edges := r.edges.map (fun e => (e.1, e.2.map (fun v => σ[v]?.getD 0))) }

/-- **renumbering the nodes of a rule does not change its value** -/
theorem ruleCell_renumber (S : SR K) (hS : C01.SRLaws S) (G : Grammar K) (x : Val K) (r : Rule)
    (σ : List Nat) (hσ : σ.Perm (List.range r.nodes.length))
    (hext : ∀ v ∈ r.ext, v < r.nodes.length) (hatt : ∀ e ∈ r.edges, ∀ v ∈ e.2, v < r.nodes.length) (a : List Nat) :
    ruleCell S G x (renumber σ r) a = ruleCell S G x r a := by
  obtain ⟨lhs, nodes, ext, edges⟩ := r
  simp only at hσ hext hatt
  have hlen : σ.length = nodes.length := by simpa using hσ.length_eq
  have hnd : σ.Nodup := hσ.nodup_iff.2 List.nodup_range
  have hmem : ∀ w, w ∈ σ ↔ w < nodes.length := fun w => by rw [hσ.mem_iff, List.mem_range]
  have hs : ∀ v < nodes.length, σ[v]?.getD 0 < nodes.length ∧ σ.idxOf (σ[v]?.getD 0) = v := by
    intro v hv
    have hv' : v < σ.length := by omega
    rw [List.getElem?_eq_getElem hv', Option.getD_some]
    exact ⟨(hmem _).1 (List.getElem_mem hv'), hnd.idxOf_getElem v hv'⟩
  have ht : ∀ w < nodes.length, σ.idxOf w < nodes.length ∧ σ[σ.idxOf w]?.getD 0 = w := by
    intro w hw
    have h1 : σ.idxOf w < σ.length := List.idxOf_lt_length_iff.2 ((hmem w).2 hw)
    rw [List.getElem?_eq_getElem h1, Option.getD_some, List.getElem_idxOf h1]
    exact ⟨by omega, rfl⟩
  have hperm := assigns_reindex nodes.length (fun v => G.dom (nodes[v]?.getD 0))
    (fun v => σ[v]?.getD 0) (fun w => σ.idxOf w) hs ht
  unfold ruleCell renumber
  simp only
  rw [shapeOf_eq_range G nodes, shapeOf_eq_range G (List.map _ _)]
  simp only [List.length_map, List.length_range]
  have hD : (List.range nodes.length).map (fun v =>
        G.dom (((List.range nodes.length).map (fun w => nodes[σ.idxOf w]?.getD 0))[v]?.getD 0)) =
      (List.range nodes.length).map (fun w => G.dom (nodes[σ.idxOf w]?.getD 0)) := by
    apply List.map_congr_left
    intro v hv
    rw [getD_map_range _ _ _ (List.mem_range.1 hv)]
  rw [hD]
  rw [sum_perm S hS _ _ ((hperm.filter _).map _), List.filter_map, List.map_map]
  have key : ∀ ρ ∈ assigns ((List.range nodes.length).map (fun v => G.dom (nodes[v]?.getD 0))),
      ∀ att : List Nat, (∀ v ∈ att, v < nodes.length) →
      (att.map (fun v => σ[v]?.getD 0)).map
        (fun v => ((List.range nodes.length).map (fun w => ρ[σ.idxOf w]?.getD 0))[v]?.getD 0) =
      att.map (fun v => ρ[v]?.getD 0) := by
    intro ρ _ att hatt'
    rw [List.map_map]
    apply List.map_congr_left
    intro v hv
    have hv' := hatt' v hv
    simp only [Function.comp_def]
    rw [getD_map_range _ _ _ (hs v hv').1, (hs v hv').2]
  have hfilt : List.filter ((fun ρ => List.map (fun v => ρ[v]?.getD 0) (List.map (fun v => σ[v]?.getD 0) ext) == a) ∘
        fun ρ => (List.range nodes.length).map (fun w => ρ[σ.idxOf w]?.getD 0))
      (assigns ((List.range nodes.length).map (fun v => G.dom (nodes[v]?.getD 0)))) =
      List.filter (fun ρ => List.map (fun v => ρ[v]?.getD 0) ext == a)
      (assigns ((List.range nodes.length).map (fun v => G.dom (nodes[v]?.getD 0)))) := by
    apply List.filter_congr
    intro ρ hρ
    simp only [Function.comp_def]
    rw [key ρ hρ ext hext]
  rw [hfilt]
  congr 1
  apply List.map_congr_left
  intro ρ hρ
  have hρ' := (List.mem_filter.1 hρ).1
  simp only [Function.comp_def, List.map_map]
  congr 1
  apply List.map_congr_left
  intro e he
  have := key ρ hρ' e.2 (hatt e he)
  rw [List.map_map] at this
  simp only [Function.comp_def] at this
  rw [this]

end C12
