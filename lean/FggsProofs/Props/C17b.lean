/-
C17, stage 2 — Conjunction: the derivations of `conjoin h1 h2` correspond one-to-one to the matched pairs
of derivations of `h1` and `h2`.

Theorems about `Fggs.Cj` (FggsModel/Conj.lean), the model of fggs/conjunction.py.  The rule-level lemmas
(`C17b.Setup`, `C17b.RuleCorr`, `C17b.idxPairs`, `C17b.tr`) are in FggsProofs/C17bLemmas.lean.
-/
import FggsModel.Conj
import FggsProofs.Props.C17
import FggsProofs.C17bLemmas
import Mathlib.Data.Set.Function

set_option linter.unusedSimpArgs false
set_option linter.unusedVariables false
set_option linter.unnecessarySeqFocus false

namespace C17b
open Fggs Fggs.Cj

/-! ### derivations -/

/-- a derivation tree: index of the rule used (into the grammar's rule list), one sub-derivation per
nonterminal edge of that rule, keyed by the edge id -/
inductive Deriv where
  | node (rule : Nat) (kids : List (Cj.Id × Deriv))

instance : Inhabited Deriv := ⟨.node 0 []⟩

/-- `IsDeriv rules X d`: `d` is a (finite) derivation from the nonterminal label `X` using the rule list
`rules`: the root uses `rules[i]`, whose lhs is `X`; it has exactly one kid per nonterminal edge of that rule,
in the edge order of the rule, keyed by the edge's id; and each kid is a derivation from its edge's label. -/
inductive IsDeriv (rules : List Rule) : Label → Deriv → Prop
  | node (i : Nat) (r : Rule) (kids : List (Cj.Id × Deriv)) :
      rules[i]? = some r →
      kids.length = (ntEdges r).length →
      (∀ p ∈ (ntEdges r).zip kids, p.2.1 = p.1.id) →
      (∀ p ∈ (ntEdges r).zip kids, IsDeriv rules p.1.label p.2.2) →
      IsDeriv rules r.lhs (.node i kids)

/-- `(d1, d2)` is a matched pair: the rules at the roots are conjoinable, and kids with the same edge id are
matched, recursively -/
inductive Matched (rs1 rs2 : List Rule) : Deriv → Deriv → Prop
  | node (i j : Nat) (r1 r2 : Rule) (kids1 kids2 : List (Cj.Id × Deriv)) :
      rs1[i]? = some r1 → rs2[j]? = some r2 → conjoinable r1 r2 = true →
      (∀ p1 ∈ kids1, ∀ p2 ∈ kids2, p1.1 = p2.1 → Matched rs1 rs2 p1.2 p2.2) →
      Matched rs1 rs2 (.node i kids1) (.node j kids2)

/-- the kid stored under key `x` (a default tree if there is none) -/
def lookupD {β : Type} [Inhabited β] (x : Cj.Id) (l : List (Cj.Id × β)) : β := (l.lookup x).getD default

mutual
/-- **split** a derivation of the conjunction into a derivation of each grammar: the root rule `k` goes to the
rules `(i, j) = (idxPairs h1.rules h2.rules)[k]` it was conjoined from; the kid of `h1`'s (`h2`'s) tree at the
nonterminal edge with id `x` is the first (second) half of the split kid stored under the paired edge's id `tr x` -/
def split (h1 h2 : HRG) : Deriv → Deriv × Deriv
  | .node k kids =>
    let ij := ((idxPairs h1.rules h2.rules)[k]?).getD (0, 0)
    let sk := splitKids h1 h2 kids
    (.node ij.1 ((ntEdges (getR h1.rules ij.1)).map fun e => (e.id, (lookupD (tr e.id) sk).1)),
     .node ij.2 ((ntEdges (getR h2.rules ij.2)).map fun e => (e.id, (lookupD (tr e.id) sk).2)))
def splitKids (h1 h2 : HRG) : List (Cj.Id × Deriv) → List (Cj.Id × (Deriv × Deriv))
  | [] => []
  | (x, d) :: t => (x, split h1 h2 d) :: splitKids h1 h2 t
end

mutual
/-- **join** a pair of derivations into a derivation of the conjunction (`rules`): roots `i`, `j` go to the
position of `(i, j)` in `idxPairs`; the kid at the paired edge with id `tr x` is the join of the two kids stored
under `x` -/
def join (h1 h2 : HRG) (rules : List Rule) : Deriv → Deriv → Deriv
  | .node i kids1, .node j kids2 =>
    let k := (idxPairs h1.rules h2.rules).idxOf (i, j)
    let jk := joinKids h1 h2 rules kids1 kids2
    .node k ((ntEdges (getR rules k)).map fun e => (e.id, lookupD e.id jk))
def joinKids (h1 h2 : HRG) (rules : List Rule) : List (Cj.Id × Deriv) → List (Cj.Id × Deriv) → List (Cj.Id × Deriv)
  | [], _ => []
  | (x, d) :: t, kids2 => (tr x, join h1 h2 rules d (lookupD x kids2)) :: joinKids h1 h2 rules t kids2
end

/-- the derivations of a grammar from a label -/
def Derivs (rules : List Rule) (X : Label) : Set Deriv := {d | IsDeriv rules X d}

/-- the matched pairs of derivations of `h1` and `h2` (from their start symbols) -/
def MatchedPairs (h1 h2 : HRG) : Set (Deriv × Deriv) :=
  {p | IsDeriv h1.rules h1.start p.1 ∧ IsDeriv h2.rules h2.start p.2 ∧ Matched h1.rules h2.rules p.1 p.2}

/-! ### list helpers -/

private theorem splitKids_eq (h1 h2 : HRG) (kids : List (Cj.Id × Deriv)) :
    splitKids h1 h2 kids = kids.map fun p => (p.1, split h1 h2 p.2) := by
  induction kids with
  | nil => simp [splitKids]
  | cons p t ih => obtain ⟨x, d⟩ := p; simp [splitKids, ih]

private theorem joinKids_eq (h1 h2 : HRG) (rules : List Rule) (kids1 kids2 : List (Cj.Id × Deriv)) :
    joinKids h1 h2 rules kids1 kids2 = kids1.map fun p => (tr p.1, join h1 h2 rules p.2 (lookupD p.1 kids2)) := by
  induction kids1 with
  | nil => simp [joinKids]
  | cons p t ih => obtain ⟨x, d⟩ := p; simp [joinKids, ih]

private theorem lookupD_map {α β : Type} [Inhabited β] (key : α → Cj.Id) (f : α → β) :
    ∀ (l : List α), (l.map key).Nodup → ∀ a ∈ l, lookupD (key a) (l.map fun a => (key a, f a)) = f a := by
  intro l
  induction l with
  | nil => intro _ a ha; cases ha
  | cons b l ih =>
    intro hnd a ha
    rw [List.map_cons, List.nodup_cons] at hnd
    rcases List.mem_cons.1 ha with rfl | ha'
    · simp [lookupD, List.lookup_cons]
    · have hne : key a ≠ key b := by
        rintro h
        exact hnd.1 (h ▸ List.mem_map.2 ⟨a, ha', rfl⟩)
      have := ih hnd.2 a ha'
      simp only [lookupD, List.map_cons, List.lookup_cons] at this ⊢
      rw [show (key a == key b) = false from by simpa using hne]
      exact this

private theorem lookupD_of_mem {β : Type} [Inhabited β] {l : List (Cj.Id × β)} (hnd : (l.map (·.1)).Nodup)
    {q : Cj.Id × β} (hq : q ∈ l) : lookupD q.1 l = q.2 := by
  have := lookupD_map (fun p : Cj.Id × β => p.1) (fun p => p.2) l hnd q hq
  simpa using this

private theorem zip_partner_left {α β : Type} {l1 : List α} {l2 : List β} (h : l2.length = l1.length) {a : α}
    (ha : a ∈ l1) : ∃ b, (a, b) ∈ l1.zip l2 := by
  have hfst : (l1.zip l2).map Prod.fst = l1 := List.map_fst_zip (le_of_eq h.symm)
  rw [← hfst, List.mem_map] at ha
  obtain ⟨p, hp, rfl⟩ := ha
  exact ⟨p.2, hp⟩

private theorem zip_partner_right {α β : Type} {l1 : List α} {l2 : List β} (h : l2.length = l1.length) {b : β}
    (hb : b ∈ l2) : ∃ a, (a, b) ∈ l1.zip l2 := by
  have hsnd : (l1.zip l2).map Prod.snd = l2 := List.map_snd_zip (le_of_eq h)
  rw [← hsnd, List.mem_map] at hb
  obtain ⟨p, hp, rfl⟩ := hb
  exact ⟨p.1, hp⟩

private theorem map_eq_of_zip {α β : Type} (F : α → β) : ∀ (l1 : List α) (l2 : List β), l2.length = l1.length →
    (∀ p ∈ l1.zip l2, p.2 = F p.1) → l1.map F = l2 := by
  intro l1
  induction l1 with
  | nil => intro l2 h _; cases l2 with | nil => rfl | cons _ _ => simp at h
  | cons a l1 ih =>
    intro l2 h hz
    cases l2 with
    | nil => simp at h
    | cons b l2 =>
      have hb : b = F a := hz (a, b) (by simp)
      rw [List.map_cons, ih l2 (by simpa using h) (fun p hp => hz p (by simp [hp])), hb]

private theorem kids_keys {es : List Edge} {kids : List (Cj.Id × Deriv)} (hlen : kids.length = es.length)
    (hids : ∀ p ∈ es.zip kids, p.2.1 = p.1.id) : kids.map (·.1) = es.map (·.id) := by
  have hsnd : (es.zip kids).map Prod.snd = kids := List.map_snd_zip (le_of_eq hlen)
  have hfst : (es.zip kids).map Prod.fst = es := List.map_fst_zip (le_of_eq hlen.symm)
  rw [← hsnd]
  conv_rhs => rw [← hfst]
  rw [List.map_map, List.map_map]
  apply List.map_congr_left
  intro p hp
  exact hids p hp

private theorem isDeriv_map {rules : List Rule} {i : Nat} {r : Rule} (hr : rules[i]? = some r)
    (f : Edge → Deriv) (hf : ∀ e ∈ ntEdges r, IsDeriv rules e.label (f e)) :
    IsDeriv rules r.lhs (.node i ((ntEdges r).map fun e => (e.id, f e))) := by
  have hz : (ntEdges r).zip ((ntEdges r).map fun e => (e.id, f e))
      = (ntEdges r).map fun e => (e, (e.id, f e)) := by
    have := List.zip_map' (f := fun e : Edge => e) (g := fun e : Edge => (e.id, f e)) (l := ntEdges r)
    simpa using this
  refine IsDeriv.node i r _ hr (by simp) ?_ ?_
  · intro p hp
    rw [hz, List.mem_map] at hp
    obtain ⟨e, _, rfl⟩ := hp
    rfl
  · intro p hp
    rw [hz, List.mem_map] at hp
    obtain ⟨e, he, rfl⟩ := hp
    exact hf e he

private theorem mem_ids {es : List Edge} {x : Cj.Id} (h : x ∈ es.map (·.id)) : ∃ e ∈ es, e.id = x := by
  simpa [List.mem_map] using h

private theorem ids_mem {es : List Edge} {e : Edge} (h : e ∈ es) : e.id ∈ es.map (·.id) :=
  List.mem_map.2 ⟨e, h, rfl⟩

/-! ### `split` is well defined and `join` undoes it -/

private theorem split_node (h1 h2 : HRG) (k : Nat) (kids : List (Cj.Id × Deriv)) {i j : Nat} {r1 r2 : Rule}
    (hij : (idxPairs h1.rules h2.rules)[k]? = some (i, j))
    (hr1 : h1.rules[i]? = some r1) (hr2 : h2.rules[j]? = some r2) :
    split h1 h2 (.node k kids) =
      (.node i ((ntEdges r1).map fun e => (e.id, (lookupD (tr e.id) (splitKids h1 h2 kids)).1)),
       .node j ((ntEdges r2).map fun e => (e.id, (lookupD (tr e.id) (splitKids h1 h2 kids)).2))) := by
  rw [split]
  simp only [hij, Option.getD_some, getR_of_get? hr1, getR_of_get? hr2]

private theorem join_node (h1 h2 : HRG) (rules : List Rule) (i j : Nat) (kids1 kids2 : List (Cj.Id × Deriv))
    {k : Nat} {r : Rule} (hk : (idxPairs h1.rules h2.rules).idxOf (i, j) = k) (hr : rules[k]? = some r) :
    join h1 h2 rules (.node i kids1) (.node j kids2) =
      .node k ((ntEdges r).map fun e => (e.id, lookupD e.id (joinKids h1 h2 rules kids1 kids2))) := by
  rw [join]
  simp only [hk, getR_of_get? hr]

private theorem split_spec {h1 h2 : HRG} {start : Label} {rules : List Rule} (S : Setup h1 h2 start rules)
    {X : Label} {d : Deriv} (hd : IsDeriv rules X d) :
    ∀ a b, ntGet (ntPairs h1 h2) a b = some X →
      IsDeriv h1.rules a (split h1 h2 d).1 ∧ IsDeriv h2.rules b (split h1 h2 d).2 ∧
      Matched h1.rules h2.rules (split h1 h2 d).1 (split h1 h2 d).2 ∧
      join h1 h2 rules (split h1 h2 d).1 (split h1 h2 d).2 = d := by
  induction hd with
  | node k r kids hr hlen hids hder ih =>
    intro a b hab
    have hk : k < (idxPairs h1.rules h2.rules).length := by
      rw [← S.len]; exact (List.getElem?_eq_some_iff.1 hr).1
    obtain ⟨⟨i, j⟩, hij⟩ : ∃ ij, (idxPairs h1.rules h2.rules)[k]? = some ij :=
      ⟨_, List.getElem?_eq_getElem hk⟩
    obtain ⟨r1, r2, r', hr1, hr2, hr', hcj, RC⟩ := S.at_idx k i j hij
    have hrr : r' = r := by rw [hr] at hr'; exact (Option.some.inj hr').symm
    subst hrr
    obtain ⟨rfl, rfl⟩ := S.inj hab RC.lhs
    have hkeys : kids.map (·.1) = (ntEdges r').map (·.id) := kids_keys hlen hids
    have hkd : (kids.map (·.1)).Nodup := hkeys ▸ RC.nd
    -- what the kid stored under `tr e1.id` is
    have key : ∀ p ∈ (ntEdges r').zip kids, ∀ e1 ∈ ntEdges r1, ∀ e2 ∈ ntEdges r2, e1.id = e2.id →
        p.1.id = tr e1.id →
        ntGet (ntPairs h1 h2) e1.label e2.label = some p.1.label ∧
        lookupD (tr e1.id) (splitKids h1 h2 kids) = split h1 h2 p.2.2 := by
      intro p hp e1 he1 e2 he2 h12 hpe
      refine ⟨RC.lab e1 he1 e2 he2 p.1 (List.of_mem_zip hp).1 h12 hpe, ?_⟩
      rw [splitKids_eq, ← hpe, ← hids p hp]
      exact lookupD_map (fun q : Cj.Id × Deriv => q.1) (fun q => split h1 h2 q.2) kids hkd p.2
        (List.of_mem_zip hp).2
    -- existence of that kid
    have ex : ∀ e1 ∈ ntEdges r1, ∃ p ∈ (ntEdges r').zip kids, p.1.id = tr e1.id := by
      intro e1 he1
      obtain ⟨e, he, hee⟩ := mem_ids ((RC.ids (tr e1.id)).2 ⟨e1.id, ids_mem he1, rfl⟩)
      obtain ⟨q, hq⟩ := zip_partner_left hlen he
      exact ⟨(e, q), hq, hee⟩
    rw [split_node h1 h2 k kids hij hr1 hr2]
    refine ⟨?_, ?_, ?_, ?_⟩
    · refine isDeriv_map hr1 _ (fun e1 he1 => ?_)
      obtain ⟨e2, he2, h21⟩ := mem_ids ((RC.ids12 e1.id).1 (ids_mem he1))
      obtain ⟨p, hp, hpe⟩ := ex e1 he1
      obtain ⟨hg, hl⟩ := key p hp e1 he1 e2 he2 h21.symm hpe
      rw [hl]
      exact (ih p hp _ _ hg).1
    · refine isDeriv_map hr2 _ (fun e2 he2 => ?_)
      obtain ⟨e1, he1, h12⟩ := mem_ids ((RC.ids12 e2.id).2 (ids_mem he2))
      obtain ⟨p, hp, hpe⟩ := ex e1 he1
      obtain ⟨hg, hl⟩ := key p hp e1 he1 e2 he2 h12 hpe
      rw [← h12, hl]
      exact (ih p hp _ _ hg).2.1
    · refine Matched.node i j r1 r2 _ _ hr1 hr2 hcj ?_
      intro p1 hp1 p2 hp2 h12
      rw [List.mem_map] at hp1 hp2
      obtain ⟨e1, he1, rfl⟩ := hp1
      obtain ⟨e2, he2, rfl⟩ := hp2
      have h12' : e1.id = e2.id := h12
      obtain ⟨p, hp, hpe⟩ := ex e1 he1
      obtain ⟨hg, hl⟩ := key p hp e1 he1 e2 he2 h12' hpe
      show Matched _ _ (lookupD (tr e1.id) (splitKids h1 h2 kids)).1 (lookupD (tr e2.id) (splitKids h1 h2 kids)).2
      rw [← h12', hl]
      exact (ih p hp _ _ hg).2.2.1
    · have hidx : (idxPairs h1.rules h2.rules).idxOf (i, j) = k := by
        have := S.nodup.idxOf_getElem k hk
        rwa [(List.getElem?_eq_some_iff.1 hij).2] at this
      rw [join_node h1 h2 rules i j _ _ hidx hr]
      congr 1
      apply map_eq_of_zip _ _ _ hlen
      intro p hp
      obtain ⟨x, hx, hpx⟩ := (RC.ids p.1.id).1 (ids_mem (List.of_mem_zip hp).1)
      obtain ⟨e1, he1, rfl⟩ := mem_ids hx
      obtain ⟨e2, he2, h21⟩ := mem_ids ((RC.ids12 e1.id).1 (ids_mem he1))
      obtain ⟨hg, hl⟩ := key p hp e1 he1 e2 he2 h21.symm hpx
      have hl2 : lookupD (tr e2.id) (splitKids h1 h2 kids) = split h1 h2 p.2.2 := by rw [h21, hl]
      -- the joined kid under `tr e1.id`
      have hj : lookupD p.1.id (joinKids h1 h2 rules
            ((ntEdges r1).map fun e => (e.id, (lookupD (tr e.id) (splitKids h1 h2 kids)).1))
            ((ntEdges r2).map fun e => (e.id, (lookupD (tr e.id) (splitKids h1 h2 kids)).2)))
          = p.2.2 := by
        rw [joinKids_eq, List.map_map, hpx]
        have hnd : ((ntEdges r1).map (fun e => tr e.id)).Nodup := by
          have := RC.nd1.map tr_injective
          rwa [List.map_map] at this
        have := lookupD_map (fun e : Edge => tr e.id)
          (fun e : Edge => join h1 h2 rules (lookupD (tr e.id) (splitKids h1 h2 kids)).1
            (lookupD e.id ((ntEdges r2).map fun e => (e.id, (lookupD (tr e.id) (splitKids h1 h2 kids)).2))))
          (ntEdges r1) hnd e1 he1
        refine Eq.trans this ?_
        have hh2 := lookupD_map (fun e : Edge => e.id)
          (fun e : Edge => (lookupD (tr e.id) (splitKids h1 h2 kids)).2) (ntEdges r2) RC.nd2 e2 he2
        rw [← h21, hh2, hl2]
        exact (ih p hp _ _ hg).2.2.2
      rw [hj, ← hids p hp]

/-! ### `join` is well defined and `split` undoes it -/

private theorem join_spec {h1 h2 : HRG} {start : Label} {rules : List Rule} (S : Setup h1 h2 start rules)
    {a : Label} {d1 : Deriv} (hd1 : IsDeriv h1.rules a d1) :
    ∀ b d2, IsDeriv h2.rules b d2 → Matched h1.rules h2.rules d1 d2 →
      ∀ X, ntGet (ntPairs h1 h2) a b = some X →
        IsDeriv rules X (join h1 h2 rules d1 d2) ∧ split h1 h2 (join h1 h2 rules d1 d2) = (d1, d2) := by
  induction hd1 with
  | node i r1 kids1 hr1 hlen1 hids1 hder1 ih =>
    intro b d2 hd2 hm X hX
    cases hd2 with
    | node j r2 kids2 hr2 hlen2 hids2 hder2 =>
    cases hm with
    | node _ _ r1' r2' _ _ hr1' hr2' hcj hkm =>
    have e1' : r1' = r1 := by rw [hr1] at hr1'; exact (Option.some.inj hr1').symm
    have e2' : r2' = r2 := by rw [hr2] at hr2'; exact (Option.some.inj hr2').symm
    subst e1' e2'
    have hmem := S.mem_idx i j r1' r2' hr1 hr2 hcj
    obtain ⟨k, hkdef⟩ : ∃ k, (idxPairs h1.rules h2.rules).idxOf (i, j) = k := ⟨_, rfl⟩
    have hk : k < (idxPairs h1.rules h2.rules).length := hkdef ▸ List.idxOf_lt_length_iff.2 hmem
    have hij : (idxPairs h1.rules h2.rules)[k]? = some (i, j) := by
      rw [List.getElem?_eq_getElem hk]
      subst hkdef
      rw [List.getElem_idxOf hk]
    obtain ⟨r1'', r2'', r, hr1'', hr2'', hr, _, RC⟩ := S.at_idx k i j hij
    have e1'' : r1'' = r1' := by rw [hr1] at hr1''; exact (Option.some.inj hr1'').symm
    have e2'' : r2'' = r2' := by rw [hr2] at hr2''; exact (Option.some.inj hr2'').symm
    subst e1'' e2''
    have hXr : X = r.lhs := by
      have := RC.lhs; rw [hX] at this; exact Option.some.inj this
    subst hXr
    have hkeys1 : kids1.map (·.1) = (ntEdges r1'').map (·.id) := kids_keys hlen1 hids1
    have hkeys2 : kids2.map (·.1) = (ntEdges r2'').map (·.id) := kids_keys hlen2 hids2
    have hkd1 : (kids1.map (·.1)).Nodup := hkeys1 ▸ RC.nd1
    have hkd2 : (kids2.map (·.1)).Nodup := hkeys2 ▸ RC.nd2
    -- the kid of the join at the paired edge
    have key : ∀ e ∈ ntEdges r, ∀ p1 ∈ (ntEdges r1'').zip kids1, ∀ p2 ∈ (ntEdges r2'').zip kids2,
        p1.1.id = p2.1.id → e.id = tr p1.1.id →
        ntGet (ntPairs h1 h2) p1.1.label p2.1.label = some e.label ∧
        lookupD e.id (joinKids h1 h2 rules kids1 kids2) = join h1 h2 rules p1.2.2 p2.2.2 := by
      intro e he p1 hp1 p2 hp2 h12 hee
      refine ⟨RC.lab p1.1 (List.of_mem_zip hp1).1 p2.1 (List.of_mem_zip hp2).1 e he h12 hee, ?_⟩
      rw [joinKids_eq, hee, ← hids1 p1 hp1]
      have hnd : (kids1.map (fun q => tr q.1)).Nodup := by
        have := hkd1.map tr_injective
        rwa [List.map_map] at this
      have := lookupD_map (fun q : Cj.Id × Deriv => tr q.1)
        (fun q => join h1 h2 rules q.2 (lookupD q.1 kids2)) kids1 hnd p1.2 (List.of_mem_zip hp1).2
      refine Eq.trans this ?_
      have hl2 : lookupD p1.2.1 kids2 = p2.2.2 := by
        rw [hids1 p1 hp1, h12, ← hids2 p2 hp2]
        exact lookupD_of_mem hkd2 (List.of_mem_zip hp2).2
      rw [hl2]
    -- partners
    have ex : ∀ e ∈ ntEdges r, ∃ p1 ∈ (ntEdges r1'').zip kids1, ∃ p2 ∈ (ntEdges r2'').zip kids2,
        p1.1.id = p2.1.id ∧ e.id = tr p1.1.id := by
      intro e he
      obtain ⟨x, hx, hex⟩ := (RC.ids e.id).1 (ids_mem he)
      obtain ⟨e1, he1, rfl⟩ := mem_ids hx
      obtain ⟨e2, he2, h21⟩ := mem_ids ((RC.ids12 e1.id).1 hx)
      obtain ⟨q1, hq1⟩ := zip_partner_left hlen1 he1
      obtain ⟨q2, hq2⟩ := zip_partner_left hlen2 he2
      exact ⟨(e1, q1), hq1, (e2, q2), hq2, h21.symm, hex⟩
    have hmatch : ∀ p1 ∈ (ntEdges r1'').zip kids1, ∀ p2 ∈ (ntEdges r2'').zip kids2, p1.1.id = p2.1.id →
        Matched h1.rules h2.rules p1.2.2 p2.2.2 := by
      intro p1 hp1 p2 hp2 h12
      exact hkm p1.2 (List.of_mem_zip hp1).2 p2.2 (List.of_mem_zip hp2).2
        (by rw [hids1 p1 hp1, hids2 p2 hp2, h12])
    rw [join_node h1 h2 rules i j kids1 kids2 hkdef hr]
    constructor
    · refine isDeriv_map hr _ (fun e he => ?_)
      obtain ⟨p1, hp1, p2, hp2, h12, hee⟩ := ex e he
      obtain ⟨hg, hl⟩ := key e he p1 hp1 p2 hp2 h12 hee
      rw [hl]
      exact (ih p1 hp1 _ _ (hder2 p2 hp2) (hmatch p1 hp1 p2 hp2 h12) _ hg).1
    · rw [split_node h1 h2 k _ hij hr1 hr2, splitKids_eq, List.map_map]
      -- the split kid stored under `e.id`
      have hs : ∀ e ∈ ntEdges r, ∀ p1 ∈ (ntEdges r1'').zip kids1, ∀ p2 ∈ (ntEdges r2'').zip kids2,
          p1.1.id = p2.1.id → e.id = tr p1.1.id →
          lookupD (tr p1.1.id) ((ntEdges r).map
            ((fun p : Cj.Id × Deriv => (p.1, split h1 h2 p.2)) ∘
              fun e => (e.id, lookupD e.id (joinKids h1 h2 rules kids1 kids2)))) = (p1.2.2, p2.2.2) := by
        intro e he p1 hp1 p2 hp2 h12 hee
        obtain ⟨hg, hl⟩ := key e he p1 hp1 p2 hp2 h12 hee
        have := lookupD_map (fun e : Edge => e.id)
          (fun e : Edge => split h1 h2 (lookupD e.id (joinKids h1 h2 rules kids1 kids2))) (ntEdges r) RC.nd e he
        rw [← hee]
        refine Eq.trans this ?_
        rw [hl]
        exact (ih p1 hp1 _ _ (hder2 p2 hp2) (hmatch p1 hp1 p2 hp2 h12) _ hg).2
      congr 1
      · congr 1
        apply map_eq_of_zip _ _ _ hlen1
        intro p1 hp1
        obtain ⟨e, he, hee⟩ := mem_ids ((RC.ids (tr p1.1.id)).2 ⟨p1.1.id, ids_mem (List.of_mem_zip hp1).1, rfl⟩)
        obtain ⟨e2, he2, h21⟩ := mem_ids ((RC.ids12 p1.1.id).1 (ids_mem (List.of_mem_zip hp1).1))
        obtain ⟨q2, hq2⟩ := zip_partner_left hlen2 he2
        rw [hs e he p1 hp1 (e2, q2) hq2 h21.symm hee, ← hids1 p1 hp1]
      · congr 1
        apply map_eq_of_zip _ _ _ hlen2
        intro p2 hp2
        obtain ⟨e1, he1, h12⟩ := mem_ids ((RC.ids12 p2.1.id).2 (ids_mem (List.of_mem_zip hp2).1))
        obtain ⟨q1, hq1⟩ := zip_partner_left hlen1 he1
        obtain ⟨e, he, hee⟩ := mem_ids ((RC.ids (tr e1.id)).2 ⟨e1.id, ids_mem he1, rfl⟩)
        have := hs e he (e1, q1) hq1 p2 hp2 h12 hee
        rw [← h12, this]
        exact Prod.ext ((hids2 p2 hp2).trans h12.symm) rfl

/-! ### the property -/

variable {h1 h2 : HRG} {start : Label} {rules : List Rule}

/-- **`split` is well defined**: it maps every derivation of the conjunction (from its start symbol) to a
matched pair of derivations of the two grammars (from their start symbols) -/
theorem split_mapsTo (hw1 : wfHRG h1 = true) (hw2 : wfHRG h2 = true)
    (hc : conjoin h1 h2 = .ok (start, rules)) :
    Set.MapsTo (split h1 h2) (Derivs rules start) (MatchedPairs h1 h2) := by
  have S := setup_of_conjoin h1 h2 start rules hw1 hw2 hc
  intro d hd
  obtain ⟨a1, a2, a3, _⟩ := split_spec S hd _ _ S.start_eq
  exact ⟨a1, a2, a3⟩

/-- **`join` is well defined**: it maps every matched pair of derivations to a derivation of the conjunction -/
theorem join_mapsTo (hw1 : wfHRG h1 = true) (hw2 : wfHRG h2 = true)
    (hc : conjoin h1 h2 = .ok (start, rules)) :
    Set.MapsTo (fun p : Deriv × Deriv => join h1 h2 rules p.1 p.2) (MatchedPairs h1 h2) (Derivs rules start) := by
  have S := setup_of_conjoin h1 h2 start rules hw1 hw2 hc
  rintro ⟨d1, d2⟩ ⟨hd1, hd2, hm⟩
  exact (join_spec S hd1 _ _ hd2 hm _ S.start_eq).1

/-- `join` after `split` is the identity on the derivations of the conjunction -/
theorem join_split (hw1 : wfHRG h1 = true) (hw2 : wfHRG h2 = true)
    (hc : conjoin h1 h2 = .ok (start, rules)) (d : Deriv) (hd : IsDeriv rules start d) :
    join h1 h2 rules (split h1 h2 d).1 (split h1 h2 d).2 = d := by
  have S := setup_of_conjoin h1 h2 start rules hw1 hw2 hc
  exact (split_spec S hd _ _ S.start_eq).2.2.2

/-- `split` after `join` is the identity on matched pairs -/
theorem split_join (hw1 : wfHRG h1 = true) (hw2 : wfHRG h2 = true)
    (hc : conjoin h1 h2 = .ok (start, rules)) (d1 d2 : Deriv)
    (hd1 : IsDeriv h1.rules h1.start d1) (hd2 : IsDeriv h2.rules h2.start d2)
    (hm : Matched h1.rules h2.rules d1 d2) :
    split h1 h2 (join h1 h2 rules d1 d2) = (d1, d2) := by
  have S := setup_of_conjoin h1 h2 start rules hw1 hw2 hc
  exact (join_spec S hd1 _ _ hd2 hm _ S.start_eq).2

/-- **injective**: different derivations of the conjunction split into different pairs -/
theorem split_injective (hw1 : wfHRG h1 = true) (hw2 : wfHRG h2 = true)
    (hc : conjoin h1 h2 = .ok (start, rules)) :
    Set.InjOn (split h1 h2) (Derivs rules start) := by
  intro d hd d' hd' h
  rw [← join_split hw1 hw2 hc d hd, ← join_split hw1 hw2 hc d' hd', h]

/-- **surjective**: every matched pair of derivations is the split of a derivation of the conjunction -/
theorem split_surjective (hw1 : wfHRG h1 = true) (hw2 : wfHRG h2 = true)
    (hc : conjoin h1 h2 = .ok (start, rules)) :
    Set.SurjOn (split h1 h2) (Derivs rules start) (MatchedPairs h1 h2) := by
  rintro ⟨d1, d2⟩ hp
  exact ⟨join h1 h2 rules d1 d2, join_mapsTo hw1 hw2 hc hp, split_join hw1 hw2 hc d1 d2 hp.1 hp.2.1 hp.2.2⟩

/-- **C17 (derivation correspondence)**: if `conjoin h1 h2` succeeds with start symbol `start` and rule list
`rules`, then `split h1 h2` is a bijection from the derivations of the conjunction onto the matched pairs of
derivations of `h1` and `h2`, with inverse `join h1 h2 rules` -/
theorem conjoin_derivations_bijection (hw1 : wfHRG h1 = true) (hw2 : wfHRG h2 = true)
    (hc : conjoin h1 h2 = .ok (start, rules)) :
    Set.BijOn (split h1 h2) (Derivs rules start) (MatchedPairs h1 h2) ∧
    Set.InvOn (fun p : Deriv × Deriv => join h1 h2 rules p.1 p.2) (split h1 h2)
      (Derivs rules start) (MatchedPairs h1 h2) :=
  ⟨⟨split_mapsTo hw1 hw2 hc, split_injective hw1 hw2 hc, split_surjective hw1 hw2 hc⟩,
   fun d hd => join_split hw1 hw2 hc d hd,
   fun p hp => split_join hw1 hw2 hc p.1 p.2 hp.1 hp.2.1 hp.2.2⟩

/-- **what `split` does at one step** (so the bijection is the intended, shape-preserving one): a derivation of
the conjunction whose root uses rule `k` is split into derivations whose roots use `h1.rules[i]` and
`h2.rules[j]`, where `(r1, r2) = (h1.rules[i], h2.rules[j])` is the `k`-th pair in the list of conjoinable pairs
that `conjoin` runs over and `rules[k] = conjoinRules … r1 r2`; the kids of the two roots are keyed by the
nonterminal edge ids of `r1` and `r2`, and the kid of the conjunction stored under the paired edge's id `tr x`
splits into the kids stored under `x` -/
theorem split_step (hw1 : wfHRG h1 = true) (hw2 : wfHRG h2 = true)
    (hc : conjoin h1 h2 = .ok (start, rules)) {X : Label} {k : Nat} {kids : List (Cj.Id × Deriv)}
    (hd : IsDeriv rules X (.node k kids)) :
    ∃ (i j : Nat) (r1 r2 r : Rule) (kids1 kids2 : List (Cj.Id × Deriv)),
      split h1 h2 (.node k kids) = (.node i kids1, .node j kids2) ∧
      (h1.rules.flatMap (fun r1 => (h2.rules.filter (conjoinable r1 ·)).map (fun r2 => (r1, r2))))[k]?
        = some (r1, r2) ∧
      h1.rules[i]? = some r1 ∧ h2.rules[j]? = some r2 ∧ rules[k]? = some r ∧
      conjoinable r1 r2 = true ∧ conjoinRules (ntPairs h1 h2) r1 r2 = .ok r ∧
      kids1.map (·.1) = (ntEdges r1).map (·.id) ∧ kids2.map (·.1) = (ntEdges r2).map (·.id) ∧
      kids.map (·.1) = (ntEdges r).map (·.id) ∧
      (∀ x, x ∈ (ntEdges r1).map (·.id) ↔ tr x ∈ (ntEdges r).map (·.id)) ∧
      ∀ x d, (tr x, d) ∈ kids → (x, (split h1 h2 d).1) ∈ kids1 ∧ (x, (split h1 h2 d).2) ∈ kids2 := by
  have S := setup_of_conjoin h1 h2 start rules hw1 hw2 hc
  cases hd with
  | node _ r _ hr hlen hids hder =>
  have hk : k < (idxPairs h1.rules h2.rules).length := by
    rw [← S.len]; exact (List.getElem?_eq_some_iff.1 hr).1
  obtain ⟨⟨i, j⟩, hij⟩ : ∃ ij, (idxPairs h1.rules h2.rules)[k]? = some ij :=
    ⟨_, List.getElem?_eq_getElem hk⟩
  obtain ⟨r1, r2, r', hr1, hr2, hr', hcj, RC⟩ := S.at_idx k i j hij
  have hrr : r' = r := by rw [hr] at hr'; exact (Option.some.inj hr').symm
  subst hrr
  have hkeys : kids.map (·.1) = (ntEdges r').map (·.id) := kids_keys hlen hids
  have hkd : (kids.map (·.1)).Nodup := hkeys ▸ RC.nd
  refine ⟨i, j, r1, r2, r', _, _, split_node h1 h2 k kids hij hr1 hr2, ?_, hr1, hr2, hr, hcj, RC.ok,
    by simp, by simp, hkeys, ?_, ?_⟩
  · rw [pairs_eq_map_idx, List.getElem?_map, hij]
    simp [getR_of_get? hr1, getR_of_get? hr2]
  · intro x
    rw [RC.ids]
    constructor
    · intro hx; exact ⟨x, hx, rfl⟩
    · rintro ⟨x', hx', h⟩; rwa [tr_injective h]
  · intro x d hxd
    have hl : lookupD (tr x) (splitKids h1 h2 kids) = split h1 h2 d := by
      rw [splitKids_eq]
      exact lookupD_map (fun q : Cj.Id × Deriv => q.1) (fun q => split h1 h2 q.2) kids hkd (tr x, d) hxd
    have hx : tr x ∈ (ntEdges r').map (·.id) := hkeys ▸ List.mem_map.2 ⟨(tr x, d), hxd, rfl⟩
    obtain ⟨x', hx', h⟩ := (RC.ids (tr x)).1 hx
    have := tr_injective h
    subst this
    obtain ⟨e1, he1, rfl⟩ := mem_ids hx'
    obtain ⟨e2, he2, h21⟩ := mem_ids ((RC.ids12 e1.id).1 hx')
    constructor
    · exact List.mem_map.2 ⟨e1, he1, by rw [hl]⟩
    · exact List.mem_map.2 ⟨e2, he2, by rw [h21, hl]⟩

/-! ### non-vacuity: two well-formed grammars with a recursive rule, and their conjunction -/

namespace Example

def X : Label := ⟨"X", [], false⟩
def Y : Label := ⟨"Y", [], false⟩
def A : Label := ⟨"a", [], true⟩
def XY : Label := ⟨"<X,Y>", [], false⟩

/-- `X → X` (edge `e`) | `X → a` (edge `t`) -/
def g1 : HRG := ⟨X, [X, A], [⟨X, [], [⟨X, [], .str "e"⟩], []⟩, ⟨X, [], [⟨A, [], .str "t"⟩], []⟩]⟩
/-- `Y → ε` | `Y → Y` (edge `e`): the same shape, rules in the other order -/
def g2 : HRG := ⟨Y, [Y], [⟨Y, [], [], []⟩, ⟨Y, [], [⟨Y, [], .str "e"⟩], []⟩]⟩

/-- the rules of the conjunction: `<X,Y> → <X,Y>` (edge `e`) | `<X,Y> → a` (edge `t`) -/
def rulesXY : List Rule := [⟨XY, [], [⟨XY, [], .str "e"⟩], []⟩, ⟨XY, [], [⟨A, [], .str "t"⟩], []⟩]

/-- the derivation of the conjunction that uses the recursive rule `n` times -/
def chain : Nat → Deriv
  | 0 => .node 1 []
  | n+1 => .node 0 [(.str "e", chain n)]

/-- the hypotheses of the theorems are satisfiable -/
example : wfHRG g1 = true ∧ wfHRG g2 = true := by decide

private theorem ntPairs_example : ntPairs g1 g2 = [((X, Y), XY)] := by decide

private theorem conjoin_example : conjoin g1 g2 = .ok (XY, rulesXY) := by
  unfold conjoin
  rw [ntPairs_example]
  simp [g1, g2, rulesXY, conjoinable, sameSet, conjoinRules, sortEdges, ntGet, X, Y, A, XY, addEdgeChecked,
    pure, Except.pure, bind, Except.bind, List.mapM_cons]

example : conjoin g1 g2 = .ok (XY, rulesXY) := conjoin_example

private theorem chain_isDeriv : ∀ n, IsDeriv rulesXY XY (chain n)
  | 0 => IsDeriv.node 1 ⟨XY, [], [⟨A, [], .str "t"⟩], []⟩ [] rfl rfl (by simp) (by simp)
  | n+1 => by
    refine IsDeriv.node 0 ⟨XY, [], [⟨XY, [], .str "e"⟩], []⟩ [(.str "e", chain n)] rfl rfl ?_ ?_
    · intro p hp
      simp only [ntEdges, XY, Bool.not_false, List.filter_cons_of_pos, List.filter_nil, List.zip_cons_cons,
        List.zip_nil_right, List.mem_singleton] at hp
      subst hp
      rfl
    · intro p hp
      simp only [ntEdges, XY, Bool.not_false, List.filter_cons_of_pos, List.filter_nil, List.zip_cons_cons,
        List.zip_nil_right, List.mem_singleton] at hp
      subst hp
      exact chain_isDeriv n

/-- the conjunction has infinitely many derivations: one for every number of uses of the recursive rule -/
example : ∀ n, chain n ∈ Derivs rulesXY XY := chain_isDeriv

example : chain 0 ≠ chain 1 := by simp [chain]

/-- the derivation that recurses once splits into the derivations of `g1` and `g2` that recurse once
(rule 0 of the conjunction is built from rule 0 of `g1` and rule 1 of `g2`) … -/
example : split g1 g2 (chain 1) = (.node 0 [(.str "e", .node 1 [])], .node 1 [(.str "e", .node 0 [])]) := rfl

/-- … and `join` puts them together again -/
example : join g1 g2 rulesXY (.node 0 [(.str "e", .node 1 [])]) (.node 1 [(.str "e", .node 0 [])]) = chain 1 := rfl

/-- so the set of matched pairs is not empty either -/
example : ∀ n, split g1 g2 (chain n) ∈ MatchedPairs g1 g2 := fun n =>
  split_mapsTo (by decide) (by decide) conjoin_example (chain_isDeriv n)

end Example

/-! ### the well-formedness hypothesis cannot be dropped

(The Python `Graph` refuses a second edge with the same id, so this input cannot be built there; the point is
only that `wfHRG` is not a convenience hypothesis.) -/

namespace NotWf

def X : Label := ⟨"X", [], false⟩
def Z : Label := ⟨"Z", [], false⟩
def W : Label := ⟨"W", [], false⟩
def Y : Label := ⟨"Y", [], false⟩
def V : Label := ⟨"V", [], false⟩
def XY : Label := ⟨"<X,Y>", [], false⟩
def ZV : Label := ⟨"<Z,V>", [], false⟩
def WV : Label := ⟨"<W,V>", [], false⟩

/-- `X → Z W` where both nonterminal edges have the id `e`; `Z → ε`; `W → ε` twice -/
def g1 : HRG := ⟨X, [X, Z, W],
  [⟨X, [], [⟨Z, [], .str "e"⟩, ⟨W, [], .str "e"⟩], []⟩, ⟨Z, [], [], []⟩, ⟨W, [], [], []⟩, ⟨W, [], [], []⟩]⟩
/-- `Y → V` (edge `e`); `V → ε` -/
def g2 : HRG := ⟨Y, [Y, V], [⟨Y, [], [⟨V, [], .str "e"⟩], []⟩, ⟨V, [], [], []⟩]⟩

/-- `conjoin g1 g2`: the `W` edge is silently dropped by the `zip` -/
def rulesC : List Rule :=
  [⟨XY, [], [⟨ZV, [], .str "e"⟩], []⟩, ⟨ZV, [], [], []⟩, ⟨WV, [], [], []⟩, ⟨WV, [], [], []⟩]

private theorem ntPairs_g : ntPairs g1 g2 =
    [((X, Y), XY), ((X, V), ⟨"<X,V>", [], false⟩), ((Z, Y), ⟨"<Z,Y>", [], false⟩), ((Z, V), ZV),
     ((W, Y), ⟨"<W,Y>", [], false⟩), ((W, V), WV)] := by decide

private theorem sort_g :
    ([⟨⟨"Z", [], false⟩, [], .str "e"⟩, ⟨⟨"W", [], false⟩, [], .str "e"⟩] : List Edge).mergeSort
        (fun a b => !(idLt b.id a.id))
      = [⟨⟨"Z", [], false⟩, [], .str "e"⟩, ⟨⟨"W", [], false⟩, [], .str "e"⟩] := by
  rw [List.mergeSort_of_pairwise]
  decide

private theorem conjoin_g : conjoin g1 g2 = .ok (XY, rulesC) := by
  unfold conjoin
  rw [ntPairs_g]
  simp [g1, g2, rulesC, conjoinable, sameSet, conjoinRules, sortEdges, sort_g, ntGet, X, Y, Z, W, V, XY, ZV, WV, addEdgeChecked,
    pure, Except.pure, bind, Except.bind, List.mapM_cons]

private theorem isDeriv_nil {rules : List Rule} (i : Nat) (r : Rule) (hr : rules[i]? = some r)
    (hnt : ntEdges r = []) : IsDeriv rules r.lhs (.node i []) :=
  IsDeriv.node i r [] hr (by simp [hnt]) (by simp [hnt]) (by simp [hnt])

private theorem matched_nil {rs1 rs2 : List Rule} (i j : Nat) (r1 r2 : Rule) (h1 : rs1[i]? = some r1)
    (h2 : rs2[j]? = some r2) (hc : conjoinable r1 r2 = true) : Matched rs1 rs2 (.node i []) (.node j []) :=
  Matched.node i j r1 r2 [] [] h1 h2 hc (by simp)

private def d2 : Deriv := .node 0 [(.str "e", .node 1 [])]
private def d1 (w : Nat) : Deriv := .node 0 [(.str "e", .node 1 []), (.str "e", .node w [])]

private theorem d2_isDeriv : IsDeriv g2.rules Y d2 := by
  refine IsDeriv.node 0 ⟨Y, [], [⟨V, [], .str "e"⟩], []⟩ _ rfl rfl ?_ ?_
  · intro p hp
    simp only [ntEdges, V, Bool.not_false, List.filter_cons_of_pos, List.filter_nil, List.zip_cons_cons,
      List.zip_nil_right, List.mem_singleton] at hp
    subst hp; rfl
  · intro p hp
    simp only [ntEdges, V, Bool.not_false, List.filter_cons_of_pos, List.filter_nil, List.zip_cons_cons,
      List.zip_nil_right, List.mem_singleton] at hp
    subst hp
    exact isDeriv_nil 1 ⟨V, [], [], []⟩ rfl rfl

private theorem d1_isDeriv (w : Nat) (hw : g1.rules[w]? = some ⟨W, [], [], []⟩) : IsDeriv g1.rules X (d1 w) := by
  refine IsDeriv.node 0 ⟨X, [], [⟨Z, [], .str "e"⟩, ⟨W, [], .str "e"⟩], []⟩ _ rfl rfl ?_ ?_
  · intro p hp
    simp only [ntEdges, Z, W, Bool.not_false, List.filter_cons_of_pos, List.filter_nil, List.zip_cons_cons,
      List.zip_nil_right, List.mem_cons, List.not_mem_nil, or_false] at hp
    rcases hp with rfl | rfl <;> rfl
  · intro p hp
    simp only [ntEdges, Z, W, Bool.not_false, List.filter_cons_of_pos, List.filter_nil, List.zip_cons_cons,
      List.zip_nil_right, List.mem_cons, List.not_mem_nil, or_false] at hp
    rcases hp with rfl | rfl
    · exact isDeriv_nil 1 ⟨⟨"Z", [], false⟩, [], [], []⟩ rfl rfl
    · exact isDeriv_nil w ⟨⟨"W", [], false⟩, [], [], []⟩ hw rfl

private theorem d1_matched (w : Nat) (hw : g1.rules[w]? = some ⟨W, [], [], []⟩) :
    Matched g1.rules g2.rules (d1 w) d2 := by
  refine Matched.node 0 0 ⟨X, [], [⟨Z, [], .str "e"⟩, ⟨W, [], .str "e"⟩], []⟩ ⟨Y, [], [⟨V, [], .str "e"⟩], []⟩
    _ _ rfl rfl (by decide) ?_
  intro p1 hp1 p2 hp2 _
  simp only [List.mem_cons, List.not_mem_nil, or_false] at hp1 hp2
  subst hp2
  rcases hp1 with rfl | rfl
  · exact matched_nil 1 1 ⟨Z, [], [], []⟩ ⟨V, [], [], []⟩ rfl rfl (by decide)
  · exact matched_nil w 1 ⟨W, [], [], []⟩ ⟨V, [], [], []⟩ hw rfl (by decide)

private theorem isDeriv_inv {rules : List Rule} {X : Label} {d : Deriv} (h : IsDeriv rules X d) :
    ∃ i r kids, d = .node i kids ∧ rules[i]? = some r ∧ r.lhs = X ∧ kids.length = (ntEdges r).length ∧
      (∀ p ∈ (ntEdges r).zip kids, p.2.1 = p.1.id) ∧
      (∀ p ∈ (ntEdges r).zip kids, IsDeriv rules p.1.label p.2.2) := by
  cases h with
  | node i r kids hr hlen hids hder => exact ⟨i, r, kids, rfl, hr, rfl, hlen, hids, hder⟩

private theorem rulesC_cases {i : Nat} {r : Rule} (h : rulesC[i]? = some r) :
    (i = 0 ∧ r = ⟨XY, [], [⟨ZV, [], .str "e"⟩], []⟩) ∨ (i = 1 ∧ r = ⟨ZV, [], [], []⟩) ∨ r = ⟨WV, [], [], []⟩ := by
  rcases i with _ | _ | _ | _ | i <;> simp [rulesC] at h <;> simp [h]

private theorem derivs_ZV {d : Deriv} (h : IsDeriv rulesC ZV d) : d = .node 1 [] := by
  obtain ⟨i, r, kids, rfl, hr, hl, hlen, _, _⟩ := isDeriv_inv h
  rcases rulesC_cases hr with ⟨rfl, rfl⟩ | ⟨rfl, rfl⟩ | rfl
  · simp [XY, ZV] at hl
  · simp [ntEdges] at hlen
    rw [hlen]
  · simp [WV, ZV] at hl

private theorem derivs_XY {d : Deriv} (h : IsDeriv rulesC XY d) : d = .node 0 [(.str "e", .node 1 [])] := by
  obtain ⟨i, r, kids, rfl, hr, hl, hlen, hids, hder⟩ := isDeriv_inv h
  rcases rulesC_cases hr with ⟨rfl, rfl⟩ | ⟨rfl, rfl⟩ | rfl
  · have hnt : ntEdges ⟨XY, [], [⟨ZV, [], .str "e"⟩], []⟩ = [⟨ZV, [], .str "e"⟩] := rfl
    rw [hnt] at hlen hids hder
    match kids, hlen with
    | [q], _ =>
      have h1 := hids ((⟨ZV, [], .str "e"⟩ : Edge), q) (by simp)
      have h2 := derivs_ZV (hder ((⟨ZV, [], .str "e"⟩ : Edge), q) (by simp))
      obtain ⟨x, dq⟩ := q
      simp only at h1 h2
      rw [h1, h2]
  · simp [XY, ZV] at hl
  · simp [WV, XY] at hl

/-- **`wfHRG` is needed**: for the grammar `g1` above, in which one rule has two nonterminal edges with the same
id, `conjoin g1 g2` succeeds and has exactly one derivation, but there are two matched pairs of derivations — so
nothing maps the derivations of the conjunction onto the matched pairs -/
theorem wfHRG_needed :
    ∃ (h1 h2 : HRG) (start : Label) (rules : List Rule),
      wfHRG h1 = false ∧ wfHRG h2 = true ∧ conjoin h1 h2 = .ok (start, rules) ∧
      ¬ ∃ f : Deriv → Deriv × Deriv, Set.SurjOn f (Derivs rules start) (MatchedPairs h1 h2) := by
  refine ⟨g1, g2, XY, rulesC, by decide, by decide, conjoin_g, ?_⟩
  rintro ⟨f, hf⟩
  have m2 : (d1 2, d2) ∈ MatchedPairs g1 g2 := ⟨d1_isDeriv 2 rfl, d2_isDeriv, d1_matched 2 rfl⟩
  have m3 : (d1 3, d2) ∈ MatchedPairs g1 g2 := ⟨d1_isDeriv 3 rfl, d2_isDeriv, d1_matched 3 rfl⟩
  obtain ⟨a, ha, hfa⟩ := hf m2
  obtain ⟨b, hb, hfb⟩ := hf m3
  have : a = b := (derivs_XY ha).trans (derivs_XY hb).symm
  subst this
  have := hfa.symm.trans hfb
  simp [d1] at this

end NotWf

end C17b
