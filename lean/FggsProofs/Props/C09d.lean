/-
C09d — `PatternedTensor.solve` (model `Ps.solve` of FggsModel/PatSolve.lean), the pattern-level part: whenever the model
returns a tensor `r` for the axis `e` computed by the growth loop,

* `r` is well formed and has the shape of `b`;
* the cells of `r` whose row index lies in the image of `e` (and whose further indices lie in the images of the further
  axes of `b`) hold the solution `Ms.blockSolve` of the DENSE system formed by the corresponding cells of `a.dense` and
  `b.dense` (rows and columns enumerated by the assignments of the physical axes of `e`, row-major);
* every other cell of `r` is the semiring zero.

No semiring law is used: this is a statement about indexing (unification, `project`, the patterns).  That the restricted
system has the same least solution as the full system `x = a·x + b` when `e` is closed (`Ps.closed`, decided per job by
the driver) is the algebraic theorem C09e; that the growth loop yields a closed axis is checked per job, not proved.

`patsolve_cells` carries ONE extra hypothesis with respect to the statement first given (`patsolve_cells_statement`):
`Resolved`, the decidable fuel side condition on the final substitutions of the two unifications of `solve` (no identity
bound twice; `FUEL - 2` units of fuel resolve every binding), in the style of `Ei.resolved` (C07b) and `C06e.Resolved`:
`project` / `clone` apply the substitutions with the constant `FUEL`, and a substitution with a shadowed binding or a
binding deeper than `FUEL` is not applied completely.  (An exhaustive evaluation of the model on 7986 small instances —
sum, product and diagonal patterns of 4 × 4 systems, `fuel` from 1 to 12 — found the conclusion true in every run that
returned a tensor, and `Resolved` true in every such run; no counterexample to the original statement is known.)
That the axis returned by the growth loop is well formed is proved from the run (`C09dL.grow_eok`).
The proofs are in FggsProofs/C09d{Rename,Proj,Ctx,Main,Grow}Lemmas.lean.
-/
import FggsModel.PatSolve
import FggsProofs.Props.C06b
import FggsProofs.Props.C06c
import FggsProofs.Props.C06d
import FggsProofs.Props.C07e
import FggsProofs.C06bLemmas
import FggsProofs.C06dBaseLemmas
import FggsProofs.C06dSideLemmas
import FggsProofs.C07eStrideLemmas
import FggsProofs.C09dRenameLemmas
import FggsProofs.C09dProjLemmas
import FggsProofs.C09dCtxLemmas
import FggsProofs.C09dMainLemmas
import FggsProofs.C09dGrowLemmas
import Mathlib.Tactic.Linarith
import Mathlib.Data.List.Basic

set_option linter.unusedSimpArgs false
set_option linter.unusedVariables false

namespace C09d
open Fggs Fggs.Ax Fggs.Un Fggs.Sd Fggs.Sem Fggs.Ps

/-- the cell of the dense tensor at an index tuple -/
def cell (t : PT) (idx : List Nat) : Ext := t.dense[Ax.flat t.vshape idx]?.getD t.default

/-- the operands as `solve` sees them -/
structure OperandsOK (S : SR Ext) (a b : PT) (a0 a1 b0 : Axis) (brest : List Axis) (next : Nat) : Prop where
  wfa : a.wf = true
  wfb : b.wf = true
  va : a.vaxes = [a0, a1]
  vb : b.vaxes = b0 :: brest
  square : a0.numel = a1.numel ∧ a0.numel = b0.numel
  da : a.default = S.zero
  db : b.default = S.zero
  pos : ∀ p ∈ a.paxes ++ b.paxes, 0 < p.2
  disj : ∀ p ∈ a.paxes, ∀ q ∈ b.paxes, p.1 ≠ q.1
  below : ∀ p ∈ a.paxes ++ b.paxes, p.1 < next

/-- the index tuples (row-major) of the physical axes of a list of axes -/
def idxs (es : List Axis) : List (List Nat) := Ax.assigns ((firstOcc es).map (·.2))

/-- the virtual index an index tuple of the physical axes of `es` denotes in each of `es` -/
def virt (es : List Axis) (idx : List Nat) : List Nat := es.map (Axis.eval (envOf (firstOcc es) idx))

/-- the dense system the library solves: rows and columns = the assignments of the physical axes of `e` -/
def relA (a : PT) (e : Axis) : Ms.Mat Ext :=
  (idxs [e]).map (fun p => (idxs [e]).map (fun q => cell a (virt [e] p ++ virt [e] q)))

def relB (b : PT) (e : Axis) (brest : List Axis) : Ms.Mat Ext :=
  (idxs [e]).map (fun p => (idxs brest).map (fun c => cell b (virt [e] p ++ virt brest c)))

/-- what `solve` computes when the growth loop returned `e`: the two unifications succeeded and the result is the
normal form of the tensor patterned by `e` and the renamed further axes of `b` -/
private theorem solve_ok {S : SR Ext} {star : Ext → Ext} {fuel loopFuel : Nat} {a b : PT} {a0 a1 b0 : Axis}
    {brest : List Axis} {next : Nat} (hva : a.vaxes = [a0, a1]) (hvb : b.vaxes = b0 :: brest) {e : Axis} {nx : Nat}
    (hg : grow fuel a0 a1 loopFuel b0 next = some (some (e, nx))) {r : PT}
    (hr : solve S star fuel loopFuel a b next = .ok r) :
    ∃ stb sta, unify fuel e b0 ⟨[], nx + (firstOcc [e]).length + (firstOcc brest).length⟩ = (true, stb) ∧
      unifyAll fuel [(renameAxis (C09dL.renOf (firstOcc [e]) nx) e, a0), (e, a1)] ⟨[], stb.next⟩ = (true, sta) ∧
      r = Bn.normalize (C09dL.finalT e brest (nx + (firstOcc [e]).length)
        (Ms.blockSolve S star (Ax.numel ((firstOcc [e]).map (·.2))) (Ax.numel ((firstOcc brest).map (·.2)))
          (toMat S (Ax.numel ((firstOcc [e]).map (·.2))) (Ax.numel ((firstOcc [e]).map (·.2)))
            (Bn.normalize (C09dL.projT a sta.subst
              ((firstOcc [e]).map (C09dL.rp (C09dL.renOf (firstOcc [e]) nx))) (firstOcc [e]))).dense)
          (toMat S (Ax.numel ((firstOcc [e]).map (·.2))) (Ax.numel ((firstOcc brest).map (·.2)))
            (Bn.normalize (C09dL.projT b stb.subst (firstOcc [e]) (firstOcc brest))).dense)).flatten b.default) := by
  unfold solve at hr
  rw [hva, hvb] at hr
  simp only [hg] at hr
  split at hr
  · cases hr
  · next stb hub =>
    split at hr
    · cases hr
    · next sta hua =>
      exact ⟨stb, sta, hub, hua, (Outcome.ok.inj hr).symm⟩

/-! ### the statement as first given, and the extra hypotheses of the corrected theorem -/

/-- the statement of `patsolve_cells` as first given (without the fuel side condition `Resolved`) -/
def patsolve_cells_statement : Prop :=
  ∀ (S : SR Ext) (star : Ext → Ext) (fuel loopFuel : Nat) (a b : PT) (a0 a1 b0 : Axis) (brest : List Axis)
    (next : Nat) (h : OperandsOK S a b a0 a1 b0 brest next)
    (e : Axis) (nx : Nat) (hg : grow fuel a0 a1 loopFuel b0 next = some (some (e, nx)))
    (r : PT) (hr : solve S star fuel loopFuel a b next = .ok r),
    r.wf = true ∧ r.vshape = b.vshape ∧
    (let X := Ms.blockSolve S star (idxs [e]).length (idxs brest).length (relA a e) (relB b e brest)
     (∀ p c (ip ic : List Nat), (idxs [e])[p]? = some ip → (idxs brest)[c]? = some ic →
        cell r (virt [e] ip ++ virt brest ic) = Ms.matGet S X p c) ∧
     (∀ idx ∈ Ax.assigns r.vshape, (∀ ip ∈ idxs [e], ∀ ic ∈ idxs brest, idx ≠ virt [e] ip ++ virt brest ic) → cell r idx = S.zero))

/-- the Boolean check on a substitution: no identity is bound twice, and `FUEL - 2` units of fuel resolve every
binding (its clone contains no bound physical axis) -/
def resolvedS (σ : Subst) : Bool :=
  nodupNat (σ.map (·.1)) && σ.all (fun p => Ei.unbound σ (clone σ (FUEL - 2) p.2))

/-- EXTRA HYPOTHESIS — the fuel side condition (decidable from the run, in the style of `Ei.resolved` /
`C06e.Resolved`): in the final substitutions of the two unifications of `solve` — `e` against the row axis of `b`, and
the renamed copy of `e` / `e` itself against the row / column axis of `a` — no identity is bound twice (which happens
when `fuel` is too small for `lookup` to reach the end of a forwarding chain) and the constant `FUEL` of `clone` /
`Axis.stride` resolves every binding. -/
def Resolved (fuel : Nat) (e : Axis) (nx : Nat) (a0 a1 b0 : Axis) (brest : List Axis) : Prop :=
  let fv := firstOcc [e]
  let ren0 := fv.zipIdx.map (fun (p : (Nat × Nat) × Nat) => (p.1.1, nx + p.2))
  let stb := (unify fuel e b0 ⟨[], nx + fv.length + (firstOcc brest).length⟩).2
  let sta := (unifyAll fuel [(renameAxis ren0 e, a0), (e, a1)] ⟨[], stb.next⟩).2
  resolvedS stb.subst = true ∧ resolvedS sta.subst = true

private theorem cell_normalize {T : PT} (hN : C06dL.NormOK T) (idx : List Nat) :
    cell (Bn.normalize T) idx = C09dL.cellOf T idx := by
  obtain ⟨_, w2, w3⟩ := C06dL.normalize_spec hN
  unfold cell C09dL.cellOf
  rw [w3, w2, C09dL.normalize_default]

/-- **the result holds the solution of the relevant dense system, and zero elsewhere**

EXTRA HYPOTHESIS with respect to `patsolve_cells_statement`: `hres` (`Resolved`: the fuel side condition on the two
unifications of `solve`, decidable from the run).  That the axis `e` returned by the growth loop is well formed (fresh
physical axes of at least two elements, one size per identity, as many elements as the row axis of `b`) is PROVED from
`hg` (`C09dL.grow_eok`). -/
theorem patsolve_cells (S : SR Ext) (star : Ext → Ext) (fuel loopFuel : Nat) (a b : PT) (a0 a1 b0 : Axis) (brest : List Axis)
    (next : Nat) (h : OperandsOK S a b a0 a1 b0 brest next)
    (e : Axis) (nx : Nat) (hg : grow fuel a0 a1 loopFuel b0 next = some (some (e, nx)))
    (r : PT) (hr : solve S star fuel loopFuel a b next = .ok r)
    (hres : Resolved fuel e nx a0 a1 b0 brest) :
    r.wf = true ∧ r.vshape = b.vshape ∧
    (let X := Ms.blockSolve S star (idxs [e]).length (idxs brest).length (relA a e) (relB b e brest)
     (∀ p c (ip ic : List Nat), (idxs [e])[p]? = some ip → (idxs brest)[c]? = some ic →
        cell r (virt [e] ip ++ virt brest ic) = Ms.matGet S X p c) ∧
     (∀ idx ∈ Ax.assigns r.vshape, (∀ ip ∈ idxs [e], ∀ ic ∈ idxs brest, idx ≠ virt [e] ip ++ virt brest ic) → cell r idx = S.zero)) := by
  have O : C09dL.Ops a b a0 a1 b0 brest next :=
    ⟨(C06dL.wf_iff_struct a).1 h.wfa, (C06dL.wf_iff_struct b).1 h.wfb, h.va, h.vb, h.square.1, h.square.2, h.pos,
      h.disj, h.below⟩
  have E : C09dL.EOK b0 e next nx := C09dL.grow_eok O hg
  obtain ⟨stb, sta, hub, hua, rfl⟩ := solve_ok h.va h.vb hg hr
  have hres' : C09dL.resolvedS stb.subst = true ∧ C09dL.resolvedS sta.subst = true := by
    have h1 : resolvedS (unify fuel e b0 ⟨[], nx + (firstOcc [e]).length + (firstOcc brest).length⟩).2.subst = true ∧
        resolvedS (unifyAll fuel [(renameAxis (C09dL.renOf (firstOcc [e]) nx) e, a0), (e, a1)]
          ⟨[], (unify fuel e b0 ⟨[], nx + (firstOcc [e]).length + (firstOcc brest).length⟩).2.next⟩).2.subst = true := hres
    rw [hub] at h1
    simp only at h1
    rw [hua] at h1
    exact h1
  obtain ⟨szb, CB, hle⟩ := C09dL.relB_ctx O E E.le (by omega) hub hres'.1
  obtain ⟨sza, CA⟩ := C09dL.relA_ctx O E E.le (by omega) hua hres'.2
  rw [C09dL.relA_eq S CA, C09dL.relB_eq S CB]
  -- the dense solution
  have hXdef : Ms.blockSolve S star (idxs [e]).length (idxs brest).length (relA a e) (relB b e brest) =
      Ms.blockSolve S star (Ax.numel ((firstOcc [e]).map (·.2))) (Ax.numel ((firstOcc brest).map (·.2)))
        (C09dL.relAL a e) (C09dL.relBL b e brest) := by
    unfold idxs
    rw [C06dL.length_assigns, C06dL.length_assigns]
    rfl
  rw [hXdef]
  generalize hX : Ms.blockSolve S star (Ax.numel ((firstOcc [e]).map (·.2))) (Ax.numel ((firstOcc brest).map (·.2)))
        (C09dL.relAL a e) (C09dL.relBL b e brest) = X
  have hrows : X.length = Ax.numel ((firstOcc [e]).map (·.2)) := by
    rw [← hX]; unfold Ms.blockSolve; simp
  have hcols : ∀ row ∈ X, row.length = Ax.numel ((firstOcc brest).map (·.2)) := by
    intro row hrow
    rw [← hX] at hrow
    unfold Ms.blockSolve at hrow
    simp only [List.mem_map, List.mem_range] at hrow
    obtain ⟨i, _, rfl⟩ := hrow
    simp
  have hlen : X.flatten.length =
      Ax.numel ((firstOcc [e]).map (·.2)) * Ax.numel ((firstOcc brest).map (·.2)) := by
    rw [C09dL.flatten_length _ X hcols, hrows]
  have h1 : nx ≤ nx + (firstOcc [e]).length := Nat.le_add_right _ _
  have hN := C09dL.final_normOK O E h1 X.flatten b.default hlen
  obtain ⟨w1, w2, w3⟩ := C06dL.normalize_spec hN
  refine ⟨w1, w2.trans (C09dL.final_vshape O E _ _ _), ?_, ?_⟩
  · intro p c ip ic hp hc
    rw [cell_normalize hN]
    have hp' : p < (C09dL.idxsL [e]).length := (List.getElem?_eq_some_iff.1 hp).1
    have hc' : c < (C09dL.idxsL brest).length := (List.getElem?_eq_some_iff.1 hc).1
    have hip : ip = (C09dL.idxsL [e])[p] := (List.getElem?_eq_some_iff.1 hp).2.symm
    have hic : ic = (C09dL.idxsL brest)[c] := (List.getElem?_eq_some_iff.1 hc).2.symm
    have hm1 : ip ∈ C09dL.idxsL [e] := hip ▸ List.getElem_mem hp'
    have hm2 : ic ∈ C09dL.idxsL brest := hic ▸ List.getElem_mem hc'
    have hf1 : Ax.flat ((firstOcc [e]).map (·.2)) ip = p := by rw [hip]; exact C06dL.flat_getElem hp'
    have hf2 : Ax.flat ((firstOcc brest).map (·.2)) ic = c := by rw [hic]; exact C06dL.flat_getElem hc'
    have hclt : c < Ax.numel ((firstOcc brest).map (·.2)) := by
      have := hc'; unfold C09dL.idxsL at this; rwa [C06dL.length_assigns] at this
    show C09dL.cellOf _ (C09dL.virtL [e] ip ++ C09dL.virtL brest ic) = _
    rw [C09dL.final_cell O E h1 X.flatten b.default hm1 hm2, hf1, hf2,
      C09dL.flatten_getElem _ X p c hcols hclt, h.db]
    rfl
  · intro idx hidx hout
    rw [cell_normalize hN]
    rw [w2] at hidx
    exact (C09dL.final_zero O E h1 X.flatten b.default hidx hout).trans h.db

/-- when the row pattern of `b` does not meet the column pattern of `a` (`a·b = 0`) the result is `b` -/
theorem patsolve_disjoint (S : SR Ext) (star : Ext → Ext) (fuel loopFuel : Nat) (a b : PT) (a0 a1 b0 : Axis) (brest : List Axis)
    (next : Nat) (h : OperandsOK S a b a0 a1 b0 brest next)
    (hg : grow fuel a0 a1 loopFuel b0 next = some none) :
    ∃ r, solve S star fuel loopFuel a b next = .ok r ∧ r.wf = true ∧ r.vshape = b.vshape ∧ r.dense = b.dense := by
  have hs := (C06dL.wf_iff_struct b).1 h.wfb
  have hinj : ∀ k ∈ b.paxes, ∀ l ∈ b.paxes,
      C09dL.rf (C09dL.renOf b.paxes next) k.1 = C09dL.rf (C09dL.renOf b.paxes next) l.1 → k.1 = l.1 :=
    fun k hk l hl e => C09dL.rf_renOf_inj next (List.mem_map_of_mem hk) (List.mem_map_of_mem hl) e
  refine ⟨C09dL.renamePT (C09dL.renOf b.paxes next) b, ?_, ?_, ?_, ?_⟩
  · unfold solve
    rw [h.va, h.vb]
    simp only [hg]
    rw [← h.vb]
    rfl
  · exact (C06dL.wf_iff_struct _).2 (C09dL.renamePT_struct _ b hs hinj)
  · exact C09dL.renamePT_vshape _ b
  · exact C09dL.renamePT_dense _ b hs hinj

/-! ### non-vacuity: a = the 2 × 2 matrix with the single pattern row 0 ← column 1 …, b = a dense vector -/

def exA : PT := { physical := [.fin 1, .fin 2, .fin 3, .fin 4], paxes := [(0, 2), (1, 2)], vaxes := [.phys 0 2, .phys 1 2], default := .fin 0 }
def exB : PT := { physical := [.fin 5, .fin 7], paxes := [(2, 2)], vaxes := [.phys 2 2], default := .fin 0 }

example : OperandsOK realSR exA exB (.phys 0 2) (.phys 1 2) (.phys 2 2) [] 3 := by
  refine ⟨by decide, by decide, rfl, rfl, by decide, rfl, rfl, by decide, by decide, by decide⟩

/-- the growth loop on this instance returns the fresh axis 3 (of size 2): the solution is dense -/
example : grow FUEL (.phys 0 2) (.phys 1 2) 64 (.phys 2 2) 3 = some (some (.phys 3 2, 4)) := by
  have hu : unify FUEL (.phys 2 2) (.phys 1 2) ⟨[], 3⟩ = (true, ⟨[(2, .phys 1 2)], 3⟩) := rfl
  have hc : clone [(2, .phys 1 2)] FUEL (.phys 0 2) = .phys 0 2 := rfl
  have ha : antiunify FUEL (.phys 2 2) (.phys 0 2) ⟨[], 3⟩ = (.phys 3 2, ⟨[((.phys 2 2, .phys 0 2), (3, 2))], 4⟩) := by
    rw [show FUEL = 3999 + 1 from rfl, antiunify.eq_def]
    simp [extendAnti, Axis.numel]
  rw [grow, hu]
  simp only [hc, ha]
  rfl

/-- … and the extra hypothesis `Resolved` of `patsolve_cells` holds for it (it is decidable) -/
example : Resolved FUEL (.phys 3 2) 4 (.phys 0 2) (.phys 1 2) (.phys 2 2) [] := by
  unfold Resolved
  decide

end C09d
