/-
C06t — the sparsity shortcuts of `sub` and `div` (model `Bn.shortcut2`): for an operation `op` with a right identity, a map
`flip` and an operation `op2` such that `op2 (flip b) a = op a b` and `op identity b = flip b` (subtraction: identity 0,
negation, addition; division: identity 1, reciprocal, multiplication), the shortcut yields exactly the representation of
the generic cell-by-cell operation (`Bn.binary`), hence the operation on the dense tensors.  The laws are proved for the
model's exact arithmetic on the extended rationals (in floating point `(1/u)·t` and `t/u` may differ by a rounding, which
is why the C06 check compares `div` within a tolerance).
-/
import FggsModel.Binary
import FggsProofs.Props.C06d
import FggsProofs.Props.C06s
import FggsProofs.C06sLemmas
import FggsProofs.C06tLemmas
import FggsProofs.C06dBaseLemmas
import FggsProofs.C06dSideLemmas
import FggsProofs.C06dExpLemmas
import Mathlib.Tactic.Linarith
import Mathlib.Tactic.Ring
import Mathlib.Tactic.FieldSimp
import Mathlib.Data.List.Basic

set_option linter.unusedSimpArgs false
set_option linter.unusedVariables false

namespace C06t
open Fggs Fggs.Ax Fggs.Un Fggs.Bn
open C06dL C06dE C06sL C06tL

/-- the laws the shortcut relies on -/
structure FlipLaws (op : Ext → Ext → Ext) (identity : Ext) (flip : Ext → Ext) (op2 : Ext → Ext → Ext) : Prop where
  right : ∀ x, op x identity = x
  flipped : ∀ a b, op2 (flip b) a = op a b
  left : ∀ b, op identity b = flip b

/-- **the shortcut computes what the generic operation computes** -/
theorem shortcut2_eq_binary (fuel : Nat) (op : Ext → Ext → Ext) (identity default : Ext) (flip : Ext → Ext) (op2 : Ext → Ext → Ext)
    (hop : FlipLaws op identity flip op2) (t u : PT) (next : Nat) (h : C06d.OperandsOK t u next) :
    shortcut2 fuel op identity default flip op2 t u next = binary fuel op default t u next := by
  have hl := C06d.sideL h fuel
  have hr := C06d.sideR h fuel
  have ll := length_layout hl
  have lr := length_layout hr
  unfold shortcut2 binary
  rw [expansion_eq]
  simp only []
  congr 2
  split
  · split
    · rename_i hu
      have hud : u.default = identity := eqIEEE_eq hu
      apply shortcut_list op identity hop.right _ _ _ _ (ll.trans lr.symm)
      intro k hk hn
      rw [← hud]
      exact layout_off_backs hr (Ext.fin 0) hk hn
    · rfl
  · rename_i hc
    have ht : Ext.eqIEEE t.default identity = true := by
      cases he : Ext.eqIEEE t.default identity with
      | true => rfl
      | false => exact absurd (by simp [he]) hc
    have htd : t.default = identity := eqIEEE_eq ht
    rw [layout_map]
    apply shortcut_list2 op identity flip op2 hop.flipped hop.left _ _ _ _ (lr.trans ll.symm)
    intro k hk hn
    rw [← htd]
    exact layout_off_backs hl (Ext.fin 0) hk hn

theorem shortcut2_dense (fuel : Nat) (op : Ext → Ext → Ext) (identity : Ext) (flip : Ext → Ext) (op2 : Ext → Ext → Ext)
    (hop : FlipLaws op identity flip op2) (t u : PT) (next : Nat) (h : C06d.OperandsOK t u next) :
    let r := shortcut2 fuel op identity (op t.default u.default) flip op2 t u next
    r.wf = true ∧ r.vshape = t.vshape ∧ r.dense = List.zipWith op t.dense u.dense := by
  intro r
  show (shortcut2 fuel op identity (op t.default u.default) flip op2 t u next).wf = true ∧
    (shortcut2 fuel op identity (op t.default u.default) flip op2 t u next).vshape = t.vshape ∧
    (shortcut2 fuel op identity (op t.default u.default) flip op2 t u next).dense = List.zipWith op t.dense u.dense
  rw [shortcut2_eq_binary fuel op identity _ flip op2 hop t u next h]
  exact C06d.binary_dense fuel op t u next h

/-- subtraction: `a - b = (-b) + a`, `0 - b = -b`, `a - 0 = a` on all of `Ext` -/
theorem sub_laws : FlipLaws Ext.sub (Ext.fin 0) (fun x => Ext.sub (Ext.fin 0) x) Ext.add := by
  refine ⟨?_, ?_, ?_⟩
  · intro x; cases x <;> simp [Ext.sub, Ext.add, Ext.neg]
  · intro a b; cases a <;> cases b <;> simp [Ext.sub, Ext.add, Ext.neg, add_comm]
  · intro b; rfl

/-- division: `a / b = (1/b) · a`, `1 / b`, `a / 1 = a` — state and prove it on the largest set of values where the model's
`Ext.div` / `Ext.mul` satisfy it (if it fails somewhere, e.g. at 0 or at infinities, restrict `FlipLaws` to a carrier
predicate in a separate structure and say where it fails by a counterexample theorem) -/
theorem div_laws : FlipLaws Ext.div (Ext.fin 1) (fun x => Ext.div (Ext.fin 1) x) Ext.mul := by
  refine ⟨?_, ?_, ?_⟩
  · intro x; cases x <;> simp [Ext.div]
  · intro a b
    cases b with
    | nan => cases a <;> simp [Ext.div, Ext.mul]
    | pinf => cases a <;> simp [Ext.div, Ext.mul]
    | ninf => cases a <;> simp [Ext.div, Ext.mul]
    | fin q =>
      by_cases hq : q = 0
      · subst hq
        cases a <;> simp [Ext.div, Ext.mul]
      · have hinv : (1 : Rat) / q ≠ 0 := by simp [hq]
        have hpos : (0 < (1 : Rat) / q) ↔ 0 ≤ q := by
          rw [one_div, inv_pos]
          exact ⟨le_of_lt, fun h => lt_of_le_of_ne h (Ne.symm hq)⟩
        cases a with
        | nan => simp [Ext.div, Ext.mul, hq]
        | fin p => simp [Ext.div, Ext.mul, hq]; ring
        | pinf => simp only [Ext.div, Ext.mul, hq, if_false, hinv, hpos]
        | ninf => simp only [Ext.div, Ext.mul, hq, if_false, hinv, hpos]
  · intro b; rfl

end C06t
