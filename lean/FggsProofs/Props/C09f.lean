/-
C09f — the side condition `C09d.Resolved` of `C09d.patsolve_cells` is decided by the executable `Ps.resolved`, which the
driver evaluates (together with `Ps.closed`) for every job of the patterned-solve correspondence stream.
-/
import FggsProofs.Props.C09d

set_option linter.unusedSimpArgs false
set_option linter.unusedVariables false

namespace C09f
open Fggs Fggs.Ax Fggs.Un Fggs.Ps

theorem resolvedS_eq (σ : Subst) : Ps.resolvedS σ = C09d.resolvedS σ := rfl

/-- `Ps.resolved` is sound for `C09d.Resolved` -/
theorem resolved_sound (fuel : Nat) (e : Axis) (nx : Nat) (a0 a1 b0 : Axis) (brest : List Axis)
    (h : Ps.resolved fuel e nx a0 a1 b0 brest = true) : C09d.Resolved fuel e nx a0 a1 b0 brest := by
  unfold Ps.resolved at h
  unfold C09d.Resolved
  simp only [Bool.and_eq_true] at h
  exact ⟨by rw [← resolvedS_eq]; exact h.1, by rw [← resolvedS_eq]; exact h.2⟩

end C09f
