/-
C13 — placeholder (theorems follow)
-/
import FggsModel.Axis
