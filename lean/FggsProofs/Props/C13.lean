/-
C13 — equal and allclose decide (approximate) equality of the denoted tensors.
The counting argument of PatternedTensor.equal/allclose (`PT.compareModel`, FggsModel/Axis.lean) decides the
elementwise comparison of the dense tensors (`PT.compareSpec`).
-/
import FggsModel.Axis
import FggsProofs.Props.C06
import Mathlib.Tactic.Linarith
import Mathlib.Tactic.Ring
import Mathlib.Data.List.Basic
import Mathlib.Data.List.Nodup
import Mathlib.Data.List.Forall2
import Mathlib.Data.List.Perm.Subperm

set_option linter.unusedSimpArgs false
set_option linter.unusedVariables false

namespace C13
open Fggs Fggs.Ax

/-! ### row-major enumeration -/

private theorem foldl_mul (l : List Nat) : ∀ (a : Nat), l.foldl (· * ·) a = a * l.foldl (· * ·) 1 := by
  induction l with
  | nil => intro a; simp
  | cons x l ih => intro a; rw [List.foldl_cons, List.foldl_cons, ih (a * x), ih (1 * x)]; ring

private theorem numel_nil : numel [] = 1 := rfl

private theorem numel_cons (x : Nat) (l : List Nat) : numel (x :: l) = x * numel l := by
  unfold numel; rw [List.foldl_cons, foldl_mul]; ring

private theorem range_block (m : Nat) : ∀ n : Nat,
    (List.range n).flatMap (fun i => (List.range m).map (fun j => i * m + j)) = List.range (n * m)
  | 0 => by simp
  | n + 1 => by
    rw [List.range_succ, List.flatMap_append, range_block m n, Nat.succ_mul, List.range_add]
    simp

/-- `assigns shape` lists the index tuples in row-major order: the flat position of the `k`-th tuple is `k` -/
private theorem map_flat_assigns : ∀ shape : List Nat,
    (assigns shape).map (flat shape) = List.range (numel shape)
  | [] => by simp [assigns, flat, numel_nil]
  | n :: rest => by
    rw [assigns, List.map_flatMap, numel_cons, ← range_block]
    congr 1
    funext i
    rw [List.map_map, ← map_flat_assigns rest, List.map_map]
    rfl

private theorem length_assigns (shape : List Nat) : (assigns shape).length = numel shape := by
  have := congrArg List.length (map_flat_assigns shape)
  simpa using this

private theorem nodup_assigns (shape : List Nat) : (assigns shape).Nodup := by
  apply List.Nodup.of_map (flat shape)
  rw [map_flat_assigns]; exact List.nodup_range

private theorem flat_inj {shape : List Nat} {c d : List Nat} (hc : c ∈ assigns shape) (hd : d ∈ assigns shape)
    (h : flat shape c = flat shape d) : c = d := by
  have hn : ((assigns shape).map (flat shape)).Nodup := by rw [map_flat_assigns]; exact List.nodup_range
  exact List.inj_on_of_nodup_map hn hc hd h

private theorem flat_lt {shape : List Nat} {c : List Nat} (hc : c ∈ assigns shape) :
    flat shape c < numel shape := by
  have : flat shape c ∈ (assigns shape).map (flat shape) := List.mem_map_of_mem hc
  rw [map_flat_assigns] at this
  simpa using this

private theorem flat_getElem {shape : List Nat} {k : Nat} (hk : k < (assigns shape).length) :
    flat shape (assigns shape)[k] = k := by
  have h := congrArg (fun l => l[k]?) (map_flat_assigns shape)
  simp only [List.getElem?_map] at h
  rw [List.getElem?_eq_getElem hk, List.getElem?_range (by rw [← length_assigns]; exact hk)] at h
  simpa using h

private theorem mem_assigns_iff : ∀ (shape c : List Nat),
    c ∈ assigns shape ↔ List.Forall₂ (· < ·) c shape
  | [], c => by
    simp [assigns]
  | n :: rest, c => by
    simp only [assigns, List.mem_flatMap, List.mem_range, List.mem_map]
    constructor
    · rintro ⟨i, hi, d, hd, rfl⟩
      exact List.Forall₂.cons hi ((mem_assigns_iff rest d).1 hd)
    · intro h
      cases h with
      | cons hi hr => exact ⟨_, hi, _, (mem_assigns_iff rest _).2 hr, rfl⟩


/-! ### the fold of `dense` -/

private theorem foldl_set_size (pos : List Nat × Ext → Nat) : ∀ (L : List (List Nat × Ext)) (arr : Array Ext),
    (L.foldl (fun a kv => a.setIfInBounds (pos kv) kv.2) arr).size = arr.size
  | [], arr => rfl
  | kv :: L, arr => by rw [List.foldl_cons, foldl_set_size pos L]; simp

private theorem foldl_set_other (pos : List Nat × Ext → Nat) (k : Nat) :
    ∀ (L : List (List Nat × Ext)) (arr : Array Ext), (∀ kv ∈ L, pos kv ≠ k) →
    (L.foldl (fun a kv => a.setIfInBounds (pos kv) kv.2) arr)[k]? = arr[k]?
  | [], arr, _ => rfl
  | kv :: L, arr, h => by
    rw [List.foldl_cons, foldl_set_other pos k L _ (fun x hx => h x (List.mem_cons_of_mem _ hx)),
      Array.getElem?_setIfInBounds, if_neg (h kv List.mem_cons_self)]

private theorem foldl_set_hit (pos : List Nat × Ext → Nat) :
    ∀ (L : List (List Nat × Ext)) (arr : Array Ext) (kv : List Nat × Ext), (L.map pos).Nodup → kv ∈ L →
    pos kv < arr.size →
    (L.foldl (fun a kv => a.setIfInBounds (pos kv) kv.2) arr)[pos kv]? = some kv.2
  | [], arr, kv, _, h, _ => by simp at h
  | x :: L, arr, kv, hn, h, hlt => by
    rw [List.map_cons, List.nodup_cons] at hn
    rw [List.foldl_cons]
    rcases List.mem_cons.1 h with rfl | h'
    · rw [foldl_set_other pos (pos kv) L _ ?_, Array.getElem?_setIfInBounds, if_pos rfl, if_pos hlt]
      intro y hy e
      exact hn.1 (e ▸ List.mem_map_of_mem hy)
    · exact foldl_set_hit pos L _ kv hn.2 h' (by simpa using hlt)

/-! ### unpacking `wf` -/

private def keys (t : PT) : List (List Nat) := t.cells.map (·.1)

private theorem keys_eq (t : PT) :
    keys t = (assigns (t.paxes.map (·.2))).map (fun idx => t.vaxes.map (Axis.eval (envOf t.paxes idx))) := by
  unfold keys PT.cells
  rw [List.map_map]
  have : ((fun x : List Nat × Ext => x.1) ∘ fun p : List Nat × Nat =>
      (t.vaxes.map (Axis.eval (envOf t.paxes p.1)), t.physical[p.2]?.getD t.default)) =
      (fun idx => t.vaxes.map (Axis.eval (envOf t.paxes idx))) ∘ Prod.fst := rfl
  rw [this, ← List.map_map, List.zipIdx_map_fst]

private theorem nodup_of_range_check {α : Type} [Inhabited α] [BEq α] [LawfulBEq α] (l : List α)
    (h : ((List.range l.length).all (fun i => (List.range l.length).all (fun j => i == j || l[i]! != l[j]!))) = true) :
    l.Nodup := by
  simp only [List.all_eq_true, List.mem_range, Bool.or_eq_true, beq_iff_eq, bne_iff_ne] at h
  rw [List.Nodup, List.pairwise_iff_getElem]
  intro i j hi hj hij
  rcases h i hi j hj with e | e
  · omega
  · rwa [getElem!_pos l i hi, getElem!_pos l j hj] at e

private theorem wf_keys (t : PT) (h : t.wf = true) :
    (keys t).Nodup ∧ ∀ c ∈ keys t, c ∈ assigns t.vshape := by
  unfold PT.wf at h
  simp only [Bool.and_eq_true] at h
  obtain ⟨-, hr, hd⟩ := h
  rw [← keys_eq] at hr hd
  refine ⟨nodup_of_range_check _ hd, ?_⟩
  intro c hc
  rw [mem_assigns_iff, List.forall₂_iff_zip]
  constructor
  · rw [keys_eq] at hc
    obtain ⟨idx, -, rfl⟩ := List.mem_map.1 hc
    simp [PT.vshape]
  · intro a b hab
    have := (List.all_eq_true.1 hr) c hc
    have := (List.all_eq_true.1 this) (a, b) hab
    simpa using this

/-- the value of cell `c` of the denoted tensor -/
private def valueAt (t : PT) (c : List Nat) : Ext :=
  match t.cells.find? (·.1 == c) with | some p => p.2 | none => t.default

private theorem dense_eq_fold (t : PT) :
    t.dense = (t.cells.foldl (fun a kv => a.setIfInBounds (flat t.vshape kv.1) kv.2)
      (Array.replicate (numel t.vshape) t.default)).toList := by
  unfold PT.dense PT.cells
  rw [List.foldl_map]

private theorem length_dense (t : PT) : t.dense.length = numel t.vshape := by
  rw [dense_eq_fold, Array.length_toList, foldl_set_size (fun kv => flat t.vshape kv.1)]; simp

private theorem dense_cell' (t : PT) (h : t.wf = true) (c : List Nat) (hc : c ∈ assigns t.vshape) :
    t.dense[flat t.vshape c]? = some (valueAt t c) := by
  obtain ⟨hn, hr⟩ := wf_keys t h
  rw [dense_eq_fold, Array.getElem?_toList]
  have hpos : (t.cells.map (fun kv => flat t.vshape kv.1)).Nodup := by
    have : t.cells.map (fun kv => flat t.vshape kv.1) = (keys t).map (flat t.vshape) := by
      unfold keys; rw [List.map_map]; rfl
    rw [this]
    exact List.Nodup.map_on (fun x hx y hy e => flat_inj (hr x hx) (hr y hy) e) hn
  unfold valueAt
  cases hf : t.cells.find? (·.1 == c) with
  | some p =>
    have hp := List.mem_of_find?_eq_some hf
    have hk : p.1 = c := by simpa using List.find?_some hf
    have := foldl_set_hit (fun kv => flat t.vshape kv.1) t.cells
      (Array.replicate (numel t.vshape) t.default) p hpos hp
      (by simpa using flat_lt (hr p.1 (List.mem_map_of_mem hp)))
    simp only [hk] at this
    simpa using this
  | none =>
    rw [List.find?_eq_none] at hf
    rw [foldl_set_other (fun kv => flat t.vshape kv.1)]
    · simp [flat_lt hc]
    · intro kv hkv e
      have := flat_inj (hr kv.1 (List.mem_map_of_mem hkv)) hc e
      exact hf kv hkv (by simpa using this)

/-- the denoted tensor, cell by cell in row-major order -/
private theorem dense_eq_map (t : PT) (h : t.wf = true) : t.dense = (assigns t.vshape).map (valueAt t) := by
  apply List.ext_getElem?
  intro k
  by_cases hk : k < (assigns t.vshape).length
  · rw [List.getElem?_map, List.getElem?_eq_getElem hk, Option.map_some,
      ← dense_cell' t h _ (List.getElem_mem hk), flat_getElem hk]
  · have h1 : t.dense.length ≤ k := by rw [length_dense, ← length_assigns]; omega
    have h2 : ((assigns t.vshape).map (valueAt t)).length ≤ k := by rw [List.length_map]; omega
    rw [List.getElem?_eq_none h1, List.getElem?_eq_none h2]


/-! ### counting -/

/-- inclusion–exclusion for two duplicate-free sublists `K`, `L` of a duplicate-free list `A` -/
private theorem count_unbacked {α : Type} (A K L : List α) (inL : α → Bool) (hin : ∀ x, inL x = true ↔ x ∈ L)
    (hA : A.Nodup) (hK : K.Nodup) (hL : L.Nodup) (hKA : K ⊆ A) (hLA : L ⊆ A) :
    (∃ c ∈ A, c ∉ K ∧ c ∉ L) ↔ K.length + L.length < A.length + (K.filter inL).length := by
  have hsplit := List.length_eq_length_filter_add (l := K) inL
  have hU : (L ++ K.filter (fun x => !inL x)).Nodup := by
    rw [List.nodup_append]
    refine ⟨hL, hK.filter _, ?_⟩
    intro a ha b hb e
    have := (List.mem_filter.1 hb).2
    subst e
    simp [(hin a).2 ha] at this
  have hUA : (L ++ K.filter (fun x => !inL x)) ⊆ A := by
    intro x hx
    rcases List.mem_append.1 hx with hx | hx
    · exact hLA hx
    · exact hKA (List.mem_filter.1 hx).1
  have hlen : (L ++ K.filter (fun x => !inL x)).length =
      L.length + (K.filter (fun x => !inL x)).length := List.length_append
  constructor
  · rintro ⟨c, hcA, hcK, hcL⟩
    by_contra hlt
    have hle : A.length ≤ (L ++ K.filter (fun x => !inL x)).length := by omega
    have hperm := (hU.subperm hUA).perm_of_length_le hle
    have : c ∈ L ++ K.filter (fun x => !inL x) := hperm.mem_iff.2 hcA
    rcases List.mem_append.1 this with h | h
    · exact hcL h
    · exact hcK (List.mem_filter.1 h).1
  · intro hlt
    by_contra hne
    have hsub : A ⊆ L ++ K.filter (fun x => !inL x) := by
      intro c hc
      by_cases hcL : c ∈ L
      · exact List.mem_append_left _ hcL
      · by_cases hcK : c ∈ K
        · refine List.mem_append_right _ (List.mem_filter.2 ⟨hcK, ?_⟩)
          have : inL c = false := by
            cases h : inL c
            · rfl
            · exact absurd ((hin c).1 h) hcL
          simp [this]
        · exact absurd ⟨c, hc, hcK, hcL⟩ hne
    have := hA.length_le_of_subset hsub
    omega

private theorem any_key (u : PT) (c : List Nat) : u.cells.any (·.1 == c) = decide (c ∈ keys u) := by
  rw [Bool.eq_iff_iff]
  simp only [List.any_eq_true, beq_iff_eq, decide_eq_true_eq, keys, List.mem_map]

private theorem overlap_length (t u : PT) :
    (t.cells.filter (fun p => u.cells.any (·.1 == p.1))).length =
      ((keys t).filter (fun c => u.cells.any (·.1 == c))).length := by
  unfold keys
  rw [List.filter_map, List.length_map]
  rfl

private theorem valueAt_of_mem (t : PT) (hn : (keys t).Nodup) (p : List Nat × Ext) (hp : p ∈ t.cells) :
    valueAt t p.1 = p.2 := by
  unfold valueAt
  cases hf : t.cells.find? (·.1 == p.1) with
  | none =>
    rw [List.find?_eq_none] at hf
    exact absurd (by simp) (hf p hp)
  | some q =>
    have hq := List.mem_of_find?_eq_some hf
    have hk : q.1 = p.1 := by simpa using List.find?_some hf
    have : q = p := List.inj_on_of_nodup_map hn hq hp hk
    rw [this]

private theorem valueAt_of_not_mem (t : PT) (c : List Nat) (hc : c ∉ keys t) : valueAt t c = t.default := by
  unfold valueAt
  cases hf : t.cells.find? (·.1 == c) with
  | none => rfl
  | some q =>
    have hq := List.mem_of_find?_eq_some hf
    have hk : q.1 = c := by simpa using List.find?_some hf
    exact absurd (hk ▸ List.mem_map_of_mem hq) hc

private theorem compareModel_iff (cmp : Ext → Ext → Bool) (t u : PT) :
    PT.compareModel cmp t u = true ↔ t.vshape = u.vshape ∧
      (∀ p ∈ t.cells, p.1 ∈ keys u → ∀ q, u.cells.find? (·.1 == p.1) = some q → cmp p.2 q.2 = true) ∧
      (numel t.vshape + (t.cells.filter (fun p => u.cells.any (·.1 == p.1))).length ≤
          t.cells.length + u.cells.length ∨ cmp t.default u.default = true) ∧
      (∀ p ∈ t.cells, cmp p.2 u.default = true ∨ p.1 ∈ keys u) ∧
      (∀ q ∈ u.cells, cmp t.default q.2 = true ∨ q.1 ∈ keys t) := by
  unfold PT.compareModel
  by_cases hs : t.vshape = u.vshape
  · have hne : (t.vshape != u.vshape) = false := by simp [hs]
    have hif : ∀ (B X : Bool), (if (!B) = true then false else X) = true ↔ B = true ∧ X = true := by
      intro B X; cases B <;> simp
    simp only [hne, Bool.false_eq_true, if_false]
    rw [hif]
    simp only [hs, true_and, Bool.and_eq_true, Bool.or_eq_true, decide_eq_true_eq, List.all_eq_true,
      any_key, and_assoc, List.mem_filter, and_imp]
    refine and_congr ?_ Iff.rfl
    refine forall_congr' fun p => forall_congr' fun hp => forall_congr' fun hk => ?_
    cases hf : List.find? (fun x => x.1 == p.1) u.cells <;> simp
  · simp [hs]


private theorem compareSpec_iff (cmp : Ext → Ext → Bool) (t u : PT) (ht : t.wf = true) (hu : u.wf = true) :
    PT.compareSpec cmp t u = true ↔ t.vshape = u.vshape ∧
      ∀ c ∈ assigns t.vshape, cmp (valueAt t c) (valueAt u c) = true := by
  unfold PT.compareSpec
  rw [Bool.and_eq_true, beq_iff_eq]
  refine and_congr_right fun hs => ?_
  rw [dense_eq_map t ht, dense_eq_map u hu, ← hs, List.zip_map', List.all_map, List.all_eq_true]
  rfl

private theorem all_ne_iff (t : PT) (c : List Nat) : t.cells.all (·.1 != c) = true ↔ c ∉ keys t := by
  simp only [List.all_eq_true, bne_iff_ne, keys, List.mem_map, not_exists, not_and]

private theorem unbacked_iff (t u : PT) (ht : t.wf = true) (hu : u.wf = true) (hs : t.vshape = u.vshape) :
    (∃ c ∈ assigns t.vshape, c ∉ keys t ∧ c ∉ keys u) ↔
    t.cells.length + u.cells.length <
      numel t.vshape + (t.cells.filter (fun p => u.cells.any (·.1 == p.1))).length := by
  obtain ⟨hnt, hrt⟩ := wf_keys t ht
  obtain ⟨hnu, hru⟩ := wf_keys u hu
  rw [← hs] at hru
  have := count_unbacked (assigns t.vshape) (keys t) (keys u) (fun c => u.cells.any (·.1 == c))
    (fun c => by rw [any_key]; simp) (nodup_assigns _) hnt hnu hrt hru
  have hk : ∀ w : PT, (keys w).length = w.cells.length := fun w => List.length_map _
  rw [this, overlap_length, length_assigns, hk t, hk u]

/-- the cell of the dense tensor at a virtual index tuple `c` (in range): the value of the physical element
mapped to `c`, if any (unique under `wf`), else the default -/
theorem dense_cell (t : PT) (h : t.wf = true) (c : List Nat)
    (hc : c.length = t.vshape.length ∧ ∀ i (hi : i < c.length) (hi' : i < t.vshape.length), c[i] < t.vshape[i]) :
    t.dense[flat t.vshape c]? = some (match t.cells.find? (·.1 == c) with | some p => p.2 | none => t.default) := by
  have hm : c ∈ assigns t.vshape := by
    rw [mem_assigns_iff, List.forall₂_iff_get]
    exact ⟨hc.1, fun i h1 h2 => by simpa using hc.2 i h1 h2⟩
  exact dense_cell' t h c hm

/-- inclusion–exclusion on the two injective images: some cell is backed by neither side iff
`numel + |overlap| > |P_t| + |P_u|` -/
theorem exists_unbacked_iff (t u : PT) (ht : t.wf = true) (hu : u.wf = true) (hs : t.vshape = u.vshape) :
    (∃ c ∈ assigns t.vshape, (t.cells.all (·.1 != c)) ∧ (u.cells.all (·.1 != c))) ↔
    t.cells.length + u.cells.length < numel t.vshape + (t.cells.filter (fun p => u.cells.any (·.1 == p.1))).length := by
  rw [← unbacked_iff t u ht hu hs]
  simp only [all_ne_iff]

/-- **equal/allclose are decided correctly**: for well-formed operands and any elementwise test `cmp`, the
library's decision procedure returns exactly the elementwise comparison of the dense tensors.
(`equal`: `cmp = Ext.eqIEEE`; `allclose`: `cmp = isclose rtol atol equal_nan`, self-side element first.) -/
theorem compareModel_eq_compareSpec (cmp : Ext → Ext → Bool) (t u : PT) (ht : t.wf = true) (hu : u.wf = true) :
    PT.compareModel cmp t u = PT.compareSpec cmp t u := by
  rw [Bool.eq_iff_iff, compareModel_iff, compareSpec_iff cmp t u ht hu]
  refine and_congr_right fun hs => ?_
  obtain ⟨hnt, hrt⟩ := wf_keys t ht
  obtain ⟨hnu, hru⟩ := wf_keys u hu
  rw [← hs] at hru
  have hcount := unbacked_iff t u ht hu hs
  constructor
  · rintro ⟨hov, hdef, hself, hother⟩ c hc
    by_cases hct : c ∈ keys t
    · obtain ⟨p, hp, rfl⟩ := List.mem_map.1 hct
      rw [valueAt_of_mem t hnt p hp]
      by_cases hcu : p.1 ∈ keys u
      · obtain ⟨q, hq, hqp⟩ := List.mem_map.1 hcu
        have hv := valueAt_of_mem u hnu q hq
        rw [hqp] at hv
        rw [hv]
        apply hov p hp hcu q
        have : valueAt u q.1 = q.2 := valueAt_of_mem u hnu q hq
        cases hf : u.cells.find? (·.1 == p.1) with
        | none =>
          rw [List.find?_eq_none] at hf
          exact absurd (by simpa using hqp) (hf q hq)
        | some q' =>
          have hq' := List.mem_of_find?_eq_some hf
          have hk : q'.1 = p.1 := by simpa using List.find?_some hf
          rw [List.inj_on_of_nodup_map hnu hq' hq (hk.trans hqp.symm)]
      · rw [valueAt_of_not_mem u _ hcu]
        exact (hself p hp).resolve_right hcu
    · rw [valueAt_of_not_mem t _ hct]
      by_cases hcu : c ∈ keys u
      · obtain ⟨q, hq, rfl⟩ := List.mem_map.1 hcu
        rw [valueAt_of_mem u hnu q hq]
        exact (hother q hq).resolve_right hct
      · rw [valueAt_of_not_mem u _ hcu]
        refine hdef.resolve_left ?_
        have := hcount.1 ⟨c, hc, hct, hcu⟩
        omega
  · intro hall
    refine ⟨?_, ?_, ?_, ?_⟩
    · intro p hp hk q hf
      have hq := List.mem_of_find?_eq_some hf
      have hqp : q.1 = p.1 := by simpa using List.find?_some hf
      have := hall p.1 (hrt _ (List.mem_map_of_mem hp))
      rw [valueAt_of_mem t hnt p hp, ← hqp, valueAt_of_mem u hnu q hq] at this
      exact this
    · by_cases hle : numel t.vshape + (t.cells.filter (fun p => u.cells.any (·.1 == p.1))).length ≤
          t.cells.length + u.cells.length
      · exact Or.inl hle
      · obtain ⟨c, hc, hct, hcu⟩ := hcount.2 (by omega)
        have := hall c hc
        rw [valueAt_of_not_mem t _ hct, valueAt_of_not_mem u _ hcu] at this
        exact Or.inr this
    · intro p hp
      by_cases hk : p.1 ∈ keys u
      · exact Or.inr hk
      · have := hall p.1 (hrt _ (List.mem_map_of_mem hp))
        rw [valueAt_of_mem t hnt p hp, valueAt_of_not_mem u _ hk] at this
        exact Or.inl this
    · intro q hq
      by_cases hk : q.1 ∈ keys t
      · exact Or.inr hk
      · have := hall q.1 (hru _ (List.mem_map_of_mem hq))
        rw [valueAt_of_mem u hnu q hq, valueAt_of_not_mem t _ hk] at this
        exact Or.inl this

private theorem eqIEEE_comm (a b : Ext) : Ext.eqIEEE a b = Ext.eqIEEE b a := by
  cases a <;> cases b <;> simp [Ext.eqIEEE, eq_comm]

/-- equal is symmetric -/
theorem equalModel_symm (t u : PT) (ht : t.wf = true) (hu : u.wf = true) : t.equalModel u = u.equalModel t := by
  unfold PT.equalModel
  rw [compareModel_eq_compareSpec _ t u ht hu, compareModel_eq_compareSpec _ u t hu ht, Bool.eq_iff_iff,
    compareSpec_iff _ t u ht hu, compareSpec_iff _ u t hu ht]
  constructor
  · rintro ⟨hs, h⟩
    exact ⟨hs.symm, fun c hc => by rw [eqIEEE_comm]; exact h c (hs ▸ hc)⟩
  · rintro ⟨hs, h⟩
    exact ⟨hs.symm, fun c hc => by rw [eqIEEE_comm]; exact h c (hs ▸ hc)⟩

end C13
