/-
C04c — the table-FILLING phase of `viterbi` (model `Vt.viterbiTables`: `F_viterbi` per nonterminal and rule, the driver
loop over the components with its fixed-point iteration): when the iteration converges, the tables it leaves are
LOCALLY OPTIMAL and the tabulated maxima DOMINATE every candidate:

* for every nonterminal that has a value and every cell, the recorded rule index and internal-node pointer name a rule
  of that nonterminal and an assignment whose weight — the product of the rule's edge weights, nonterminal edges read
  from the final table `maximum` — is exactly the tabulated maximum of the cell (`tables_locallyOptimal`);
* no rule of the nonterminal and no assignment of its internal nodes weighs more than the tabulated maximum
  (`tables_dominate`): `maximum` is a fixed point of the max-plus equations.

Together with C04b (`reconstructChecked_eq`, `reconstructChecked_weight`: a locally optimal reconstruction is a
well-formed derivation of exactly the tabulated weight) and C04 (`checkDeriv_le_kleene`: no derivation weighs more than
the Kleene limit) this covers `viterbi` from the equations to the returned derivation, for the model's argmax (the first
maximal assignment).  The kernel's own tie-breaking is not modelled; the implementation's pointers are checked per run to
be argmaxes (`Vt.ptrOk`).
-/
import FggsModel.ViterbiTables
import FggsProofs.Props.C04b
import FggsProofs.PipeLemmas
import FggsProofs.C04cTableLemmas
import FggsProofs.C04cDriverLemmas
import Mathlib.Tactic.Linarith
import Mathlib.Data.List.Basic

set_option linter.unusedSimpArgs false
set_option linter.unusedVariables false

namespace C04c
open Fggs Fggs.Sem Fggs.Pipe Fggs.Vt PipeL C04cL

variable {K : Type}

/-- what the comparison `gt` (strictly greater) must satisfy for "first maximal" to be maximal: irreflexive, and
"not greater" is transitive (a strict weak order; `Ext.gt` on the Viterbi carrier, NaN excluded) -/
structure GtLaws (gt : K → K → Bool) : Prop where
  irrefl : ∀ a, gt a a = false
  negTrans : ∀ a b c, gt a b = false → gt b c = false → gt a c = false

/-- the index tuple of cell `c` of a tensor of the given shape (inverse of `flat`) -/
def cellIdx (shape : List Nat) (c : Nat) : List Nat := (Sem.assigns shape)[c]?.getD []

/-! ### local optimality -/

/-- the statement as first given (no hypothesis on the grammar): FALSE, see `tables_locallyOptimal_counterexample` -/
def tables_locallyOptimal_statement : Prop :=
  ∀ {K : Type} [BEq K] [LawfulBEq K] (S : SR K) (gt : K → K → Bool) (G : Grammar K) (kmax : Nat)
    (hconv : (viterbiTables S gt G kmax).converged = true)
    (X : Nat) (hX : X < G.nts.length) (nt : NtTables K) (hnt : tablesOf (viterbiTables S gt G kmax) X = some nt)
    (vals : List K) (hv : nt.value = some vals),
    let st := viterbiTables S gt G kmax
    let shape := G.shapeOf (G.nts[X]?.getD [])
    cellsOf S G st.maximum X = vals ∧ vals.length = numel shape ∧
    ∀ c, c < numel shape →
      ∃ r ptrs ptr, (G.rulesOf X)[nt.lhs[c]?.getD 0]? = some r ∧ (nt.rhs[nt.lhs[c]?.getD 0]?).join = some ptrs ∧
        ptrs[c]? = some ptr ∧ ptr.length = (appearOrder r).length ∧
        candWeight S G st.maximum r (cellIdx shape c) ptr = vals[c]?.getD S.zero

/-- a WELL-FORMED grammar with an EMPTY domain: `S → (one internal node x, one terminal edge on x)`, `|dom x| = 0`.
The internal node has no assignment, the rule's table holds the pointer `[]` (and the value zero), whose length is not
the number of internal nodes. -/
def cexEmptyDom : Grammar Bool :=
  { nls := [0], terms := [[0]], nts := [[]], start := 0, rules := [⟨0, [0], [], [(0, [0])]⟩], weights := [[]] }

theorem cexEmptyDom_wf : GrammarWF cexEmptyDom := by
  refine ⟨?_, ?_, ?_⟩
  · intro r hr; simp [cexEmptyDom] at hr; subst hr; decide
  · intro r hr; simp [cexEmptyDom] at hr; subst hr; decide
  · intro r hr; simp [cexEmptyDom] at hr; subst hr
    refine ⟨?_, ?_, ?_, ?_⟩
    · intro v hv; simp at hv
    · intro e he v hv; simp at he; subst he; simp at hv; subst hv; decide
    · intro e he; simp at he; subst he; decide
    · intro e he; simp at he; subst he; decide

theorem tables_locallyOptimal_counterexample : ¬ tables_locallyOptimal_statement := by
  intro h
  have hnt : tablesOf (viterbiTables boolSR (fun a b => a && !b) cexEmptyDom 3) 0 =
      some ⟨some [false], [0], [some [[]]], [none]⟩ := by rfl
  obtain ⟨r, ptrs, ptr, h1, h2, h3, h4, -⟩ :=
    (h boolSR (fun a b => a && !b) cexEmptyDom 3 (by decide +kernel) 0 (by decide) _ hnt [false] rfl).2.2 0 (by decide)
  change some (⟨0, [0], [], [(0, [0])]⟩ : Rule) = some r at h1
  change some [[]] = some ptrs at h2
  injection h1 with h1
  injection h2 with h2
  subst h1; subst h2
  change some [] = some ptr at h3
  injection h3 with h3
  subst h3
  revert h4
  decide

/-- the hypothesis on the rules' types is needed, too: `S : [x]` with `|dom x| = 2` and a rule without external nodes —
the rule's table has one cell, the nonterminal two -/
def cexIllTyped : Grammar Bool :=
  { nls := [2], terms := [], nts := [[0]], start := 0, rules := [⟨0, [], [], []⟩], weights := [] }

theorem tables_locallyOptimal_illTyped :
    (viterbiTables boolSR (fun a b => a && !b) cexIllTyped 3).converged = true ∧
    ((tablesOf (viterbiTables boolSR (fun a b => a && !b) cexIllTyped 3) 0).bind (·.value)) = some [true] ∧
    numel (cexIllTyped.shapeOf (cexIllTyped.nts[0]?.getD [])) = 2 := by
  decide +kernel

/-- **local optimality at convergence**.
Two hypotheses were added to the statement first given (`tables_locallyOptimal_statement`):
* `hG`: the grammar is well formed (`PipeL.GrammarWF`: the external nodes of a rule have the type of its left-hand side,
  positions in range, edges typed by their labels) — otherwise a rule's table need not have the nonterminal's shape
  (`tables_locallyOptimal_illTyped`), and the component order is not known to be a dependency order;
* `hdom`: no node of a rule has an empty domain — otherwise a rule whose internal nodes have no assignment leaves the
  pointer `[]` (`tables_locallyOptimal_counterexample`). -/
theorem tables_locallyOptimal [BEq K] [LawfulBEq K] (S : SR K) (gt : K → K → Bool) (G : Grammar K)
    (hG : GrammarWF G)                                              -- ADDED
    (hdom : ∀ r ∈ G.rules, ∀ l ∈ r.nodes, 0 < G.dom l)               -- ADDED
    (kmax : Nat)
    (hconv : (viterbiTables S gt G kmax).converged = true)
    (X : Nat) (hX : X < G.nts.length) (nt : NtTables K) (hnt : tablesOf (viterbiTables S gt G kmax) X = some nt)
    (vals : List K) (hv : nt.value = some vals) :
    let st := viterbiTables S gt G kmax
    let shape := G.shapeOf (G.nts[X]?.getD [])
    cellsOf S G st.maximum X = vals ∧ vals.length = numel shape ∧
    ∀ c, c < numel shape →
      ∃ r ptrs ptr, (G.rulesOf X)[nt.lhs[c]?.getD 0]? = some r ∧ (nt.rhs[nt.lhs[c]?.getD 0]?).join = some ptrs ∧
        ptrs[c]? = some ptr ∧ ptr.length = (appearOrder r).length ∧
        candWeight S G st.maximum r (cellIdx shape c) ptr = vals[c]?.getD S.zero := by
  intro st shape
  obtain ⟨nt', hnt', hg⟩ := viterbiTables_good S gt G hG kmax hconv X hX
  rw [hnt] at hnt'
  injection hnt' with hnt'
  subst hnt'
  have hv' : (fViterbiNt S gt G nt.readVal X).value = some vals := by rw [← hg.value]; exact hv
  have hshape := extShape_rulesOf G hG X
  obtain ⟨hlen, hcells⟩ := fViterbiNt_spec S gt G nt.readVal X hshape vals hv'
  refine ⟨?_, hlen, ?_⟩
  · show cellsOf S G (viterbiTables S gt G kmax).maximum X = vals
    unfold cellsOf
    rw [hg.ent, hv]
  · intro c hc
    obtain ⟨r, tbl, e, h1, h2, h3, h4, h5⟩ := hcells c hc
    rw [← hg.lhs] at h1 h3
    rw [← hg.rhs] at h3
    have hr : r ∈ G.rulesOf X := List.mem_of_getElem? h1
    have hrG : r ∈ G.rules := (List.mem_filter.1 hr).1
    have he : e = tblEntry S gt G nt.readVal r (cellIdx shape c) :=
      tblEntry_of_getElem? S gt G nt.readVal r tbl h2 shape (hshape r hr) c hc e h4
    have hne : innerAssigns G r ≠ [] := innerAssigns_ne_nil G hG r hrG (hdom r hrG)
    obtain ⟨hmem, hw⟩ := tblEntry_mem S gt G nt.readVal r (cellIdx shape c) hne
    refine ⟨r, tbl.map (·.2), e.2, h1, h3, by simp [h4], ?_, ?_⟩
    · rw [he]; exact length_of_mem_innerAssigns G r _ hmem
    · rw [h5, Option.getD_some, he, hw]
      exact candWeight_congr S G _ _ r (hg.cells r hr) _ _

/-! ### domination -/

/-- the statement as first given: FALSE, see `tables_dominate_counterexample` (the laws `GtLaws` do not make `gt`
asymmetric) and `tables_dominate_counterexample_skipped` (a rule skipped by the application that converged) -/
def tables_dominate_statement : Prop :=
  ∀ {K : Type} [BEq K] [LawfulBEq K] (S : SR K) (gt : K → K → Bool) (hgt : GtLaws gt) (G : Grammar K) (kmax : Nat)
    (hconv : (viterbiTables S gt G kmax).converged = true)
    (X : Nat) (hX : X < G.nts.length) (nt : NtTables K) (hnt : tablesOf (viterbiTables S gt G kmax) X = some nt)
    (vals : List K) (hv : nt.value = some vals)
    (r : Rule) (hr : r ∈ G.rulesOf X) (hval : ∀ e ∈ r.edges, e.1 ≥ G.T → ((viterbiTables S gt G kmax).maximum[e.1 - G.T]?.join).isSome)
    (c : Nat) (hc : c < numel (G.shapeOf (G.nts[X]?.getD []))) (ptr : List Nat) (hp : ptr ∈ innerAssigns G r),
    gt (candWeight S G (viterbiTables S gt G kmax).maximum r (cellIdx (G.shapeOf (G.nts[X]?.getD [])) c) ptr)
       (vals[c]?.getD S.zero) = false

/-- `S → (one internal node x with two values, one terminal edge on x with weights true, false)`, compared with
`gt a b := a ≠ b` — irreflexive and "not greater" is transitive, but not asymmetric: the later candidate `false`
replaces the incumbent `true`, which is "greater" than it. -/
def cexNeq : Grammar Bool :=
  { nls := [2], terms := [[0]], nts := [[]], start := 0, rules := [⟨0, [0], [], [(0, [0])]⟩], weights := [[true, false]] }

theorem gtLaws_neq : GtLaws (fun a b : Bool => a != b) :=
  ⟨by decide, by decide⟩

theorem tables_dominate_counterexample : ¬ tables_dominate_statement := by
  intro h
  have hnt : tablesOf (viterbiTables boolSR (fun a b => a != b) cexNeq 3) 0 =
      some ⟨some [false], [0], [some [[1]]], [none]⟩ := by rfl
  have := h boolSR (fun a b => a != b) gtLaws_neq cexNeq 3 (by decide +kernel) 0 (by decide) _ hnt [false] rfl
    ⟨0, [0], [], [(0, [0])]⟩ (by decide) (by decide +kernel) 0 (by decide) [0] (by decide)
  revert this
  decide +kernel

/-- the statement with asymmetry added is still FALSE: see `tables_dominate_counterexample_skipped` -/
def tables_dominate_statement_asymm : Prop :=
  ∀ {K : Type} [BEq K] [LawfulBEq K] (S : SR K) (gt : K → K → Bool) (hgt : GtLaws gt)
    (hasym : ∀ a b, gt a b = true → gt b a = false) (G : Grammar K) (hG : GrammarWF G) (kmax : Nat)
    (hconv : (viterbiTables S gt G kmax).converged = true)
    (X : Nat) (hX : X < G.nts.length) (nt : NtTables K) (hnt : tablesOf (viterbiTables S gt G kmax) X = some nt)
    (vals : List K) (hv : nt.value = some vals)
    (r : Rule) (hr : r ∈ G.rulesOf X) (hval : ∀ e ∈ r.edges, e.1 ≥ G.T → ((viterbiTables S gt G kmax).maximum[e.1 - G.T]?.join).isSome)
    (c : Nat) (hc : c < numel (G.shapeOf (G.nts[X]?.getD []))) (ptr : List Nat) (hp : ptr ∈ innerAssigns G r),
    gt (candWeight S G (viterbiTables S gt G kmax).maximum r (cellIdx (G.shapeOf (G.nts[X]?.getD [])) c) ptr)
       (vals[c]?.getD S.zero) = false

/-- a "semiring" whose zero does not annihilate: `(ℕ, max, +)` with zero = one = 0 -/
def cexSR : SR Nat := ⟨0, 0, max, (· + ·)⟩

/-- `X → X a | b` with `b = 0` (the zero of `cexSR`) and `a = 5`: the first application skips `X → X a` (X has no value),
finds `X = [0]` from `X → b`, and the stopping test accepts at once (no value = zero = `[0]`).  The loop has converged
with `X → X a` SKIPPED in the very iteration that converged; that rule now has a value (`X = [0]` is present), its
candidate weighs `0 + 5`, more than the tabulated maximum `0`.  (In the Viterbi semiring the corner is harmless: there
zero = -∞ annihilates, the skipped rule's candidates all weigh -∞ — see `tables_dominate_annihilating`.) -/
def cexSkipped : Grammar Nat :=
  { nls := [1], terms := [[0], [0]], nts := [[0]], start := 0,
    rules := [⟨0, [0], [0], [(2, [0]), (0, [0])]⟩, ⟨0, [0], [0], [(1, [0])]⟩], weights := [[5], [0]] }

theorem cexSkipped_wf : GrammarWF cexSkipped := by
  refine ⟨?_, ?_, ?_⟩
  · intro r hr; simp [cexSkipped] at hr; rcases hr with rfl | rfl <;> decide
  · intro r hr; simp [cexSkipped] at hr; rcases hr with rfl | rfl <;> decide
  · intro r hr; simp [cexSkipped] at hr
    rcases hr with rfl | rfl
    · refine ⟨?_, ?_, ?_, ?_⟩
      · intro v hv; simp at hv; subst hv; decide
      · intro e he v hv; simp at he; rcases he with rfl | rfl <;> (simp at hv; subst hv; decide)
      · intro e he; simp at he; rcases he with rfl | rfl <;> decide
      · intro e he; simp at he; rcases he with rfl | rfl <;> decide
    · refine ⟨?_, ?_, ?_, ?_⟩
      · intro v hv; simp at hv; subst hv; decide
      · intro e he v hv; simp at he; subst he; simp at hv; subst hv; decide
      · intro e he; simp at he; subst he; decide
      · intro e he; simp at he; subst he; decide

theorem tables_dominate_counterexample_skipped : ¬ tables_dominate_statement_asymm := by
  intro h
  have hnt : tablesOf (viterbiTables cexSR (fun a b => decide (a > b)) cexSkipped 3) 0 =
      some ⟨some [0], [1], [none, some [[]]], [none]⟩ := by rfl
  have := h cexSR (fun a b => decide (a > b))
    ⟨by intro a; simp, by intro a b c h1 h2; simp at h1 h2 ⊢; omega⟩
    (by intro a b h1; simp at h1 ⊢; omega) cexSkipped cexSkipped_wf 3 (by decide +kernel) 0 (by decide) _ hnt [0] rfl
    ⟨0, [0], [0], [(2, [0]), (0, [0])]⟩ (by decide) (by decide +kernel) 0 (by decide) [] (by decide)
  revert this
  decide +kernel

/-- the core of `tables_dominate`: a rule that was not skipped by the last application is dominated -/
theorem tables_dominate_core [BEq K] [LawfulBEq K] (S : SR K) (gt : K → K → Bool) (hgt : GtLaws gt)
    (hasym : ∀ a b, gt a b = true → gt b a = false) (G : Grammar K) (hG : GrammarWF G) (kmax : Nat)
    (hconv : (viterbiTables S gt G kmax).converged = true)
    (X : Nat) (hX : X < G.nts.length) (nt : NtTables K) (hnt : tablesOf (viterbiTables S gt G kmax) X = some nt)
    (vals : List K) (hv : nt.value = some vals)
    (r : Rule) (hr : r ∈ G.rulesOf X)
    (hrt : (ruleTable S gt G nt.readVal r).isSome = true)
    (c : Nat) (hc : c < numel (G.shapeOf (G.nts[X]?.getD []))) (ptr : List Nat) (hp : ptr ∈ innerAssigns G r) :
    gt (candWeight S G (viterbiTables S gt G kmax).maximum r (cellIdx (G.shapeOf (G.nts[X]?.getD [])) c) ptr)
       (vals[c]?.getD S.zero) = false := by
  obtain ⟨nt', hnt', hg⟩ := viterbiTables_good S gt G hG kmax hconv X hX
  rw [hnt] at hnt'
  injection hnt' with hnt'
  subst hnt'
  have hv' : (fViterbiNt S gt G nt.readVal X).value = some vals := by rw [← hg.value]; exact hv
  have hshape := extShape_rulesOf G hG X
  obtain ⟨hlen, -⟩ := fViterbiNt_spec S gt G nt.readVal X hshape vals hv'
  obtain ⟨tbl, htbl⟩ := Option.isSome_iff_exists.1 hrt
  have hcl : c < tbl.length := by rw [ruleTable_length S gt G nt.readVal r tbl htbl, hshape r hr]; exact hc
  have he : tbl[c] = tblEntry S gt G nt.readVal r (cellIdx (G.shapeOf (G.nts[X]?.getD [])) c) :=
    tblEntry_of_getElem? S gt G nt.readVal r tbl htbl _ (hshape r hr) c hc tbl[c] (by simp [hcl])
  have hcv : c < vals.length := by rw [hlen]; exact hc
  have hdom := fViterbiNt_dom S gt hgt.negTrans hasym G nt.readVal X vals hv' r hr tbl htbl c tbl[c] vals[c]
    (by simp [hcl]) (by simp [hcv])
  have hcand := tblEntry_dom S gt hgt.negTrans hasym G nt.readVal r
    (cellIdx (G.shapeOf (G.nts[X]?.getD [])) c) ptr hp
  rw [← he] at hcand
  rw [candWeight_congr S G _ _ r (hg.cells r hr)]
  have : vals[c]?.getD S.zero = vals[c] := by simp [hcv]
  rw [this]
  exact hgt.negTrans _ _ _ hcand hdom

/-- **the tabulated maxima dominate every candidate** (fixed point of the max-plus equations).
Three hypotheses were added to the statement first given (`tables_dominate_statement`):
* `hG`: the grammar is well formed (as in `tables_locallyOptimal`);
* `hasym`: `gt` is asymmetric — `GtLaws` alone admits `gt a b := a ≠ b`, for which "first maximal" is not maximal
  (`tables_dominate_counterexample`);
* `hrt`: the rule was not skipped by the application of `F_viterbi` that left the tables (all its nonterminals had a
  value in the valuation `nt.readVal` that application read).  At convergence a rule can have been skipped although all
  its nonterminals have a value in the final `maximum`: a nonterminal of the component that was absent before the last
  application and came out all zero (`tables_dominate_counterexample_skipped`).  `hval` is then redundant but kept.
  `tables_dominate_annihilating` removes `hrt` for a semiring whose zero annihilates and is least. -/
theorem tables_dominate [BEq K] [LawfulBEq K] (S : SR K) (gt : K → K → Bool) (hgt : GtLaws gt)
    (hasym : ∀ a b, gt a b = true → gt b a = false)                  -- ADDED
    (G : Grammar K)
    (hG : GrammarWF G)                                              -- ADDED
    (kmax : Nat)
    (hconv : (viterbiTables S gt G kmax).converged = true)
    (X : Nat) (hX : X < G.nts.length) (nt : NtTables K) (hnt : tablesOf (viterbiTables S gt G kmax) X = some nt)
    (vals : List K) (hv : nt.value = some vals)
    (r : Rule) (hr : r ∈ G.rulesOf X) (hval : ∀ e ∈ r.edges, e.1 ≥ G.T → ((viterbiTables S gt G kmax).maximum[e.1 - G.T]?.join).isSome)
    (hrt : (ruleTable S gt G nt.readVal r).isSome = true)           -- ADDED
    (c : Nat) (hc : c < numel (G.shapeOf (G.nts[X]?.getD []))) (ptr : List Nat) (hp : ptr ∈ innerAssigns G r) :
    gt (candWeight S G (viterbiTables S gt G kmax).maximum r (cellIdx (G.shapeOf (G.nts[X]?.getD [])) c) ptr)
       (vals[c]?.getD S.zero) = false :=
  tables_dominate_core S gt hgt hasym G hG kmax hconv X hX nt hnt vals hv r hr hrt c hc ptr hp

/-- … and in a semiring whose zero annihilates and is least (the Viterbi semiring: zero = -∞) a rule skipped by the
last application weighs zero everywhere, so the tabulated maxima dominate ALL candidates, as first stated -/
theorem tables_dominate_annihilating [BEq K] [LawfulBEq K] (S : SR K) (gt : K → K → Bool) (hgt : GtLaws gt)
    (hasym : ∀ a b, gt a b = true → gt b a = false)
    (hzl : ∀ a, S.mul S.zero a = S.zero) (hzr : ∀ a, S.mul a S.zero = S.zero) (hbot : ∀ a, gt S.zero a = false)
    (G : Grammar K) (hG : GrammarWF G) (kmax : Nat)
    (hconv : (viterbiTables S gt G kmax).converged = true)
    (X : Nat) (hX : X < G.nts.length) (nt : NtTables K) (hnt : tablesOf (viterbiTables S gt G kmax) X = some nt)
    (vals : List K) (hv : nt.value = some vals)
    (r : Rule) (hr : r ∈ G.rulesOf X)
    (c : Nat) (hc : c < numel (G.shapeOf (G.nts[X]?.getD []))) (ptr : List Nat) (hp : ptr ∈ innerAssigns G r) :
    gt (candWeight S G (viterbiTables S gt G kmax).maximum r (cellIdx (G.shapeOf (G.nts[X]?.getD [])) c) ptr)
       (vals[c]?.getD S.zero) = false := by
  cases hrt : ruleTable S gt G nt.readVal r with
  | some tbl =>
    exact tables_dominate_core S gt hgt hasym G hG kmax hconv X hX nt hnt vals hv r hr
      (by rw [hrt]; rfl) c hc ptr hp
  | none =>
    obtain ⟨nt', hnt', hg⟩ := viterbiTables_good S gt G hG kmax hconv X hX
    rw [hnt] at hnt'; injection hnt' with hnt'; subst hnt'
    have hns : ¬ (ruleTable S gt G nt.readVal r).isSome = true := by rw [hrt]; simp
    rw [ruleTable_isSome_iff] at hns
    simp only [not_forall] at hns
    obtain ⟨e, he, hT, hnone⟩ := hns
    have hT' : ¬ e.1 < G.T := by omega
    have hz : cellsOf S G (viterbiTables S gt G kmax).maximum (e.1 - G.T) =
        List.replicate (numel (G.shapeOf (G.nts[e.1 - G.T]?.getD []))) S.zero := by
      rw [hg.cells r hr _ (mem_ntEdgesOf G r e he hT')]
      unfold cellsOf
      cases h : (nt.readVal[e.1 - G.T]?.join) with
      | none => rfl
      | some t => rw [h] at hnone; simp at hnone
    rw [candWeight_zero S hzl hzr G _ r e he hT' hz]
    exact hbot _

/-- the Viterbi semiring satisfies the three extra hypotheses of `tables_dominate_annihilating` (NaN included) -/
theorem vitSR_annihilating :
    (∀ a : Ext, vitSR.mul vitSR.zero a = vitSR.zero) ∧ (∀ a : Ext, vitSR.mul a vitSR.zero = vitSR.zero) ∧
    (∀ a : Ext, Ext.gt vitSR.zero a = false) :=
  ⟨by intro a; cases a <;> rfl, by intro a; cases a <;> rfl, by intro a; cases a <;> rfl⟩

/-! ### totality -/

/-- the statement as first given: FALSE for `kmax = 0` and a recursive nonterminal (no application is made, no table is
left), see `tables_total_counterexample` -/
def tables_total_statement : Prop :=
  ∀ {K : Type} [BEq K] (S : SR K) (gt : K → K → Bool) (G : Grammar K) (kmax : Nat) (X : Nat) (hX : X < G.nts.length),
    (tablesOf (viterbiTables S gt G kmax) X).isSome = true

/-- every nonterminal is given tables (exactly once).
Two hypotheses were added to the statement first given (`tables_total_statement`): `hk` (at least one iteration is
allowed: with `kmax = 0` the loop of a recursive component makes no application and leaves no table,
`tables_total_counterexample` below) and `hG` (the grammar is well formed: the component order is only known to cover
the nonterminals when every edge label is a declared label, `PipeL.sccOrder_ok`). -/
theorem tables_total [BEq K] (S : SR K) (gt : K → K → Bool) (G : Grammar K)
    (hG : GrammarWF G)                                              -- ADDED
    (kmax : Nat)
    (hk : 0 < kmax)                                                 -- ADDED
    (X : Nat) (hX : X < G.nts.length) :
    (tablesOf (viterbiTables S gt G kmax) X).isSome = true :=
  viterbiTables_total S gt G hG kmax hk X hX

/-- at convergence every nonterminal has tables, whatever `kmax` -/
theorem tables_total_of_converged [BEq K] [LawfulBEq K] (S : SR K) (gt : K → K → Bool) (G : Grammar K)
    (hG : GrammarWF G) (kmax : Nat) (hconv : (viterbiTables S gt G kmax).converged = true)
    (X : Nat) (hX : X < G.nts.length) :
    (tablesOf (viterbiTables S gt G kmax) X).isSome = true := by
  obtain ⟨nt, hnt, -⟩ := viterbiTables_good S gt G hG kmax hconv X hX
  rw [hnt]; rfl

/-! ### non-vacuity: S → S a | b over a domain of size 2 (Viterbi semiring) converges -/

def exG : Grammar Ext :=
  { nls := [2], terms := [[0], [0]], nts := [[0]], start := 0,
    rules := [⟨0, [0], [0], [(2, [0]), (0, [0])]⟩, ⟨0, [0], [0], [(1, [0])]⟩],
    weights := [[.fin (-1), .fin (-2)], [.fin 0, .fin (-3)]] }

example : (viterbiTables vitSR (fun a b => a.gt b) exG 100).converged = true := by decide +kernel

/-- with `kmax = 0` the recursive nonterminal of `exG` is left without tables -/
theorem tables_total_counterexample : ¬ tables_total_statement := by
  intro h
  have := h vitSR (fun a b => a.gt b) exG 0 0 (by decide)
  revert this
  decide +kernel

end C04c
