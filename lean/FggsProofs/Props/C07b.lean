/-
C07b — the patterned einsum denotes the semiring einsum of the dense operands.

`Ei.einsum` (FggsModel/EinsumImpl.lean) is the model of `fggs.indices.einsum`: the virtual axes that are co-indexed are
unified (one substitution for the whole job), every operand's physical tensor is re-indexed over the physical axes that
remain free, the physical einsum sums the product of the re-indexed operands over the non-output axes, and the result is
patterned by the substituted virtual axes of the output indices.  When all unifications succeed the result is well
formed and denotes the specification `Es.Job.spec` — the semiring sum, over all values of the non-output indices, of the
product of the operands' DENSE entries (`einsum_dense`) — PROVIDED the constant `FUEL` of `clone` resolves every clone
the model computes and no variable was bound twice (the decidable check `resolved`; without it the statement is false:
`einsum_dense_counterexample` for a small `fuel`, `einsum_dense_counterexample_FUEL` for an axis deeper than `FUEL`).  When a unification fails the result is the zero tensor
(`einsum_zero_of_failure`), which is right exactly when the joint patterns are disjoint — the completeness of
unification is the subject of C06b.
-/
import FggsModel.EinsumImpl
import FggsModel.Einsum
import FggsProofs.Props.C01
import FggsProofs.Props.C06
import FggsProofs.Props.C06b
import FggsProofs.Props.C06d
import FggsProofs.Props.C07
import FggsProofs.Props.C13
import FggsProofs.C06bLemmas
import FggsProofs.C06dBaseLemmas
import FggsProofs.C06dSideLemmas
import FggsProofs.C07bAlgLemmas
import FggsProofs.C07bCloneLemmas
import FggsProofs.C07bCollectLemmas
import FggsProofs.C07bJobLemmas
import FggsProofs.C07bStateLemmas
import FggsProofs.C07bMainLemmas
import FggsProofs.C07bCexLemmas
import Mathlib.Tactic.Linarith
import Mathlib.Data.List.Basic

set_option linter.unusedSimpArgs false
set_option linter.unusedVariables false

namespace C07
open Fggs Fggs.Ax Fggs.Un Fggs.Ei Fggs.Sem

/-- a job as `einsum` receives it after `default_to(zero)` and freshening: well-formed operands with the semiring zero
as default, one index per dimension, pairwise disjoint physical axes below the counter, no axis of size 0, co-indexed
dimensions of equal size, every output index used by some operand -/
structure JobOK (S : SR Ext) (j : EJob) (next : Nat) : Prop where
  wf : ∀ p ∈ j.ops, p.1.wf = true
  zeroDefault : ∀ p ∈ j.ops, p.1.default = S.zero
  arity : ∀ p ∈ j.ops, p.2.length = p.1.vaxes.length
  fresh : ∀ p ∈ j.ops, ∀ k ∈ p.1.paxes, k.1 < next
  pos : ∀ p ∈ j.ops, ∀ k ∈ p.1.paxes, 0 < k.2
  disjoint : j.ops.Pairwise (fun p q => ∀ k ∈ p.1.paxes, ∀ l ∈ q.1.paxes, k.1 ≠ l.1)
  sizes : ∀ p ∈ j.ops, ∀ q ∈ j.ops, ∀ i i', i < p.2.length → i' < q.2.length → p.2[i]? = q.2[i']? →
    p.1.vshape[i]? = q.1.vshape[i']?
  out : ∀ v ∈ j.out, ∃ p ∈ j.ops, v ∈ p.2

/-- the job as the specification sees it -/
def toSpec (j : EJob) : Es.Job := ⟨j.ops, j.out⟩

private theorem toHyp {S : SR Ext} {j : EJob} {next : Nat} (h : JobOK S j next) : C07bL.JobHyp S j next :=
  ⟨h.wf, h.zeroDefault, h.arity, h.fresh, h.pos, h.disjoint, h.sizes, h.out⟩

/-! ### the extra hypothesis of `einsum_dense`: `FUEL` resolves every clone

`Ei.einsum` applies the final substitution with `clone σ FUEL` (`FUEL = 4000`, a constant of the model, independent of
the parameter `fuel` of the unifications).  When a forwarding chain or a virtual axis is deeper than `FUEL`, the clone
still contains BOUND physical axes; the model then treats them as free axes of the physical einsum and the result is
wrong.  (In Python `clone` has no fuel; the corresponding failure there is a substitution with a cycle — `unify` has no
occurs check — on which `clone` does not terminate.)  Likewise, when `fuel` is too small for `lookup` to reach the end
of a forwarding chain, a variable can be bound twice and the older binding is shadowed.  `resolved` is the (decidable)
check on the final substitution that rules both out:
* no variable is bound twice;
* for every binding `(v, a)` the clone of `a` with `FUEL - 1` units of fuel contains no bound physical axis
  (so `clone σ FUEL` of every physical axis of an operand is fully resolved);
* the clone with `FUEL` units of fuel of the table entry of every output index contains no bound physical axis. -/

/-- no physical axis of `e` is bound by `σ` -/
def unbound (σ : Subst) (e : Axis) : Bool := e.fv.all (fun q => (bound σ q.1).isNone)

/-- `FUEL` units of fuel resolve every clone that `einsum` computes -/
def resolved (fuel : Nat) (j : EJob) (next : Nat) : Bool :=
  let c := collect fuel j next
  let σ := c.2.2.subst
  nodupNat (σ.map (·.1)) &&
  σ.all (fun p => unbound σ (clone σ (FUEL - 1) p.2)) &&
  j.out.all (fun v => unbound σ (clone σ FUEL ((c.1.lookup v).getD unitAxis)))

private theorem unbound_iff (σ : Subst) (e : Axis) : unbound σ e = true ↔ C07bL.Unb σ e := by
  unfold unbound C07bL.Unb
  rw [List.all_eq_true]
  constructor
  · intro h q hq
    have := h q hq
    simpa using this
  · intro h q hq
    rw [h q hq]; rfl

private theorem resolvedAt_of {fuel : Nat} {j : EJob} {next : Nat} {tbl : List (Nat × Axis)} {ok : Bool} {st : St}
    (hc : collect fuel j next = (tbl, ok, st)) (h : resolved fuel j next = true) :
    C07bL.ResolvedAt st.subst tbl j.out := by
  unfold resolved at h
  rw [hc] at h
  simp only [Bool.and_eq_true] at h
  obtain ⟨⟨h1, h2⟩, h3⟩ := h
  refine ⟨(C06dL.nodupNat_iff _).1 h1, ?_, ?_⟩
  · intro p hp
    have := List.all_eq_true.1 h2 p hp
    exact (unbound_iff _ _).1 this
  · intro v hv
    have := List.all_eq_true.1 h3 v hv
    exact (unbound_iff _ _).1 this

/-- the statement of `einsum_dense` as it was given: WITHOUT the hypothesis `resolved` it holds neither for a small
`fuel` (a variable bound twice, `einsum_dense_counterexample`) nor for jobs whose axes or forwarding chains are deeper
than the constant `FUEL` of `clone` (`einsum_dense_counterexample_FUEL`); see the note above -/
def einsum_dense_statement : Prop :=
  ∀ (S : SR Ext) (hS : C01.SRLaws S) (fuel : Nat) (j : EJob) (next : Nat) (h : JobOK S j next)
    (hne : j.ops ≠ []) (hok : (collect fuel j next).2.1 = true),
    let r := einsum S fuel j next
    r.wf = true ∧ r.vshape = j.out.map (fun v => (toSpec j).sizes[v]?.getD 1) ∧
    r.dense = (toSpec j).spec S id

/-- **when every unification succeeds, the patterned einsum is the semiring einsum of the dense operands**

EXTRA HYPOTHESIS (not in the statement as given, see `einsum_dense_statement`): `hres`, the decidable check that
`FUEL` units of fuel resolve every clone computed by `einsum` and that no variable is bound twice. -/
theorem einsum_dense (S : SR Ext) (hS : C01.SRLaws S) (fuel : Nat) (j : EJob) (next : Nat) (h : JobOK S j next)
    (hne : j.ops ≠ [])
    (hok : (collect fuel j next).2.1 = true)
    (hres : resolved fuel j next = true) :
    let r := einsum S fuel j next
    r.wf = true ∧ r.vshape = j.out.map (fun v => (toSpec j).sizes[v]?.getD 1) ∧
    r.dense = (toSpec j).spec S id := by
  intro r
  have J := toHyp h
  rcases hc : collect fuel j next with ⟨tbl, ok, st⟩
  rw [hc] at hok
  simp only at hok
  subst hok
  obtain ⟨sz, F⟩ := C07bL.facts_of_collect J hc
  have R := resolvedAt_of hc hres
  have hz : (C07bL.allAxesOf j st.subst).any (fun k => k.2 == 0) = false := by
    rw [List.any_eq_false]
    intro q hq
    have := (C07bL.allAxes_props J F R hq).2.1.2.2
    simp only [beq_iff_eq]
    omega
  have hr : r = Bn.normalize (C07bL.rawOf S j tbl st.subst) := C07bL.einsum_eq S fuel j next tbl st hne hc hz
  obtain ⟨n1, n2, n3⟩ := C06dL.normalize_spec (C07bL.raw_normOK (S := S) J F R)
  rw [hr]
  refine ⟨n1, ?_, ?_⟩
  · rw [n2]; exact C07bL.raw_vshape J F 1
  · rw [n3]; exact C07bL.raw_dense hS J F R

/-! ### instances and counterexamples

`C07bL.latSR` is a commutative semiring on all of `Ext` (sum = maximum, product = minimum of a linear order with bottom
`nan` = zero and top `pinf` = one); the three semirings of the library are commutative semirings only on their
carriers (C11). -/

/-- two vectors of length 12 patterned as `2 × 6` and as `4 × 3`, multiplied elementwise: the unification splits the
axes of sizes 6 and 4 by fresh axes -/
def splitJob : EJob :=
  ⟨[(⟨List.replicate 12 .pinf, [(0, 2), (1, 6)], [.prod [.phys 0 2, .phys 1 6]], .nan⟩, [0]),
    (⟨List.replicate 12 .pinf, [(2, 4), (3, 3)], [.prod [.phys 2 4, .phys 3 3]], .nan⟩, [0])], [0]⟩

/-- the hypotheses `hok` and `hres` of `einsum_dense` hold for it (they are decidable) -/
example : (collect FUEL splitJob 4).2.1 = true ∧ resolved FUEL splitJob 4 = true := by decide

/-- four operands `P1[i] P2[i, k] P3[k] P4[i]`, `P2` diagonal; with `fuel = 1` every unification succeeds, but `lookup`
follows only one forwarding step, so the third unification binds the physical axis 1 a SECOND time and the binding
`1 ↦ 2` (which identifies `i` and `k`) is shadowed -/
def cexJob : EJob :=
  ⟨[(⟨[.pinf, .nan], [(0, 2)], [.phys 0 2], .nan⟩, [0]),
    (⟨[.pinf, .nan], [(1, 2)], [.phys 1 2, .phys 1 2], .nan⟩, [0, 1]),
    (⟨[.nan, .pinf], [(2, 2)], [.phys 2 2], .nan⟩, [1]),
    (⟨[.pinf, .nan], [(3, 2)], [.phys 3 2], .nan⟩, [0])], []⟩

example : (collect 1 cexJob 4).2.2.subst = [(1, .phys 3 2), (1, .phys 2 2), (0, .phys 1 2)] := rfl

private theorem cexJob_ok : JobOK C07bL.latSR cexJob 4 where
  wf := by decide
  zeroDefault := by decide
  arity := by decide
  fresh := by decide
  pos := by decide
  disjoint := by decide
  sizes := by
    have h : ∀ p ∈ cexJob.ops, ∀ q ∈ cexJob.ops, ∀ i, i < p.2.length → ∀ i', i' < q.2.length →
        p.2[i]? = q.2[i']? → p.1.vshape[i]? = q.1.vshape[i']? := by decide
    exact fun p hp q hq i i' hi hi' => h p hp q hq i hi i' hi'
  out := by decide

/-- **the statement as given is false** (small `fuel`: a variable is bound twice): the model returns `one`, the
specification is `zero` -/
theorem einsum_dense_counterexample : ¬ einsum_dense_statement := by
  intro h
  have := (h C07bL.latSR C07bL.latSR_laws 1 cexJob 4 cexJob_ok (by decide) (by decide)).2.2
  revert this
  decide

/-- a virtual axis nested `n` levels deep: `0 + (0 + … e … + 0) + 0` -/
def tower : Nat → Axis → Axis
  | 0, e => e
  | n+1, e => .sum 0 (tower n e) 0

/-- `A[i, k] B[i] C[k]` with `A` diagonal, its first virtual axis 4000 levels deep: the axis 1 of `B` is bound to the
deep axis, the axis 0 inside it is bound (later) to the axis 2 of `C`, and `clone σ FUEL` runs out of fuel before it
reaches the axis 0 -/
def deepJob : EJob :=
  ⟨[(⟨[.pinf, .pinf], [(0, 2)], [tower 4000 (.phys 0 2), .phys 0 2], .nan⟩, [0, 1]),
    (⟨[.pinf, .nan], [(1, 2)], [.phys 1 2], .nan⟩, [0]),
    (⟨[.nan, .pinf], [(2, 2)], [.phys 2 2], .nan⟩, [1])], []⟩

set_option maxRecDepth 100000 in
private theorem deepJob_ok : JobOK C07bL.latSR deepJob 3 where
  wf := by decide
  zeroDefault := by decide
  arity := by decide
  fresh := by decide
  pos := by decide
  disjoint := by decide
  sizes := by
    have h : ∀ p ∈ deepJob.ops, ∀ q ∈ deepJob.ops, ∀ i, i < p.2.length → ∀ i', i' < q.2.length →
        p.2[i]? = q.2[i']? → p.1.vshape[i]? = q.1.vshape[i']? := by decide
    exact fun p hp q hq i i' hi hi' => h p hp q hq i hi i' hi'
  out := by decide

set_option maxRecDepth 100000 in
/-- **… and it is false for `fuel = FUEL`, too** (an axis deeper than `FUEL`): a lower bound on `fuel` alone does not
repair the statement -/
theorem einsum_dense_counterexample_FUEL :
    ¬ ∀ (S : SR Ext) (hS : C01.SRLaws S) (j : EJob) (next : Nat) (h : JobOK S j next) (hne : j.ops ≠ [])
        (hok : (collect FUEL j next).2.1 = true),
        (einsum S FUEL j next).dense = (toSpec j).spec S id := by
  intro h
  have := h C07bL.latSR C07bL.latSR_laws deepJob 3 deepJob_ok (by decide) (by decide)
  revert this
  decide

private theorem foldl_set_mem (P : Ext → Prop) {β : Type} (pos : β → Nat) (val : β → Ext) :
    ∀ (L : List β) (arr : Array Ext), (∀ x ∈ arr.toList, P x) → (∀ b ∈ L, P (val b)) →
      ∀ x ∈ (L.foldl (fun a b => a.setIfInBounds (pos b) (val b)) arr).toList, P x
  | [], arr, h, _ => h
  | b :: L, arr, h, hL => by
    rw [List.foldl_cons]
    apply foldl_set_mem P pos val L
    · intro x hx
      rw [Array.toList_setIfInBounds] at hx
      rcases List.mem_or_eq_of_mem_set hx with hx | hx
      · exact h x hx
      · rw [hx]; exact hL b (by simp)
    · exact fun b' hb' => hL b' (by simp [hb'])

/-- every entry of the dense tensor is the default or a physical element -/
private theorem dense_mem (T : PT) : ∀ c ∈ T.dense, c = T.default ∨ c ∈ T.physical := by
  rw [C06dL.dense_eq_fold]
  apply foldl_set_mem (fun c => c = T.default ∨ c ∈ T.physical)
  · intro x hx
    simp only [Array.toList_replicate, List.mem_replicate] at hx
    exact .inl hx.2
  · intro kv hkv
    unfold PT.cells at hkv
    obtain ⟨p, _, rfl⟩ := List.mem_map.1 hkv
    simp only
    cases hp : T.physical[p.2]? with
    | none => exact .inl rfl
    | some x => exact .inr (List.mem_of_getElem? hp)

private theorem normalize_dense_mem (T : PT) : ∀ c ∈ (Bn.normalize T).dense, c = T.default ∨ c ∈ T.physical := by
  rw [C06dL.normalize_eq]
  split
  · exact dense_mem T
  · exact dense_mem (C06dL.squeezed T)

/-- when some unification fails the result is the zero tensor of the output shape -/
theorem einsum_zero_of_failure (S : SR Ext) (fuel : Nat) (j : EJob) (next : Nat) (hne : j.ops ≠ [])
    (hfail : (collect fuel j next).2.1 = false) :
    let r := einsum S fuel j next
    ∀ c ∈ r.dense, c = S.zero := by
  intro r c hc
  rcases hcol : collect fuel j next with ⟨tbl, ok, st⟩
  rw [hcol] at hfail
  simp only at hfail
  subst hfail
  have hr : r = zeroResult S (C07bL.outVaxesOf j tbl st.subst) := C07bL.einsum_eq_fail S fuel j next tbl st hne hcol
  rw [hr] at hc
  unfold zeroResult at hc
  rcases normalize_dense_mem _ c hc with h | h
  · exact h
  · simp only [List.mem_replicate] at h
    exact h.2

/-- … and the specification is zero as well whenever no joint assignment of the indices is backed by every operand
(the patterns do not overlap) -/
theorem spec_zero_of_disjoint (S : SR Ext) (hS : C01.SRLaws S) (j : EJob) (next : Nat) (h : JobOK S j next)
    (hdis : ∀ ρ : List Nat, ρ ∈ Sem.assigns (toSpec j).sizes →
      ∃ p ∈ j.ops, (p.1.cells.all (fun c => c.1 != p.2.map (fun v => ρ[v]?.getD 0))) = true) :
    ∀ c ∈ (toSpec j).spec S id, c = S.zero := by
  have J := toHyp h
  intro c hc
  refine einsumSpec_zero_of_pointwise_zero S hS (toSpec j).sizes (C07bL.opsOf j) j.out ?_ c hc
  intro ρ hρ
  have hρ' : ρ ∈ Sem.assigns (C07bL.maskOf j) := hρ
  have hsz : ρ ∈ Sem.assigns (toSpec j).sizes := by
    show ρ ∈ Sem.assigns (Es.Job.mk j.ops j.out).sizes
    rw [C07bL.sizes_eq, C07bL.mem_assigns_range]
    exact (C07bL.mem_mask J).1 hρ'
  obtain ⟨p, hp, hall⟩ := hdis ρ hsz
  refine ⟨_, List.mem_map_of_mem hp, ?_⟩
  have hs := C07bL.sem_of J hp
  have hidx := C07bL.idx_mem J hρ' hp
  have hnk : p.2.map (fun v => ρ[v]?.getD 0) ∉ C06dL.keys p.1 := by
    intro hk
    unfold C06dL.keys at hk
    obtain ⟨kv, hkv, he⟩ := List.mem_map.1 hk
    have := List.all_eq_true.1 hall kv hkv
    simp only [bne_iff_ne, ne_eq] at this
    exact this he
  have := C06dL.dense_cell_keys p.1 hs.keys_nodup hs.keys_range _ hidx
  rw [C06dL.valueAt_of_not_mem p.1 _ hnk] at this
  obtain ⟨t, ix⟩ := p
  show id (t.dense[Ax.flat t.vshape (ix.map (fun v => ρ[v]?.getD 0))]?.getD t.default) = S.zero
  rw [this]
  exact J.zeroDefault _ hp

end C07
