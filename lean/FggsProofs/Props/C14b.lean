/-
C14b — the weights of a factor survive the JSON round trip: `weights_to_json` writes `tolist()` of the patterned tensor
(model `It.tolist`, C06l: the flattened dense tensor) and `json_to_weights` reads a nested list back as a dense tensor
(model `Jw.fromNested`); the result is well formed, has the same shape and denotes the same dense tensor, whatever the
sparsity pattern of the original.  `fromNested_dense`: a nested list read back denotes itself.
-/
import FggsModel.JsonWeights
import FggsProofs.Props.C06l
import FggsProofs.C06dBaseLemmas
import FggsProofs.C06dSideLemmas
import FggsProofs.C14bLemmas
import Mathlib.Tactic.Linarith
import Mathlib.Data.List.Basic

set_option linter.unusedSimpArgs false
set_option linter.unusedVariables false

namespace C14b
open Fggs Fggs.Ax Fggs.Un Fggs.It Fggs.Jw

/-- a plain nested list read by `json_to_weights` is a well-formed dense tensor that denotes the list -/
theorem fromNested_dense (shape : List Nat) (flat : List Ext) (next : Nat) (hl : flat.length = numel shape) :
    (fromNested shape flat next).wf = true ∧ (fromNested shape flat next).vshape = shape ∧
    (fromNested shape flat next).dense = flat :=
  C14bL.fromNested_spec shape flat next hl

/-- **round trip of weights**: reading back what `weights_to_json` wrote gives the same dense tensor -/
theorem weights_roundtrip (fuel : Nat) (t : PT) (h : t.wf = true) (hf : t.vaxes.length < fuel) (next next' : Nat)
    (hn : ∀ p ∈ t.paxes, p.1 < next) :
    ∃ l, tolist fuel t next = some l ∧ (fromNested t.vshape l next').wf = true ∧
      (fromNested t.vshape l next').vshape = t.vshape ∧ (fromNested t.vshape l next').dense = t.dense :=
  ⟨t.dense, C06l.tolist_dense fuel t h hf next hn,
    fromNested_dense t.vshape t.dense next' (C06dL.length_dense t)⟩

/-! ### non-vacuity -/

def exT : PT := { physical := [.fin 5, .fin 7], paxes := [(0, 2)], vaxes := [.phys 0 2, .sum 1 (.phys 0 2) 0], default := .fin 0 }

example : (tolist 8 exT 5).map (fun l => (fromNested exT.vshape l 20).dense) = some [.fin 0, .fin 5, .fin 0, .fin 0, .fin 0, .fin 7] := by decide

end C14b
