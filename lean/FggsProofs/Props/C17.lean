/-
C17 — placeholder (theorems follow)
-/
import FggsModel.Conj
