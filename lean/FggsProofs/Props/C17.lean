/-
C17 — Conjunction: fresh injective names, rule shape, conflict reporting.
Theorems about `Fggs.Cj` (FggsModel/Conj.lean), the model of fggs/conjunction.py and unique_label_name.
-/
import FggsModel.Conj
import Mathlib.Tactic.Linarith
import Mathlib.Data.List.Basic
import Mathlib.Data.List.Nodup

set_option linter.unusedSimpArgs false
set_option linter.unusedVariables false

namespace C17
open Fggs Fggs.Cj

/-! ### `uniqueName` -/

private theorem natToString_inj {a b : Nat} (h : toString a = toString b) : a = b := by
  rw [Nat.toString_eq_ofList_toDigits, Nat.toString_eq_ofList_toDigits] at h
  have h' : Nat.toDigits 10 a = Nat.toDigits 10 b := by
    have := congrArg String.toList h
    simpa using this
  have := congrArg (fun l => Nat.ofDigitChars 10 l 0) h'
  simpa [Nat.ofDigitChars_ten_toDigits] using this

/-- the candidate sequence name, name_1, name_2, … -/
private def cand (name : String) : Nat → String
  | 0 => name
  | k+1 => s!"{name}_{k+1}"

private theorem cand_succ (name : String) (k : Nat) :
    cand name (k+1) = name ++ ("_" ++ toString (k+1)) := by
  show toString name ++ toString "_" ++ toString (k+1) = _
  simp only [String.append_assoc]; rfl

private theorem cand_inj (name : String) : Function.Injective (cand name) := by
  intro a b h
  cases a with
  | zero =>
    cases b with
    | zero => rfl
    | succ b =>
      rw [cand_succ] at h
      have := congrArg String.length h
      simp [cand, String.length_append] at this
  | succ a =>
    cases b with
    | zero =>
      rw [cand_succ] at h
      have := congrArg String.length h
      simp [cand, String.length_append] at this
    | succ b =>
      rw [cand_succ, cand_succ, String.append_right_inj, String.append_right_inj] at h
      exact natToString_inj h

private theorem aux_mem (name : String) (names : List String) :
    ∀ fuel j, uniqueNameAux name names fuel (j+1) (cand name j) ∈ names →
      ∀ k, j ≤ k → k ≤ j + fuel → cand name k ∈ names := by
  intro fuel
  induction fuel with
  | zero =>
    intro j h k h1 h2
    have : k = j := by omega
    subst this
    simpa [uniqueNameAux] using h
  | succ fuel ih =>
    intro j h k h1 h2
    unfold uniqueNameAux at h
    by_cases hc : cand name j ∈ names
    · have hc' : names.contains (cand name j) = true := by simpa using hc
      rw [if_pos hc'] at h
      rcases Nat.eq_or_lt_of_le h1 with rfl | hlt
      · exact hc
      · exact ih (j+1) h k hlt (by omega)
    · have hc' : ¬ names.contains (cand name j) = true := by simpa using hc
      rw [if_neg hc'] at h
      exact absurd h hc

/-- `unique_label_name` terminates within `len(names)+1` rounds and returns a name that is not in use -/
theorem uniqueName_not_mem (name : String) (names : List String) : uniqueName name names ∉ names := by
  intro h
  have hall := aux_mem name names (names.length + 1) 0 h
  have hsub : (List.range (names.length + 1)).map (cand name) ⊆ names := by
    intro x hx
    simp only [List.mem_map, List.mem_range] at hx
    obtain ⟨k, hk, rfl⟩ := hx
    exact hall k (Nat.zero_le _) (by omega)
  have hnd : ((List.range (names.length + 1)).map (cand name)).Nodup :=
    List.Nodup.map (cand_inj name) List.nodup_range
  have := hnd.length_le_of_subset hsub
  simp at this

/-- an unused name is returned unchanged -/
theorem uniqueName_of_not_mem (name : String) (names : List String) (h : name ∉ names) :
    uniqueName name names = name := by
  simp [uniqueName, uniqueNameAux, h]

/-! ### `ntPairs` -/

/-- the fold step of `ntPairs` -/
private def step (acc : List ((Label × Label) × Label) × List String) (p : Label × Label) :
    List ((Label × Label) × Label) × List String :=
  let nm := uniqueName s!"<{p.1.name},{p.2.name}>" acc.2
  (acc.1 ++ [(p, ⟨nm, p.1.type, false⟩)], acc.2 ++ [nm])

private def ntPairsList (h1 h2 : HRG) : List (Label × Label) :=
  (h1.labels.filter (!·.terminal)).flatMap (fun a => (h2.labels.filter (!·.terminal)).map (fun b => (a, b)))

private theorem ntPairs_eq (h1 h2 : HRG) :
    ntPairs h1 h2 = ((ntPairsList h1 h2).foldl step ([], (h1.labels ++ h2.labels).map (·.name))).1 := rfl

private def FreshInv (init : List String) (acc : List ((Label × Label) × Label) × List String) : Prop :=
  (acc.1.map (·.2.name)).Nodup ∧ (∀ p ∈ acc.1, p.2.name ∈ acc.2) ∧ (∀ p ∈ acc.1, p.2.name ∉ init) ∧
  init ⊆ acc.2

private theorem step_inv (init : List String) (acc) (p : Label × Label) (h : FreshInv init acc) :
    FreshInv init (step acc p) := by
  obtain ⟨h1, h2, h3, h4⟩ := h
  have hnm := uniqueName_not_mem s!"<{p.1.name},{p.2.name}>" acc.2
  refine ⟨?_, ?_, ?_, ?_⟩
  · simp only [step, List.map_append, List.map_cons, List.map_nil]
    rw [List.nodup_append]
    refine ⟨h1, by simp, ?_⟩
    intro a ha b hb
    simp only [List.mem_singleton] at hb
    subst hb
    rintro rfl
    simp only [List.mem_map] at ha
    obtain ⟨q, hq, hqe⟩ := ha
    exact hnm (hqe ▸ h2 q hq)
  · intro q hq
    simp only [step, List.mem_append, List.mem_singleton] at hq ⊢
    rcases hq with hq | rfl
    · exact Or.inl (h2 q hq)
    · exact Or.inr rfl
  · intro q hq
    simp only [step, List.mem_append, List.mem_singleton] at hq
    rcases hq with hq | rfl
    · exact h3 q hq
    · exact fun hm => hnm (h4 hm)
  · intro x hx
    simp only [step, List.mem_append]
    exact Or.inl (h4 hx)

private theorem foldl_inv (init : List String) (ps : List (Label × Label)) :
    ∀ acc, FreshInv init acc → FreshInv init (ps.foldl step acc) := by
  induction ps with
  | nil => intro acc h; exact h
  | cons p ps ih => intro acc h; exact ih _ (step_inv init acc p h)

/-- **paired nonterminal names are unique and collide with no existing label** -/
theorem ntPairs_names_fresh (h1 h2 : HRG) :
    ((ntPairs h1 h2).map (·.2.name)).Nodup ∧
    ∀ p ∈ ntPairs h1 h2, p.2.name ∉ (h1.labels ++ h2.labels).map (·.name) := by
  have := foldl_inv ((h1.labels ++ h2.labels).map (·.name)) (ntPairsList h1 h2)
    ([], (h1.labels ++ h2.labels).map (·.name)) ⟨by simp, by simp, by simp, fun _ h => h⟩
  rw [ntPairs_eq]
  exact ⟨this.1, this.2.2.1⟩

/-- keys are exactly the pairs, in order; every value is a nonterminal of the first component's type -/
private def TypeInv (acc : List ((Label × Label) × Label) × List String) : Prop :=
  ∀ p ∈ acc.1, p.2.terminal = false ∧ p.2.type = p.1.1.type

private theorem foldl_inv2 (ps : List (Label × Label)) :
    ∀ acc, TypeInv acc → TypeInv (ps.foldl step acc) ∧
      (ps.foldl step acc).1.map (·.1) = acc.1.map (·.1) ++ ps := by
  induction ps with
  | nil => intro acc h; exact ⟨h, by simp⟩
  | cons p ps ih =>
    intro acc h
    have h' : TypeInv (step acc p) := by
      intro q hq
      simp only [step, List.mem_append, List.mem_singleton] at hq
      rcases hq with hq | rfl
      · exact h q hq
      · exact ⟨rfl, rfl⟩
    obtain ⟨i1, i2⟩ := ih _ h'
    refine ⟨i1, ?_⟩
    rw [List.foldl_cons, i2]
    simp [step]

/-- every pair of nonterminals gets a (nonterminal) label with the type of the first component -/
theorem ntPairs_total (h1 h2 : HRG) (a b : Label) (ha : a ∈ h1.labels) (hb : b ∈ h2.labels)
    (hat : a.terminal = false) (hbt : b.terminal = false) :
    ∃ l, ntGet (ntPairs h1 h2) a b = some l ∧ l.terminal = false ∧ l.type = a.type := by
  obtain ⟨i1, i2⟩ := foldl_inv2 (ntPairsList h1 h2) ([], (h1.labels ++ h2.labels).map (·.name))
    (by intro p hp; simp at hp)
  replace i1 : ∀ p ∈ ntPairs h1 h2, p.2.terminal = false ∧ p.2.type = p.1.1.type := i1
  replace i2 : (ntPairs h1 h2).map (·.1) = [] ++ ntPairsList h1 h2 := i2
  have hmem : (a, b) ∈ (ntPairs h1 h2).map (·.1) := by
    rw [i2]
    simp only [List.nil_append, ntPairsList, List.mem_flatMap, List.mem_map,
      List.mem_filter]
    exact ⟨a, ⟨ha, by simp [hat]⟩, b, ⟨hb, by simp [hbt]⟩, rfl⟩
  rw [List.mem_map] at hmem
  obtain ⟨q, hq, hqe⟩ := hmem
  cases hf : (ntPairs h1 h2).find? (fun p => p.1 = (a, b)) with
  | none =>
    rw [List.find?_eq_none] at hf
    exact absurd (by simpa using hqe) (hf q hq)
  | some x =>
    have hx := List.mem_of_find?_eq_some hf
    have hxe : x.1 = (a, b) := by simpa using List.find?_some hf
    obtain ⟨t1, t2⟩ := i1 x hx
    refine ⟨x.2, by simp [ntGet, hf], t1, ?_⟩
    rw [t2, hxe]

/-! ### `conjoinRules` -/

private theorem addEdgeChecked_ok {es : List Edge} {e : Edge} {es' : List Edge}
    (h : addEdgeChecked es e = .ok es') : es' = es ++ [e] := by
  unfold addEdgeChecked at h
  split at h
  · cases h
  · split at h
    · cases h
    · cases h; rfl

private theorem foldlM_addEdge_ok (l : List Edge) :
    ∀ (acc es : List Edge), l.foldlM addEdgeChecked acc = .ok es → es = acc ++ l := by
  induction l with
  | nil => intro acc es h; simp [List.foldlM_nil] at h; cases h; simp
  | cons e l ih =>
    intro acc es h
    rw [List.foldlM_cons] at h
    cases h1 : addEdgeChecked acc e with
    | error x => rw [h1] at h; cases h
    | ok acc' =>
      rw [h1] at h
      have := addEdgeChecked_ok h1
      subst this
      have := ih _ _ h
      simpa using this

private theorem mapM_ok {α β} (f : α → Except Err β) (l : List α) :
    ∀ out, l.mapM f = .ok out → List.Forall₂ (fun x y => f x = .ok y) l out := by
  induction l with
  | nil => intro out h; simp at h; cases h; exact .nil
  | cons a l ih =>
    intro out h
    rw [List.mapM_cons] at h
    cases h1 : f a with
    | error x => rw [h1] at h; cases h
    | ok y =>
      rw [h1] at h
      cases h2 : l.mapM f with
      | error x => rw [h2] at h; cases h
      | ok ys =>
        rw [h2] at h
        cases h
        exact .cons h1 (ih _ h2)

private theorem zip_map_fst_take {α β} (l1 : List α) (l2 : List β) :
    (l1.zip l2).map Prod.fst = l1.take (l1.zip l2).length := by
  induction l1 generalizing l2 with
  | nil => simp
  | cons a l1 ih =>
    cases l2 with
    | nil => simp
    | cons b l2 => simp [ih l2]

private def pairEdge (m : List ((Label × Label) × Label)) : Edge × Edge → Except Err Edge :=
  fun (e1, e2) =>
    match ntGet m e1.label e2.label with
    | some l =>
      let i := match e1.id with | .str s => Id.str s | .int n => Id.int (1000000000 + n)
      (pure (⟨l, e1.nodes, i⟩ : Edge) : Except Err Edge)
    | none => throw Err.valueError

private theorem pairEdge_ok {m} {p : Edge × Edge} {e : Edge} (h : pairEdge m p = .ok e) :
    e.nodes = p.1.nodes ∧ ∃ q ∈ m, q.2 = e.label := by
  obtain ⟨e1, e2⟩ := p
  simp only [pairEdge] at h
  cases hg : ntGet m e1.label e2.label with
  | none => rw [hg] at h; cases h
  | some l =>
    rw [hg] at h
    cases h
    refine ⟨rfl, ?_⟩
    unfold ntGet at hg
    cases hf : m.find? (fun p => p.1 = (e1.label, e2.label)) with
    | none => rw [hf] at hg; cases hg
    | some x =>
      rw [hf] at hg
      cases hg
      exact ⟨x, List.mem_of_find?_eq_some hf, rfl⟩

private theorem forall2_pair {m} {l : List (Edge × Edge)} {out : List Edge}
    (h : List.Forall₂ (fun x y => pairEdge m x = .ok y) l out) :
    out.length = l.length ∧ (∀ e ∈ out, ∃ q ∈ m, q.2 = e.label) ∧
    out.map (·.nodes) = (l.map Prod.fst).map (·.nodes) := by
  induction h with
  | nil => simp
  | cons hxy _ ih =>
    obtain ⟨i1, i2, i3⟩ := ih
    obtain ⟨p1, p2⟩ := pairEdge_ok hxy
    refine ⟨by simp [i1], ?_, by simp [i3, p1]⟩
    intro e he
    rcases List.mem_cons.1 he with rfl | he
    · exact p2
    · exact i2 e he

/-- **shape of a conjoined rule**: the lhs is the pair label, nodes and external nodes are rule 1's, and the
edges are: one nonterminal edge per (sorted) nonterminal edge of rule 1, carrying rule 1's attachment
nodes, followed by the terminal edges of rule 1 and of rule 2 -/
theorem conjoinRules_shape (m : List ((Label × Label) × Label)) (r1 r2 r : Rule)
    (h : conjoinRules m r1 r2 = .ok r) :
    ntGet m r1.lhs r2.lhs = some r.lhs ∧ r.nodes = r1.nodes ∧ r.ext = r1.ext ∧
    ∃ paired : List Edge,
      r.edges = paired ++ r1.edges.filter (·.label.terminal) ++ r2.edges.filter (·.label.terminal) ∧
      paired.length = min (r1.edges.filter (!·.label.terminal)).length (r2.edges.filter (!·.label.terminal)).length ∧
      (∀ e ∈ paired, e.label.terminal = false ∨ ∃ p ∈ m, p.2 = e.label) ∧
      paired.map (·.nodes) = (((r1.edges.filter (!·.label.terminal)).mergeSort (fun a b => !(idLt b.id a.id))).take paired.length).map (·.nodes) := by
  unfold conjoinRules at h
  cases hl : ntGet m r1.lhs r2.lhs with
  | none => rw [hl] at h; cases h
  | some lhs =>
    rw [hl] at h
    simp only [sortEdges] at h
    change (do
      let paired ← List.mapM (pairEdge m) _
      let edges ← List.foldlM addEdgeChecked [] (paired ++ _)
      pure (⟨lhs, r1.nodes, edges, r1.ext⟩ : Rule)) = Except.ok r at h
    cases hp : List.mapM (pairEdge m)
        (((r1.edges.filter (!·.label.terminal)).mergeSort (fun a b => !(idLt b.id a.id))).zip
          ((r2.edges.filter (!·.label.terminal)).mergeSort (fun a b => !(idLt b.id a.id)))) with
    | error x => rw [hp] at h; cases h
    | ok paired =>
      rw [hp] at h
      change (do
        let edges ← List.foldlM addEdgeChecked [] (paired ++ _)
        pure (⟨lhs, r1.nodes, edges, r1.ext⟩ : Rule)) = Except.ok r at h
      cases he : List.foldlM addEdgeChecked []
          (paired ++ (r1.edges.filter (·.label.terminal) ++ r2.edges.filter (·.label.terminal))) with
      | error x => rw [he] at h; cases h
      | ok edges =>
        rw [he] at h
        cases h
        have hedges := foldlM_addEdge_ok _ _ _ he
        obtain ⟨f1, f2, f3⟩ := forall2_pair (mapM_ok _ _ _ hp)
        refine ⟨rfl, rfl, rfl, paired, ?_, ?_, ?_, ?_⟩
        · simp [hedges]
        · rw [f1]; simp [List.length_zip, List.length_mergeSort]
        · intro e he'; exact Or.inr (f2 e he')
        · rw [f3, zip_map_fst_take, f1]

/-! ### `conjoin` -/

/-- **a genuine terminal-label conflict is reported with ValueError** -/
theorem conjoin_reports_conflict (h1 h2 : HRG) (a b : Label) (ha : a ∈ h1.labels) (hb : b ∈ h2.labels)
    (hn : a.name = b.name) (hne : a ≠ b) (hat : a.terminal = true) (hbt : b.terminal = true) :
    conjoin h1 h2 = .error .valueError := by
  have hc : (h1.labels.any (fun a => h2.labels.any (fun b => a.name = b.name && a ≠ b && a.terminal && b.terminal))) = true := by
    simp only [List.any_eq_true]
    exact ⟨a, ha, b, hb, by simp [hn, hne, hat, hbt]⟩
  unfold conjoin
  rw [if_pos hc]
  rfl

/-- non-vacuity / the clash example of the property text: X + "Y,Z" and "X,Y" + Z get different names -/
example : let X : Label := ⟨"X", [], false⟩; let YZ : Label := ⟨"Y,Z", [], false⟩
          let XY : Label := ⟨"X,Y", [], false⟩; let Z : Label := ⟨"Z", [], false⟩
          (ntPairs ⟨X, [X, XY], []⟩ ⟨Z, [YZ, Z], []⟩).map (·.2.name)
            = ["<X,Y,Z>", "<X,Z>", "<X,Y,Y,Z>", "<X,Y,Z>_1"] := by
  decide

end C17
