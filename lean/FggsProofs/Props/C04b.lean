/-
C04b — the reconstruction phase of `viterbi` (model `Vt.reconstruct` of FggsModel/Viterbi.lean) is correct for EVERY
table of back-pointers that is locally optimal along the reconstruction: if the checked reconstruction
(`reconstructChecked`: at each visited rule instance the pointed-to assignment lies in the domains, agrees with the
external values and its local weight — nonterminal edges read from `maximum` — equals `maximum[nt][ext_asst]`) returns a
derivation, then
 * it is the derivation the unchecked transcription of the Python function returns (`reconstructChecked_eq`), and
 * the independent checker `checkDeriv` accepts it as a well-formed derivation of the nonterminal at the given external
   values, with total weight exactly `maximum[nt][ext_asst]` (`reconstructChecked_weight`) — in any commutative semiring;
 * hence, when `maximum` is a fixed point that is below every pre-fixed point (the least fixed point: what the exact
   Kleene iteration of the harness certifies per run), no derivation weighs more (`C04.checkDeriv_le_kleene`).
The tables come from the implementation through the FGGS_VERIF hook; that `F_viterbi` fills them with argmaxes is
decided per run by `reconstructChecked` returning a derivation.
-/
import FggsModel.Viterbi
import FggsProofs.PipeLemmas
import FggsProofs.Props.C01
import FggsProofs.Props.C01b
import FggsProofs.Props.C04
import Mathlib.Tactic.Linarith
import Mathlib.Data.List.Basic

set_option linter.unusedSimpArgs false
set_option linter.unusedVariables false

namespace C04
open Fggs Fggs.Sem Fggs.Vt PipeL

variable {K : Type}

/-! ### helper lemmas -/

private theorem reconstructChecked_succ_inv [BEq K] (S : SR K) (G : Grammar K) (x : Val K) (tb : Tables)
    (fuel X : Nat) (extVals : List Nat) (d : ADeriv)
    (h : reconstructChecked S G x tb (fuel+1) X extVals = some d) :
    ∃ ri r gi ptrs ptr kids,
      (tb.lhs[X]?.getD [])[flat (G.shapeOf (G.nts[X]?.getD [])) extVals]? = some ri ∧
      (G.rulesOf X)[ri]? = some r ∧ globalIndex G X ri = some gi ∧
      ((tb.rhs[X]?.getD [])[ri]?).join = some ptrs ∧
      ptrs[flat (G.shapeOf (G.nts[X]?.getD [])) extVals]? = some ptr ∧
      ptr.length = (appearOrder r).length ∧
      ((assemble r extVals ptr).zip r.nodes).all (fun p => decide (p.1 < G.dom p.2)) = true ∧
      r.ext.map (fun v => (assemble r extVals ptr)[v]?.getD 0) = extVals ∧
      (localWeight S G x r (assemble r extVals ptr) == C01.valCell S G x X extVals) = true ∧
      (r.edges.filter (fun e => decide (e.1 ≥ G.T))).mapM (fun e =>
          reconstructChecked S G x tb fuel (e.1 - G.T) (e.2.map (fun v => (assemble r extVals ptr)[v]?.getD 0))) = some kids ∧
      d = ADeriv.mk gi (assemble r extVals ptr) kids := by
  rw [reconstructChecked] at h
  simp only [Option.bind_eq_bind, Option.bind_eq_some_iff] at h
  obtain ⟨ri, h1, r, h2, gi, h3, ptrs, h4, ptr, h5, h6⟩ := h
  refine ⟨ri, r, gi, ptrs, ptr, ?_⟩
  split_ifs at h6 with c1 c2 c3 c4
  simp only [Option.bind_eq_some_iff] at h6
  obtain ⟨kids, hk, hd⟩ := h6
  refine ⟨kids, h1, h2, h3, h4, h5, ?_, ?_, ?_, ?_, hk, ?_⟩
  · simpa using c1
  · simpa using c2
  · simpa using c3
  · have c4' := c4
    simp only [Bool.not_eq_true, Bool.not_eq_false'] at c4'
    exact c4'
  · simpa using hd.symm

private theorem mapM_congr_some {α β : Type} (f g : α → Option β) (l : List α) (ys : List β)
    (h : l.mapM f = some ys) (hfg : ∀ a ∈ l, ∀ y, f a = some y → g a = some y) :
    l.mapM g = some ys := by
  induction l generalizing ys with
  | nil => simpa using h
  | cons a l ih =>
    simp only [List.mapM_cons, Option.bind_eq_bind, Option.bind_eq_some_iff, Option.pure_def,
      Option.some.injEq] at h ⊢
    obtain ⟨y, hy, ys', hys, rfl⟩ := h
    exact ⟨y, hfg a (List.mem_cons_self ..) y hy, ys',
      ih ys' hys (fun a ha => hfg a (List.mem_cons_of_mem _ ha)), rfl⟩

private def stepK (S : SR K) (G : Grammar K) (fuel : Nat) (asst : List Nat) :
    Option (K × List ADeriv) → Nat × List Nat → Option (K × List ADeriv) :=
  fun acc e =>
    match acc with
    | none => none
    | some (w, rest) =>
      let idx := e.2.map (fun v => asst[v]?.getD 0)
      if e.1 < G.T then some (S.mul w (edgeWeight S G [] e.1 idx), rest)
      else match rest with
        | c :: rest' => (checkDeriv S G fuel c (e.1 - G.T) idx).map (fun wc => (S.mul w wc, rest'))
        | [] => none

private theorem checkDeriv_succ' (S : SR K) (G : Grammar K) (fuel ri : Nat) (asst : List Nat)
    (cs : List ADeriv) (X : Nat) (a : List Nat) :
    checkDeriv S G (fuel+1) (.mk ri asst cs) X a =
      match G.rules[ri]? with
      | none => none
      | some r =>
        if r.lhs != X then none
        else if asst.length != r.nodes.length then none
        else if !((asst.zip r.nodes).all (fun (v, l) => decide (v < G.dom l))) then none
        else if r.ext.map (fun v => asst[v]?.getD 0) != a then none
        else
          match r.edges.foldl (stepK S G fuel asst) (some (S.one, cs)) with
          | some (w, []) => some w
          | _ => none := by
  rw [checkDeriv]; rfl

private theorem edgeWeight_term' (S : SR K) (G : Grammar K) (x : Val K) (l : Nat) (idx : List Nat)
    (h : l < G.T) : edgeWeight S G x l idx = edgeWeight S G [] l idx := by
  simp [edgeWeight, h]

private theorem edgeWeight_nt' (S : SR K) (G : Grammar K) (x : Val K) (l : Nat) (idx : List Nat)
    (h : ¬ l < G.T) : edgeWeight S G x l idx = C01.valCell S G x (l - G.T) idx := by
  simp only [edgeWeight, C01.valCell, Grammar.labelType, h, if_false]
  rfl

private theorem fold_exact (S : SR K) (G : Grammar K) (x : Val K) (fuel : Nat) (asst : List Nat)
    (f : Nat × List Nat → Option ADeriv) (es : List (Nat × List Nat))
    (hch : ∀ e ∈ es, ¬ e.1 < G.T → ∀ c, f e = some c →
      checkDeriv S G fuel c (e.1 - G.T) (e.2.map (fun v => asst[v]?.getD 0)) =
        some (edgeWeight S G x e.1 (e.2.map (fun v => asst[v]?.getD 0))))
    (cs : List ADeriv) (hm : (es.filter (fun e => decide (e.1 ≥ G.T))).mapM f = some cs)
    (w0 : K) (rest : List ADeriv) :
    es.foldl (stepK S G fuel asst) (some (w0, cs ++ rest)) =
      some ((es.map (fun e => edgeWeight S G x e.1 (e.2.map (fun v => asst[v]?.getD 0)))).foldl S.mul w0,
        rest) := by
  induction es generalizing cs w0 with
  | nil =>
    simp only [List.filter_nil, List.mapM_nil, Option.pure_def, Option.some.injEq] at hm
    subst hm
    rfl
  | cons e es ih =>
    have ih' := ih (fun e he => hch e (List.mem_cons_of_mem _ he))
    rw [List.foldl_cons, List.map_cons, List.foldl_cons]
    by_cases hT : e.1 < G.T
    · have hf : (e :: es).filter (fun e => decide (e.1 ≥ G.T)) = es.filter (fun e => decide (e.1 ≥ G.T)) := by
        rw [List.filter_cons_of_neg]; simpa using hT
      rw [hf] at hm
      have hs : stepK S G fuel asst (some (w0, cs ++ rest)) e =
          some (S.mul w0 (edgeWeight S G [] e.1 (e.2.map (fun v => asst[v]?.getD 0))), cs ++ rest) := by
        simp only [stepK, hT, if_true]
      rw [hs, edgeWeight_term' S G x _ _ hT]
      exact ih' cs hm _
    · have hf : (e :: es).filter (fun e => decide (e.1 ≥ G.T)) = e :: es.filter (fun e => decide (e.1 ≥ G.T)) := by
        rw [List.filter_cons_of_pos]; simpa using hT
      rw [hf] at hm
      simp only [List.mapM_cons, Option.bind_eq_bind, Option.bind_eq_some_iff, Option.pure_def,
        Option.some.injEq] at hm
      obtain ⟨c, hc, cs', hcs', rfl⟩ := hm
      have hs : stepK S G fuel asst (some (w0, c :: cs' ++ rest)) e =
          (checkDeriv S G fuel c (e.1 - G.T) (e.2.map (fun v => asst[v]?.getD 0))).map
            (fun wc => (S.mul w0 wc, cs' ++ rest)) := by
        simp only [stepK, hT, if_false, List.cons_append]
      rw [hs, hch e (List.mem_cons_self ..) hT c hc, Option.map_some]
      exact ih' cs' hcs' _

private theorem globalIndex_spec (G : Grammar K) (X ri gi : Nat) (r : Rule)
    (h2 : (G.rulesOf X)[ri]? = some r) (h3 : globalIndex G X ri = some gi) :
    G.rules[gi]? = some r ∧ r.lhs = X := by
  unfold globalIndex at h3
  simp only [Option.map_eq_some_iff] at h3
  obtain ⟨q, hq, rfl⟩ := h3
  have hmap : (G.rules.zipIdx.filter (fun p => p.1.lhs == X)).map (·.1) = G.rulesOf X := by
    unfold Grammar.rulesOf
    have := List.filter_map (f := (Prod.fst : Rule × Nat → Rule)) (p := fun r => r.lhs == X) (l := G.rules.zipIdx)
    rw [List.zipIdx_map_fst] at this
    rw [this]; rfl
  have hq1 : q.1 = r := by
    have : ((G.rules.zipIdx.filter (fun p => p.1.lhs == X)).map (·.1))[ri]? = some q.1 := by
      rw [List.getElem?_map, hq]; rfl
    rw [hmap, h2] at this
    exact (Option.some.inj this).symm
  have hmem := List.mem_of_getElem? hq
  obtain ⟨hm1, hm2⟩ := List.mem_filter.1 hmem
  subst hq1
  refine ⟨?_, by simpa using hm2⟩
  exact List.mk_mem_zipIdx_iff_getElem?.1 hm1

/-! ### the theorems -/

/-- the checked reconstruction returns what the transcription of `reconstruct` returns -/
theorem reconstructChecked_eq [BEq K] (S : SR K) (G : Grammar K) (x : Val K) (tb : Tables)
    (fuel X : Nat) (extVals : List Nat) (d : ADeriv)
    (h : reconstructChecked S G x tb fuel X extVals = some d) :
    reconstruct G tb fuel X extVals = some d := by
  induction fuel generalizing X extVals d with
  | zero => simp [reconstructChecked] at h
  | succ fuel ih =>
    obtain ⟨ri, r, gi, ptrs, ptr, kids, h1, h2, h3, h4, h5, h6, _, _, _, hk, rfl⟩ :=
      reconstructChecked_succ_inv S G x tb fuel X extVals d h
    rw [reconstruct]
    simp only [Option.bind_eq_bind, Option.bind_eq_some_iff]
    refine ⟨ri, h1, r, h2, gi, h3, ptrs, h4, ptr, h5, ?_⟩
    rw [if_neg (by simpa using h6)]
    simp only [Option.bind_eq_some_iff]
    exact ⟨kids, mapM_congr_some _ _ _ _ hk (fun e _ y hy => ih _ _ _ hy), rfl⟩

/-- **a locally optimal reconstruction is a well-formed derivation whose weight is the tabulated maximum** -/
theorem reconstructChecked_weight [BEq K] (hbeq : ∀ a b : K, (a == b) = true → a = b)
    (S : SR K) (hS : C01.SRLaws S) (G : Grammar K) (hG : GrammarWF G) (x : Val K) (tb : Tables)
    (fuel X : Nat) (hX : X < G.nts.length) (extVals : List Nat) (d : ADeriv)
    (h : reconstructChecked S G x tb fuel X extVals = some d) :
    checkDeriv S G fuel d X extVals = some (C01.valCell S G x X extVals) := by
  induction fuel generalizing X extVals d with
  | zero => simp [reconstructChecked] at h
  | succ fuel ih =>
    obtain ⟨ri, r, gi, ptrs, ptr, kids, h1, h2, h3, h4, h5, h6, c1, c2, c3, hk, rfl⟩ :=
      reconstructChecked_succ_inv S G x tb fuel X extVals d h
    obtain ⟨hgi, hlhs⟩ := globalIndex_spec G X ri gi r h2 h3
    have hr : r ∈ G.rules := List.mem_of_getElem? hgi
    have hlen : (assemble r extVals ptr).length = r.nodes.length := by simp [assemble]
    rw [checkDeriv_succ', hgi]
    simp only
    rw [if_neg (by simpa using hlhs), if_neg (by simpa using hlen), if_neg (by simpa using c1),
      if_neg (by simpa using c2)]
    have hfold := fold_exact S G x fuel (assemble r extVals ptr) _ r.edges ?_ kids hk S.one []
    · rw [List.append_nil] at hfold
      rw [hfold]
      simp only
      congr 1
      exact hbeq _ _ c3
    · intro e he hT c hc
      rw [edgeWeight_nt' S G x _ _ hT]
      have := (hG.rule r hr).labels e he
      exact ih (e.1 - G.T) (by omega) _ c hc

/-- non-vacuity: `S → a X`, `X → b`; tables as `F_viterbi` leaves them (max-plus weights on naturals as a stand-in) -/
example :
    let S : SR Nat := ⟨0, 1, max, (· * ·)⟩
    let G : Grammar Nat := ⟨[2], [[0], [0]], [[], [0]], 0,
      [⟨0, [0], [], [(0, [0]), (3, [0])]⟩, ⟨1, [0], [0], [(1, [0])]⟩], [[2, 3], [5, 7]]⟩
    let x : Val Nat := [some [21], some [5, 7]]
    let tb : Tables := ⟨[[0], [0, 0]], [[some [[1]]], [some [[], []]]]⟩
    (reconstructChecked S G x tb 5 0 []).isSome = true ∧
    (reconstructChecked S G x tb 5 0 []).bind (fun d => checkDeriv S G 5 d 0 []) = some 21 := by
  decide

end C04
