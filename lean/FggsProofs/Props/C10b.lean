/-
C10 — tree_decomposition_from_order (the elimination game) yields a valid tree decomposition for every
elimination order of every graph.
-/
import FggsModel.TreeDec
import FggsProofs.Props.C10
import Mathlib.Tactic.Linarith
import Mathlib.Data.List.Basic
import Mathlib.Data.List.Nodup
import Mathlib.Data.List.Perm.Basic
import Mathlib.Data.List.Perm.Subperm

set_option linter.unusedSimpArgs false
set_option linter.unusedVariables false

namespace C10
open Fggs Fggs.TD

/-- a simple undirected graph as the library holds it: distinct keys, neighbour lists duplicate-free,
mention keys only, no self loops, symmetric -/
structure GraphWF (g : UG) : Prop where
  keys : (verts g).Nodup
  nbrsNodup : ∀ p ∈ g, p.2.Nodup
  closed : ∀ p ∈ g, ∀ w ∈ p.2, w ∈ verts g
  irrefl : ∀ p ∈ g, p.1 ∉ p.2
  symm : ∀ u v, v ∈ nbrs g u → u ∈ nbrs g v

/-! ### generic helpers -/

private theorem foldl_inv' {α β : Type} (I : β → Prop) (f : β → α → β) (l : List α) (b : β)
    (hb : I b) (hf : ∀ b, I b → ∀ a ∈ l, I (f b a)) : I (l.foldl f b) := by
  induction l generalizing b with
  | nil => exact hb
  | cons x xs ih =>
    simp only [List.foldl_cons]
    exact ih _ (hf b hb x (by simp)) (fun b' hb' a ha => hf b' hb' a (by simp [ha]))

private theorem foldl_mono_all {α β : Type} (le : β → β → Prop) (hrefl : ∀ b, le b b)
    (htrans : ∀ a b c, le a b → le b c → le a c) (f : β → α → β) (Q : α → β → Prop)
    (l : List α)
    (hmono : ∀ b, ∀ a ∈ l, le b (f b a)) (hQ : ∀ b, ∀ a ∈ l, Q a (f b a))
    (hQmono : ∀ a b b', le b b' → Q a b → Q a b') (b : β) :
    le b (l.foldl f b) ∧ ∀ a ∈ l, Q a (l.foldl f b) := by
  induction l generalizing b with
  | nil => exact ⟨hrefl b, by simp⟩
  | cons x xs ih =>
    simp only [List.foldl_cons]
    obtain ⟨h1, h2⟩ := ih (fun b a ha => hmono b a (by simp [ha])) (fun b a ha => hQ b a (by simp [ha])) (f b x)
    refine ⟨htrans _ _ _ (hmono b x (by simp)) h1, ?_⟩
    intro a ha
    rcases List.mem_cons.1 ha with h | h
    · subst h; exact hQmono _ _ _ h1 (hQ b a (by simp))
    · exact h2 a h

section lookup
variable {α β : Type} [BEq α] [LawfulBEq α]

private theorem lookup_none_iff (l : List (α × β)) (a : α) :
    l.lookup a = none ↔ a ∉ l.map (·.1) := by
  induction l with
  | nil => simp
  | cons q l ih =>
    obtain ⟨k, b⟩ := q
    rw [List.lookup_cons]
    by_cases h : a = k
    · subst h; simp
    · have hb : (a == k) = false := by simp [h]
      simp [hb, ih, h]

private theorem lookup_some_mem (l : List (α × β)) (a : α) (b : β) (h : l.lookup a = some b) :
    (a, b) ∈ l := by
  obtain ⟨l1, l2, heq, _⟩ := List.lookup_eq_some_iff.1 h
  rw [heq]; simp

private theorem lookup_of_mem_nodup (l : List (α × β)) (hn : (l.map (·.1)).Nodup) (a : α) (b : β)
    (h : (a, b) ∈ l) : l.lookup a = some b := by
  induction l with
  | nil => cases h
  | cons q l ih =>
    obtain ⟨k, c⟩ := q
    rw [List.lookup_cons]
    simp only [List.map_cons, List.nodup_cons] at hn
    rcases List.mem_cons.1 h with h' | h'
    · cases h'; simp
    · have hak : a ≠ k := by
        intro hak; subst hak
        exact hn.1 (List.mem_map.2 ⟨(a, b), h', rfl⟩)
      have hb : (a == k) = false := by simp [hak]
      simp [hb, ih hn.2 h']

private theorem lookup_of_mem_keys' (l : List (α × β)) (a : α) (h : a ∈ l.map (·.1)) :
    ∃ b, l.lookup a = some b := by
  cases hl : l.lookup a with
  | none => exact absurd h ((lookup_none_iff l a).1 hl)
  | some b => exact ⟨b, rfl⟩

private theorem lookup_map_snd (l : List (α × β)) (F : α → β → β) (a : α) :
    (l.map (fun p => (p.1, F p.1 p.2))).lookup a = (l.lookup a).map (F a) := by
  induction l with
  | nil => rfl
  | cons q l ih =>
    obtain ⟨k, b⟩ := q
    simp only [List.map_cons, List.lookup_cons]
    by_cases h : a = k
    · subst h; simp
    · have hb : (a == k) = false := by simp [h]
      simp [hb, ih]

private theorem lookup_filter_key (l : List (α × β)) (v a : α) :
    (l.filter (fun p => p.1 != v)).lookup a = if a == v then none else l.lookup a := by
  induction l with
  | nil => simp
  | cons q l ih =>
    obtain ⟨k, b⟩ := q
    by_cases hkv : k = v
    · subst hkv
      simp only [List.filter_cons, bne_self_eq_false, Bool.false_eq_true, if_false, ih, List.lookup_cons]
      by_cases h : a = k
      · subst h; simp
      · have hb : (a == k) = false := by simp [h]
        simp [hb]
    · have hkv' : (k != v) = true := by simp [hkv]
      simp only [List.filter_cons, hkv', if_true, List.lookup_cons, ih]
      by_cases h : a = k
      · subst h
        have : (a == v) = false := by simp [hkv]
        simp [this]
      · have hb : (a == k) = false := by simp [h]
        simp [hb]

end lookup

/-! ### neighbours in a well-formed graph -/

private theorem nbrs_of_mem (g : UG) (hk : (verts g).Nodup) (p : Nat × List Nat) (hp : p ∈ g) :
    nbrs g p.1 = p.2 := by
  unfold nbrs
  rw [lookup_of_mem_nodup g hk p.1 p.2 hp]; rfl

private theorem nbrs_of_not_mem (g : UG) (u : Nat) (hu : u ∉ verts g) : nbrs g u = [] := by
  unfold nbrs
  rw [(lookup_none_iff g u).2 hu]; rfl

private theorem mem_of_nbrs_ne_nil (g : UG) (u w : Nat) (h : w ∈ nbrs g u) :
    (u, nbrs g u) ∈ g := by
  unfold nbrs at h ⊢
  cases hl : g.lookup u with
  | none => rw [hl] at h; simp at h
  | some l => exact lookup_some_mem g u l hl

private theorem mem_entry_of_vert (g : UG) (u : Nat) (h : u ∈ verts g) : (u, nbrs g u) ∈ g := by
  obtain ⟨l, hl⟩ := lookup_of_mem_keys' g u h
  unfold nbrs; rw [hl]; exact lookup_some_mem g u l hl

private theorem GraphWF.nbrs_sub {g : UG} (h : GraphWF g) {u w : Nat} (hw : w ∈ nbrs g u) :
    u ∈ verts g ∧ w ∈ verts g ∧ u ≠ w := by
  have hm := mem_of_nbrs_ne_nil g u w hw
  refine ⟨List.mem_map.2 ⟨_, hm, rfl⟩, h.closed _ hm w hw, ?_⟩
  intro huw; subst huw
  exact h.irrefl _ hm hw

private theorem GraphWF.nbrs_nodup {g : UG} (h : GraphWF g) (u : Nat) : (nbrs g u).Nodup := by
  by_cases hu : u ∈ verts g
  · exact h.nbrsNodup _ (mem_entry_of_vert g u hu)
  · rw [nbrs_of_not_mem g u hu]; simp

private theorem GraphWF.of_nbrs {g : UG} (hk : (verts g).Nodup) (hn : ∀ u, (nbrs g u).Nodup)
    (hs : ∀ u w, w ∈ nbrs g u → w ∈ verts g ∧ u ≠ w) (hsym : ∀ u v, v ∈ nbrs g u → u ∈ nbrs g v) :
    GraphWF g := by
  refine ⟨hk, ?_, ?_, ?_, hsym⟩
  · intro p hp; rw [← nbrs_of_mem g hk p hp]; exact hn _
  · intro p hp w hw; rw [← nbrs_of_mem g hk p hp] at hw; exact (hs _ _ hw).1
  · intro p hp hw; rw [← nbrs_of_mem g hk p hp] at hw; exact (hs _ _ hw).2 rfl

/-! ### the graph operations -/

private def addF (a b : Nat) (k : Nat) (l : List Nat) : List Nat :=
  if k == a then insertU l b else if k == b then insertU l a else l

private theorem addEdge_eq (g : UG) (a b : Nat) :
    addEdge g a b = g.map (fun p => (p.1, addF a b p.1 p.2)) := by
  unfold addEdge addF
  apply List.map_congr_left
  intro p _
  split_ifs <;> rfl

private theorem verts_addEdge' (g : UG) (u v : Nat) : verts (addEdge g u v) = verts g := by
  rw [addEdge_eq]; unfold verts; rw [List.map_map]; rfl

private theorem mem_insertU' (l : List Nat) (x w : Nat) : w ∈ insertU l x ↔ w ∈ l ∨ w = x := by
  unfold insertU
  split_ifs with h
  · simp only [List.contains_iff_mem] at h
    constructor
    · exact Or.inl
    · rintro (h' | h')
      · exact h'
      · rw [h']; exact h
  · simp

private theorem nodup_insertU' (l : List Nat) (x : Nat) (h : l.Nodup) : (insertU l x).Nodup := by
  unfold insertU
  split_ifs with hc
  · exact h
  · exact List.Nodup.append h (by simp) (by simpa using hc)

private theorem nbrs_addEdge (g : UG) (a b u : Nat) :
    nbrs (addEdge g a b) u = ((g.lookup u).map (addF a b u)).getD [] := by
  unfold nbrs; rw [addEdge_eq, lookup_map_snd]

private theorem mem_nbrs_addEdge (g : UG) (a b u w : Nat) :
    w ∈ nbrs (addEdge g a b) u ↔
      w ∈ nbrs g u ∨ (u ∈ verts g ∧ ((u = a ∧ w = b) ∨ (u = b ∧ w = a))) := by
  rw [nbrs_addEdge]
  cases hl : g.lookup u with
  | none =>
    have hu : u ∉ verts g := (lookup_none_iff g u).1 hl
    simp [nbrs, hl, hu]
  | some l =>
    have hu : u ∈ verts g := List.mem_map.2 ⟨_, lookup_some_mem g u l hl, rfl⟩
    simp only [nbrs, hl, Option.map_some, Option.getD_some, hu, true_and, addF]
    by_cases h1 : u = a
    · subst h1
      simp only [beq_self_eq_true, if_true, mem_insertU', true_and]
      constructor
      · rintro (h | h)
        · exact Or.inl h
        · exact Or.inr (Or.inl h)
      · rintro (h | h | ⟨h, h'⟩)
        · exact Or.inl h
        · exact Or.inr h
        · subst h; exact Or.inr h'
    · have hb1 : (u == a) = false := by simp [h1]
      simp only [hb1, Bool.false_eq_true, if_false, h1, false_and, false_or]
      by_cases h2 : u = b
      · subst h2; simp [mem_insertU']
      · have hb2 : (u == b) = false := by simp [h2]
        simp [hb2, h2]

private theorem nodup_nbrs_addEdge (g : UG) (a b : Nat) (h : ∀ u, (nbrs g u).Nodup) (u : Nat) :
    (nbrs (addEdge g a b) u).Nodup := by
  rw [nbrs_addEdge]
  have hu := h u
  unfold nbrs at hu
  cases hl : g.lookup u with
  | none => simp
  | some l =>
    rw [hl] at hu
    simp only [Option.getD_some] at hu
    simp only [Option.map_some, Option.getD_some, addF]
    split_ifs
    · exact nodup_insertU' _ _ hu
    · exact nodup_insertU' _ _ hu
    · exact hu

/-- `g'` has the same vertices as `g` and at least its edges -/
private def GLe (g g' : UG) : Prop := verts g' = verts g ∧ ∀ u w, w ∈ nbrs g u → w ∈ nbrs g' u

private theorem GLe.refl (g : UG) : GLe g g := ⟨rfl, fun _ _ h => h⟩
private theorem GLe.trans {a b c : UG} (h1 : GLe a b) (h2 : GLe b c) : GLe a c :=
  ⟨h2.1.trans h1.1, fun u w h => h2.2 u w (h1.2 u w h)⟩

private theorem GLe_addEdge (g : UG) (a b : Nat) : GLe g (addEdge g a b) :=
  ⟨verts_addEdge' g a b, fun u w h => (mem_nbrs_addEdge g a b u w).2 (Or.inl h)⟩

private theorem makeClique_complete (g : UG) (ns : List Nat) :
    GLe g (makeClique g ns) ∧
      ∀ a ∈ ns, ∀ b ∈ ns, a ≠ b → a ∈ verts g → b ∈ nbrs (makeClique g ns) a := by
  unfold makeClique
  have hinner : ∀ (a : Nat) (g0 : UG),
      GLe g0 (ns.foldl (fun g b => if a != b then addEdge g a b else g) g0) ∧
      ∀ b ∈ ns, (a ≠ b → a ∈ verts g0 →
        b ∈ nbrs (ns.foldl (fun g b => if a != b then addEdge g a b else g) g0) a) := by
    intro a g0
    have := foldl_mono_all GLe GLe.refl (fun _ _ _ => GLe.trans)
      (fun g b => if a != b then addEdge g a b else g)
      (fun b g' => a ≠ b → a ∈ verts g' → b ∈ nbrs g' a) ns
      (by intro g1 b _; split_ifs
          · exact GLe_addEdge _ _ _
          · exact GLe.refl _)
      (by intro g1 b _ hab hav
          have : (a != b) = true := by simp [hab]
          simp only [this, if_true] at hav ⊢
          rw [verts_addEdge'] at hav
          exact (mem_nbrs_addEdge g1 a b a b).2 (Or.inr ⟨hav, Or.inl ⟨rfl, rfl⟩⟩))
      (by intro b g1 g2 hle hq hab hav
          rw [hle.1] at hav
          exact hle.2 _ _ (hq hab hav)) g0
    refine ⟨this.1, fun b hb hab hav => this.2 b hb hab ?_⟩
    rw [this.1.1]; exact hav
  have := foldl_mono_all GLe GLe.refl (fun _ _ _ => GLe.trans)
      (fun g a => ns.foldl (fun g b => if a != b then addEdge g a b else g) g)
      (fun a g' => ∀ b ∈ ns, a ≠ b → a ∈ verts g' → b ∈ nbrs g' a) ns
      (by intro g1 a _; exact (hinner a g1).1)
      (by intro g1 a _ b hb hab hav
          refine (hinner a g1).2 b hb hab ?_
          rw [(hinner a g1).1.1] at hav; exact hav)
      (by intro a g1 g2 hle hq b hb hab hav
          rw [hle.1] at hav
          exact hle.2 _ _ (hq b hb hab hav)) g
  refine ⟨this.1, fun a ha b hb hab hav => this.2 a ha b hb hab ?_⟩
  rw [this.1.1]; exact hav

private theorem makeClique_sound (g : UG) (ns : List Nat) (hn : ∀ u, (nbrs g u).Nodup) :
    (∀ u, (nbrs (makeClique g ns) u).Nodup) ∧
      ∀ u w, w ∈ nbrs (makeClique g ns) u → w ∈ nbrs g u ∨ (u ∈ ns ∧ w ∈ ns ∧ u ≠ w) := by
  unfold makeClique
  refine foldl_inv' (fun g' => (∀ u, (nbrs g' u).Nodup) ∧
      ∀ u w, w ∈ nbrs g' u → w ∈ nbrs g u ∨ (u ∈ ns ∧ w ∈ ns ∧ u ≠ w)) _ _ _
    ⟨hn, fun _ _ h => Or.inl h⟩ ?_
  intro g1 h1 a ha
  refine foldl_inv' (fun g' => (∀ u, (nbrs g' u).Nodup) ∧
      ∀ u w, w ∈ nbrs g' u → w ∈ nbrs g u ∨ (u ∈ ns ∧ w ∈ ns ∧ u ≠ w)) _ _ _ h1 ?_
  intro g2 h2 b hb
  split_ifs with hab
  · have hab' : a ≠ b := by simpa using hab
    refine ⟨nodup_nbrs_addEdge g2 a b h2.1, ?_⟩
    intro u w hw
    rcases (mem_nbrs_addEdge g2 a b u w).1 hw with h | ⟨_, ⟨h, h'⟩ | ⟨h, h'⟩⟩
    · exact h2.2 u w h
    · subst h; subst h'; exact Or.inr ⟨ha, hb, hab'⟩
    · subst h; subst h'; exact Or.inr ⟨hb, ha, fun h => hab' h.symm⟩
  · exact h2

private theorem makeClique_sound_mem (g : UG) (ns : List Nat) :
    ∀ u w, w ∈ nbrs (makeClique g ns) u → w ∈ nbrs g u ∨ (u ∈ ns ∧ w ∈ ns ∧ u ≠ w) := by
  unfold makeClique
  refine foldl_inv' (fun g' =>
      ∀ u w, w ∈ nbrs g' u → w ∈ nbrs g u ∨ (u ∈ ns ∧ w ∈ ns ∧ u ≠ w)) _ _ _
    (fun _ _ h => Or.inl h) ?_
  intro g1 h1 a ha
  refine foldl_inv' (fun g' =>
      ∀ u w, w ∈ nbrs g' u → w ∈ nbrs g u ∨ (u ∈ ns ∧ w ∈ ns ∧ u ≠ w)) _ _ _ h1 ?_
  intro g2 h2 b hb
  split_ifs with hab
  · have hab' : a ≠ b := by simpa using hab
    intro u w hw
    rcases (mem_nbrs_addEdge g2 a b u w).1 hw with h | ⟨_, ⟨h, h'⟩ | ⟨h, h'⟩⟩
    · exact h2 u w h
    · subst h; subst h'; exact Or.inr ⟨ha, hb, hab'⟩
    · subst h; subst h'; exact Or.inr ⟨hb, ha, fun h => hab' h.symm⟩
  · exact h2

private theorem nbrs_removeNode (g : UG) (v u : Nat) :
    nbrs (removeNode g v) u = if u == v then [] else (nbrs g u).filter (· != v) := by
  unfold nbrs removeNode
  rw [lookup_map_snd (g.filter (fun p => p.1 != v)) (fun _ l => l.filter (· != v)) u, lookup_filter_key]
  by_cases h : u = v
  · subst h; simp
  · have hb : (u == v) = false := by simp [h]
    simp only [hb, Bool.false_eq_true, if_false]
    cases g.lookup u <;> simp

/-- the edges of the graph after eliminating `v` -/
private theorem mem_nbrs_eliminate (g : UG) (v : Nat) (hN : ∀ x ∈ nbrs g v, x ∈ verts g) (u w : Nat) :
    w ∈ nbrs (eliminate g v) u ↔
      u ≠ v ∧ w ≠ v ∧ (w ∈ nbrs g u ∨ (u ∈ nbrs g v ∧ w ∈ nbrs g v ∧ u ≠ w)) := by
  unfold eliminate
  rw [nbrs_removeNode]
  obtain ⟨hle, hcomp⟩ := makeClique_complete g (nbrs g v)
  have hsound := makeClique_sound_mem g (nbrs g v)
  by_cases huv : u = v
  · subst huv; simp
  · have hb : (u == v) = false := by simp [huv]
    simp only [hb, Bool.false_eq_true, if_false, List.mem_filter, bne_iff_ne, ne_eq, huv,
      not_false_eq_true, true_and]
    constructor
    · rintro ⟨h1, h2⟩
      exact ⟨h2, hsound u w h1⟩
    · rintro ⟨h1, h2 | ⟨h2, h3, h4⟩⟩
      · exact ⟨hle.2 u w h2, h1⟩
      · exact ⟨hcomp u h2 w h3 h4 (hN u h2), h1⟩

private theorem nodup_nbrs_eliminate (g : UG) (v : Nat) (hn : ∀ u, (nbrs g u).Nodup) (u : Nat) :
    (nbrs (eliminate g v) u).Nodup := by
  unfold eliminate
  rw [nbrs_removeNode]
  split_ifs
  · simp
  · exact ((makeClique_sound g _ hn).1 u).filter _

/-- eliminating a vertex of a well-formed graph gives a well-formed graph -/
theorem eliminate_wf (g : UG) (v : Nat) (h : GraphWF g) : GraphWF (eliminate g v) := by
  have hN : ∀ x ∈ nbrs g v, x ∈ verts g := fun x hx => (h.nbrs_sub hx).2.1
  have hk : (verts (eliminate g v)).Nodup := by
    rw [verts_eliminate]; exact h.keys.filter _
  refine GraphWF.of_nbrs hk (nodup_nbrs_eliminate g v h.nbrs_nodup) ?_ ?_
  · intro u w hw
    obtain ⟨h1, h2, h3⟩ := (mem_nbrs_eliminate g v hN u w).1 hw
    rw [verts_eliminate]
    rcases h3 with h3 | ⟨h3, h4, h5⟩
    · exact ⟨List.mem_filter.2 ⟨(h.nbrs_sub h3).2.1, by simpa using h2⟩, (h.nbrs_sub h3).2.2⟩
    · exact ⟨List.mem_filter.2 ⟨hN w h4, by simpa using h2⟩, h5⟩
  · intro u w hw
    obtain ⟨h1, h2, h3⟩ := (mem_nbrs_eliminate g v hN u w).1 hw
    refine (mem_nbrs_eliminate g v hN w u).2 ⟨h2, h1, ?_⟩
    rcases h3 with h3 | ⟨h3, h4, h5⟩
    · exact Or.inl (h.symm _ _ h3)
    · exact Or.inr ⟨h4, h3, fun e => h5 e.symm⟩

/-! ### paths and the attachment of a leaf -/

private theorem PathIn.right' {t : Tree} {P : List Nat → Prop} {a b : List Nat}
    (h : PathIn t P a b) : P b := by
  cases h <;> assumption

private theorem PathIn.trans' {t : Tree} {P : List Nat → Prop} {a b c : List Nat}
    (h1 : PathIn t P a b) (h2 : PathIn t P b c) : PathIn t P a c := by
  induction h2 with
  | refl _ => exact h1
  | step _ hadj hp ih => exact PathIn.step ih hadj hp

private theorem PathIn.lift {t t' : Tree} {P Q : List Nat → Prop} {a b : List Nat}
    (hadj : ∀ a b, TAdj t a b → TAdj t' a b) (hpq : ∀ c, P c → Q c) (h : PathIn t P a b) :
    PathIn t' Q a b := by
  induction h with
  | refl hp => exact .refl _ (hpq _ hp)
  | step hab had hp ih => exact .step ih (hadj _ _ had) (hpq _ hp)

private def attF (tv bag : List Nat) (p : List Nat × List (List Nat)) : List Nat × List (List Nat) :=
  (p.1, if p.1 == tv then p.2 ++ [bag] else p.2)

/-- the tree `t` with the new leaf `bag` hung on `tv` -/
private def attach (t : Tree) (tv bag : List Nat) : Tree :=
  t.map (attF tv bag) ++ [(bag, [tv])]

private theorem keys_attach (t : Tree) (tv bag : List Nat) :
    (attach t tv bag).map (·.1) = t.map (·.1) ++ [bag] := by
  simp [attach, List.map_map, Function.comp_def, attF]

private theorem tadj_of_mem (t : Tree) (hn : (t.map (·.1)).Nodup) (p : List Nat × List (List Nat))
    (hp : p ∈ t) (c : List Nat) (hc : c ∈ p.2) : TAdj t p.1 c := by
  unfold TAdj
  rw [lookup_of_mem_nodup t hn p.1 p.2 hp]; exact hc

private theorem attach_eq (t : Tree) (tv bag : List Nat) (hn : (t.map (·.1)).Nodup)
    (hbag : bag ∉ t.map (·.1)) (htv : tv ∈ t.map (·.1))
    (hadj : ∀ a, a ∈ t.map (·.1) → ¬ TAdj t a bag) :
    treeAddEdge (treeAddNode t bag) tv bag = attach t tv bag := by
  have hne : tv ≠ bag := fun e => hbag (e ▸ htv)
  have hany : t.any (fun p => p.1 == bag) = false := by
    rw [Bool.eq_false_iff]
    intro h
    obtain ⟨p, hp, hpb⟩ := List.any_eq_true.1 h
    simp only [beq_iff_eq] at hpb
    exact hbag (List.mem_map.2 ⟨p, hp, hpb⟩)
  unfold treeAddNode
  simp only [hany, Bool.false_eq_true, if_false]
  unfold treeAddEdge attach
  rw [List.map_append]
  congr 1
  · apply List.map_congr_left
    intro p hp
    have hpk : p.1 ∈ t.map (·.1) := List.mem_map.2 ⟨p, hp, rfl⟩
    have hpb : p.1 ≠ bag := fun e => hbag (e ▸ hpk)
    have hpb' : (p.1 == bag) = false := by simp [hpb]
    have hc : p.2.contains bag = false := by
      rw [Bool.eq_false_iff]
      intro h
      exact hadj p.1 hpk (tadj_of_mem t hn p hp bag (by simpa using h))
    unfold attF
    by_cases h : p.1 = tv
    · have h' : (p.1 == tv) = true := by simp [h]
      simp only [h', hc, if_true, Bool.false_eq_true, if_false]
    · have h' : (p.1 == tv) = false := by simp [h]
      simp [h', hpb']
  · have h1 : (bag == tv) = false := by simp [Ne.symm hne]
    simp [h1]

private theorem lookup_attach (t : Tree) (tv bag a : List Nat) :
    (attach t tv bag).lookup a =
      ((t.lookup a).map (fun l => if a == tv then l ++ [bag] else l)).or
        (if a == bag then some [tv] else none) := by
  unfold attach
  rw [List.lookup_append]
  have : t.map (attF tv bag) = t.map (fun p => (p.1, (fun k l => if k == tv then l ++ [bag] else l) p.1 p.2)) := rfl
  rw [this, lookup_map_snd t (fun k l => if k == tv then l ++ [bag] else l) a]
  congr 1
  rw [List.lookup_cons]
  by_cases h : a = bag
  · subst h; simp
  · have h' : (a == bag) = false := by simp [h]
    simp [h']

private theorem TAdj_attach (t : Tree) (tv bag : List Nat) (hbag : bag ∉ t.map (·.1))
    (htv : tv ∈ t.map (·.1)) (a c : List Nat) :
    TAdj (attach t tv bag) a c ↔ TAdj t a c ∨ (a = tv ∧ c = bag) ∨ (a = bag ∧ c = tv) := by
  unfold TAdj
  rw [lookup_attach]
  cases hl : t.lookup a with
  | none =>
    have ha : a ∉ t.map (·.1) := (lookup_none_iff t a).1 hl
    have hatv : a ≠ tv := fun e => ha (e ▸ htv)
    by_cases h : a = bag
    · subst h; simp [hatv]
    · have h' : (a == bag) = false := by simp [h]
      simp [h', h, hatv]
  | some l =>
    have ha : a ∈ t.map (·.1) := List.mem_map.2 ⟨_, lookup_some_mem t a l hl, rfl⟩
    have hab : a ≠ bag := fun e => hbag (e ▸ ha)
    by_cases h : a = tv
    · subst h; simp [hab]
    · have h' : (a == tv) = false := by simp [h]
      simp [h', h, hab]

private theorem foldl_add_sum (l : List Nat) (acc : Nat) : l.foldl (· + ·) acc = acc + l.sum := by
  induction l generalizing acc with
  | nil => simp
  | cons x xs ih => simp only [List.foldl_cons, List.sum_cons, ih]; omega

private theorem degsum_attF_notmem (t : Tree) (tv bag : List Nat) (h : tv ∉ t.map (·.1)) :
    ((t.map (attF tv bag)).map (fun p => p.2.length)).sum = (t.map (fun p => p.2.length)).sum := by
  induction t with
  | nil => rfl
  | cons q t ih =>
    simp only [List.map_cons, List.mem_cons, not_or] at h
    have h' : (q.1 == tv) = false := by simp [Ne.symm h.1]
    simp only [List.map_cons, List.sum_cons, ih h.2, attF, h', Bool.false_eq_true, if_false]

private theorem degsum_attF_mem (t : Tree) (tv bag : List Nat) (hn : (t.map (·.1)).Nodup)
    (h : tv ∈ t.map (·.1)) :
    ((t.map (attF tv bag)).map (fun p => p.2.length)).sum = (t.map (fun p => p.2.length)).sum + 1 := by
  induction t with
  | nil => simp at h
  | cons q t ih =>
    simp only [List.map_cons, List.nodup_cons] at hn
    simp only [List.map_cons, List.mem_cons] at h
    by_cases hq : q.1 = tv
    · have htv : tv ∉ t.map (·.1) := hq ▸ hn.1
      simp only [List.map_cons, List.sum_cons, degsum_attF_notmem t tv bag htv, attF, hq,
        beq_self_eq_true, if_true, List.length_append, List.length_singleton]
      omega
    · have h' : (q.1 == tv) = false := by simp [hq]
      have hmem : tv ∈ t.map (·.1) := by
        rcases h with h | h
        · exact absurd h.symm hq
        · exact h
      simp only [List.map_cons, List.sum_cons, ih hn.2 hmem, attF, h', Bool.false_eq_true, if_false]
      omega

private theorem validTD_attach (g g' : UG) (v : Nat) (N : List Nat) (t : Tree) (tv bag : List Nat)
    (ht : ValidTD g' t) (hn : (t.map (·.1)).Nodup) (hk : (verts g).Nodup)
    (hv : v ∈ verts g)
    (hverts : ∀ u, u ∈ verts g' ↔ u ∈ verts g ∧ u ≠ v)
    (hbagmem : ∀ u, u ∈ bag ↔ u ∈ N ∨ u = v)
    (hNsub : ∀ u ∈ N, u ∈ verts g')
    (hedge : ∀ u w, w ∈ nbrs g u → (u = v ∧ w ∈ N) ∨ (w = v ∧ u ∈ N) ∨ w ∈ nbrs g' u)
    (htv : tv ∈ t.map (·.1)) (hsub : ∀ u ∈ N, u ∈ tv) :
    bag ∉ t.map (·.1) ∧ ValidTD g (attach t tv bag) := by
  have hbag : bag ∉ t.map (·.1) := by
    intro hb
    have := ht.onlyV bag hb v ((hbagmem v).2 (Or.inr rfl))
    exact ((hverts v).1 this).2 rfl
  have hne : tv ≠ bag := fun e => hbag (e ▸ htv)
  have hadj := TAdj_attach t tv bag hbag htv
  have hkeys := keys_attach t tv bag
  have hold : ∀ a, a ∈ t.map (·.1) → a ∈ (attach t tv bag).map (·.1) := by
    intro a ha; rw [hkeys]; exact List.mem_append_left _ ha
  have hnew : bag ∈ (attach t tv bag).map (·.1) := by rw [hkeys]; simp
  have hcases : ∀ a, a ∈ (attach t tv bag).map (·.1) → a ∈ t.map (·.1) ∨ a = bag := by
    intro a ha; rw [hkeys] at ha; simpa using ha
  have hvold : ∀ a, a ∈ t.map (·.1) → v ∉ a := by
    intro a ha hva
    exact ((hverts v).1 (ht.onlyV a ha v hva)).2 rfl
  have hlift : ∀ {P Q : List Nat → Prop} {a b : List Nat}, (∀ c, P c → Q c) → PathIn t P a b →
      PathIn (attach t tv bag) Q a b :=
    fun hpq h => PathIn.lift (fun a b hab => (hadj a b).2 (Or.inl hab)) hpq h
  have hadj1 : TAdj (attach t tv bag) tv bag := (hadj _ _).2 (Or.inr (Or.inl ⟨rfl, rfl⟩))
  have hadj2 : TAdj (attach t tv bag) bag tv := (hadj _ _).2 (Or.inr (Or.inr ⟨rfl, rfl⟩))
  refine ⟨hbag, ?_, ?_, ?_, ?_, ?_, ?_, ?_, ?_⟩
  · simp [attach]
  · -- symm
    intro a b hab ha
    rcases (hadj a b).1 hab with h | ⟨h1, h2⟩ | ⟨h1, h2⟩
    · have ha' : a ∈ t.map (·.1) := by
        rcases hcases a ha with h' | h'
        · exact h'
        · exfalso
          subst h'
          unfold TAdj at h
          rw [(lookup_none_iff t _).2 hbag] at h
          simp at h
      obtain ⟨h1, h2, h3⟩ := ht.symm a b h ha'
      exact ⟨hold b h1, (hadj b a).2 (Or.inl h2), h3⟩
    · subst h1; subst h2
      exact ⟨hnew, hadj2, hne⟩
    · subst h1; subst h2
      exact ⟨hold _ htv, hadj1, Ne.symm hne⟩
  · -- connected
    have to_bag : ∀ a ∈ t.map (·.1),
        PathIn (attach t tv bag) (fun c => c ∈ (attach t tv bag).map (·.1)) a bag :=
      fun a ha => PathIn.step (hlift hold (ht.connected a ha tv htv)) hadj1 hnew
    have from_bag : ∀ b ∈ t.map (·.1),
        PathIn (attach t tv bag) (fun c => c ∈ (attach t tv bag).map (·.1)) bag b :=
      fun b hb => PathIn.trans' (PathIn.step (PathIn.refl bag hnew) hadj2 (hold tv htv))
        (hlift hold (ht.connected tv htv b hb))
    intro a ha b hb
    rcases hcases a ha with ha' | ha' <;> rcases hcases b hb with hb' | hb'
    · exact hlift hold (ht.connected a ha' b hb')
    · subst hb'; exact to_bag a ha'
    · subst ha'; exact from_bag b hb'
    · subst ha'; subst hb'; exact PathIn.refl _ hnew
  · -- edge count
    have hlen : t.length ≥ 1 := by
      cases t with
      | nil => exact absurd rfl ht.nonempty
      | cons _ _ => simp
    have h0 := ht.edgeCount
    rw [foldl_add_sum] at h0 ⊢
    unfold attach
    rw [List.map_append, List.sum_append, degsum_attF_mem t tv bag hn htv]
    simp only [List.length_append, List.length_map, List.length_cons, List.length_nil, List.map_cons,
      List.map_nil, List.sum_cons, List.sum_nil]
    omega
  · -- coverV
    intro u hu
    by_cases huv : u = v
    · exact ⟨bag, hnew, (hbagmem u).2 (Or.inr huv)⟩
    · obtain ⟨b, hb, hub⟩ := ht.coverV u ((hverts u).2 ⟨hu, huv⟩)
      exact ⟨b, hold b hb, hub⟩
  · -- onlyV
    intro b hb u hu
    rcases hcases b hb with hb' | hb'
    · exact ((hverts u).1 (ht.onlyV b hb' u hu)).1
    · subst hb'
      rcases (hbagmem u).1 hu with h | h
      · exact ((hverts u).1 (hNsub u h)).1
      · rw [h]; exact hv
  · -- coverE
    intro p hp w hw
    rw [← nbrs_of_mem g hk p hp] at hw
    rcases hedge p.1 w hw with ⟨h1, h2⟩ | ⟨h1, h2⟩ | h
    · exact ⟨bag, hnew, (hbagmem _).2 (Or.inr h1), (hbagmem _).2 (Or.inl h2)⟩
    · exact ⟨bag, hnew, (hbagmem _).2 (Or.inl h2), (hbagmem _).2 (Or.inr h1)⟩
    · obtain ⟨b, hb, h1, h2⟩ := ht.coverE _ (mem_of_nbrs_ne_nil g' p.1 w h) w h
      exact ⟨b, hold b hb, h1, h2⟩
  · -- running
    intro u hu a ha b hb hua hub
    by_cases huv : u = v
    · subst huv
      have ha' : a = bag := by
        rcases hcases a ha with h | h
        · exact absurd hua (hvold a h)
        · exact h
      have hb' : b = bag := by
        rcases hcases b hb with h | h
        · exact absurd hub (hvold b h)
        · exact h
      subst ha'; subst hb'
      exact PathIn.refl _ ⟨hnew, hua⟩
    · have hu' : u ∈ verts g' := (hverts u).2 ⟨hu, huv⟩
      have hQ : ∀ c, (c ∈ t.map (·.1) ∧ u ∈ c) → (c ∈ (attach t tv bag).map (·.1) ∧ u ∈ c) :=
        fun c hc => ⟨hold c hc.1, hc.2⟩
      have hutv : u ∈ bag → u ∈ tv := by
        intro h
        rcases (hbagmem u).1 h with h | h
        · exact hsub u h
        · exact absurd h huv
      rcases hcases a ha with ha' | ha' <;> rcases hcases b hb with hb' | hb'
      · exact hlift hQ (ht.running u hu' a ha' b hb' hua hub)
      · subst hb'
        exact PathIn.step (hlift hQ (ht.running u hu' a ha' tv htv hua (hutv hub))) hadj1 ⟨hnew, hub⟩
      · subst ha'
        exact PathIn.trans' (PathIn.step (PathIn.refl _ ⟨hnew, hua⟩) hadj2 ⟨hold tv htv, hutv hua⟩)
          (hlift hQ (ht.running u hu' tv htv b hb' (hutv hua) hub))
      · subst ha'; subst hb'
        exact PathIn.refl _ ⟨hnew, hua⟩

/-! ### the induction over the elimination order -/

/-- every clique of the graph lies inside some bag -/
private def CliqueCov (g : UG) (t : Tree) : Prop :=
  ∀ K : List Nat, (∀ x ∈ K, x ∈ verts g) → (∀ x ∈ K, ∀ y ∈ K, x ≠ y → y ∈ nbrs g x) →
    ∃ b ∈ t.map (·.1), ∀ x ∈ K, x ∈ b

private def maxBag (t : Tree) : Nat := (t.map (fun p => p.1.length)).foldl max 0

private theorem validTD_single (g : UG) (bag : List Nat) (h1 : ∀ u, u ∈ bag ↔ u ∈ verts g)
    (hc : ∀ p ∈ g, ∀ w ∈ p.2, w ∈ verts g) : ValidTD g [(bag, [])] := by
  have hkeys : ∀ a, a ∈ ([(bag, [])] : Tree).map (·.1) → a = bag := by
    intro a ha; simpa using ha
  have hmem : bag ∈ ([(bag, [])] : Tree).map (·.1) := by simp
  refine ⟨by simp, ?_, ?_, ?_, ?_, ?_, ?_, ?_⟩
  · intro a b hab ha
    exfalso
    have := hkeys a ha
    subst this
    unfold TAdj at hab
    simp [List.lookup_cons] at hab
  · intro a ha b hb
    rw [hkeys a ha, hkeys b hb]
    exact PathIn.refl _ hmem
  · simp
  · intro u hu; exact ⟨bag, hmem, (h1 u).2 hu⟩
  · intro b hb u hu; rw [hkeys b hb] at hu; exact (h1 u).1 hu
  · intro p hp w hw
    exact ⟨bag, hmem, (h1 _).2 (List.mem_map.2 ⟨p, hp, rfl⟩), (h1 _).2 (hc p hp w hw)⟩
  · intro u hu a ha b hb hua hub
    have ea := hkeys a ha
    have eb := hkeys b hb
    subst ea; subst eb
    exact PathIn.refl _ ⟨hmem, hua⟩

private theorem fromOrderAux_fst_cons (v : Nat) (rest : List Nat) (g : UG) :
    (fromOrderAux (v :: rest) g).1 =
      if (nbrs g v).length < (eliminate g v).length then
        match (fromOrderAux rest (eliminate g v)).1.find? (fun p => subset (nbrs g v) p.1) with
        | some (tv, _) =>
          treeAddEdge (treeAddNode (fromOrderAux rest (eliminate g v)).1 (sortBag (nbrs g v ++ [v])))
            tv (sortBag (nbrs g v ++ [v]))
        | none => treeAddNode (fromOrderAux rest (eliminate g v)).1 (sortBag (nbrs g v ++ [v]))
      else treeAddNode [] (sortBag (nbrs g v ++ [v])) := by
  simp only [fromOrderAux]
  split_ifs
  · rcases fromOrderAux rest (eliminate g v) with ⟨t, g''⟩
    simp only
    split <;> rename_i h <;> simp only [h]
  · rfl

private theorem length_eq_verts' (g : UG) : g.length = (verts g).length := by
  simp [verts]

private theorem elimWidth_le_length' (order : List Nat) : ∀ (g : UG), GraphWF g →
    elimWidth g order ≤ g.length := by
  induction order with
  | nil => intro g _; simp [elimWidth]
  | cons v rest ih =>
    intro g hg
    simp only [elimWidth]
    refine max_le ?_ ?_
    · rw [length_eq_verts']
      exact (List.subperm_of_subset (hg.nbrs_nodup v) (fun x hx => (hg.nbrs_sub hx).2.1)).length_le
    · refine le_trans (ih _ (eliminate_wf g v hg)) ?_
      rw [length_eq_verts', length_eq_verts', verts_eliminate]
      exact List.length_filter_le _ _

private theorem maxBag_attach (t : Tree) (tv bag : List Nat) :
    maxBag (attach t tv bag) = max (maxBag t) bag.length := by
  unfold maxBag
  have : (attach t tv bag).map (fun p => p.1.length) = t.map (fun p => p.1.length) ++ [bag.length] := by
    simp [attach, attF, List.map_map, Function.comp_def]
  rw [this, List.foldl_append]
  rfl

private theorem fromOrderAux_inv : ∀ (order : List Nat) (g : UG), GraphWF g → order.Perm (verts g) →
    order ≠ [] →
    ValidTD g (fromOrderAux order g).1 ∧ ((fromOrderAux order g).1.map (·.1)).Nodup ∧
      CliqueCov g (fromOrderAux order g).1 ∧
      maxBag (fromOrderAux order g).1 = elimWidth g order + 1 := by
  intro order
  induction order with
  | nil => intro g _ _ h; exact absurd rfl h
  | cons v rest ih =>
    intro g hg hp _
    have hv : v ∈ verts g := hp.subset (by simp)
    have hN : ∀ x ∈ nbrs g v, x ∈ verts g := fun x hx => (hg.nbrs_sub hx).2.1
    have hNv : v ∉ nbrs g v := fun h => (hg.nbrs_sub h).2.2 rfl
    have hNnd := hg.nbrs_nodup v
    have hg' := eliminate_wf g v hg
    have hverts : ∀ u, u ∈ verts (eliminate g v) ↔ u ∈ verts g ∧ u ≠ v := by
      intro u; rw [verts_eliminate]; simp
    have hp' : rest.Perm (verts (eliminate g v)) := by
      rw [verts_eliminate, ← hg.keys.erase_eq_filter]
      exact (hp.trans (List.perm_cons_erase hv)).cons_inv
    have hlen : (eliminate g v).length = rest.length := by
      rw [hp'.length_eq, length_eq_verts']
    have hmemE := mem_nbrs_eliminate g v hN
    have hNsub : ∀ u ∈ nbrs g v, u ∈ verts (eliminate g v) :=
      fun u hu => (hverts u).2 ⟨hN u hu, fun e => hNv (e ▸ hu)⟩
    have hbagmem : ∀ u, u ∈ sortBag (nbrs g v ++ [v]) ↔ u ∈ nbrs g v ∨ u = v := by
      intro u; unfold sortBag; rw [List.mem_mergeSort]; simp
    have hbaglen : (sortBag (nbrs g v ++ [v])).length = (nbrs g v).length + 1 := by
      unfold sortBag; rw [List.length_mergeSort]; simp
    rw [fromOrderAux_fst_cons]
    simp only [elimWidth]
    split_ifs with hlt
    · -- the recursive case
      have hrest : rest ≠ [] := by
        intro e; rw [hlen, e] at hlt; simp at hlt
      obtain ⟨ht, hnd, hcc, hmb⟩ := ih (eliminate g v) hg' hp' hrest
      generalize (fromOrderAux rest (eliminate g v)).1 = t at ht hnd hcc hmb ⊢
      obtain ⟨b0, hb0, hNb0⟩ := hcc (nbrs g v) hNsub (by
        intro x hx y hy hxy
        exact (hmemE x y).2 ⟨fun e => hNv (e ▸ hx), fun e => hNv (e ▸ hy), Or.inr ⟨hx, hy, hxy⟩⟩)
      split
      · rename_i tv adj hfind
        have h1 := List.find?_some hfind
        have h2 := List.mem_of_find?_eq_some hfind
        have htv : tv ∈ t.map (·.1) := List.mem_map.2 ⟨_, h2, rfl⟩
        have hsub : ∀ u ∈ nbrs g v, u ∈ tv := by simpa [TD.subset] using h1
        have hedge : ∀ u w, w ∈ nbrs g u →
            (u = v ∧ w ∈ nbrs g v) ∨ (w = v ∧ u ∈ nbrs g v) ∨ w ∈ nbrs (eliminate g v) u := by
          intro u w hw
          by_cases huv : u = v
          · subst huv; exact Or.inl ⟨rfl, hw⟩
          · by_cases hwv : w = v
            · subst hwv; exact Or.inr (Or.inl ⟨rfl, hg.symm _ _ hw⟩)
            · exact Or.inr (Or.inr ((hmemE u w).2 ⟨huv, hwv, Or.inl hw⟩))
        obtain ⟨hbag, hvalid⟩ := validTD_attach g (eliminate g v) v (nbrs g v) t tv
          (sortBag (nbrs g v ++ [v])) ht hnd hg.keys hv hverts hbagmem hNsub hedge htv hsub
        rw [attach_eq t tv _ hnd hbag htv (fun a ha hadj => hbag (ht.symm a _ hadj ha).1)]
        refine ⟨hvalid, ?_, ?_, ?_⟩
        · rw [keys_attach]
          exact List.Nodup.append hnd (by simp) (by simpa using hbag)
        · intro K hK1 hK2
          by_cases hvK : v ∈ K
          · refine ⟨sortBag (nbrs g v ++ [v]), by rw [keys_attach]; simp, ?_⟩
            intro x hx
            by_cases hxv : x = v
            · exact (hbagmem x).2 (Or.inr hxv)
            · exact (hbagmem x).2 (Or.inl (hK2 v hvK x hx (Ne.symm hxv)))
          · have hKv : ∀ x ∈ K, x ≠ v := fun x hx e => hvK (e ▸ hx)
            obtain ⟨b, hb, hKb⟩ := hcc K (fun x hx => (hverts x).2 ⟨hK1 x hx, hKv x hx⟩)
              (fun x hx y hy hxy => (hmemE x y).2 ⟨hKv x hx, hKv y hy, Or.inl (hK2 x hx y hy hxy)⟩)
            exact ⟨b, by rw [keys_attach]; exact List.mem_append_left _ hb, hKb⟩
        · rw [maxBag_attach, hmb, hbaglen]
          simp only [Nat.max_def]
          split_ifs <;> omega
      · rename_i hfind
        exfalso
        obtain ⟨p, hp, hpb⟩ := List.mem_map.1 hb0
        refine List.find?_eq_none.1 hfind p hp ?_
        subst hpb
        simpa [TD.subset] using hNb0
    · -- the remaining graph is covered by the neighbours
      have hperm : (nbrs g v).Perm (verts (eliminate g v)) :=
        (List.subperm_of_subset hNnd hNsub).perm_of_length_le (by
          rw [← length_eq_verts']; omega)
      have hall : ∀ u, u ∈ sortBag (nbrs g v ++ [v]) ↔ u ∈ verts g := by
        intro u
        rw [hbagmem]
        constructor
        · rintro (h | h)
          · exact hN u h
          · rw [h]; exact hv
        · intro hu
          by_cases huv : u = v
          · exact Or.inr huv
          · exact Or.inl (hperm.mem_iff.2 ((hverts u).2 ⟨hu, huv⟩))
      have hta : treeAddNode [] (sortBag (nbrs g v ++ [v])) = [(sortBag (nbrs g v ++ [v]), [])] := by
        simp [treeAddNode]
      rw [hta]
      refine ⟨validTD_single g _ hall hg.closed, by simp, ?_, ?_⟩
      · intro K hK1 _
        exact ⟨_, by simp, fun x hx => (hall x).2 (hK1 x hx)⟩
      · have := elimWidth_le_length' rest (eliminate g v) hg'
        simp only [maxBag, List.map_cons, List.map_nil, List.foldl_cons, List.foldl_nil, hbaglen]
        simp only [Nat.max_def]
        split_ifs <;> omega

/-- **the elimination game yields a valid tree decomposition**, for every graph and every order -/
theorem fromOrder_valid (g : UG) (hg : GraphWF g) (order : List Nat) (hp : order.Perm (verts g)) :
    ValidTD g (fromOrder g order) := by
  unfold fromOrder
  split_ifs with he
  · have ho : order = [] := by simpa using he
    subst ho
    have hv : verts g = [] := hp.symm.eq_nil
    exact validTD_single g [] (by simp [hv]) hg.closed
  · have ho : order ≠ [] := by simpa using he
    exact (fromOrderAux_inv order g hg hp ho).1

/-- and its width is the elimination width of the order (non-empty graphs) -/
theorem fromOrder_width (g : UG) (hg : GraphWF g) (order : List Nat) (hp : order.Perm (verts g))
    (hne : g ≠ []) : width (fromOrder g order) = elimWidth g order := by
  have ho : order ≠ [] := by
    intro e; subst e
    have hv : verts g = [] := hp.symm.eq_nil
    exact hne (by simpa [verts] using hv)
  unfold fromOrder
  have he : order.isEmpty = false := by simpa using ho
  simp only [he, Bool.false_eq_true, if_false]
  have := (fromOrderAux_inv order g hg hp ho).2.2.2
  unfold maxBag at this
  unfold width
  rw [this]; simp

/-- **tree_decomposition(method='min_fill') is valid for every graph**: min_fill returns a permutation of the
vertices (`minFill_perm`) and the elimination game along any permutation is valid (`fromOrder_valid`). -/
theorem minFill_decomposition_valid (g : UG) (hg : GraphWF g) :
    ValidTD g (fromOrder g (minFill g).2) :=
  fromOrder_valid g hg _ (minFill_perm g hg.keys)

/-- and its width is the width min_fill reports -/
theorem minFill_decomposition_width (g : UG) (hg : GraphWF g) (hne : g ≠ []) :
    width (fromOrder g (minFill g).2) = (minFill g).1 := by
  rw [fromOrder_width g hg _ (minFill_perm g hg.keys) hne, minFill_reports_width g hg.keys]

end C10
