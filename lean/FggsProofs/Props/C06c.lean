/-
C06c — Anti-unification of axes (FggsModel/Unify.lean: `antiunify`, `extendAnti`, `antiLoop`, `antiunifyAll`; the
model of `Axis.antiunify` / `extend_antisubst` of fggs/indices.py) computes a GENERALISATION of both arguments:
the returned axis `g` over the fresh physical axes recorded in the anti-substitution denotes, when every fresh
axis is read as the sub-axis of `e` (respectively of `f`) it stands for, exactly the index map of `e`
(respectively `f`), with the same number of elements.  This is what makes the pattern computed by
`expansion` (add, mul, maximum, logaddexp, where, stack, solve …) cover the UNION of the operands' patterns:
every element backed by either operand is backed by the result.
-/
import FggsModel.Unify
import FggsProofs.Props.C06
import FggsProofs.Props.C06b
import FggsProofs.C06bLemmas
import FggsProofs.C06cLemmas
import Mathlib.Tactic.Linarith
import Mathlib.Data.List.Basic

set_option linter.unusedSimpArgs false
set_option linter.unusedVariables false

namespace C06c
open Fggs Fggs.Ax Fggs.Un

/-- read every fresh axis of the anti-substitution as the LEFT axis it stands for -/
def liftL (pairs : List ((Axis × Axis) × (Nat × Nat))) (ρ : Nat → Nat) : Nat → Nat :=
  fun v => match pairs.find? (fun p => p.2.1 == v) with
    | some p => p.1.1.eval ρ
    | none => ρ v

/-- … as the RIGHT axis it stands for -/
def liftR (pairs : List ((Axis × Axis) × (Nat × Nat))) (ρ : Nat → Nat) : Nat → Nat :=
  fun v => match pairs.find? (fun p => p.2.1 == v) with
    | some p => p.1.2.eval ρ
    | none => ρ v

/-- all identities of physical axes occurring in `a` are below `base` -/
def Below (base : Nat) (a : Axis) : Prop := ∀ q ∈ a.fv, q.1 < base

/-- a well-formed anti-substitution above `base`: the original axes live below `base`; fresh axes have pairwise
distinct identities in `[base, next)`, the recorded size is the number of elements of BOTH axes of the pair, and
the pairs mention original axes only -/
structure AStOK (base : Nat) (st : ASt) : Prop where
  le : base ≤ st.next
  ids : ∀ p ∈ st.pairs, base ≤ p.2.1 ∧ p.2.1 < st.next
  nodup : (st.pairs.map (fun p => p.2.1)).Nodup
  size : ∀ p ∈ st.pairs, p.2.2 = p.1.1.numel ∧ p.1.1.numel = p.1.2.numel
  orig : ∀ p ∈ st.pairs, Below base p.1.1 ∧ Below base p.1.2

/-! ### the statements as first given — both are FALSE for the model, for two independent reasons

1. `axisEq` (Python: dict lookup of the pair `(e, f)` in the anti-substitution) compares physical axes by IDENTITY
   only, so `extendAnti` may reuse a fresh axis recorded for a pair whose physical axes carry OTHER sizes; nothing in
   the hypotheses says that one identity always carries one size.  (In the library a `PhysicalAxis` object has one
   `_numel`, so this is a hypothesis missing from the statement, not a defect.)  Corrected by the hypotheses
   `Sized sz e`, `Sized sz f`, `SizedSt sz st`.
2. the conclusion quantifies over ALL assignments `ρ`, also those that do not respect the sizes of the physical
   axes.  `extendAnti` (Python: `extend_antisubst`) returns the unit axis, which denotes 0, when both axes have ONE
   element; an axis with one element denotes 0 only under the assignments within its sizes (`e = X₀(1)` denotes
   `ρ 0`).  The same happens inside products: one-element factors vanish from the result (`e = X₀(2)·X₁(1)`,
   `f = X₂(2)` gives one fresh axis for `(X₀, X₂)`).  Corrected by restricting `ρ` to assignments that respect the
   sizes of the axes of `e` (resp. `f`): `C06.Respects ρ e`. -/

/-- the statement of `antiunify_generalises` as first given (false: `antiunify_generalises_counterexample`) -/
def antiunify_generalises_statement : Prop :=
  ∀ (fuel : Nat) (e f : Axis) (st : ASt) (base : Nat)
    (hst : AStOK base st) (he : Below base e) (hf : Below base f) (hn : e.numel = f.numel),
    let r := antiunify fuel e f st
    AStOK base r.2 ∧ (∃ new, r.2.pairs = st.pairs ++ new) ∧
    r.1.numel = e.numel ∧
    (∀ q ∈ r.1.fv, ∃ p ∈ r.2.pairs, p.2 = q) ∧
    (∀ ρ, r.1.eval (liftL r.2.pairs ρ) = e.eval ρ) ∧
    (∀ ρ, r.1.eval (liftR r.2.pairs ρ) = f.eval ρ)

/-- the statement of `antiunifyAll_generalises` as first given (false: `antiunifyAll_generalises_counterexample`) -/
def antiunifyAll_generalises_statement : Prop :=
  ∀ (fuel : Nat) (ps : List (Axis × Axis)) (st : ASt) (base : Nat)
    (hst : AStOK base st) (hps : ∀ p ∈ ps, Below base p.1 ∧ Below base p.2 ∧ p.1.numel = p.2.numel),
    let r := antiunifyAll fuel ps st
    AStOK base r.2 ∧ r.1.length = ps.length ∧
    ∀ i (hi : i < ps.length) (hi' : i < r.1.length),
      (r.1[i]).numel = (ps[i]).1.numel ∧
      (∀ ρ, (r.1[i]).eval (liftL r.2.pairs ρ) = (ps[i]).1.eval ρ) ∧
      (∀ ρ, (r.1[i]).eval (liftR r.2.pairs ρ) = (ps[i]).2.eval ρ)

/-- the anti-substitution already holds the fresh axis `5` of size 2 for the pair `(X₀(2), X₀(2))` -/
private def cxSt : ASt := ⟨[((.phys 0 2, .phys 0 2), (5, 2))], 6⟩

private theorem cxSt_ok : AStOK 1 cxSt where
  le := by simp [cxSt]
  ids := by simp [cxSt]
  nodup := by simp [cxSt]
  size := by simp [cxSt, Axis.numel]
  orig := by simp [cxSt, Below, Axis.fv]

/-- **counterexample (sizes)**: the same identity `0` with size 3 reuses the fresh axis of size 2 -/
theorem antiunify_generalises_counterexample : ¬ antiunify_generalises_statement := by
  intro h
  have h1 := (h 0 (.phys 0 3) (.phys 0 3) cxSt 1 cxSt_ok (by simp [Below, Axis.fv]) (by simp [Below, Axis.fv]) rfl).2.2.1
  simp [antiunify, extendAnti, cxSt, axisEq, Axis.numel] at h1

theorem antiunifyAll_generalises_counterexample : ¬ antiunifyAll_generalises_statement := by
  intro h
  have h1 := (h 0 [(.phys 0 3, .phys 0 3)] cxSt 1 cxSt_ok (by simp [Below, Axis.fv, Axis.numel])).2.2 0 (by simp)
    (by simp [antiunifyAll])
  have h2 := h1.1
  simp [antiunifyAll, antiunify, extendAnti, cxSt, axisEq, Axis.numel] at h2

/-- one size per identity: the physical axes of `a` carry the sizes given by `sz` -/
def Sized (sz : Nat → Nat) (a : Axis) : Prop := ∀ q ∈ a.fv, q.2 = sz q.1

/-- … and so do the axes recorded in the anti-substitution -/
def SizedSt (sz : Nat → Nat) (st : ASt) : Prop := ∀ p ∈ st.pairs, Sized sz p.1.1 ∧ Sized sz p.1.2

/-- the first statement with consistent sizes but still ALL assignments (false:
`antiunify_generalises_sized_counterexample`) -/
def antiunify_generalises_sized_statement : Prop :=
  ∀ (fuel : Nat) (e f : Axis) (st : ASt) (base : Nat) (sz : Nat → Nat)
    (hst : AStOK base st) (he : Below base e) (hf : Below base f) (hn : e.numel = f.numel)
    (hsst : SizedSt sz st) (hse : Sized sz e) (hsf : Sized sz f),
    let r := antiunify fuel e f st
    AStOK base r.2 ∧ (∃ new, r.2.pairs = st.pairs ++ new) ∧
    r.1.numel = e.numel ∧
    (∀ q ∈ r.1.fv, ∃ p ∈ r.2.pairs, p.2 = q) ∧
    (∀ ρ, r.1.eval (liftL r.2.pairs ρ) = e.eval ρ) ∧
    (∀ ρ, r.1.eval (liftR r.2.pairs ρ) = f.eval ρ)

/-- **counterexample (range)**: `e = X₀(1)`, `f = X₁(1)`: the result is the unit axis, which denotes 0; under the
assignment `ρ = 1` (outside the range of `X₀`) `e` denotes 1 -/
theorem antiunify_generalises_sized_counterexample : ¬ antiunify_generalises_sized_statement := by
  intro h
  have h1 := (h 0 (.phys 0 1) (.phys 1 1) ⟨[], 2⟩ 2 (fun _ => 1)
    ⟨by simp, by simp, by simp, by simp, by simp⟩
    (by simp [Below, Axis.fv]) (by simp [Below, Axis.fv]) (by simp [Axis.numel])
    (by simp [SizedSt]) (by simp [Sized, Axis.fv]) (by simp [Sized, Axis.fv])).2.2.2.2.1 (fun _ => 1)
  simp [antiunify, extendAnti, Axis.numel, unitAxis, Axis.eval, evalList] at h1

private theorem cx2 : antiunify 1 (.prod [.phys 0 2, .phys 1 1]) (.prod [.phys 2 2]) ⟨[], 3⟩ =
    (.phys 3 2, ⟨[((.phys 0 2, .phys 2 2), (3, 2))], 4⟩) := by
  simp [antiunify, antiLoop, zeroList, zero, productAxis, isProd, extendAnti, Axis.numel, numelList, unitAxis]

/-- a second counterexample (range), inside a product: `e = X₀(2)·X₁(1)`, `f = X₂(2)`: the result is one fresh axis
standing for `(X₀, X₂)`; under the assignment `ρ = 1` (outside the range of `X₁`) `e` denotes 2, the result 1 -/
theorem antiunify_generalises_sized_counterexample_prod : ¬ antiunify_generalises_sized_statement := by
  intro h
  have h1 := (h 1 (.prod [.phys 0 2, .phys 1 1]) (.prod [.phys 2 2]) ⟨[], 3⟩ 3 (fun v => if v = 1 then 1 else 2)
    ⟨by simp, by simp, by simp, by simp, by simp⟩
    (by simp [Below, Axis.fv, fvList]) (by simp [Below, Axis.fv, fvList]) (by simp [Axis.numel, numelList])
    (by simp [SizedSt]) (by simp [Sized, Axis.fv, fvList]) (by simp [Sized, Axis.fv, fvList])).2.2.2.2.1 (fun _ => 1)
  rw [cx2] at h1
  simp [Axis.eval, evalList, liftL, Axis.numel] at h1

/-! ### the corrected theorems -/

private theorem ok_of {base : Nat} {st : ASt} (h : AStOK base st) : C06cL.OK base st :=
  ⟨h.le, h.ids, h.nodup, h.size, h.orig⟩

private theorem of_ok {base : Nat} {st : ASt} (h : C06cL.OK base st) : AStOK base st :=
  ⟨h.le, h.ids, h.nodup, h.size, h.orig⟩

/-- **anti-unification generalises both arguments**: for axes with the same number of elements, over original
physical axes (identities below `base`), the result `g` reads as `e` on the left and as `f` on the right, has
their number of elements, mentions only fresh axes of the anti-substitution, and the anti-substitution stays well
formed and only grows.

EXTRA HYPOTHESES with respect to the statement first given (`antiunify_generalises_statement`, refuted above):
`hsst`, `hse`, `hsf` — one size `sz v` per identity `v` in `e`, `f` and the recorded pairs; and the two readings
are claimed for the assignments that respect the sizes of the physical axes of `e` (resp. `f`) only
(`C06.Respects`); both are necessary (`antiunify_generalises_counterexample`,
`antiunify_generalises_sized_counterexample`).  `antiunify_preserves_sized`: the size invariant is preserved. -/
theorem antiunify_generalises (fuel : Nat) (e f : Axis) (st : ASt) (base : Nat)
    (hst : AStOK base st) (he : Below base e) (hf : Below base f) (hn : e.numel = f.numel)
    -- extra: consistent sizes
    (sz : Nat → Nat) (hsst : SizedSt sz st) (hse : Sized sz e) (hsf : Sized sz f) :
    let r := antiunify fuel e f st
    AStOK base r.2 ∧ (∃ new, r.2.pairs = st.pairs ++ new) ∧
    r.1.numel = e.numel ∧
    (∀ q ∈ r.1.fv, ∃ p ∈ r.2.pairs, p.2 = q) ∧
    -- restricted: assignments within the sizes of the axes
    (∀ ρ, C06.Respects ρ e → r.1.eval (liftL r.2.pairs ρ) = e.eval ρ) ∧
    (∀ ρ, C06.Respects ρ f → r.1.eval (liftR r.2.pairs ρ) = f.eval ρ) := by
  obtain ⟨h1, _, ⟨new, h3, _⟩, h4, h5, h6, h7⟩ :=
    C06cL.antiunify_gen sz base fuel e f st (ok_of hst) hsst he hf hse hsf hn
  exact ⟨of_ok h1, ⟨new, h3⟩, h4, h5, h6, h7⟩

/-- the size invariant of the anti-substitution is preserved (so `antiunify_generalises` can be iterated) -/
theorem antiunify_preserves_sized (fuel : Nat) (e f : Axis) (st : ASt) (base : Nat)
    (hst : AStOK base st) (he : Below base e) (hf : Below base f) (hn : e.numel = f.numel)
    (sz : Nat → Nat) (hsst : SizedSt sz st) (hse : Sized sz e) (hsf : Sized sz f) :
    SizedSt sz (antiunify fuel e f st).2 :=
  (C06cL.antiunify_gen sz base fuel e f st (ok_of hst) hsst he hf hse hsf hn).2.1

/-- the same for the axis-by-axis anti-unification of two tensors' virtual axes with one shared anti-substitution
(`PatternedTensor.expansion`, `stack`).

EXTRA HYPOTHESES with respect to `antiunifyAll_generalises_statement` (refuted above), as for
`antiunify_generalises`: consistent sizes (`hsst`, and the two `Sized` conjuncts of `hps`); readings for the
assignments that respect the sizes only. -/
theorem antiunifyAll_generalises (fuel : Nat) (ps : List (Axis × Axis)) (st : ASt) (base : Nat)
    (hst : AStOK base st)
    -- extra: consistent sizes
    (sz : Nat → Nat) (hsst : SizedSt sz st)
    (hps : ∀ p ∈ ps, Below base p.1 ∧ Below base p.2 ∧ p.1.numel = p.2.numel ∧ Sized sz p.1 ∧ Sized sz p.2) :
    let r := antiunifyAll fuel ps st
    AStOK base r.2 ∧ r.1.length = ps.length ∧
    ∀ i (hi : i < ps.length) (hi' : i < r.1.length),
      (r.1[i]).numel = (ps[i]).1.numel ∧
      -- restricted: assignments within the sizes of the axes
      (∀ ρ, C06.Respects ρ (ps[i]).1 → (r.1[i]).eval (liftL r.2.pairs ρ) = (ps[i]).1.eval ρ) ∧
      (∀ ρ, C06.Respects ρ (ps[i]).2 → (r.1[i]).eval (liftR r.2.pairs ρ) = (ps[i]).2.eval ρ) := by
  obtain ⟨h1, _, _, h4, _, h6⟩ := C06cL.antiunifyAll_gen sz base fuel ps st (ok_of hst) hsst
    (fun p hp => by obtain ⟨a, b, c, d, e⟩ := hps p hp; exact ⟨a, b, d, e, c⟩)
  exact ⟨of_ok h1, h4, h6⟩

/-- … and the size invariant is preserved -/
theorem antiunifyAll_preserves_sized (fuel : Nat) (ps : List (Axis × Axis)) (st : ASt) (base : Nat)
    (hst : AStOK base st) (sz : Nat → Nat) (hsst : SizedSt sz st)
    (hps : ∀ p ∈ ps, Below base p.1 ∧ Below base p.2 ∧ p.1.numel = p.2.numel ∧ Sized sz p.1 ∧ Sized sz p.2) :
    SizedSt sz (antiunifyAll fuel ps st).2 :=
  (C06cL.antiunifyAll_gen sz base fuel ps st (ok_of hst) hsst
    (fun p hp => by obtain ⟨a, b, c, d, e⟩ := hps p hp; exact ⟨a, b, d, e, c⟩)).2.1

/-- **no fresh physical axis of size 1** (the unit rule of `extend_antisubst`): if no pair of the anti-substitution
has recorded size 1, the result mentions no physical axis of size 1, and the property of the anti-substitution is
preserved -/
theorem antiunify_no_size1 (fuel : Nat) (e f : Axis) (st : ASt) (base : Nat)
    (hst : AStOK base st) (he : Below base e) (hf : Below base f) (hn : e.numel = f.numel)
    (sz : Nat → Nat) (hsst : SizedSt sz st) (hse : Sized sz e) (hsf : Sized sz f)
    (hno : ∀ p ∈ st.pairs, p.2.2 ≠ 1) :
    let r := antiunify fuel e f st
    (∀ q ∈ r.1.fv, q.2 ≠ 1) ∧ (∀ p ∈ r.2.pairs, p.2.2 ≠ 1) := by
  have h := (C06cL.antiunify_gen sz base fuel e f st (ok_of hst) hsst he hf hse hsf hn).noUnit hno
  exact ⟨h.2, h.1⟩

theorem antiunifyAll_no_size1 (fuel : Nat) (ps : List (Axis × Axis)) (st : ASt) (base : Nat)
    (hst : AStOK base st) (sz : Nat → Nat) (hsst : SizedSt sz st)
    (hps : ∀ p ∈ ps, Below base p.1 ∧ Below base p.2 ∧ p.1.numel = p.2.numel ∧ Sized sz p.1 ∧ Sized sz p.2)
    (hno : ∀ p ∈ st.pairs, p.2.2 ≠ 1) :
    let r := antiunifyAll fuel ps st
    (∀ g ∈ r.1, ∀ q ∈ g.fv, q.2 ≠ 1) ∧ (∀ p ∈ r.2.pairs, p.2.2 ≠ 1) := by
  have h := (C06cL.antiunifyAll_gen sz base fuel ps st (ok_of hst) hsst
    (fun p hp => by obtain ⟨a, b, c, d, e⟩ := hps p hp; exact ⟨a, b, d, e, c⟩)).noUnit hno
  exact ⟨h.2, h.1⟩

end C06c
