/-
C06i — `to_dense()` as the library computes it (fill with the default, then copy the physical tensor through the strided
view `project(virtual, paxes, vaxes, {})`: model `Sd.toDenseImpl` on top of `Sd.projectOnto` / `Sd.strideS`) yields
exactly the dense tensor `PT.dense` that every theorem about patterned tensors speaks about: the specification of the
meaning of a patterned tensor and the code path that materialises it agree for every well-formed tensor.
-/
import FggsModel.Strided
import FggsProofs.Props.C07e
import FggsProofs.C07eStrideLemmas
import FggsProofs.C06dBaseLemmas
import FggsProofs.C06iLemmas
import Mathlib.Tactic.Linarith
import Mathlib.Data.List.Basic

set_option linter.unusedSimpArgs false
set_option linter.unusedVariables false

namespace C06i
open Fggs Fggs.Ax Fggs.Un Fggs.Sd

/-- with the empty substitution the affine form needs no fuel: it is the form of the axis as it stands -/
theorem strideS_nil (fuel : Nat) (e : Axis) : strideS [] fuel e = strideC e :=
  C06iL.strideS_nil fuel e

/-- the view of `to_dense` addresses, at a physical index tuple, the row-major position of the virtual index tuple the
pattern denotes -/
theorem toDense_view_addr (t : PT) (h : t.wf = true) (idx : List Nat) (hi : idx ∈ assigns (t.paxes.map (·.2))) :
    ∃ w, projectOnto (contiguous t.vshape) t.paxes t.vaxes [] = some w ∧
      w.addr idx = flat t.vshape (t.vaxes.map (Axis.eval (envOf t.paxes idx))) := by
  have hS := (C06dL.wf_iff_struct t).1 h
  have hkeys : ∀ v, v ∈ C07eL.keys (projectForm (contiguous t.vshape) t.vaxes []).2 ↔
      ∃ e ∈ t.vaxes, v ∈ e.fv.map (·.1) := fun v => C06iL.mem_keys_projectForm_nil t.vaxes v
  have h1 : ∀ k ∈ C07eL.keys (projectForm (contiguous t.vshape) t.vaxes []).2, k ∈ t.paxes.map (·.1) := by
    intro k hk
    obtain ⟨e, he, hv⟩ := (hkeys k).1 hk
    obtain ⟨q, hq, rfl⟩ := List.mem_map.1 hv
    exact List.mem_map_of_mem (hS.fvsub e he q hq)
  have h2 : ∀ p ∈ t.paxes, p.1 ∈ C07eL.keys (projectForm (contiguous t.vshape) t.vaxes []).2 := by
    intro p hp
    obtain ⟨e, he, hpe⟩ := hS.occ p hp
    exact (hkeys p.1).2 ⟨e, he, List.mem_map_of_mem hpe⟩
  refine ⟨_, C06iL.projectOnto_some _ _ _ _ h1 h2, ?_⟩
  have hform := C07eL.projectForm_spec (contiguous t.vshape) t.vaxes [] (envOf t.paxes idx)
  have hlen : idx.length = t.paxes.length := by
    rw [C06dL.mem_assigns_length hi, List.length_map]
  have hidx := C06dL.pidx_envOf t.paxes idx hS.nodup hlen
  unfold View.addr
  simp only
  conv_lhs => rw [← hidx]
  unfold C06dL.pidx
  rw [C06iL.addr_projected (envOf t.paxes idx) _ _ t.paxes hform.2 hS.nodup h1, ← C07eL.applyS_eq, hform.1]
  simp only [C06iL.evalS_nil]
  rw [← C07eL.addr_zip_map (Axis.eval (envOf t.paxes idx)) t.vaxes (contiguous t.vshape).strides]
  simp only [contiguous]
  rw [C06iL.addr_contiguous, Nat.zero_add]

/-- **`to_dense()` computes the dense tensor of the specification** -/
theorem toDenseImpl_eq_dense (t : PT) (h : t.wf = true) : toDenseImpl t = some t.dense := by
  have hS := (C06dL.wf_iff_struct t).1 h
  have hkeys : ∀ v, v ∈ C07eL.keys (projectForm (contiguous t.vshape) t.vaxes []).2 ↔
      ∃ e ∈ t.vaxes, v ∈ e.fv.map (·.1) := fun v => C06iL.mem_keys_projectForm_nil t.vaxes v
  have h1 : ∀ k ∈ C07eL.keys (projectForm (contiguous t.vshape) t.vaxes []).2, k ∈ t.paxes.map (·.1) := by
    intro k hk
    obtain ⟨e, he, hv⟩ := (hkeys k).1 hk
    obtain ⟨q, hq, rfl⟩ := List.mem_map.1 hv
    exact List.mem_map_of_mem (hS.fvsub e he q hq)
  have h2 : ∀ p ∈ t.paxes, p.1 ∈ C07eL.keys (projectForm (contiguous t.vshape) t.vaxes []).2 := by
    intro p hp
    obtain ⟨e, he, hpe⟩ := hS.occ p hp
    exact (hkeys p.1).2 ⟨e, he, List.mem_map_of_mem hpe⟩
  have hw := C06iL.projectOnto_some (contiguous t.vshape) t.paxes t.vaxes [] h1 h2
  unfold toDenseImpl PT.dense
  simp only
  rw [hw]
  simp only
  congr 2
  apply C06iL.foldl_congr_mem
  intro arr p hp
  have hi : p.1 ∈ assigns (t.paxes.map (·.2)) := by
    obtain ⟨idx, k⟩ := p
    exact (List.mem_zipIdx_iff_getElem?.1 hp |> fun e => List.mem_of_getElem? (by simpa using e))
  obtain ⟨w, hw', ha⟩ := toDense_view_addr t h p.1 hi
  rw [hw] at hw'
  rw [← Option.some.inj hw'] at ha
  rw [ha]

/-! ### non-vacuity -/

def exT : PT := { physical := [.fin 5, .fin 7], paxes := [(0, 2)], vaxes := [.phys 0 2, .sum 1 (.phys 0 2) 0], default := .fin 0 }

example : exT.wf = true ∧ toDenseImpl exT = some [.fin 0, .fin 5, .fin 0, .fin 0, .fin 0, .fin 7] := by decide

end C06i
