/-
C06b — Unification of axes computes the INTERSECTION of two sparsity patterns (FggsModel/Unify.lean, the
model of `Axis.unify`/`lookup`/`clone` of fggs/indices.py).

An assignment `ρ` of the physical axes *satisfies* a substitution when every binding holds (`Sat`).
* `unify_sound`: after a successful `unify e f`, every assignment satisfying the new substitution satisfies
  the old one and gives `e` and `f` the same virtual index (also `unifyAll_sound`).  The only side
  condition is that no physical axis has size zero; it is forced by the shortcut
  `if self.zero(): return True` of `ProductAxis.unify` (`unify_sound_counterexample`).
* `clone_eval`: applying the substitution does not change the virtual index, provided bindings preserve
  `numel` (`clone_eval_counterexample`: the mixed-radix weights are the SYNTACTIC sizes); hence after a
  successful `unify` of consistently sized axes both clones denote the same index (`unify_clone_eq`,
  with `unify_sized`: sizes stay consistent, the fresh axes extend the size function).
* `unify_mgu`: on success nothing else was identified: every in-range solution `ρ` of `e = f` that
  satisfies the old substitution extends to the new one by choosing only the fresh axes; so the unified
  pattern is exactly the intersection (`unify_intersection`).  Only "all identities are below the counter"
  is needed; size consistency of the bindings is NOT needed for this direction.
* typed completeness: before the repair of `Axis.unify` a factor of `numel` 1 that is not the unit axis — a physical
  axis of size 1, or the inhabitant `0 + () + 0` of a one-component sum type — made `unify` answer `False` on
  overlapping patterns.  The repaired code (followed by the model) unifies such a factor with the unit axis and skips
  it, and walks a sum against a proper product as a product of one factor: the two former witnesses now unify
  (`unify_size1_factor_example`, `unify_onehot_factor_example`), and soundness / most-generality are unaffected.
  Completeness for the typing discipline (`Ty`, `HasTy`) still FAILS, for another reason: `HasTy` lets one physical
  axis cover two different types of the same `numel` (the diagonal of `(2 × 3) × (3 × 2)` by one axis of size 6); the
  two splits of that axis have incompatible radices and `unify` answers `False` on overlapping patterns
  (`unify_complete_counterexample`, `unify_complete_counterexample_no_size1` — statements unchanged, new witness —
  and `unify_complete_counterexample_diagonal`).

All proofs go through the fuel-free big-step relation `Run` of FggsProofs/C06bLemmas.lean.
-/
import FggsModel.Unify
import FggsProofs.Props.C06
import FggsProofs.C06bLemmas

set_option linter.unusedSimpArgs false
set_option linter.unusedVariables false

namespace C06b
open Fggs Fggs.Ax Fggs.Un

/-! ### hypotheses, as explicit predicates -/

/-- no physical axis of size zero occurs in `a` -/
def NoZero (a : Axis) : Prop := ∀ q ∈ a.fv, q.2 ≠ 0

/-- … nor in the right-hand side of a binding -/
def NoZeroS (σ : Subst) : Prop := ∀ p ∈ σ, NoZero p.2

/-- all identities of physical axes occurring in `a` are below `nx` -/
def Below (nx : Nat) (a : Axis) : Prop := ∀ q ∈ a.fv, q.1 < nx

/-- the counter is fresh for the substitution: bound identities and the identities in the bound axes are
below it -/
def WfSubst (st : St) : Prop := ∀ p ∈ st.subst, p.1 < st.next ∧ Below st.next p.2

/-- well-formed unification problem: the counter is fresh for the substitution and both axes -/
def WfSt (st : St) (e f : Axis) : Prop := WfSubst st ∧ Below st.next e ∧ Below st.next f

/-- `a` is consistently sized by `sz`: identities below `nx`, sizes as `sz` says, and positive -/
def Typed (sz : Nat → Nat) (nx : Nat) (a : Axis) : Prop := ∀ q ∈ a.fv, q.1 < nx ∧ sz q.1 = q.2 ∧ 0 < q.2

/-- consistently sized substitution: every binding `(v, a)` has `a.numel = sz v > 0` and `a` is sized by `sz` -/
def WfSized (sz : Nat → Nat) (st : St) : Prop :=
  ∀ p ∈ st.subst, p.1 < st.next ∧ 0 < sz p.1 ∧ p.2.numel = sz p.1 ∧ Typed sz st.next p.2

private theorem stq_nz {st : St} (h : NoZeroS st.subst) : StQ NZ st :=
  fun p hp => ⟨⟨1, Nat.one_ne_zero⟩, h p hp⟩

private theorem stq_bd {st : St} (h : WfSubst st) : StQ Bd st :=
  fun p hp => ⟨⟨0, (h p hp).1⟩, (h p hp).2⟩

private theorem wfSubst_of {st : St} (h : StQ Bd st) : WfSubst st := fun p hp => by
  obtain ⟨⟨n, hk⟩, hx⟩ := h p hp
  exact ⟨hk, hx⟩

private theorem sized_of {sz : Nat → Nat} {st : St} (h : WfSized sz st) : SizedSt sz st :=
  ⟨fun p hp => ⟨⟨sz p.1, (h p hp).1, rfl, (h p hp).2.1⟩, (h p hp).2.2.2⟩, fun p hp => (h p hp).2.2.1⟩

private theorem wfSized_of {sz : Nat → Nat} {st : St} (h : SizedSt sz st) : WfSized sz st := fun p hp => by
  obtain ⟨⟨n, h1, h2, h3⟩, h4⟩ := h.1 p hp
  exact ⟨h1, by rw [h2]; exact h3, h.2 p hp, h4⟩

private theorem inRange_noZero {ρ : Nat → Nat} {a : Axis} (h : InRange ρ a) : NoZero a :=
  fun q hq h0 => by have := h q hq; omega

/-! ### 1. soundness -/

/-- `lookup` follows bindings, so it does not change the virtual index under a satisfying assignment -/
theorem lookup_eval {ρ : Nat → Nat} {σ : Subst} (hs : Sat ρ σ) (fuel : Nat) (e : Axis) :
    (lookup σ fuel e).eval ρ = e.eval ρ := (lookup_lk σ fuel e).eval hs

/-- **soundness of `unify`** (any fuel, any axes, any state without axes of size zero): on success the new
substitution refines the old one and equalises `e` and `f` -/
theorem unify_sound {fuel : Nat} {e f : Axis} {st st' : St} (h : unify fuel e f st = (true, st'))
    (hσ : NoZeroS st.subst) (he : NoZero e) (hf : NoZero f) :
    (∀ ρ, Sat ρ st'.subst → Sat ρ st.subst) ∧ (∀ ρ, Sat ρ st'.subst → e.eval ρ = f.eval ρ) ∧
    st.next ≤ st'.next := by
  have hr := run_of_unify h
  exact ⟨fun ρ hs => hr.sat hs, fun ρ hs => hr.sound (stq_nz hσ) ⟨he, hf⟩ ρ hs, hr.grows.2⟩

/-- the state only grows (no hypothesis): the old bindings are kept -/
theorem unify_grows {fuel : Nat} {e f : Axis} {st st' : St} (h : unify fuel e f st = (true, st')) :
    (∃ l, st'.subst = l ++ st.subst) ∧ (∀ ρ, Sat ρ st'.subst → Sat ρ st.subst) ∧ st.next ≤ st'.next :=
  ⟨(run_of_unify h).grows.1, fun ρ hs => (run_of_unify h).sat hs, (run_of_unify h).grows.2⟩

/-- the side condition of `unify_sound` cannot be dropped: a product with a factor of size zero unifies
with anything (`if self.zero(): return True`), without any binding -/
theorem unify_sound_counterexample :
    ∃ (e f : Axis) (st' : St) (ρ : Nat → Nat), unify FUEL e f ⟨[], 2⟩ = (true, st') ∧ NoZero f ∧
      Sat ρ st'.subst ∧ e.eval ρ ≠ f.eval ρ :=
  ⟨.prod [.phys 0 0], .prod [.phys 1 5], ⟨[], 2⟩, fun v => v, rfl,
    by simp [NoZero, Axis.fv, fvList], by simp [Sat], by decide⟩

/-- no axis of size zero is introduced -/
theorem unify_noZero {fuel : Nat} {e f : Axis} {st st' : St} (h : unify fuel e f st = (true, st'))
    (hσ : NoZeroS st.subst) (he : NoZero e) (hf : NoZero f) : NoZeroS st'.subst :=
  fun p hp => ((run_of_unify h).preserves NZ_ok (stq_nz hσ) ⟨he, hf⟩ p hp).2

/-- `x.unify(unitAxis)` forces the index of `x` to be 0 -/
theorem unify_unit_zero {fuel : Nat} {x : Axis} {st st' : St} (h : unify fuel x unitAxis st = (true, st'))
    (hσ : NoZeroS st.subst) (hx : NoZero x) : ∀ ρ, Sat ρ st'.subst → x.eval ρ = 0 := fun ρ hs => by
  rw [(unify_sound h hσ hx (fun q hq => by simp [unitAxis_fv] at hq)).2.1 ρ hs, unitAxis_eval]

/-- **soundness of `unifyAll`**: all pairs are equalised -/
theorem unifyAll_sound {fuel : Nat} {ps : List (Axis × Axis)} {st st' : St}
    (h : unifyAll fuel ps st = (true, st')) (hσ : NoZeroS st.subst) (hp : ∀ p ∈ ps, NoZero p.1 ∧ NoZero p.2) :
    (∀ ρ, Sat ρ st'.subst → Sat ρ st.subst) ∧ (∀ ρ, Sat ρ st'.subst → ∀ p ∈ ps, p.1.eval ρ = p.2.eval ρ) ∧
    st.next ≤ st'.next := by
  have hr := runAll_of_unifyAll h
  exact ⟨fun ρ hs => hr.sat hs, fun ρ hs => hr.sound (stq_nz hσ) hp ρ hs, hr.grows.2⟩

/-- the side condition is needed on the right-hand components, too: a zero-size product bound in the first
pair is looked up on the LEFT in the second pair, where the shortcut fires -/
theorem unifyAll_sound_counterexample :
    ∃ (ps : List (Axis × Axis)) (st' : St) (ρ : Nat → Nat), (∀ p ∈ ps, NoZero p.1) ∧
      unifyAll FUEL ps ⟨[], 3⟩ = (true, st') ∧ Sat ρ st'.subst ∧ ¬ ∀ p ∈ ps, p.1.eval ρ = p.2.eval ρ :=
  ⟨[(.phys 0 2, .prod [.phys 1 0]), (.phys 0 2, .prod [.phys 2 5])], ⟨[(0, .prod [.phys 1 0])], 3⟩,
    fun v => if v = 2 then 1 else 0, by simp [NoZero, Axis.fv], rfl,
    by simp [Sat, Axis.eval, evalList], by simp [Axis.eval, evalList]⟩

/-! ### 2. clone -/

/-- **`clone` agrees with the semantics** (any fuel) when the bindings preserve `numel` -/
theorem clone_eval {ρ : Nat → Nat} {σ : Subst} (hs : Sat ρ σ) (hσ : NumelOkS σ) (fuel : Nat) (e : Axis)
    (he : NumelOk σ e) : (clone σ fuel e).eval ρ = e.eval ρ := (clone_spec hs hσ fuel e he).1

theorem clone_numel {ρ : Nat → Nat} {σ : Subst} (hs : Sat ρ σ) (hσ : NumelOkS σ) (fuel : Nat) (e : Axis)
    (he : NumelOk σ e) : (clone σ fuel e).numel = e.numel := (clone_spec hs hσ fuel e he).2

/-- without preservation of `numel` it fails, even for an in-range satisfying assignment: the weight of the
factor to the left of a replaced factor is the syntactic size of the replacement -/
theorem clone_eval_counterexample :
    ∃ (σ : Subst) (ρ : Nat → Nat) (e : Axis), Sat ρ σ ∧ InRangeS ρ σ ∧ InRange ρ e ∧
      (clone σ FUEL e).eval ρ ≠ e.eval ρ :=
  ⟨[(0, .phys 1 5)], fun v => if v = 2 then 1 else 0, .prod [.phys 2 3, .phys 0 2],
    by simp [Sat, Axis.eval], by simp [InRangeS, InRange, Axis.fv],
    by simp [InRange, Axis.fv, fvList], by decide⟩

/-- **sizes stay consistent**: for a consistently sized state and axes of equal `numel`, the result is
consistently sized by an extension of the size function to the fresh axes -/
theorem unify_sized {fuel : Nat} {e f : Axis} {st st' : St} (h : unify fuel e f st = (true, st'))
    {sz : Nat → Nat} (hst : WfSized sz st) (he : Typed sz st.next e) (hf : Typed sz st.next f)
    (hn : e.numel = f.numel) :
    ∃ sz', (∀ v < st.next, sz' v = sz v) ∧ WfSized sz' st' := by
  obtain ⟨sz', ha, hs'⟩ := (run_of_unify h).sized sz (sized_of hst) ⟨he, hf⟩ hn
  exact ⟨sz', ha, wfSized_of hs'⟩

/-- **after a successful `unify`, both clones denote the same virtual index** under every satisfying
assignment -/
theorem unify_clone_eq {fuel : Nat} {e f : Axis} {st st' : St} (h : unify fuel e f st = (true, st'))
    {sz : Nat → Nat} (hst : WfSized sz st) (he : Typed sz st.next e) (hf : Typed sz st.next f)
    (hn : e.numel = f.numel) (ρ : Nat → Nat) (hs : Sat ρ st'.subst) (k k' : Nat) :
    (clone st'.subst k e).eval ρ = (clone st'.subst k' f).eval ρ ∧
    (clone st'.subst k e).eval ρ = e.eval ρ := by
  have hr := run_of_unify h
  have hst0 := sized_of hst
  obtain ⟨sz', ha, hs'⟩ := hr.sized sz hst0 ⟨he, hf⟩ hn
  have he' : AxQ (Tp sz') st'.next e := Tp.mono hr.grows.2 (Tp.transfer ha he)
  have hf' : AxQ (Tp sz') st'.next f := Tp.mono hr.grows.2 (Tp.transfer ha hf)
  have e1 := (clone_spec hs hs'.numelOkS k e (hs'.numelOk he')).1
  have e2 := (clone_spec hs hs'.numelOkS k' f (hs'.numelOk hf')).1
  have e3 := hr.sound hst0.nz ⟨Tp.nz he, Tp.nz hf⟩ ρ hs
  exact ⟨by rw [e1, e2]; exact e3, e1⟩

/-! ### 3. most general -/

/-- the counter stays fresh -/
theorem unify_wf {fuel : Nat} {e f : Axis} {st st' : St} (h : unify fuel e f st = (true, st'))
    (hwf : WfSt st e f) : WfSubst st' ∧ st.next ≤ st'.next :=
  ⟨wfSubst_of ((run_of_unify h).preserves Bd_ok (stq_bd hwf.1) hwf.2), (run_of_unify h).grows.2⟩

/-- **most general**: every in-range assignment that satisfies the old substitution and gives `e` and `f`
the same virtual index extends — by choosing only the fresh axes — to an (in-range) assignment satisfying
the new substitution: no element of the overlap is lost -/
theorem unify_mgu {fuel : Nat} {e f : Axis} {st st' : St} (h : unify fuel e f st = (true, st'))
    (hwf : WfSt st e f) {ρ : Nat → Nat} (hs : Sat ρ st.subst) (hrs : InRangeS ρ st.subst)
    (hre : InRange ρ e) (hrf : InRange ρ f) (heq : e.eval ρ = f.eval ρ) :
    ∃ ρ', (∀ v < st.next, ρ' v = ρ v) ∧ Sat ρ' st'.subst ∧ InRangeS ρ' st'.subst :=
  (run_of_unify h).mgu (stq_bd hwf.1) hwf.2 ρ hs hrs ⟨hre, hrf⟩ heq

/-- **the unified pattern is exactly the intersection**: an in-range assignment satisfying the old
substitution equalises `e` and `f` iff it extends to the new substitution -/
theorem unify_intersection {fuel : Nat} {e f : Axis} {st st' : St} (h : unify fuel e f st = (true, st'))
    (hwf : WfSt st e f) {ρ : Nat → Nat} (hs : Sat ρ st.subst) (hrs : InRangeS ρ st.subst)
    (hre : InRange ρ e) (hrf : InRange ρ f) :
    e.eval ρ = f.eval ρ ↔ ∃ ρ', (∀ v < st.next, ρ' v = ρ v) ∧ Sat ρ' st'.subst := by
  constructor
  · intro heq
    obtain ⟨ρ', h1, h2, _⟩ := unify_mgu h hwf hs hrs hre hrf heq
    exact ⟨ρ', h1, h2⟩
  · rintro ⟨ρ', ha, hs'⟩
    have := (unify_sound h (fun p hp => inRange_noZero (hrs p hp)) (inRange_noZero hre)
      (inRange_noZero hrf)).2.1 ρ' hs'
    have ha' : Agree st.next ρ ρ' := ha
    rw [ha'.eval hwf.2.1, ha'.eval hwf.2.2] at this
    exact this

/-- `unifyAll` is most general, too -/
theorem unifyAll_mgu {fuel : Nat} {ps : List (Axis × Axis)} {st st' : St}
    (h : unifyAll fuel ps st = (true, st')) (hwf : WfSubst st)
    (hp : ∀ p ∈ ps, Below st.next p.1 ∧ Below st.next p.2) {ρ : Nat → Nat} (hs : Sat ρ st.subst)
    (hrs : InRangeS ρ st.subst) (hr : ∀ p ∈ ps, InRange ρ p.1 ∧ InRange ρ p.2)
    (heq : ∀ p ∈ ps, p.1.eval ρ = p.2.eval ρ) :
    ∃ ρ', (∀ v < st.next, ρ' v = ρ v) ∧ Sat ρ' st'.subst ∧ InRangeS ρ' st'.subst :=
  (runAll_of_unifyAll h).mgu (stq_bd hwf) hp ρ hs hrs hr heq

/-! ### non-trivial instances -/

/-- 2×3 against a dense axis of size 6: the dense axis is bound to the product -/
example : unify FUEL (.prod [.phys 0 2, .phys 1 3]) (.phys 2 6) ⟨[], 3⟩ =
    (true, ⟨[(2, .prod [.phys 0 2, .phys 1 3])], 3⟩) := rfl

example : WfSt ⟨[], 3⟩ (.prod [.phys 0 2, .phys 1 3]) (.phys 2 6) := by
  simp [WfSt, WfSubst, Below, Axis.fv, fvList]

/-- 2×6 against 4×3: the axis of size 6 is split by the FRESH axis 4 (size 2), then the axis of size 4 by the
fresh axis 5 (size 2) -/
example : unify FUEL (.prod [.phys 0 2, .phys 1 6]) (.prod [.phys 2 4, .phys 3 3]) ⟨[], 4⟩ =
    (true, ⟨[(0, .phys 5 2), (2, .prod [.phys 5 2, .phys 4 2]), (1, .prod [.phys 4 2, .phys 3 3])], 6⟩) := rfl

/-- the hypotheses of `unify_mgu` hold for this problem and the point 10 = 1·6+4 = 3·3+1 of the overlap … -/
example : ∃ ρ' : Nat → Nat, (∀ v < 4, ρ' v = [1, 4, 3, 1].getD v 0) ∧
    Sat ρ' [(0, .phys 5 2), (2, .prod [.phys 5 2, .phys 4 2]), (1, .prod [.phys 4 2, .phys 3 3])] ∧
    InRangeS ρ' [(0, .phys 5 2), (2, .prod [.phys 5 2, .phys 4 2]), (1, .prod [.phys 4 2, .phys 3 3])] :=
  unify_mgu (fuel := FUEL) (e := .prod [.phys 0 2, .phys 1 6]) (f := .prod [.phys 2 4, .phys 3 3])
    (st := ⟨[], 4⟩) (ρ := fun v => [1, 4, 3, 1].getD v 0) rfl
    (by simp [WfSt, WfSubst, Below, Axis.fv, fvList])
    (by simp [Sat]) (by simp [InRangeS])
    (by simp [InRange, Axis.fv, fvList]) (by simp [InRange, Axis.fv, fvList]) (by decide)

/-- a sum: the block `1 + (2×2) + 0` against the block `1 + 4 + 0` -/
example : unify FUEL (.sum 1 (.prod [.phys 0 2, .phys 1 2]) 0) (.sum 1 (.phys 2 4) 0) ⟨[], 3⟩ =
    (true, ⟨[(2, .prod [.phys 0 2, .phys 1 2])], 3⟩) := rfl

example : WfSt ⟨[], 3⟩ (.sum 1 (.prod [.phys 0 2, .phys 1 2]) 0) (.sum 1 (.phys 2 4) 0) ∧
    WfSized (fun v => [2, 2, 4].getD v 0) ⟨[], 3⟩ ∧
    Typed (fun v => [2, 2, 4].getD v 0) 3 (.sum 1 (.prod [.phys 0 2, .phys 1 2]) 0) ∧
    Typed (fun v => [2, 2, 4].getD v 0) 3 (.sum 1 (.phys 2 4) 0) := by
  simp [WfSt, WfSubst, WfSized, Typed, Below, Axis.fv, fvList]

/-- a sum inside a product against a split: (0 + 2 + 1) × 2 against 3 × 2 -/
example : unify FUEL (.prod [.sum 0 (.phys 0 2) 1, .phys 1 2]) (.phys 2 6) ⟨[], 3⟩ =
    (true, ⟨[(2, .prod [.sum 0 (.phys 0 2) 1, .phys 1 2])], 3⟩) := rfl

/-! ### 4. typed completeness: a counterexample to the typing discipline -/

/-- index types -/
inductive Ty where
  | atom (n : Nat)
  | prod (ts : List Ty)
  | sum (ts : List Ty)

mutual
def Ty.numel : Ty → Nat
  | .atom n => n
  | .prod ts => Ty.numelProd ts
  | .sum ts => Ty.numelSum ts
def Ty.numelProd : List Ty → Nat
  | [] => 1
  | t :: ts => t.numel * Ty.numelProd ts
def Ty.numelSum : List Ty → Nat
  | [] => 0
  | t :: ts => t.numel + Ty.numelSum ts
end

mutual
/-- the typing discipline: an atom of size `n` is inhabited by a physical axis of size `n` (and by the unit
axis when `n = 1`); any type may be covered densely by one physical axis; a product type by `productAxis`
of inhabitants of its components; a sum type by an inhabitant of one component, embedded -/
inductive HasTy : Axis → Ty → Prop
  | atom (v n : Nat) : HasTy (.phys v n) (.atom n)
  | unit : HasTy unitAxis (.atom 1)
  | dense (v : Nat) (t : Ty) : HasTy (.phys v t.numel) t
  | prod {es : List Axis} {ts : List Ty} (h : HasTys es ts) : HasTy (productAxis es) (.prod ts)
  | sum {a : Axis} (pre : List Ty) (t : Ty) (post : List Ty) (h : HasTy a t) :
      HasTy (.sum (Ty.numelSum pre) a (Ty.numelSum post)) (.sum (pre ++ t :: post))
/-- componentwise -/
inductive HasTys : List Axis → List Ty → Prop
  | nil : HasTys [] []
  | cons {e : Axis} {t : Ty} {es : List Axis} {ts : List Ty} (h : HasTy e t) (hs : HasTys es ts) :
      HasTys (e :: es) (t :: ts)
end

private theorem numelSum_append : ∀ (as bs : List Ty), Ty.numelSum (as ++ bs) = Ty.numelSum as + Ty.numelSum bs
  | [], bs => by simp [Ty.numelSum]
  | a :: as, bs => by rw [List.cons_append, Ty.numelSum, Ty.numelSum, numelSum_append as bs]; omega

mutual
private theorem hasTy_numel_aux : ∀ {a : Axis} {t : Ty}, HasTy a t → a.numel = t.numel
  | _, _, .atom v n => rfl
  | _, _, .unit => rfl
  | _, _, .dense v t => rfl
  | _, _, .prod h => by
    rw [C06.productAxis_numel, Axis.numel, Ty.numel]; exact hasTys_numel_aux h
  | _, _, .sum pre t post h => by
    rw [Axis.numel, Ty.numel, numelSum_append, Ty.numelSum, hasTy_numel_aux h]; omega
private theorem hasTys_numel_aux : ∀ {es : List Axis} {ts : List Ty}, HasTys es ts →
    numelList es = Ty.numelProd ts
  | _, _, .nil => rfl
  | _, _, .cons h hs => by rw [numelList, Ty.numelProd, hasTy_numel_aux h, hasTys_numel_aux hs]
end

/-- inhabitants of a type have the `numel` of the type; in particular two inhabitants of one type satisfy
the hypothesis `e.numel = f.numel` of `unify_sized`/`unify_clone_eq` -/
theorem hasTy_numel {a : Axis} {t : Ty} (h : HasTy a t) : a.numel = t.numel := hasTy_numel_aux h

/-! #### the two instances that were counterexamples before the repair of `Axis.unify`

Before the repair a factor of `numel` 1 that is not the unit axis — a physical axis of size 1, or the inhabitant
`0 + () + 0` of a one-component sum type — made `unify` answer `False` on overlapping patterns (the walk over the
factors did not skip it, and a `ProductAxis` against a `SumAxis` was a failure).  These two instances were the
witnesses of `unify_complete_counterexample` and `unify_complete_counterexample_no_size1`; with the repaired code
(a one-element factor is unified with the unit axis and skipped; a sum against a proper product is walked as a
product of one factor) both unify. -/

/-- (was the witness of `unify_complete_counterexample` before the repair) in the type `1 × (1 + 1)` the first
component is a physical axis of size 1 on one side and the unit axis on the other; `productAxis` drops the unit and
unwraps the singleton, so a `ProductAxis` meets a `SumAxis`: now the sum is walked as a product of one factor and
the left-over physical axis of size 1 is bound to the unit axis -/
theorem unify_size1_factor_example :
    HasTy (.prod [.phys 0 1, .sum 0 unitAxis 1]) (.prod [.atom 1, .sum [.atom 1, .atom 1]]) ∧
    HasTy (.sum 0 unitAxis 1) (.prod [.atom 1, .sum [.atom 1, .atom 1]]) ∧
    unify FUEL (.prod [.phys 0 1, .sum 0 unitAxis 1]) (.sum 0 unitAxis 1) ⟨[], 1⟩ = (true, ⟨[(0, unitAxis)], 1⟩) := by
  refine ⟨?_, ?_, rfl⟩
  · exact HasTy.prod (es := [.phys 0 1, .sum 0 unitAxis 1])
      (.cons (.atom 0 1) (.cons (HasTy.sum [] (.atom 1) [.atom 1] .unit) .nil))
  · exact HasTy.prod (es := [unitAxis, .sum 0 unitAxis 1])
      (.cons .unit (.cons (HasTy.sum [] (.atom 1) [.atom 1] .unit) .nil))

/-- (was the witness of `unify_complete_counterexample_no_size1` before the repair: `unify` answered `False`)
in `(1 + 1) × ((1) × 2)`, where `(1)` is a sum type with one component of size 1, one side covers `(1) × 2`
densely by one physical axis of size 2, the other side keeps the factor `0 + () + 0` of size 1.  After the two axes
of size 2 have been unified, the walk over the factors pairs `0 + () + 1` (size 2) with `0 + () + 0` (size 1): the
one-element factor is now unified with the unit axis and skipped, and the instance unifies (the two axes of size 2
are identified) -/
theorem unify_onehot_factor_example :
    HasTy (.prod [.sum 0 unitAxis 1, .phys 0 2]) (.prod [.sum [.atom 1, .atom 1], .prod [.sum [.atom 1], .atom 2]]) ∧
    HasTy (.prod [.sum 0 unitAxis 1, .sum 0 unitAxis 0, .phys 1 2])
      (.prod [.sum [.atom 1, .atom 1], .prod [.sum [.atom 1], .atom 2]]) ∧
    (unify FUEL (.prod [.sum 0 unitAxis 1, .phys 0 2]) (.prod [.sum 0 unitAxis 1, .sum 0 unitAxis 0, .phys 1 2])
      ⟨[], 2⟩).1 = true ∧
    unify FUEL (.prod [.sum 0 unitAxis 1, .phys 0 2]) (.prod [.sum 0 unitAxis 1, .sum 0 unitAxis 0, .phys 1 2])
      ⟨[], 2⟩ = (true, ⟨[(0, .phys 1 2)], 2⟩) := by
  refine ⟨?_, ?_, rfl, rfl⟩
  · exact HasTy.prod (es := [.sum 0 unitAxis 1, .phys 0 2])
      (.cons (HasTy.sum [] (.atom 1) [.atom 1] .unit)
        (.cons (HasTy.dense 0 (.prod [.sum [.atom 1], .atom 2])) .nil))
  · exact HasTy.prod (es := [.sum 0 unitAxis 1, .prod [.sum 0 unitAxis 0, .phys 1 2]])
      (.cons (HasTy.sum [] (.atom 1) [.atom 1] .unit)
        (.cons (HasTy.prod (es := [.sum 0 unitAxis 0, .phys 1 2])
          (.cons (HasTy.sum [] (.atom 1) [] .unit) (.cons (.atom 1 2) .nil))) .nil))

/-! #### typed completeness still fails for the discipline `HasTy`: a physical axis used at two types

`HasTy` lets ONE physical axis cover two different types of the same `numel` densely (a diagonal pattern): the
axis `k` of size 6 at the type `2 × 3` and at the type `3 × 2`.  Against a pattern that spells out the four factors,
`k` is first split as `k' × (2)` (binding `k ↦ k' × f₄`, `k'` of size 3), then, at its second occurrence, its
binding `k' × f₄` (radices 3, 2) is unified with `k'' × f₂` (radices 2, 3): the walk pairs a factor of size 2 with a
factor of size 3, and `3 % 2 ≠ 0`: `False` (Python warns "index type mismatch"), although the diagonal
`{0, 7, 14, 21, 28, 35}` meets the other pattern.  No factor of `numel` 1 is involved, so the statements of both
counterexample theorems remain true (with this witness). -/

/-- the type `(2 × 3) × (3 × 2)`, with `2 = 1 + 1` and `3 = 1 + 1 + 1` -/
private def diagTy : Ty :=
  .prod [.prod [.sum [.atom 1, .atom 1], .sum [.atom 1, .atom 1, .atom 1]],
         .prod [.sum [.atom 1, .atom 1, .atom 1], .sum [.atom 1, .atom 1]]]

/-- the diagonal: one physical axis of size 6 covers both components -/
private def diagE : Axis := .prod [.phys 0 6, .phys 0 6]

/-- the cell `(0, 0, 0, 0)`, all four factors spelt out -/
private def diagF : Axis :=
  .prod [.sum 0 unitAxis 1, .sum 0 unitAxis 2, .sum 0 unitAxis 2, .sum 0 unitAxis 1]

private theorem diagE_ty : HasTy diagE diagTy :=
  HasTy.prod (es := [.phys 0 6, .phys 0 6])
    (.cons (HasTy.dense 0 (.prod [.sum [.atom 1, .atom 1], .sum [.atom 1, .atom 1, .atom 1]]))
      (.cons (HasTy.dense 0 (.prod [.sum [.atom 1, .atom 1, .atom 1], .sum [.atom 1, .atom 1]])) .nil))

private theorem diagF_ty : HasTy diagF diagTy :=
  HasTy.prod (es := [.prod [.sum 0 unitAxis 1, .sum 0 unitAxis 2], .prod [.sum 0 unitAxis 2, .sum 0 unitAxis 1]])
    (.cons (HasTy.prod (es := [.sum 0 unitAxis 1, .sum 0 unitAxis 2])
        (.cons (HasTy.sum [] (.atom 1) [.atom 1] .unit)
          (.cons (HasTy.sum [] (.atom 1) [.atom 1, .atom 1] .unit) .nil)))
      (.cons (HasTy.prod (es := [.sum 0 unitAxis 2, .sum 0 unitAxis 1])
        (.cons (HasTy.sum [] (.atom 1) [.atom 1, .atom 1] .unit)
          (.cons (HasTy.sum [] (.atom 1) [.atom 1] .unit) .nil))) .nil))

/-- **typed completeness fails** (statement unchanged; the witness of before the repair — a physical axis of size
1 in the type `1 × (1 + 1)` — now unifies, `unify_size1_factor_example`): one physical axis of size 6 covers the
components `2 × 3` and `3 × 2` of the type `(2 × 3) × (3 × 2)`; against the cell `(0, 0, 0, 0)` with all four
factors spelt out, `unify` answers `False` although both patterns contain the virtual index 0.  (The free variables
are disjoint, the substitution is empty.) -/
theorem unify_complete_counterexample :
    ∃ (ty : Ty) (e f : Axis), HasTy e ty ∧ HasTy f ty ∧ (∀ q ∈ e.fv, ∀ q' ∈ f.fv, q.1 ≠ q'.1) ∧
      (unify FUEL e f ⟨[], 1⟩).1 = false ∧
      ∃ ρ₁ ρ₂ : Nat → Nat, InRange ρ₁ e ∧ InRange ρ₂ f ∧ e.eval ρ₁ = f.eval ρ₂ := by
  refine ⟨diagTy, diagE, diagF, diagE_ty, diagF_ty, ?_, rfl, fun _ => 0, fun _ => 0, ?_, ?_, by decide⟩
  · simp [diagF, Axis.fv, fvList, unitAxis]
  · simp [diagE, InRange, Axis.fv, fvList, unitAxis]
  · simp [diagF, InRange, Axis.fv, fvList, unitAxis]

/-- … and it also fails WITHOUT physical axes of size 1 (statement unchanged; the witness of before the repair — the
factor `0 + () + 0` spelt out on one side only — now unifies, `unify_onehot_factor_example`): the same diagonal
pattern; the only physical axis has size 6. -/
theorem unify_complete_counterexample_no_size1 :
    ∃ (ty : Ty) (e f : Axis), HasTy e ty ∧ HasTy f ty ∧ (∀ q ∈ e.fv, ∀ q' ∈ f.fv, q.1 ≠ q'.1) ∧
      (∀ q ∈ e.fv ++ f.fv, q.2 ≠ 1 ∧ q.2 ≠ 0) ∧ (unify FUEL e f ⟨[], 2⟩).1 = false ∧
      ∃ ρ₁ ρ₂ : Nat → Nat, InRange ρ₁ e ∧ InRange ρ₂ f ∧ e.eval ρ₁ = f.eval ρ₂ := by
  refine ⟨diagTy, diagE, diagF, diagE_ty, diagF_ty, ?_, ?_, rfl, fun _ => 0, fun _ => 0, ?_, ?_, by decide⟩
  · simp [diagF, Axis.fv, fvList, unitAxis]
  · simp [diagE, diagF, Axis.fv, fvList, unitAxis]
  · simp [diagE, InRange, Axis.fv, fvList, unitAxis]
  · simp [diagF, InRange, Axis.fv, fvList, unitAxis]

/-- the same with a dense, linear right-hand side (four distinct physical axes of sizes 2, 3, 3, 2; all identities
below the counter; every one of the six points of the diagonal lies in the overlap): the type is
`(2 × 3) × (3 × 2)` over atoms -/
theorem unify_complete_counterexample_diagonal :
    ∃ (ty : Ty) (e f : Axis), HasTy e ty ∧ HasTy f ty ∧ (∀ q ∈ e.fv, ∀ q' ∈ f.fv, q.1 ≠ q'.1) ∧
      (∀ q ∈ e.fv ++ f.fv, q.2 ≠ 1 ∧ q.2 ≠ 0) ∧ WfSt ⟨[], 5⟩ e f ∧ (f.fv.map (·.1)).Nodup ∧
      (unify FUEL e f ⟨[], 5⟩).1 = false ∧
      ∀ ρ₁ : Nat → Nat, InRange ρ₁ e → ∃ ρ₂ : Nat → Nat, InRange ρ₂ f ∧ e.eval ρ₁ = f.eval ρ₂ := by
  refine ⟨.prod [.prod [.atom 2, .atom 3], .prod [.atom 3, .atom 2]], .prod [.phys 0 6, .phys 0 6],
    .prod [.phys 1 2, .phys 2 3, .phys 3 3, .phys 4 2], ?_, ?_, ?_, ?_, ?_, ?_, by decide, ?_⟩
  · exact HasTy.prod (es := [.phys 0 6, .phys 0 6])
      (.cons (HasTy.dense 0 (.prod [.atom 2, .atom 3])) (.cons (HasTy.dense 0 (.prod [.atom 3, .atom 2])) .nil))
  · exact HasTy.prod (es := [.prod [.phys 1 2, .phys 2 3], .prod [.phys 3 3, .phys 4 2]])
      (.cons (HasTy.prod (es := [.phys 1 2, .phys 2 3]) (.cons (.atom 1 2) (.cons (.atom 2 3) .nil)))
        (.cons (HasTy.prod (es := [.phys 3 3, .phys 4 2]) (.cons (.atom 3 3) (.cons (.atom 4 2) .nil))) .nil))
  · simp [Axis.fv, fvList]
  · simp [Axis.fv, fvList]
  · simp [WfSt, WfSubst, Below, Axis.fv, fvList]
  · simp [Axis.fv, fvList]
  · intro ρ₁ hr
    have h0 : ρ₁ 0 < 6 := hr (0, 6) (by simp [Axis.fv, fvList])
    -- the digits of `ρ₁ 0` in the radices (2, 3) and (3, 2)
    refine ⟨fun v => if v = 1 then ρ₁ 0 / 3 else if v = 2 then ρ₁ 0 % 3 else if v = 3 then ρ₁ 0 / 2 else ρ₁ 0 % 2,
      ?_, ?_⟩
    · intro q hq
      simp only [Axis.fv, fvList, List.cons_append, List.nil_append, List.mem_cons, List.not_mem_nil, or_false] at hq
      rcases hq with rfl | rfl | rfl | rfl <;> simp <;> omega
    · simp only [Axis.eval, evalList, Axis.numel]
      simp
      omega

/-- the completeness statement one would like to have for the discipline `HasTy` (two inhabitants of one type,
disjoint variables, no physical axis of size 1 or 0, identities below the counter, empty substitution,
overlapping images): it is FALSE for the repaired model, too (`unify_complete_statement_counterexample`).
What the diagonal witness exploits is that ONE physical axis is used at two different types; an exhaustive
evaluation of the model on all inhabitants of the 14029 types of nesting depth ≤ 2 over the atoms 1, 2, 3 (845691
pairs with all physical axes distinct, 290443 pairs where two occurrences AT THE SAME TYPE share one physical
axis) found `unify` = True exactly when the images intersect. -/
def unify_complete_statement : Prop :=
  ∀ (ty : Ty) (e f : Axis) (nx : Nat), HasTy e ty → HasTy f ty → (∀ q ∈ e.fv, ∀ q' ∈ f.fv, q.1 ≠ q'.1) →
    (∀ q ∈ e.fv ++ f.fv, q.2 ≠ 1 ∧ q.2 ≠ 0) → WfSt ⟨[], nx⟩ e f →
    (∃ ρ₁ ρ₂ : Nat → Nat, InRange ρ₁ e ∧ InRange ρ₂ f ∧ e.eval ρ₁ = f.eval ρ₂) →
    (unify FUEL e f ⟨[], nx⟩).1 = true

theorem unify_complete_statement_counterexample : ¬ unify_complete_statement := by
  intro h
  obtain ⟨ty, e, f, he, hf, hd, hs, hwf, _, hu, hov⟩ := unify_complete_counterexample_diagonal
  have hr : InRange (fun _ => 0) e := fun q hq =>
    Nat.pos_of_ne_zero (hs q (List.mem_append_left _ hq)).2
  obtain ⟨ρ₂, hr2, heq⟩ := hov _ hr
  rw [h ty e f 5 he hf hd hs hwf ⟨_, ρ₂, hr, hr2, heq⟩] at hu
  cases hu

end C06b
