/-
C06p — the method `PatternedTensor.project(paxes, vaxes)` (model `Pj.projectPT`: unification of the tensor's virtual axes
with the requested ones, two strided views over the free axes, copy into a tensor full of the default): every element of
the result, indexed by an assignment of `paxes`, is the element of the tensor's DENSE tensor at the virtual index tuple
that `vaxes` denotes under that assignment — "indexing into the returned tensor according to paxes is equivalent to
indexing into self according to vaxes".  This is the step by which `SumProduct.backward` brings a gradient back onto an
input's physical storage (C03).  Hypotheses on the run (`Pj.faithful`, decided per job by the driver): a failed
unification fails on disjoint patterns, a successful one did not exhaust the fuel.

EXTRA hypothesis `hcover` (every requested physical axis occurs in a requested virtual axis): without it the statement is
FALSE — the inner `project` raises ValueError, `projectPT_cells_counterexample`; the statement as given is kept as
`projectPT_cells_statement`.  Nothing else is asked of the requested pattern (it need not be the pattern of a well-formed
tensor: its physical axes may have size 1, and its virtual axes are injective only as a consequence of `hcover`).

Proof (C06pFoldLemmas, C06pReachLemmas, C06pOverlapLemmas, C06pMainLemmas): the situation of `C13b` with the requested
pattern as second operand.  The assignments of the free axes under the unifier enumerate exactly the pairs (position of the
result, position of `self.physical`) that back the same cell (soundness + most-generality of `unify`, as in C13b); the two
strided views address these positions (`C07e.project_addr` and its analogue for `projectOnto`); that `projectOnto` does not
raise — both views have the same free axes — is proved from a SYNTACTIC invariant of unification (`C06pL.RunAll.reach`:
both sides of every unified pair reach the same unbound physical axes under the final substitution), which, unlike the
semantic argument of C13b, also covers physical axes of size 1; the fold of `setIfInBounds` then writes the backing
element of `self.physical` at every backed position of the result (every write there carries the same value, since the
backing position is unique by `wf`) and nothing at an unbacked one.
-/
import FggsModel.ProjectPT
import FggsProofs.Props.C13b
import FggsProofs.Props.C13c
import FggsProofs.C13bMainLemmas
import FggsProofs.C06pFoldLemmas
import FggsProofs.C06pReachLemmas
import FggsProofs.C06pOverlapLemmas
import FggsProofs.C06pMainLemmas
import Mathlib.Tactic.Linarith
import Mathlib.Data.List.Basic

set_option linter.unusedSimpArgs false
set_option linter.unusedVariables false

namespace C06p
open Fggs Fggs.Ax Fggs.Un Fggs.Sd Fggs.Pj

/-- the cell of the dense tensor at an index tuple -/
def cell (t : PT) (idx : List Nat) : Ext := t.dense[flat t.vshape idx]?.getD t.default

/-- the request as `project` sees it -/
structure RequestOK (t : PT) (paxes : List (Nat × Nat)) (vaxes : List Axis) (next : Nat) : Prop where
  wf : t.wf = true
  post : ∀ p ∈ t.paxes, 0 < p.2
  posp : ∀ p ∈ paxes, 0 < p.2
  nodup : (paxes.map (·.1)).Nodup
  fvsub : ∀ e ∈ vaxes, ∀ q ∈ e.fv, q ∈ paxes
  shape : vaxes.map Axis.numel = t.vshape
  disj : ∀ p ∈ t.paxes, ∀ q ∈ paxes, p.1 ≠ q.1
  below : ∀ p ∈ t.paxes ++ paxes, p.1 < next

/-- the statement as it was given: FALSE (`projectPT_cells_counterexample`) -/
def projectPT_cells_statement : Prop :=
  ∀ (fuel : Nat) (t : PT) (paxes : List (Nat × Nat)) (vaxes : List Axis) (next : Nat),
    RequestOK t paxes vaxes next → Pj.faithful fuel t paxes vaxes next = true →
    ∃ out, projectPT fuel t paxes vaxes next = some out ∧ out.length = numel (paxes.map (·.2)) ∧
      ∀ idx ∈ assigns (paxes.map (·.2)),
        out[flat (paxes.map (·.2)) idx]? = some (cell t (vaxes.map (Axis.eval (envOf paxes idx))))

/-- a requested physical axis that occurs in no requested virtual axis: it is a free axis of the view of the result but not
of the view of `self.physical`, and the inner `project` raises ValueError (the diagonal of a dense 2 × 2 tensor,
requested over the axes `(5, 2)` and `(6, 3)`) -/
theorem projectPT_cells_counterexample : ¬ projectPT_cells_statement := by
  intro hst
  obtain ⟨out, ho, -⟩ := hst 50
    { physical := [.fin 1, .fin 2, .fin 3, .fin 4], paxes := [(1, 2), (2, 2)], vaxes := [.phys 1 2, .phys 2 2], default := .fin 0 }
    [(5, 2), (6, 3)] [.phys 5 2, .phys 5 2] 7
    ⟨by decide, by decide, by decide, by decide, by decide, by decide, by decide, by decide⟩ (by decide)
  have hn : projectPT 50
      { physical := [.fin 1, .fin 2, .fin 3, .fin 4], paxes := [(1, 2), (2, 2)], vaxes := [.phys 1 2, .phys 2 2], default := .fin 0 }
      [(5, 2), (6, 3)] [.phys 5 2, .phys 5 2] 7 = none := by decide
  rw [hn] at ho
  cases ho

private theorem impl_fail (fuel : Nat) (t : PT) (paxes : List (Nat × Nat)) (vaxes : List Axis) (next : Nat) {st : St}
    (hrun : unifyAll fuel (t.vaxes.zip vaxes) ⟨[], next⟩ = (false, st)) :
    projectPT fuel t paxes vaxes next = some (List.replicate (numel (paxes.map (·.2))) t.default) := by
  unfold projectPT
  simp only [hrun]

private theorem impl_succ (fuel : Nat) (t : PT) (paxes : List (Nat × Nat)) (vaxes : List Axis) (next : Nat) {st : St}
    (hrun : unifyAll fuel (t.vaxes.zip vaxes) ⟨[], next⟩ = (true, st)) {w : View}
    (hw : projectOnto (contiguous (t.paxes.map (·.2)))
        (project (contiguous (paxes.map (·.2))) (paxes.map (fun k => Axis.phys k.1 k.2)) st.subst).2
        (t.paxes.map (fun k => Axis.phys k.1 k.2)) st.subst = some w) :
    projectPT fuel t paxes vaxes next = some (C06pL.copyOut t (numel (paxes.map (·.2)))
      (project (contiguous (paxes.map (·.2))) (paxes.map (fun k => Axis.phys k.1 k.2)) st.subst) w) := by
  unfold projectPT
  simp only [hrun, hw]
  rfl

/-- **project reads the dense tensor at the requested pattern**

EXTRA HYPOTHESIS (not in the statement as given, see `projectPT_cells_statement`; NEEDED,
`projectPT_cells_counterexample`): `hcover`, every requested physical axis occurs in a requested virtual axis (as the
physical axes of a tensor do; `SumProduct.backward` requests the `paxes` / `vaxes` of an input).  The requested pattern
need not be the pattern of a well-formed tensor otherwise: a requested physical axis may have size 1. -/
theorem projectPT_cells (fuel : Nat) (t : PT) (paxes : List (Nat × Nat)) (vaxes : List Axis) (next : Nat)
    (h : RequestOK t paxes vaxes next)
    (hcover : ∀ q ∈ paxes, ∃ e ∈ vaxes, q ∈ e.fv)
    (hf : Pj.faithful fuel t paxes vaxes next = true) :
    ∃ out, projectPT fuel t paxes vaxes next = some out ∧ out.length = numel (paxes.map (·.2)) ∧
      ∀ idx ∈ assigns (paxes.map (·.2)),
        out[flat (paxes.map (·.2)) idx]? = some (cell t (vaxes.map (Axis.eval (envOf paxes idx)))) := by
  have hS := (C06dL.wf_iff_struct t).1 h.wf
  have R : C06pL.Req t paxes vaxes next :=
    ⟨hS, h.post, h.posp, h.nodup, h.fvsub, h.shape, h.disj, h.below, hcover⟩
  have hUsem : C06dL.Sem (C06pL.target t paxes vaxes) := R.patU.sem
  have hcell : ∀ idx ∈ assigns (paxes.map (·.2)),
      cell t (vaxes.map (Axis.eval (envOf paxes idx))) =
        C06dL.valueAt t (vaxes.map (Axis.eval (envOf paxes idx))) := by
    intro idx hidx
    have hc : vaxes.map (Axis.eval (envOf paxes idx)) ∈ assigns t.vshape := by
      rw [← h.shape]
      exact hUsem.mem_assigns (C06dL.envOf_inRange' hUsem hidx)
    exact C06pL.cell_eq_valueAt hS.sem hc
  unfold Pj.faithful at hf
  simp only [Bool.and_eq_true] at hf
  obtain ⟨hf1, hf2⟩ := hf
  unfold Eq.faithful at hf1
  unfold Eq.resolved at hf2
  simp only at hf1 hf2
  rcases hrun : unifyAll fuel (t.vaxes.zip vaxes) ⟨[], next⟩ with ⟨ok, st⟩
  rw [hrun] at hf1 hf2
  cases ok with
  | false =>
    -- no cell of the target is backed by the tensor
    simp only [Bool.not_eq_true', List.any_eq_false, List.any_eq_true, beq_iff_eq, not_exists, not_and] at hf1
    refine ⟨_, impl_fail fuel t paxes vaxes next hrun, by simp, ?_⟩
    intro idx hidx
    rw [hcell idx hidx, C06dL.valueAt_of_not_mem, List.getElem?_replicate, if_pos (C06dL.flat_lt hidx)]
    intro hk
    obtain ⟨p, hp, hpc⟩ := List.mem_map.1 hk
    have hq : vaxes.map (Axis.eval (envOf paxes idx)) ∈
        C06dL.keys { physical := [], paxes := paxes, vaxes := vaxes, default := t.default } := by
      rw [C06dL.keys_eq]
      exact List.mem_map.2 ⟨idx, hidx, rfl⟩
    obtain ⟨q, hq, hqc⟩ := List.mem_map.1 hq
    exact hf1 p hp q hq (by rw [hqc, hpc])
  | true =>
    simp only [Bool.and_eq_true] at hf1
    have hnd : (st.subst.map (·.1)).Nodup := (C06dL.nodupNat_iff _).1 hf1.1
    have hg : C07bL.GoodS st.subst 3999 := by
      intro p hp q hq
      have := List.all_eq_true.1 (List.all_eq_true.1 hf2 p hp) q hq
      simpa using this
    obtain ⟨sz, S⟩ := C06pL.succ_of_run' (u := C06pL.target t paxes vaxes) R.ops h.shape.symm hrun hnd hg
    obtain ⟨w, hw, hcells⟩ := C06pL.copy_cells R S
    refine ⟨_, impl_succ fuel t paxes vaxes next hrun hw, C06pL.copyOut_length _ _ _ _, ?_⟩
    intro idx hidx
    rw [hcell idx hidx]
    exact hcells idx hidx

/-! ### non-vacuity: the diagonal of a dense 2 × 2 tensor, and a dense view of a diagonal tensor -/

def exD : PT := { physical := [.fin 1, .fin 2, .fin 3, .fin 4], paxes := [(1, 2), (2, 2)], vaxes := [.phys 1 2, .phys 2 2], default := .fin 0 }
def exG : PT := { physical := [.fin 5, .fin 7], paxes := [(0, 2)], vaxes := [.phys 0 2, .phys 0 2], default := .fin 9 }

example : RequestOK exD [(5, 2)] [.phys 5 2, .phys 5 2] 6 := by
  refine ⟨by decide, by decide, by decide, by decide, by decide, by decide, by decide, by decide⟩

/-- the remaining hypotheses hold for it, too, and the diagonal is what is computed -/
example : (∀ q ∈ [(5, 2)], ∃ e ∈ [Axis.phys 5 2, Axis.phys 5 2], q ∈ e.fv) ∧
    Pj.faithful 50 exD [(5, 2)] [.phys 5 2, .phys 5 2] 6 = true ∧
    projectPT 50 exD [(5, 2)] [.phys 5 2, .phys 5 2] 6 = some [.fin 1, .fin 4] := by
  refine ⟨by decide, by decide, by decide⟩

/-- a dense 2 × 2 view of the diagonal tensor `exG`: the off-diagonal elements are the default -/
example : RequestOK exG [(5, 2), (6, 2)] [.phys 5 2, .phys 6 2] 7 ∧
    Pj.faithful 50 exG [(5, 2), (6, 2)] [.phys 5 2, .phys 6 2] 7 = true ∧
    projectPT 50 exG [(5, 2), (6, 2)] [.phys 5 2, .phys 6 2] 7 = some [.fin 5, .fin 9, .fin 9, .fin 7] := by
  refine ⟨⟨by decide, by decide, by decide, by decide, by decide, by decide, by decide, by decide⟩, by decide, by decide⟩

/-- a request with a physical axis of size 1 (not the pattern of a well-formed tensor): covered by the theorem -/
example : RequestOK exD [(5, 2), (6, 1)] [.phys 5 2, .prod [.phys 5 2, .phys 6 1]] 7 ∧
    (∀ q ∈ [(5, 2), (6, 1)], ∃ e ∈ [Axis.phys 5 2, Axis.prod [.phys 5 2, .phys 6 1]], q ∈ e.fv) ∧
    Pj.faithful 50 exD [(5, 2), (6, 1)] [.phys 5 2, .prod [.phys 5 2, .phys 6 1]] 7 = true ∧
    projectPT 50 exD [(5, 2), (6, 1)] [.phys 5 2, .prod [.phys 5 2, .phys 6 1]] 7 = some [.fin 1, .fin 4] := by
  refine ⟨⟨by decide, by decide, by decide, by decide, by decide, by decide, by decide, by decide⟩, by decide, by decide,
    by decide⟩

end C06p
