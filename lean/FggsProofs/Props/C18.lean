/-
C18 — In-place operations on a clone never change the source (the aliasing discipline, `FggsModel.Heap`).
-/
import FggsModel.Heap
import Mathlib.Tactic.Linarith
import Mathlib.Data.List.Basic

set_option linter.unusedSimpArgs false
set_option linter.unusedVariables false

namespace C18
open Fggs Fggs.Hp

/-- every storage that existed before is still there with its old contents -/
def Preserves (h0 h : Heap) : Prop :=
  h0.cells.length ≤ h.cells.length ∧ ∀ sid, sid < h0.cells.length → h.cells[sid]? = h0.cells[sid]?

theorem preserves_refl (h : Heap) : Preserves h h := ⟨le_refl _, fun _ _ => rfl⟩

theorem preserves_trans {a b c : Heap} (h1 : Preserves a b) (h2 : Preserves b c) : Preserves a c :=
  ⟨le_trans h1.1 h2.1, fun sid hs => by rw [h2.2 sid (lt_of_lt_of_le hs h1.1), h1.2 sid hs]⟩

/-- allocation preserves everything and returns a fresh reference -/
theorem alloc_preserves (h : Heap) (data : List Cell) :
    Preserves h (alloc h data).1 ∧ (alloc h data).2.sid = h.cells.length := by
  refine ⟨⟨by simp [alloc], ?_⟩, rfl⟩
  intro sid hs
  simp [alloc, List.getElem?_append_left hs]

/-- writing through a reference allocated after `h0` preserves `h0` -/
theorem write_preserves (h0 h : Heap) (r : Ref) (data : List Cell) (hp : Preserves h0 h) (hr : h0.cells.length ≤ r.sid) :
    Preserves h0 (write h r data) := by
  refine ⟨by simpa [write] using hp.1, ?_⟩
  intro sid hs
  have hne : r.sid ≠ sid := by omega
  simp [write, List.getElem?_set_ne hne, hp.2 sid hs]

/-- one in-place step on a reference allocated after `h0` preserves `h0`, and the (possibly re-bound)
reference is still one allocated after `h0` -/
theorem step_preserves (h0 : Heap) (other : Ref) (st : Heap × Ref) (op : Op)
    (hp : Preserves h0 st.1) (hr : h0.cells.length ≤ st.2.sid) :
    Preserves h0 (step other st op).1 ∧ h0.cells.length ≤ (step other st op).2.sid := by
  obtain ⟨h, r⟩ := st
  simp only at hp hr
  cases op <;> simp only [step]
  all_goals first
    | exact ⟨write_preserves h0 h r _ hp hr, hr⟩
    | (split
       · exact ⟨write_preserves h0 h r _ hp hr, hr⟩
       · refine ⟨preserves_trans hp (alloc_preserves h _).1, ?_⟩
         rw [(alloc_preserves h _).2]; exact hp.1)

/-- **any sequence of in-place operations applied to a clone leaves every storage that existed before
the clone unchanged** — in particular the source's, and the argument of `copy_` -/
theorem clone_isolated (h : Heap) (src other : Ref) (ops : List Op) :
    Preserves h (run h src other ops).1 := by
  unfold run
  have h0 : Preserves h (clone h src).1 ∧ h.cells.length ≤ (clone h src).2.sid := by
    unfold clone
    exact ⟨(alloc_preserves h _).1, by rw [(alloc_preserves h _).2]⟩
  generalize clone h src = st at h0
  induction ops generalizing st with
  | nil => exact h0.1
  | cons op ops ih =>
    simp only [List.foldl_cons]
    exact ih _ (step_preserves h other st op h0.1 h0.2)

/-- non-vacuity -/
example : (run ⟨[[some (.fin 1), some (.fin 2)], [some (.fin 5), some (.fin 6)]]⟩ ⟨0⟩ ⟨1⟩ [.neg, .copyOther, .mul2]).1.cells[0]?
    = some [some (.fin 1), some (.fin 2)] := by decide

end C18
