/-
C04d — the patterned Viterbi einsum (`log_viterbi_einsum_forward` of fggs/indices.py, model `Ve.vitEinsum`): the
maximum it returns is the patterned einsum over the Viterbi semiring (so, by `C07.einsum_dense_viterbi`, the max-plus
einsum of the dense operands), and the POINTERS it returns satisfy the contract `Ve.ptrOk`: at every output cell, the
assignment that gives the summed-out index variables the pointed-at values has exactly the weight stored in the
maximum — the conversion of the physical arg-max into one pointer per index variable through `Axis.stride(subst)` is
correct, in all three layouts of the pointer tensor (no / one / several summed-out variables).

The theorems are about the model's executable definitions; the correspondence (harness/c07.py `run_viteinsum_model`)
compares `Ve.vitEinsum` with the library token by token and decides `Ve.ptrOk` on the library's own results.

STATEMENT CHANGES (the statements as given are kept as `…_statement : Prop`, each with a kernel-checked counterexample):
* `vitEinsum_ptrOk` needs two more hypotheses.
  (a) `j.out.Nodup`: with a repeated output index (`i -> ii`) the contract reads the value of `i` at its FIRST
      occurrence in `j.out`, so at an off-diagonal output cell it compares the weight of a diagonal cell with `-∞`
      (`vitEinsum_ptrOk_counterexample`).  (The Python code raises on a repeated output index.)
  (b) `resolvedInner`: the model computes the pointers with `Sd.strideS σ FUEL` of the table entries of the SUMMED-OUT
      variables, but `Ei.resolved` only checks that `FUEL` resolves the bindings and the entries of the OUTPUT
      variables; for an entry nested deeper than `FUEL` the affine form still mentions a bound axis and the pointer
      is wrong (`vitEinsum_ptrOk_counterexample_FUEL`; a model artifact, Python's `stride` has no fuel).
* `vitEinsum_ptrOk_of_failure` is false because `unify` is incomplete (C06b: it may answer `False` on overlapping
  patterns; and it fails for a small `fuel`): the result is all `-∞` although some assignment has a finite weight
  (`vitEinsum_ptrOk_of_failure_counterexample`).  It is proved under the hypothesis of `C07.spec_zero_of_disjoint`
  (no joint assignment is backed by every operand) and the hypothesis that the zero result has the shape of the
  specification (size-consistency of the substitution is only established for successful runs).
-/
import FggsProofs.Props.C07d
import FggsProofs.Props.C07e
import FggsModel.VitEinsum
import FggsProofs.C04dBaseLemmas
import FggsProofs.C04dMainLemmas

set_option linter.unusedSimpArgs false
set_option linter.unusedVariables false


namespace C04
open Fggs Fggs.Ax Fggs.Un Fggs.Ei Fggs.Sem Fggs.Ve

/-- **the maximum of the Viterbi einsum is the einsum over the Viterbi semiring** (same patterned tensor), for operands
with entries in `[-∞, ∞]` (no `nan`) -/
theorem vitEinsum_out (fuel : Nat) (j : EJob) (next : Nat)
    (hvals : ∀ p ∈ j.ops, ∀ c ∈ p.1.physical, C08.VitC c) :
    (vitEinsum vitSR fuel j next).1 = einsum vitSR fuel j next := by
  unfold vitEinsum einsum
  split
  · rfl
  · rcases hc : collect fuel j next with ⟨tbl, ok, st⟩
    simp only
    cases ok
    · rfl
    · simp only [Bool.not_true, Bool.false_eq_true, if_false]
      split
      · rfl
      · simp only [List.map_map]
        congr 2
        apply List.map_congr_left
        intro a _
        simp only [Function.comp]
        rw [C04dL.firstMax_snd, List.map_map]
        · rfl
        · intro d hd
          obtain ⟨b, _, rfl⟩ := List.mem_map.1 hd
          exact C04dL.viewProd_mem C07.vitSR_carrier j hvals _ _

/-- the index variables that are summed out and the size of every index variable, as the driver reports them -/
def innerIdx (fuel : Nat) (j : EJob) (next : Nat) : List Nat := (innerVars j (collect fuel j next).1).map (·.1)
def sizeOf (fuel : Nat) (j : EJob) (next : Nat) : Nat → Nat :=
  fun x => (((collect fuel j next).1.lookup x).map Axis.numel).getD 1

/-! ### the pointers after a successful first pass -/

/-- the statement of `vitEinsum_ptrOk` as it was given: under the hypotheses of `C07.einsum_dense_viterbi` alone it is
false (`vitEinsum_ptrOk_counterexample`: a repeated output index; `vitEinsum_ptrOk_counterexample_FUEL`: an axis deeper
than `FUEL` in the table entry of a summed-out variable) -/
def vitEinsum_ptrOk_statement : Prop :=
  ∀ (fuel : Nat) (j : EJob) (next : Nat) (h : C07.JobOK vitSR j next) (hne : j.ops ≠ [])
    (hok : (collect fuel j next).2.1 = true) (hres : resolved fuel j next = true)
    (hvals : ∀ p ∈ j.ops, ∀ c ∈ p.1.physical, C08.VitC c),
    let r := vitEinsum vitSR fuel j next
    ptrOk vitSR j (innerIdx fuel j next) (sizeOf fuel j next) r.1 r.2 = true

/-- `i -> ii`: one dense vector `[1, 2]`, the output index repeated -/
def dupJob : EJob := ⟨[(⟨[.fin 1, .fin 2], [(0, 2)], [.phys 0 2], .ninf⟩, [0])], [0, 0]⟩

private theorem dupJob_ok : C07.JobOK vitSR dupJob 1 where
  wf := by decide
  zeroDefault := by decide
  arity := by decide
  fresh := by decide
  pos := by decide
  disjoint := by decide
  sizes := by
    have h : ∀ p ∈ dupJob.ops, ∀ q ∈ dupJob.ops, ∀ i, i < p.2.length → ∀ i', i' < q.2.length →
        p.2[i]? = q.2[i']? → p.1.vshape[i]? = q.1.vshape[i']? := by decide
    exact fun p hp q hq i i' hi hi' => h p hp q hq i hi i' hi'
  out := by decide

private theorem dupJob_vals : ∀ p ∈ dupJob.ops, ∀ c ∈ p.1.physical, C08.VitC c := by
  intro p hp c hc
  simp only [dupJob, List.mem_cons, List.not_mem_nil, or_false] at hp
  subst hp
  simp only [List.mem_cons, List.not_mem_nil, or_false] at hc
  rcases hc with rfl | rfl <;> simp [C08.VitC]

/-- **the statement as given is false** (a repeated output index): at the output cell `(0, 1)` the stored maximum is
`-∞`, there is no summed-out variable, and the contract reads the value of `i` at its first occurrence — the weight
of the assignment `i = 0` is `1` -/
theorem vitEinsum_ptrOk_counterexample : ¬ vitEinsum_ptrOk_statement := by
  intro h
  have := h FUEL dupJob 1 dupJob_ok (by decide) (by decide) (by decide) dupJob_vals
  revert this
  decide +kernel

/-- `A[x, y] C[y]` with `A` diagonal (`x = y`), the first virtual axis of `A` 4000 levels deep; `x` and `y` are summed
out.  The unification binds the physical axis 0 of `A` to the axis 2 of `C`; the table entry of `x` is the deep axis,
and `Sd.strideS σ FUEL` runs out of fuel before it reaches the bound axis 0 inside it -/
def deepJob : EJob :=
  ⟨[(⟨[.fin 0, .fin 5], [(0, 2)], [C07.tower 4000 (.phys 0 2), .phys 0 2], .ninf⟩, [0, 1]),
    (⟨[.fin 0, .fin 0], [(2, 2)], [.phys 2 2], .ninf⟩, [1])], []⟩

set_option maxRecDepth 100000 in
private theorem deepJob_ok : C07.JobOK vitSR deepJob 3 where
  wf := by decide
  zeroDefault := by decide
  arity := by decide
  fresh := by decide
  pos := by decide
  disjoint := by decide
  sizes := by
    have h : ∀ p ∈ deepJob.ops, ∀ q ∈ deepJob.ops, ∀ i, i < p.2.length → ∀ i', i' < q.2.length →
        p.2[i]? = q.2[i']? → p.1.vshape[i]? = q.1.vshape[i']? := by decide
    exact fun p hp q hq i i' hi hi' => h p hp q hq i hi i' hi'
  out := by decide

private theorem deepJob_vals : ∀ p ∈ deepJob.ops, ∀ c ∈ p.1.physical, C08.VitC c := by
  intro p hp c hc
  simp only [deepJob, List.mem_cons, List.not_mem_nil, or_false] at hp
  rcases hp with rfl | rfl <;> simp only [List.mem_cons, List.not_mem_nil, or_false] at hc <;>
    rcases hc with rfl | rfl <;> simp [C08.VitC]

set_option maxRecDepth 100000 in
/-- **… and `j.out.Nodup` alone does not repair it** (an axis deeper than `FUEL` in the table entry of a summed-out
variable, `fuel = FUEL`): the maximum is `5` (at `x = y = 1`), the pointers are `x = 0, y = 1`, an assignment of
weight `-∞` -/
theorem vitEinsum_ptrOk_counterexample_FUEL :
    ¬ ∀ (j : EJob) (next : Nat) (h : C07.JobOK vitSR j next) (hne : j.ops ≠ [])
        (hok : (collect FUEL j next).2.1 = true) (hres : resolved FUEL j next = true)
        (hvals : ∀ p ∈ j.ops, ∀ c ∈ p.1.physical, C08.VitC c) (hnd : j.out.Nodup),
        ptrOk vitSR j (innerIdx FUEL j next) (sizeOf FUEL j next) (vitEinsum vitSR FUEL j next).1
          (vitEinsum vitSR FUEL j next).2 = true := by
  intro h
  have := h deepJob 3 deepJob_ok (by decide) (by decide +kernel) (by decide +kernel) deepJob_vals (by decide)
  revert this
  decide +kernel

/-- **the pointers of the Viterbi einsum point at an assignment of the stored weight**: under the hypotheses of
`C07.einsum_dense_viterbi` and

EXTRA HYPOTHESES (not in the statement as given, see `vitEinsum_ptrOk_statement`):
* `hnd`: no output index is repeated;
* `hresI`: the decidable check `Ve.resolvedInner` that `FUEL` units of fuel resolve the clone of the table entry of
  every summed-out index variable. -/
theorem vitEinsum_ptrOk (fuel : Nat) (j : EJob) (next : Nat) (h : C07.JobOK vitSR j next) (hne : j.ops ≠ [])
    (hok : (collect fuel j next).2.1 = true) (hres : resolved fuel j next = true)
    (hvals : ∀ p ∈ j.ops, ∀ c ∈ p.1.physical, C08.VitC c)
    (hnd : j.out.Nodup) (hresI : resolvedInner fuel j next = true) :
    let r := vitEinsum vitSR fuel j next
    ptrOk vitSR j (innerIdx fuel j next) (sizeOf fuel j next) r.1 r.2 = true := by
  intro r
  have J : C07bL.JobHyp vitSR j next := ⟨h.wf, h.zeroDefault, h.arity, h.fresh, h.pos, h.disjoint, h.sizes, h.out⟩
  rcases hc : collect fuel j next with ⟨tbl, ok, st⟩
  rw [hc] at hok
  simp only at hok
  subst hok
  obtain ⟨sz, F⟩ := C07bL.facts_of_collect J hc
  have R := C04dL.resolvedAt_of hc hres
  have hz : (C07bL.allAxesOf j st.subst).any (fun k => k.2 == 0) = false := by
    rw [List.any_eq_false]
    intro q hq
    have := (C07bL.allAxes_props J F R hq).2.1.2.2
    simp only [beq_iff_eq]
    omega
  have hr : r = _ := C04dL.vitEinsum_eq vitSR fuel j next tbl st hne hc hz
  have hI : ∀ p ∈ innerVars j tbl, C07bL.Good st.subst FUEL p.2 := by
    intro p hp
    unfold resolvedInner at hresI
    rw [hc] at hresI
    exact (C04dL.unbound_iff _ _).1 (List.all_eq_true.1 hresI p hp)
  have hfresh : ∀ q ∈ C07bL.outAxesOf j tbl st.subst, q.1 ≠ st.next + 1 := by
    intro q hq
    have := (C07bL.allAxes_props J F R (C07bL.outAxes_sub J F R hq)).2.1.1
    omega
  have hmain := C04dL.ptrOk_success hvals J F R hI (C04dL.collect_keys_nodup hc) hnd (st.next + 1) hfresh
  rw [hr]
  unfold innerIdx sizeOf
  rw [hc]
  exact hmain

/-- `ij,jk->i` with `A` diagonal (`vaxes = [X₀, X₀]`) and `B` dense: `j` and `k` are summed out (two pointers per output
cell, the layout with a leading physical axis) -/
def exJob : EJob :=
  ⟨[(⟨[.fin 1, .fin 3], [(0, 2)], [.phys 0 2, .phys 0 2], .ninf⟩, [0, 1]),
    (⟨[.fin 0, .fin 2, .fin 5, .fin 1], [(1, 2), (2, 2)], [.phys 1 2, .phys 2 2], .ninf⟩, [1, 2])], [0]⟩

private theorem exJob_ok : C07.JobOK vitSR exJob 3 where
  wf := by decide
  zeroDefault := by decide
  arity := by decide
  fresh := by decide
  pos := by decide
  disjoint := by decide
  sizes := by
    have h : ∀ p ∈ exJob.ops, ∀ q ∈ exJob.ops, ∀ i, i < p.2.length → ∀ i', i' < q.2.length →
        p.2[i]? = q.2[i']? → p.1.vshape[i]? = q.1.vshape[i']? := by decide
    exact fun p hp q hq i i' hi hi' => h p hp q hq i hi i' hi'
  out := by decide

private theorem exJob_vals : ∀ p ∈ exJob.ops, ∀ c ∈ p.1.physical, C08.VitC c := by
  intro p hp c hc
  simp only [exJob, List.mem_cons, List.not_mem_nil, or_false] at hp
  rcases hp with rfl | rfl <;> simp only [List.mem_cons, List.not_mem_nil, or_false] at hc
  · rcases hc with rfl | rfl <;> simp [C08.VitC]
  · rcases hc with rfl | rfl | rfl | rfl <;> simp [C08.VitC]

/-- all hypotheses of `vitEinsum_ptrOk` hold for it -/
example : ptrOk vitSR exJob (innerIdx FUEL exJob 3) (sizeOf FUEL exJob 3) (vitEinsum vitSR FUEL exJob 3).1
    (vitEinsum vitSR FUEL exJob 3).2 = true :=
  vitEinsum_ptrOk FUEL exJob 3 exJob_ok (by decide) (by decide) (by decide) exJob_vals (by decide) (by decide)

/-- … the maximum is `[1 + 2, 3 + 5]` and the pointers are `(j, k) = (0, 1)` and `(1, 0)` -/
example : (vitEinsum vitSR FUEL exJob 3).1.dense = [.fin 3, .fin 8] ∧
    (vitEinsum vitSR FUEL exJob 3).2.dense = [.fin 0, .fin 1, .fin 1, .fin 0] := by decide +kernel

/-! ### when a unification fails -/

/-- the statement of `vitEinsum_ptrOk_of_failure` as it was given: it is false, because `unify` is incomplete (it may
fail on overlapping patterns, `C06b.unify_complete_counterexample_diagonal`, and it fails for a small `fuel`) -/
def vitEinsum_ptrOk_of_failure_statement : Prop :=
  ∀ (fuel : Nat) (j : EJob) (next : Nat) (h : C07.JobOK vitSR j next) (hne : j.ops ≠ [])
    (hok : (collect fuel j next).2.1 = false) (hres : resolved fuel j next = true)
    (hvals : ∀ p ∈ j.ops, ∀ c ∈ p.1.physical, C08.VitC c),
    let r := vitEinsum vitSR fuel j next
    ptrOk vitSR j (innerIdx fuel j next) (sizeOf fuel j next) r.1 r.2 = true

/-- two vectors of length 36 multiplied elementwise and summed: the first is backed on the 6 cells `7 i` (one physical
axis of size 6 used as `6 × 6`), the second is dense over `2 × 3 × 3 × 2`; the patterns overlap but `unify` fails -/
def diagJob : EJob :=
  ⟨[(⟨List.replicate 6 (.fin 1), [(0, 6)], [.prod [.phys 0 6, .phys 0 6]], .ninf⟩, [0]),
    (⟨List.replicate 36 (.fin 1), [(1, 2), (2, 3), (3, 3), (4, 2)],
      [.prod [.phys 1 2, .phys 2 3, .phys 3 3, .phys 4 2]], .ninf⟩, [0])], []⟩

private theorem diagJob_ok : C07.JobOK vitSR diagJob 5 where
  wf := by decide +kernel
  zeroDefault := by decide
  arity := by decide
  fresh := by decide
  pos := by decide
  disjoint := by decide
  sizes := by
    have h : ∀ p ∈ diagJob.ops, ∀ q ∈ diagJob.ops, ∀ i, i < p.2.length → ∀ i', i' < q.2.length →
        p.2[i]? = q.2[i']? → p.1.vshape[i]? = q.1.vshape[i']? := by decide
    exact fun p hp q hq i i' hi hi' => h p hp q hq i hi i' hi'
  out := by decide

private theorem diagJob_vals : ∀ p ∈ diagJob.ops, ∀ c ∈ p.1.physical, C08.VitC c := by
  intro p hp c hc
  simp only [diagJob, List.mem_cons, List.not_mem_nil, or_false] at hp
  rcases hp with rfl | rfl <;> simp only [List.mem_replicate] at hc <;> rw [hc.2] <;> simp [C08.VitC]

/-- **the statement as given is false** (`fuel = FUEL`): the unification fails, the result is `-∞` with pointer 0, but
the assignment `i = 0` has weight `1 + 1` -/
theorem vitEinsum_ptrOk_of_failure_counterexample : ¬ vitEinsum_ptrOk_of_failure_statement := by
  intro h
  have := h FUEL diagJob 5 diagJob_ok (by decide) (by decide +kernel) (by decide +kernel) diagJob_vals
  revert this
  decide +kernel

/-- … and when a unification fails (the result is all zero) the contract holds as well, PROVIDED every assignment has
weight zero:

EXTRA HYPOTHESES (not in the statement as given, see `vitEinsum_ptrOk_of_failure_statement`):
* `hdis`, the hypothesis of `C07.spec_zero_of_disjoint`: no joint assignment of the indices is backed by every operand
  (the failure of `unify` does not imply it: `unify` is incomplete);
* `hshape`: the zero result has the shape of the specification (in the successful case this is a conclusion of
  `C07.einsum_dense_viterbi`; after a failed unification the size-consistency of the substitution, on which the sizes
  of the cloned output axes rest, is not established). -/
theorem vitEinsum_ptrOk_of_failure (fuel : Nat) (j : EJob) (next : Nat) (h : C07.JobOK vitSR j next) (hne : j.ops ≠ [])
    (hok : (collect fuel j next).2.1 = false) (hres : resolved fuel j next = true)
    (hvals : ∀ p ∈ j.ops, ∀ c ∈ p.1.physical, C08.VitC c)
    (hdis : ∀ ρ : List Nat, ρ ∈ Sem.assigns (C07.toSpec j).sizes →
      ∃ p ∈ j.ops, (p.1.cells.all (fun c => c.1 != p.2.map (fun v => ρ[v]?.getD 0))) = true)
    (hshape : (vitEinsum vitSR fuel j next).1.vshape = j.out.map (fun v => (C07.toSpec j).sizes[v]?.getD 1)) :
    let r := vitEinsum vitSR fuel j next
    ptrOk vitSR j (innerIdx fuel j next) (sizeOf fuel j next) r.1 r.2 = true := by
  intro r
  have J : C07bL.JobHyp vitSR j next := ⟨h.wf, h.zeroDefault, h.arity, h.fresh, h.pos, h.disjoint, h.sizes, h.out⟩
  rcases hc : collect fuel j next with ⟨tbl, ok, st⟩
  rw [hc] at hok
  simp only at hok
  subst hok
  have hr : r = _ := C04dL.vitEinsum_eq_fail vitSR fuel j next tbl st hne hc
  have hsh : (C07bL.outVaxesOf j tbl st.subst).map Axis.numel = j.out.map (C07bL.sizeOf j.ops) := by
    have h1 : (vitEinsum vitSR fuel j next).1.vshape = (C07bL.outVaxesOf j tbl st.subst).map Axis.numel := by
      show r.1.vshape = _
      rw [hr, C04dL.zeroResult_fst,
        (C06dL.normalize_spec (C04dL.plain_normOK _ _ _ (by simp))).2.1, C04dL.plain_vshape]
    rw [← h1, hshape]
    apply List.map_congr_left
    intro v hv
    show (Es.Job.mk j.ops j.out).sizes[v]?.getD 1 = _
    rw [C07bL.getElem?_sizes _ _ (C07bL.lt_nvars (List.mem_append_right _ hv))]
    rfl
  have hmain := C04dL.ptrOk_failure hvals J hdis (C07bL.outVaxesOf j tbl st.subst) ((innerVars j tbl).map (·.1))
    (fun x => ((tbl.lookup x).map Axis.numel).getD 1) hsh
  rw [List.length_map] at hmain
  rw [hr]
  unfold innerIdx sizeOf
  rw [hc]
  exact hmain

/-! ### the reading of the decider -/

/-- what `ptrOk` says, cell by cell (the reading of the decider) -/
theorem ptrOk_reading (S : SR Ext) (j : EJob) (innerIdx : List Nat) (sizes : Nat → Nat) (out ptr : PT)
    (h : ptrOk S j innerIdx sizes out ptr = true) (v : List Nat) (hv : v ∈ Ax.assigns out.vshape) :
    let n := innerIdx.length
    let q := (List.range n).map (fun i => ((ptr.dense)[Ax.flat (out.vshape ++ [n]) (v ++ [i])]?.getD (Ext.fin 0)))
    let qn := q.map (fun x => match x with | Ext.fin r => r.num.toNat | _ => 0)
    let o := (out.dense)[Ax.flat out.vshape v]?.getD out.default
    (o ≠ S.zero → ∀ p ∈ innerIdx.zip qn, p.2 < sizes p.1) ∧
    ((∀ p ∈ innerIdx.zip qn, p.2 < sizes p.1) → weightAt S j (j.out ++ innerIdx) (v ++ qn) = o) :=
  ((C04dL.ptrOk_iff S j innerIdx sizes out ptr).1 h).2 v hv

end C04
