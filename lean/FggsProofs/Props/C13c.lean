/-
C13c — the two side conditions of `C13b.compareImpl_eq_compareModel` are what the driver evaluates for every pair of the
C13 correspondence stream (`Eq.faithful && Eq.resolved`, third reply field of `C13.impl`).
-/
import FggsProofs.Props.C13b

namespace C13c
open Fggs Fggs.Ax Fggs.Eq

theorem resolved_eq (fuel : Nat) (t u : PT) (next : Nat) : Eq.resolved fuel t u next = C13b.resolved fuel t u next := rfl

/-- the corollary the correspondence relies on: a pair the driver reports as faithful and resolved is decided by
`equal` / `allclose` as computed exactly as the specification decides it -/
theorem compareImpl_of_driver_flags (cmp : Ext → Ext → Bool) (fuel : Nat) (t u : PT) (next : Nat)
    (h : C13b.OperandsOK t u next) (hf : (faithful fuel t u next && Eq.resolved fuel t u next) = true) :
    compareImpl cmp fuel t u next = some (PT.compareSpec cmp t u) := by
  rw [Bool.and_eq_true] at hf
  exact C13b.compareImpl_eq_compareSpec cmp fuel t u next h hf.1 (by rw [← resolved_eq]; exact hf.2)

end C13c
