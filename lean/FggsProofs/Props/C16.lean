/-
C16 — Graphs and grammars stay well formed under any sequence of API calls.
Theorems about the store model `Fggs.G` (FggsModel/Graph.lean).
-/
import FggsModel.Graph
import Mathlib.Tactic.Linarith
import Mathlib.Data.List.Basic

set_option linter.unusedSimpArgs false
set_option linter.unusedVariables false

namespace C16
open Fggs Fggs.G

/-- the result state of a history of public API calls, starting from nothing -/
def run (ops : List Op) : Store := ops.foldl (fun s op => (step s op).1) {}

/-! ### helper lemmas (private) -/

private theorem nodup_iff {α} [DecidableEq α] (l : List α) : nodup l = true ↔ l.Nodup := by
  induction l with
  | nil => simp [nodup]
  | cons x xs ih => simp [nodup, ih]

/-- the invariant as a structure of propositions -/
private structure Inv (g : Graph) : Prop where
  edgeNodes : ∀ e ∈ g.edges, ∀ n ∈ e.nodes, n ∈ g.nodes
  extNodes : ∀ n ∈ g.ext, n ∈ g.nodes
  nodeIds : (g.nodes.map (·.id)).Nodup
  edgeIds : (g.edges.map (·.id)).Nodup
  labelNames : (g.edgeLabels.map (·.name)).Nodup
  edgeLabels : ∀ e ∈ g.edges, e.label ∈ g.edgeLabels
  edgeTypes : ∀ e ∈ g.edges, e.label.type = e.nodes.map (·.label)
  nodeLabels : ∀ n ∈ g.nodes, n.label ∈ g.nodeLabels

private theorem inv_iff (g : Graph) : graphInv g = true ↔ Inv g := by
  constructor
  · intro h
    simp only [graphInv, Bool.and_eq_true, nodup_iff, List.all_eq_true, List.contains_iff_mem,
      beq_iff_eq] at h
    obtain ⟨⟨⟨⟨⟨⟨⟨h1, h2⟩, h3⟩, h4⟩, h5⟩, h6⟩, h7⟩, h8⟩ := h
    exact ⟨h1, h2, h3, h4, h5, h6, h7, h8⟩
  · intro ⟨h1, h2, h3, h4, h5, h6, h7, h8⟩
    simp only [graphInv, Bool.and_eq_true, nodup_iff, List.all_eq_true, List.contains_iff_mem,
      beq_iff_eq]
    exact ⟨⟨⟨⟨⟨⟨⟨h1, h2⟩, h3⟩, h4⟩, h5⟩, h6⟩, h7⟩, h8⟩

private theorem find_id_none {α β} [DecidableEq β] (f : α → β) (l : List α) (i : β)
    (h : l.find? (fun x => decide (f x = i)) = none) : i ∉ l.map f := by
  intro hm
  obtain ⟨x, hx, rfl⟩ := List.mem_map.1 hm
  have := List.find?_eq_none.1 h x hx
  simp at this

private theorem find_of_nodup {α β} [DecidableEq β] (f : α → β) (l : List α) (x : α)
    (hnd : (l.map f).Nodup) (hx : x ∈ l) : l.find? (fun y => decide (f y = f x)) = some x := by
  induction l with
  | nil => simp at hx
  | cons y ys ih =>
    rw [List.map_cons, List.nodup_cons] at hnd
    rcases List.mem_cons.1 hx with rfl | hx'
    · simp
    · have hne : f y ≠ f x := by
        intro he
        exact hnd.1 (he ▸ List.mem_map_of_mem hx')
      simp [List.find?_cons, hne, ih hnd.2 hx']

private theorem eq_of_nodup_map {α β} [DecidableEq β] (f : α → β) (l : List α)
    (hnd : (l.map f).Nodup) {x y : α} (hx : x ∈ l) (hy : y ∈ l) (h : f x = f y) : x = y := by
  have h1 := find_of_nodup f l x hnd hx
  have h2 := find_of_nodup f l y hnd hy
  rw [h] at h1
  rw [h1] at h2
  exact Option.some.inj h2

/-! addNodeLabel -/

private theorem anl_nodes (g : Graph) (l : Nat) : (g.addNodeLabel l).nodes = g.nodes := by
  unfold Graph.addNodeLabel; split <;> rfl
private theorem anl_edges (g : Graph) (l : Nat) : (g.addNodeLabel l).edges = g.edges := by
  unfold Graph.addNodeLabel; split <;> rfl
private theorem anl_ext (g : Graph) (l : Nat) : (g.addNodeLabel l).ext = g.ext := by
  unfold Graph.addNodeLabel; split <;> rfl
private theorem anl_edgeLabels (g : Graph) (l : Nat) :
    (g.addNodeLabel l).edgeLabels = g.edgeLabels := by
  unfold Graph.addNodeLabel; split <;> rfl
private theorem anl_mem (g : Graph) (l x : Nat) :
    x ∈ (g.addNodeLabel l).nodeLabels ↔ x ∈ g.nodeLabels ∨ x = l := by
  unfold Graph.addNodeLabel
  split
  · rename_i hc
    have hc' : l ∈ g.nodeLabels := by simpa using hc
    constructor
    · exact Or.inl
    · rintro (h | rfl)
      · exact h
      · exact hc'
  · simp

/-- the graph after inserting a fresh node -/
private def push (g : Graph) (n : Node) : Graph :=
  { (g.addNodeLabel n.label) with nodes := g.nodes ++ [n] }

private theorem push_inv (g : Graph) (n : Node) (h : Inv g) (hn : g.nodeById n.id = none) :
    Inv (push g n) := by
  have hid : n.id ∉ g.nodes.map (·.id) := find_id_none (fun x : Node => x.id) g.nodes n.id hn
  refine ⟨?_, ?_, ?_, ?_, ?_, ?_, ?_, ?_⟩
  · intro e he x hx
    simp only [push, anl_edges] at he
    simp only [push]
    exact List.mem_append_left _ (h.edgeNodes e he x hx)
  · intro x hx
    simp only [push, anl_ext] at hx
    simp only [push]
    exact List.mem_append_left _ (h.extNodes x hx)
  · simp only [push, List.map_append, List.map_cons, List.map_nil]
    rw [List.nodup_append]
    refine ⟨h.nodeIds, by simp, ?_⟩
    intro a ha b hb
    simp at hb
    subst hb
    intro hab
    exact hid (hab ▸ ha)
  · simpa only [push, anl_edges] using h.edgeIds
  · simpa only [push, anl_edgeLabels] using h.labelNames
  · simpa only [push, anl_edges, anl_edgeLabels] using h.edgeLabels
  · simpa only [push, anl_edges] using h.edgeTypes
  · intro x hx
    simp only [push, List.mem_append, List.mem_singleton] at hx
    simp only [push]
    rw [anl_mem]
    rcases hx with hx | rfl
    · exact Or.inl (h.nodeLabels x hx)
    · exact Or.inr rfl

/-! addMissing -/

private theorem addMissing_cons (g : Graph) (n : Node) (rest : List Node) :
    Graph.addMissing g (n :: rest) =
      if (g.nodeById n.id).isSome then Graph.addMissing g rest
      else Graph.addMissing (push g n) rest := rfl

private theorem am_edges (g : Graph) (ns : List Node) : (Graph.addMissing g ns).edges = g.edges := by
  induction ns generalizing g with
  | nil => rfl
  | cons n rest ih =>
    rw [addMissing_cons]; split
    · exact ih g
    · rw [ih]; simp [push, anl_edges]

private theorem am_ext (g : Graph) (ns : List Node) : (Graph.addMissing g ns).ext = g.ext := by
  induction ns generalizing g with
  | nil => rfl
  | cons n rest ih =>
    rw [addMissing_cons]; split
    · exact ih g
    · rw [ih]; simp [push, anl_ext]

private theorem am_edgeLabels (g : Graph) (ns : List Node) :
    (Graph.addMissing g ns).edgeLabels = g.edgeLabels := by
  induction ns generalizing g with
  | nil => rfl
  | cons n rest ih =>
    rw [addMissing_cons]; split
    · exact ih g
    · rw [ih]; simp [push, anl_edgeLabels]

private theorem am_mono (g : Graph) (ns : List Node) (x : Node) (hx : x ∈ g.nodes) :
    x ∈ (Graph.addMissing g ns).nodes := by
  induction ns generalizing g with
  | nil => exact hx
  | cons n rest ih =>
    rw [addMissing_cons]; split
    · exact ih g hx
    · apply ih
      simp only [push]
      exact List.mem_append_left _ hx

private theorem am_inv (g : Graph) (ns : List Node) (h : Inv g) : Inv (Graph.addMissing g ns) := by
  induction ns generalizing g with
  | nil => exact h
  | cons n rest ih =>
    rw [addMissing_cons]; split
    · exact ih g h
    · rename_i hs
      apply ih
      apply push_inv g n h
      simpa using hs

private theorem am_covers (g : Graph) (ns : List Node) (hc : Graph.consistent g.nodes ns = true) :
    ∀ x ∈ ns, x ∈ (Graph.addMissing g ns).nodes := by
  induction ns generalizing g with
  | nil => intro x hx; simp at hx
  | cons n rest ih =>
    intro x hx
    rw [addMissing_cons]
    unfold Graph.consistent at hc
    split at hc
    · rename_i old hf
      have hs : (g.nodeById n.id).isSome = true := by simp [Graph.nodeById, hf]
      rw [if_pos hs]
      simp only [Bool.and_eq_true, decide_eq_true_eq] at hc
      rcases List.mem_cons.1 hx with rfl | hx'
      · apply am_mono
        have := List.mem_of_find?_eq_some hf
        rwa [hc.1] at this
      · exact ih g hc.2 x hx'
    · rename_i hf
      have hs : ¬ (g.nodeById n.id).isSome = true := by simp [Graph.nodeById, hf]
      rw [if_neg hs]
      have hc' : Graph.consistent (push g n).nodes rest = true := by simpa [push] using hc
      rcases List.mem_cons.1 hx with rfl | hx'
      · apply am_mono
        simp [push]
      · exact ih (push g n) hc' x hx'

/-! adding an edge label / an edge -/

private theorem label_push_inv (g : Graph) (l : ELabel) (h : Inv g)
    (hl : l.name ∉ g.edgeLabels.map (·.name)) :
    Inv { g with edgeLabels := g.edgeLabels ++ [l] } := by
  refine ⟨h.edgeNodes, h.extNodes, h.nodeIds, h.edgeIds, ?_, ?_, h.edgeTypes, h.nodeLabels⟩
  · show ((g.edgeLabels ++ [l]).map (·.name)).Nodup
    simp only [List.map_append, List.map_cons, List.map_nil]
    rw [List.nodup_append]
    refine ⟨h.labelNames, by simp, ?_⟩
    intro a ha b hb
    simp at hb
    subst hb
    intro hab
    exact hl (hab ▸ ha)
  · intro e he
    exact List.mem_append_left _ (h.edgeLabels e he)

private theorem edge_push_inv (g : Graph) (e : Edge) (h : Inv g)
    (hcov : ∀ x ∈ e.nodes, x ∈ g.nodes) (heid : e.id ∉ g.edges.map (·.id))
    (hty : e.label.type = e.nodes.map (·.label)) (hlab : e.label ∈ g.edgeLabels) :
    Inv { g with edges := g.edges ++ [e] } := by
  refine ⟨?_, h.extNodes, h.nodeIds, ?_, h.labelNames, ?_, ?_, h.nodeLabels⟩
  · intro e' he' x hx
    rcases List.mem_append.1 he' with he' | he'
    · exact h.edgeNodes e' he' x hx
    · simp at he'; subst he'; exact hcov x hx
  · show ((g.edges ++ [e]).map (·.id)).Nodup
    simp only [List.map_append, List.map_cons, List.map_nil]
    rw [List.nodup_append]
    refine ⟨h.edgeIds, by simp, ?_⟩
    intro a ha b hb
    simp at hb
    subst hb
    intro hab
    exact heid (hab ▸ ha)
  · intro e' he'
    rcases List.mem_append.1 he' with he' | he'
    · exact h.edgeLabels e' he'
    · simp at he'; subst he'; exact hlab
  · intro e' he'
    rcases List.mem_append.1 he' with he' | he'
    · exact h.edgeTypes e' he'
    · simp at he'; subst he'; exact hty

private theorem empty_inv : graphInv ({} : Graph) = true := by decide

/-! the store -/

private theorem onGraph_inv (s : Store) (i : Nat) (f : Graph → Except Err Graph)
    (hf : ∀ gr g', graphInv gr = true → f gr = .ok g' → graphInv g' = true)
    (h : ∀ g ∈ s.graphs, graphInv g = true) :
    ∀ g ∈ (onGraph s i f).1.graphs, graphInv g = true := by
  unfold onGraph
  split
  · exact h
  · rename_i gr hgr
    split
    · rename_i gr' hok
      intro g hg
      simp only [setAt] at hg
      rcases List.mem_or_eq_of_mem_set hg with hg | rfl
      · exact h g hg
      · exact hf gr _ (h gr (List.mem_of_getElem? hgr)) hok
    · exact h

private theorem onHRG_graphs (s : Store) (i : Nat) (f : HRG → Except Err HRG) :
    (onHRG s i f).1.graphs = s.graphs := by
  unfold onHRG
  split
  · rfl
  · split <;> rfl

private theorem onGraph_err (s : Store) (i : Nat) (f : Graph → Except Err Graph) (e : Err)
    (h : (onGraph s i f).2 = some e) : (onGraph s i f).1 = s := by
  revert h
  unfold onGraph
  split
  · intro _; rfl
  · split
    · intro h; simp at h
    · intro _; rfl

private theorem onHRG_err (s : Store) (i : Nat) (f : HRG → Except Err HRG) (e : Err)
    (h : (onHRG s i f).2 = some e) : (onHRG s i f).1 = s := by
  revert h
  unfold onHRG
  split
  · intro _; rfl
  · split
    · intro h; simp at h
    · intro _; rfl

private theorem onGraph_other (s : Store) (i j : Nat) (f : Graph → Except Err Graph) (hij : i ≠ j) :
    (onGraph s i f).1.graphs[j]? = s.graphs[j]? := by
  unfold onGraph
  split
  · rfl
  · split
    · simp only [setAt]
      exact List.getElem?_set_ne hij
    · rfl

private theorem foldl_inv (ops : List Op) (s : Store)
    (hstep : ∀ (s : Store) (op : Op), (∀ g ∈ s.graphs, graphInv g = true) →
      ∀ g ∈ (step s op).1.graphs, graphInv g = true)
    (h : ∀ g ∈ s.graphs, graphInv g = true) :
    ∀ g ∈ (ops.foldl (fun s op => (step s op).1) s).graphs, graphInv g = true := by
  induction ops generalizing s with
  | nil => exact h
  | cons op rest ih =>
    rw [List.foldl_cons]
    exact ih _ (hstep s op h)

/-! ### the graph invariant is preserved by every mutator -/

theorem addNode_inv (g g' : Graph) (n : Node) (h : graphInv g = true) (hr : g.addNode n = .ok g') :
    graphInv g' = true := by
  rw [inv_iff] at h ⊢
  unfold Graph.addNode at hr
  split at hr
  · cases hr
  · rename_i hs
    injection hr with hr
    subst hr
    exact push_inv g n h (by simpa using hs)

theorem removeNode_inv (g g' : Graph) (n : Node) (h : graphInv g = true) (hr : g.removeNode n = .ok g') :
    graphInv g' = true := by
  rw [inv_iff] at h ⊢
  unfold Graph.removeNode at hr
  split at hr
  · cases hr
  split at hr
  · cases hr
  split at hr
  · cases hr
  rename_i h1 h2 h3
  injection hr with hr
  subst hr
  have hfind : g.nodeById n.id = some n := by simpa using h1
  have hn : n ∈ g.nodes := List.mem_of_find?_eq_some hfind
  have key : ∀ x ∈ g.nodes, x ≠ n → x.id ≠ n.id := fun x hx hne he =>
    hne (eq_of_nodup_map (fun x : Node => x.id) g.nodes h.nodeIds hx hn he)
  refine ⟨?_, ?_, ?_, h.edgeIds, h.labelNames, h.edgeLabels, h.edgeTypes, ?_⟩
  · intro e he x hx
    have hxg := h.edgeNodes e he x hx
    have hne : x ≠ n := by
      rintro rfl
      apply h2
      simp only [List.any_eq_true, List.contains_iff_mem]
      exact ⟨e, he, hx⟩
    simp only [List.mem_filter, decide_eq_true_eq]
    exact ⟨hxg, key x hxg hne⟩
  · intro x hx
    have hxg := h.extNodes x hx
    have hne : x ≠ n := by
      rintro rfl
      apply h3
      simpa using hx
    simp only [List.mem_filter, decide_eq_true_eq]
    exact ⟨hxg, key x hxg hne⟩
  · exact h.nodeIds.sublist (List.filter_sublist.map _)
  · intro x hx
    exact h.nodeLabels x (List.mem_filter.1 hx).1

theorem addEdge_inv (g g' : Graph) (e : Edge) (h : graphInv g = true)
    (hty : e.label.type = e.nodes.map (·.label)) (hr : g.addEdge e = .ok g') :
    graphInv g' = true := by
  rw [inv_iff] at h ⊢
  unfold Graph.addEdge at hr
  split at hr
  · cases hr
  split at hr
  · cases hr
  rename_i h1 h2
  have hc : Graph.consistent g.nodes e.nodes = true := by simpa using h2
  have hnone : g.edges.find? (fun x => decide (x.id = e.id)) = none := by
    simpa [Graph.edgeById] using h1
  have heid : e.id ∉ (Graph.addMissing g e.nodes).edges.map (·.id) := by
    rw [am_edges]
    exact find_id_none (fun x : Edge => x.id) g.edges e.id hnone
  have hI := am_inv g e.nodes h
  have hcov := am_covers g e.nodes hc
  split at hr
  · rename_i old hf
    split at hr
    · rename_i hold
      injection hr with hr
      subst hr
      have hlab : e.label ∈ (Graph.addMissing g e.nodes).edgeLabels := by
        rw [am_edgeLabels, ← hold]
        exact List.mem_of_find?_eq_some hf
      exact edge_push_inv _ e hI hcov heid hty hlab
    · cases hr
  · rename_i hf
    injection hr with hr
    subst hr
    have hl : e.label.name ∉ (Graph.addMissing g e.nodes).edgeLabels.map (·.name) := by
      rw [am_edgeLabels]
      exact find_id_none (fun x : ELabel => x.name) g.edgeLabels e.label.name hf
    have hI' := label_push_inv _ e.label hI hl
    exact edge_push_inv _ e hI' hcov heid hty (by simp)

theorem removeEdge_inv (g g' : Graph) (e : Edge) (h : graphInv g = true) (hr : g.removeEdge e = .ok g') :
    graphInv g' = true := by
  rw [inv_iff] at h ⊢
  unfold Graph.removeEdge at hr
  split at hr
  · cases hr
  injection hr with hr
  subst hr
  refine ⟨?_, h.extNodes, h.nodeIds, ?_, h.labelNames, ?_, ?_, h.nodeLabels⟩
  · intro e' he'
    exact h.edgeNodes e' (List.mem_filter.1 he').1
  · exact h.edgeIds.sublist (List.filter_sublist.map _)
  · intro e' he'
    exact h.edgeLabels e' (List.mem_filter.1 he').1
  · intro e' he'
    exact h.edgeTypes e' (List.mem_filter.1 he').1

theorem setExt_inv (g g' : Graph) (ns : List Node) (h : graphInv g = true) (hr : g.setExt ns = .ok g') :
    graphInv g' = true := by
  rw [inv_iff] at h ⊢
  unfold Graph.setExt at hr
  split at hr
  · cases hr
  rename_i h2
  have hc : Graph.consistent g.nodes ns = true := by simpa using h2
  injection hr with hr
  subst hr
  have hI := am_inv g ns h
  exact ⟨hI.edgeNodes, am_covers g ns hc, hI.nodeIds, hI.edgeIds, hI.labelNames, hI.edgeLabels,
    hI.edgeTypes, hI.nodeLabels⟩

/-- one API call keeps every live graph well formed -/
theorem step_preserves_graphInv (s : Store) (op : Op) (h : ∀ g ∈ s.graphs, graphInv g = true) :
    ∀ g ∈ (step s op).1.graphs, graphInv g = true := by
  cases op with
  | newGraph =>
    intro g hg
    simp only [step, List.mem_append, List.mem_singleton] at hg
    rcases hg with hg | rfl
    · exact h g hg
    · exact empty_inv
  | addNode i n => exact onGraph_inv s i _ (fun gr g' hi hr => addNode_inv gr g' n hi hr) h
  | removeNode i n => exact onGraph_inv s i _ (fun gr g' hi hr => removeNode_inv gr g' n hi hr) h
  | addEdge i l ns id =>
    refine onGraph_inv s i _ (fun gr g' hi hr => ?_) h
    simp only [mkEdge] at hr
    split at hr
    · rename_i hty
      exact addEdge_inv gr g' ⟨l, ns, id⟩ hi hty hr
    · cases hr
  | removeEdge i l ns id =>
    refine onGraph_inv s i _ (fun gr g' hi hr => ?_) h
    simp only [mkEdge] at hr
    split at hr
    · exact removeEdge_inv gr g' ⟨l, ns, id⟩ hi hr
    · cases hr
  | setExt i ns => exact onGraph_inv s i _ (fun gr g' hi hr => setExt_inv gr g' ns hi hr) h
  | copyGraph i =>
    simp only [step]
    split
    · exact h
    · rename_i gr hgr
      intro g hg
      simp only [List.mem_append, List.mem_singleton] at hg
      rcases hg with hg | rfl
      · exact h g hg
      · exact h g (List.mem_of_getElem? hgr)
  | newHRG start =>
    simp only [step]
    split
    · exact h
    · split
      · exact h
      · exact h
  | setStart i st => simp only [step, onHRG_graphs]; exact h
  | setStartName i name => simp only [step, onHRG_graphs]; exact h
  | addRule i lhs k =>
    simp only [step]
    split
    · exact h
    · simp only [onHRG_graphs]; exact h
  | newRule i name k =>
    simp only [step]
    split
    · exact h
    · simp only [onHRG_graphs]; exact h
  | addNodeLabel i l => simp only [step, onHRG_graphs]; exact h
  | addEdgeLabel i el => simp only [step, onHRG_graphs]; exact h
  | copyHRG i =>
    simp only [step]
    split
    · exact h
    · intro g hg
      simp only [List.mem_append, List.mem_map] at hg
      rcases hg with hg | ⟨r, _, rfl⟩
      · exact h g hg
      · cases hr : s.graphs[r.rhs]? with
        | none => simpa using empty_inv
        | some gr => simpa using h gr (List.mem_of_getElem? hr)

/-- **after any sequence of calls, successful or not, every live graph is well formed** -/
theorem run_graphInv (ops : List Op) : ∀ g ∈ (run ops).graphs, graphInv g = true := by
  unfold run
  apply foldl_inv ops {} step_preserves_graphInv
  intro g hg
  simp at hg

/-- **a call that raises leaves every object unchanged** -/
theorem step_error_unchanged (s : Store) (op : Op) (e : Err) (h : (step s op).2 = some e) :
    (step s op).1 = s := by
  cases op with
  | newGraph => simp [step] at h
  | addNode i n => exact onGraph_err s i _ e h
  | removeNode i n => exact onGraph_err s i _ e h
  | addEdge i l ns id => exact onGraph_err s i _ e h
  | removeEdge i l ns id => exact onGraph_err s i _ e h
  | setExt i ns => exact onGraph_err s i _ e h
  | copyGraph i =>
    simp only [step] at h ⊢
    split
    · rfl
    · rename_i h1; simp [h1] at h
  | newHRG start =>
    simp only [step] at h ⊢
    split
    · simp at h
    · split
      · rename_i h1; simp [h1] at h
      · rfl
  | setStart i st => exact onHRG_err s i _ e h
  | setStartName i name => exact onHRG_err s i _ e h
  | addRule i lhs k =>
    simp only [step] at h ⊢
    split
    · rfl
    · rename_i h1
      simp only [h1] at h
      exact onHRG_err s i _ e h
  | newRule i name k =>
    simp only [step] at h ⊢
    split
    · rfl
    · rename_i h1
      simp only [h1] at h
      exact onHRG_err s i _ e h
  | addNodeLabel i l => exact onHRG_err s i _ e h
  | addEdgeLabel i el => exact onHRG_err s i _ e h
  | copyHRG i =>
    simp only [step] at h ⊢
    split
    · rfl
    · rename_i h1; simp [h1] at h

/-- the graph handle a call mutates, if any -/
def target : Op → Option Nat
  | .addNode i _ | .removeNode i _ | .addEdge i _ _ _ | .removeEdge i _ _ _ | .setExt i _ => some i
  | _ => none

/-- a call on graph `i` does not touch any other live graph: copies are independent of their
originals, and grammar operations never modify a graph -/
theorem step_other_graph_unchanged (s : Store) (op : Op) (j : Nat) (hj : j < s.graphs.length)
    (hop : target op ≠ some j) : (step s op).1.graphs[j]? = s.graphs[j]? := by
  cases op with
  | newGraph => simp only [step]; exact List.getElem?_append_left hj
  | addNode i n => exact onGraph_other s i j _ (fun he => hop (by simp [target, he]))
  | removeNode i n => exact onGraph_other s i j _ (fun he => hop (by simp [target, he]))
  | addEdge i l ns id => exact onGraph_other s i j _ (fun he => hop (by simp [target, he]))
  | removeEdge i l ns id => exact onGraph_other s i j _ (fun he => hop (by simp [target, he]))
  | setExt i ns => exact onGraph_other s i j _ (fun he => hop (by simp [target, he]))
  | copyGraph i =>
    simp only [step]
    split
    · rfl
    · exact List.getElem?_append_left hj
  | newHRG start =>
    simp only [step]
    split
    · rfl
    · split <;> rfl
  | setStart i st => simp only [step, onHRG_graphs]
  | setStartName i name => simp only [step, onHRG_graphs]
  | addRule i lhs k =>
    simp only [step]
    split
    · rfl
    · simp only [onHRG_graphs]
  | newRule i name k =>
    simp only [step]
    split
    · rfl
    · simp only [onHRG_graphs]
  | addNodeLabel i l => simp only [step, onHRG_graphs]
  | addEdgeLabel i el => simp only [step, onHRG_graphs]
  | copyHRG i =>
    simp only [step]
    split
    · rfl
    · exact List.getElem?_append_left hj

/-- `copy()` yields an equal graph: `==` is reflexive on well-formed graphs -/
theorem eq_refl (g : Graph) (h : graphInv g = true) : g.eq g = true := by
  rw [inv_iff] at h
  simp only [Graph.eq, Graph.sameNodes, Graph.sameEdges, Bool.and_eq_true, beq_self_eq_true,
    List.all_eq_true, beq_iff_eq, decide_eq_true_eq, true_and, and_true]
  exact ⟨fun n hn => find_of_nodup (fun x : Node => x.id) g.nodes n h.nodeIds hn,
    fun e he => find_of_nodup (fun x : Edge => x.id) g.edges e h.edgeIds he⟩

/-- D13d (known finding, open): rules alias mutable right-hand-side graphs, so the clause "every
rule's left-hand side has the type of its right-hand side" does not survive mutation of a graph
after `new_rule`: g = Graph(); h = HRG('X'); h.new_rule('Y', g); g.ext = [Node(A,'u')]. -/
theorem ruleTyping_broken_by_aliasing :
    let ops := [Op.newGraph, Op.newHRG (some ⟨1, [], false⟩), Op.newRule 0 5 0, Op.setExt 0 [⟨0, .expl 0⟩]]
    (ops.map (fun op => (step (run (ops.takeWhile (fun _ => false))) op).2)).length = 4 ∧
    (run ops).hrgs.all (ruleTyping (run ops)) = false ∧
    (run (ops.take 3)).hrgs.all (ruleTyping (run (ops.take 3))) = true := by
  decide

end C16
