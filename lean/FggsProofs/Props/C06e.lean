/-
C06e — `reshape` / `view` of a patterned tensor (model `Rs.reshape` of FggsModel/Reshape.lean): whenever it returns
a tensor — and no fuel was exhausted on the way (`Resolved`) — that tensor is well formed, has the requested shape and
denotes the SAME flat data as the operand (torch's reshape of the dense tensor), `reshape_dense`; and it always returns
a tensor — never RuntimeError — when the target shape merges adjacent dimensions of the operand's shape or inserts /
removes dimensions of size 1 (given enough fuel for the unification), `reshape_merge_succeeds`.

The statement of `reshape_dense` as first posed (for EVERY fuel) is false: `reshape_dense_statement`,
`reshape_dense_counterexample` (an artefact of the fuel of the model: a `lookup` cut short returns a bound axis, which
`unify` binds a second time).  Proofs: FggsProofs/C06e{Reach,Sem,Main,Fast,Merge}Lemmas.lean.
-/
import FggsModel.Reshape
import FggsProofs.Props.C06
import FggsProofs.Props.C06b
import FggsProofs.Props.C06d
import FggsProofs.Props.C13
import FggsProofs.C06bLemmas
import FggsProofs.C06dBaseLemmas
import FggsProofs.C06dSideLemmas
import FggsProofs.C06eMainLemmas
import FggsProofs.C06eFastLemmas
import FggsProofs.C06eMergeLemmas
import Mathlib.Tactic.Linarith
import Mathlib.Data.List.Basic

set_option linter.unusedSimpArgs false
set_option linter.unusedVariables false

namespace C06e
open Fggs Fggs.Ax Fggs.Un Fggs.Rs

/-- the operand as the library holds it -/
structure OperandOK (t : PT) (next : Nat) : Prop where
  wf : t.wf = true
  fresh : ∀ p ∈ t.paxes, p.1 < next
  pos : ∀ p ∈ t.paxes, 0 < p.2

/-- the statement as first posed: every successful `reshape`, for EVERY amount of fuel, is well formed, has the
requested shape and denotes the same flat data.  It is FALSE (`reshape_dense_counterexample`): when the unification
runs short of fuel in the middle of a forwarding chain, `lookup` returns a physical axis that is already bound,
`unify` binds it a second time (the newer binding shadows the older one) and may still answer `True`; the result then
mentions a physical axis that is not among its physical axes. -/
def reshape_dense_statement : Prop :=
  ∀ (fuel : Nat) (t : PT) (s : List Nat) (next : Nat), OperandOK t next → ∀ r : PT,
    reshape fuel t s next = .ok r → r.wf = true ∧ r.vshape = s ∧ r.dense = t.dense

/-- the five-fold diagonal of an axis of size 4 … -/
private def cexT : PT :=
  { physical := [.pinf, .pinf, .pinf, .pinf], paxes := [(0, 4)], vaxes := List.replicate 5 (.phys 0 4), default := .pinf }

/-- … reshaped to `2 × … × 2` (ten times) with fuel 15 (fuel 16 suffices): the identity 13 is bound twice, and the
result mentions the physical axis 14, which is not one of its physical axes -/
private def cexR : PT :=
  { physical := [.pinf, .pinf, .pinf, .pinf], paxes := [(15, 2), (2, 2)],
    vaxes := [.phys 15 2, .phys 2 2, .phys 14 2, .phys 2 2, .phys 15 2, .phys 2 2, .phys 15 2, .phys 2 2, .phys 15 2,
      .phys 2 2], default := .pinf }

theorem reshape_dense_counterexample : ¬ reshape_dense_statement := by
  intro h
  have hok : OperandOK cexT 1 := ⟨by decide, by simp [cexT], by simp [cexT]⟩
  have hr : reshape 15 cexT (List.replicate 10 2) 1 = .ok cexR := by rfl
  have := (h 15 cexT (List.replicate 10 2) 1 hok cexR hr).1
  have hf : cexR.wf = false := by decide
  rw [hf] at this
  cases this

/-- the fresh axes that `reshape` creates for the target sizes (the unit axis for a size of 1) -/
def freshAxes (s : List Nat) (next : Nat) : List Axis :=
  s.zipIdx.map (fun (n, i) => if n == 1 then unitAxis else Axis.phys (next + i) n)

/-- ADDED HYPOTHESIS of `reshape_dense`: neither the fuel of the unification nor the constant `FUEL` of `clone` /
`primeFactors` was exhausted.  If the unification inside `reshape` succeeds, then
* no identity is bound twice in its substitution (a `lookup` cut short by the fuel is the only way to bind a bound
  axis again; with enough fuel `unify` only binds unbound axes) — this is what fails in
  `reshape_dense_counterexample`;
* every prime factor of the operand's physical axes is an unbound physical axis (`primeFactors … FUEL` followed the
  substitution to its end, and did not end in a sum axis — the latter never happened in any run of the model that was
  tried, but it is not proved here), and
* no bound physical axis remains in the clones of the fresh axes (`clone … FUEL` followed the substitution to its
  end).
All three are decidable properties of the run; `FUEL` = 4000 is a constant of the model, so for operands whose
substitution is nested deeper than that the last two cannot be derived from the amount of fuel given to `unify`.
`resolved_example` shows how the hypothesis is discharged for a concrete operand. -/
def Resolved (fuel : Nat) (t : PT) (s : List Nat) (next : Nat) : Prop :=
  ∀ st, unify fuel (productAxis (freshAxes s next)) (productAxis t.vaxes) ⟨[], next + s.length⟩ = (true, st) →
    (st.subst.map (·.1)).Nodup ∧
    (∀ k ∈ t.paxes, ∀ e ∈ primeFactors st.subst FUEL (.phys k.1 k.2), ∃ v n, e = .phys v n ∧ bound st.subst v = none) ∧
    (∀ a ∈ freshAxes s next, ∀ q ∈ (clone st.subst FUEL a).fv, bound st.subst q.1 = none)

/-- **a successful reshape denotes the same flat data in the requested shape** (corrected: with the hypothesis
`Resolved` that no fuel was exhausted, see `reshape_dense_statement` / `reshape_dense_counterexample`) -/
theorem reshape_dense (fuel : Nat) (t : PT) (s : List Nat) (next : Nat) (h : OperandOK t next)
    (hres : Resolved fuel t s next) (r : PT)
    (hr : reshape fuel t s next = .ok r) :
    r.wf = true ∧ r.vshape = s ∧ r.dense = t.dense := by
  unfold reshape at hr
  simp only [] at hr
  split at hr
  · next hc =>
    split at hr
    · cases hr
    · next hn =>
      simp only [Bool.and_eq_true, beq_iff_eq, decide_eq_true_eq] at hc
      simp only [bne_iff_ne, ne_eq, Decidable.not_not] at hn
      obtain ⟨hN, hv, hd⟩ := C06eL.fast_path t s next h.wf h.pos hc.1 hc.2 hn
      obtain ⟨w1, w2, w3⟩ := C06dL.normalize_spec hN
      have hr' : Bn.normalize (C06eL.fastRaw t s next) = r := by
        have : Outcome.ok (Bn.normalize (C06eL.fastRaw t s next)) = Outcome.ok r := hr
        cases this; rfl
      rw [← hr']
      exact ⟨w1, w2.trans hv, w3.trans hd⟩
  · split at hr
    · cases hr
    · next hn =>
      simp only [bne_iff_ne, ne_eq, Decidable.not_not] at hn
      split at hr
      · cases hr
      · next st hu =>
        have hu' : unify fuel (productAxis (freshAxes s next)) (productAxis t.vaxes) ⟨[], next + s.length⟩ = (true, st) := hu
        obtain ⟨r0, r1, r2⟩ := hres st hu'
        have hctx : C06eL.Ctx t s next st :=
          ⟨h.wf, h.fresh, h.pos, hn, C06b.run_of_unify hu', r0, r1, r2⟩
        obtain ⟨sz', hag, hsz⟩ := hctx.sized
        have h2 : C06eL.Ctx2 t s next st sz' := ⟨hctx, hag, hsz⟩
        obtain ⟨w1, w2, w3⟩ := C06dL.normalize_spec h2.raw_normOK
        have hr' : Bn.normalize (C06eL.rawOf st.subst t s next) = r := by
          have : Outcome.ok (Bn.normalize (C06eL.rawOf st.subst t s next)) = Outcome.ok r := hr
          cases this; rfl
        rw [← hr']
        exact ⟨w1, w2.trans h2.raw_vshape, w3.trans h2.raw_dense⟩

/-- a dense 2 × 6 tensor … -/
private def exT : PT :=
  { physical := (List.range 12).map (fun i => Ext.fin i), paxes := [(0, 2), (1, 6)], vaxes := [.phys 0 2, .phys 1 6],
    default := .fin 0 }

/-- … viewed as 4 × 3: the axis of size 6 is split (`1 ↦ k₄ × k₃`), the fresh axis of size 4 is `k₅ × k₄` with
`k₅ ↦ 0`; the hypothesis `Resolved` holds (fuel 50) -/
theorem resolved_example : Resolved 50 exT [4, 3] 2 := by
  intro st h
  have h0 : unify 50 (productAxis (freshAxes [4, 3] 2)) (productAxis exT.vaxes) ⟨[], 2 + [4, 3].length⟩ =
      (true, ⟨[(5, .phys 0 2), (2, .prod [.phys 5 2, .phys 4 2]), (1, .prod [.phys 4 2, .phys 3 3])], 6⟩) := by rfl
  rw [h0] at h
  cases h
  refine ⟨by decide, ?_, by decide⟩
  intro k hk e he
  simp only [exT, List.mem_cons, List.not_mem_nil, or_false] at hk
  rcases hk with rfl | rfl
  · have : primeFactors [(5, Axis.phys 0 2), (2, .prod [.phys 5 2, .phys 4 2]), (1, .prod [.phys 4 2, .phys 3 3])]
        FUEL (.phys 0 2) = [.phys 0 2] := by rfl
    simp only [] at he
    rw [this] at he
    simp only [List.mem_singleton] at he
    subst he
    exact ⟨0, 2, rfl, by decide⟩
  · have : primeFactors [(5, Axis.phys 0 2), (2, .prod [.phys 5 2, .phys 4 2]), (1, .prod [.phys 4 2, .phys 3 3])]
        FUEL (.phys 1 6) = [.phys 4 2, .phys 3 3] := by rfl
    simp only [] at he
    rw [this] at he
    simp only [List.mem_cons, List.not_mem_nil, or_false] at he
    rcases he with rfl | rfl
    · exact ⟨4, 2, rfl, by decide⟩
    · exact ⟨3, 3, rfl, by decide⟩

/-- `reshape_dense` applied to this instance -/
example (r : PT) (hr : reshape 50 exT [4, 3] 2 = .ok r) : r.wf = true ∧ r.vshape = [4, 3] ∧ r.dense = exT.dense :=
  reshape_dense 50 exT [4, 3] 2 ⟨by decide, by simp [exT], by simp [exT]⟩ resolved_example r hr

/-- `s` arises from `a` by merging runs of adjacent dimensions and inserting / removing dimensions of size 1 -/
inductive Merge : List Nat → List Nat → Prop
  | nil : Merge [] []
  | dropOne {a b : List Nat} (h : Merge a b) : Merge (1 :: a) b
  | addOne {a b : List Nat} (h : Merge a b) : Merge a (1 :: b)
  | group {a b : List Nat} (g : List Nat) (hg : g ≠ []) (h : Merge a b) : Merge (g ++ a) (Ax.numel g :: b)

/-- merging the first two and the last two of five dimensions, dropping the dimension of size 1 in the middle and
inserting one at the end -/
example : Merge [2, 3, 1, 4, 5] [6, 20, 1] :=
  .group [2, 3] (by simp) (.dropOne (.group [4, 5] (by simp) (.addOne .nil)))

private theorem merge_numel {a b : List Nat} (h : Merge a b) : Ax.numel a = Ax.numel b := by
  induction h with
  | nil => rfl
  | dropOne h ih => rw [C06dL.numel_cons, ih]; simp
  | addOne h ih => rw [C06dL.numel_cons, ih]; simp
  | group g hg h ih => rw [C06dL.numel_append, C06dL.numel_cons, ih]

private theorem merge_decomp {a b : List Nat} (h : Merge a b) :
    ∀ vs : List Axis, vs.map Axis.numel = a → C06eL.Decomp vs b := by
  induction h with
  | nil =>
    intro vs hvs
    have : vs = [] := by simpa using hvs
    subst this
    exact ⟨[], [], rfl, rfl, fun x hx => by simp at hx⟩
  | @dropOne a b h ih =>
    intro vs hvs
    rcases vs with _ | ⟨v, vs⟩
    · simp at hvs
    · rw [List.map_cons, List.cons.injEq] at hvs
      obtain ⟨vgs, vtl, e1, e2, e3⟩ := ih vs hvs.2
      rcases vgs with _ | ⟨g, vgs⟩
      · refine ⟨[], v :: vtl, ?_, e2, ?_⟩
        · rw [e1]; rfl
        · intro x hx
          rcases List.mem_cons.1 hx with rfl | hx
          · exact hvs.1
          · exact e3 x hx
      · refine ⟨(v :: g) :: vgs, vtl, ?_, ?_, e3⟩
        · rw [e1]; simp
        · rw [e2]; simp [numelList, hvs.1]
  | @addOne a b h ih =>
    intro vs hvs
    obtain ⟨vgs, vtl, e1, e2, e3⟩ := ih vs hvs
    exact ⟨[] :: vgs, vtl, by rw [e1]; simp, by rw [e2]; simp [numelList], e3⟩
  | @group a b g hg h ih =>
    intro vs hvs
    obtain ⟨vs1, vs2, rfl, h1, h2⟩ := List.map_eq_append_iff.1 hvs
    obtain ⟨vgs, vtl, e1, e2, e3⟩ := ih vs2 h2
    refine ⟨vs1 :: vgs, vtl, by rw [e1]; simp, ?_, e3⟩
    rw [e2, List.map_cons, ← C06eL.numel_map_numel, h1]

/-- **merging adjacent dimensions and inserting or removing size-1 dimensions is never refused**: for every such target
shape there is an amount of fuel from which on `reshape` returns a tensor -/
theorem reshape_merge_succeeds (t : PT) (s : List Nat) (next : Nat) (h : OperandOK t next) (hm : Merge t.vshape s) :
    ∃ fuel0, ∀ fuel, fuel0 ≤ fuel → ∃ r, reshape fuel t s next = .ok r := by
  have hst := (C06dL.wf_iff_struct t).1 h.wf
  have hnum : Ax.numel s = Ax.numel t.vshape := (merge_numel hm).symm
  have hfvpos : ∀ v ∈ t.vaxes, ∀ q ∈ v.fv, 0 < q.2 := fun v hv q hq => h.pos q (hst.fvsub v hv q hq)
  have hvpos : 0 < Ax.numel t.vshape := by
    unfold PT.vshape
    rw [C06eL.numel_map_numel]
    apply C06b.numelList_pos_aux
    intro q hq
    obtain ⟨f, hf, hqf⟩ := C06b.mem_fvList.1 hq
    exact hfvpos f hf q hqf
  have hs : ∀ n ∈ s, 0 < n := C06eL.numel_pos_mem s (by rw [hnum]; exact hvpos)
  have hold : ∀ v ∈ t.vaxes, C06eL.OldTerm next v := by
    intro v hv q hq
    have hp := hst.fvsub v hv q hq
    have h1 := h.pos q hp
    have h2 := hst.no1 q hp
    exact ⟨h.fresh q hp, by omega⟩
  have hw := C06eL.decomp_wk (merge_decomp hm t.vaxes rfl) hfvpos
  refine ⟨C06eL.needList (C06b.flat1 t.vaxes) + 4, fun fuel hf => ?_⟩
  obtain ⟨st', hu⟩ := C06eL.unify_merge_ok s next t.vaxes hs hold hw fuel hf
  unfold reshape
  simp only []
  split
  · next hc =>
    simp only [Bool.and_eq_true, beq_iff_eq, decide_eq_true_eq] at hc
    have : (Ax.numel s != t.physical.length) = false := by simp [hnum, hc.1]
    rw [this]
    exact ⟨_, rfl⟩
  · have : (Ax.numel s != Ax.numel t.vshape) = false := by simp [hnum]
    rw [this]
    simp only [Bool.false_eq_true, if_false]
    have hu' : unify fuel (productAxis (s.zipIdx.map (fun (n, i) => if n == 1 then unitAxis else Axis.phys (next + i) n)))
        (productAxis t.vaxes) ⟨[], next + s.length⟩ = (true, st') := hu
    rw [hu']
    exact ⟨_, rfl⟩

end C06e
