/-
C15b — hyperedge replacement is ORDER-INDEPENDENT: replacing two different edges of a graph in either order gives
the same graph, up to a renaming of the fresh (implicit) node and edge identities and up to the order in which the
Python dicts hold their entries (`==` on graphs is insensitive to it); and if one order succeeds so does the other.
This is the step from which "any linearisation of a derivation tree yields the same derived graph" follows by
induction on the number of swaps.
-/
import FggsModel.Replace
import FggsProofs.Props.C15
import FggsProofs.Props.C16
import FggsProofs.C15bLemmas
import Mathlib.Tactic.Linarith
import Mathlib.Data.List.Basic
import Mathlib.Data.List.Perm.Basic

set_option linter.unusedSimpArgs false
set_option linter.unusedVariables false

namespace C15
open Fggs Fggs.G

/-- renaming of implicit identities -/
def renId (σ : Nat → Nat) : Id → Id
  | .expl s => .expl s
  | .impl n => .impl (σ n)
def renNode (σ : Nat → Nat) (n : Node) : Node := ⟨n.label, renId σ n.id⟩
def renEdge (σ : Nat → Nat) (e : Edge) : Edge := ⟨e.label, e.nodes.map (renNode σ), renId σ e.id⟩

/-- equality of graphs as Python's `==` sees it after the renaming `σ` (dict order is irrelevant; the external
nodes are an ordered tuple; the label tables are compared as sets) -/
def EquivUpTo (σ : Nat → Nat) (a b : Graph) : Prop :=
  (a.nodes.map (renNode σ)).Perm b.nodes ∧ (a.edges.map (renEdge σ)).Perm b.edges ∧
  a.ext.map (renNode σ) = b.ext ∧ a.nodeLabels.Perm b.nodeLabels ∧ a.edgeLabels.Perm b.edgeLabels

/-- every implicit identity of the graph is below `fresh` -/
def FreshFor (fresh : Nat) (g : Graph) : Prop :=
  (∀ n ∈ g.nodes, ∀ k, n.id = .impl k → k < fresh) ∧ (∀ x ∈ g.edges, ∀ k, x.id = .impl k → k < fresh)


/-! ### helper lemmas (private) -/

private theorem renNode_label (σ : Nat → Nat) (n : Node) : (renNode σ n).label = n.label := rfl

private theorem renNode_fix (σ : Nat → Nat) (fresh : Nat) (hσ : ∀ k, k < fresh → σ k = k) (n : Node)
    (h : ∀ k, n.id = .impl k → k < fresh) : renNode σ n = n := by
  obtain ⟨l, i⟩ := n
  cases i with
  | expl s => rfl
  | impl k =>
    simp only [renNode, renId]
    rw [hσ k (h k rfl)]

private theorem map_fix {α} (f : α → α) (l : List α) (h : ∀ x ∈ l, f x = x) : l.map f = l := by
  induction l with
  | nil => rfl
  | cons x xs ih =>
    rw [List.map_cons, h x List.mem_cons_self, ih (fun y hy => h y (List.mem_cons_of_mem _ hy))]

private theorem renEdge_fix (σ : Nat → Nat) (fresh : Nat) (hσ : ∀ k, k < fresh → σ k = k) (e : Edge)
    (hn : ∀ n ∈ e.nodes, renNode σ n = n) (h : ∀ k, e.id = .impl k → k < fresh) : renEdge σ e = e := by
  obtain ⟨l, ns, i⟩ := e
  simp only [renEdge]
  rw [map_fix _ ns hn]
  cases i with
  | expl s => rfl
  | impl k =>
    simp only [renId]
    rw [hσ k (h k rfl)]

/-- the B-side node map is the A-side node map, renamed -/
private def MapRel (σ : Nat → Nat) (mA mB : NodeMap) : Prop :=
  ∀ r, mB.get r = (mA.get r).map (renNode σ)

private theorem mapRel_append (σ : Nat → Nat) (mA mB : NodeMap) (h : MapRel σ mA mB) (r gnA : Node) :
    MapRel σ (mA ++ [(r, gnA)]) (mB ++ [(r, renNode σ gnA)]) := by
  intro r'
  rw [get_append, get_append, h r']
  cases mA.get r' with
  | some x => simp
  | none => by_cases hr : r = r' <;> simp [hr]

private theorem mapRel_of_fix (σ : Nat → Nat) (m : NodeMap)
    (h : ∀ r x, m.get r = some x → renNode σ x = x) : MapRel σ m m := by
  intro r
  cases hg : m.get r with
  | none => rfl
  | some x => simp [h r x hg]

private theorem mapRel_values (σ : Nat → Nat) (mA mB : NodeMap) (hm : MapRel σ mA mB) (r x : Node)
    (h : mB.get r = some x) : ∃ y, mA.get r = some y ∧ x = renNode σ y := by
  rw [hm r] at h
  cases hg : mA.get r with
  | none => simp [hg] at h
  | some y =>
    simp only [hg, Option.map_some, Option.some.injEq] at h
    exact ⟨y, rfl, h.symm⟩

private theorem map_get_rel (σ : Nat → Nat) (mA mB : NodeMap) (hm : MapRel σ mA mB) (ns xs : List Node)
    (h : ns.map (fun n => mA.get n) = xs.map some) :
    ns.map (fun n => mB.get n) = (xs.map (renNode σ)).map some := by
  induction ns generalizing xs with
  | nil =>
    cases xs with
    | nil => rfl
    | cons x xs => simp at h
  | cons n ns ih =>
    cases xs with
    | nil => simp at h
    | cons x xs =>
      simp only [List.map_cons, List.cons.injEq] at h ⊢
      exact ⟨by rw [hm n, h.1]; rfl, ih xs h.2⟩

/-- copying the nodes of a replacement from two related states: the B-run succeeds whenever the A-run does
(its counter lies above the implicit node ids of its graph) and yields the renamed nodes -/
private theorem copyNodes_rel (σ : Nat → Nat) (ns : List Node) :
    ∀ (gA : Graph) (mA : NodeMap) (fA : Nat) (gA' : Graph) (mA' : NodeMap) (fA' : Nat)
      (gB : Graph) (mB : NodeMap) (fB : Nat),
    copyNodes gA mA fA ns = .ok (gA', mA', fA') →
    MapRel σ mA mB →
    (∀ k, fA ≤ k → k < fA' → σ k + fA = k + fB) →
    (∀ n ∈ gB.nodes, ∀ k, n.id = .impl k → k < fB) →
    ∃ gB' mB' fB' new,
      copyNodes gB mB fB ns = .ok (gB', mB', fB') ∧ fB' + fA = fA' + fB ∧ MapRel σ mA' mB' ∧
      gA'.nodes = gA.nodes ++ new ∧ gB'.nodes = gB.nodes ++ new.map (renNode σ) ∧
      (∀ n ∈ new, ∃ k, fA ≤ k ∧ k < fA' ∧ n.id = .impl k) ∧
      (∀ r x, mA'.get r = some x → mA.get r = some x ∨ x ∈ new) ∧
      gA'.edges = gA.edges ∧ gB'.edges = gB.edges ∧ gA'.ext = gA.ext ∧ gB'.ext = gB.ext ∧
      gA'.edgeLabels = gA.edgeLabels ∧ gB'.edgeLabels = gB.edgeLabels ∧
      gA'.nodeLabels = extNL gA.nodeLabels (new.map (·.label)) ∧
      gB'.nodeLabels = extNL gB.nodeLabels (new.map (·.label)) := by
  induction ns with
  | nil =>
    intro gA mA fA gA' mA' fA' gB mB fB h hm hσ hfr
    simp only [copyNodes] at h
    injection h with h
    injection h with h1 h2
    injection h2 with h2 h3
    subst h1; subst h2; subst h3
    exact ⟨gB, mB, fB, [], rfl, Nat.add_comm _ _, hm, by simp, by simp, by simp, fun r x hx => Or.inl hx,
      rfl, rfl, rfl, rfl, rfl, rfl, rfl, rfl⟩
  | cons r0 rest ih =>
    intro gA mA fA gA' mA' fA' gB mB fB h hm hσ hfr
    by_cases hs : (mA.get r0).isSome = true
    · have hsB : (mB.get r0).isSome = true := by rw [hm r0]; simpa using hs
      rw [copyNodes_cons_some _ _ _ _ _ hs] at h
      rw [copyNodes_cons_some _ _ _ _ _ hsB]
      exact ih _ _ _ _ _ _ _ _ _ h hm hσ hfr
    · have hsB : ¬ (mB.get r0).isSome = true := by rw [hm r0]; simpa using hs
      have h' := h
      simp only [copyNodes] at h'
      rw [if_neg hs] at h'
      obtain ⟨g1, hg1, h'⟩ := bind_ok h'
      have hmono := copyNodes_mono _ _ _ _ _ _ _ h'
      have hσA : σ fA = fB := by
        have := hσ fA (le_refl _) (by omega)
        omega
      obtain ⟨gB1, hgB1⟩ := addNode_fresh gB ⟨r0.label, .impl fB⟩ (by
        intro x hx hxe
        have := hfr x hx fB hxe
        omega)
      rw [copyNodes_cons_none _ _ _ _ _ _ hsB hgB1]
      obtain ⟨a1, a2, a3, a4, a5⟩ := addNode_ok' hg1
      obtain ⟨b1, b2, b3, b4, b5⟩ := addNode_ok' hgB1
      have hm1 : MapRel σ (mA ++ [(r0, ⟨r0.label, .impl fA⟩)]) (mB ++ [(r0, ⟨r0.label, .impl fB⟩)]) := by
        have := mapRel_append σ mA mB hm r0 ⟨r0.label, .impl fA⟩
        simpa only [renNode, renId, hσA] using this
      obtain ⟨gB', mB', fB', new, c1, c2, c3, c4, c5, c6, c7, c8, c9, c10, c11, c12, c13, c14, c15⟩ :=
        ih g1 _ (fA + 1) gA' mA' fA' gB1 _ (fB + 1) h' hm1
          (by intro k hk1 hk2; have := hσ k (by omega) hk2; omega)
          (by
            intro n hn k hk
            rw [b1] at hn
            rcases List.mem_append.1 hn with hn | hn
            · have := hfr n hn k hk; omega
            · simp only [List.mem_singleton] at hn
              subst hn
              simp only [Id.impl.injEq] at hk
              omega)
      refine ⟨gB', mB', fB', ⟨r0.label, .impl fA⟩ :: new, c1, by omega, c3, ?_, ?_, ?_, ?_,
        by rw [c8, a2], by rw [c9, b2], by rw [c10, a3], by rw [c11, b3], by rw [c12, a4], by rw [c13, b4],
        ?_, ?_⟩
      · rw [c4, a1]; simp
      · rw [c5, b1]; simp [renNode, renId, hσA]
      · intro n hn
        rcases List.mem_cons.1 hn with rfl | hn
        · exact ⟨fA, le_refl _, by omega, rfl⟩
        · obtain ⟨k, hk1, hk2, hk3⟩ := c6 n hn
          exact ⟨k, by omega, hk2, hk3⟩
      · intro r x hx
        rcases c7 r x hx with h1 | h1
        · rw [get_append] at h1
          split at h1
          · exact Or.inl h1
          · split at h1
            · simp only [Option.some.injEq] at h1
              right; rw [← h1]; exact List.mem_cons_self
            · cases h1
        · exact Or.inr (List.mem_cons_of_mem _ h1)
      · rw [c14, a5, List.map_cons, ← extNL_append]; rfl
      · rw [c15, b5, List.map_cons, ← extNL_append]; rfl

/-- copying the edges of a replacement from two related states -/
private theorem copyEdges_rel (σ : Nat → Nat) (mA mB : NodeMap) (hm : MapRel σ mA mB)
    (U : List ELabel) (hU : (U.map (·.name)).Nodup) (es : List Edge) :
    ∀ (gA : Graph) (emA : List (Edge × Edge)) (fA : Nat) (gA' : Graph) (emA' : List (Edge × Edge)) (fA' : Nat)
      (gB : Graph) (emB : List (Edge × Edge)) (fB : Nat),
    (∀ e ∈ es, e.label ∈ U) →
    copyEdges gA mA emA fA es = .ok (gA', emA', fA') →
    (∀ k, fA ≤ k → k < fA' → σ k + fA = k + fB) →
    (∀ r x, mA.get r = some x → x ∈ gA.nodes) →
    (∀ r x, mB.get r = some x → x ∈ gB.nodes) →
    (gB.nodes.map (·.id)).Nodup →
    (∀ x ∈ gB.edges, ∀ k, x.id = .impl k → k < fB) →
    (∀ l ∈ gB.edgeLabels, l ∈ U) →
    ∃ gB' emB' fB' new,
      copyEdges gB mB emB fB es = .ok (gB', emB', fB') ∧ fB' + fA = fA' + fB ∧
      gA'.edges = gA.edges ++ new ∧ gB'.edges = gB.edges ++ new.map (renEdge σ) ∧
      (∀ x ∈ new, ∃ k, fA ≤ k ∧ k < fA' ∧ x.id = .impl k) ∧
      gA'.nodes = gA.nodes ∧ gB'.nodes = gB.nodes ∧ gA'.ext = gA.ext ∧ gB'.ext = gB.ext ∧
      gA'.nodeLabels = gA.nodeLabels ∧ gB'.nodeLabels = gB.nodeLabels ∧
      (∀ l, l ∈ gA'.edgeLabels ↔ l ∈ gA.edgeLabels ∨ l ∈ es.map (·.label)) ∧
      (∀ l, l ∈ gB'.edgeLabels ↔ l ∈ gB.edgeLabels ∨ l ∈ es.map (·.label)) := by
  induction es with
  | nil =>
    intro gA emA fA gA' emA' fA' gB emB fB hes h hσ hvA hvB hnd hfr hlU
    simp only [copyEdges] at h
    injection h with h
    injection h with h1 h2
    injection h2 with h2 h3
    subst h1; subst h2; subst h3
    exact ⟨gB, emB, fB, [], rfl, Nat.add_comm _ _, by simp, by simp, by simp, rfl, rfl, rfl, rfl, rfl, rfl,
      by simp, by simp⟩
  | cons r0 rest ih =>
    intro gA emA fA gA' emA' fA' gB emB fB hes h hσ hvA hvB hnd hfr hlU
    have h' := h
    simp only [copyEdges] at h'
    obtain ⟨gnodes, hgn, h'⟩ := bind_ok h'
    obtain ⟨ge, hge, h'⟩ := bind_ok h'
    obtain ⟨g1, hg1, h'⟩ := bind_ok h'
    have hmapA := mapM_get_inv mA r0.nodes gnodes hgn
    obtain ⟨hge1, hty⟩ := mkEdge_ok hge
    subst hge1
    have hmono := copyEdges_mono _ _ _ _ _ _ _ _ h'
    have hσA : σ fA = fB := by
      have := hσ fA (le_refl _) (by omega)
      omega
    have hpA : ∀ n ∈ gnodes, n ∈ gA.nodes := by
      intro x hx
      have : some x ∈ gnodes.map some := List.mem_map_of_mem hx
      rw [← hmapA] at this
      obtain ⟨n, _, hn⟩ := List.mem_map.1 this
      exact hvA n x hn
    have hmapB := map_get_rel σ mA mB hm r0.nodes gnodes hmapA
    have hpB : ∀ n ∈ gnodes.map (renNode σ), n ∈ gB.nodes := by
      intro x hx
      have : some x ∈ (gnodes.map (renNode σ)).map some := List.mem_map_of_mem hx
      rw [← hmapB] at this
      obtain ⟨n, _, hn⟩ := List.mem_map.1 this
      exact hvB n x hn
    have hgnB := mapM_get_ok mB r0.nodes _ hmapB
    have hgeB : mkEdge r0.label (gnodes.map (renNode σ)) (.impl fB) =
        .ok ⟨r0.label, gnodes.map (renNode σ), .impl fB⟩ := by
      unfold mkEdge
      rw [if_pos]
      rw [hty, List.map_map]
      rfl
    obtain ⟨gB1, hgB1⟩ := addEdge_succeeds gB ⟨r0.label, gnodes.map (renNode σ), .impl fB⟩ hpB hnd
      (by
        intro x hx hxe
        have := hfr x hx fB hxe
        omega) U hU hlU (hes r0 List.mem_cons_self)
    rw [copyEdges_cons _ _ _ _ _ _ _ _ _ hgnB hgeB hgB1]
    obtain ⟨a1, a2, a3, a4, a5⟩ := addEdge_ok' (e := ⟨r0.label, gnodes, .impl fA⟩) hpA hg1
    obtain ⟨b1, b2, b3, b4, b5⟩ := addEdge_ok' (e := ⟨r0.label, gnodes.map (renNode σ), .impl fB⟩) hpB hgB1
    obtain ⟨gB', emB', fB', new, c1, c2, c3, c4, c5, c6, c7, c8, c9, c10, c11, c12, c13⟩ :=
      ih g1 _ (fA + 1) gA' emA' fA' gB1 (emB ++ [(r0, ⟨r0.label, gnodes.map (renNode σ), .impl fB⟩)]) (fB + 1)
        (fun e he => hes e (List.mem_cons_of_mem _ he)) h'
        (by intro k hk1 hk2; have := hσ k (by omega) hk2; omega)
        (by rw [a1]; exact hvA) (by rw [b1]; exact hvB) (by rw [b1]; exact hnd)
        (by
          intro x hx k hk
          rw [b2] at hx
          rcases List.mem_append.1 hx with hx | hx
          · have := hfr x hx k hk; omega
          · simp only [List.mem_singleton] at hx
            subst hx
            simp only [Id.impl.injEq] at hk
            omega)
        (by
          intro l hl
          rcases (b5 l).1 hl with hl | rfl
          · exact hlU l hl
          · exact hes r0 List.mem_cons_self)
    refine ⟨gB', emB', fB', ⟨r0.label, gnodes, .impl fA⟩ :: new, c1, by omega, ?_, ?_, ?_,
      by rw [c6, a1], by rw [c7, b1], by rw [c8, a3], by rw [c9, b3], by rw [c10, a4], by rw [c11, b4], ?_, ?_⟩
    · rw [c3, a2]; simp
    · rw [c4, b2]; simp [renEdge, renId, hσA]
    · intro x hx
      rcases List.mem_cons.1 hx with rfl | hx
      · exact ⟨fA, le_refl _, by omega, rfl⟩
      · obtain ⟨k, hk1, hk2, hk3⟩ := c5 x hx
        exact ⟨k, by omega, hk2, hk3⟩
    · intro l
      rw [c12 l, a5 l, List.map_cons, List.mem_cons]
      tauto
    · intro l
      rw [c13 l, b5 l, List.map_cons, List.mem_cons]
      tauto

/-- the block permutation of the fresh identities: `[f0, f1)` moves up by `f2 - f1`, `[f1, f2)` moves down
to `f0` -/
private def swapσ (f0 f1 f2 : Nat) (k : Nat) : Nat :=
  if k < f0 then k else if k < f1 then k + (f2 - f1) else if k < f2 then k - (f1 - f0) else k

/-- **replacements of two different edges commute** -/
theorem replace_commute (fresh : Nat) (g : Graph) (e1 e2 : Edge) (repl1 repl2 : Graph)
    (hg : graphInv g = true) (hfr : FreshFor fresh g)
    (he1 : e1 ∈ g.edges) (he2 : e2 ∈ g.edges) (hne : e1.id ≠ e2.id)
    (hx1 : repl1.ext.Nodup) (hx2 : repl2.ext.Nodup)
    (r1 r12 : ReplaceResult)
    (h1 : replaceEdge fresh g e1 repl1 = .ok r1)
    (h12 : replaceEdge r1.fresh r1.graph e2 repl2 = .ok r12) :
    ∃ s2 s21, replaceEdge fresh g e2 repl2 = .ok s2 ∧ replaceEdge s2.fresh s2.graph e1 repl1 = .ok s21 ∧
      s21.fresh = r12.fresh ∧
      ∃ σ : Nat → Nat, (∀ k, k < fresh → σ k = k) ∧ (∀ a b, a < r12.fresh → b < r12.fresh → σ a = σ b → a = b) ∧
        (∀ k, k < r12.fresh → σ k < r12.fresh) ∧
        EquivUpTo σ r12.graph s21.graph := by
  have hIa2 : graphInv r1.graph = true := replaceEdge_inv' _ _ _ _ _ hg h1
  have hIa5 : graphInv r12.graph = true := replaceEdge_inv' _ _ _ _ _ hIa2 h12
  obtain ⟨a0, a1, mA1, fa1, a2, em1, fa2, ht1, rm1, cn1, ce1, rfl⟩ := replaceEdge_ok h1
  obtain ⟨a3, a4, mA2, fa3, a5, em2, fa4, ht2, rm2, cn2, ce2, rfl⟩ := replaceEdge_ok h12
  dsimp only at rm2 cn2 ce2 hIa2 hIa5 ⊢
  obtain ⟨hEN, hXN, hNid, hEid, hLn⟩ := inv_parts g hg
  obtain ⟨hfrN, hfrE⟩ := hfr
  -- the counters
  have mo1 := copyNodes_mono _ _ _ _ _ _ _ cn1
  have mo2 := copyEdges_mono _ _ _ _ _ _ _ _ ce1
  have mo3 := copyNodes_mono _ _ _ _ _ _ _ cn2
  have mo4 := copyEdges_mono _ _ _ _ _ _ _ _ ce2
  -- the renaming
  have hσ0 : ∀ k, k < fresh → swapσ fresh fa2 fa4 k = k := by
    intro k hk; unfold swapσ; rw [if_pos hk]
  have hσ1 : ∀ k, fresh ≤ k → k < fa2 → swapσ fresh fa2 fa4 k = k + (fa4 - fa2) := by
    intro k hk1 hk2; unfold swapσ; rw [if_neg (by omega), if_pos hk2]
  have hσ2 : ∀ k, fa2 ≤ k → k < fa4 → swapσ fresh fa2 fa4 k = k - (fa2 - fresh) := by
    intro k hk1 hk2; unfold swapσ; rw [if_neg (by omega), if_neg (by omega), if_pos hk2]
  generalize hσdef : swapσ fresh fa2 fa4 = σ at hσ0 hσ1 hσ2
  have hfixN : ∀ n ∈ g.nodes, renNode σ n = n := fun n hn => renNode_fix σ fresh hσ0 n (hfrN n hn)
  have hfixE : ∀ e ∈ g.edges, renEdge σ e = e := fun e he =>
    renEdge_fix σ fresh hσ0 e (fun n hn => hfixN n (hEN e he n hn)) (hfrE e he)
  -- the initial node maps take their values among the nodes of `g`
  have hinit1 : ∀ r x, (initMap e1.nodes repl1.ext []).get r = some x → x ∈ g.nodes := by
    intro r x hx
    rcases initMap_values _ _ _ r x hx with h | h
    · simp [NodeMap.get] at h
    · exact hEN e1 he1 x h
  have hinit2 : ∀ r x, (initMap e2.nodes repl2.ext []).get r = some x → x ∈ g.nodes := by
    intro r x hx
    rcases initMap_values _ _ _ r x hx with h | h
    · simp [NodeMap.get] at h
    · exact hEN e2 he2 x h
  -- A side, preliminary facts
  obtain ⟨a0n, a0e, a0x, a0nl, a0el⟩ := removeEdge_fields rm1
  obtain ⟨a3n, a3e, a3x, a3nl, a3el⟩ := removeEdge_fields rm2
  obtain ⟨vA1, sA1⟩ := copyNodes_values cn1 (by rw [a0n]; exact hinit1)
  have a2n := copyEdges_nodes ce1 vA1
  have hgA3 : ∀ x ∈ g.nodes, x ∈ a3.nodes := by
    intro x hx; rw [a3n, a2n]; exact sA1 x (by rw [a0n]; exact hx)
  obtain ⟨vA2, sA2⟩ := copyNodes_values cn2 (fun r x hx => hgA3 x (hinit2 r x hx))
  have a1el := copyNodes_edgeLabels _ _ _ _ _ _ _ cn1
  have a4el := copyNodes_edgeLabels _ _ _ _ _ _ _ cn2
  obtain ⟨lA1, lA1'⟩ := copyEdges_labels _ _ _ _ _ _ _ _ ce1 vA1
  obtain ⟨lA2, lA2'⟩ := copyEdges_labels _ _ _ _ _ _ _ _ ce2 vA2
  obtain ⟨_, _, _, _, hU⟩ := inv_parts a5 hIa5
  have hgU : ∀ l ∈ g.edgeLabels, l ∈ a5.edgeLabels := by
    intro l hl
    apply lA2; rw [a4el, a3el]; apply lA1; rw [a1el, a0el]; exact hl
  have h1U : ∀ e ∈ repl1.edges, e.label ∈ a5.edgeLabels := by
    intro e he
    apply lA2; rw [a4el, a3el]; exact lA1' e he
  -- B side, first replacement (of `e2`)
  obtain ⟨b0, rmB2⟩ : ∃ b0, g.removeEdge e2 = .ok b0 := ⟨_, removeEdge_exact g e2 ⟨e2, he2, rfl⟩⟩
  obtain ⟨b0n, b0e, b0x, b0nl, b0el⟩ := removeEdge_fields rmB2
  have hIb0 := C16.removeEdge_inv g b0 e2 hg rmB2
  have hmr2 : MapRel σ (initMap e2.nodes repl2.ext []) (initMap e2.nodes repl2.ext []) :=
    mapRel_of_fix σ _ (fun r x hx => hfixN x (hinit2 r x hx))
  obtain ⟨b1, mB2, fb1, new2, cnB2, hfb1, hmB2, a4n, b1n, bnd2, mv2, a4e, b1e, a4x, b1x, _, b1el, a4nl, b1nl⟩ :=
    copyNodes_rel σ repl2.nodes a3 _ fa2 a4 mA2 fa3 b0 _ fresh cn2 hmr2
      (by intro k hk1 hk2; rw [hσ2 k hk1 (by omega)]; omega)
      (by rw [b0n]; exact hfrN)
  have hIb1 : graphInv b1 = true := (copyNodes_spec _ _ _ _ _ _ _ cnB2).2.2.2.1 hIb0
  have vB2 : ∀ r x, mB2.get r = some x → x ∈ b1.nodes := by
    intro r x hx
    obtain ⟨y, hy, rfl⟩ := mapRel_values σ _ _ hmB2 r x hx
    rw [b1n, b0n]
    rcases mv2 r y hy with h | h
    · have := hinit2 r y h
      rw [hfixN y this]; exact List.mem_append_left _ this
    · exact List.mem_append_right _ (List.mem_map_of_mem h)
  obtain ⟨b2, emB2, fb2, E2, ceB2, hfb2, a5e, b2e, bndE2, a5n, b2n, a5x, b2x, a5nl, b2nl, a5el, b2el⟩ :=
    copyEdges_rel σ mA2 mB2 hmB2 a5.edgeLabels hU repl2.edges a4 [] fa3 a5 em2 fa4 b1 [] fb1 lA2' ce2
      (by intro k hk1 hk2; rw [hσ2 k (by omega) hk2]; omega)
      vA2 vB2 (inv_parts b1 hIb1).2.2.1
      (by
        intro x hx k hk
        rw [b1e, b0e] at hx
        have := hfrE x (List.mem_filter.1 hx).1 k hk
        omega)
      (by intro l hl; rw [b1el, b0el] at hl; exact hgU l hl)
  have hs2 : replaceEdge fresh g e2 repl2 = .ok ⟨b2, mB2, emB2, fb2⟩ :=
    replaceEdge_of_parts ht2 rmB2 cnB2 ceB2
  have hIb2 : graphInv b2 = true := replaceEdge_inv' _ _ _ _ _ hg hs2
  -- B side, second replacement (of `e1`)
  have he1b2 : e1 ∈ b2.edges := by
    rw [b2e, b1e, b0e]
    apply List.mem_append_left
    rw [List.mem_filter]
    exact ⟨he1, by simpa using hne⟩
  obtain ⟨b3, rmB1⟩ : ∃ b3, b2.removeEdge e1 = .ok b3 := ⟨_, removeEdge_exact b2 e1 ⟨e1, he1b2, rfl⟩⟩
  obtain ⟨b3n, b3e, b3x, b3nl, b3el⟩ := removeEdge_fields rmB1
  have hIb3 := C16.removeEdge_inv b2 b3 e1 hIb2 rmB1
  have hmr1 : MapRel σ (initMap e1.nodes repl1.ext []) (initMap e1.nodes repl1.ext []) :=
    mapRel_of_fix σ _ (fun r x hx => hfixN x (hinit1 r x hx))
  have b3nodes : b3.nodes = g.nodes ++ new2.map (renNode σ) := by rw [b3n, b2n, b1n, b0n]
  obtain ⟨b4, mB1, fb3, new1, cnB1, hfb3, hmB1, a1n, b4n, bnd1, mv1, a1e, b4e, a1x, b4x, _, b4el, a1nl, b4nl⟩ :=
    copyNodes_rel σ repl1.nodes a0 _ fresh a1 mA1 fa1 b3 _ fb2 cn1 hmr1
      (by intro k hk1 hk2; rw [hσ1 k hk1 (by omega)]; omega)
      (by
        intro n hn k hk
        rw [b3nodes] at hn
        rcases List.mem_append.1 hn with hn | hn
        · have := hfrN n hn k hk; omega
        · obtain ⟨y, hy, rfl⟩ := List.mem_map.1 hn
          obtain ⟨j, hj1, hj2, hj3⟩ := bnd2 y hy
          simp only [renNode, hj3, renId, Id.impl.injEq] at hk
          rw [hσ2 j hj1 (by omega)] at hk
          omega)
  have hIb4 : graphInv b4 = true := (copyNodes_spec _ _ _ _ _ _ _ cnB1).2.2.2.1 hIb3
  have vB1 : ∀ r x, mB1.get r = some x → x ∈ b4.nodes := by
    intro r x hx
    obtain ⟨y, hy, rfl⟩ := mapRel_values σ _ _ hmB1 r x hx
    rw [b4n, b3nodes]
    rcases mv1 r y hy with h | h
    · have := hinit1 r y h
      rw [hfixN y this]; exact List.mem_append_left _ (List.mem_append_left _ this)
    · exact List.mem_append_right _ (List.mem_map_of_mem h)
  obtain ⟨b5, emB1, fb4, E1, ceB1, hfb4, a2e, b5e, bndE1, _, b5n, a2x, b5x, a2nl, b5nl, a2el, b5el⟩ :=
    copyEdges_rel σ mA1 mB1 hmB1 a5.edgeLabels hU repl1.edges a1 [] fa1 a2 em1 fa2 b4 [] fb3 h1U ce1
      (by intro k hk1 hk2; rw [hσ1 k (by omega) hk2]; omega)
      vA1 vB1 (inv_parts b4 hIb4).2.2.1
      (by
        intro x hx k hk
        rw [b4e, b3e, b2e, b1e, b0e] at hx
        have hx := (List.mem_filter.1 hx).1
        rcases List.mem_append.1 hx with hx | hx
        · have := hfrE x (List.mem_filter.1 hx).1 k hk
          omega
        · obtain ⟨y, hy, rfl⟩ := List.mem_map.1 hx
          obtain ⟨j, hj1, hj2, hj3⟩ := bndE2 y hy
          simp only [renEdge, hj3, renId, Id.impl.injEq] at hk
          rw [hσ2 j (by omega) hj2] at hk
          omega)
      (by
        intro l hl
        rw [b4el, b3el] at hl
        rcases (b2el l).1 hl with hl | hl
        · rw [b1el, b0el] at hl; exact hgU l hl
        · obtain ⟨e, he, rfl⟩ := List.mem_map.1 hl
          exact lA2' e he)
  have hs21 : replaceEdge fb2 b2 e1 repl1 = .ok ⟨b5, mB1, emB1, fb4⟩ :=
    replaceEdge_of_parts ht1 rmB1 cnB1 ceB1
  have hIb5 : graphInv b5 = true := replaceEdge_inv' _ _ _ _ _ hIb2 hs21
  refine ⟨⟨b2, mB2, emB2, fb2⟩, ⟨b5, mB1, emB1, fb4⟩, hs2, hs21, by dsimp only; omega, σ, hσ0, ?_, ?_, ?_⟩
  · intro a b ha hb hab
    rw [← hσdef] at hab
    unfold swapσ at hab
    split_ifs at hab <;> omega
  · intro k hk
    rw [← hσdef]
    unfold swapσ
    split_ifs <;> omega
  · show EquivUpTo σ a5 b5
    refine ⟨?_, ?_, ?_, ?_, ?_⟩
    · -- nodes
      have hA : a5.nodes = g.nodes ++ new1 ++ new2 := by rw [a5n, a4n, a3n, a2n, a1n, a0n]
      have hB : b5.nodes = g.nodes ++ new2.map (renNode σ) ++ new1.map (renNode σ) := by
        rw [b5n, b4n, b3nodes]
      rw [hA, hB, List.map_append, List.map_append, map_fix _ g.nodes hfixN, List.append_assoc,
        List.append_assoc]
      exact List.Perm.append_left _ List.perm_append_comm
    · -- edges
      have hE1 : ∀ x ∈ E1, decide (x.id ≠ e2.id) = true := by
        intro x hx
        obtain ⟨j, hj1, hj2, hj3⟩ := bndE1 x hx
        simp only [decide_eq_true_eq]
        intro he
        have := hfrE e2 he2 j (by rw [← he]; exact hj3)
        omega
      have hE2 : ∀ x ∈ E2.map (renEdge σ), decide (x.id ≠ e1.id) = true := by
        intro x hx
        obtain ⟨y, hy, rfl⟩ := List.mem_map.1 hx
        obtain ⟨j, hj1, hj2, hj3⟩ := bndE2 y hy
        simp only [decide_eq_true_eq]
        intro he
        simp only [renEdge, hj3, renId] at he
        have := hfrE e1 he1 _ he.symm
        rw [hσ2 j (by omega) hj2] at this
        omega
      have hA : a5.edges = (g.edges.filter (·.id ≠ e1.id)).filter (·.id ≠ e2.id) ++ E1 ++ E2 := by
        rw [a5e, a4e, a3e, a2e, a1e, a0e, List.filter_append, List.filter_eq_self.2 hE1]
      have hB : b5.edges = (g.edges.filter (·.id ≠ e2.id)).filter (·.id ≠ e1.id) ++ E2.map (renEdge σ)
          ++ E1.map (renEdge σ) := by
        rw [b5e, b4e, b3e, b2e, b1e, b0e, List.filter_append, List.filter_eq_self.2 hE2]
      have hcomm : (g.edges.filter (·.id ≠ e1.id)).filter (·.id ≠ e2.id) =
          (g.edges.filter (·.id ≠ e2.id)).filter (·.id ≠ e1.id) := by
        simp only [List.filter_filter]
        congr 1
        funext x
        exact Bool.and_comm _ _
      rw [hA, hB, List.map_append, List.map_append,
        map_fix _ _ (fun e he => hfixE e (List.mem_filter.1 (List.mem_filter.1 he).1).1), hcomm,
        List.append_assoc, List.append_assoc]
      exact List.Perm.append_left _ List.perm_append_comm
    · -- ext
      rw [a5x, a4x, a3x, a2x, a1x, a0x, b5x, b4x, b3x, b2x, b1x, b0x]
      exact map_fix _ _ (fun n hn => hfixN n (hXN n hn))
    · -- node labels
      rw [a5nl, a4nl, a3nl, a2nl, a1nl, a0nl, b5nl, b4nl, b3nl, b2nl, b1nl, b0nl]
      exact extNL_comm _ _ _
    · -- edge labels
      obtain ⟨_, _, _, _, hUb⟩ := inv_parts b5 hIb5
      rw [List.perm_ext_iff_of_nodup (nodup_of_map_nodup _ _ hU) (nodup_of_map_nodup _ _ hUb)]
      intro l
      rw [a5el l, a4el, a3el, a2el l, a1el, a0el, b5el l, b4el, b3el, b2el l, b1el, b0el]
      tauto

end C15
