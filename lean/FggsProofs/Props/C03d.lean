/-
C03d — `SumProduct.backward` (model `Bw.backward`) computes the ADJOINT of the tangent system: with `J` / `Jin` the
Jacobians of `F` with respect to the nonterminals / the terminals' weights at the computed values, the library solves
`y = Jᵀ y + f` (`multi_solve(…, transpose=True)`) and returns `g = Jinᵀ y` (`multi_mv(…, transpose=True)`).  For EVERY
tangent `(dx, dw)` of the system — `dx = J dx + Jin dw`, which by `C03.jac_is_derivative` is the ε-part of
`x = F(x, w)` over the dual numbers — the returned gradient pairs with `dw` exactly as the cotangent `f` pairs with `dx`:

    Σ f·dx = Σ g·dw

i.e. `g` is the gradient of `f · x(w)` whenever the solution is differentiable.  The hypothesis that the elimination
returned a solution of the transposed system is decided per run by `Bw.solvesT` (it fails only for a pivot equal to 1:
a singular system, an infinite derivative).
-/
import FggsProofs.Props.C03c
import FggsModel.Backward
import FggsProofs.C03dLemmas
import Mathlib.Tactic.Linarith
import Mathlib.Tactic.Ring

set_option linter.unusedSimpArgs false
set_option linter.unusedVariables false

namespace C03
open Fggs Fggs.Sem Fggs.Pipe Fggs.Jl Fggs.Bw Fggs.Sv

/-- finite sum over `0 … n-1` -/
def rsum (n : Nat) (f : Nat → Rat) : Rat := ((List.range n).map f).sum

/-- **the adjoint identity** for a linear system over `Rat`: if `y = Aᵀ y + f` and `dx = A dx + B dw` then
`f · dx = (Bᵀ y) · dw` -/
theorem adjoint_flat (n m : Nat) (A B : List (List Rat)) (f y dx dw : List Rat)
    (hy : ∀ i, i < n → getV ratSR y i = rsum n (fun j => getM ratSR A j i * getV ratSR y j) + getV ratSR f i)
    (hdx : ∀ i, i < n → getV ratSR dx i =
      rsum n (fun j => getM ratSR A i j * getV ratSR dx j) + rsum m (fun c => getM ratSR B i c * getV ratSR dw c)) :
    rsum n (fun i => getV ratSR f i * getV ratSR dx i)
      = rsum m (fun c => rsum n (fun i => getM ratSR B i c * getV ratSR y i) * getV ratSR dw c) :=
  C03dL.adjoint_core n m (fun i j => getM ratSR A i j) (fun i c => getM ratSR B i c) (getV ratSR f) (getV ratSR y)
    (getV ratSR dx) (getV ratSR dw) hy hdx

/-- **`SumProduct.backward` returns the adjoint**: whenever the elimination solved the transposed system
(`Bw.solvesT`, decided per run), for every tangent `(dx, dw)` of the system at `x` -/
theorem backward_is_adjoint (G : Grammar Rat) (x : Val Rat) (f : List Rat) (hs : solvesT G x f = true)
    (dx dw : List Rat)
    (hdx : ∀ i, i < (cells G).length → getV ratSR dx i =
      rsum (cells G).length (fun j => getM ratSR (jacMat G x) i j * getV ratSR dx j)
        + rsum (inCells G).length (fun c => getM ratSR (jinMat G x) i c * getV ratSR dw c)) :
    rsum (cells G).length (fun i => getV ratSR f i * getV ratSR dx i)
      = rsum (inCells G).length (fun c => getV ratSR (backward G x f).2 c * getV ratSR dw c) := by
  simp only [solvesT, Bool.and_eq_true, beq_iff_eq] at hs
  obtain ⟨hlen, hfix⟩ := hs
  have hy : ∀ i, i < (cells G).length → getV ratSR (backward G x f).1 i
      = rsum (cells G).length (fun j => getM ratSR (jacMat G x) j i * getV ratSR (backward G x f).1 j) + getV ratSR f i := by
    intro i hi
    have hl : (transposeM (cells G).length (cells G).length (jacMat G x)).length = (cells G).length :=
      C03dL.transposeM_length _ _ _
    have h := C03dL.affine_getV (transposeM (cells G).length (cells G).length (jacMat G x)) f (backward G x f).1 i
      (by rw [hl]; exact hi)
    rw [hfix, hl] at h
    rw [h]
    congr 1
    apply C03dL.rsum_congr
    intro j hj
    rw [C03dL.getM_transposeM _ _ _ i j hi hj]
  rw [adjoint_flat (cells G).length (inCells G).length (jacMat G x) (jinMat G x) f (backward G x f).1 dx dw hy hdx]
  apply C03dL.rsum_congr
  intro c hc
  congr 1
  have e : (backward G x f).2 = (List.range (inCells G).length).map (fun c => ratSR.sum ((List.range (cells G).length).map
      (fun r => getM ratSR (jinMat G x) r c * getV ratSR (backward G x f).1 r))) := rfl
  rw [e, C03dL.getV_map_range _ _ c hc, C03dL.ratSR_sum]
  rfl

/-- sanity check on a tiny recursive grammar: `S → a S | b` with scalar weights `a = 1/2`, `b = 3` (terminals 0, 1, the
nonterminal `S` is label 2), at the solution `x = b/(1-a) = 6` with cotangent `f = [1]`: `J = [[a]] = [[1/2]]`,
`Jin = [[x, 1]] = [[6, 1]]`, the adjoint solution is `y = 1/(1-a) = 2` and the gradient
`g = [dZ/da, dZ/db] = [b/(1-a)², 1/(1-a)] = [12, 2]` -/
example :
    let G : Grammar Rat := ⟨[], [[], []], [[]], 0,
      [⟨0, [], [], [(0, []), (2, [])]⟩, ⟨0, [], [], [(1, [])]⟩], [[1/2], [3]]⟩
    let x : Val Rat := [some [6]]
    cells G = [(0, 0)] ∧ inCells G = [(0, 0), (1, 0)] ∧
    jacMat G x = [[1/2]] ∧ jinMat G x = [[6, 1]] ∧
    backward G x [1] = ([2], [12, 2]) ∧ solvesT G x [1] = true := by
  decide +kernel

/-- the entries of the flattened Jacobians are the cells of `Pipe.jac` / `Pipe.jacLabel` (what `C03.jac_is_derivative`
speaks about): row `(X, i)`, column `(Y, j)` / `(l, j)` -/
theorem jacMat_entry (G : Grammar Rat) (x : Val Rat) (r c : Nat) (hr : r < (cells G).length) (hc : c < (cells G).length) :
    getM ratSR (jacMat G x) r c =
      blockCell (jac ratSR G x ((cells G)[r]?.getD (0, 0)).1 ((cells G)[c]?.getD (0, 0)).1)
        (((cells G)[r]?.getD (0, 0)).2 * numel (G.shapeOf (G.nts[((cells G)[c]?.getD (0, 0)).1]?.getD []))
          + ((cells G)[c]?.getD (0, 0)).2) := by
  have e1 : (cells G)[r]?.getD (0, 0) = (cells G)[r] := by simp [hr]
  have e2 : (cells G)[c]?.getD (0, 0) = (cells G)[c] := by simp [hc]
  rw [e1, e2]
  exact C03dL.jacMat_entry' G x r c hr hc

theorem jinMat_entry (G : Grammar Rat) (x : Val Rat) (r c : Nat) (hr : r < (cells G).length) (hc : c < (inCells G).length) :
    getM ratSR (jinMat G x) r c =
      blockCell (jacLabel ratSR G x ((cells G)[r]?.getD (0, 0)).1 ((inCells G)[c]?.getD (0, 0)).1)
        (((cells G)[r]?.getD (0, 0)).2 * numel (G.shapeOf (G.labelType ((inCells G)[c]?.getD (0, 0)).1))
          + ((inCells G)[c]?.getD (0, 0)).2) := by
  have e1 : (cells G)[r]?.getD (0, 0) = (cells G)[r] := by simp [hr]
  have e2 : (inCells G)[c]?.getD (0, 0) = (inCells G)[c] := by simp [hc]
  rw [e1, e2]
  exact C03dL.jinMat_entry' G x r c hr hc

end C03
