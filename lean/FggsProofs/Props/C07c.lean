/-
C07c — the side condition `C07.resolved` of `einsum_dense` is the executable check `Ei.resolved` that the driver
evaluates for every einsum job of the correspondence run.
-/
import FggsModel.EinsumImpl
import FggsProofs.Props.C07b

namespace C07
open Fggs Fggs.Ei

theorem resolved_eq_model (fuel : Nat) (j : EJob) (next : Nat) : resolved fuel j next = Ei.resolved fuel j next := rfl

end C07
