/-
C11c — the driver loop commutes with value homomorphisms, so the theorems proved for lawful semiring records
(the carriers `{x : Ext // RealC x}`, `{x // VitC x}`, `Bool`) speak about the EXECUTABLE model that the driver
runs on `Ext` values: for an injective semiring homomorphism `f` that commutes with `star` (and, for Newton, with `sub`
and `maximum`), running `sumProducts` / `sumProductsN` on the grammar with weights mapped through `f` gives the image
under `f` of the run on the original grammar — same exceptions, same warnings, values mapped cell by cell.
Instances: the inclusions of the Viterbi and Real carriers into `Ext`.
-/
import FggsModel.Pipeline
import FggsModel.Newton
import FggsProofs.PipeLemmas
import FggsProofs.Props.C01
import FggsProofs.Props.C09b
import FggsProofs.Props.C11
import FggsProofs.Props.C02d
import FggsProofs.Props.C02e
import FggsProofs.C11cLinLemmas
import Mathlib.Tactic.Linarith
import Mathlib.Data.List.Basic

set_option linter.unusedSimpArgs false
set_option linter.unusedVariables false

namespace C11
open Fggs Fggs.Sem Fggs.Pipe Fggs.Nw

variable {K K' : Type}

/-- the outcome with every value mapped -/
def mapOutcome (f : K → K') (o : Outcome K) : Outcome K' :=
  { value := mapVal f o.value, warned := o.warned, unmodelled := o.unmodelled }

def mapExcept (f : K → K') : Except String (Outcome K) → Except String (Outcome K')
  | .ok o => .ok (mapOutcome f o)
  | .error e => .error e

private theorem foldlM_hom (f : K → K') (g : Outcome K → List Nat → Except String (Outcome K))
    (g' : Outcome K' → List Nat → Except String (Outcome K'))
    (h : ∀ o c, g' (mapOutcome f o) c = mapExcept f (g o c)) (l : List (List Nat)) (o : Outcome K) :
    l.foldlM g' (mapOutcome f o) = mapExcept f (l.foldlM g o) := by
  induction l generalizing o with
  | nil => rfl
  | cons c l ih =>
    simp only [List.foldlM_cons]
    rw [h]
    cases g o c with
    | error e => rfl
    | ok o1 => exact ih o1

private theorem solveComp_hom [BEq K] [BEq K'] (hbeq : ∀ a b : K, (a == b) = true ↔ a = b) (hbeq' : ∀ a b : K', (a == b) = true ↔ a = b)
    (S : SR K) (S' : SR K') (f : K → K') (hf : Hom S S' f) (hinj : Function.Injective f)
    (star : K → K) (star' : K' → K') (hs : ∀ a, star' (f a) = f (star a))
    (G : Grammar K) (m : Method) (kmax : Nat) (o : Outcome K) (comp : List Nat) :
    solveComp S' star' (mapG f G) m kmax (mapOutcome f o) comp = mapExcept f (solveComp S star G m kmax o comp) := by
  unfold solveComp
  simp only [C11cL.mapG_maxRhs, C11cL.mapG_nts]
  cases compMethod m comp (maxRhs G comp) with
  | oneStep =>
    simp only [mapOutcome, mapExcept, pure, Except.pure]
    rw [← C11cL.mapVal_replicate_none f, C11cL.compF_hom hf, C11cL.overlay_hom]
  | fixedPoint =>
    simp only [mapOutcome, mapExcept, pure, Except.pure]
    rw [C11cL.fixedPoint_hom hbeq hbeq' hf hinj]
    simp only [C11cL.overlay_hom]
  | linear =>
    simp only [mapOutcome, bind, Except.bind]
    rw [C11cL.linearSolve_hom hf star star' hs]
    cases Pipe.linearSolve S star G o.value comp with
    | error e => rfl
    | ok y => simp only [Except.map, mapExcept, mapOutcome, pure, Except.pure, C11cL.overlay_hom]
  | newton => rfl

/-- **the driver loop commutes with injective star-preserving homomorphisms** -/
theorem sumProducts_map_hom [BEq K] [BEq K'] (hbeq : ∀ a b : K, (a == b) = true ↔ a = b) (hbeq' : ∀ a b : K', (a == b) = true ↔ a = b)
    (S : SR K) (S' : SR K') (f : K → K') (hf : Hom S S' f) (hinj : Function.Injective f)
    (star : K → K) (star' : K' → K') (hs : ∀ a, star' (f a) = f (star a))
    (G : Grammar K) (m : Method) (kmax : Nat) :
    sumProducts S' star' (mapG f G) m kmax = mapExcept f (sumProducts S star G m kmax) := by
  unfold sumProducts
  rw [C11cL.mapG_sccOrder]
  have h0 : ({ value := zeroVal (mapG f G) } : Outcome K') = mapOutcome f { value := zeroVal G } := by
    simp only [mapOutcome, C11cL.mapG_zeroVal]
  rw [h0]
  exact foldlM_hom f _ _ (solveComp_hom hbeq hbeq' S S' f hf hinj star star' hs G m kmax) _ _

private theorem solveCompN_hom [BEq K] [BEq K'] (hbeq : ∀ a b : K, (a == b) = true ↔ a = b) (hbeq' : ∀ a b : K', (a == b) = true ↔ a = b)
    (S : SR K) (S' : SR K') (f : K → K') (hf : Hom S S' f) (hinj : Function.Injective f)
    (star : K → K) (star' : K' → K') (hs : ∀ a, star' (f a) = f (star a))
    (sub maxOp : K → K → K) (sub' maxOp' : K' → K' → K')
    (hsub : ∀ a b, sub' (f a) (f b) = f (sub a b)) (hmax : ∀ a b, maxOp' (f a) (f b) = f (maxOp a b))
    (G : Grammar K) (m : Method) (kmax : Nat) (o : Outcome K) (comp : List Nat) :
    solveCompN S' star' sub' maxOp' (mapG f G) m kmax (mapOutcome f o) comp =
      mapExcept f (solveCompN S star sub maxOp G m kmax o comp) := by
  unfold solveCompN
  simp only [C11cL.mapG_maxRhs, C11cL.mapG_nts]
  have hsc := solveComp_hom hbeq hbeq' S S' f hf hinj star star' hs G m kmax o comp
  cases hm : compMethod m comp (maxRhs G comp) with
  | newton =>
    simp only [mapOutcome, mapExcept, pure, Except.pure]
    rw [C11cL.newton_hom hbeq hbeq' hf hinj star star' hs sub maxOp sub' maxOp' hsub hmax]
    simp only [C11cL.overlay_hom]
  | oneStep => exact hsc
  | fixedPoint => exact hsc
  | linear => exact hsc

/-- … and so does the driver loop with Newton's method -/
theorem sumProductsN_map_hom [BEq K] [BEq K'] (hbeq : ∀ a b : K, (a == b) = true ↔ a = b) (hbeq' : ∀ a b : K', (a == b) = true ↔ a = b)
    (S : SR K) (S' : SR K') (f : K → K') (hf : Hom S S' f) (hinj : Function.Injective f)
    (star : K → K) (star' : K' → K') (hs : ∀ a, star' (f a) = f (star a))
    (sub maxOp : K → K → K) (sub' maxOp' : K' → K' → K')
    (hsub : ∀ a b, sub' (f a) (f b) = f (sub a b)) (hmax : ∀ a b, maxOp' (f a) (f b) = f (maxOp a b))
    (G : Grammar K) (m : Method) (kmax : Nat) :
    sumProductsN S' star' sub' maxOp' (mapG f G) m kmax = mapExcept f (sumProductsN S star sub maxOp G m kmax) := by
  unfold sumProductsN
  rw [C11cL.mapG_sccOrder]
  have h0 : ({ value := zeroVal (mapG f G) } : Outcome K') = mapOutcome f { value := zeroVal G } := by
    simp only [mapOutcome, C11cL.mapG_zeroVal]
  rw [h0]
  exact foldlM_hom f _ _
    (solveCompN_hom hbeq hbeq' S S' f hf hinj star star' hs sub maxOp sub' maxOp' hsub hmax G m kmax) _ _

/-- the Viterbi carrier: what the driver computes on `Ext` (op `P.sumProducts viterbi`) for a grammar whose weights lie
in the carrier is the image of the run in the lawful semiring `vitK` -/
theorem vit_sumProducts_val (G : Grammar VitK) (m : Method) (kmax : Nat) :
    sumProducts vitSR Impl.vitStar (mapG (fun x => x.1) G) m kmax
      = mapExcept (fun x => x.1) (sumProducts vitK C09b.vitKStar G m kmax) :=
  sumProducts_map_hom (fun _ _ => beq_iff_eq) (fun _ _ => beq_iff_eq) vitK vitSR (fun x => x.1) vit_val_hom
    Subtype.val_injective C09b.vitKStar Impl.vitStar (fun _ => rfl) G m kmax

/-- the Real carrier likewise -/
theorem real_sumProducts_val (G : Grammar RealK) (m : Method) (kmax : Nat) :
    sumProducts realSR Impl.realStar (mapG (fun x => x.1) G) m kmax
      = mapExcept (fun x => x.1) (sumProducts realK C09b.realKStar G m kmax) :=
  sumProducts_map_hom (fun _ _ => beq_iff_eq) (fun _ _ => beq_iff_eq) realK realSR (fun x => x.1) real_val_hom
    Subtype.val_injective C09b.realKStar Impl.realStar (fun _ => rfl) G m kmax

end C11
