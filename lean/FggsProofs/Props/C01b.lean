/-
C01 — the model of `sum_product_edges` (rename repeated externals apart with identity factors, drop
unattached externals before the einsum and broadcast them back, multiply in the domain sizes of
isolated internal nodes) computes the rule's specification: Σ over assignments Π of edge weights.
-/
import FggsModel.Sem
import FggsProofs.Props.C01
import Mathlib.Tactic.Linarith
import Mathlib.Data.List.Basic

set_option linter.unusedSimpArgs false
set_option linter.unusedVariables false

namespace C01
open Fggs Fggs.Sem

variable {K : Type}

/-! ### algebra toolkit -/
section alg
variable {S : SR K} (hS : SRLaws S)
include hS

private theorem add_zero' (a : K) : S.add a S.zero = a := by rw [hS.add_comm, hS.zero_add]
private theorem mul_one' (a : K) : S.mul a S.one = a := by rw [hS.mul_comm, hS.one_mul]
private theorem mul_zero' (a : K) : S.mul a S.zero = S.zero := by rw [hS.mul_comm, hS.zero_mul]
private theorem right_distrib' (a b c : K) : S.mul (S.add a b) c = S.add (S.mul a c) (S.mul b c) := by
  rw [hS.mul_comm, hS.left_distrib, hS.mul_comm c a, hS.mul_comm c b]

private theorem foldl_add (l : List K) (a : K) : l.foldl S.add a = S.add a (S.sum l) := by
  induction l generalizing a with
  | nil => simp [SR.sum, add_zero' hS]
  | cons x l ih =>
    have h1 : S.sum (x :: l) = S.add x (S.sum l) := by
      show l.foldl S.add (S.add S.zero x) = _
      rw [ih, hS.zero_add]
    rw [List.foldl_cons, ih, h1, hS.add_assoc]

private theorem sum_cons (x : K) (l : List K) : S.sum (x :: l) = S.add x (S.sum l) := by
  show l.foldl S.add (S.add S.zero x) = _
  rw [foldl_add hS, hS.zero_add]

private theorem foldl_mul (l : List K) (a : K) : l.foldl S.mul a = S.mul a (S.prod l) := by
  induction l generalizing a with
  | nil => simp [SR.prod, mul_one' hS]
  | cons x l ih =>
    have h1 : S.prod (x :: l) = S.mul x (S.prod l) := by
      show l.foldl S.mul (S.mul S.one x) = _
      rw [ih, hS.one_mul]
    rw [List.foldl_cons, ih, h1, hS.mul_assoc]

private theorem prod_cons (x : K) (l : List K) : S.prod (x :: l) = S.mul x (S.prod l) := by
  show l.foldl S.mul (S.mul S.one x) = _
  rw [foldl_mul hS, hS.one_mul]

private theorem prod_append (l1 l2 : List K) : S.prod (l1 ++ l2) = S.mul (S.prod l1) (S.prod l2) := by
  induction l1 with
  | nil => show S.prod l2 = S.mul S.one _; rw [hS.one_mul]
  | cons x l ih => rw [List.cons_append, prod_cons hS, prod_cons hS, ih, hS.mul_assoc]

private theorem prod_zero_of_mem (l : List K) (h : S.zero ∈ l) : S.prod l = S.zero := by
  induction l with
  | nil => simp at h
  | cons x l ih =>
    rw [prod_cons hS]
    rcases List.mem_cons.1 h with h | h
    · rw [← h, hS.zero_mul]
    · rw [ih h, mul_zero' hS]

private theorem ofNat_one : S.ofNat 1 = S.one := by
  show S.add S.zero S.one = _; rw [hS.zero_add]

private theorem ofNat_add (m n : Nat) : S.ofNat (m + n) = S.add (S.ofNat m) (S.ofNat n) := by
  induction n with
  | zero => show S.ofNat m = S.add _ S.zero; rw [add_zero' hS]
  | succ n ih =>
    show S.add (S.ofNat (m + n)) S.one = S.add _ (S.add (S.ofNat n) S.one)
    rw [ih, hS.add_assoc]

private theorem ofNat_mul (m n : Nat) : S.ofNat (m * n) = S.mul (S.ofNat m) (S.ofNat n) := by
  induction n with
  | zero => show S.zero = S.mul _ S.zero; rw [mul_zero' hS]
  | succ n ih =>
    rw [Nat.mul_succ, ofNat_add hS, ih]
    show _ = S.mul _ (S.add (S.ofNat n) S.one)
    rw [hS.left_distrib, mul_one' hS]

end alg

/-- `Σ_{x ∈ l} f x` -/
private def bsum {α : Type} (S : SR K) (l : List α) (f : α → K) : K := S.sum (l.map f)

section bs
variable {S : SR K} (hS : SRLaws S) {α β : Type}

private theorem bsum_nil (f : α → K) : bsum S [] f = S.zero := rfl

include hS

private theorem bsum_cons (x : α) (l : List α) (f : α → K) :
    bsum S (x :: l) f = S.add (f x) (bsum S l f) := by
  unfold bsum; rw [List.map_cons, sum_cons hS]

private theorem bsum_append (l1 l2 : List α) (f : α → K) :
    bsum S (l1 ++ l2) f = S.add (bsum S l1 f) (bsum S l2 f) := by
  induction l1 with
  | nil => rw [List.nil_append, bsum_nil, hS.zero_add]
  | cons x l ih => rw [List.cons_append, bsum_cons hS, bsum_cons hS, ih, hS.add_assoc]

omit hS in
private theorem bsum_congr (l : List α) (f g : α → K) (h : ∀ x ∈ l, f x = g x) :
    bsum S l f = bsum S l g := by
  unfold bsum; rw [List.map_congr_left h]

private theorem bsum_zero (l : List α) : bsum S l (fun _ => S.zero) = S.zero := by
  induction l with
  | nil => rfl
  | cons x l ih => rw [bsum_cons hS, ih, hS.zero_add]

private theorem bsum_mul_right (l : List α) (f : α → K) (c : K) :
    bsum S l (fun x => S.mul (f x) c) = S.mul (bsum S l f) c := by
  induction l with
  | nil => rw [bsum_nil, bsum_nil, hS.zero_mul]
  | cons x l ih => rw [bsum_cons hS, bsum_cons hS, ih, right_distrib' hS]

private theorem bsum_flatMap (l : List α) (g : α → List β) (f : β → K) :
    bsum S (l.flatMap g) f = bsum S l (fun x => bsum S (g x) f) := by
  induction l with
  | nil => rfl
  | cons x l ih => rw [List.flatMap_cons, bsum_append hS, bsum_cons hS, ih]

omit hS in
private theorem bsum_map (l : List α) (g : α → β) (f : β → K) :
    bsum S (l.map g) f = bsum S l (fun x => f (g x)) := by
  unfold bsum; rw [List.map_map]; rfl

private theorem bsum_filter (l : List α) (p : α → Bool) (f : α → K) :
    bsum S (l.filter p) f = bsum S l (fun x => if p x then f x else S.zero) := by
  induction l with
  | nil => rfl
  | cons x l ih =>
    rw [bsum_cons hS, List.filter_cons]
    by_cases h : p x = true
    · simp only [h, if_true]; rw [bsum_cons hS, ih]
    · have h' : p x = false := by simpa using h
      simp only [h', Bool.false_eq_true, if_false]; rw [ih, hS.zero_add]

private theorem bsum_ite_and (l : List α) (b : Bool) (q : α → Bool) (f : α → K) :
    bsum S l (fun x => if (b && q x) = true then f x else S.zero)
      = if b = true then bsum S l (fun x => if q x = true then f x else S.zero) else S.zero := by
  cases b
  · simp [bsum_zero hS]
  · simp

private theorem bsum_const_range (n : Nat) (c : K) :
    bsum S (List.range n) (fun _ => c) = S.mul c (S.ofNat n) := by
  induction n with
  | zero => show S.zero = S.mul c S.zero; rw [mul_zero' hS]
  | succ n ih =>
    rw [List.range_succ, bsum_append hS, ih, bsum_cons hS, bsum_nil, add_zero' hS]
    show _ = S.mul c (S.add (S.ofNat n) S.one)
    rw [hS.left_distrib, mul_one' hS]

private theorem bsum_range_single (n j : Nat) (hj : j < n) (h : Nat → K) :
    bsum S (List.range n) (fun i => if (i == j) = true then h i else S.zero) = h j := by
  induction n with
  | zero => omega
  | succ n ih =>
    rw [List.range_succ, bsum_append hS, bsum_cons hS, bsum_nil, add_zero' hS]
    by_cases hjn : j = n
    · subst hjn
      have : bsum S (List.range j) (fun i => if (i == j) = true then h i else S.zero)
          = bsum S (List.range j) (fun _ => S.zero) := by
        apply bsum_congr; intro x hx
        have : x ≠ j := by have := List.mem_range.1 hx; omega
        simp [this]
      rw [this, bsum_zero hS, hS.zero_add]; simp
    · rw [ih (by omega)]
      have : (n == j) = false := by simp; omega
      simp [this, add_zero' hS]

end bs

/-- a rule as the library builds it: positions are in range, edges are typed by their labels -/
structure RuleWF (G : Grammar K) (r : Rule) : Prop where
  ext : ∀ v ∈ r.ext, v < r.nodes.length
  att : ∀ e ∈ r.edges, ∀ v ∈ e.2, v < r.nodes.length
  typed : ∀ e ∈ r.edges, e.2.map (fun v => r.nodes[v]?.getD 0) = G.labelType e.1
  labels : ∀ e ∈ r.edges, e.1 < G.T + G.nts.length

/-- every nonterminal edge of the rule has a value in `x` -/
def allValued (G : Grammar K) (x : Val K) (r : Rule) : Prop :=
  ∀ e ∈ r.edges, G.T ≤ e.1 → (x[e.1 - G.T]?.join).isSome = true

/-- `sum_product_edges` returns `None` exactly when some nonterminal edge has no value yet -/
theorem sumProductEdges_isSome_iff (S : SR K) (G : Grammar K) (x : Val K) (r : Rule) :
    (Impl.sumProductEdges S G x r.nodes r.edges r.ext).isSome = true ↔ allValued G x r := by
  unfold Impl.sumProductEdges allValued
  split
  · rename_i hany
    simp only [Option.isSome_none, Bool.false_eq_true, false_iff]
    intro hall
    rw [List.any_eq_true] at hany
    obtain ⟨e, he, hc⟩ := hany
    simp only [Bool.and_eq_true, decide_eq_true_eq, ge_iff_le] at hc
    have := hall e he hc.1
    rw [Option.isNone_iff_eq_none] at hc
    rw [hc.2] at this
    simp at this
  · rename_i hany
    simp only [Option.isSome_some, true_iff]
    intro e he hT
    rw [Bool.not_eq_true, List.any_eq_false] at hany
    have := hany e he
    simp only [Bool.and_eq_true, decide_eq_true_eq, ge_iff_le, not_and, Bool.not_eq_true] at this
    have := this hT
    cases h : (x[e.1 - G.T]?.join) <;> simp_all

/-- … and then the rule's specification is zero in every cell (a product with a zero factor) -/
theorem ruleCell_zero_of_missing (S : SR K) (hS : SRLaws S) (G : Grammar K) (x : Val K) (r : Rule)
    (h : ¬ allValued G x r) (a : List Nat) : ruleCell S G x r a = S.zero := by
  unfold allValued at h
  simp only [not_forall] at h
  obtain ⟨e, he, hT, hnone⟩ := h
  have hnone' : x[e.1 - G.T]?.join = none := by
    cases h : (x[e.1 - G.T]?.join) <;> simp_all
  unfold ruleCell
  show bsum S _ _ = _
  rw [← bsum_zero hS]
  apply bsum_congr
  intro ρ _
  apply prod_zero_of_mem hS
  rw [List.mem_map]
  refine ⟨e, he, ?_⟩
  unfold edgeWeight
  have : ¬ e.1 < G.T := by omega
  simp only [this, if_false, hnone']

/-! ### index tuples -/

/-- `b` is a valid index tuple of `shape` -/
private def inShape : List Nat → List Nat → Prop
  | [], [] => True
  | j :: b, n :: s => j < n ∧ inShape b s
  | _, _ => False

private theorem mem_assigns (shape b : List Nat) : b ∈ assigns shape ↔ inShape b shape := by
  induction shape generalizing b with
  | nil => cases b <;> simp [assigns, inShape]
  | cons n rest ih =>
    simp only [assigns, List.mem_flatMap, List.mem_range, List.mem_map]
    cases b with
    | nil => simp [inShape]
    | cons j b =>
      simp only [inShape, List.cons.injEq]
      constructor
      · rintro ⟨i, hi, b', hb', rfl, rfl⟩; exact ⟨hi, (ih _).1 hb'⟩
      · rintro ⟨hj, hb⟩; exact ⟨j, hj, b, (ih _).2 hb, rfl, rfl⟩

private theorem inShape_length {b s : List Nat} (h : inShape b s) : b.length = s.length := by
  induction s generalizing b with
  | nil => cases b <;> simp_all [inShape]
  | cons n s ih =>
    cases b with
    | nil => simp [inShape] at h
    | cons j b => simp [inShape] at h; simp [ih h.2]

private theorem inShape_get {b s : List Nat} (h : inShape b s) (v j n : Nat)
    (hb : b[v]? = some j) (hs : s[v]? = some n) : j < n := by
  induction s generalizing b v with
  | nil => simp at hs
  | cons m s ih =>
    cases b with
    | nil => simp at hb
    | cons i b =>
      simp only [inShape] at h
      cases v with
      | zero => simp at hb hs; omega
      | succ v => simp at hb hs; exact ih h.2 v hb hs

private theorem inShape_of_get {b s : List Nat} (hl : b.length = s.length)
    (h : ∀ v j n : Nat, b[v]? = some j → s[v]? = some n → j < n) : inShape b s := by
  induction s generalizing b with
  | nil => cases b <;> simp_all [inShape]
  | cons m s ih =>
    cases b with
    | nil => simp at hl
    | cons i b =>
      simp only [inShape]
      have h0 := h 0 i m (by simp) (by simp)
      have hl' : b.length = s.length := by simpa using hl
      refine ⟨h0, ih hl' ?_⟩
      intro v j n hb hs
      exact h (v+1) j n (by simpa using hb) (by simpa using hs)

private theorem bsum_assigns_cons {S : SR K} (hS : SRLaws S) (n : Nat) (rest : List Nat) (g : List Nat → K) :
    bsum S (assigns (n :: rest)) g
      = bsum S (List.range n) (fun i => bsum S (assigns rest) (fun ρ => g (i :: ρ))) := by
  show bsum S ((List.range n).flatMap _) g = _
  rw [bsum_flatMap hS]
  apply bsum_congr; intro i _
  rw [bsum_map]

private theorem bsum_assigns_nil {S : SR K} (hS : SRLaws S) (g : List Nat → K) :
    bsum S (assigns []) g = g [] := by
  show bsum S [[]] g = _
  rw [bsum_cons hS, bsum_nil, add_zero' hS]

private theorem bsum_assigns_append {S : SR K} (hS : SRLaws S) (A B : List Nat) (g : List Nat → K) :
    bsum S (assigns (A ++ B)) g
      = bsum S (assigns A) (fun ρ => bsum S (assigns B) (fun σ => g (ρ ++ σ))) := by
  induction A generalizing g with
  | nil => rw [bsum_assigns_nil hS]; rfl
  | cons n A ih =>
    rw [List.cons_append, bsum_assigns_cons hS, bsum_assigns_cons hS]
    apply bsum_congr; intro i _
    rw [ih]; rfl

private theorem foldl_mul_nat (l : List Nat) (a : Nat) :
    l.foldl (· * ·) a = a * l.foldl (· * ·) 1 := by
  induction l generalizing a with
  | nil => simp
  | cons x l ih => rw [List.foldl_cons, ih, List.foldl_cons, ih (1 * x)]; simp [Nat.mul_assoc]

private theorem numel_cons (n : Nat) (rest : List Nat) : numel (n :: rest) = n * numel rest := by
  unfold numel; rw [List.foldl_cons, foldl_mul_nat]; simp

private theorem flatMap_range_uniform {α : Type} (g : Nat → List α) (m : Nat)
    (hg : ∀ i, (g i).length = m) (n : Nat) :
    ((List.range n).flatMap g).length = n * m ∧
      ∀ i, i < n → ∀ j, j < m → ((List.range n).flatMap g)[i * m + j]? = (g i)[j]? := by
  induction n with
  | zero => simp
  | succ n ih =>
    rw [List.range_succ, List.flatMap_append]
    simp only [List.flatMap_cons, List.flatMap_nil, List.append_nil, List.length_append, ih.1, hg]
    refine ⟨by rw [Nat.succ_mul], ?_⟩
    intro i hi j hj
    by_cases hin : i < n
    · rw [List.getElem?_append_left, ih.2 i hin j hj]
      rw [ih.1]
      calc i * m + j < i * m + m := by omega
        _ = (i + 1) * m := by rw [Nat.succ_mul]
        _ ≤ n * m := Nat.mul_le_mul_right m (by omega)
    · have : i = n := by omega
      subst this
      rw [List.getElem?_append_right (by rw [ih.1]; omega), ih.1]
      congr 1; omega

private theorem assigns_length (shape : List Nat) : (assigns shape).length = numel shape := by
  induction shape with
  | nil => rfl
  | cons n rest ih =>
    rw [numel_cons]
    exact (flatMap_range_uniform (fun i => (assigns rest).map (i :: ·)) (numel rest)
      (by intro i; simp [ih]) n).1

private theorem assigns_getElem_flat (shape b : List Nat) (hb : inShape b shape) :
    (assigns shape)[flat shape b]? = some b := by
  induction shape generalizing b with
  | nil => cases b <;> simp_all [inShape, assigns, flat]
  | cons n rest ih =>
    cases b with
    | nil => simp [inShape] at hb
    | cons i b =>
      simp only [inShape] at hb
      have h1 := ih b hb.2
      have hlt : flat rest b < numel rest := by
        rw [← assigns_length]
        by_contra hc
        rw [List.getElem?_eq_none (by omega)] at h1
        simp at h1
      have := (flatMap_range_uniform (fun i => (assigns rest).map (i :: ·)) (numel rest)
        (by intro i; simp [assigns_length]) n).2 i hb.1 _ hlt
      show ((List.range n).flatMap _)[i * numel rest + flat rest b]? = _
      rw [this, List.getElem?_map, h1]; rfl

private theorem getT_assigns_map_b (S : SR K) (shape b : List Nat) (f : List Nat → K)
    (hb : inShape b shape) : getT S ((assigns shape).map f) shape b = f b := by
  unfold getT
  rw [List.getElem?_map, assigns_getElem_flat shape b hb]; rfl

/-! ### stage A: dropping the unused coordinates (unattached externals, isolated internals) -/

/-- sizes with the coordinates outside `c` set to 1 -/
private def mask (c : Nat → Bool) : List Nat → List Nat
  | [] => []
  | n :: rest => (if c 0 then n else 1) :: mask (fun v => c (v+1)) rest

/-- the assignment `ρ` takes the pinned values -/
private def hdOk (p : Option Nat) (i : Nat) : Bool :=
  match p with
  | none => true
  | some j => i == j

private theorem hdOk_none (i : Nat) : hdOk none i = true := by rw [hdOk]
private theorem hdOk_some (j i : Nat) : hdOk (some j) i = (i == j) := by rw [hdOk]

private def okP (pin : Nat → Option Nat) : List Nat → Bool
  | [] => true
  | i :: ρ => hdOk (pin 0) i && okP (fun v => pin (v+1)) ρ

private theorem okP_cons (pin : Nat → Option Nat) (i : Nat) (ρ : List Nat) :
    okP pin (i :: ρ) = (hdOk (pin 0) i && okP (fun v => pin (v+1)) ρ) := by
  rw [okP]

private def multOf (c : Nat → Bool) (pin : Nat → Option Nat) : List Nat → Nat
  | [] => 1
  | n :: rest => (if !c 0 && (pin 0).isNone then n else 1)
      * multOf (fun v => c (v+1)) (fun v => pin (v+1)) rest

private def pinC (c : Nat → Bool) (pin : Nat → Option Nat) : Nat → Option Nat :=
  fun v => if c v then pin v else none

/-- `F` depends only on the coordinates in `c` -/
private def Dep (c : Nat → Bool) (F : List Nat → K) : Prop :=
  ∀ ρ ρ' : List Nat, (∀ v, c v = true → ρ[v]?.getD 0 = ρ'[v]?.getD 0) → F ρ = F ρ'

private theorem Dep_tail {c : Nat → Bool} {F : List Nat → K} (hF : Dep c F) (i : Nat) :
    Dep (fun v => c (v+1)) (fun ρ => F (i :: ρ)) := by
  intro ρ ρ' h
  apply hF
  intro v hv
  cases v with
  | zero => rfl
  | succ v => simpa using h v hv

private theorem Dep_head {c : Nat → Bool} {F : List Nat → K} (hF : Dep c F) (h0 : c 0 = false)
    (i j : Nat) (ρ : List Nat) : F (i :: ρ) = F (j :: ρ) := by
  apply hF
  intro v hv
  cases v with
  | zero => simp [h0] at hv
  | succ v => simp

private theorem GL {S : SR K} (hS : SRLaws S) (sizes : List Nat) (c : Nat → Bool) (pin : Nat → Option Nat)
    (F : List Nat → K) (hF : Dep c F)
    (hpin : ∀ v j n : Nat, pin v = some j → sizes[v]? = some n → j < n) :
    bsum S (assigns sizes) (fun ρ => if okP pin ρ = true then F ρ else S.zero)
      = S.mul (bsum S (assigns (mask c sizes)) (fun ρ => if okP (pinC c pin) ρ = true then F ρ else S.zero))
          (S.ofNat (multOf c pin sizes)) := by
  induction sizes generalizing c pin F with
  | nil =>
    simp only [mask, multOf, bsum_assigns_nil hS, okP, if_true, ofNat_one hS, mul_one' hS]
  | cons n rest ih =>
    have hpin' : ∀ v j m : Nat, pin (v+1) = some j → rest[v]? = some m → j < m := by
      intro v j m h1 h2; exact hpin (v+1) j m h1 (by simpa using h2)
    have IH := fun i => ih (fun v => c (v+1)) (fun v => pin (v+1)) (fun ρ => F (i :: ρ))
      (Dep_tail hF i) hpin'
    have hpc : (fun v => pinC c pin (v+1)) = pinC (fun v => c (v+1)) (fun v => pin (v+1)) := rfl
    -- abbreviations
    simp only [mask, multOf]
    rw [bsum_assigns_cons hS, bsum_assigns_cons hS]
    simp only [okP_cons, hpc]
    by_cases hc : c 0 = true
    · -- a used coordinate: kept on both sides
      have hp0 : pinC c pin 0 = pin 0 := by simp [pinC, hc]
      simp only [hc, if_true, hp0, Bool.not_true, Bool.false_and, Bool.false_eq_true, if_false, Nat.one_mul]
      rw [← bsum_mul_right hS]
      apply bsum_congr; intro i _
      rw [bsum_ite_and hS, bsum_ite_and hS, IH i]
      split <;> simp [hS.zero_mul]
    · have hc' : c 0 = false := by simpa using hc
      have hp0 : pinC c pin 0 = none := by simp [pinC, hc']
      simp only [hc', Bool.false_eq_true, if_false, hp0, Bool.not_false, Bool.true_and]
      rw [show List.range 1 = [0] from rfl, bsum_cons hS, bsum_nil, add_zero' hS]
      simp only [hdOk_none, Bool.true_and]
      cases hp : pin 0 with
      | none =>
        -- an isolated internal node: the factor `n`
        simp only [hdOk_none, Option.isNone_none, if_true, Bool.true_and]
        have : ∀ i ∈ List.range n,
            bsum S (assigns rest) (fun ρ => if okP (fun v => pin (v+1)) ρ = true then F (i :: ρ) else S.zero)
            = bsum S (assigns rest) (fun ρ => if okP (fun v => pin (v+1)) ρ = true then F (0 :: ρ) else S.zero) := by
          intro i _; apply bsum_congr; intro ρ _; rw [Dep_head hF hc' i 0]
        rw [bsum_congr _ _ _ this, bsum_const_range hS, IH 0, ofNat_mul hS, hS.mul_assoc,
          hS.mul_comm (S.ofNat n)]
      | some j =>
        -- an unattached external node: pinned on the left, dropped on the right
        simp only [hdOk_some, Option.isNone_some, Bool.false_eq_true, if_false, Nat.one_mul]
        have hj : j < n := hpin 0 j n hp (by simp)
        have : ∀ i ∈ List.range n,
            bsum S (assigns rest) (fun ρ => if (i == j && okP (fun v => pin (v+1)) ρ) = true then F (i :: ρ) else S.zero)
            = if (i == j) = true then
                bsum S (assigns rest) (fun ρ => if okP (fun v => pin (v+1)) ρ = true then F (0 :: ρ) else S.zero)
              else S.zero := by
          intro i _
          rw [bsum_ite_and hS]
          split
          · apply bsum_congr; intro ρ _; rw [Dep_head hF hc' i 0]
          · rfl
        rw [bsum_congr _ _ _ this, bsum_range_single hS n j hj (fun _ => _), IH 0]

private theorem mask_length (c : Nat → Bool) (sizes : List Nat) : (mask c sizes).length = sizes.length := by
  induction sizes generalizing c with
  | nil => rfl
  | cons n rest ih => simp [mask, ih]

private theorem mask_eq (c : Nat → Bool) (sizes : List Nat) (k : Nat) :
    (sizes.zipIdx k).map (fun x => match x with | (n, v) => if c v = true then n else 1)
      = mask (fun v => c (v + k)) sizes := by
  induction sizes generalizing k with
  | nil => rfl
  | cons n rest ih =>
    rw [List.zipIdx_cons, List.map_cons, ih (k+1)]
    simp only [mask, Nat.zero_add]
    congr 2
    funext v
    congr 1; omega

private theorem okP_iff (pin : Nat → Option Nat) (ρ : List Nat) :
    okP pin ρ = true ↔ ∀ v j i : Nat, pin v = some j → ρ[v]? = some i → i = j := by
  induction ρ generalizing pin with
  | nil => simp [okP]
  | cons i ρ ih =>
    rw [okP_cons, Bool.and_eq_true, ih]
    constructor
    · rintro ⟨h0, h1⟩ v j i' hp hr
      cases v with
      | zero =>
        rw [hp, hdOk_some] at h0
        simp at hr h0; omega
      | succ v => exact h1 v j i' hp (by simpa using hr)
    · intro h
      refine ⟨?_, fun v j i' hp hr => h (v+1) j i' hp (by simpa using hr)⟩
      cases hp : pin 0 with
      | none => rw [hdOk_none]
      | some j => rw [hdOk_some]; simpa using h 0 j i hp (by simp)

private def pinZ (z : List (Nat × Nat)) (v : Nat) : Option Nat :=
  (z.find? (fun p => p.1 == v)).map (·.2)

private theorem pinZ_iff (z : List (Nat × Nat)) (hz : (z.map Prod.fst).Nodup) (v j : Nat) :
    pinZ z v = some j ↔ (v, j) ∈ z := by
  induction z with
  | nil => simp [pinZ]
  | cons p z ih =>
    rw [List.map_cons, List.nodup_cons] at hz
    unfold pinZ at ih ⊢
    rw [List.find?_cons]
    by_cases hp : p.1 = v
    · have : (p.1 == v) = true := by simpa using hp
      simp only [this, Option.map_some, Option.some.injEq, List.mem_cons]
      constructor
      · intro h; left; rw [← hp, ← h]
      · rintro (h | h)
        · rw [← h]
        · exfalso; apply hz.1; rw [hp]; exact List.mem_map.2 ⟨(v, j), h, rfl⟩
    · have : (p.1 == v) = false := by simpa using hp
      simp only [this, List.mem_cons]
      rw [ih hz.2]
      constructor
      · intro h; right; exact h
      · rintro (h | h)
        · exfalso; apply hp; rw [← h]
        · exact h

private theorem pinZ_none (z : List (Nat × Nat)) (v : Nat) :
    (pinZ z v).isNone = !(z.map Prod.fst).contains v := by
  induction z with
  | nil => simp [pinZ]
  | cons p z ih =>
    unfold pinZ at ih ⊢
    rw [List.find?_cons]
    by_cases hp : p.1 = v
    · simp [hp]
    · have : (p.1 == v) = false := by simpa using hp
      have h2 : (v == p.1) = false := by simpa using (fun h => hp h.symm)
      simp only [this, ih, List.map_cons, List.contains_cons, h2, Bool.false_or]

private theorem map_beq_iff (z : List (Nat × Nat)) (f : Nat → Nat) :
    ((z.map Prod.fst).map f == z.map Prod.snd) = true ↔ ∀ p ∈ z, f p.1 = p.2 := by
  rw [beq_iff_eq]
  induction z with
  | nil => simp
  | cons p z ih => simp [ih]

private theorem predEq (z : List (Nat × Nat)) (hz : (z.map Prod.fst).Nodup) (c : Nat → Bool)
    (ρ : List Nat) (hlt : ∀ p ∈ z, p.1 < ρ.length) :
    (((z.filter (fun p => c p.1)).map Prod.fst).map (fun v => ρ[v]?.getD 0)
        == (z.filter (fun p => c p.1)).map Prod.snd) = okP (pinC c (pinZ z)) ρ := by
  rw [Bool.eq_iff_iff, map_beq_iff, okP_iff]
  constructor
  · intro h v j i hp hr
    unfold pinC at hp
    by_cases hc : c v = true
    · rw [if_pos hc, pinZ_iff z hz] at hp
      have := h (v, j) (List.mem_filter.2 ⟨hp, hc⟩)
      simp only [hr, Option.getD_some] at this
      exact this
    · rw [if_neg hc] at hp; simp at hp
  · intro h p hp
    rw [List.mem_filter] at hp
    have hl := hlt p hp.1
    have hr : ρ[p.1]? = some ρ[p.1] := List.getElem?_eq_getElem hl
    rw [hr, Option.getD_some]
    apply h p.1 p.2 _ _ hr
    unfold pinC
    rw [if_pos hp.2, pinZ_iff z hz]
    exact hp.1

private theorem inShape_zip (ext a : List Nat) (g : Nat → Nat) (ha : inShape a (ext.map g)) :
    ∀ p ∈ ext.zip a, p.2 < g p.1 := by
  induction ext generalizing a with
  | nil => simp
  | cons v ext ih =>
    cases a with
    | nil => simp
    | cons j a =>
      simp only [List.map_cons, inShape] at ha
      intro p hp
      rw [List.zip_cons_cons, List.mem_cons] at hp
      rcases hp with rfl | hp
      · exact ha.1
      · exact ih a ha.2 p hp

private theorem foldl_mul_nat' (g : Nat → Nat) (l : List Nat) (a : Nat) :
    l.foldl (fun m v => m * g v) a = a * l.foldl (fun m v => m * g v) 1 := by
  induction l generalizing a with
  | nil => simp
  | cons x l ih => rw [List.foldl_cons, ih, List.foldl_cons, ih (1 * g x)]; simp [Nat.mul_assoc]

private theorem multOf_eq (c : Nat → Bool) (pin : Nat → Option Nat) (sizes : List Nat) :
    multOf c pin sizes
      = ((List.range sizes.length).filter (fun v => !c v && (pin v).isNone)).foldl
          (fun m v => m * (sizes[v]?.getD 0)) 1 := by
  induction sizes generalizing c pin with
  | nil => rfl
  | cons n rest ih =>
    rw [multOf, ih, List.length_cons, List.range_succ_eq_map, List.filter_cons, List.filter_map,
      ]
    have hfold : ∀ l : List Nat, ∀ a,
        (l.map Nat.succ).foldl (fun m v => m * ((n :: rest)[v]?.getD 0)) a
          = l.foldl (fun m v => m * (rest[v]?.getD 0)) a := by
      intro l a; rw [List.foldl_map]; simp
    by_cases h : (!c 0 && (pin 0).isNone) = true
    · rw [if_pos h, if_pos h, List.foldl_cons, hfold, foldl_mul_nat' _ _ (1 * _)]
      simp only [List.getElem?_cons_zero, Option.getD_some, Nat.one_mul]
      rfl
    · rw [if_neg h, if_neg h, hfold, Nat.one_mul]
      rfl

private theorem stageA {S : SR K} (hS : SRLaws S) (sizes ext' a : List Nat) (c : Nat → Bool)
    (F : List Nat → K) (hF : Dep c F) (hnd : ext'.Nodup) (hlt : ∀ v ∈ ext', v < sizes.length)
    (ha : inShape a (ext'.map (fun v => sizes[v]?.getD 0))) :
    bsum S ((assigns sizes).filter (fun ρ => ext'.map (fun v => ρ[v]?.getD 0) == a)) F
      = S.mul (bsum S ((assigns (mask c sizes)).filter (fun ρ =>
            (ext'.filter (fun v => c v)).map (fun v => ρ[v]?.getD 0)
              == ((ext'.zip a).filter (fun p => c p.1)).map (·.2))) F)
          (S.ofNat (((List.range sizes.length).filter (fun v => !c v && !ext'.contains v)).foldl
            (fun m v => m * (sizes[v]?.getD 0)) 1)) := by
  have hlen : a.length = ext'.length := by rw [inShape_length ha, List.length_map]
  have h1 : (ext'.zip a).map Prod.fst = ext' := List.map_fst_zip (by omega)
  have h2 : (ext'.zip a).map Prod.snd = a := List.map_snd_zip (by omega)
  have hz : ((ext'.zip a).map Prod.fst).Nodup := by rw [h1]; exact hnd
  rw [bsum_filter hS, bsum_filter hS]
  have hL : ∀ ρ ∈ assigns sizes,
      (if (ext'.map (fun v => ρ[v]?.getD 0) == a) = true then F ρ else S.zero)
      = (if okP (pinZ (ext'.zip a)) ρ = true then F ρ else S.zero) := by
    intro ρ hρ
    have hl : ρ.length = sizes.length := inShape_length ((mem_assigns _ _).1 hρ)
    have := predEq (ext'.zip a) hz (fun _ => true) ρ (by
      intro p hp; rw [hl]; apply hlt; rw [← h1]; exact List.mem_map.2 ⟨p, hp, rfl⟩)
    simp only [List.filter_true, h1, h2] at this
    rw [this]
    have : pinC (fun _ => true) (pinZ (ext'.zip a)) = pinZ (ext'.zip a) := by
      funext v; simp [pinC]
    rw [this]
  have hR : ∀ ρ ∈ assigns (mask c sizes),
      (if ((ext'.filter (fun v => c v)).map (fun v => ρ[v]?.getD 0)
              == ((ext'.zip a).filter (fun p => c p.1)).map (·.2)) = true then F ρ else S.zero)
      = (if okP (pinC c (pinZ (ext'.zip a))) ρ = true then F ρ else S.zero) := by
    intro ρ hρ
    have hl : ρ.length = sizes.length := by
      rw [inShape_length ((mem_assigns _ _).1 hρ), mask_length]
    have := predEq (ext'.zip a) hz c ρ (by
      intro p hp; rw [hl]; apply hlt; rw [← h1]; exact List.mem_map.2 ⟨p, hp, rfl⟩)
    rw [← this]
    have h3 : ((ext'.zip a).filter (fun p => c p.1)).map Prod.fst = ext'.filter (fun v => c v) := by
      conv_rhs => rw [← h1]
      rw [List.filter_map]; rfl
    rw [h3]
  rw [bsum_congr _ _ _ hL, bsum_congr _ _ _ hR]
  rw [GL hS sizes c (pinZ (ext'.zip a)) F hF, multOf_eq]
  · congr 3
    apply List.filter_congr
    intro v _
    rw [pinZ_none, h1]
  · intro v j n hp hs
    rw [pinZ_iff _ hz] at hp
    have := inShape_zip ext' a _ ha (v, j) hp
    simpa [hs] using this

/-! ### stage B: eliminating the copies of repeated externals (identity factors) -/

private theorem prod_delta {S : SR K} (hS : SRLaws S) (vs : List Nat) (m : Nat) (f g : Nat → Nat) :
    S.prod ((vs.zipIdx m).map (fun p => if f p.1 = g p.2 then S.one else S.zero))
      = if vs.map f = (List.range' m vs.length).map g then S.one else S.zero := by
  induction vs generalizing m with
  | nil => simp [SR.prod]
  | cons v vs ih =>
    rw [List.zipIdx_cons, List.map_cons, prod_cons hS, ih, List.length_cons, List.range'_succ,
      List.map_cons, List.map_cons]
    by_cases h : f v = g m
    · simp [h, hS.one_mul]
    · simp [h, hS.zero_mul]

private theorem bsum_assigns_single {S : SR K} (hS : SRLaws S) (B b : List Nat) (hb : inShape b B)
    (g : List Nat → K) :
    bsum S (assigns B) (fun σ => if σ = b then g σ else S.zero) = g b := by
  induction B generalizing b g with
  | nil =>
    cases b with
    | nil => rw [bsum_assigns_nil hS]; simp
    | cons j b => simp [inShape] at hb
  | cons n B ih =>
    cases b with
    | nil => simp [inShape] at hb
    | cons j b =>
      simp only [inShape] at hb
      rw [bsum_assigns_cons hS]
      have : ∀ i ∈ List.range n,
          bsum S (assigns B) (fun σ => if i :: σ = j :: b then g (i :: σ) else S.zero)
            = if (i == j) = true then g (i :: b) else S.zero := by
        intro i _
        by_cases hij : i = j
        · subst hij
          simp only [List.cons.injEq, true_and, beq_self_eq_true, if_true]
          exact ih b hb.2 (fun σ => g (i :: σ))
        · have : (i == j) = false := by simpa using hij
          simp only [List.cons.injEq, hij, false_and, if_false, this, Bool.false_eq_true]
          exact bsum_zero hS _
      rw [bsum_congr _ _ _ this, bsum_range_single hS n j hb.1 (fun i => g (i :: b))]

private theorem inShape_map (vs : List Nat) (f g : Nat → Nat) (h : ∀ u ∈ vs, f u < g u) :
    inShape (vs.map f) (vs.map g) := by
  induction vs with
  | nil => simp [inShape]
  | cons v vs ih =>
    simp only [List.map_cons, inShape]
    exact ⟨h v (by simp), ih (fun u hu => h u (by simp [hu]))⟩

private theorem range'_map_append (ρ σ : List Nat) :
    (List.range' ρ.length σ.length).map (fun c => (ρ ++ σ)[c]?.getD 0) = σ := by
  apply List.ext_getElem?
  intro i
  rw [List.getElem?_map]
  by_cases hi : i < σ.length
  · rw [List.getElem?_range' hi, Option.map_some, Nat.one_mul,
      List.getElem?_append_right (Nat.le_add_right _ _), Nat.add_sub_cancel_left,
      List.getElem?_eq_getElem (l := σ) hi]
    rfl
  · rw [List.getElem?_eq_none (l := σ) (by omega), List.getElem?_eq_none (by simp; omega)]
    rfl

private theorem stageB {S : SR K} (hS : SRLaws S) (N vs ext' ext a : List Nat) (P : List Nat → K)
    (hvs : ∀ v ∈ vs, v < N.length)
    (hP : ∀ ρ σ : List Nat, ρ.length = N.length → P (ρ ++ σ) = P ρ)
    (hI : ∀ ρ : List Nat, ρ.length = N.length →
      ext'.map (fun v => (ρ ++ vs.map (fun u => ρ[u]?.getD 0))[v]?.getD 0)
        = ext.map (fun v => ρ[v]?.getD 0)) :
    bsum S ((assigns (N ++ vs.map (fun u => N[u]?.getD 0))).filter
        (fun ρ' => ext'.map (fun v => ρ'[v]?.getD 0) == a))
      (fun ρ' => S.mul (S.prod ((vs.zipIdx N.length).map
        (fun p => if ρ'[p.1]?.getD 0 = ρ'[p.2]?.getD 0 then S.one else S.zero))) (P ρ'))
    = bsum S ((assigns N).filter (fun ρ => ext.map (fun v => ρ[v]?.getD 0) == a)) P := by
  rw [bsum_filter hS, bsum_filter hS, bsum_assigns_append hS]
  apply bsum_congr
  intro ρ hρ
  have hin := (mem_assigns _ _).1 hρ
  have hl : ρ.length = N.length := inShape_length hin
  have hbin : inShape (vs.map (fun u => ρ[u]?.getD 0)) (vs.map (fun u => N[u]?.getD 0)) := by
    apply inShape_map
    intro u hu
    have hu' := hvs u hu
    have h1 : ρ[u]? = some ρ[u] := List.getElem?_eq_getElem (by omega)
    have h2 : N[u]? = some N[u] := List.getElem?_eq_getElem hu'
    rw [h1, h2]
    exact inShape_get hin u _ _ h1 h2
  have hsum : ∀ σ ∈ assigns (vs.map (fun u => N[u]?.getD 0)),
      (if (ext'.map (fun v => (ρ ++ σ)[v]?.getD 0) == a) = true then
          S.mul (S.prod ((vs.zipIdx N.length).map
            (fun p => if (ρ ++ σ)[p.1]?.getD 0 = (ρ ++ σ)[p.2]?.getD 0 then S.one else S.zero))) (P (ρ ++ σ))
        else S.zero)
      = if σ = vs.map (fun u => ρ[u]?.getD 0) then
          (if (ext'.map (fun v => (ρ ++ σ)[v]?.getD 0) == a) = true then P ρ else S.zero)
        else S.zero := by
    intro σ hσ
    have hσl : σ.length = vs.length := by
      rw [inShape_length ((mem_assigns _ _).1 hσ), List.length_map]
    rw [prod_delta hS vs N.length (fun u => (ρ ++ σ)[u]?.getD 0) (fun u => (ρ ++ σ)[u]?.getD 0),
      hP ρ σ hl, ← hl, ← hσl, range'_map_append]
    have : vs.map (fun u => (ρ ++ σ)[u]?.getD 0) = vs.map (fun u => ρ[u]?.getD 0) := by
      apply List.map_congr_left
      intro u hu
      rw [List.getElem?_append_left (by have := hvs u hu; omega)]
    rw [this]
    by_cases h : σ = vs.map (fun u => ρ[u]?.getD 0)
    · have h' : vs.map (fun u => ρ[u]?.getD 0) = σ := h.symm
      simp only [if_pos h, if_pos h', hS.one_mul]
    · have h' : ¬ vs.map (fun u => ρ[u]?.getD 0) = σ := fun h' => h h'.symm
      simp only [if_neg h, if_neg h', hS.zero_mul, ite_self]
  rw [bsum_congr _ _ _ hsum, bsum_assigns_single hS _ _ hbin
    (fun σ => if (ext'.map (fun v => (ρ ++ σ)[v]?.getD 0) == a) = true then P ρ else S.zero)]
  simp only [hI ρ hl]

/-! ### step (i): renaming repeated externals apart -/

private def renStep (nodes : List Nat) (acc : List Nat × List Nat × List (Nat × Nat)) (v : Nat) :
    List Nat × List Nat × List (Nat × Nat) :=
  match acc with
  | (ext', labs, ids) =>
    if ext'.contains v then
      (ext' ++ [labs.length], labs ++ [nodes[v]?.getD 0], ids ++ [(v, labs.length)])
    else (ext' ++ [v], labs, ids)

private structure RenInv (nodes p : List Nat) (st : List Nat × List Nat × List (Nat × Nat)) : Prop where
  labs : st.2.1 = nodes ++ (st.2.2.map Prod.fst).map (fun u => nodes[u]?.getD 0)
  ids : st.2.2 = (st.2.2.map Prod.fst).zipIdx nodes.length
  vs : ∀ u ∈ st.2.2.map Prod.fst, u < nodes.length
  nodup : st.1.Nodup
  bound : ∀ v ∈ st.1, v < nodes.length + st.2.2.length
  sem : ∀ ρ : List Nat, ρ.length = nodes.length →
    st.1.map (fun v => (ρ ++ (st.2.2.map Prod.fst).map (fun u => ρ[u]?.getD 0))[v]?.getD 0)
      = p.map (fun v => ρ[v]?.getD 0)

private theorem renInv_step (nodes p : List Nat) (st : List Nat × List Nat × List (Nat × Nat))
    (h : RenInv nodes p st) (v : Nat) (hv : v < nodes.length) :
    RenInv nodes (p ++ [v]) (renStep nodes st v) := by
  obtain ⟨e, l, i⟩ := st
  obtain ⟨hlabs, hids, hvs, hnd, hb, hsem⟩ := h
  simp only at hlabs hids hvs hnd hb hsem
  have hll : l.length = nodes.length + i.length := by rw [hlabs]; simp
  unfold renStep
  by_cases hc : e.contains v = true
  · simp only [hc, if_true]
    refine ⟨?_, ?_, ?_, ?_, ?_, ?_⟩
    · show l ++ [nodes[v]?.getD 0] = _
      simp only [List.map_append, List.map_cons, List.map_nil]
      rw [← List.append_assoc, ← hlabs]
    · show i ++ [(v, l.length)] = _
      simp only [List.map_append, List.map_cons, List.map_nil]
      rw [List.zipIdx_append, ← hids, hll]
      simp
    · show ∀ u ∈ (i ++ [(v, l.length)]).map Prod.fst, u < nodes.length
      intro u hu
      simp only [List.map_append, List.map_cons, List.map_nil, List.mem_append, List.mem_singleton] at hu
      rcases hu with hu | hu
      · exact hvs u hu
      · omega
    · show (e ++ [l.length]).Nodup
      rw [List.nodup_append]
      refine ⟨hnd, by simp, ?_⟩
      intro a ha b hb' hab
      simp only [List.mem_singleton] at hb'
      have := hb a ha
      omega
    · show ∀ u ∈ e ++ [l.length], u < nodes.length + (i ++ [(v, l.length)]).length
      intro u hu
      simp only [List.mem_append, List.mem_singleton] at hu
      simp only [List.length_append, List.length_cons, List.length_nil]
      rcases hu with hu | hu
      · have := hb u hu; omega
      · omega
    · intro ρ hρ
      show (e ++ [l.length]).map (fun u => (ρ ++ ((i ++ [(v, l.length)]).map Prod.fst).map
        (fun u => ρ[u]?.getD 0))[u]?.getD 0) = _
      simp only [List.map_append, List.map_cons, List.map_nil]
      rw [← hsem ρ hρ, ← List.append_assoc]
      congr 1
      · apply List.map_congr_left
        intro u hu
        rw [List.getElem?_append_left (by have := hb u hu; simp; omega)]
      · rw [List.getElem?_append_right (by simp; omega)]
        simp [hll, hρ]
  · have hc' : e.contains v = false := by simpa using hc
    simp only [hc', Bool.false_eq_true, if_false]
    refine ⟨hlabs, hids, hvs, ?_, ?_, ?_⟩
    · show (e ++ [v]).Nodup
      rw [List.nodup_append]
      refine ⟨hnd, by simp, ?_⟩
      intro a ha b hb' hab
      simp only [List.mem_singleton] at hb'
      subst hb'; subst hab
      simp at hc'
      exact hc' ha
    · show ∀ u ∈ e ++ [v], u < nodes.length + i.length
      intro u hu
      simp only [List.mem_append, List.mem_singleton] at hu
      rcases hu with hu | hu
      · exact hb u hu
      · omega
    · intro ρ hρ
      show (e ++ [v]).map (fun u => (ρ ++ (i.map Prod.fst).map (fun u => ρ[u]?.getD 0))[u]?.getD 0) = _
      simp only [List.map_append, List.map_cons, List.map_nil]
      rw [← hsem ρ hρ, List.getElem?_append_left (by omega)]

private theorem renInv_foldl (nodes ext p : List Nat) (st : List Nat × List Nat × List (Nat × Nat))
    (h : RenInv nodes p st) (hext : ∀ v ∈ ext, v < nodes.length) :
    RenInv nodes (p ++ ext) (ext.foldl (renStep nodes) st) := by
  induction ext generalizing p st with
  | nil => simpa using h
  | cons v ext ih =>
    rw [List.foldl_cons]
    have := ih (p ++ [v]) _ (renInv_step nodes p st h v (hext v (by simp)))
      (fun u hu => hext u (by simp [hu]))
    simpa using this

private theorem renInv (nodes ext : List Nat) (hext : ∀ v ∈ ext, v < nodes.length) :
    RenInv nodes ext (ext.foldl (renStep nodes) ([], nodes, [])) := by
  have := renInv_foldl nodes ext [] ([], nodes, [])
    ⟨by simp, by simp, by simp, by simp, by simp, by simp⟩ hext
  simpa using this

/-! ### the model, with the renaming fold separated -/

private def spBody (S : SR K) (G : Grammar K) (x : Val K) (nodes : List Nat) (edges : List (Nat × List Nat))
    (ext' labs : List Nat) (ids : List (Nat × Nat)) : Option (List K) :=
  let sizes := G.shapeOf labs
  if edges.any (fun e => e.1 ≥ G.T && (x[e.1 - G.T]?.join).isNone) then none
  else
    let connected : List Nat := (ids.flatMap (fun p => [p.1, p.2]) ++ edges.flatMap (·.2)).eraseDups
    let idOps : List ((List Nat → K) × List Nat) :=
      ids.map (fun p => ((fun idx => if idx[0]? == idx[1]? then S.one else S.zero), [p.1, p.2]))
    let edgeOps : List ((List Nat → K) × List Nat) := edges.map (fun e => (edgeWeight S G x e.1, e.2))
    let outputs := ext'.filter (connected.contains ·)
    let core := einsumSpec S sizes (idOps ++ edgeOps) outputs
    let outShape := outputs.map (fun v => sizes[v]?.getD 0)
    let full : List K := (assigns (ext'.map (fun v => sizes[v]?.getD 0))).map (fun a =>
      let sub := (ext'.zip a).filter (fun p => connected.contains p.1) |>.map (·.2)
      getT S core outShape sub)
    let mult := ((List.range nodes.length).filter (fun v => !connected.contains v && !ext'.contains v)).foldl
      (fun m v => m * (sizes[v]?.getD 0)) 1
    some (if mult == 1 then full else full.map (fun c => S.mul c (S.ofNat mult)))

private theorem spe_unfold (S : SR K) (G : Grammar K) (x : Val K) (nodes : List Nat)
    (edges : List (Nat × List Nat)) (ext : List Nat) :
    Impl.sumProductEdges S G x nodes edges ext
      = spBody S G x nodes edges (ext.foldl (renStep nodes) ([], nodes, [])).1
          (ext.foldl (renStep nodes) ([], nodes, [])).2.1 (ext.foldl (renStep nodes) ([], nodes, [])).2.2 := rfl

private theorem zipIdx_snd (vs : List Nat) (m : Nat) (ids : List (Nat × Nat)) (h : ids = vs.zipIdx m)
    (j : Nat) (hj : j < ids.length) : (ids[j]).2 = m + j := by
  subst h; simp

private theorem inShape_filter_zip (c : Nat → Bool) (g : Nat → Nat) (ext a : List Nat)
    (ha : inShape a (ext.map g)) :
    inShape (((ext.zip a).filter (fun p => c p.1)).map (·.2)) ((ext.filter (fun v => c v)).map g) := by
  induction ext generalizing a with
  | nil => simp [inShape]
  | cons v ext ih =>
    cases a with
    | nil => simp [inShape] at ha
    | cons j a =>
      simp only [List.map_cons, inShape] at ha
      rw [List.zip_cons_cons, List.filter_cons, List.filter_cons]
      by_cases hc : c v = true
      · simp only [hc, if_true, List.map_cons, inShape]
        exact ⟨ha.1, ih a ha.2⟩
      · simp only [hc, if_false]
        exact ih a ha.2

/-- **the code's steps compute the specification**, for every rule shape: isolated internal nodes
(factor |domain|), external nodes without edges (broadcast), repeated attachments (diagonal), nullary
factors, repeated external nodes (identity factors) -/
theorem sumProductEdges_eq_ruleValue (S : SR K) (hS : SRLaws S) (G : Grammar K) (x : Val K) (r : Rule)
    (hr : RuleWF G r) (t : List K) (h : Impl.sumProductEdges S G x r.nodes r.edges r.ext = some t) :
    t = ruleValue S G x r := by
  rw [spe_unfold] at h
  have hinv := renInv r.nodes r.ext hr.ext
  generalize List.foldl (renStep r.nodes) ([], r.nodes, []) r.ext = st at h hinv
  obtain ⟨ext', labs, ids⟩ := st
  obtain ⟨hlabs, hids, hvs, hnd, hb, hsem⟩ := hinv
  simp only at hlabs hids hvs hnd hb hsem h
  unfold spBody at h
  extract_lets sizes connected idOps edgeOps outputs core outShape full mult at h
  split at h
  · simp at h
  simp only [Option.some.injEq] at h
  -- abbreviations
  have hszlen : sizes.length = r.nodes.length + ids.length := by
    show (G.shapeOf labs).length = _
    rw [hlabs]; simp [Grammar.shapeOf]
  have hN : ∀ u, u < r.nodes.length →
      (G.shapeOf r.nodes)[u]?.getD 0 = G.dom (r.nodes[u]?.getD 0) := by
    intro u hu
    simp [Grammar.shapeOf, List.getElem?_eq_getElem hu]
  have hsizes : sizes = G.shapeOf r.nodes
      ++ (ids.map Prod.fst).map (fun u => (G.shapeOf r.nodes)[u]?.getD 0) := by
    show G.shapeOf labs = _
    rw [hlabs]
    unfold Grammar.shapeOf
    rw [List.map_append, List.map_map]
    congr 1
    apply List.map_congr_left
    intro u hu
    have := hN u (hvs u hu)
    unfold Grammar.shapeOf at this
    rw [this]; rfl
  have hshape : ext'.map (fun v => sizes[v]?.getD 0)
      = G.shapeOf (r.ext.map (fun v => r.nodes[v]?.getD 0)) := by
    rw [hsizes, hsem (G.shapeOf r.nodes) (by simp [Grammar.shapeOf])]
    unfold Grammar.shapeOf
    rw [List.map_map]
    apply List.map_congr_left
    intro u hu
    have := hN u (hr.ext u hu)
    unfold Grammar.shapeOf at this
    rw [this]; rfl
  -- connectivity facts
  have hcmem : ∀ v, connected.contains v = true ↔
      v ∈ ids.flatMap (fun p => [p.1, p.2]) ∨ v ∈ r.edges.flatMap (·.2) := by
    intro v
    show (List.eraseDups (_ ++ _)).contains v = true ↔ _
    rw [List.contains_iff_mem, List.mem_eraseDups, List.mem_append]
  have hcopies : ∀ v, r.nodes.length ≤ v → v < sizes.length → connected.contains v = true := by
    intro v h1 h2
    rw [hcmem]; left
    rw [List.mem_flatMap]
    have hj : v - r.nodes.length < ids.length := by omega
    refine ⟨ids[v - r.nodes.length], List.getElem_mem _, ?_⟩
    have := zipIdx_snd _ _ ids hids _ hj
    simp only [List.mem_cons, List.mem_nil_iff, or_false]
    right; omega
  -- the result is `full`, scaled
  have ht : t = full.map (fun c => S.mul c (S.ofNat mult)) := by
    rw [← h]; split
    · rename_i h1
      have : mult = 1 := by simpa using h1
      rw [this, ofNat_one hS]; simp [mul_one' hS]
    · rfl
  rw [ht]; unfold ruleValue; rw [← hshape]
  show List.map _ (List.map _ _) = _
  rw [List.map_map]
  apply List.map_congr_left
  intro a ha
  have hain := (mem_assigns _ _).1 ha
  show S.mul (getT S core outShape
    (((ext'.zip a).filter (fun p => connected.contains p.1)).map (·.2))) (S.ofNat mult) = _
  have hsub := inShape_filter_zip (fun v => connected.contains v) (fun v => sizes[v]?.getD 0) ext' a hain
  have hops : (idOps ++ edgeOps).flatMap (·.2)
      = ids.flatMap (fun p => [p.1, p.2]) ++ r.edges.flatMap (·.2) := by
    show (List.map _ ids ++ List.map _ r.edges).flatMap _ = _
    rw [List.flatMap_append, List.flatMap_map, List.flatMap_map]
  have hmask : (sizes.zipIdx.map (fun x => match x with
        | (n, v) => if ((idOps ++ edgeOps).flatMap (·.2) ++ outputs).contains v = true then n else 1))
      = mask (fun v => connected.contains v) sizes := by
    rw [mask_eq]
    congr 1
    funext v
    rw [Bool.eq_iff_iff, Nat.add_zero, List.contains_iff_mem, List.mem_append, hops, List.mem_append,
      hcmem]
    constructor
    · rintro (h | h)
      · exact h
      · exact (hcmem v).1 (List.mem_filter.1 h).2
    · intro h; exact Or.inl h
  have hcell : getT S core outShape (((ext'.zip a).filter (fun p => connected.contains p.1)).map (·.2))
      = bsum S ((assigns (mask (fun v => connected.contains v) sizes)).filter (fun ρ =>
          outputs.map (fun v => ρ[v]?.getD 0)
            == ((ext'.zip a).filter (fun p => connected.contains p.1)).map (·.2)))
          (fun ρ => S.prod ((idOps ++ edgeOps).map (fun op => op.1 (op.2.map (fun v => ρ[v]?.getD 0))))) := by
    show getT S (einsumSpec S sizes (idOps ++ edgeOps) outputs) outShape _ = _
    unfold einsumSpec
    simp only []
    rw [hmask]
    exact getT_assigns_map_b S outShape _ _ hsub
  rw [hcell]
  -- stage A
  have hDep : Dep (fun v => connected.contains v)
      (fun ρ => S.prod ((idOps ++ edgeOps).map (fun op => op.1 (op.2.map (fun v => ρ[v]?.getD 0))))) := by
    intro ρ ρ' hag
    show S.prod _ = S.prod _
    congr 1
    apply List.map_congr_left
    intro op hop
    apply congrArg op.1
    apply List.map_congr_left
    intro v hv
    apply hag
    rw [hcmem]
    have : v ∈ (idOps ++ edgeOps).flatMap (·.2) := List.mem_flatMap.2 ⟨op, hop, hv⟩
    rw [hops, List.mem_append] at this
    exact this
  have hmult : mult = ((List.range sizes.length).filter
      (fun v => !connected.contains v && !ext'.contains v)).foldl (fun m v => m * (sizes[v]?.getD 0)) 1 := by
    show List.foldl _ 1 (List.filter _ (List.range r.nodes.length)) = _
    rw [hszlen, List.range_add, List.filter_append]
    have : List.filter (fun v => !connected.contains v && !ext'.contains v)
        (List.map (fun x => r.nodes.length + x) (List.range ids.length)) = [] := by
      rw [List.filter_eq_nil_iff]
      intro v hv
      rw [List.mem_map] at hv
      obtain ⟨i, hi, rfl⟩ := hv
      rw [List.mem_range] at hi
      rw [hcopies _ (by omega) (by omega)]
      simp
    rw [this, List.append_nil]
  have hA := stageA hS sizes ext' a (fun v => connected.contains v) _ hDep hnd
    (by intro v hv; have := hb v hv; omega) hain
  rw [hmult]
  refine Eq.trans hA.symm ?_
  -- stage B
  have hNlen : (G.shapeOf r.nodes).length = r.nodes.length := by simp [Grammar.shapeOf]
  have hOps : ∀ ρ' : List Nat,
      S.prod ((idOps ++ edgeOps).map (fun op => op.1 (op.2.map (fun v => ρ'[v]?.getD 0))))
      = S.mul (S.prod (((ids.map Prod.fst).zipIdx (G.shapeOf r.nodes).length).map
          (fun p => if ρ'[p.1]?.getD 0 = ρ'[p.2]?.getD 0 then S.one else S.zero)))
          (S.prod (r.edges.map (fun e => edgeWeight S G x e.1 (e.2.map (fun v => ρ'[v]?.getD 0))))) := by
    intro ρ'
    show S.prod ((List.map _ ids ++ List.map _ r.edges).map _) = _
    rw [List.map_append, prod_append hS, List.map_map, List.map_map, hNlen, ← hids]
    congr 1
    congr 1
    apply List.map_congr_left
    intro p _
    simp
  rw [bsum_congr _ _ _ (fun ρ' _ => hOps ρ'), hsizes]
  unfold ruleCell
  refine stageB hS (G.shapeOf r.nodes) (ids.map Prod.fst) ext' r.ext a
    (fun ρ => S.prod (r.edges.map (fun e => edgeWeight S G x e.1 (e.2.map (fun v => ρ[v]?.getD 0)))))
    (by intro v hv; rw [hNlen]; exact hvs v hv) ?_ (by intro ρ hρ; exact hsem ρ (by omega))
  intro ρ σ hρ
  show S.prod _ = S.prod _
  congr 1
  apply List.map_congr_left
  intro e he
  apply congrArg (edgeWeight S G x e.1)
  apply List.map_congr_left
  intro v hv
  rw [List.getElem?_append_left (by have := hr.att e he v hv; omega)]
end C01
