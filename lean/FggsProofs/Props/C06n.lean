/-
C06n — operations along one dimension (`log_softmax(dim)`; model `It.alongDense`, for an ARBITRARY function `f` on
fibres): if `f` preserves the length of a fibre and maps constant fibres to constant fibres, then the result is well
formed, has the operand's shape, and every cell is the corresponding entry of `f` applied to the fibre of the operand's
dense tensor through that cell along `dim` — the dense `log_softmax` (for `f = log_softmax`, whose two properties are
standard: it preserves the length, and on a constant fibre every entry is `-log n`).
-/
import FggsModel.Iter
import FggsProofs.Props.C06l
import FggsProofs.C06lIterLemmas
import FggsProofs.C06nLemmas
import Mathlib.Tactic.Linarith
import Mathlib.Data.List.Basic

set_option linter.unusedSimpArgs false
set_option linter.unusedVariables false

namespace C06n
open Fggs Fggs.Ax Fggs.Un Fggs.Sh Fggs.It

/-- the cell of the dense tensor at an index tuple -/
def cell (t : PT) (idx : List Nat) : Ext := t.dense[flat t.vshape idx]?.getD t.default

/-- the fibre of the dense tensor through `idx` along dimension `dim` -/
def fibre (t : PT) (dim : Nat) (idx : List Nat) : List Ext :=
  (List.range (t.vshape[dim]?.getD 0)).map (fun j => cell t (idx.set dim j))

/-- what is used of `f`: it keeps the length, and a constant fibre is mapped to a constant fibre -/
structure FibreFn (f : List Ext → List Ext) : Prop where
  length : ∀ l, (f l).length = l.length
  const : ∀ n c, ∀ i j, i < n → j < n → (f (List.replicate n c))[i]? = (f (List.replicate n c))[j]?

/-- **a function applied along a dimension of a patterned tensor is the function applied along that dimension of the
dense tensor** -/
theorem alongDense_dense (f : List Ext → List Ext) (hf : FibreFn f) (t : PT) (h : t.wf = true) (dim : Nat)
    (hd : dim < t.vaxes.length) (next : Nat) (hn : ∀ p ∈ t.paxes, p.1 < next) :
    ∃ r, alongDense f t dim next = some r ∧ r.wf = true ∧ r.vshape = t.vshape ∧
      ∀ idx ∈ assigns t.vshape, cell r idx = (f (fibre t dim idx))[idx[dim]?.getD 0]?.getD t.default := by
  obtain ⟨d, hdd, hds, hdsh, hdde, hddf, ⟨e, he, hda⟩, _⟩ :=
    C06lL.dimToDense_spec t ((C06dL.wf_iff_struct t).1 h) dim hd next hn
  have hfib : ∀ idx, fibre t dim idx = (List.range (d.vshape[dim]?.getD 0)).map
      (fun j => d.dense[flat d.vshape (idx.set dim j)]?.getD d.default) := by
    intro idx
    unfold fibre cell
    rw [← hdsh, ← hdde, ← hddf]
  unfold alongDense
  rw [hdd]
  simp only
  rw [he, ← hdsh, ← hddf]
  rcases hda with hu | ⟨v, n, rfl, hind⟩
  · have heu : e = unitAxis := by
      cases e with
      | prod fs => cases fs with
        | nil => rfl
        | cons _ _ => simp [isUnit] at hu
      | phys _ _ => simp [isUnit] at hu
      | sum _ _ _ => simp [isUnit] at hu
    subst heu
    refine ⟨PT.map (fun x => (f [x])[0]?.getD x) ((f [d.default])[0]?.getD d.default) d, rfl, ?_, rfl, ?_⟩
    · rw [C06dL.wf_iff_struct]
      exact ⟨by simpa [PT.map] using hds.len, hds.nodup, hds.no1, hds.fvsub, hds.occ⟩
    · intro idx hidx
      have hc := C06nL.unit_cell f hf.length he rfl idx hidx
      rw [hfib]
      unfold cell
      show (PT.dense _)[flat d.vshape idx]?.getD _ = _
      rw [hc]
      rfl
  · have hshape : d.vshape[dim]? = some n := by
      unfold PT.vshape
      rw [List.getElem?_map, he]
      rfl
    refine ⟨C06nL.alongT f d v n, rfl, (C06dL.wf_iff_struct _).2 (C06nL.alongT_struct f hds v n), rfl, ?_⟩
    intro idx hidx
    have hc := C06nL.alongT_cell f hf.const hds he hind idx hidx
    rw [hfib, hshape]
    unfold cell
    rw [hc]
    rfl

/-! ### non-vacuity: `f` = reversal of the fibre (keeps the length, constant fibres stay constant) on the diagonal pattern -/

def exT : PT := { physical := [.fin 5, .fin 7], paxes := [(0, 2)], vaxes := [.phys 0 2, .sum 1 (.phys 0 2) 0], default := .fin 0 }

example : FibreFn List.reverse := ⟨fun l => List.length_reverse, fun n c i j hi hj => by simp [List.reverse_replicate, hi, hj]⟩

example : (alongDense List.reverse exT 1 5).map (fun r => r.dense) = some [.fin 0, .fin 5, .fin 0, .fin 7, .fin 0, .fin 0] := by decide

end C06n
