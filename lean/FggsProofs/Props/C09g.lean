/-
C09g — `PatternedTensor.solve` END TO END (model `Ps.solve`): every column of the result is the least solution of the
full dense system `x = A x + b` formed by the dense tensors of the operands, whenever the axis `e` found by the growth
loop is closed under `A` and covers `b` (`Ps.closed`, decided per job) and the fuel condition holds (`Ps.resolved`).

`patsolve_column` (no semiring law): the column of the result at a column index of `b` is the solution of the system
RESTRICTED to the rows in the image of `e` (as computed by `Sv.solveLoop`), extended by zero — composition of
`C09d.patsolve_cells` with the definition of `Ms.blockSolve`.  `closed_rows` turns the Boolean `Ps.closed` into the two
hypotheses of `C09e.restricted_isLeast` about the dense tensors.  `vit_patsolve_isLeast` / `real_patsolve_isLeast`: hence
the column is a solution of the full system and lies below every pre-fixed point with entries in the carrier.

`closed_rows` carries ONE extra hypothesis with respect to the statement first given (`closed_rows_statement`): the
further indices `rest` of the right-hand side are in range (`rest ∈ assigns (brest.map numel)`).  Without it the
statement is false (`closed_rows_counterexample`): an out-of-range tuple `i :: rest` is the flat position of a cell in
another row (`flat [2, 2] [0, 2] = 2 = flat [2, 2] [1, 0]`).  The end-to-end theorems only use in-range columns
(`virt brest ic`).  The proofs are in FggsProofs/C09gLemmas.lean.
-/
import FggsModel.PatSolve
import FggsProofs.Props.C09d
import FggsProofs.Props.C09e
import FggsProofs.Props.C09f
import FggsProofs.Props.C13
import FggsProofs.C06dBaseLemmas
import FggsProofs.C09gLemmas
import Mathlib.Tactic.Linarith
import Mathlib.Data.List.Basic

set_option linter.unusedSimpArgs false
set_option linter.unusedVariables false

namespace C09g
open Fggs Fggs.Ax Fggs.Un Fggs.Sem Fggs.Sv Fggs.Ps

/-- the full dense system: `A` is `N × N`, the right-hand side is the column of `b` at the further indices `rest` -/
def fullA (a : PT) (N : Nat) : List (List Ext) := (List.range N).map (fun i => (List.range N).map (fun j => C09d.cell a [i, j]))
def fullB (b : PT) (N : Nat) (rest : List Nat) : List Ext := (List.range N).map (fun i => C09d.cell b (i :: rest))
/-- the column of the result at the further indices `rest` -/
def colOf (r : PT) (N : Nat) (rest : List Nat) : List Ext := (List.range N).map (fun i => C09d.cell r (i :: rest))
/-- the rows in the image of `e`, in the order of the assignments of its physical axes -/
def rowsI (e : Axis) : List Nat := (C09d.idxs [e]).map (fun ip => (C09d.virt [e] ip).headD 0)

/-- **every column of the result is the solution of the restricted system, extended by zero** (law-free) -/
theorem patsolve_column (S : SR Ext) (star : Ext → Ext) (fuel loopFuel : Nat) (a b : PT) (a0 a1 b0 : Axis) (brest : List Axis)
    (next : Nat) (h : C09d.OperandsOK S a b a0 a1 b0 brest next)
    (e : Axis) (nx : Nat) (hg : grow fuel a0 a1 loopFuel b0 next = some (some (e, nx)))
    (r : PT) (hr : solve S star fuel loopFuel a b next = .ok r)
    (hres : C09d.Resolved fuel e nx a0 a1 b0 brest)
    (ic : List Nat) (hic : ic ∈ C09d.idxs brest) :
    colOf r b0.numel (C09d.virt brest ic) =
      C09e.extend S b0.numel (rowsI e)
        (solveLoop S star (C09e.restrictA S (fullA a b0.numel) (rowsI e))
          (C09e.restrictB S (fullB b b0.numel (C09d.virt brest ic)) (rowsI e))) :=
  C09gL.patsolve_column S star fuel loopFuel a b a0 a1 b0 brest next h e nx hg r hr hres ic hic

/-- the rows of `e` are distinct and in range -/
theorem rowsI_ok (S : SR Ext) (fuel loopFuel : Nat) (a b : PT) (a0 a1 b0 : Axis) (brest : List Axis)
    (next : Nat) (h : C09d.OperandsOK S a b a0 a1 b0 brest next)
    (e : Axis) (nx : Nat) (hg : grow fuel a0 a1 loopFuel b0 next = some (some (e, nx))) :
    (rowsI e).Nodup ∧ ∀ i ∈ rowsI e, i < b0.numel := by
  have E := C09dL.grow_eok (C09gL.ops_of h) hg
  exact ⟨C09gL.rowsI_nodup E, C09gL.rowsI_lt E⟩

/-! ### `closed_rows`: the statement as first given, a counterexample, and the corrected theorem -/

/-- the statement of `closed_rows` as first given (further indices `rest` of the right-hand side unconstrained) -/
def closed_rows_statement : Prop :=
  ∀ (S : SR Ext) (fuel loopFuel : Nat) (a b : PT) (a0 a1 b0 : Axis) (brest : List Axis)
    (next : Nat) (h : C09d.OperandsOK S a b a0 a1 b0 brest next)
    (e : Axis) (nx : Nat) (hg : grow fuel a0 a1 loopFuel b0 next = some (some (e, nx)))
    (hcl : closed a b e = true),
    (∀ i, i < b0.numel → i ∉ rowsI e → ∀ rest, C09d.cell b (i :: rest) = S.zero) ∧
    (∀ i, i < b0.numel → i ∉ rowsI e → ∀ j ∈ rowsI e, C09d.cell a [i, j] = S.zero)

/-- the counterexample: `a` = the 2 × 2 matrix with the single cell (1, 1), `b` = the 2 × 2 matrix whose row 1 is dense;
the growth loop returns the row pattern `1 + () + 0` (image {1}), which is closed; row 0 is outside, but the
out-of-range tuple `[0, 2]` is the flat position of the cell (1, 0) of `b`, which holds 5 -/
private def cxA : PT :=
  { physical := [.fin 1], paxes := [], vaxes := [.sum 1 (.prod []) 0, .sum 1 (.prod []) 0], default := .fin 0 }
private def cxB : PT :=
  { physical := [.fin 5, .fin 7], paxes := [(0, 2)], vaxes := [.sum 1 (.prod []) 0, .phys 0 2], default := .fin 0 }
private def cxE : Axis := .sum 1 (.prod []) 0

private theorem cx_ok : C09d.OperandsOK realSR cxA cxB cxE cxE cxE [.phys 0 2] 1 := by
  refine ⟨by decide, by decide, rfl, rfl, by decide, rfl, rfl, by decide, by decide, by decide⟩

private theorem cx_grow : grow FUEL cxE cxE 64 cxE 1 = some (some (cxE, 1)) := by
  have hu : unify FUEL cxE cxE ⟨[], 1⟩ = (true, ⟨[], 1⟩) := rfl
  have hc : clone [] FUEL cxE = cxE := rfl
  have ha : antiunify FUEL cxE cxE ⟨[], 1⟩ = (cxE, ⟨[], 1⟩) := by
    rw [show FUEL = 3998 + 1 + 1 from rfl]
    unfold cxE
    rw [antiunify.eq_def]
    simp only [beq_self_eq_true, Bool.and_self, if_true]
    rw [antiunify.eq_def]
    simp [zeroList, antiLoop, productAxis]
  rw [grow, hu]
  simp only [hc, ha]
  rfl

private theorem cx_closed : closed cxA cxB cxE = true := by
  unfold closed img
  simp only [Bool.and_eq_true, List.all_eq_true, Bool.or_eq_true, Bool.not_eq_true']
  have hb : cxB.cells = [([1, 0], .fin 5), ([1, 1], .fin 7)] := by decide
  have ha : cxA.cells = [([1, 1], .fin 1)] := by decide
  have hi : ∀ x, (Un.image cxE).contains x = true ↔ x = 1 := by
    intro x
    rw [List.contains_iff_mem, C09gL.mem_image, show C09gL.rowsI cxE = [1] from by decide]
    simp
  rw [ha, hb]
  refine ⟨?_, ?_⟩
  · intro c hc
    rw [hi]
    simp only [List.mem_cons, List.not_mem_nil, or_false] at hc
    rcases hc with rfl | rfl <;> rfl
  · intro c hc
    right
    rw [hi]
    simp only [List.mem_cons, List.not_mem_nil, or_false] at hc
    subst hc; rfl

theorem closed_rows_counterexample : ¬ closed_rows_statement := by
  intro H
  have := (H realSR FUEL 64 cxA cxB cxE cxE cxE [.phys 0 2] 1 cx_ok cxE 1 cx_grow cx_closed).1 0 (by decide)
    (by decide) [2]
  revert this
  decide

/-- what `Ps.closed` says about the dense tensors: outside the rows of `e` the right-hand side vanishes, and no row
outside has a non-zero entry in a column inside.

EXTRA HYPOTHESIS with respect to `closed_rows_statement`: the further indices `rest` are in range
(`rest ∈ Ax.assigns (brest.map Axis.numel)`); see `closed_rows_counterexample`. -/
theorem closed_rows (S : SR Ext) (fuel loopFuel : Nat) (a b : PT) (a0 a1 b0 : Axis) (brest : List Axis)
    (next : Nat) (h : C09d.OperandsOK S a b a0 a1 b0 brest next)
    (e : Axis) (nx : Nat) (hg : grow fuel a0 a1 loopFuel b0 next = some (some (e, nx)))
    (hcl : closed a b e = true) :
    (∀ i, i < b0.numel → i ∉ rowsI e → ∀ rest, rest ∈ Ax.assigns (brest.map Axis.numel) →
      C09d.cell b (i :: rest) = S.zero) ∧
    (∀ i, i < b0.numel → i ∉ rowsI e → ∀ j ∈ rowsI e, C09d.cell a [i, j] = S.zero) :=
  C09gL.closed_rows S fuel loopFuel a b a0 a1 b0 brest next h e nx hg hcl

/-- **Viterbi semiring: every column of the result is the least solution of the full dense system** -/
theorem vit_patsolve_isLeast (fuel loopFuel : Nat) (a b : PT) (a0 a1 b0 : Axis) (brest : List Axis)
    (next : Nat) (h : C09d.OperandsOK vitSR a b a0 a1 b0 brest next)
    (hca : ∀ x ∈ a.physical, C08.VitC x) (hcb : ∀ x ∈ b.physical, C08.VitC x)
    (e : Axis) (nx : Nat) (hg : grow fuel a0 a1 loopFuel b0 next = some (some (e, nx)))
    (r : PT) (hr : solve vitSR Impl.vitStar fuel loopFuel a b next = .ok r)
    (hres : Ps.resolved fuel e nx a0 a1 b0 brest = true) (hcl : closed a b e = true)
    (ic : List Nat) (hic : ic ∈ C09d.idxs brest) :
    let A := fullA a b0.numel
    let bc := fullB b b0.numel (C09d.virt brest ic)
    let x := colOf r b0.numel (C09d.virt brest ic)
    affine vitSR A bc x = x ∧
    ∀ y : List Ext, (∀ v ∈ y, C08.VitC v) →
      (∀ i, i < b0.numel → (getV vitSR (affine vitSR A bc y) i).le (getV vitSR y i) = true) →
      ∀ i, i < b0.numel → (getV vitSR x i).le (getV vitSR y i) = true :=
  C09gL.patsolve_isLeast_of vitSR Impl.vitStar C08.VitC (by simp [vitSR, C08.VitC])
    (fun A bc hsq hA hB I hnd hI hb ha => C09e.vit_restricted_isLeast A bc hsq hA hB I hnd hI hb ha)
    fuel loopFuel a b a0 a1 b0 brest next h hca hcb e nx hg r hr hres hcl ic hic

/-- **Real semiring** -/
theorem real_patsolve_isLeast (fuel loopFuel : Nat) (a b : PT) (a0 a1 b0 : Axis) (brest : List Axis)
    (next : Nat) (h : C09d.OperandsOK realSR a b a0 a1 b0 brest next)
    (hca : ∀ x ∈ a.physical, C08.RealC x) (hcb : ∀ x ∈ b.physical, C08.RealC x)
    (e : Axis) (nx : Nat) (hg : grow fuel a0 a1 loopFuel b0 next = some (some (e, nx)))
    (r : PT) (hr : solve realSR Impl.realStar fuel loopFuel a b next = .ok r)
    (hres : Ps.resolved fuel e nx a0 a1 b0 brest = true) (hcl : closed a b e = true)
    (ic : List Nat) (hic : ic ∈ C09d.idxs brest) :
    let A := fullA a b0.numel
    let bc := fullB b b0.numel (C09d.virt brest ic)
    let x := colOf r b0.numel (C09d.virt brest ic)
    affine realSR A bc x = x ∧
    ∀ y : List Ext, (∀ v ∈ y, C08.RealC v) →
      (∀ i, i < b0.numel → (getV realSR (affine realSR A bc y) i).le (getV realSR y i) = true) →
      ∀ i, i < b0.numel → (getV realSR x i).le (getV realSR y i) = true :=
  C09gL.patsolve_isLeast_of realSR Impl.realStar C08.RealC (by simp [realSR, C08.RealC])
    (fun A bc hsq hA hB I hnd hI hb ha => C09e.real_restricted_isLeast A bc hsq hA hB I hnd hI hb ha)
    fuel loopFuel a b a0 a1 b0 brest next h hca hcb e nx hg r hr hres hcl ic hic

end C09g
