/-
C07e — the strided layer under the patterned einsum (model FggsModel/Strided.lean of `Axis.stride(subst)`, `project`
(fggs/indices.py) and `reduce_equation` / `post_einsum` (fggs/equation.py)):

* `strideS_eq_evalS`: the affine form `e.stride(subst)` IS the index map of `e` under the substitution, for every
  substitution, fuel and assignment; `evalS_eq_clone_eval`: that index map is the one of `e.clone(subst)` (the axis
  the patterned einsum of `Ei.einsum` evaluates, `Ei.viewAt`) when the substitution is size-consistent.
* `project_addr`: the view built by `project(virtual, None, vaxes, subst)`, indexed by an assignment of its physical
  axes, addresses the element of `virtual` at the virtual indices the pattern denotes; its axes are distinct and its
  sizes are theirs.
* `reduce_correct`: for a sum-free equation, every cell of the re-expanded result of the REDUCED einsum is the cell of
  the original einsum: operand by operand the reduced view addresses the same storage element, and `post_einsum` maps
  the output index to the cell of the reduced result that belongs to it.  `reduce_unchanged_of_sum`: an equation that
  sums is passed on unchanged.
-/
import FggsModel.Strided
import FggsProofs.C06bLemmas
import FggsProofs.C07eStrideLemmas
import FggsProofs.C07eAddrLemmas
import FggsProofs.C07eReduceLemmas
import Mathlib.Tactic.Linarith
import Mathlib.Data.List.Basic

set_option linter.unusedSimpArgs false
set_option linter.unusedVariables false

namespace C07e
open Fggs Fggs.Ax Fggs.Un Fggs.Sd

/-- **the affine form is the index map** (any substitution, any fuel) -/
theorem strideS_eq_evalS (σ : Subst) (ρ : Nat → Nat) (fuel : Nat) (e : Axis) :
    applyS (strideS σ fuel e) ρ = evalS σ ρ fuel e :=
  (C07eL.strideS_aux σ ρ fuel e).1

/-- the index map under the substitution is the index map of the clone, for a size-consistent substitution -/
theorem evalS_eq_clone_eval (σ : Subst) (hσ : C06b.NumelOkS σ) (ρ : Nat → Nat) (fuel : Nat) (e : Axis)
    (he : C06b.NumelOk σ e) :
    evalS σ ρ fuel e = (clone σ fuel e).eval ρ :=
  C07eL.evalS_clone_aux σ hσ ρ fuel e he

/-- **`project`**: the view addresses what the pattern denotes -/
theorem project_addr (virt : View) (vaxes : List Axis) (σ : Subst) (ρ : Nat → Nat) :
    ((project virt vaxes σ).1).addr ((project virt vaxes σ).2.map (fun k => ρ k.1))
      = virt.addr (vaxes.map (evalS σ ρ FUEL)) := by
  have h := (C07eL.projectForm_spec virt vaxes σ ρ).1
  have hr : virt.addr (vaxes.map (evalS σ ρ FUEL)) = applyS (projectForm virt vaxes σ) ρ := by
    rw [h]; unfold View.addr; rw [C07eL.addr_zip_map]
  have hl := C07eL.addr_map (fun p : (Nat × Nat) × Nat => ρ p.1.1) (fun p => p.2) (projectForm virt vaxes σ).2
    (projectForm virt vaxes σ).1
  rw [hr]
  unfold project View.addr
  simp only [List.map_map, Function.comp_def] at hl ⊢
  rw [hl]
  unfold applyS
  congr 1
  funext acc p
  rw [Nat.mul_comm]

theorem project_axes (virt : View) (vaxes : List Axis) (σ : Subst) :
    ((project virt vaxes σ).2.map (·.1)).Nodup ∧
    (project virt vaxes σ).1.shape = (project virt vaxes σ).2.map (·.2) ∧
    (project virt vaxes σ).1.strides.length = (project virt vaxes σ).2.length := by
  have h := (C07eL.projectForm_spec virt vaxes σ (fun _ => 0)).2
  unfold project
  refine ⟨?_, ?_, ?_⟩
  · simpa [C07eL.keys, List.map_map, Function.comp_def] using h
  · simp [List.map_map, Function.comp_def]
  · simp

/-! ### `reduce_equation` -/

/-- what `torch_semiring_einsum` demands of an equation and its operands, for a sum-free equation -/
structure WF (e : Eqn) (views : List View) : Prop where
  len : e.inputs.length = views.length
  dims : ∀ p ∈ e.inputs.zip views, p.1.length = p.2.shape.length ∧ p.1.length = p.2.strides.length
  nodupIn : ∀ l ∈ e.inputs, l.Nodup
  nodupOut : e.output.Nodup
  range : ∀ x ∈ e.inputs.flatten ++ e.output, x < e.numVars
  outUsed : ∀ x ∈ e.output, x ∈ e.inputs.flatten
  sizes : ∀ p ∈ e.inputs.zip views, ∀ j, j < p.1.length → p.2.shape[j]?.getD 0 = varSize e views (p.1[j]?.getD 0)

private theorem wfe_of_wf {e : Eqn} {views : List View} (h : WF e views) : C07eL.WFe e views :=
  ⟨h.len, h.dims, h.nodupIn, h.nodupOut, h.range, h.outUsed, h.sizes⟩

private theorem cellProduct_congr {K : Type} (mul : K → K → K) (one : K) (stor : Nat → Nat → K)
    (e1 e2 : Eqn) (v1 v2 : List View) (a1 a2 : List Nat)
    (heq : (e1.inputs.zip v1).map (fun p => p.2.addr (p.1.map (fun x => a1[x]?.getD 0)))
      = (e2.inputs.zip v2).map (fun p => p.2.addr (p.1.map (fun x => a2[x]?.getD 0)))) :
    cellProduct mul one stor e1 v1 a1 = cellProduct mul one stor e2 v2 a2 := by
  have key : ∀ (e : Eqn) (v : List View) (a : List Nat),
      (e.inputs.zip v).zipIdx.map (fun (p : (List Nat × View) × Nat) =>
        stor p.2 (p.1.2.addr (p.1.1.map (fun x => a[x]?.getD 0))))
      = (((e.inputs.zip v).map (fun p => p.2.addr (p.1.map (fun x => a[x]?.getD 0)))).zipIdx).map
          (fun q => stor q.2 q.1) := by
    intro e v a
    rw [List.zipIdx_map, List.map_map]
    rfl
  unfold cellProduct
  rw [key e1 v1 a1, key e2 v2 a2, heq]

/-- **`reduce_equation` + `post_einsum` are correct** for sum-free equations: for every in-range assignment `a` of the
variables there is a cell `idx'` of the reduced result such that the re-expanded result reads that cell at the output
index of `a`, and every reduced operand addresses, at `idx'`, the storage element the original operand addresses at
`a` (so the two products have the same factors, whatever the semiring) -/
theorem reduce_correct (e : Eqn) (views : List View) (h : WF e views) (hsf : e.output.length = e.numVars)
    (a : List Nat) (hal : a.length = e.numVars) (ha : ∀ x, x < e.numVars → a[x]?.getD 0 < varSize e views x) :
    let r := reduceEquation e views
    let shape' := r.eqn.output.map (varSize r.eqn r.views)
    r.outShape = e.output.map (varSize e views) ∧
    (postEinsum (contiguous shape') r.unsqueeze r.outShape).shape = r.outShape ∧
    r.views.length = views.length ∧
    ∃ idx' ∈ Ax.assigns shape',
      (postEinsum (contiguous shape') r.unsqueeze r.outShape).addr (e.output.map (fun x => a[x]?.getD 0))
        = (contiguous shape').addr idx' ∧
      (r.eqn.inputs.zip r.views).map (fun p => p.2.addr (p.1.map (fun x => (assignOf r.eqn.output r.eqn.numVars idx')[x]?.getD 0)))
        = (e.inputs.zip views).map (fun p => p.2.addr (p.1.map (fun x => a[x]?.getD 0))) :=
  C07eL.reduce_main (wfe_of_wf h) hsf a hal ha

/-- hence the cell products agree, in any semiring and for any storages -/
theorem reduce_cellProduct {K : Type} (mul : K → K → K) (one : K) (stor : Nat → Nat → K)
    (e : Eqn) (views : List View) (h : WF e views) (hsf : e.output.length = e.numVars)
    (a : List Nat) (hal : a.length = e.numVars) (ha : ∀ x, x < e.numVars → a[x]?.getD 0 < varSize e views x) :
    let r := reduceEquation e views
    let shape' := r.eqn.output.map (varSize r.eqn r.views)
    ∃ idx' ∈ Ax.assigns shape',
      (postEinsum (contiguous shape') r.unsqueeze r.outShape).addr (e.output.map (fun x => a[x]?.getD 0))
        = (contiguous shape').addr idx' ∧
      cellProduct mul one stor r.eqn r.views (assignOf r.eqn.output r.eqn.numVars idx') = cellProduct mul one stor e views a := by
  obtain ⟨-, -, -, idx', hm, h1, h2⟩ := reduce_correct e views h hsf a hal ha
  exact ⟨idx', hm, h1, cellProduct_congr mul one stor _ _ _ _ _ _ h2⟩

/-- the decidable forms the driver reports for every job of the correspondence stream -/
theorem wfB_sound (e : Eqn) (views : List View) (h : wfB e views = true) : WF e views := by
  unfold wfB at h
  simp only [Bool.and_eq_true] at h
  obtain ⟨⟨⟨⟨⟨⟨h1, h2⟩, h3⟩, h4⟩, h5⟩, h6⟩, h7⟩ := h
  refine ⟨by simpa using h1, ?_, ?_, (C06dL.nodupNat_iff _).1 h4, ?_, ?_, ?_⟩
  · intro p hp
    have := List.all_eq_true.1 h2 p hp
    simpa using this
  · intro l hl
    exact (C06dL.nodupNat_iff _).1 (List.all_eq_true.1 h3 l hl)
  · intro x hx
    have := List.all_eq_true.1 h5 x hx
    simpa using this
  · intro x hx
    have := List.all_eq_true.1 h6 x hx
    simpa using this
  · intro p hp j hj
    have := List.all_eq_true.1 (List.all_eq_true.1 h7 p hp) j (List.mem_range.2 hj)
    simpa using this

theorem jobOk_of_wf (e : Eqn) (views : List View) (h : WF e views) (hsf : e.output.length = e.numVars) :
    jobOk e views = true := by
  unfold jobOk
  rw [List.all_eq_true]
  intro a hma
  have hf := (C06dL.mem_assigns_iff _ _).1 hma
  have hal : a.length = e.numVars := by
    have := hf.length_eq
    simpa using this
  have ha : ∀ x, x < e.numVars → a[x]?.getD 0 < varSize e views x := by
    intro x hx
    have hx' : x < a.length := by omega
    have := List.Forall₂.get hf hx' (by simpa using hx)
    simpa [List.getElem?_eq_getElem hx'] using this
  obtain ⟨-, -, -, idx', hm, h1, h2⟩ := reduce_correct e views h hsf a hal ha
  unfold cellOk
  simp only
  rw [List.any_eq_true]
  refine ⟨idx', hm, ?_⟩
  rw [Bool.and_eq_true]
  exact ⟨by rw [h1]; simp, by rw [h2]; simp⟩

/-- an equation that sums is passed on unchanged -/
theorem reduce_unchanged_of_sum (e : Eqn) (views : List View) (h : e.output.length ≠ e.numVars) :
    (reduceEquation e views).views = views ∧ (reduceEquation e views).eqn = e ∧ (reduceEquation e views).unsqueeze = [] := by
  unfold reduceEquation
  have : (e.output.length != e.numVars) = true := by simpa using h
  simp only [this, if_true, and_self]

/-! ### non-vacuity: `ab,bc,a->cab` with `a` broadcast in operand 0, `c` broadcast in operand 1, operand 2 broadcast -/

def exE : Eqn := ⟨[[0, 1], [1, 2], [0]], [2, 0, 1], 3⟩
def exV : List View := [⟨[2, 3], [1, 0], 0⟩, ⟨[3, 2], [1, 0], 0⟩, ⟨[2], [0], 0⟩]

example : (Ax.assigns [2, 3, 2]).all (fun a => cellOk exE exV a) = true := by decide +kernel

end C07e
