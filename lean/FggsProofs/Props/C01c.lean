/-
C01 (end to end) — for every non-recursive grammar the model of the whole driver loop of `sum_products`
(component order by the Tarjan model on the nonterminal graph, every component solved by one application of the
code's `F`, itself built from the model of `sum_product_edges`) returns, cell by cell, the sum over all
derivations and assignments of the product of the weights.  This composes C19 (`scc_ok`), C01b
(`sumProductEdges_eq_ruleValue`) and C01 (`kleene_cell_eq_derivSum`).
-/
import FggsModel.Pipeline
import FggsProofs.PipeLemmas
import FggsProofs.Props.C01
import FggsProofs.Props.C01b
import FggsProofs.Props.C19b
import Mathlib.Tactic.Linarith
import Mathlib.Data.List.Basic

set_option linter.unusedSimpArgs false
set_option linter.unusedVariables false

namespace C01
open Fggs Fggs.Sem Fggs.Pipe PipeL

variable {K : Type}

/-- the code's test for a non-recursive grammar: every component is a single nonterminal none of whose rules
mentions it (`len(comp) == 1 and max_rhs == 0`, so the method is `one-step` whatever was requested) -/
def Nonrecursive (G : Grammar K) : Prop := ∀ comp ∈ sccOrder G, comp.length = 1 ∧ maxRhs G comp = 0

/-! ### helpers -/

private theorem foldl_max_ge (l : List Nat) (a : Nat) :
    a ≤ l.foldl max a ∧ ∀ x ∈ l, x ≤ l.foldl max a := by
  induction l generalizing a with
  | nil => simp
  | cons b l ih =>
    obtain ⟨h1, h2⟩ := ih (max a b)
    simp only [List.foldl_cons]
    refine ⟨by omega, ?_⟩
    intro x hx
    rcases List.mem_cons.1 hx with rfl | hx
    · omega
    · exact h2 x hx

/-- `max_rhs == 0` for the component `[X]`: no rule of `X` mentions `X` -/
private theorem no_self (G : Grammar K) (X : Nat) (h : maxRhs G [X] = 0) (r : Rule) (hr : r ∈ G.rulesOf X) :
    X ∉ ntEdgesOf G r := by
  intro hX
  unfold maxRhs at h
  simp only [List.flatMap_cons, List.flatMap_nil, List.append_nil] at h
  have hle := (foldl_max_ge ((G.rulesOf X).map (fun r => (compEdges G [X] r).length)) 0).2
    _ (List.mem_map.2 ⟨r, hr, rfl⟩)
  rw [h] at hle
  have hnil : compEdges G [X] r = [] := List.eq_nil_of_length_eq_zero (by omega)
  unfold ntEdgesOf at hX
  obtain ⟨e, he, heq⟩ := List.mem_map.1 hX
  have hmem := List.mem_filter.1 he
  have : e ∈ compEdges G [X] r := by
    unfold compEdges
    refine List.mem_filter.2 ⟨hmem.1, ?_⟩
    simp only [Bool.and_eq_true]
    refine ⟨hmem.2, ?_⟩
    simp [heq]
  rw [hnil] at this
  simp at this

private theorem order' {g : Scc.Graph} {cs : List (List Nat)} (h : C19.SccOk g cs) (i j : Nat) (ci cj : List Nat)
    (hi : cs[i]? = some ci) (hj : cs[j]? = some cj) (hij : i < j) (u w : Nat) (hu : u ∈ ci)
    (hw : w ∈ Scc.succs g u) : w ∉ cj := by
  obtain ⟨hi', rfl⟩ := List.getElem?_eq_some_iff.1 hi
  obtain ⟨hj', rfl⟩ := List.getElem?_eq_some_iff.1 hj
  exact h.order i j hi' hj' hij u hu w hw

/-- the component at position `pre.length` is a single nonterminal all of whose rules mention earlier components only -/
private theorem dep (G : Grammar K) (hG : GrammarWF G) (hnr : Nonrecursive G) (pre l : List (List Nat))
    (c : List Nat) (h : sccOrder G = pre ++ c :: l) :
    ∃ X, c = [X] ∧ X < G.nts.length ∧ ∀ r ∈ G.rulesOf X, ∀ Y ∈ ntEdgesOf G r, Y ∈ pre.flatten := by
  have hok := sccOrder_ok G hG
  have hc : c ∈ sccOrder G := by rw [h]; simp
  obtain ⟨hlen, hmax⟩ := hnr c hc
  obtain ⟨X, rfl⟩ := List.length_eq_one_iff.1 hlen
  have hXv := hok.only [X] hc X (by simp)
  rw [verts_ntGraph, List.mem_range] at hXv
  refine ⟨X, rfl, hXv, ?_⟩
  intro r hr Y hY
  have hYs : Y ∈ Scc.succs (ntGraph G) X := (succs_ntGraph G X Y hXv).2 ⟨r, hr, hY⟩
  have hYlt := ntEdgesOf_lt G hG r (List.mem_filter.1 hr).1 Y hY
  obtain ⟨c', hc', hYc'⟩ := hok.cover Y (by rw [verts_ntGraph, List.mem_range]; exact hYlt)
  rw [h] at hc'
  rcases List.mem_append.1 hc' with hc' | hc'
  · exact List.mem_flatten.2 ⟨c', hc', hYc'⟩
  · rcases List.mem_cons.1 hc' with rfl | hc'
    · exfalso
      have : Y = X := by simpa using hYc'
      subst this
      exact no_self G Y hmax r hr hY
    · exfalso
      obtain ⟨j, hj, rfl⟩ := List.getElem_of_mem hc'
      refine order' hok pre.length (pre.length + 1 + j) [X] l[j] ?_ ?_ (by omega) X Y (by simp) hYs hYc'
      · rw [h]; simp
      · rw [h, List.getElem?_append_right (by omega)]
        have : pre.length + 1 + j - pre.length = j + 1 := by omega
        rw [this, List.getElem?_cons_succ, List.getElem?_eq_getElem hj]

private theorem stable_aux (S : SR K) (hS : SRLaws S) (G : Grammar K) (hG : GrammarWF G) (hnr : Nonrecursive G) :
    ∀ k (pre l : List (List Nat)), sccOrder G = pre ++ l → pre.length = k → ∀ X ∈ pre.flatten, ∀ n, k ≤ n →
      cellsOf S G (kleene S G n) X = cellsOf S G (kleene S G k) X := by
  intro k
  induction k with
  | zero =>
    intro pre l _ hk X hX
    have : pre = [] := List.eq_nil_of_length_eq_zero hk
    subst this
    simp at hX
  | succ k ih =>
    intro pre l h hk X hX n hn
    rcases List.eq_nil_or_concat pre with rfl | ⟨pre', c, rfl⟩
    · simp at hk
    · rw [List.concat_eq_append] at h hk hX
      have hk' : pre'.length = k := by simpa using hk
      have h' : sccOrder G = pre' ++ c :: l := by rw [h]; simp
      have ih' := ih pre' (c :: l) h' hk'
      obtain ⟨X0, rfl, hX0, hdep⟩ := dep G hG hnr pre' l c h'
      rw [List.flatten_append, List.mem_append] at hX
      rcases hX with hX | hX
      · rw [ih' X hX n (by omega), ih' X hX (k+1) (by omega)]
      · have : X = X0 := by simpa using hX
        subst this
        obtain ⟨n', rfl⟩ : ∃ n', n = n' + 1 := ⟨n - 1, by omega⟩
        show cellsOf S G (F S G (kleene S G n')) X = cellsOf S G (F S G (kleene S G k)) X
        apply cellsOf_F_congr
        intro r hr Y hY
        exact ih' Y (hdep r hr Y hY) n' (by omega)

private theorem flatten_length_of_singletons (cs : List (List Nat)) (h : ∀ c ∈ cs, c.length = 1) :
    cs.flatten.length = cs.length := by
  induction cs with
  | nil => rfl
  | cons c cs ih =>
    rw [List.flatten_cons, List.length_append, ih (fun c hc => h c (List.mem_cons_of_mem _ hc)),
      h c (List.mem_cons_self ..), List.length_cons]
    omega

private theorem sccOrder_flatten_nodup (G : Grammar K) (hG : GrammarWF G) : (sccOrder G).flatten.Nodup :=
  (C19.scc_partition (ntGraph G) (graphOK_ntGraph G hG)).2.2

private theorem mem_sccOrder_flatten (G : Grammar K) (hG : GrammarWF G) (X : Nat) :
    X ∈ (sccOrder G).flatten ↔ X < G.nts.length := by
  have hok := sccOrder_ok G hG
  constructor
  · intro h
    obtain ⟨c, hc, hX⟩ := List.mem_flatten.1 h
    have := hok.only c hc X hX
    rwa [verts_ntGraph, List.mem_range] at this
  · intro h
    obtain ⟨c, hc, hX⟩ := hok.cover X (by rw [verts_ntGraph, List.mem_range]; exact h)
    exact List.mem_flatten.2 ⟨c, hc, hX⟩

private theorem sccOrder_length_le (G : Grammar K) (hG : GrammarWF G) (hnr : Nonrecursive G) :
    (sccOrder G).length ≤ G.nts.length := by
  rw [← flatten_length_of_singletons _ (fun c hc => (hnr c hc).1)]
  have := (List.subperm_of_subset (sccOrder_flatten_nodup G hG)
    (l₂ := List.range G.nts.length) (by
      intro X hX
      rw [List.mem_range]
      exact (mem_sccOrder_flatten G hG X).1 hX)).length_le
  simpa using this

/-- the value of a non-recursive grammar stabilises after `N` Kleene steps -/
theorem kleene_stable_of_nonrecursive (S : SR K) (hS : SRLaws S) (G : Grammar K) (hG : GrammarWF G)
    (hnr : Nonrecursive G) (n : Nat) (hn : G.nts.length ≤ n) (X : Nat) (hX : X < G.nts.length) :
    cellsOf S G (kleene S G n) X = cellsOf S G (kleene S G G.nts.length) X := by
  have hle := sccOrder_length_le G hG hnr
  have hXm := (mem_sccOrder_flatten G hG X).2 hX
  have key := stable_aux S hS G hG hnr (sccOrder G).length (sccOrder G) [] (by simp) rfl X hXm
  rw [key n (by omega), key G.nts.length hle]

/-! ### the driver loop on a non-recursive grammar -/

/-- the `one-step` update of one component -/
private def step (S : SR K) (G : Grammar K) (x : Val K) (comp : List Nat) : Val K :=
  overlay G.nts.length x (compF S G x comp (List.replicate G.nts.length none)) comp

private theorem overlay_entry (n : Nat) (x y : Val K) (comp : List Nat) (Y : Nat) (hY : Y < n) :
    (overlay n x y comp)[Y]?.join = if comp.contains Y then y[Y]?.join else x[Y]?.join := by
  unfold overlay
  rw [List.getElem?_map, List.getElem?_range hY]
  rfl

private theorem step_entry (S : SR K) (G : Grammar K) (x : Val K) (comp : List Nat) (Y : Nat)
    (hY : Y < G.nts.length) :
    (step S G x comp)[Y]?.join =
      if comp.contains Y then
        (Impl.F S G (overlay G.nts.length x (List.replicate G.nts.length none) comp))[Y]?.join
      else x[Y]?.join := by
  unfold step
  rw [overlay_entry _ _ _ _ _ hY]
  cases hc : comp.contains Y with
  | false => simp only [Bool.false_eq_true, ↓reduceIte]
  | true =>
    simp only [↓reduceIte]
    unfold compF
    simp only
    rw [List.getElem?_map, List.getElem?_range hY]
    simp only [Option.map_some, Option.join_some, hc, ↓reduceIte]

private theorem foldlM_ok [BEq K] (S : SR K) (star : K → K) (G : Grammar K) (m : Method) (kmax : Nat)
    (l : List (List Nat)) (hl : ∀ comp ∈ l, comp.length = 1 ∧ maxRhs G comp = 0) (o : Outcome K) :
    ∃ o', l.foldlM (solveComp S star G m kmax) o = .ok o' ∧ o'.warned = o.warned ∧
      o'.unmodelled = o.unmodelled ∧ o'.value = l.foldl (step S G) o.value := by
  induction l generalizing o with
  | nil => exact ⟨o, rfl, rfl, rfl, rfl⟩
  | cons c l ih =>
    obtain ⟨h1, h2⟩ := hl c (List.mem_cons_self ..)
    have hm : compMethod m c (maxRhs G c) = .oneStep := by simp [compMethod, h1, h2]
    have hs : solveComp S star G m kmax o c = .ok { o with value := step S G o.value c } := by
      simp only [solveComp, hm]
      rfl
    obtain ⟨o', ho', hw, hu, hv⟩ := ih (fun c hc => hl c (List.mem_cons_of_mem _ hc))
      { o with value := step S G o.value c }
    refine ⟨o', ?_, hw, hu, ?_⟩
    · rw [List.foldlM_cons, hs]
      exact ho'
    · rw [hv]; rfl

private theorem fold_inv (S : SR K) (hS : SRLaws S) (G : Grammar K) (hG : GrammarWF G) (hnr : Nonrecursive G) :
    ∀ (l pre : List (List Nat)) (v : Val K), sccOrder G = pre ++ l →
      (∀ X ∈ pre.flatten, cellsOf S G v X = cellsOf S G (kleene S G G.nts.length) X) →
      ∀ X ∈ (sccOrder G).flatten,
        cellsOf S G (l.foldl (step S G) v) X = cellsOf S G (kleene S G G.nts.length) X := by
  intro l
  induction l with
  | nil =>
    intro pre v h hv X hX
    rw [h, List.append_nil] at hX
    exact hv X hX
  | cons c l ih =>
    intro pre v h hv X hX
    rw [List.foldl_cons]
    refine ih (pre ++ [c]) (step S G v c) (by rw [h]; simp) ?_ X hX
    obtain ⟨X0, rfl, hX0, hdep⟩ := dep G hG hnr pre l c h
    have hnd := sccOrder_flatten_nodup G hG
    rw [h, List.flatten_append, List.flatten_cons, List.nodup_append] at hnd
    have hX0pre : ∀ Y ∈ pre.flatten, Y ≠ X0 := fun Y hY => hnd.2.2 Y hY X0 (by simp)
    have hprelt : ∀ Y ∈ pre.flatten, Y < G.nts.length := by
      intro Y hY
      apply (mem_sccOrder_flatten G hG Y).1
      rw [h, List.flatten_append]
      exact List.mem_append_left _ hY
    intro Y hY
    rw [List.flatten_append, List.mem_append] at hY
    rcases hY with hY | hY
    · rw [← hv Y hY]
      apply cellsOf_congr_entry
      rw [step_entry S G v [X0] Y (hprelt Y hY)]
      have : [X0].contains Y = false := by simpa using hX0pre Y hY
      simp only [this]
      rfl
    · have : Y = X0 := by simpa using hY
      subst this
      have e1 : cellsOf S G (step S G v [Y]) Y =
          cellsOf S G (Impl.F S G (overlay G.nts.length v (List.replicate G.nts.length none) [Y])) Y := by
        apply cellsOf_congr_entry
        rw [step_entry S G v [Y] Y hX0]
        simp
      rw [e1, cellsOf_implF S hS G hG _ Y hX0]
      rw [← kleene_stable_of_nonrecursive S hS G hG hnr (G.nts.length + 1) (by omega) Y hX0]
      show _ = cellsOf S G (F S G (kleene S G G.nts.length)) Y
      apply cellsOf_F_congr
      intro r hr Z hZ
      have hZpre := hdep r hr Z hZ
      rw [← hv Z hZpre]
      apply cellsOf_congr_entry
      rw [overlay_entry _ _ _ _ _ (hprelt Z hZpre)]
      have : [Y].contains Z = false := by simpa using hX0pre Z hZpre
      simp only [this]
      rfl

private theorem hty_of_wf (G : Grammar K) (hG : GrammarWF G) :
    ∀ r ∈ G.rules, r.lhs < G.nts.length ∧
        G.shapeOf (r.ext.map (fun v => r.nodes[v]?.getD 0)) = G.shapeOf (G.nts[r.lhs]?.getD []) ∧
        ∀ e ∈ r.edges, e.1 < G.T + G.nts.length ∧
          (e.2.map (fun v => r.nodes[v]?.getD 0)) = G.labelType e.1 ∧
          ∀ v ∈ e.2, v < r.nodes.length := by
  intro r hr
  refine ⟨hG.lhs r hr, by rw [hG.ext r hr], ?_⟩
  intro e he
  exact ⟨(hG.rule r hr).labels e he, (hG.rule r hr).typed e he, (hG.rule r hr).att e he⟩

/-- **C01, end to end on the model**: `sum_products` of a non-recursive grammar — any requested method, any
budget — raises nothing, warns about nothing and returns the sum over derivations and assignments -/
theorem sumProducts_nonrecursive [BEq K] (S : SR K) (hS : SRLaws S) (star : K → K) (G : Grammar K)
    (hG : GrammarWF G) (hnr : Nonrecursive G) (m : Method) (kmax : Nat) :
    ∃ o, sumProducts S star G m kmax = .ok o ∧ o.warned = false ∧ o.unmodelled = false ∧
      ∀ n, G.nts.length ≤ n → ∀ X, X < G.nts.length → ∀ a ∈ assigns (G.shapeOf (G.nts[X]?.getD [])),
        valCell S G o.value X a = S.sum ((derivs G n X).map (fun d => derivCell S G n d a)) := by
  obtain ⟨o, ho, hw, hu, hv⟩ := foldlM_ok S star G m kmax (sccOrder G) hnr { value := zeroVal G }
  refine ⟨o, ho, hw, hu, ?_⟩
  intro n hn X hX a ha
  have hinv := fold_inv S hS G hG hnr (sccOrder G) [] (zeroVal G) (by simp) (by intro X hX; simp at hX)
    X ((mem_sccOrder_flatten G hG X).2 hX)
  rw [valCell_eq_getT, hv]
  show getT S (cellsOf S G ((sccOrder G).foldl (step S G) (zeroVal G)) X) _ a = _
  rw [hinv, ← kleene_stable_of_nonrecursive S hS G hG hnr n hn X hX, ← valCell_eq_getT]
  exact kleene_cell_eq_derivSum S hS G (hty_of_wf G hG) n X hX a ha

/-- non-vacuity: a two-level grammar `S → a X`, `X → b | c` (Boolean weights) is well formed, non-recursive, and the
model returns a value -/
example : (sumProducts boolSR (fun _ => true)
    ({ nls := [2], terms := [[0], [0], [0]], nts := [[], [0]], start := 0,
       rules := [⟨0, [0], [], [(0, [0]), (4, [0])]⟩, ⟨1, [0], [0], [(1, [0])]⟩, ⟨1, [0], [0], [(2, [0])]⟩],
       weights := [[true, true], [true, false], [false, false]] } : Grammar Bool) .newton 0).toOption.map (·.value)
    = some [some [true], some [true, false]] := by decide

end C01
