/-
C11b — the value returned by the driver loop does not depend on how the grammar is written down, nor on
the method and iteration budget requested: two runs of the model of `sum_products` — on two presentations of the
same grammar (rules permuted, edges of every rule permuted, nodes of every rule renumbered), with any two
modelled methods (`fixed-point`, `linear`, `newton` where it downgrades to `linear`) and any budgets — that both
return without raising, without a warning and inside the model, return the same tensor for every nonterminal.
Both values are the least fixed point of the same equation system (C02d.sumProducts_isLeast,
C12b.F_samePresentation), and the least fixed point is unique when the order is antisymmetric.
-/
import FggsModel.Pipeline
import FggsProofs.PipeLemmas
import FggsProofs.Props.C02d
import FggsProofs.Props.C12b
import FggsProofs.Props.C12c
import FggsProofs.Props.C09b
import FggsProofs.C12cLemmas
import Mathlib.Tactic.Linarith
import Mathlib.Data.List.Basic

set_option linter.unusedSimpArgs false
set_option linter.unusedVariables false

namespace C11
open Fggs Fggs.Sem Fggs.Pipe PipeL

variable {K : Type}

/-- **the options change the cost, never the answer** (same grammar; any two modelled methods, any two budgets) -/
theorem sumProducts_method_independent [BEq K] (hbeq : ∀ a b : K, (a == b) = true → a = b)
    (S : SR K) (le : K → K → Prop) (star : K → K) (h : C09b.OrdStarLaws S le star) (hle : C02.OrdLaws S le)
    (hanti : ∀ a b, le a b → le b a → a = b)
    (G : Grammar K) (hG : GrammarWF G)
    (m m' : Method) (hm : m ≠ .oneStep) (hm' : m' ≠ .oneStep) (kmax kmax' : Nat) (o o' : Outcome K)
    (hok : sumProducts S star G m kmax = .ok o) (hok' : sumProducts S star G m' kmax' = .ok o')
    (hw : o.warned = false) (hw' : o'.warned = false) (hu : o.unmodelled = false) (hu' : o'.unmodelled = false) :
    ∀ X, X < G.nts.length → cellsOf S G o.value X = cellsOf S G o'.value X :=
  C12cL.sumProducts_unique hbeq S le star h hle hanti G G rfl rfl (fun _ => rfl)
    hG hG m m' hm hm' kmax kmax' o o' hok hok' hw hw' hu hu'

/-- the hypotheses are satisfiable together: the Boolean semiring with its order and star -/
theorem bool_instance : C09b.OrdStarLaws boolSR C09b.boolLe (fun _ => true) ∧ C02.OrdLaws boolSR C09b.boolLe ∧
    (∀ a b, C09b.boolLe a b → C09b.boolLe b a → a = b) :=
  ⟨C09b.boolOrdStar,
   { refl := C09b.boolOrdStar.refl
     trans := C09b.boolOrdStar.trans
     zero_le := C09b.zero_least_instances.1
     add_mono := C09b.boolOrdStar.add_mono
     mul_mono := C09b.boolOrdStar.mul_mono },
   C09b.boolLe_antisymm⟩

end C11
