/-
C02e — Newton's method (`newton` of sum_product.py, model `Nw.*` of FggsModel/Newton.lean).

In every ordered commutative semiring with star law and star induction in which zero is least:
 * every Newton step dominates the fixed-point step: `x ≤ N(x)` and `F(x) ≤ N(x)`, so the k-th Newton iterate is at
   least the k-th Kleene iterate (`newtonStep_ge`; CORRECTED: for an `x` whose tensors have the right number of cells,
   as every iterate of `newton` has — the statement for arbitrary `x` fails, `newtonStep_ge_counterexample`);
and if moreover addition is IDEMPOTENT (Boolean, Viterbi: the semirings in which the library compares values exactly):
 * a Newton step never overshoots: from `x ≤ y` and `F(y) ≤ y` it follows `N(x) ≤ y` (`newtonStep_le_prefixed`) — the
   Taylor inequality `F(x) + J(x)·y ≤ F(x + y)` with `x + y = y`, and the leastness of the linear solve;
 * hence a run of `newton` that stops without a warning returns a fixed point of the component's equations that lies
   below every pre-fixed point (`newton_isLeast`), and the driver loop with Newton included returns the least fixed
   point of the grammar (`sumProductsN_isLeast`).
For the Real semiring (not idempotent) the overshoot bound needs cancellation and is NOT proved here; there the values are
compared with the certified enclosure of the least fixed point on every run.
-/
import FggsModel.Newton
import FggsProofs.PipeLemmas
import FggsProofs.C02cLemmas
import FggsProofs.C02dLemmas
import FggsProofs.C02eLemmas
import FggsProofs.C03bLemmas
import FggsProofs.Props.C02b
import FggsProofs.Props.C02c
import FggsProofs.Props.C02d
import FggsProofs.Props.C03b
import FggsProofs.Props.C09b
import FggsProofs.Props.C11
import Mathlib.Tactic.Linarith
import Mathlib.Data.List.Basic

set_option linter.unusedSimpArgs false
set_option linter.unusedVariables false

namespace C02
open Fggs Fggs.Sem Fggs.Pipe Fggs.Nw PipeL C02eL

variable {K : Type}

/-- what the Newton step uses of the semiring's `sub` and `maximum`, beyond the ordered-semiring-with-star laws -/
structure NewtonLaws (S : SR K) (le : K → K → Prop) (star : K → K) (sub maxOp : K → K → K) : Prop where
  ord : C09b.OrdStarLaws S le star
  zero_le : ∀ a, le S.zero a
  max_left : ∀ a b, le a (maxOp a b)
  max_right : ∀ a b, le b (maxOp a b)
  max_lub : ∀ a b c, le a c → le b c → le (maxOp a b) c
  sub_le : ∀ a b, le (sub a b) a

/-- cellwise order on the component's nonterminals -/
def CompLe (S : SR K) (le : K → K → Prop) (G : Grammar K) (comp : List Nat) (a b : Val K) : Prop :=
  ∀ X ∈ comp, List.Forall₂ le (cellsOf S G a X) (cellsOf S G b X)

private theorem maxSub_of {S : SR K} {le : K → K → Prop} {star : K → K} {sub maxOp : K → K → K}
    (h : NewtonLaws S le star sub maxOp) : MaxSub le sub maxOp :=
  ⟨h.max_left, h.max_right, h.max_lub, h.sub_le⟩

/-- THE STATEMENT AS ORIGINALLY GIVEN (for every `x0 : Val K`).  It is FALSE: `CompLe` compares the cell lists with
`List.Forall₂`, so the two lists must have the same length, but a tensor of `x0` with the wrong number of cells (for
instance `some []` for a nonterminal with two cells) is truncated by the `zipWith`s of the step: the next iterate then
has fewer cells than `F(x0)` (which always has the right number).  See `newtonStep_ge_counterexample`. -/
def newtonStep_ge_statement : Prop :=
  ∀ (K : Type) [BEq K] (S : SR K) (le : K → K → Prop) (star : K → K) (sub maxOp : K → K → K)
    (h : NewtonLaws S le star sub maxOp) (G : Grammar K) (hG : GrammarWF G) (comp : List Nat) (hc : CompOK G comp)
    (x x0 : Val K),
    CompLe S le G comp x0 (newtonStep S star sub maxOp G x comp x0).1 ∧
    CompLe S le G comp (compF S G x comp x0) (newtonStep S star sub maxOp G x comp x0).1

/-- **a Newton step dominates its argument and the fixed-point step**

CORRECTED STATEMENT: the extra hypothesis `hx0` says that the tensors of `x0` on the component have the right number of
cells (true of every iterate of `newton`, which starts from the zero tensors: `C02eL.below_zero`,
`C02eL.length_cellsOf_step`).  Without it the original statement `newtonStep_ge_statement` fails
(`newtonStep_ge_counterexample`). -/
theorem newtonStep_ge [BEq K] (S : SR K) (le : K → K → Prop) (star : K → K) (sub maxOp : K → K → K)
    (h : NewtonLaws S le star sub maxOp) (G : Grammar K) (hG : GrammarWF G) (comp : List Nat) (hc : CompOK G comp)
    (x x0 : Val K)
    -- extra hypothesis: `x0` is shaped on the component
    (hx0 : ∀ X ∈ comp, (cellsOf S G x0 X).length = numel (G.shapeOf (G.nts[X]?.getD []))) :
    CompLe S le G comp x0 (newtonStep S star sub maxOp G x comp x0).1 ∧
    CompLe S le G comp (compF S G x comp x0) (newtonStep S star sub maxOp G x comp x0).1 :=
  step_ge S h.ord.sr le h.ord.trans star sub maxOp (maxSub_of h) G hG x comp hc.nodup hc.range x0 hx0

/-- **in an idempotent semiring a Newton step never overshoots a pre-fixed point** -/
theorem newtonStep_le_prefixed [BEq K] (S : SR K) (le : K → K → Prop) (star : K → K) (sub maxOp : K → K → K)
    (h : NewtonLaws S le star sub maxOp) (hidem : ∀ a, S.add a a = a)
    (G : Grammar K) (hG : GrammarWF G) (comp : List Nat) (hc : CompOK G comp) (x x0 y : Val K)
    (hx0 : CompLe S le G comp x0 y) (hy : CompLe S le G comp (compF S G x comp y) y) :
    CompLe S le G comp (newtonStep S star sub maxOp G x comp x0).1 y :=
  step_le S le star h.ord h.zero_le sub maxOp (maxSub_of h) hidem G hG comp hc.nodup hc.range x x0 y hx0 hy

/-- **a run of `newton` that stops returns the least fixed point of the component's equations** (idempotent case;
antisymmetric order) -/
theorem newton_isLeast [BEq K] (hbeq : ∀ a b : K, (a == b) = true → a = b)
    (S : SR K) (le : K → K → Prop) (star : K → K) (sub maxOp : K → K → K)
    (h : NewtonLaws S le star sub maxOp) (hidem : ∀ a, S.add a a = a) (hanti : ∀ a b, le a b → le b a → a = b)
    (G : Grammar K) (hG : GrammarWF G) (comp : List Nat) (hc : CompOK G comp) (x : Val K) (kmax : Nat) (ys : Val K)
    (hrun : newton S star sub maxOp G x comp kmax = (ys, false)) :
    (∀ X ∈ comp, cellsOf S G (compF S G x comp ys) X = cellsOf S G ys X) ∧
    (∀ y, CompLe S le G comp (compF S G x comp y) y → CompLe S le G comp ys y) :=
  newton_least hbeq S le star h.ord h.zero_le sub maxOp (maxSub_of h) hidem hanti G hG comp hc.nodup hc.range x kmax ys
    hrun

/-- **the driver loop with Newton's method returns the least fixed point of the grammar** (idempotent case): any method,
no exception, no warning -/
theorem sumProductsN_isLeast [BEq K] (hbeq : ∀ a b : K, (a == b) = true → a = b)
    (S : SR K) (le : K → K → Prop) (star : K → K) (sub maxOp : K → K → K)
    (h : NewtonLaws S le star sub maxOp) (hidem : ∀ a, S.add a a = a) (hanti : ∀ a b, le a b → le b a → a = b)
    (G : Grammar K) (hG : GrammarWF G) (m : Method) (hm : m ≠ .oneStep) (kmax : Nat) (o : Outcome K)
    (hok : sumProductsN S star sub maxOp G m kmax = .ok o) (hw : o.warned = false) :
    (∀ X, X < G.nts.length → cellsOf S G (F S G o.value) X = cellsOf S G o.value X) ∧
    (∀ y, ValLe S le G (F S G y) y → ValLe S le G o.value y) :=
  sumProductsN_least hbeq S le star h.ord h.zero_le sub maxOp (maxSub_of h) hidem hanti G hG m hm kmax o hok hw

/-- the Boolean semiring satisfies all the hypotheses -/
theorem bool_newtonLaws : NewtonLaws boolSR C09b.boolLe (fun _ => true) (fun a b => a && !b) (· || ·) ∧
    (∀ a : Bool, boolSR.add a a = a) ∧ (∀ a b, C09b.boolLe a b → C09b.boolLe b a → a = b) := by
  refine ⟨⟨C09b.boolOrdStar, C09b.zero_least_instances.1, ?_, ?_, ?_, ?_⟩, ?_, C09b.boolLe_antisymm⟩
  · intro a b; cases a <;> cases b <;> simp [C09b.boolLe]
  · intro a b; cases a <;> cases b <;> simp [C09b.boolLe]
  · intro a b c; cases a <;> cases b <;> cases c <;> simp [C09b.boolLe]
  · intro a b; cases a <;> cases b <;> simp [C09b.boolLe]
  · intro a; cases a <;> rfl

/-- the grammar `X → X X | a` over the Booleans (the one of the `example` below) -/
private def cexG : Grammar Bool :=
  ⟨[2], [[0]], [[0]], 0,
    [⟨0, [0], [0], [(1, [0]), (1, [0])]⟩, ⟨0, [0], [0], [(0, [0])]⟩],
    [[true, false]]⟩

private theorem cexG_wf : GrammarWF cexG := by
  refine ⟨by decide, by decide, ?_⟩
  intro r hr
  have hr' : r = ⟨0, [0], [0], [(1, [0]), (1, [0])]⟩ ∨ r = ⟨0, [0], [0], [(0, [0])]⟩ := by
    simpa [cexG] using hr
  rcases hr' with rfl | rfl
  · exact ⟨by decide, by decide, by decide, by decide⟩
  · exact ⟨by decide, by decide, by decide, by decide⟩

/-- **counterexample to the original statement of `newtonStep_ge`**: for `X → X X | a` over the Booleans (`X` has two
cells) and `x0 = [some []]` (a tensor with no cell), `F(x0)` has two cells and the next iterate has none -/
theorem newtonStep_ge_counterexample : ¬ newtonStep_ge_statement := by
  intro hst
  have h := (hst Bool boolSR C09b.boolLe (fun _ => true) (fun a b => a && !b) (· || ·) bool_newtonLaws.1
    cexG cexG_wf [0] ⟨by decide, by decide⟩ [none] [some []]).2 0 (by decide)
  have hl := h.length_eq
  revert hl
  decide

/-- non-vacuity: `X → X X | a` (not linear: Newton proper) over the Booleans stops at once with the least solution -/
example : ((sumProductsN boolSR (fun _ => true) (fun a b => a && !b) (· || ·)
    (⟨[2], [[0]], [[0]], 0,
       [⟨0, [0], [0], [(1, [0]), (1, [0])]⟩, ⟨0, [0], [0], [(0, [0])]⟩],
       [[true, false]]⟩ : Grammar Bool) .newton 5).toOption.map
        (fun o => (o.value, o.warned, o.unmodelled))) = some ([some [true, false]], false, false) := by decide

end C02
