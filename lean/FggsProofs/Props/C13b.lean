/-
C13b — `PatternedTensor.equal` / `allclose` AS THE LIBRARY COMPUTES THEM (model `Eq.compareImpl`: the overlap found by
unification, read through the strided views of `project`, marked by `fill_`) decide the elementwise comparison of the
dense tensors: `compareImpl` equals `PT.compareModel` (whose overlap is the intersection of the images), which C13
proves equal to the specification `PT.compareSpec`.

Hypothesis `Eq.faithful` (decided per pair by the driver): a failed unification fails on disjoint patterns — `unify`
is not complete in general (C06b.unify_complete_statement_counterexample, finding D41) — and a successful one did not
exhaust the model's fuel.

EXTRA hypothesis `resolved` (decidable from the run, defined below): every binding of the substitution found by a
successful unification is resolved by `FUEL - 1` units of fuel (`faithful` checks this only for the bindings that the
physical axes of the operands forward to).  The statements as given are kept as `compareImpl_eq_compareModel_statement`
and `compareImpl_eq_compareSpec_statement`.  That `projectOnto` does not raise is PROVED (both operands have the same
free axes under the substitution, `C13bL.Succ.projectOnto_some`).
-/
import FggsModel.EqualImpl
import FggsProofs.Props.C13
import FggsProofs.Props.C06b
import FggsProofs.Props.C07e
import FggsProofs.C06bLemmas
import FggsProofs.C06dBaseLemmas
import FggsProofs.C07eStrideLemmas
import FggsProofs.C13bCombLemmas
import FggsProofs.C13bKeysLemmas
import FggsProofs.C13bSizeLemmas
import FggsProofs.C13bMainLemmas
import Mathlib.Tactic.Linarith
import Mathlib.Data.List.Basic

set_option linter.unusedSimpArgs false
set_option linter.unusedVariables false

namespace C13b
open Fggs Fggs.Ax Fggs.Un Fggs.Sd Fggs.Eq

/-- the operands as `equal` sees them: well formed, no empty axis, disjoint identities below the counter -/
structure OperandsOK (t u : PT) (next : Nat) : Prop where
  wft : t.wf = true
  wfu : u.wf = true
  post : ∀ p ∈ t.paxes, 0 < p.2
  posu : ∀ p ∈ u.paxes, 0 < p.2
  disj : ∀ p ∈ t.paxes, ∀ q ∈ u.paxes, p.1 ≠ q.1
  below : ∀ p ∈ t.paxes ++ u.paxes, p.1 < next

/-! ### the extra hypothesis: `FUEL` resolves every binding

`faithful` checks that the clones of the PHYSICAL AXES OF THE OPERANDS contain no bound axis.  The proof that every
assignment of the free axes selects a pair of elements of the overlap applies the soundness of unification
(`C06b.unifyAll_sound`) to an assignment that satisfies the WHOLE final substitution, including the bindings of fresh
axes that no physical axis of an operand forwards to (the split branches of `unifyProd` make such bindings); such an
assignment is obtained by lifting the assignment of the free axes along the bindings (`C07bL.lift_sat`), which needs
every binding to be resolved by `FUEL - 1` units of fuel.  `resolved` is that (decidable) check on the run — the same
check as the second conjunct of `C07.resolved` for `einsum`.  (That it follows from `faithful` would need a
reachability/acyclicity invariant of `unify` which the available theorems about `unify` do not provide: `unify` has no
occurs check.) -/

/-- every binding of the substitution found by a successful unification is resolved by `FUEL - 1` units of fuel -/
def resolved (fuel : Nat) (t u : PT) (next : Nat) : Bool :=
  match unifyAll fuel (t.vaxes.zip u.vaxes) ⟨[], next⟩ with
  | (false, _) => true
  | (true, st) =>
    st.subst.all (fun p => (clone st.subst (FUEL - 1) p.2).fv.all (fun q => (bound st.subst q.1).isNone))

/-- the statement as it was given (without `resolved`); it is neither proved nor refuted here -/
def compareImpl_eq_compareModel_statement : Prop :=
  ∀ (cmp : Ext → Ext → Bool) (fuel : Nat) (t u : PT) (next : Nat), OperandsOK t u next →
    faithful fuel t u next = true → compareImpl cmp fuel t u next = some (PT.compareModel cmp t u)

/-- the statement of the corollary as it was given (without `resolved`) -/
def compareImpl_eq_compareSpec_statement : Prop :=
  ∀ (cmp : Ext → Ext → Bool) (fuel : Nat) (t u : PT) (next : Nat), OperandsOK t u next →
    faithful fuel t u next = true → compareImpl cmp fuel t u next = some (PT.compareSpec cmp t u)

private theorem ops_of {t u : PT} {next : Nat} (h : OperandsOK t u next) : C13bL.Ops t u next :=
  ⟨(C06dL.wf_iff_struct t).1 h.wft, (C06dL.wf_iff_struct u).1 h.wfu, h.post, h.posu, h.disj, h.below⟩

/-- `compareImpl` when the unification fails -/
private theorem impl_fail (cmp : Ext → Ext → Bool) (fuel : Nat) (t u : PT) (next : Nat) (hvs : t.vshape = u.vshape)
    {st : St} (hrun : unifyAll fuel (t.vaxes.zip u.vaxes) ⟨[], next⟩ = (false, st)) :
    compareImpl cmp fuel t u next = C13bL.implBody cmp t u [] := by
  have hne : (t.vshape != u.vshape) = false := by simp [hvs]
  rw [C13bL.implBody_nil]
  unfold compareImpl
  rw [hne]
  simp only [Bool.false_eq_true, if_false, hrun]

/-- `compareImpl` when the unification succeeds and `projectOnto` does not raise -/
private theorem impl_succ (cmp : Ext → Ext → Bool) (fuel : Nat) (t u : PT) (next : Nat) (hvs : t.vshape = u.vshape)
    {st : St} (hrun : unifyAll fuel (t.vaxes.zip u.vaxes) ⟨[], next⟩ = (true, st)) {w : View}
    (hw : projectOnto (contiguous (u.paxes.map (·.2))) (C13bL.subaxes t st.subst)
      (u.paxes.map (fun k => Axis.phys k.1 k.2)) st.subst = some w) :
    compareImpl cmp fuel t u next =
      C13bL.implBody cmp t u (C13bL.pairs st.subst t u (C13bL.subaxes t st.subst)) := by
  have hne : (t.vshape != u.vshape) = false := by simp [hvs]
  unfold C13bL.subaxes at hw
  unfold compareImpl
  rw [hne]
  simp only [Bool.false_eq_true, if_false, hrun, hw]
  rfl

/-- **the implementation's decision procedure is the model's** (any elementwise test)

EXTRA HYPOTHESIS (not in the statement as given, see `compareImpl_eq_compareModel_statement`): `hres`, the decidable
check that `FUEL - 1` units of fuel resolve every binding of the substitution found by the unification. -/
theorem compareImpl_eq_compareModel (cmp : Ext → Ext → Bool) (fuel : Nat) (t u : PT) (next : Nat)
    (h : OperandsOK t u next) (hf : faithful fuel t u next = true)
    (hres : resolved fuel t u next = true) :
    compareImpl cmp fuel t u next = some (PT.compareModel cmp t u) := by
  have hO := ops_of h
  by_cases hvs : t.vshape = u.vshape
  · rw [C13bL.compareModel_eq_body cmp t u hvs]
    rcases hrun : unifyAll fuel (t.vaxes.zip u.vaxes) ⟨[], next⟩ with ⟨ok, st⟩
    cases ok with
    | false =>
      -- no cell is backed by both operands
      unfold faithful at hf
      rw [hrun] at hf
      simp only [Bool.not_eq_true', List.any_eq_false, List.any_eq_true, beq_iff_eq, not_exists, not_and] at hf
      rw [impl_fail cmp fuel t u next hvs hrun]
      apply C13bL.implBody_eq cmp t u hO.st hO.su [] List.nodup_nil
      intro i j
      constructor
      · intro hm; simp at hm
      · rintro ⟨hi, hj, hk⟩
        exact absurd hk.symm (hf _ (List.getElem_mem hi) _ (List.getElem_mem hj))
    | true =>
      unfold faithful at hf
      unfold resolved at hres
      rw [hrun] at hf hres
      simp only [Bool.and_eq_true] at hf
      have hnd : (st.subst.map (·.1)).Nodup := (C06dL.nodupNat_iff _).1 hf.1
      have hg : C07bL.GoodS st.subst 3999 := by
        intro p hp q hq
        have := List.all_eq_true.1 (List.all_eq_true.1 hres p hp) q hq
        simpa using this
      obtain ⟨sz, S⟩ := C13bL.succ_of_run hO hvs hrun hnd hg
      obtain ⟨w, hw⟩ := S.projectOnto_some hO
      have F := S.freeAx hO
      rw [impl_succ cmp fuel t u next hvs hrun hw]
      exact C13bL.implBody_eq cmp t u hO.st hO.su _ (S.pairs_nodup hO F) (S.pairs_mem hO F)
  · have hne : (t.vshape != u.vshape) = true := by simpa using hvs
    unfold compareImpl PT.compareModel
    rw [hne]
    rfl

/-- hence `equal` and `allclose` as computed decide the comparison of the dense tensors
(same extra hypothesis `hres` as `compareImpl_eq_compareModel`) -/
theorem compareImpl_eq_compareSpec (cmp : Ext → Ext → Bool) (fuel : Nat) (t u : PT) (next : Nat)
    (h : OperandsOK t u next) (hf : faithful fuel t u next = true)
    (hres : resolved fuel t u next = true) :
    compareImpl cmp fuel t u next = some (PT.compareSpec cmp t u) := by
  rw [compareImpl_eq_compareModel cmp fuel t u next h hf hres, C13.compareModel_eq_compareSpec cmp t u h.wft h.wfu]

/-! ### non-vacuity: a diagonal 2 × 2 pattern against a dense 2 × 2 tensor -/

def exA : PT := { physical := [.fin 5, .fin 7], paxes := [(0, 2)], vaxes := [.phys 0 2, .phys 0 2], default := .fin 0 }
def exB : PT := { physical := [.fin 5, .fin 0, .fin 0, .fin 7], paxes := [(1, 2), (2, 2)], vaxes := [.phys 1 2, .phys 2 2], default := .fin 0 }

example : OperandsOK exA exB 3 := by
  refine ⟨by decide, by decide, by decide, by decide, by decide, by decide⟩

example : faithful 50 exA exB 3 = true ∧ compareImpl Ext.eqIEEE 50 exA exB 3 = some true := by
  refine ⟨by decide, by decide⟩

/-- the extra hypothesis holds for it, too (the unification binds `1 ↦ 2` and `0 ↦ 1`) -/
example : resolved 50 exA exB 3 = true := by decide

/-- so the theorem applies: the dense tensors are equal -/
example : PT.compareSpec Ext.eqIEEE exA exB = true := by
  have h := compareImpl_eq_compareSpec Ext.eqIEEE 50 exA exB 3
    ⟨by decide, by decide, by decide, by decide, by decide, by decide⟩ (by decide) (by decide)
  have h2 : compareImpl Ext.eqIEEE 50 exA exB 3 = some true := by decide
  rw [h2] at h
  exact (Option.some.inj h).symm

end C13b
