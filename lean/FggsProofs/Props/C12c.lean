/-
C12c / C11b — the value returned by the driver loop does not depend on how the grammar is written down, nor on
the method and iteration budget requested: two runs of the model of `sum_products` — on two presentations of the
same grammar (rules permuted, edges of every rule permuted, nodes of every rule renumbered), with any two
modelled methods (`fixed-point`, `linear`, `newton` where it downgrades to `linear`) and any budgets — that both
return without raising, without a warning and inside the model, return the same tensor for every nonterminal.
Both values are the least fixed point of the same equation system (C02d.sumProducts_isLeast,
C12b.F_samePresentation), and the least fixed point is unique when the order is antisymmetric.
-/
import FggsModel.Pipeline
import FggsProofs.PipeLemmas
import FggsProofs.Props.C02d
import FggsProofs.Props.C12b
import FggsProofs.Props.C09b
import FggsProofs.C12cLemmas
import Mathlib.Tactic.Linarith
import Mathlib.Data.List.Basic

set_option linter.unusedSimpArgs false
set_option linter.unusedVariables false

namespace C12
open Fggs Fggs.Sem Fggs.Pipe PipeL

variable {K : Type}

/-- **presentation-, method- and budget-independence of the driver loop** -/
theorem sumProducts_samePresentation [BEq K] (hbeq : ∀ a b : K, (a == b) = true → a = b)
    (S : SR K) (le : K → K → Prop) (star : K → K) (h : C09b.OrdStarLaws S le star) (hle : C02.OrdLaws S le)
    (hanti : ∀ a b, le a b → le b a → a = b)
    (G G' : Grammar K) (hp : C12b.SamePresentation G G') (hG : GrammarWF G) (hG' : GrammarWF G')
    (m m' : Method) (hm : m ≠ .oneStep) (hm' : m' ≠ .oneStep) (kmax kmax' : Nat) (o o' : Outcome K)
    (hok : sumProducts S star G m kmax = .ok o) (hok' : sumProducts S star G' m' kmax' = .ok o')
    (hw : o.warned = false) (hw' : o'.warned = false) (hu : o.unmodelled = false) (hu' : o'.unmodelled = false) :
    ∀ X, X < G.nts.length → cellsOf S G o.value X = cellsOf S G' o'.value X :=
  C12cL.sumProducts_unique hbeq S le star h hle hanti G G' hp.nts hp.nls
    (fun x => C12b.F_samePresentation S h.sr G G' hp (fun r hr => (hG.rule r hr).ext)
      (fun r hr => (hG.rule r hr).att) x)
    hG hG' m m' hm hm' kmax kmax' o o' hok hok' hw hw' hu hu'

end C12

