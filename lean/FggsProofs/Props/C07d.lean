/-
C07d — the patterned einsum denotes the semiring einsum of the dense operands, for semirings that are lawful ON A
CARRIER: the carrier-relative version of `C07.einsum_dense` (C07b).

No semiring of the library satisfies `C01.SRLaws` on all of `Ext`: `realSR` and `vitSR` are commutative semirings only
on their carriers `[0, ∞]` and `[-∞, ∞]` (C08, C11), and the Boolean semiring is encoded in `Ext` by `fin 0`/`fin 1`
(`Ei.boolExtSR`).  `CarrierLaws S C` (FggsProofs/C07dAlgLemmas.lean) says that `C` contains the constants, is closed
under the operations, and that the laws hold for arguments in `C`.  `einsum_dense_on` is `einsum_dense` with `SRLaws`
replaced by `CarrierLaws` and the hypothesis that all physical elements of the operands are in the carrier (the
defaults are `S.zero`).  The index bookkeeping of C07b is reused; only the algebraic steps (re-indexing of sums,
products with a zero factor) are redone for lists of carrier elements (FggsProofs/C07dLemmas.lean).
-/
import FggsProofs.Props.C07b
import FggsProofs.Props.C08
import FggsProofs.Props.C11
import FggsProofs.C07dAlgLemmas
import FggsProofs.C07dLemmas

set_option linter.unusedSimpArgs false
set_option linter.unusedVariables false

namespace C07
open Fggs Fggs.Ax Fggs.Un Fggs.Ei Fggs.Sem

private theorem toHyp' {S : SR Ext} {j : EJob} {next : Nat} (h : JobOK S j next) : C07bL.JobHyp S j next :=
  ⟨h.wf, h.zeroDefault, h.arity, h.fresh, h.pos, h.disjoint, h.sizes, h.out⟩

private theorem unbound_iff' (σ : Subst) (e : Axis) : unbound σ e = true ↔ C07bL.Unb σ e := by
  unfold unbound C07bL.Unb
  rw [List.all_eq_true]
  constructor
  · intro h q hq
    have := h q hq
    simpa using this
  · intro h q hq
    rw [h q hq]; rfl

private theorem resolvedAt_of' {fuel : Nat} {j : EJob} {next : Nat} {tbl : List (Nat × Axis)} {ok : Bool} {st : St}
    (hc : collect fuel j next = (tbl, ok, st)) (h : resolved fuel j next = true) :
    C07bL.ResolvedAt st.subst tbl j.out := by
  unfold resolved at h
  rw [hc] at h
  simp only [Bool.and_eq_true] at h
  obtain ⟨⟨h1, h2⟩, h3⟩ := h
  refine ⟨(C06dL.nodupNat_iff _).1 h1, ?_, ?_⟩
  · intro p hp
    exact (unbound_iff' _ _).1 (List.all_eq_true.1 h2 p hp)
  · intro v hv
    exact (unbound_iff' _ _).1 (List.all_eq_true.1 h3 v hv)

/-- **the patterned einsum is the semiring einsum of the dense operands, for a semiring lawful on a carrier** that
contains every physical element of the operands.  Hypotheses as in `einsum_dense` (including the decidable check
`resolved`, without which the statement is false: `einsum_dense_counterexample`), `SRLaws S` replaced by
`CarrierLaws S C` and `hvals`. -/
theorem einsum_dense_on (S : SR Ext) (C : Ext → Prop) (hC : CarrierLaws S C) (fuel : Nat) (j : EJob) (next : Nat)
    (h : JobOK S j next) (hne : j.ops ≠ [])
    (hok : (collect fuel j next).2.1 = true)
    (hres : resolved fuel j next = true)
    (hvals : ∀ p ∈ j.ops, ∀ c ∈ p.1.physical, C c) :
    let r := einsum S fuel j next
    r.wf = true ∧ r.vshape = j.out.map (fun v => (toSpec j).sizes[v]?.getD 1) ∧
    r.dense = (toSpec j).spec S id := by
  intro r
  have J := toHyp' h
  rcases hc : collect fuel j next with ⟨tbl, ok, st⟩
  rw [hc] at hok
  simp only at hok
  subst hok
  obtain ⟨sz, F⟩ := C07bL.facts_of_collect J hc
  have R := resolvedAt_of' hc hres
  have hz : (C07bL.allAxesOf j st.subst).any (fun k => k.2 == 0) = false := by
    rw [List.any_eq_false]
    intro q hq
    have := (C07bL.allAxes_props J F R hq).2.1.2.2
    simp only [beq_iff_eq]
    omega
  have hr : r = Bn.normalize (C07bL.rawOf S j tbl st.subst) := C07bL.einsum_eq S fuel j next tbl st hne hc hz
  obtain ⟨n1, n2, n3⟩ := C06dL.normalize_spec (C07bL.raw_normOK (S := S) J F R)
  rw [hr]
  refine ⟨n1, ?_, ?_⟩
  · rw [n2]; exact C07bL.raw_vshape J F 1
  · rw [n3]; exact C07dL.raw_dense_on hC hvals J F R

/-- a semiring lawful on all of `Ext` is lawful on every carrier closed under its operations; in particular
`einsum_dense` is the instance `C := fun _ => True` of `einsum_dense_on` -/
theorem carrierLaws_of_laws (S : SR Ext) (hS : C01.SRLaws S) : CarrierLaws S (fun _ => True) :=
  ⟨trivial, trivial, fun _ _ _ _ => trivial, fun _ _ _ _ => trivial,
   fun a b c _ _ _ => hS.add_assoc a b c, fun a b _ _ => hS.add_comm a b, fun a _ => hS.zero_add a,
   fun a b c _ _ _ => hS.mul_assoc a b c, fun a b _ _ => hS.mul_comm a b, fun a _ => hS.one_mul a,
   fun a _ => hS.zero_mul a, fun a b c _ _ _ => hS.left_distrib a b c⟩

/-! ### the library's semirings -/

/-- a lawful semiring on the subtype of a carrier whose operations are the restrictions of those of `S` makes `S`
lawful on the carrier -/
theorem carrierLaws_of_hom (S : SR Ext) (C : Ext → Prop) (SK : SR {x : Ext // C x}) (hK : C01.SRLaws SK)
    (hf : C11.Hom SK S (fun x => x.1)) : CarrierLaws S C where
  zero := hf.zero ▸ SK.zero.2
  one := hf.one ▸ SK.one.2
  add := fun a b ha hb => by
    have := hf.add ⟨a, ha⟩ ⟨b, hb⟩
    simp only at this
    rw [← this]; exact (SK.add ⟨a, ha⟩ ⟨b, hb⟩).2
  mul := fun a b ha hb => by
    have := hf.mul ⟨a, ha⟩ ⟨b, hb⟩
    simp only at this
    rw [← this]; exact (SK.mul ⟨a, ha⟩ ⟨b, hb⟩).2
  add_assoc := fun a b c ha hb hc => by
    have := congrArg Subtype.val (hK.add_assoc ⟨a, ha⟩ ⟨b, hb⟩ ⟨c, hc⟩)
    simpa only [hf.add] using this
  add_comm := fun a b ha hb => by
    have := congrArg Subtype.val (hK.add_comm ⟨a, ha⟩ ⟨b, hb⟩)
    simpa only [hf.add] using this
  zero_add := fun a ha => by
    have := congrArg Subtype.val (hK.zero_add ⟨a, ha⟩)
    simpa only [hf.add, hf.zero] using this
  mul_assoc := fun a b c ha hb hc => by
    have := congrArg Subtype.val (hK.mul_assoc ⟨a, ha⟩ ⟨b, hb⟩ ⟨c, hc⟩)
    simpa only [hf.mul] using this
  mul_comm := fun a b ha hb => by
    have := congrArg Subtype.val (hK.mul_comm ⟨a, ha⟩ ⟨b, hb⟩)
    simpa only [hf.mul] using this
  one_mul := fun a ha => by
    have := congrArg Subtype.val (hK.one_mul ⟨a, ha⟩)
    simpa only [hf.mul, hf.one] using this
  zero_mul := fun a ha => by
    have := congrArg Subtype.val (hK.zero_mul ⟨a, ha⟩)
    simpa only [hf.mul, hf.zero] using this
  left_distrib := fun a b c ha hb hc => by
    have := congrArg Subtype.val (hK.left_distrib ⟨a, ha⟩ ⟨b, hb⟩ ⟨c, hc⟩)
    simpa only [hf.mul, hf.add] using this

/-- the Real semiring is a commutative semiring on `[0, ∞]` -/
theorem realSR_carrier : CarrierLaws realSR C08.RealC :=
  carrierLaws_of_hom realSR C08.RealC C11.realK C11.realK_laws C11.real_val_hom

/-- the Viterbi semiring is a commutative semiring on `[-∞, ∞]` -/
theorem vitSR_carrier : CarrierLaws vitSR C08.VitC :=
  carrierLaws_of_hom vitSR C08.VitC C11.vitK C11.vitK_laws C11.vit_val_hom

/-- the carrier of the Boolean semiring as encoded in `Ext`: `fin 0` (false) and `fin 1` (true) -/
def BoolC (x : Ext) : Prop := x = Ext.fin 0 ∨ x = Ext.fin 1

/-- the Boolean semiring encoded in `Ext` is a commutative semiring on `{0, 1}` -/
theorem boolExtSR_carrier : CarrierLaws boolExtSR BoolC where
  zero := .inl rfl
  one := .inr rfl
  add := fun a b ha hb => by
    rcases ha with rfl | rfl <;> rcases hb with rfl | rfl <;> simp [BoolC, boolExtSR, Bn.boolExt]
  mul := fun a b ha hb => by
    rcases ha with rfl | rfl <;> rcases hb with rfl | rfl <;> simp [BoolC, boolExtSR, Bn.boolExt]
  add_assoc := fun a b c ha hb hc => by
    rcases ha with rfl | rfl <;> rcases hb with rfl | rfl <;> rcases hc with rfl | rfl <;>
      simp [boolExtSR, Bn.boolExt]
  add_comm := fun a b ha hb => by
    rcases ha with rfl | rfl <;> rcases hb with rfl | rfl <;> simp [boolExtSR, Bn.boolExt]
  zero_add := fun a ha => by
    rcases ha with rfl | rfl <;> simp [boolExtSR, Bn.boolExt]
  mul_assoc := fun a b c ha hb hc => by
    rcases ha with rfl | rfl <;> rcases hb with rfl | rfl <;> rcases hc with rfl | rfl <;>
      simp [boolExtSR, Bn.boolExt]
  mul_comm := fun a b ha hb => by
    rcases ha with rfl | rfl <;> rcases hb with rfl | rfl <;> simp [boolExtSR, Bn.boolExt]
  one_mul := fun a ha => by
    rcases ha with rfl | rfl <;> simp [boolExtSR, Bn.boolExt]
  zero_mul := fun a ha => by
    rcases ha with rfl | rfl <;> simp [boolExtSR, Bn.boolExt]
  left_distrib := fun a b c ha hb hc => by
    rcases ha with rfl | rfl <;> rcases hb with rfl | rfl <;> rcases hc with rfl | rfl <;>
      simp [boolExtSR, Bn.boolExt]

/-- **the patterned einsum over the Real semiring**: operands with entries in `[0, ∞]` -/
theorem einsum_dense_real (fuel : Nat) (j : EJob) (next : Nat) (h : JobOK realSR j next) (hne : j.ops ≠ [])
    (hok : (collect fuel j next).2.1 = true) (hres : resolved fuel j next = true)
    (hvals : ∀ p ∈ j.ops, ∀ c ∈ p.1.physical, C08.RealC c) :
    let r := einsum realSR fuel j next
    r.wf = true ∧ r.vshape = j.out.map (fun v => (toSpec j).sizes[v]?.getD 1) ∧
    r.dense = (toSpec j).spec realSR id :=
  einsum_dense_on realSR C08.RealC realSR_carrier fuel j next h hne hok hres hvals

/-- **the patterned einsum over the Viterbi semiring**: operands with entries in `[-∞, ∞]` (no `nan`) -/
theorem einsum_dense_viterbi (fuel : Nat) (j : EJob) (next : Nat) (h : JobOK vitSR j next) (hne : j.ops ≠ [])
    (hok : (collect fuel j next).2.1 = true) (hres : resolved fuel j next = true)
    (hvals : ∀ p ∈ j.ops, ∀ c ∈ p.1.physical, C08.VitC c) :
    let r := einsum vitSR fuel j next
    r.wf = true ∧ r.vshape = j.out.map (fun v => (toSpec j).sizes[v]?.getD 1) ∧
    r.dense = (toSpec j).spec vitSR id :=
  einsum_dense_on vitSR C08.VitC vitSR_carrier fuel j next h hne hok hres hvals

/-- **the patterned einsum over the Boolean semiring** (encoded in `Ext`): operands with entries `fin 0`/`fin 1` -/
theorem einsum_dense_bool (fuel : Nat) (j : EJob) (next : Nat) (h : JobOK boolExtSR j next) (hne : j.ops ≠ [])
    (hok : (collect fuel j next).2.1 = true) (hres : resolved fuel j next = true)
    (hvals : ∀ p ∈ j.ops, ∀ c ∈ p.1.physical, BoolC c) :
    let r := einsum boolExtSR fuel j next
    r.wf = true ∧ r.vshape = j.out.map (fun v => (toSpec j).sizes[v]?.getD 1) ∧
    r.dense = (toSpec j).spec boolExtSR id :=
  einsum_dense_on boolExtSR BoolC boolExtSR_carrier fuel j next h hne hok hres hvals

/-! ### an instance over the Real semiring -/

/-- a vector of length 6 patterned as `2 × 3` times a dense vector of length 6, elementwise, over the Real semiring -/
def realJob : EJob :=
  ⟨[(⟨[.fin 1, .fin 2, .fin 3, .fin 4, .fin 5, .pinf], [(0, 2), (1, 3)], [.prod [.phys 0 2, .phys 1 3]], .fin 0⟩, [0]),
    (⟨[.fin 1, .fin 0, .fin 1, .fin 0, .fin 1, .fin 0], [(2, 6)], [.phys 2 6], .fin 0⟩, [0])], [0]⟩

private theorem realJob_ok : JobOK realSR realJob 3 where
  wf := by decide
  zeroDefault := by decide
  arity := by decide
  fresh := by decide
  pos := by decide
  disjoint := by decide
  sizes := by
    have h : ∀ p ∈ realJob.ops, ∀ q ∈ realJob.ops, ∀ i, i < p.2.length → ∀ i', i' < q.2.length →
        p.2[i]? = q.2[i']? → p.1.vshape[i]? = q.1.vshape[i']? := by decide
    exact fun p hp q hq i i' hi hi' => h p hp q hq i hi i' hi'
  out := by decide

/-- all hypotheses of `einsum_dense_real` hold for it -/
example : (einsum realSR FUEL realJob 3).dense = (toSpec realJob).spec realSR id :=
  (einsum_dense_real FUEL realJob 3 realJob_ok (by decide) (by decide) (by decide) (by
    intro p hp c hc
    simp only [realJob, List.mem_cons, List.not_mem_nil, or_false] at hp
    rcases hp with rfl | rfl <;> simp only [List.mem_cons, List.not_mem_nil, or_false] at hc <;>
      rcases hc with rfl | rfl | rfl | rfl | rfl | rfl <;> simp [C08.RealC])).2.2

end C07
